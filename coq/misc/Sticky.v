From Coq Require Import List Arith ZArith Lia Bool.
Import ListNotations.

(* C20, first clause: the formatter's writer wrapper stops at the first error.
   The underlying io.Writer is an oracle: the k-th WriteString call fails with an error or succeeds. *)
Definition bytes := list Z.

Section Sticky.
  Variable errT : Type.
  Variable W : nat -> option errT.          (* outcome of the k-th call, k = 0, 1, ... *)

  Record fw := { indents : list bytes; started : bool; hasWritten : bool;
                 err : option errT; calls : nat; log : list bytes }.

  (* one WriteString on the underlying writer *)
  Definition wr (w : fw) (s : bytes) : fw :=
    {| indents := indents w; started := started w; hasWritten := hasWritten w;
       err := W (calls w); calls := S (calls w); log := log w ++ [s] |}.

  (* writeStrings: stop at the first error *)
  Fixpoint writeStrings (w : fw) (l : list bytes) : fw :=
    match l with
    | [] => w
    | s :: r => let w1 := wr w s in match err w1 with Some _ => w1 | None => writeStrings w1 r end
    end.

  Variable trimmed : list bytes -> list bytes * bytes.   (* writeTrimmedIndent's choice of what to write *)
  Definition writeTrimmedIndent (w : fw) : fw :=
    let '(pre, last) := trimmed (indents w) in
    let w1 := writeStrings w pre in
    match err w1 with Some _ => w1 | None => wr w1 last end.

  Definition setFlags (w : fw) st hw : fw :=
    {| indents := indents w; started := st; hasWritten := hw; err := err w; calls := calls w; log := log w |}.

  Fixpoint findNl (s : bytes) (i : nat) : option nat :=
    match s with [] => None | c :: r => if Z.eqb c 10 then Some i else findNl r (S i) end.

  (* fw.s (format.go:395) *)
  Fixpoint s_loop (fuel : nat) (w : fw) (s : bytes) : fw :=
    match fuel with
    | O => w
    | S f =>
      match findNl s 0 with
      | None =>
        match s with
        | [] => w
        | _ =>
          let w := setFlags w (started w) true in
          let w1 := if started w then w else writeStrings w (indents w) in
          match err w1 with
          | Some _ => w1
          | None => setFlags (wr w1 s) true true
          end
        end
      | Some i =>
        let w := setFlags w (started w) true in
        if negb (started w) && Nat.eqb i 0 then
          let w1 := writeTrimmedIndent w in
          match err w1 with
          | Some _ => w1
          | None => let w2 := wr w1 [10%Z] in
                    match err w2 with Some _ => w2 | None => s_loop f w2 (skipn 1 s) end
          end
        else
          let w1 := if started w then w else writeStrings w (indents w) in
          match err w1 with
          | Some _ => w1
          | None => let w2 := wr w1 (firstn (S i) s) in
                    match err w2 with Some _ => w2 | None => s_loop f (setFlags w2 false true) (skipn (S i) s) end
          end
      end
    end.
  Definition fws (w : fw) (s : bytes) : fw :=
    match err w with Some _ => w | None => s_loop (S (length s)) w s end.

  (* The invariant: either no call has failed so far, or the last call made is the first failing one
     and its error is the latched one. *)
  Definition Inv (w : fw) : Prop :=
    (err w = None /\ forall k, k < calls w -> W k = None) \/
    (exists k e, calls w = S k /\ W k = Some e /\ err w = Some e /\ forall j, j < k -> W j = None).

  Lemma wr_inv w s : Inv w -> err w = None -> Inv (wr w s).
  Proof.
    intros [[_ Hn]|(k & e & _ & _ & He & _)] Herr; [|congruence].
    unfold Inv, wr; cbn [err calls].
    destruct (W (calls w)) as [e|] eqn:E.
    - right. exists (calls w), e. repeat split; auto.
    - left. split; [reflexivity|]. intros k Hk. destruct (Nat.eq_dec k (calls w)) as [->|]; [assumption|apply Hn; lia].
  Qed.

  Lemma writeStrings_inv l : forall w, Inv w -> err w = None -> Inv (writeStrings w l).
  Proof.
    induction l as [|s r IH]; intros w HI He; [assumption|]. cbn [writeStrings].
    pose proof (wr_inv w s HI He) as H1. destruct (err (wr w s)) eqn:E; [assumption|]. apply IH; assumption.
  Qed.

  Lemma setFlags_inv w a b : Inv w -> Inv (setFlags w a b).
  Proof. intros H. exact H. Qed.

  Lemma trimmed_inv w : Inv w -> err w = None -> Inv (writeTrimmedIndent w).
  Proof.
    intros HI He. unfold writeTrimmedIndent. destruct (trimmed (indents w)) as [pre last].
    pose proof (writeStrings_inv pre w HI He) as H1.
    destruct (err (writeStrings w pre)) eqn:E; [assumption|]. apply wr_inv; assumption.
  Qed.

  Lemma s_loop_inv : forall fuel w s, Inv w -> err w = None -> Inv (s_loop fuel w s).
  Proof.
    induction fuel as [|f IH]; intros w s HI He; [assumption|]. cbn [s_loop].
    destruct (findNl s 0) as [i|].
    - set (w0 := setFlags w (started w) true).
      assert (HI0 : Inv w0) by exact HI. assert (He0 : err w0 = None) by exact He.
      destruct (negb (started w0) && Nat.eqb i 0).
      + pose proof (trimmed_inv w0 HI0 He0) as H1.
        destruct (err (writeTrimmedIndent w0)) eqn:E1; [assumption|].
        pose proof (wr_inv _ [10%Z] H1 E1) as H2.
        destruct (err (wr (writeTrimmedIndent w0) [10%Z])) eqn:E2; [assumption|]. apply IH; assumption.
      + set (w1 := if started w0 then w0 else writeStrings w0 (indents w0)).
        assert (H1 : Inv w1) by (unfold w1; destruct (started w0); [assumption|apply writeStrings_inv; assumption]).
        destruct (err w1) eqn:E1; [assumption|].
        pose proof (wr_inv _ (firstn (S i) s) H1 E1) as H2.
        destruct (err (wr w1 (firstn (S i) s))) eqn:E2; [assumption|]. apply IH; [exact H2|exact E2].
    - destruct s as [|c r]; [assumption|].
      set (w0 := setFlags w (started w) true).
      assert (HI0 : Inv w0) by exact HI. assert (He0 : err w0 = None) by exact He.
      set (w1 := if started w0 then w0 else writeStrings w0 (indents w0)).
      assert (H1 : Inv w1) by (unfold w1; destruct (started w0); [assumption|apply writeStrings_inv; assumption]).
      destruct (err w1) eqn:E1; [assumption|]. apply (wr_inv _ (c :: r) H1 E1).
  Qed.

  Lemma fws_inv w s : Inv w -> Inv (fws w s).
  Proof. intros HI. unfold fws. destruct (err w) eqn:E; [assumption|apply s_loop_inv; assumption]. Qed.

  (* once an error is latched nothing is written any more *)
  Lemma fws_stuck w s e : err w = Some e -> fws w s = w.
  Proof. intros H. unfold fws. rewrite H. reflexivity. Qed.

  (* Any sequence of writer operations (the formatter is such a sequence, whatever the tree):
     the number of calls made is exactly first-failure + 1, and the reported error is that failure. *)
  Definition init : fw := {| indents := []; started := false; hasWritten := false; err := None; calls := 0; log := [] |}.
  Inductive op := OpS (s : bytes) | OpPush (i : bytes) | OpPop.
  Definition apply (w : fw) (o : op) : fw :=
    match o with
    | OpS s => fws w s
    | OpPush i => {| indents := indents w ++ [i]; started := started w; hasWritten := hasWritten w; err := err w; calls := calls w; log := log w |}
    | OpPop => {| indents := removelast (indents w); started := started w; hasWritten := hasWritten w; err := err w; calls := calls w; log := log w |}
    end.

  Theorem C20_sticky ops : Inv (fold_left apply ops init).
  Proof.
    assert (H : forall w, Inv w -> Inv (fold_left apply ops w)).
    { induction ops as [|o r IH]; intros w HI; [assumption|]. cbn [fold_left]. apply IH.
      destruct o; [apply fws_inv; assumption | exact HI | exact HI]. }
    apply H. left. split; [reflexivity|]. intros k Hk. cbn in Hk. lia.
  Qed.

  Corollary C20_first_error ops e : err (fold_left apply ops init) = Some e ->
    exists k, calls (fold_left apply ops init) = S k /\ W k = Some e /\ forall j, j < k -> W j = None.
  Proof.
    intros He. destruct (C20_sticky ops) as [[Hn _]|(k & e' & Hc & Hw & He' & Hj)]; [congruence|].
    exists k. repeat split; auto. congruence.
  Qed.

  Corollary C20_healthy ops : (forall k, W k = None) -> err (fold_left apply ops init) = None.
  Proof.
    intros Hw. destruct (C20_sticky ops) as [[Hn _]|(k & e' & _ & Hk & _)]; [assumption|]. rewrite Hw in Hk. discriminate.
  Qed.
End Sticky.
Print Assumptions C20_first_error.
