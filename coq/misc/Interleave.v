From Coq Require Import List Arith ZArith Lia Bool.
Import ListNotations.

(* C19: threads that write only their own locations and read only their own and never-written ones
   compute, under every interleaving, what each computes alone; and no two of them conflict. *)
Definition loc := nat.
Definition store := loc -> Z.
Definition agree (L : loc -> Prop) (a b : store) : Prop := forall l, L l -> a l = b l.

Record step := { owner : nat; f : store -> store }.

Section I.
  Variable private : nat -> loc -> Prop.     (* locations a thread may write (its locals, its output) *)
  Variable frozen : loc -> Prop.             (* shared, never written: package tables, the input, the shared tree *)
  Definition region (t : nat) (l : loc) : Prop := private t l \/ frozen l.

  Hypothesis private_disjoint : forall t u l, t <> u -> private t l -> private u l -> False.
  Hypothesis frozen_not_private : forall t l, frozen l -> private t l -> False.

  (* what the generated effect summary must establish for every step of every API call *)
  Definition writes_private (s : step) : Prop := forall a l, ~ private (owner s) l -> f s a l = a l.
  Definition reads_region (s : step) : Prop :=
    forall a b, agree (region (owner s)) a b -> agree (region (owner s)) (f s a) (f s b).
  Definition well_behaved (sched : list step) : Prop := Forall (fun s => writes_private s /\ reads_region s) sched.

  Definition run (sched : list step) (a : store) : store := fold_left (fun a s => f s a) sched a.
  Definition proj (t : nat) (sched : list step) : list step := filter (fun s => Nat.eqb (owner s) t) sched.

  Lemma sim t sched : well_behaved sched -> forall a b,
    agree (region t) a b -> agree (region t) (run sched a) (run (proj t sched) b).
  Proof.
    induction sched as [|s r IH]; intros Hwb a b Hab; [exact Hab|].
    inversion Hwb as [|? ? [Hw Hr] Hrest]; subst. cbn [run fold_left proj filter].
    destruct (Nat.eqb_spec (owner s) t) as [E|E].
    - cbn [fold_left]. apply IH; [assumption|]. subst t. apply Hr. exact Hab.
    - apply IH; [assumption|]. intros l Hl. rewrite Hw.
      + apply Hab. assumption.
      + intros Hp. destruct Hl as [Hl|Hl].
        * exact (private_disjoint _ _ _ E Hp Hl).
        * exact (frozen_not_private _ _ Hl Hp).
  Qed.

  (* every schedule: what thread t can observe at the end is what it computes running alone *)
  Theorem schedule_independent t sched a :
    well_behaved sched -> agree (region t) (run sched a) (run (proj t sched) a).
  Proof. intros H. apply sim; [assumption|]. intros l _. reflexivity. Qed.

  (* no data race: a location written by one thread is outside every other thread's region *)
  Theorem race_free t u l : t <> u -> private u l -> ~ region t l.
  Proof.
    intros Hne Hu [Ht|Hf]; [exact (private_disjoint _ _ _ Hne Ht Hu) | exact (frozen_not_private _ _ Hf Hu)].
  Qed.
End I.
Print Assumptions schedule_independent.
