From Coq Require Import ExtrOcamlBasic.
Require Import TB ATX.
Extraction "recogmodel.ml" TB.parseThematicBreak ATX.parseATXHeading.
