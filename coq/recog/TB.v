From Coq Require Import List ZArith Lia Bool.
Import ListNotations.
Open Scope Z_scope.

Definition bytes := list Z.
Definition is_mark (b : Z) := (b =? 45) || (b =? 95) || (b =? 42).      (* - _ * *)
Definition is_sp_tab (b : Z) := (b =? 32) || (b =? 9).
Definition is_eolb (b : Z) := (b =? 13) || (b =? 10).

(* Transcription of parseThematicBreak: state (n, want, end), index i; None = -1 *)
Fixpoint tb_loop (l : bytes) (i n : nat) (want : Z) (e : nat) : option nat :=
  match l with
  | [] => if (n <? 3)%nat then None else Some e
  | b :: r =>
    if is_mark b then
      if (n =? 0)%nat then tb_loop r (S i) 1 b (S i)
      else if b =? want then tb_loop r (S i) (S n) want (S i) else None
    else if is_sp_tab b || is_eolb b then tb_loop r (S i) n want e
    else None
  end.
Definition parseThematicBreak (line : bytes) : option nat := tb_loop line 0 0 0 0.

(* Declarative definition (spec 4.1) on the line without indentation and line ending:
   one of - _ * occurs at least three times, every other byte is a space or tab;
   the reported end is just after the last occurrence. *)
Definition cnt (c : Z) (l : bytes) : nat := length (filter (Z.eqb c) l).
Fixpoint last_end (c : Z) (l : bytes) (i e : nat) : nat :=
  match l with [] => e | b :: r => last_end c r (S i) (if b =? c then S i else e) end.
Definition okc (c b : Z) := (b =? c) || is_sp_tab b.

Definition thematic_break (body : bytes) (e : nat) : Prop :=
  exists c, is_mark c = true /\ forallb (okc c) body = true /\ (3 <= cnt c body)%nat /\ e = last_end c body 0 0.

Definition no_eol (l : bytes) : Prop := Forall (fun b => is_eolb b = false) l.
Definition is_eol_seq (eol : bytes) : Prop := eol = [] \/ eol = [10] \/ eol = [13] \/ eol = [13; 10].

(* ---------------------------------------------------------------------------------- *)

Lemma mark_not_ws b : is_mark b = true -> is_sp_tab b = false /\ is_eolb b = false.
Proof.
  unfold is_mark, is_sp_tab, is_eolb. rewrite !orb_true_iff, !Z.eqb_eq.
  intros [[->| ->]| ->]; split; reflexivity.
Qed.

Lemma tb_loop_eol x eol i n w e : Forall (fun b => is_eolb b = true) eol ->
  tb_loop (x ++ eol) i n w e = tb_loop x i n w e.
Proof.
  intros He. revert i n w e. induction x as [|b r IH]; intros i n w e.
  - cbn [app]. revert i. induction He as [|b eol Hb _ IHe]; intros i; [reflexivity|].
    cbn [tb_loop]. assert (Hm : is_mark b = false).
    { destruct (is_mark b) eqn:E; [|reflexivity]. apply mark_not_ws in E. destruct E; congruence. }
    rewrite Hm, Hb, orb_true_r. apply IHe.
  - cbn [app tb_loop]. rewrite !IH. reflexivity.
Qed.

Lemma okc_refl c : okc c c = true. Proof. unfold okc. rewrite Z.eqb_refl. reflexivity. Qed.
Lemma okc_neq c b : b <> c -> okc c b = is_sp_tab b.
Proof. intros H. unfold okc. destruct (Z.eqb_spec b c); [contradiction|reflexivity]. Qed.
Lemma cnt_cons_eq c r : cnt c (c :: r) = S (cnt c r).
Proof. unfold cnt. cbn [filter]. rewrite Z.eqb_refl. reflexivity. Qed.
Lemma cnt_cons_neq c b r : b <> c -> cnt c (b :: r) = cnt c r.
Proof. intros H. unfold cnt. cbn [filter]. destruct (Z.eqb_spec c b); [congruence|reflexivity]. Qed.

(* closed form once the marker character is known *)
Lemma tb_loop_pos body : forall i n c e, no_eol body -> is_mark c = true -> (0 < n)%nat ->
  tb_loop body i n c e =
  if forallb (okc c) body && (3 <=? n + cnt c body)%nat then Some (last_end c body i e) else None.
Proof.
  induction body as [|b r IH]; intros i n c e Hne Hc Hn.
  - unfold cnt. cbn [tb_loop forallb andb filter length last_end]. rewrite Nat.add_0_r.
    destruct (Nat.ltb_spec n 3), (Nat.leb_spec 3 n); try lia; reflexivity.
  - inversion Hne as [|? ? Hb Hr]; subst. cbn [tb_loop forallb last_end].
    destruct (is_mark b) eqn:Em.
    + destruct (Nat.eqb_spec n 0); [lia|].
      destruct (Z.eqb_spec b c) as [->|Hbc].
      * rewrite IH by (auto; lia). rewrite okc_refl, cnt_cons_eq. cbn [andb].
        replace (S n + cnt c r)%nat with (n + S (cnt c r))%nat by lia. reflexivity.
      * rewrite (okc_neq c b Hbc). destruct (mark_not_ws b Em) as [Hs _]. rewrite Hs. reflexivity.
    + assert (Hbc : b <> c) by (intros ->; congruence).
      rewrite Hb, orb_false_r, (okc_neq c b Hbc), (cnt_cons_neq c b r Hbc).
      destruct (Z.eqb_spec b c); [contradiction|].
      destruct (is_sp_tab b); [|reflexivity]. rewrite IH by auto. reflexivity.
Qed.

Lemma forallb_okc_nomark c l : forallb (okc c) l = true -> cnt c l = 0%nat -> forallb is_sp_tab l = true.
Proof.
  induction l as [|b r IH]; [reflexivity|]. cbn [forallb]. unfold cnt. cbn [filter].
  intros H Hc. apply andb_true_iff in H. destruct H as [Hb Hr].
  unfold okc in Hb. destruct (Z.eqb_spec b c) as [->|].
  - rewrite Z.eqb_refl in Hc. discriminate.
  - cbn [orb] in Hb. rewrite Hb. destruct (c =? b); [discriminate|]. apply IH; assumption.
Qed.

(* before the first marker *)
Lemma tb_loop_zero body : forall i w e, no_eol body ->
  tb_loop body i 0 w 0 = Some e <->
  exists c, is_mark c = true /\ forallb (okc c) body = true /\ (3 <= cnt c body)%nat /\ e = last_end c body i 0.
Proof.
  induction body as [|b r IH]; intros i w e Hne.
  - cbn [tb_loop]. split; [discriminate|]. intros (c & _ & _ & H & _). unfold cnt in H. cbn in H. lia.
  - inversion Hne as [|? ? Hb Hr]; subst. cbn [tb_loop].
    destruct (is_mark b) eqn:Em.
    + cbn [Nat.eqb]. rewrite (tb_loop_pos r (S i) 1 b (S i) Hr Em ltac:(lia)).
      split.
      * destruct (forallb (okc b) r) eqn:Ef; [|discriminate]. cbn [andb].
        destruct (Nat.leb_spec 3 (1 + cnt b r)) as [Hle|Hle]; [|discriminate]. intros Heq; inversion Heq; subst.
        exists b. split; [assumption|]. cbn [forallb last_end]. rewrite okc_refl, Ef, cnt_cons_eq, Z.eqb_refl.
        repeat split; [lia].
      * intros (c & Hc & Hf & Hn & ->). cbn [forallb] in Hf. apply andb_true_iff in Hf. destruct Hf as [Hb1 Hf].
        assert (b = c).
        { unfold okc in Hb1. destruct (Z.eqb_spec b c); [assumption|]. cbn [orb] in Hb1.
          destruct (mark_not_ws b Em). congruence. }
        subst c. rewrite Hf. rewrite cnt_cons_eq in Hn. cbn [andb last_end]. rewrite Z.eqb_refl.
        destruct (Nat.leb_spec 3 (1 + cnt b r)); [reflexivity|lia].
    + rewrite Hb, orb_false_r. destruct (is_sp_tab b) eqn:Es.
      * rewrite (IH (S i) w e Hr). split; intros (c & Hc & Hf & Hn & ->); exists c.
        -- assert (Hbc : b <> c) by (intros ->; congruence).
           cbn [forallb last_end]. rewrite (okc_neq c b Hbc), Es, Hf, (cnt_cons_neq c b r Hbc).
           destruct (Z.eqb_spec b c); [contradiction|]. repeat split; assumption.
        -- assert (Hbc : b <> c) by (intros ->; congruence).
           cbn [forallb last_end] in *. rewrite (okc_neq c b Hbc), Es in Hf. cbn [andb] in Hf.
           rewrite (cnt_cons_neq c b r Hbc) in Hn. destruct (Z.eqb_spec b c); [contradiction|].
           repeat split; assumption.
      * split; [discriminate|]. intros (c & Hc & Hf & _). cbn [forallb] in Hf.
        assert (Hbc : b <> c) by (intros ->; congruence).
        rewrite (okc_neq c b Hbc), Es in Hf. discriminate.
Qed.

(* C15, thematic break: on every line (indentation removed; line ending only at the end) the code's
   answer is exactly the declarative definition applied to the line without its ending. *)
Theorem parseThematicBreak_correct body eol e :
  no_eol body -> is_eol_seq eol ->
  (parseThematicBreak (body ++ eol) = Some e <-> thematic_break body e).
Proof.
  intros Hb He. unfold parseThematicBreak. rewrite tb_loop_eol.
  - apply tb_loop_zero. assumption.
  - destruct He as [->|[->|[->| ->]]]; repeat constructor.
Qed.

Corollary parseThematicBreak_none body eol :
  no_eol body -> is_eol_seq eol ->
  (parseThematicBreak (body ++ eol) = None <-> forall e, ~ thematic_break body e).
Proof.
  intros Hb He. split.
  - intros H e Ht. apply (parseThematicBreak_correct body eol e Hb He) in Ht. congruence.
  - intros H. destruct (parseThematicBreak (body ++ eol)) as [e|] eqn:E; [|reflexivity].
    apply (parseThematicBreak_correct body eol e Hb He) in E. exfalso. exact (H e E).
Qed.
Print Assumptions parseThematicBreak_correct.
