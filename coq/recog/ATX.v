From Coq Require Import List ZArith Lia Bool.
Import ListNotations.
Open Scope Z_scope.

Definition bytes := list Z.
Definition HASH : Z := 35.
Definition is_sp_tab (b : Z) := (b =? 32) || (b =? 9).
Definition is_eolb (b : Z) := (b =? 13) || (b =? 10).
Definition is_hash (b : Z) := b =? HASH.
Definition at_ (l : bytes) (i : nat) : Z := nth i l 0.

(* ---- transcription of parseATXHeading (with the two repairs D4 and the escaped-space rule removed) ---- *)

(* forward: first index >= i (trying k more) whose byte does not satisfy p *)
Fixpoint fwd (p : Z -> bool) (l : bytes) (i k : nat) : nat :=
  match k with
  | O => i
  | S k' => if (i <? length l)%nat && p (at_ l i) then fwd p l (S i) k' else i
  end.
(* backward: lower e while e > lo and the byte before e satisfies p *)
Fixpoint bwd (p : Z -> bool) (l : bytes) (lo e : nat) : nat :=
  match e with
  | O => O
  | S e' => if (lo <? e)%nat && p (at_ l e') then bwd p l lo e' else e
  end.

Definition parseATXHeading (line : bytes) : option (nat * (nat * nat)) :=
  let level := fwd is_hash line 0 (length line) in
  if (level =? 0)%nat || (6 <? level)%nat then None else
  if (length line <=? level)%nat || is_eolb (at_ line level) then Some (level, (level, level)) else
  if negb (is_sp_tab (at_ line level)) then None else
  let start := fwd is_sp_tab line (S level) (length line) in
  (* scanBack: skip line ending and trailing spaces *)
  let e1 := bwd (fun b => is_eolb b || is_sp_tab b) line start (length line) in
  if negb ((start <? e1)%nat && is_hash (at_ line (e1 - 1))) then Some (level, (start, e1)) else
  (* scanTrailingHashes *)
  let e2 := bwd is_hash line start e1 in          (* just after the byte preceding the run of '#' *)
  if (e2 =? start)%nat then Some (level, (start, start)) else
  if is_sp_tab (at_ line (e2 - 1)) then Some (level, (start, bwd is_sp_tab line start e2))
  else Some (level, (start, e1)).

(* ---- declarative definition (spec 4.2) on the line without its ending ---- *)
Fixpoint take_while (f : Z -> bool) (l : bytes) : bytes :=
  match l with [] => [] | c :: r => if f c then c :: take_while f r else [] end.
Fixpoint drop_while (f : Z -> bool) (l : bytes) : bytes :=
  match l with [] => [] | c :: r => if f c then drop_while f r else l end.
Definition strip_end (f : Z -> bool) (l : bytes) : bytes := rev (drop_while f (rev l)).
Definition ends_with (f : Z -> bool) (l : bytes) : bool := match rev l with c :: _ => f c | [] => false end.

Definition atx_spec (body : bytes) : option (nat * (nat * nat)) :=
  let hs := take_while is_hash body in
  let n := length hs in
  if (n =? 0)%nat || (6 <? n)%nat then None else
  let rest := drop_while is_hash body in
  match rest with
  | [] => Some (n, (n, n))
  | c :: _ =>
    if negb (is_sp_tab c) then None else
    let lead := take_while is_sp_tab rest in
    let inner := strip_end is_sp_tab (drop_while is_sp_tab rest) in
    let start := (n + length lead)%nat in
    let pre := strip_end is_hash inner in
    let content :=
      if ends_with is_hash inner && (match pre with [] => true | _ => ends_with is_sp_tab pre end)
      then strip_end is_sp_tab pre else inner in
    Some (n, (start, (start + length content)%nat))
  end.
