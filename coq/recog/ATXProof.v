From Coq Require Import List ZArith Lia Bool.
Import ListNotations.
Require Import ATX.
Open Scope Z_scope.

Definition no_eol (l : bytes) : Prop := Forall (fun b => is_eolb b = false) l.
Definition is_eol_seq (eol : bytes) : Prop := eol = [] \/ eol = [10] \/ eol = [13] \/ eol = [13; 10].
Definition slice (l : bytes) (a b : nat) : bytes := firstn (b - a) (skipn a l).

(* ---------- generic list facts ---------- *)
Lemma skipn_cons_at (l : bytes) i : (i < length l)%nat -> skipn i l = at_ l i :: skipn (S i) l.
Proof.
  revert i; induction l as [|x l IH]; intros i Hi; [simpl in Hi; lia|].
  destruct i as [|i]; [reflexivity|]. simpl in Hi. cbn [skipn]. unfold at_ in *. cbn [nth]. apply IH; lia.
Qed.

Lemma fwd_spec p l : forall k i, (length l - i <= k)%nat ->
  fwd p l i k = (i + length (take_while p (skipn i l)))%nat.
Proof.
  induction k as [|k IH]; intros i Hk; cbn [fwd].
  - rewrite skipn_all2 by lia. cbn. lia.
  - destruct (Nat.ltb_spec i (length l)) as [Hi|Hi].
    + rewrite (skipn_cons_at l i Hi). cbn [andb take_while].
      destruct (p (at_ l i)); [|cbn; lia]. rewrite IH by lia. cbn [length]. lia.
    + cbn [andb]. rewrite skipn_all2 by lia. cbn. lia.
Qed.

Lemma strip_end_snoc p x c : strip_end p (x ++ [c]) = if p c then strip_end p x else x ++ [c].
Proof.
  unfold strip_end. rewrite rev_app_distr. cbn [rev app drop_while].
  destruct (p c); [reflexivity|]. cbn [rev]. rewrite rev_involutive. reflexivity.
Qed.

Lemma slice_snoc l lo e : (lo <= e)%nat -> (e < length l)%nat -> slice l lo (S e) = slice l lo e ++ [at_ l e].
Proof.
  intros H1 H2. unfold slice. replace (S e - lo)%nat with (S (e - lo)) by lia.
  assert (Hlen : (e - lo < length (skipn lo l))%nat) by (rewrite skipn_length; lia).
  revert Hlen. generalize (e - lo)%nat as k. intros k Hk.
  assert (Hat : at_ l e = nth (e - lo) (skipn lo l) 0).
  { unfold at_. rewrite <- (firstn_skipn lo l) at 1. rewrite app_nth2 by (rewrite firstn_length; lia).
    rewrite firstn_length. f_equal. lia. }
Abort.

Lemma firstn_S_nth (l : bytes) k : (k < length l)%nat -> firstn (S k) l = firstn k l ++ [nth k l 0].
Proof.
  revert k; induction l as [|x l IH]; intros k Hk; [simpl in Hk; lia|].
  destruct k as [|k]; [reflexivity|]. simpl in Hk. cbn [firstn nth app]. f_equal. apply IH. lia.
Qed.

Lemma nth_skipn (l : bytes) i k : nth k (skipn i l) 0 = nth (i + k) l 0.
Proof.
  revert i; induction l as [|x l IH]; intros i.
  - rewrite skipn_nil. destruct k, i; reflexivity.
  - destruct i as [|i]; [reflexivity|]. cbn. apply IH.
Qed.

Lemma slice_snoc l lo e : (lo <= e)%nat -> (e < length l)%nat -> slice l lo (S e) = slice l lo e ++ [at_ l e].
Proof.
  intros H1 H2. unfold slice. replace (S e - lo)%nat with (S (e - lo)) by lia.
  rewrite firstn_S_nth by (rewrite skipn_length; lia).
  rewrite nth_skipn. unfold at_. do 3 f_equal. lia.
Qed.

Lemma slice_empty l a : slice l a a = [].
Proof. unfold slice. rewrite Nat.sub_diag. reflexivity. Qed.

Lemma bwd_spec p l lo : forall e, (lo <= e)%nat -> (e <= length l)%nat ->
  bwd p l lo e = (lo + length (strip_end p (slice l lo e)))%nat.
Proof.
  induction e as [|e IH]; intros H1 H2.
  - assert (lo = 0)%nat by lia. subst. reflexivity.
  - cbn [bwd]. destruct (Nat.ltb_spec lo (S e)) as [Hlt|Hge].
    + rewrite slice_snoc by lia. rewrite strip_end_snoc. cbn [andb].
      destruct (p (at_ l e)).
      * apply IH; lia.
      * rewrite app_length. unfold slice. rewrite firstn_length, skipn_length. cbn [length]. lia.
    + assert (lo = S e) by lia. subst. rewrite slice_empty. cbn. lia.
Qed.

(* ---------- take_while / drop_while / strip_end facts ---------- *)
Lemma take_drop p (l : bytes) : take_while p l ++ drop_while p l = l.
Proof. induction l as [|c r IH]; [reflexivity|]. cbn. destruct (p c); [cbn; f_equal; exact IH | reflexivity]. Qed.

Lemma take_while_all p (l : bytes) : forallb p (take_while p l) = true.
Proof. induction l as [|c r IH]; [reflexivity|]. cbn. destruct (p c) eqn:E; [cbn; rewrite E; exact IH | reflexivity]. Qed.

Lemma drop_while_head p (l : bytes) : match drop_while p l with c :: _ => p c = false | [] => True end.
Proof. induction l as [|c r IH]; [exact I|]. cbn. destruct (p c) eqn:E; [exact IH | exact E]. Qed.

Lemma take_while_app_all p (x y : bytes) : forallb p x = true -> take_while p (x ++ y) = x ++ take_while p y.
Proof.
  induction x as [|c r IH]; [reflexivity|]. cbn. intros H. apply andb_true_iff in H. destruct H as [Hc Hr].
  rewrite Hc. f_equal. apply IH. assumption.
Qed.

Lemma take_while_head_false p (l : bytes) : match l with c :: _ => p c = false | [] => True end -> take_while p l = [].
Proof. destruct l as [|c r]; [reflexivity|]. cbn. intros ->. reflexivity. Qed.

Lemma strip_end_app_all p (x y : bytes) : forallb p y = true -> strip_end p (x ++ y) = strip_end p x.
Proof.
  revert x. induction y as [|c r IH] using rev_ind; intros x H; [rewrite app_nil_r; reflexivity|].
  rewrite forallb_app in H. apply andb_true_iff in H. destruct H as [Hr Hc]. cbn in Hc. rewrite andb_true_r in Hc.
  rewrite app_assoc, strip_end_snoc, Hc. apply IH. assumption.
Qed.

Lemma strip_end_ext p q (x : bytes) : Forall (fun c => p c = q c) x -> strip_end p x = strip_end q x.
Proof.
  induction x as [|c r IH] using rev_ind; intros H; [reflexivity|].
  apply Forall_app in H. destruct H as [Hr Hc]. inversion Hc; subst.
  rewrite !strip_end_snoc, H1. destruct (q c); [apply IH; assumption | reflexivity].
Qed.

Lemma strip_end_split p (x : bytes) : exists t, x = strip_end p x ++ t /\ forallb p t = true.
Proof.
  induction x as [|c r IH] using rev_ind; [exists []; split; reflexivity|].
  rewrite strip_end_snoc. destruct (p c) eqn:E.
  - destruct IH as (t & Ht & Hp). exists (t ++ [c]). split.
    + rewrite app_assoc, <- Ht. reflexivity.
    + rewrite forallb_app, Hp. cbn. rewrite E. reflexivity.
  - exists []. rewrite app_nil_r. split; reflexivity.
Qed.

Lemma strip_end_last p (x : bytes) : match rev (strip_end p x) with c :: _ => p c = false | [] => True end.
Proof. unfold strip_end. rewrite rev_involutive. apply drop_while_head. Qed.

Lemma ends_with_at f (a x b : bytes) : x <> [] ->
  ends_with f x = f (at_ (a ++ x ++ b) (length a + length x - 1)).
Proof.
  intros Hx. destruct (exists_last Hx) as (y & c & ->).
  unfold ends_with. rewrite rev_app_distr. cbn [rev app].
  unfold at_. rewrite app_nth2 by (rewrite app_length; cbn; lia).
  rewrite app_length. cbn [length]. replace (length a + (length y + 1) - 1 - length a)%nat with (length y) by lia.
  rewrite <- app_assoc. rewrite app_nth2 by lia. rewrite Nat.sub_diag. reflexivity.
Qed.

Lemma ends_with_nil f : ends_with f [] = false. Proof. reflexivity. Qed.

Lemma skipn_app_exact (a b : bytes) : skipn (length a) (a ++ b) = b.
Proof. rewrite skipn_app, skipn_all, Nat.sub_diag. reflexivity. Qed.

Lemma slice_app_mid (a x b : bytes) : slice (a ++ x ++ b) (length a) (length a + length x) = x.
Proof.
  unfold slice. rewrite skipn_app_exact. replace (length a + length x - length a)%nat with (length x) by lia.
  rewrite firstn_app, firstn_all, Nat.sub_diag. cbn. apply app_nil_r.
Qed.

Lemma eol_not p eol : is_eol_seq eol -> (p 10 = false) -> (p 13 = false) -> take_while p eol = [].
Proof. intros [->|[->|[->| ->]]] H10 H13; cbn; rewrite ?H10, ?H13; reflexivity. Qed.

Lemma eol_all eol : is_eol_seq eol -> forallb (fun b => is_eolb b || is_sp_tab b) eol = true.
Proof. intros [->|[->|[->| ->]]]; reflexivity. Qed.

Lemma no_eol_app x y : no_eol (x ++ y) -> no_eol x /\ no_eol y.
Proof. apply Forall_app. Qed.

(* ---------- the theorem ---------- *)
Theorem parseATXHeading_correct body eol :
  no_eol body -> is_eol_seq eol -> parseATXHeading (body ++ eol) = atx_spec body.
Proof.
  intros Hne Heol.
  set (hs := take_while is_hash body). set (rest := drop_while is_hash body).
  assert (Hbody : body = hs ++ rest) by (symmetry; apply take_drop).
  assert (Hhs : forallb is_hash hs = true) by apply take_while_all.
  pose proof (drop_while_head is_hash body) as Hrest. fold rest in Hrest.
  unfold parseATXHeading, atx_spec. fold hs rest.
  (* level *)
  assert (Hlevel : fwd is_hash (body ++ eol) 0 (length (body ++ eol)) = length hs).
  { rewrite fwd_spec by lia. cbn [skipn Nat.add]. rewrite Hbody, <- app_assoc.
    rewrite take_while_app_all by assumption. rewrite app_length.
    rewrite take_while_head_false; [cbn; lia|].
    destruct rest as [|c r]; [|exact Hrest]. cbn [app].
    destruct Heol as [->|[->|[->| ->]]]; cbn; auto. }
  rewrite Hlevel.
  destruct ((length hs =? 0)%nat || (6 <? length hs)%nat); [reflexivity|].
  assert (Hl : body ++ eol = hs ++ rest ++ eol) by (rewrite Hbody, <- app_assoc; reflexivity).
  destruct rest as [|c r] eqn:Erest.
  - (* nothing after the hashes *)
    cbn [app] in Hl. rewrite Hl.
    destruct eol as [|e0 eol'].
    + rewrite app_nil_r. rewrite Nat.leb_refl. reflexivity.
    + assert (Hat : at_ (hs ++ e0 :: eol') (length hs) = e0).
      { unfold at_. rewrite app_nth2 by lia. rewrite Nat.sub_diag. reflexivity. }
      rewrite Hat. assert (is_eolb e0 = true) by (destruct Heol as [H|[H|[H|H]]]; inversion H; reflexivity).
      rewrite H, orb_true_r. reflexivity.
  - (* a byte follows the hashes; it is not a line ending *)
    rewrite Hl.
    assert (Hat : at_ (hs ++ (c :: r) ++ eol) (length hs) = c).
    { unfold at_. rewrite app_nth2 by lia. rewrite Nat.sub_diag. reflexivity. }
    rewrite Hat.
    assert (Hc_eol : is_eolb c = false).
    { rewrite Hbody in Hne. apply no_eol_app in Hne. destruct Hne as [_ Hr]. inversion Hr; assumption. }
    rewrite Hc_eol, orb_false_r.
    destruct (Nat.leb_spec (length (hs ++ (c :: r) ++ eol)) (length hs)) as [Hbad|_].
    { rewrite !app_length in Hbad. cbn [length] in Hbad. lia. }
    destruct (is_sp_tab c) eqn:Ews; [|reflexivity]. cbn [negb].
    (* decompose the rest: leading blanks, inner, trailing blanks *)
    set (lead := take_while is_sp_tab (c :: r)). set (inner0 := drop_while is_sp_tab (c :: r)).
    assert (Hcr : c :: r = lead ++ inner0) by (symmetry; apply take_drop).
    assert (Hlead : forallb is_sp_tab lead = true) by apply take_while_all.
    pose proof (drop_while_head is_sp_tab (c :: r)) as Hin0. fold inner0 in Hin0.
    assert (Hleadlen : (1 <= length lead)%nat).
    { unfold lead. cbn [take_while]. rewrite Ews. cbn [length]. lia. }
    set (inner := strip_end is_sp_tab inner0).
    destruct (strip_end_split is_sp_tab inner0) as (trail & Htrail & Htrailp). fold inner in Htrail.
    assert (Hne0 : no_eol inner0).
    { rewrite Hbody, Hcr in Hne. apply no_eol_app in Hne. destruct Hne as [_ H]. apply no_eol_app in H. tauto. }
    set (L := hs ++ (c :: r) ++ eol).
    assert (HL : L = (hs ++ lead) ++ inner ++ (trail ++ eol)).
    { unfold L. rewrite Hcr, Htrail at 1. rewrite <- !app_assoc. reflexivity. }
    (* start *)
    assert (Hstart : fwd is_sp_tab L (S (length hs)) (length L) = (length hs + length lead)%nat).
    { rewrite fwd_spec by lia.
      assert (Hsk : skipn (S (length hs)) L = r ++ eol).
      { unfold L. replace (S (length hs)) with (length (hs ++ [c])) by (rewrite app_length; cbn; lia).
        replace (hs ++ (c :: r) ++ eol) with ((hs ++ [c]) ++ r ++ eol) by (rewrite <- app_assoc; reflexivity).
        apply skipn_app_exact. }
      rewrite Hsk.
      assert (Hlead' : lead = c :: take_while is_sp_tab r) by (unfold lead; cbn [take_while]; rewrite Ews; reflexivity).
      assert (Hr : r = take_while is_sp_tab r ++ inner0).
      { unfold inner0. cbn [drop_while]. rewrite Ews. symmetry. apply take_drop. }
      rewrite Hr at 1. rewrite <- app_assoc.
      rewrite take_while_app_all by apply take_while_all.
      rewrite (take_while_head_false is_sp_tab (inner0 ++ eol)).
      - rewrite app_nil_r, Hlead'. cbn [length]. lia.
      - destruct inner0 as [|d t]; [|exact Hin0]. cbn [app].
        destruct Heol as [->|[->|[->| ->]]]; cbn; auto. }
    fold L. rewrite Hstart. set (start := (length hs + length lead)%nat).
    assert (Hstart' : start = length (hs ++ lead)) by (unfold start; rewrite app_length; reflexivity).
    (* e1 *)
    assert (He1 : bwd (fun b => is_eolb b || is_sp_tab b) L start (length L) = (start + length inner)%nat).
    { rewrite bwd_spec; [|rewrite HL, !app_length; lia|lia]. f_equal. f_equal.
      unfold slice. rewrite HL at 2. rewrite Hstart', skipn_app_exact.
      rewrite firstn_all2 by (rewrite HL, !app_length; lia).
      rewrite app_assoc. rewrite strip_end_app_all by (apply eol_all; assumption).
      rewrite <- Htrail.
      rewrite (strip_end_ext _ is_sp_tab inner0); [reflexivity|].
      eapply Forall_impl; [|exact Hne0]. cbn. intros a Ha. rewrite Ha. reflexivity. }
    rewrite He1.
    (* is there a closing sequence? *)
    assert (Hcond : ((start <? start + length inner)%nat && is_hash (at_ L (start + length inner - 1))) = ends_with is_hash inner).
    { destruct (Nat.eq_dec (length inner) 0) as [Hz|Hnz].
      - apply length_zero_iff_nil in Hz. rewrite Hz. cbn [length]. rewrite Nat.add_0_r, Nat.ltb_irrefl. reflexivity.
      - assert (Hnn : inner <> []) by (intros E; rewrite E in Hnz; apply Hnz; reflexivity).
        rewrite HL, Hstart'. rewrite <- (ends_with_at is_hash (hs ++ lead) inner (trail ++ eol) Hnn).
        destruct (Nat.ltb_spec (length (hs ++ lead)) (length (hs ++ lead) + length inner)) as [|Hx]; [reflexivity|lia]. }
    rewrite Hcond. fold lead inner0 inner. fold start.
    destruct (ends_with is_hash inner) eqn:Eh; cbn [negb andb]; [|reflexivity].
    (* closing run of hashes *)
    set (pre := strip_end is_hash inner).
    destruct (strip_end_split is_hash inner) as (hr & Hhr & Hhrp). fold pre in Hhr.
    assert (HL2 : L = (hs ++ lead) ++ pre ++ (hr ++ trail ++ eol)).
    { rewrite HL. rewrite Hhr at 1. rewrite <- !app_assoc. reflexivity. }
    assert (He2 : bwd is_hash L start (start + length inner) = (start + length pre)%nat).
    { rewrite bwd_spec; [|lia|rewrite HL, !app_length; lia]. f_equal. f_equal.
      rewrite HL, Hstart'. rewrite slice_app_mid. reflexivity. }
    rewrite He2.
    destruct pre as [|p0 pt] eqn:Epre.
    { cbn [length]. rewrite Nat.add_0_r, Nat.eqb_refl. cbn. rewrite Nat.add_0_r. reflexivity. }
    rewrite <- Epre in *. assert (Hpn : pre <> []) by (rewrite Epre; discriminate).
    destruct (Nat.eqb_spec (start + length pre) start) as [Hbad|_].
    { rewrite Epre in Hbad. cbn [length] in Hbad. lia. }
    assert (Hlastpre : is_sp_tab (at_ L (start + length pre - 1)) = ends_with is_sp_tab pre).
    { rewrite HL2, Hstart'. symmetry. apply ends_with_at. assumption. }
    rewrite Hlastpre. rewrite Epre at 1. rewrite <- Epre.
    destruct (ends_with is_sp_tab pre) eqn:Ep; [|reflexivity].
    assert (He3 : bwd is_sp_tab L start (start + length pre) = (start + length (strip_end is_sp_tab pre))%nat).
    { rewrite bwd_spec; [|lia|rewrite HL2, !app_length; lia]. f_equal. f_equal.
      rewrite HL2, Hstart'. rewrite slice_app_mid. reflexivity. }
    rewrite He3. reflexivity.
Qed.
Print Assumptions parseATXHeading_correct.
