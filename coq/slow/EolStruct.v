From Coq Require Import List ZArith Lia Bool.
Import ListNotations.
Require Import Base Tree Driver EolFinalDefs EolCRLFDefs EolBounded EolFinal EolCRLF.
Open Scope Z_scope.

(* C14 (i) and (ii-CRLF): further instances checked inside Coq: every document of one, two or three lines drawn from 40
   line bodies covering all block kinds (the last line without ending). *)
Definition lineBodies : list bytes := [[97];
  [32;32;97];
  [9;97];
  [62;32;97];
  [62;32;9];
  [62];
  [45;32;97];
  [45];
  [49;46;32;97];
  [32;32;32;32;97];
  [9];
  [32;32];
  [35;32;104];
  [35];
  [61;61;61];
  [45;45;45];
  [96;96;96];
  [126;126;126;32;120];
  [60;63];
  [63;62;120];
  [60;100;105;118;62];
  [60;47;100;105;118;62;32];
  [60;33;45;45];
  [45;45;62;120];
  [91;97;93;58;32;98];
  [91;97;93;58];
  [39;116;39];
  [42;32;42;32;42];
  [62;32;96;96;96];
  [62;32;60;63];
  [62;32;32;9];
  [97;32;32];
  [97;92];
  [91;97];
  [98;93;58;32;99];
  [32;32;45;32;98];
  [62;32;45;32;99];
  [32;32;32;91;97;93;58;32;98;32;39;99;39];
  [62;32;91;97;93;58;32;98];
  [60;112;114;101;62;120;60;47;112;114;101;62;32]].
Definition docs2 : list bytes := flat_map (fun a => map (fun b => a ++ [10] ++ b) lineBodies) lineBodies.
Definition docs3 : list bytes := flat_map (fun a => map (fun b => a ++ [10] ++ b) docs2) lineBodies.
Definition docsAll : list bytes := lineBodies ++ docs2 ++ docs3.

Theorem final_newline_lines : forall s, In s docsAll -> s <> [] -> endsEol s = false -> lastByte s <> 62 ->
  parseBlocks (s ++ [10]) = (finRoots (len s) (fst (parseBlocks s)), snd (parseBlocks s)).
Proof.
  assert (E : forallb chkFin docsAll = true) by (vm_compute; reflexivity).
  intros s Hs Hn He Hg. pose proof (forallb_In chkFin _ E s Hs) as H. unfold chkFin in H.
  assert (Hc : condFin s = true).
  { unfold condFin. destruct s; [congruence|]. rewrite He. apply Z.eqb_neq in Hg. rewrite Hg. reflexivity. }
  rewrite Hc in H. apply beqRes_sound, H.
Qed.
Theorem crlf_lines : forall s, In s docsAll ->
  parseBlocks (crlf s) = (map (phiRoot s) (fst (parseBlocks s)), snd (parseBlocks s)).
Proof.
  assert (E : forallb chkCRLF docsAll = true) by (vm_compute; reflexivity).
  intros s Hs. apply beqRes_sound. exact (forallb_In chkCRLF _ E s Hs).
Qed.
Print Assumptions final_newline_lines. Print Assumptions crlf_lines.
