From Coq Require Import List ZArith Lia Bool.
Import ListNotations.
Require Import Base Tree Driver EolFinalDefs EolBounded.
Open Scope Z_scope.

(* ====================================================================================================
   C14 (i), final newline, block layer.
   The relation (EolFinalDefs): only the last root block changes, and only when it reaches the end of the
   input: its Source gains the newline, End moves by one; inside its tree (positions relative to the root,
   L = length of its padded source) every block end equal to L becomes L + 1 except list markers; the
   line-text entries of paragraphs and HTML blocks ending at L end at L + 1; in a code block the
   synthetic SoftLineBreak entry [L, L) disappears and the last Text entry ends at L + 1.  Entries of
   ATX / setext headings and of link reference definitions do not move.
   ==================================================================================================== *)

(* FINDING: without a further hypothesis the statement is false on the model.  Input " <?>" (an indented
   processing instruction whose closer ends the input): `contains line "?>"` loops over i < len line - 2 and
   misses a match at the very end of the line, so WITHOUT the newline the end condition is not seen on the
   start line (the block stays open, the line is taken as text [0,4) by addLineText), whereas WITH the newline
   it is seen (CollectInline path: an Indent entry [0,1) and the raw text [1,5)). *)
Example final_newline_unrestricted_refuted : ~ parseBlocks_final_newline_unrestricted.
Proof.
  intros H. specialize (H [32; 60; 63; 62] ltac:(discriminate) eq_refl). vm_compute in H. discriminate H.
Qed.

(* bounded-exhaustive instances of the surviving statement, checked by computation inside Coq
   (boolean tree equality, proved sound in EolBounded.v) *)
Definition condFin (s : bytes) : bool :=
  match s with [] => false | _ => negb (endsEol s) && negb (lastByte s =? 62) end.
Definition chkFin (s : bytes) : bool :=
  if condFin s then beqRes (parseBlocks (s ++ [10])) (finRoots (len s) (fst (parseBlocks s)), snd (parseBlocks s)) else true.

Lemma fin_of_check alpha n : forallb chkFin (allStr alpha n) = true ->
  forall s, (length s <= n)%nat -> Forall (fun c => In c alpha) s -> s <> [] -> endsEol s = false -> lastByte s <> 62 ->
  parseBlocks (s ++ [10]) = (finRoots (len s) (fst (parseBlocks s)), snd (parseBlocks s)).
Proof.
  intros E s Hl Hs Hn He Hg. pose proof (forallb_In chkFin _ E s (allStr_complete alpha n s Hl Hs)) as H.
  unfold chkFin in H.
  assert (Hc : condFin s = true).
  { unfold condFin. destruct s; [congruence|]. rewrite He. apply Z.eqb_neq in Hg. rewrite Hg. reflexivity. }
  rewrite Hc in H. apply beqRes_sound, H.
Qed.

(* [ a ] : space LF ' = - : link reference definitions, setext, lists *)
Definition alphaA : list Z := [91; 97; 93; 58; 32; 10; 39; 61; 45].
(* ` ~ LF > space - a TAB NUL : code blocks, quotes, lists, NUL padding *)
Definition alphaB : list Z := [96; 126; 10; 62; 32; 45; 97; 9; 0].
(* < ! - > LF a space ? / : HTML blocks *)
Definition alphaC : list Z := [60; 33; 45; 62; 10; 97; 32; 63; 47].
(* # LF space * 1 . TAB a \ CR : headings, thematic breaks, ordered lists, CR line endings inside *)
Definition alphaD : list Z := [35; 10; 32; 42; 49; 46; 9; 97; 92; 13].

Definition FinBounded (alpha : list Z) (n : nat) : Prop :=
  forall s, (length s <= n)%nat -> Forall (fun c => In c alpha) s -> s <> [] -> endsEol s = false -> lastByte s <> 62 ->
  parseBlocks (s ++ [10]) = (finRoots (len s) (fst (parseBlocks s)), snd (parseBlocks s)).
Theorem final_newline_bounded_A : FinBounded alphaA 5. Proof. unfold FinBounded. apply fin_of_check. vm_compute. reflexivity. Qed.
Theorem final_newline_bounded_B : FinBounded alphaB 5. Proof. unfold FinBounded. apply fin_of_check. vm_compute. reflexivity. Qed.
Theorem final_newline_bounded_C : FinBounded alphaC 5. Proof. unfold FinBounded. apply fin_of_check. vm_compute. reflexivity. Qed.
Theorem final_newline_bounded_D : FinBounded alphaD 5. Proof. unfold FinBounded. apply fin_of_check. vm_compute. reflexivity. Qed.

Print Assumptions final_newline_unrestricted_refuted.
Print Assumptions final_newline_bounded_A.
