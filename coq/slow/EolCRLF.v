From Coq Require Import List ZArith Lia Bool.
Import ListNotations.
Require Import Base Tree Driver EolCRLFDefs EolBounded EolFinal.
Open Scope Z_scope.

(* ====================================================================================================
   C14 (ii), CRLF clause, block layer.  crlf s replaces every LF by CR LF; a position p moves to
   p + (number of LF strictly before p); root offsets move in the coordinates of the input, tree spans in the
   coordinates of the root's (padded) Source; kinds, attributes, inline kinds and normalised labels are equal;
   Source becomes crlf Source.
   ==================================================================================================== *)

(* FINDING: the statement is false on the model for a link label near the 999-character limit: the label
   scanner (parseLinkLabel, maxChars = 999) counts bytes, so a label of 996 bytes containing three line endings is
   a label with LF (996 < 999) and is not one with CR LF (999): with LF the input is one link reference
   definition, with CR LF it is a paragraph. *)
Definition longLabelDoc : bytes := [91] ++ repeat 97 990 ++ [10; 98; 10; 99; 10; 100] ++ [93; 58; 32; 120; 10].
Example crlf_unrestricted_refuted : ~ parseBlocks_crlf_unrestricted.
Proof.
  intros H. specialize (H longLabelDoc).
  assert (Hk : map (fun r => bkind (rb_blk r)) (fst (parseBlocks (crlf longLabelDoc))) =
               map (fun r => bkind (rb_blk r)) (fst (map (phiRoot longLabelDoc) (fst (parseBlocks longLabelDoc)), snd (parseBlocks longLabelDoc)))).
  { rewrite <- H; [reflexivity|]. vm_compute. intros G. repeat (destruct G as [G|G]; [discriminate G|]). exact G. }
  vm_compute in Hk. discriminate Hk.
Qed.

Definition chkCRLF (s : bytes) : bool :=
  beqRes (parseBlocks (crlf s)) (map (phiRoot s) (fst (parseBlocks s)), snd (parseBlocks s)).
Definition no13 (alpha : list Z) : bool := forallb (fun c => negb (c =? 13)) alpha.
Lemma crlf_of_check alpha n : forallb chkCRLF (allStr alpha n) = true ->
  forall s, (length s <= n)%nat -> Forall (fun c => In c alpha) s ->
  parseBlocks (crlf s) = (map (phiRoot s) (fst (parseBlocks s)), snd (parseBlocks s)).
Proof.
  intros E s Hl Hs. apply beqRes_sound. exact (forallb_In chkCRLF _ E s (allStr_complete alpha n s Hl Hs)).
Qed.
Definition CrlfBounded (alpha : list Z) (n : nat) : Prop :=
  forall s, (length s <= n)%nat -> Forall (fun c => In c alpha) s ->
  parseBlocks (crlf s) = (map (phiRoot s) (fst (parseBlocks s)), snd (parseBlocks s)).
(* # LF space * 1 . TAB a \ : as alphaD without CR *)
Definition alphaD' : list Z := [35; 10; 32; 42; 49; 46; 9; 97; 92].
Theorem crlf_bounded_A : CrlfBounded alphaA 5. Proof. unfold CrlfBounded. apply crlf_of_check. vm_compute. reflexivity. Qed.
Theorem crlf_bounded_B : CrlfBounded alphaB 5. Proof. unfold CrlfBounded. apply crlf_of_check. vm_compute. reflexivity. Qed.
Theorem crlf_bounded_C : CrlfBounded alphaC 5. Proof. unfold CrlfBounded. apply crlf_of_check. vm_compute. reflexivity. Qed.
Theorem crlf_bounded_D : CrlfBounded alphaD' 5. Proof. unfold CrlfBounded. apply crlf_of_check. vm_compute. reflexivity. Qed.

Print Assumptions crlf_unrestricted_refuted.
Print Assumptions crlf_bounded_A.
