From Coq Require Import List Arith Lia Bool.
Import ListNotations.
Require Import Emph.

(** * List lemmas *)
Lemma nth_firstn' {A} (l : list A) i k d : k < i -> nth k (firstn i l) d = nth k l d.
Proof.
  revert i k; induction l as [|x l IH]; intros i k H; [rewrite firstn_nil; reflexivity|].
  destruct i as [|i]; [lia|]. destruct k as [|k]; [reflexivity|]. cbn. apply IH; lia.
Qed.

Lemma nth_skipn' {A} (l : list A) i k d : nth k (skipn i l) d = nth (i + k) l d.
Proof.
  revert i; induction l as [|x l IH]; intros i.
  - rewrite skipn_nil. destruct k, i; reflexivity.
  - destruct i as [|i]; [reflexivity|]. cbn. apply IH.
Qed.

Lemma length_del {A} (l : list A) i j : i <= j -> j <= length l -> length (del l i j) = length l - (j - i).
Proof. intros; unfold del; rewrite app_length, firstn_length, skipn_length; lia. Qed.

Lemma nth_del {A} (l : list A) i j k d : i <= j -> j <= length l ->
  nth k (del l i j) d = if k <? i then nth k l d else nth (k + (j - i)) l d.
Proof.
  intros Hij Hj; unfold del.
  assert (Hl : length (firstn i l) = i) by (rewrite firstn_length; lia).
  destruct (Nat.ltb_spec k i) as [H|H].
  - rewrite app_nth1 by lia. apply nth_firstn'; assumption.
  - rewrite app_nth2 by lia. rewrite Hl, nth_skipn'. f_equal; lia.
Qed.

Lemma length_upd {A} (l : list A) i f : length (upd l i f) = length l.
Proof.
  unfold upd. rewrite app_length.
  assert (H : length (match skipn i l with [] => [] | x :: r => f x :: r end) = length (skipn i l))
    by (destruct (skipn i l); reflexivity).
  rewrite H, firstn_length, skipn_length. lia.
Qed.

Lemma skipn_cons_nth {A} (l : list A) i d : i < length l -> skipn i l = nth i l d :: skipn (S i) l.
Proof.
  revert i; induction l as [|x l IH]; intros i Hi; [simpl in Hi; lia|].
  destruct i as [|i]; [reflexivity|]. simpl in Hi. cbn [skipn nth]. apply IH; lia.
Qed.

Lemma nth_upd {A} (l : list A) i f k d : i < length l ->
  nth k (upd l i f) d = if k =? i then f (nth i l d) else nth k l d.
Proof.
  intros Hi. unfold upd. rewrite (skipn_cons_nth l i d Hi).
  assert (Hl : length (firstn i l) = i) by (rewrite firstn_length; lia).
  destruct (Nat.eqb_spec k i) as [->|Hne].
  - rewrite app_nth2 by lia. rewrite Hl, Nat.sub_diag. reflexivity.
  - destruct (Nat.ltb_spec k i).
    + rewrite app_nth1 by lia. apply nth_firstn'; assumption.
    + rewrite app_nth2 by lia. rewrite Hl.
      destruct (k - i) as [|m] eqn:Ek; [lia|]. cbn [nth]. rewrite nth_skipn'. f_equal; lia.
Qed.

(** * Static fields and matching *)
Definition same_static (a b : delim) : Prop :=
  dstar a = dstar b /\ dn a = dn b /\ dopen a = dopen b /\ dclos a = dclos b.

Lemma same_static_refl a : same_static a a. Proof. repeat split. Qed.
Lemma same_static_dec k a : same_static (dec k a) a. Proof. repeat split. Qed.

Lemma matches_static o o' c : same_static o o' -> matches o c = matches o' c.
Proof. intros (H1 & H2 & H3 & H4). unfold matches. rewrite H1, H2, H3, H4. reflexivity. Qed.

Lemma bucket_inj c1 c2 : bucket c1 = bucket c2 ->
  dstar c1 = dstar c2 /\ dopen c1 = dopen c2 /\ dn c1 mod 3 = dn c2 mod 3.
Proof.
  unfold bucket. pose proof (Nat.mod_upper_bound (dn c1) 3 ltac:(lia)).
  pose proof (Nat.mod_upper_bound (dn c2) 3 ltac:(lia)).
  destruct (dstar c1), (dstar c2), (dopen c1), (dopen c2); intros; repeat split; lia.
Qed.

Lemma matches_bucket o c1 c2 : bucket c1 = bucket c2 -> dclos c1 = true -> dclos c2 = true ->
  matches o c1 = matches o c2.
Proof.
  intros Hb H1 H2. destruct (bucket_inj _ _ Hb) as (Hs & Ho & Hn).
  unfold matches. rewrite Hs, Ho, H1, H2.
  rewrite (Nat.add_mod (dn o) (dn c1)), (Nat.add_mod (dn o) (dn c2)) by lia. rewrite Hn. reflexivity.
Qed.

(** * Search lemmas *)
Lemma next_closer_spec l p k c' : next_closer l p k = Some c' ->
  p <= c' < p + k /\ dclos (nth c' l dflt) = true.
Proof.
  revert p; induction k as [|k IH]; intros p H; cbn in H; [discriminate|].
  destruct (dclos (nth p l dflt)) eqn:E.
  - inversion H; subst. split; [lia|assumption].
  - apply IH in H. destruct H; split; [lia|assumption].
Qed.

Lemma find_down_none l c lo k : find_down l c lo k = None <->
  (forall j, lo <= j < lo + k -> matches (nth j l dflt) c = false).
Proof.
  induction k as [|k IH]; cbn.
  - split; [intros _ j Hj; lia | reflexivity].
  - destruct (matches (nth (lo + k) l dflt) c) eqn:E.
    + split; [discriminate|]. intros H. rewrite H in E by lia. discriminate.
    + rewrite IH. split; intros H j Hj.
      * destruct (Nat.eq_dec j (lo + k)) as [->|]; [assumption | apply H; lia].
      * apply H; lia.
Qed.

Lemma find_down_some l c lo k j : find_down l c lo k = Some j <->
  (lo <= j < lo + k /\ matches (nth j l dflt) c = true /\
   forall j', j < j' < lo + k -> matches (nth j' l dflt) c = false).
Proof.
  induction k as [|k IH]; cbn.
  - split; [discriminate | intros (H & _); lia].
  - destruct (matches (nth (lo + k) l dflt) c) eqn:E.
    + split.
      * intros H; inversion H; subst. split; [lia|]. split; [assumption|]. intros; lia.
      * intros (Hj & Hm & Hmax). destruct (Nat.eq_dec j (lo + k)) as [->|Hne]; [reflexivity|].
        rewrite Hmax in E by lia. discriminate.
    + rewrite IH. split.
      * intros (Hj & Hm & Hmax). split; [lia|]. split; [assumption|]. intros j' Hj'.
        destruct (Nat.eq_dec j' (lo + k)) as [->|]; [assumption | apply Hmax; lia].
      * intros (Hj & Hm & Hmax). assert (j <> lo + k) by (intros ->; congruence).
        split; [lia|]. split; [assumption|]. intros; apply Hmax; lia.
Qed.

Lemma find_down_lower_bound l c sb lo hi : sb <= lo -> lo <= hi ->
  (forall j, sb <= j -> j < lo -> matches (nth j l dflt) c = false) ->
  find_down l c lo (hi - lo) = find_down l c sb (hi - sb).
Proof.
  intros Hsl Hlh Hno.
  destruct (find_down l c sb (hi - sb)) as [j|] eqn:E.
  - apply find_down_some in E. destruct E as (Hj & Hm & Hmax).
    apply find_down_some. assert (lo <= j).
    { destruct (Nat.le_gt_cases lo j); [assumption|]. rewrite Hno in Hm by lia. discriminate. }
    split; [lia|]. split; [assumption|]. intros; apply Hmax; lia.
  - rewrite find_down_none in E. apply find_down_none. intros; apply E; lia.
Qed.

(** * The invariant *)
Definition Inv (sb : nat) (s : state) : Prop :=
  (forall x, sb <= bt s x <= cp s) /\
  (forall c, dclos c = true -> forall j, sb <= j -> j < bt s (bucket c) ->
             matches (nth j (st s) dflt) c = false).

Lemma step_agree sb s : Inv sb s -> step true sb s = step false sb s.
Proof.
  intros (Hb & Hno). unfold step.
  destruct (next_closer (st s) (cp s) (length (st s) - cp s)) as [c'|] eqn:En; [|reflexivity].
  apply next_closer_spec in En. destruct En as (Hc' & Hclos).
  cbn zeta.
  rewrite (find_down_lower_bound (st s) _ sb (bt s (bucket (nth c' (st s) dflt))) c').
  - reflexivity.
  - apply Hb.
  - specialize (Hb (bucket (nth c' (st s) dflt))). lia.
  - intros j H1 H2. apply Hno; assumption.
Qed.

(** * Preservation *)
Lemma same_static_trans a b c : same_static a b -> same_static b c -> same_static a c.
Proof. intros (A1 & A2 & A3 & A4) (B1 & B2 & B3 & B4); repeat split; congruence. Qed.

Lemma static_upd l i k j : i < length l ->
  same_static (nth j (upd l i (dec k)) dflt) (nth j l dflt).
Proof.
  intros Hi. rewrite nth_upd by assumption.
  destruct (Nat.eqb_spec j i) as [->|]; [apply same_static_dec | apply same_static_refl].
Qed.

Lemma inv_transfer sb s st' bt' cp' e :
  Inv sb s ->
  (forall x, sb <= bt' x <= cp') ->
  (forall x, bt' x <= bt s x) ->
  (forall x j, j < bt' x -> same_static (nth j st' dflt) (nth j (st s) dflt)) ->
  Inv sb {| st := st'; bt := bt'; cp := cp'; evs := e |}.
Proof.
  intros (Hb & Hno) H1 H2 H3. split; cbn [st bt cp evs]; [assumption|].
  intros c Hc j Hj1 Hj2. rewrite (matches_static _ _ c (H3 _ _ Hj2)).
  apply Hno; [assumption|assumption|]. specialize (H2 (bucket c)). lia.
Qed.

Lemma step_inv sb s s' : Inv sb s -> step false sb s = Some s' -> Inv sb s'.
Proof.
  intros HI Hstep. pose proof HI as (Hb & Hno). unfold step in Hstep.
  destruct (next_closer (st s) (cp s) (length (st s) - cp s)) as [c'|] eqn:En; [|discriminate].
  apply next_closer_spec in En. destruct En as (Hc' & Hclos).
  assert (HcL : c' < length (st s)) by lia.
  assert (Hsbc : sb <= c') by (specialize (Hb 0); lia).
  cbn zeta in Hstep.
  set (c := nth c' (st s) dflt) in *.
  destruct (find_down (st s) c sb (c' - sb)) as [oi|] eqn:Ef.
  - (* matched *)
    apply find_down_some in Ef. destruct Ef as (Hoi & _ & _).
    assert (Hoic : oi < c') by lia.
    set (k := if (2 <=? dcur (nth oi (st s) dflt)) && (2 <=? dcur c) then 2 else 1) in *.
    set (st1 := upd (upd (st s) oi (dec k)) c' (dec k)) in *.
    set (st2 := del st1 (S oi) c') in *.
    assert (L1 : length st1 = length (st s)) by (unfold st1; rewrite !length_upd; reflexivity).
    assert (L2 : length st2 = length (st s) - (c' - S oi)) by (unfold st2; rewrite length_del by lia; lia).
    assert (S1 : forall j, same_static (nth j st1 dflt) (nth j (st s) dflt)).
    { intros j. unfold st1. eapply same_static_trans.
      - apply static_upd. rewrite length_upd. lia.
      - apply static_upd. lia. }
    assert (S2 : forall j, j <= oi -> nth j st2 dflt = nth j st1 dflt).
    { intros j Hj. unfold st2. rewrite nth_del by lia.
      destruct (Nat.ltb_spec j (S oi)); [reflexivity|lia]. }
    destruct (dcur (nth oi st2 dflt) =? 0) eqn:Eo.
    + (* opener exhausted *)
      set (st3 := del st2 oi (S oi)) in *.
      assert (L3 : length st3 = length st2 - 1) by (unfold st3; rewrite length_del by lia; lia).
      assert (S3 : forall j, j < oi -> nth j st3 dflt = nth j st2 dflt).
      { intros j Hj. unfold st3. rewrite nth_del by lia.
        destruct (Nat.ltb_spec j oi); [reflexivity|lia]. }
      assert (Hbt : forall x, sb <= (if oi <? Nat.min (bt s x) (S oi) then Nat.min (bt s x) (S oi) - 1 else Nat.min (bt s x) (S oi)) <= oi
                              /\ (if oi <? Nat.min (bt s x) (S oi) then Nat.min (bt s x) (S oi) - 1 else Nat.min (bt s x) (S oi)) <= bt s x).
      { intros x. specialize (Hb x). destruct (Nat.ltb_spec oi (Nat.min (bt s x) (S oi))); lia. }
      destruct (dcur (nth oi st3 dflt) =? 0); inversion Hstep; subst s'; clear Hstep;
        (apply (inv_transfer sb s); [assumption | intros x; apply Hbt | intros x; apply Hbt |]);
        intros x j Hj; destruct (Hbt x) as ((_ & Hle) & _); assert (j < oi) by lia.
      * rewrite nth_del by lia. destruct (Nat.ltb_spec j oi); [|lia].
        rewrite S3, S2 by lia. apply S1.
      * rewrite S3, S2 by lia. apply S1.
    + (* opener survives *)
      assert (Hbt : forall x, sb <= Nat.min (bt s x) (S oi) <= S oi /\ Nat.min (bt s x) (S oi) <= bt s x).
      { intros x. specialize (Hb x). lia. }
      destruct (dcur (nth (S oi) st2 dflt) =? 0); inversion Hstep; subst s'; clear Hstep;
        (apply (inv_transfer sb s); [assumption | intros x; apply Hbt | intros x; apply Hbt |]);
        intros x j Hj; destruct (Hbt x) as ((_ & Hle) & _); assert (j <= oi) by lia.
      * rewrite nth_del by lia. destruct (Nat.ltb_spec j (S oi)); [|lia].
        rewrite S2 by lia. apply S1.
      * rewrite S2 by lia. apply S1.
  - (* no opener *)
    rewrite find_down_none in Ef.
    assert (Hbt : forall x, sb <= (if x =? bucket c then c' else bt s x) <= c').
    { intros x. destruct (x =? bucket c); [lia|]. specialize (Hb x). lia. }
    assert (Hm : forall c2, dclos c2 = true -> forall j, sb <= j ->
                 j < (if bucket c2 =? bucket c then c' else bt s (bucket c2)) ->
                 matches (nth j (st s) dflt) c2 = false).
    { intros c2 Hc2 j Hj1 Hj2. destruct (Nat.eqb_spec (bucket c2) (bucket c)) as [Eb|Eb].
      - rewrite (matches_bucket _ c2 c Eb Hc2 Hclos). apply Ef. lia.
      - apply Hno; assumption. }
    destruct (dopen c); inversion Hstep; subst s'; clear Hstep; split; cbn [st bt cp evs].
    + intros x. specialize (Hbt x). lia.
    + assumption.
    + assumption.
    + intros c2 Hc2 j Hj1 Hj2. rewrite nth_del by lia.
      assert (j < c') by (specialize (Hbt (bucket c2)); lia).
      destruct (Nat.ltb_spec j c'); [|lia]. apply Hm; assumption.
Qed.

(** * Main theorem: the search bound never changes the result *)
Theorem opt_eq_ref sb fuel s : Inv sb s -> run true sb fuel s = run false sb fuel s.
Proof.
  revert s; induction fuel as [|f IH]; intros s HI; [reflexivity|].
  cbn [run]. rewrite (step_agree sb s HI).
  destruct (step false sb s) as [s'|] eqn:E; [|reflexivity].
  apply IH. eapply step_inv; eassumption.
Qed.

Definition init (sb : nat) (l : list delim) : state := {| st := l; bt := fun _ => sb; cp := sb; evs := [] |}.

Corollary process_emphasis_opt_sound sb fuel l : run true sb fuel (init sb l) = run false sb fuel (init sb l).
Proof. apply opt_eq_ref. split; cbn [st bt cp evs init]; [intros; lia | intros; lia]. Qed.

Print Assumptions process_emphasis_opt_sound.
