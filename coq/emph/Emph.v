From Coq Require Import List Arith Lia Bool.
Import ListNotations.

(* Abstract delimiter: what process-emphasis decisions depend on. *)
Record delim := { did : nat; dstar : bool; dn : nat; dcur : nat; dopen : bool; dclos : bool }.
Definition dflt := {| did := 0; dstar := true; dn := 0; dcur := 0; dopen := false; dclos := false |}.

Definition bucket (c : delim) : nat :=
  (dn c mod 3) + (if dopen c then 3 else 0) + (if dstar c then 0 else 6).

Definition matches (o c : delim) : bool :=
  Bool.eqb (dstar o) (dstar c) && dopen o && dclos c &&
  ((negb (dclos o) && negb (dopen c)) || negb ((dn o + dn c) mod 3 =? 0) || ((dn o mod 3 =? 0) && (dn c mod 3 =? 0))).

Definition del {A} (l : list A) (i j : nat) : list A := firstn i l ++ skipn j l.
Definition upd {A} (l : list A) (i : nat) (f : A -> A) : list A :=
  firstn i l ++ match skipn i l with [] => [] | x :: r => f x :: r end.
Definition dec (k : nat) (d : delim) : delim :=
  {| did := did d; dstar := dstar d; dn := dn d; dcur := dcur d - k; dopen := dopen d; dclos := dclos d |}.

(* first index >= cp (searching k elements) holding a potential closer *)
Fixpoint next_closer (st : list delim) (cp k : nat) : option nat :=
  match k with
  | 0 => None
  | S k' => if dclos (nth cp st dflt) then Some cp else next_closer st (S cp) k'
  end.

(* search indices lo+k-1 down to lo *)
Fixpoint find_down (st : list delim) (c : delim) (lo k : nat) : option nat :=
  match k with
  | 0 => None
  | S k' => if matches (nth (lo + k') st dflt) c then Some (lo + k') else find_down st c lo k'
  end.

Record state := { st : list delim; bt : nat -> nat; cp : nat; evs : list (nat * nat * bool) }.

Definition step (opt : bool) (sb : nat) (s : state) : option state :=
  match next_closer (st s) (cp s) (length (st s) - cp s) with
  | None => None
  | Some c' =>
    let c := nth c' (st s) dflt in
    let b := bucket c in
    let lo := if opt then bt s b else sb in
    match find_down (st s) c lo (c' - lo) with
    | Some oi =>
      let o := nth oi (st s) dflt in
      let strong := (2 <=? dcur o) && (2 <=? dcur c) in
      let k := if strong then 2 else 1 in
      let st1 := upd (upd (st s) oi (dec k)) c' (dec k) in
      let st2 := del st1 (S oi) c' in
      let bt2 := fun x => Nat.min (bt s x) (S oi) in
      let '(st3, bt3, cp3) :=
        if dcur (nth oi st2 dflt) =? 0
        then (del st2 oi (S oi), (fun x => if oi <? bt2 x then bt2 x - 1 else bt2 x), oi)
        else (st2, bt2, S oi) in
      let st4 := if dcur (nth cp3 st3 dflt) =? 0 then del st3 cp3 (S cp3) else st3 in
      Some {| st := st4; bt := bt3; cp := cp3; evs := evs s ++ [(did o, did c, strong)] |}
    | None =>
      let bt' := fun x => if x =? b then c' else bt s x in
      if dopen c
      then Some {| st := st s; bt := bt'; cp := S c'; evs := evs s |}
      else Some {| st := del (st s) c' (S c'); bt := bt'; cp := c'; evs := evs s |}
    end
  end.

Fixpoint run (opt : bool) (sb : nat) (fuel : nat) (s : state) : option (list delim * list (nat * nat * bool)) :=
  match fuel with
  | 0 => None
  | S f => match step opt sb s with
           | None => Some (skipn sb (st s), evs s)   (* what is left above stack_bottom is discarded by the caller *)
           | Some s' => run opt sb f s'
           end
  end.
