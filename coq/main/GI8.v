From Coq Require Import List ZArith Lia Bool.
Import ListNotations.
Require Import Base Tables Utf8 Tree Rdr Link Collect Html Recog Inl3a Inl3b Inl3c Inl3d Inl3e Leaf3e GI6.
Open Scope Z_scope.

(* ================================================================== *)
(* GI8: the side condition titleNeedsDestFor is satisfiable (it holds  *)
(* for every source when there are no entries): the conditional        *)
(* theorems of GramInline.v are not vacuous.                           *)
(* ================================================================== *)

Definition noSp (r : reader) : Prop := r_spans r = [].
Lemma noSp_sub r r' : sublist (r_spans r') (r_spans r) -> noSp r -> noSp r'.
Proof. unfold noSp. intros Hs E. rewrite E in Hs. destruct (r_spans r') as [|x l]; [reflexivity|]. destruct (Hs x (or_introl eq_refl)). Qed.

Lemma next_noSp r : noSp r -> fst (next r) = false /\ noSp (snd (next r)).
Proof.
  intros E. unfold next, curNode, nodeIndexForPosition. rewrite E. cbn [nodeIdx Z.ltb Z.compare]. cbn. split; reflexivity.
Qed.
Lemma current_noSp r : noSp r -> noSp (snd (current r)).
Proof. apply noSp_sub, current_spans. Qed.

Lemma skipLinkSpace_loop_noSp : forall fuel r, noSp r -> noSp (snd (skipLinkSpace_loop fuel r)).
Proof.
  induction fuel as [|f IH]; intros r H; [exact H|]. cbn [skipLinkSpace_loop].
  pose proof (current_noSp r H) as H1. destruct (current r) as [c r1]. cbn [snd] in H1.
  destruct (isSpaceTabOrLineEnding c); [|exact H1].
  destruct (next_noSp r1 H1) as [_ H2]. destruct (next r1) as [ok r2]. cbn [snd] in H2. destruct ok; [apply IH, H2|exact H2].
Qed.
Lemma skipLinkSpace_noSp fuel r : noSp r -> noSp (snd (skipLinkSpace fuel r)).
Proof.
  intros H. unfold skipLinkSpace. pose proof (current_noSp r H) as H1. destruct (current r) as [c r1]. cbn [snd] in H1.
  destruct (c =? 0); [exact H1|apply skipLinkSpace_loop_noSp, H1].
Qed.
Lemma ld_angle_noSp : forall fuel r start, noSp r -> noSp (snd (ld_angle fuel r start)).
Proof.
  induction fuel as [|f IH]; intros r start H; [exact H|]. cbn [ld_angle].
  destruct (next_noSp r H) as [E1 H1]. destruct (next r) as [ok r1]. cbn [fst snd] in *. subst ok. exact H1.
Qed.
Lemma ld_bare_noSp : forall fuel r paren, noSp r -> noSp (ld_bare fuel r paren).
Proof.
  induction fuel as [|f IH]; intros r paren H; [exact H|]. cbn [ld_bare].
  pose proof (current_noSp r H) as H1. destruct (current r) as [c r1]. cbn [snd] in H1.
  destruct (next_noSp r1 H1) as [E2 H2]. destruct (next r1) as [ok r2]. cbn [fst snd] in *. subst ok.
  destruct (_ || _); [exact H1|]. destruct (c =? 92); [exact H2|]. destruct (c =? 40); [exact H2|].
  destruct (c =? 41); [destruct (_ <? 0); [exact H1|exact H2]|exact H2].
Qed.
Lemma parseLinkDestination_noSp fuel r : noSp r -> noSp (snd (parseLinkDestination fuel r)).
Proof.
  intros H. unfold parseLinkDestination. pose proof (current_noSp r H) as H1. destruct (current r) as [c r0]. cbn [snd] in H1.
  destruct (c =? 60); [apply ld_angle_noSp, H1|]. destruct (_ && _ && _); [cbn [snd]; apply ld_bare_noSp, H1|exact H1].
Qed.
Lemma parseLinkTitle_noSp fuel r : noSp r -> fst (fst (parseLinkTitle fuel r)) = nullSpan.
Proof.
  intros H. unfold parseLinkTitle. pose proof (current_noSp r H) as H1. destruct (current r) as [c r0]. cbn [snd] in H1.
  destruct (negb _); [reflexivity|]. destruct fuel as [|f]; [reflexivity|]. cbn [lt_loop].
  destruct (next_noSp r0 H1) as [E2 _]. destruct (next r0) as [ok r1]. cbn [fst] in E2. subst ok. reflexivity.
Qed.

Theorem titleNeedsDestFor_nil src : titleNeedsDestFor src [].
Proof.
  intros st start ispan dspan dtext tspan ttext Es Eu Hp Hi Ht. exfalso.
  unfold parseInlineLink in Hp.
  assert (H0 : noSp (newReader (isrc st) (unpFrom st) (start + 1))).
  { unfold noSp, newReader, unpFrom, from_. cbn [r_spans]. rewrite Eu. apply skipn_nil. }
  pose proof (skipLinkSpace_noSp (rfuelOf st) _ H0) as H1. destruct (skipLinkSpace (rfuelOf st) _) as [ok r1]. cbn [snd] in H1.
  destruct (negb ok); [inversion Hp; subst; discriminate|].
  pose proof (parseLinkDestination_noSp (rfuelOf st) r1 H1) as H2.
  destruct (parseLinkDestination (rfuelOf st) r1) as [[ds dt] r2]. cbn [snd] in H2.
  assert (H3 : noSp (snd (if spanValid ds then skipLinkSpace (rfuelOf st) r2 else (true, r2)))).
  { destruct (spanValid ds); [apply skipLinkSpace_noSp, H2|exact H2]. }
  destruct (if spanValid ds then skipLinkSpace (rfuelOf st) r2 else (true, r2)) as [ok2 r3]. cbn [snd] in H3.
  destruct (negb ok2); [inversion Hp; subst; discriminate|].
  pose proof (parseLinkTitle_noSp (rfuelOf st) r3 H3) as H4.
  destruct (parseLinkTitle (rfuelOf st) r3) as [[ts tt] r4]. cbn [fst] in H4. subst ts.
  change (spanValid nullSpan) with false in Hp. cbv beta iota in Hp.
  destruct (negb true); [inversion Hp; subst; discriminate|].
  destruct (negb (cur r4 =? 41)); inversion Hp; subst; discriminate.
Qed.
Print Assumptions titleNeedsDestFor_nil.
