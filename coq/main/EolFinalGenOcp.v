From Coq Require Import List ZArith Lia Bool.
Import ListNotations.
Require Import Base Tree Rdr Link Collect LP Driver Props LADef TOcp EolBounded EolFinalDefs.
Open Scope Z_scope.

(* C14 (i), final newline, inputs with '[': what the refactored development needs about onCloseParagraph on ONE run:
   the shape of its outputs, the exclusion of the setext orphan, and the bookkeeping of entry lists. *)

(* ---- boolean membership of an entry list in a finite set of entry lists ---- *)
Lemma beqL_refl {A} (f : A -> A -> bool) : forall l, (forall x, In x l -> f x x = true) -> beqL f l l = true.
Proof. induction l as [|x l IH]; intros H; [reflexivity|]. cbn [beqL]. rewrite (H x (or_introl eq_refl)), IH; [reflexivity|]. intros y Hy. apply H. right. exact Hy. Qed.
Lemma beqI_refl : forall u, beqI u u = true.
Proof.
  fix IH 1. intros [k s e i r ks]. cbn [beqI]. rewrite !Z.eqb_refl. rewrite (beqL_refl Z.eqb r) by (intros x _; apply Z.eqb_refl). cbn [andb].
  induction ks as [|p q IHq]; [reflexivity|]. rewrite (IH p), IHq. reflexivity.
Qed.
Definition eqIk (a b : list inline) : bool := beqL beqI a b.
Lemma eqIk_sound a b : eqIk a b = true -> a = b. Proof. apply beqL_sound. intros x y _. apply beqI_sound. Qed.
Lemma eqIk_refl a : eqIk a a = true. Proof. apply beqL_refl. intros x _. apply beqI_refl. Qed.
Definition memIk (ik : list inline) (SS : list (list inline)) : bool := existsb (eqIk ik) SS.
Lemma memIk_In ik SS : memIk ik SS = true -> In ik SS.
Proof. unfold memIk. rewrite existsb_exists. intros (x & Hx & E). apply eqIk_sound in E. subst x. exact Hx. Qed.
Lemma In_memIk ik SS : In ik SS -> memIk ik SS = true.
Proof. intros H. unfold memIk. rewrite existsb_exists. exists ik. split; [exact H|apply eqIk_refl]. Qed.

(* ---- the facts about the entries of an open paragraph that the two-run reader lemma needs ---- *)
Definition PE (src : bytes) (c : Z) (ik : list inline) : Prop :=
  exists lo hi, 0 <= lo /\ hi <= c /\ tileS src lo hi (map ispan ik) /\ Forall (eok src ParagraphKind) ik /\ indOK ik.
Lemma PE_nil src c : 0 <= c -> PE src c [].
Proof. intros Hc. exists 0, 0. split; [lia|split; [exact Hc|split; [|split; [constructor|exact I]]]]. cbn [map tileS]. split; [lia|intros q Hq; lia]. Qed.
Lemma eok_paraK src K u : isParaK K = true -> eok src ParagraphKind u -> eok src K u.
Proof. intros HK (A & B & C). split; [exact A|split; [intros _; apply B; reflexivity|exact C]]. Qed.

(* suffixes: the paragraph left over after definitions were extracted keeps a suffix of the entries *)
Fixpoint isSuf (a l : list inline) : bool := eqIk a l || match l with [] => false | _ :: r => isSuf a r end.
Lemma isSuf_spec a : forall l, isSuf a l = true <-> exists pre, l = pre ++ a.
Proof.
  induction l as [|x r IH]; cbn [isSuf].
  - rewrite orb_false_r. split; [intros E; apply eqIk_sound in E; subst a; exists []; reflexivity|].
    intros (pre & E). destruct pre; [cbn in E; subst a; apply eqIk_refl|discriminate].
  - rewrite orb_true_iff, IH. split.
    + intros [E|(pre & E)]; [apply eqIk_sound in E; subst a; exists []; reflexivity|exists (x :: pre); rewrite E; reflexivity].
    + intros (pre & E). destruct pre as [|y pre]; [left; cbn in E; subst a; apply eqIk_refl|right; exists pre; cbn in E; injection E as _ E; exact E].
Qed.
Lemma isSuf_from l k : isSuf (from_ l k) l = true.
Proof. apply isSuf_spec. exists (firstn (Z.to_nat k) l). unfold from_. symmetry. apply firstn_skipn. Qed.
Lemma isSuf_trans a b c : isSuf a b = true -> isSuf b c = true -> isSuf a c = true.
Proof. rewrite !isSuf_spec. intros (p1 & E1) (p2 & E2). exists (p2 ++ p1). rewrite E2, E1, app_assoc. reflexivity. Qed.
Definition sufIk (ik : list inline) (SS : list (list inline)) : bool := existsb (isSuf ik) SS.
Lemma sufIk_suf a b SS : isSuf a b = true -> sufIk b SS = true -> sufIk a SS = true.
Proof. unfold sufIk. rewrite !existsb_exists. intros H (l & Hl & Hb). exists l. split; [exact Hl|eapply isSuf_trans; eassumption]. Qed.
Lemma In_sufIk ik SS : In ik SS -> sufIk ik SS = true.
Proof. intros H. unfold sufIk. rewrite existsb_exists. exists ik. split; [exact H|apply isSuf_spec; exists []; reflexivity]. Qed.
Lemma tileS_NT_lo src lo hi l : tileS src lo hi l -> lo <= hi.
Proof. revert lo. induction l as [|a r IH]; intros lo H; cbn [tileS] in H; [tauto|]. destruct H as (A & _ & B & C). specialize (IH _ C). lia. Qed.
Lemma PE_app src c pre ik : PE src c (pre ++ ik) -> PE src c ik.
Proof.
  induction pre as [|x pre IH]; [exact (fun H => H)|]. intros (lo & hi & H0 & Hh & Ht & Hf & Hi). apply IH.
  cbn [app map tileS] in Ht. destruct Ht as (T1 & T2 & T3 & T4). exists (snd (ispan x)), hi.
  split; [lia|]. split; [exact Hh|]. split; [exact T4|]. split; [inversion Hf; assumption|]. cbn [app indOK] in Hi. tauto.
Qed.
Lemma PE_suf src c a l : isSuf a l = true -> PE src c l -> PE src c a.
Proof. intros H. apply isSuf_spec in H. destruct H as (pre & ->). apply PE_app. Qed.

(* ---- every output of the extraction loop without orphan: a definition block, or the paragraph with a later start and a suffix of its entries ---- *)
Section OcpAll.
  Variable Q : block -> Prop.
  Variable O : block -> Prop.
  Hypothesis Q_def : forall s e k, Q (refDefBlock s e k).
  Hypothesis O_Q : forall o, O o -> Q o.
  Hypothesis O_cut : forall o pos fc, O o -> O (set_bik (set_bstart o pos) (from_ (bik o) fc)).
  Lemma Forall_snoc l x : Forall Q l -> Q x -> Forall Q (l ++ [x]).
  Proof. intros A B. apply Forall_app. split; [exact A|constructor; [exact B|constructor]]. Qed.
  Lemma ocp_loop_all : forall fuel rf src orig r result, O orig -> Forall Q result -> Forall Q (ocp_loop fuel rf src orig None r result).
  Proof.
    induction fuel as [|f IH]; intros rf src orig r result Ho Hr; [apply Forall_snoc; [exact Hr|apply O_Q, Ho]|].
    cbn [ocp_loop]. cbv zeta.
    assert (H0 : Forall Q (result ++ [orig])) by (apply Forall_snoc; [exact Hr|apply O_Q, Ho]).
    destruct (parseLinkLabel rf r) as [[lspan linner] r1].
    destruct (negb (spanValid lspan)); [exact H0|].
    destruct (current r1) as [c r2]. destruct (negb (c =? 58)); [exact H0|].
    destruct (next r2) as [? r3]. destruct (skipLinkSpace rf r3) as [ok r4]. destruct (negb ok); [exact H0|].
    destruct (parseLinkDestination rf r4) as [[dspan dtext] r5]. destruct (negb (spanValid dspan)); [exact H0|].
    destruct (readEOL rf r5) as [destEOL r6]. destruct (current r6) as [c6 r7].
    destruct (_ && _ && _); [exact H0|].
    set (labelInline := Inl LinkLabelKind _ _ 0 _ _). set (destInline := Inl LinkDestinationKind _ _ 0 [] _).
    assert (H2 : Forall Q (result ++ [refDefBlock (fst lspan) destEOL [labelInline; destInline]])) by (apply Forall_snoc; [exact Hr|apply Q_def]).
    destruct (skipLinkSpace rf r7) as [ok2 r8]. destruct (negb ok2); [exact H2|].
    destruct (parseLinkTitle rf r8) as [[tspan ttext] r9].
    destruct (negb (spanValid tspan)).
    { destruct (destEOL <? 0); [exact H0|]. destruct (_ <? 0); [exact H2|]. apply IH; [apply O_cut, Ho|exact H2]. }
    destruct (readEOL rf r9) as [titleEOL r10].
    destruct (titleEOL <? 0).
    { destruct (destEOL <? 0); [exact H0|]. destruct (_ <? 0); [exact H2|]. rewrite app_assoc. apply Forall_snoc; [exact H2|apply O_Q, O_cut, Ho]. }
    set (titleInline := Inl LinkTitleKind _ _ 0 [] _).
    assert (H3 : Forall Q (result ++ [refDefBlock (fst lspan) titleEOL [labelInline; destInline; titleInline]])) by (apply Forall_snoc; [exact Hr|apply Q_def]).
    destruct (_ <? 0); [exact H3|]. apply IH; [apply O_cut, Ho|exact H3].
  Qed.
  Lemma ocpN_all src orig : O orig -> Forall Q (ocpN src orig).
  Proof.
    intros Ho. unfold ocpN. destruct (bik orig) as [|first rest] eqn:Eb; [constructor; [apply O_Q, Ho|constructor]|].
    apply ocp_loop_all; [exact Ho|constructor].
  Qed.
End OcpAll.

(* ---- the kinds of the outputs depend on the entries and the kind of the paragraph only ---- *)
Lemma map_snoc {A B} (f : A -> B) l x : map f (l ++ [x]) = map f l ++ [f x]. Proof. rewrite map_app. reflexivity. Qed.
Lemma ocp_kinds_eq : forall fuel rf src o1 o2 orph r res1 res2,
  bik o1 = bik o2 -> bkind o1 = bkind o2 -> map bkind res1 = map bkind res2 ->
  map bkind (ocp_loop fuel rf src o1 orph r res1) = map bkind (ocp_loop fuel rf src o2 orph r res2).
Proof.
  induction fuel as [|f IH]; intros rf src o1 o2 orph r res1 res2 Hb Hk Hr; [cbn [ocp_loop]; rewrite !map_snoc, Hr, Hk; reflexivity|].
  cbn [ocp_loop]. cbv zeta. rewrite <- Hb.
  assert (H0 : map bkind (res1 ++ [o1]) = map bkind (res2 ++ [o2])) by (rewrite !map_snoc, Hr, Hk; reflexivity).
  destruct (parseLinkLabel rf r) as [[lspan linner] r1].
  destruct (negb (spanValid lspan)); [exact H0|].
  destruct (current r1) as [c r2]. destruct (negb (c =? 58)); [exact H0|].
  destruct (next r2) as [? r3]. destruct (skipLinkSpace rf r3) as [ok r4]. destruct (negb ok); [exact H0|].
  destruct (parseLinkDestination rf r4) as [[dspan dtext] r5]. destruct (negb (spanValid dspan)); [exact H0|].
  destruct (readEOL rf r5) as [destEOL r6]. destruct (current r6) as [c6 r7].
  destruct (_ && _ && _); [exact H0|].
  set (labelInline := Inl LinkLabelKind _ _ 0 _ _). set (destInline := Inl LinkDestinationKind _ _ 0 [] _).
  assert (Hw : forall a0 b0 : list block, map bkind a0 = map bkind b0 ->
            map bkind (match orph with Some o => a0 ++ [o] | None => a0 end) = map bkind (match orph with Some o => b0 ++ [o] | None => b0 end))
    by (intros a0 b0 E; destruct orph; [rewrite !map_snoc, E; reflexivity|exact E]).
  assert (H2 : map bkind (res1 ++ [refDefBlock (fst lspan) destEOL [labelInline; destInline]]) = map bkind (res2 ++ [refDefBlock (fst lspan) destEOL [labelInline; destInline]]))
    by (rewrite !map_snoc, Hr; reflexivity).
  assert (Hc : forall pos fc, bik (set_bik (set_bstart o1 pos) (from_ (bik o1) fc)) = bik (set_bik (set_bstart o2 pos) (from_ (bik o1) fc)) /\
                              bkind (set_bik (set_bstart o1 pos) (from_ (bik o1) fc)) = bkind (set_bik (set_bstart o2 pos) (from_ (bik o1) fc)))
    by (intros pos fc; destruct o1, o2; cbn [bkind] in Hk; subst; split; reflexivity).
  destruct (skipLinkSpace rf r7) as [ok2 r8]. destruct (negb ok2); [apply Hw, H2|].
  destruct (parseLinkTitle rf r8) as [[tspan ttext] r9].
  destruct (negb (spanValid tspan)).
  { destruct (destEOL <? 0); [exact H0|]. destruct (_ <? 0); [apply Hw, H2|]. apply IH; [apply Hc|apply Hc|exact H2]. }
  destruct (readEOL rf r9) as [titleEOL r10].
  destruct (titleEOL <? 0).
  { destruct (destEOL <? 0); [exact H0|]. destruct (_ <? 0); [apply Hw, H2|]. rewrite !app_assoc. rewrite (map_app bkind (res1 ++ _) [_]), (map_app bkind (res2 ++ _) [_]), H2. f_equal. cbn [map]. f_equal. apply Hc. }
  set (titleInline := Inl LinkTitleKind _ _ 0 [] _).
  assert (H3 : map bkind (res1 ++ [refDefBlock (fst lspan) titleEOL [labelInline; destInline; titleInline]]) = map bkind (res2 ++ [refDefBlock (fst lspan) titleEOL [labelInline; destInline; titleInline]]))
    by (rewrite !map_snoc, Hr; reflexivity).
  destruct (_ <? 0); [apply Hw, H3|]. apply IH; [apply Hc|apply Hc|exact H3].
Qed.
Lemma lastPara_kinds l1 l2 : map bkind l1 = map bkind l2 -> lastPara l1 = lastPara l2.
Proof.
  intros E. unfold lastPara. assert (E2 : map bkind (rev l1) = map bkind (rev l2)) by (rewrite !map_rev, E; reflexivity).
  destruct (rev l1) as [|a r1], (rev l2) as [|b r2]; try discriminate; [reflexivity|]. cbn [map] in E2. injection E2 as Ea _. rewrite Ea. reflexivity.
Qed.
Lemma ocpN_kinds_eq src o1 o2 : bik o1 = bik o2 -> bkind o1 = bkind o2 -> map bkind (ocpN src o1) = map bkind (ocpN src o2).
Proof.
  intros Hb Hk. unfold ocpN. rewrite <- Hb. destruct (bik o1) as [|first rest] eqn:Eb; [cbn [map]; rewrite Hk; reflexivity|].
  apply ocp_kinds_eq; [rewrite Eb; exact Hb|exact Hk|reflexivity].
Qed.

(* ---- the setext orphan: excluded when the paragraph the heading was made from leaves paragraph content ---- *)
Definition paraOf (ik : list inline) : block := Blk ParagraphKind 0 (-1) [] ik 0 0 0 false false.
Definition leavesPara (src : bytes) (ik : list inline) : bool := lastPara (ocpN src (paraOf ik)).
Lemma leavesPara_of src b : bkind b = ParagraphKind -> lastPara (onCloseParagraph src b) = leavesPara src (bik b).
Proof.
  intros Hk. rewrite (ocp_para_eq src b) by (rewrite Hk; discriminate). unfold leavesPara. apply lastPara_kinds, ocpN_kinds_eq; [reflexivity|exact Hk].
Qed.
Lemma ocp_eq_ocpN src b : (bkind b <> SetextHeadingKind \/ leavesPara src (bik b) = true) -> onCloseParagraph src b = ocpN src b.
Proof.
  intros [N|H]; [apply ocp_para_eq, N|]. apply (ocp_setext_eq src (paraOf (bik b)) b); [reflexivity|discriminate|].
  rewrite (leavesPara_of src (paraOf (bik b)) eq_refl). exact H.
Qed.
(* no open setext heading, unless its closing cannot produce the orphan *)
Definition nsP (src : bytes) (b : block) : bool := negb (isOpen b && (bkind b =? SetextHeadingKind)) || leavesPara src (bik b).
Lemma nsP_ocp src b e : nsP src b = true -> isOpen b = true -> onCloseParagraph src (set_bend b e) = ocpN src (set_bend b e).
Proof.
  intros H Ho. apply ocp_eq_ocpN. replace (bkind (set_bend b e)) with (bkind b) by (destruct b; reflexivity). replace (bik (set_bend b e)) with (bik b) by (destruct b; reflexivity).
  unfold nsP in H. rewrite Ho in H. cbn [andb] in H. destruct (Z.eqb_spec (bkind b) SetextHeadingKind) as [E|N]; [right; exact H|left; exact N].
Qed.

(* ---- the ingredient delivered separately: the two-run commutation of the link-reference-definition parser ---- *)
Definition ocp_fin_statement : Prop := forall src b lo hi, src <> [] -> endsEol src = false -> isParaK (bkind b) = true -> bkids b = [] ->
  0 <= lo -> hi <= len src -> tileS src lo hi (map ispan (bik b)) -> Forall (eok src (bkind b)) (bik b) -> indOK (bik b) ->
  (bkind b = SetextHeadingKind -> hi < len src) ->
  onCloseParagraph (src ++ [10]) (finB (len src) b) = map (finB (len src)) (onCloseParagraph src b).
Class OcpFinC : Prop := ocp_fin_pf : ocp_fin_statement.

Lemma ocp_fin_PE {HO : OcpFinC} src c0 b : src <> [] -> endsEol src = false -> isParaK (bkind b) = true -> bkids b = [] -> c0 <= len src ->
  PE src c0 (bik b) -> (bkind b = SetextHeadingKind -> c0 < len src) ->
  onCloseParagraph (src ++ [10]) (finB (len src) b) = map (finB (len src)) (onCloseParagraph src b).
Proof.
  intros Hne He Hk Hb Hc (lo & hi & H0 & Hh & Ht & Hf & Hi) Hs.
  apply (ocp_fin_pf src b lo hi Hne He Hk Hb H0 ltac:(lia) Ht); [|exact Hi|intros E; specialize (Hs E); lia].
  eapply Forall_impl; [|exact Hf]. intros u. apply eok_paraK, Hk.
Qed.
