(* C14 (i), final newline: onCloseParagraph commutes with the tree map finB when a line feed is appended to a source
   that does not end in a line ending.  Main theorem ocp_fin and the corollaries needed by its consumer. *)
From Coq Require Import List ZArith Lia Bool.
Import ListNotations.
Require Import Base Tree Rdr Link Collect LP BSRdr LADef LA1 LAR1 ShapesR IFBase IFTitle EolFinalDefs
  EolGenRdrBase EolGenRdrFuel EolGenRdrOcp EolGenRdrBridge.
Open Scope Z_scope.

Lemma endsEol_last src : src <> [] -> endsEol src = false -> isEOLz (at_ src (len src - 1)) = false.
Proof.
  intros Hne He. unfold endsEol in He. rewrite <- (rev_involutive src). destruct (rev src) as [|c t] eqn:E.
  - exfalso. apply Hne. rewrite <- (rev_involutive src), E. reflexivity.
  - cbn [rev]. rewrite ShapesBase.len_app. change (len [c]) with 1. replace (len (rev t) + 1 - 1) with (len (rev t)) by lia.
    rewrite ShapesBase.at_app_r by lia. replace (len (rev t) - len (rev t)) with 0 by lia. exact He.
Qed.

Section M.
Variable src : bytes.
Local Notation L := (len src).
Local Notation src2 := (src ++ [10]).
Hypothesis HL : 0 < L.
Hypothesis Hlast : isEOLz (at_ src (L - 1)) = false.
Local Notation F := (finB L).

Lemma at_beyond i : L <= i -> at_ src i = 0.
Proof. intros H. unfold at_. destruct (Z.ltb_spec i 0); [reflexivity|]. apply nth_overflow. unfold len in H. lia. Qed.
Lemma sidx_two : forall f1 f2 i, 0 <= i <= L -> L - i <= Z.of_nat f1 -> L - i <= Z.of_nat f2 ->
  skipSpTabIdx f2 src2 i = skipSpTabIdx f1 src i.
Proof.
  assert (HE : forall f1 f2, skipSpTabIdx f2 src2 L = skipSpTabIdx f1 src L).
  { intros f1 f2. destruct f2 as [|f2]; destruct f1 as [|f1]; cbn [skipSpTabIdx]; rewrite ?(at2_L src HL Hlast), ?(at_beyond L) by lia; reflexivity. }
  induction f1 as [|f1 IH]; intros f2 i Hi H1 H2.
  - assert (i = L) by lia. subst i. apply HE.
  - destruct (Z.eq_dec i L) as [->|Hne]; [apply HE|]. destruct f2 as [|f2]; [lia|]. cbn [skipSpTabIdx].
    rewrite (at2_in src HL Hlast i) by lia. destruct (isSpTab (at_ src i)); [|reflexivity]. apply IH; lia.
Qed.

(* the orphan block of the setext case *)
Lemma orphan_fin o1 o2 : OI src o1 o2 ->
  (if bkind o2 =? SetextHeadingKind then
     let blockStart := match rev (bik o2) with l :: _ => iend l | [] => 0 end in
     let ls := skipSpTabIdx (length src2) src2 blockStart in
     Some (Blk ParagraphKind blockStart (-1) [] [mkI UnparsedKind ls (bend o2)] 0 0 0 false false)
   else None) =
  option_map F
  (if bkind o1 =? SetextHeadingKind then
     let blockStart := match rev (bik o1) with l :: _ => iend l | [] => 0 end in
     let ls := skipSpTabIdx (length src) src blockStart in
     Some (Blk ParagraphKind blockStart (-1) [] [mkI UnparsedKind ls (bend o1)] 0 0 0 false false)
   else None).
Proof.
  intros (K & s & e & ik & a & n & c & l & lb & -> & -> & HG & [->|[-> Hf]]); cbn [bkind bik bend]; [reflexivity|].
  rewrite (bsp_same src HL Hlast ik Hf). cbn [Z.eqb Pos.eqb SetextHeadingKind]. cbv zeta. cbn [option_map]. f_equal.
  set (bs := match rev ik with l0 :: _ => iend l0 | [] => 0 end).
  assert (Hbs : 0 <= bs <= L).
  { unfold bs. destruct (rev ik) as [|l0 t] eqn:E; [lia|]. assert (Hin : In l0 ik) by (apply in_rev; rewrite E; left; reflexivity).
    destruct (GS_In src HL Hlast ik l0 HG Hin) as (A & B & C & _). lia. }
  rewrite (sidx_two (length src) (length src2) bs Hbs) by (rewrite ?app_length; cbn [length]; unfold len in *; lia).
  cbn [finB]. cbn [Z.eqb Pos.eqb ParagraphKind ListMarkerKind]. unfold finI. cbn [Z.eqb Pos.eqb orb ParagraphKind HTMLBlockKind map mkI bumpI UnparsedKind IndentKind].
  replace (bump L (-1)) with (-1) by (unfold bump; destruct (Z.eqb_spec (-1) L); [lia|reflexivity]). reflexivity.
Qed.

Lemma OI_of_la b : isParaK (bkind b) = true -> bkids b = [] -> GS src (bik b) ->
  (bkind b = SetextHeadingKind -> Forall (fun u => iend u <> L) (bik b)) -> OI src b (F b).
Proof.
  intros HK Hbk HG Hset. destruct b as [K s e bk ik a n c l lb]. cbn [bkind bkids bik] in *. subst bk.
  exists K, s, e, ik, a, n, c, l, lb. split; [reflexivity|].
  unfold isParaK in HK. apply orb_true_iff in HK. destruct HK as [HK|HK]; apply Z.eqb_eq in HK; subst K.
  - split; [reflexivity|]. split; [exact HG|left; reflexivity].
  - specialize (Hset eq_refl).
    split; [rewrite (bsp_same src HL Hlast ik Hset); reflexivity|]. split; [exact HG|right; split; [reflexivity|exact Hset]].
Qed.
End M.

(* the general form: for a setext heading it is enough that no entry ends at the end of the source *)
Theorem ocp_fin_gen src b lo hi : src <> [] -> endsEol src = false -> isParaK (bkind b) = true -> bkids b = [] ->
  0 <= lo -> hi <= len src -> tileS src lo hi (map ispan (bik b)) -> Forall (eok src (bkind b)) (bik b) -> indOK (bik b) ->
  (bkind b = SetextHeadingKind -> Forall (fun u => iend u <> len src) (bik b)) ->
  onCloseParagraph (src ++ [10]) (finB (len src) b) = map (finB (len src)) (onCloseParagraph src b).
Proof.
  intros Hne Heol HK Hbk H0 Hh Ht Hf Hi Hset.
  assert (HL : 0 < len src) by (destruct src; [congruence|unfold len; cbn [length]; lia]).
  pose proof (endsEol_last src Hne Heol) as Hlast.
  pose proof (la_ENT src (bkind b) lo hi (bik b) HK H0 Hh Ht Hf) as He.
  pose proof (ENT_GS src (bik b) He Hi) as HG.
  pose proof (ibudget_ENT src (bik b) He Hi) as Hib.
  pose proof (OI_of_la src HL Hlast b HK Hbk HG Hset) as HO.
  unfold onCloseParagraph. destruct (OI_bik src HL Hlast _ _ HO) as [Ebik _]. rewrite Ebik.
  pose proof (orphan_fin src HL Hlast _ _ HO) as Horph. rewrite Ebik in Horph. clear Ebik.
  destruct (bik b) as [|first rest] eqn:Eik.
  { cbn [bsp map]. reflexivity. }
  remember (bsp src (first :: rest)) as B eqn:EB.
  assert (EB' : B = bumpI (len src) first :: bsp src rest) by (rewrite EB; reflexivity).
  destruct B as [|f0 B']; [discriminate EB'|]. cbv zeta. cbv zeta in Horph. rewrite Horph. clear Horph.
  assert (Ef0 : istart f0 = istart first) by (inversion EB'; apply bumpI_start). rewrite Ef0.
  replace (length (f0 :: B')) with (length (first :: rest)) by (rewrite EB; unfold bsp; rewrite map_length; reflexivity).
  rewrite EB. clear EB EB' Ef0 f0 B'.
  set (rf1 := (2 * length src + 10)%nat). set (rf2 := (2 * length (src ++ [10%Z]) + 10)%nat).
  assert (Hgf : gE src first) by (apply (GS_In src HL Hlast (first :: rest) first HG); left; reflexivity).
  assert (Hw1 : spW src (first :: rest) = true) by (apply (GS_spW1 src HL Hlast), HG).
  (* run 1: the fuel of run 2 does as well *)
  rewrite <- Eik in Hw1.
  rewrite (ocp_rfuel src rf1 rf2 (S (length (first :: rest))) b _ (newReader src (first :: rest) (istart first)) []).
  2:{ apply PL_new. rewrite <- Eik. exact Hw1. }
  2:{ exact Hw1. }
  2:{ pose proof (nu_new src (first :: rest) (istart first) ltac:(rewrite <- Eik; exact Hw1)). unfold rf1, len in *. lia. }
  2:{ pose proof (nu_new src (first :: rest) (istart first) ltac:(rewrite <- Eik; exact Hw1)). unfold rf2. rewrite app_length. cbn [length]. unfold len in *. lia. }
  2:{ rewrite Eik. unfold rf1, len in *. lia. }
  2:{ rewrite Eik. unfold rf2. rewrite app_length. cbn [length]. unfold len in *. lia. }
  refine (g_ocp_loop src HL Hlast _ rf2 b _ _ _ _ [] _ _ HO); [apply Rin_new; [exact HL|exact Hlast|exact HG|destruct Hgf as (_ & ? & ? & _); lia]|].
  pose proof (nu_new (src ++ [10]) (bsp src (first :: rest)) (istart first) (GS_spW2 src HL Hlast _ HG)) as Hn.
  rewrite (ibudget_bsp src HL Hlast) in Hn. rewrite (len2 src HL Hlast) in Hn. unfold rf2. rewrite app_length. cbn [length]. unfold len in *. lia.
Qed.
Print Assumptions ocp_fin_gen.

(* the requested statement *)
Theorem ocp_fin src b lo hi : src <> [] -> endsEol src = false -> isParaK (bkind b) = true -> bkids b = [] ->
  0 <= lo -> hi <= len src -> tileS src lo hi (map ispan (bik b)) -> Forall (eok src (bkind b)) (bik b) -> indOK (bik b) ->
  (bkind b = SetextHeadingKind -> hi < len src) ->
  onCloseParagraph (src ++ [10]) (finB (len src) b) = map (finB (len src)) (onCloseParagraph src b).
Proof.
  intros Hne Heol HK Hbk H0 Hh Ht Hf Hi Hset. apply (ocp_fin_gen src b lo hi); try assumption.
  intros Ek. specialize (Hset Ek). apply Forall_forall. intros u Hu.
  pose proof (tileS_In src lo hi _ (ispan u) Ht ltac:(apply in_map; exact Hu)) as (_ & _ & P). cbn [ispan snd] in P. lia.
Qed.
Print Assumptions ocp_fin.

(* ---------- corollaries ---------- *)
Lemma bkind_finB L b : bkind (finB L b) = bkind b.
Proof. destruct b as [K s e bk ik a n c l lb]. cbn [finB bkind]. destruct (K =? ListMarkerKind); reflexivity. Qed.

(* (a) the test of Starts.containerHasParagraphContent: the kind of the last block produced *)
Theorem ocp_fin_gen_lastKind src b lo hi : src <> [] -> endsEol src = false -> isParaK (bkind b) = true -> bkids b = [] ->
  0 <= lo -> hi <= len src -> tileS src lo hi (map ispan (bik b)) -> Forall (eok src (bkind b)) (bik b) -> indOK (bik b) ->
  (bkind b = SetextHeadingKind -> Forall (fun u => iend u <> len src) (bik b)) ->
  match rev (onCloseParagraph (src ++ [10]) (finB (len src) b)) with l :: _ => bkind l =? ParagraphKind | [] => false end =
  match rev (onCloseParagraph src b) with l :: _ => bkind l =? ParagraphKind | [] => false end.
Proof.
  intros Hne Heol HK Hbk H0 Hh Ht Hf Hi Hset. rewrite (ocp_fin_gen src b lo hi Hne Heol HK Hbk H0 Hh Ht Hf Hi Hset).
  rewrite <- map_rev. destruct (rev (onCloseParagraph src b)) as [|l t]; [reflexivity|]. cbn [map]. rewrite bkind_finB. reflexivity.
Qed.
Theorem ocp_fin_lastKind src b lo hi : src <> [] -> endsEol src = false -> isParaK (bkind b) = true -> bkids b = [] ->
  0 <= lo -> hi <= len src -> tileS src lo hi (map ispan (bik b)) -> Forall (eok src (bkind b)) (bik b) -> indOK (bik b) ->
  (bkind b = SetextHeadingKind -> hi < len src) ->
  match rev (onCloseParagraph (src ++ [10]) (finB (len src) b)) with l :: _ => bkind l =? ParagraphKind | [] => false end =
  match rev (onCloseParagraph src b) with l :: _ => bkind l =? ParagraphKind | [] => false end.
Proof.
  intros Hne Heol HK Hbk H0 Hh Ht Hf Hi Hset. rewrite (ocp_fin src b lo hi Hne Heol HK Hbk H0 Hh Ht Hf Hi Hset).
  rewrite <- map_rev. destruct (rev (onCloseParagraph src b)) as [|l t]; [reflexivity|]. cbn [map]. rewrite bkind_finB. reflexivity.
Qed.
Print Assumptions ocp_fin_lastKind.

(* (b) the kinds of the blocks produced by onCloseParagraph, for every source and every block *)
Section Kinds.
Variable K0 : Z.
Definition kP (x : block) : Prop := bkind x = K0 \/ bkind x = ParagraphKind \/ bkind x = LinkReferenceDefinitionKind.
Lemma kP_app res x : Forall kP res -> kP x -> Forall kP (res ++ [x]).
Proof. intros A B. apply Forall_app. split; [exact A|constructor; [exact B|constructor]]. Qed.
Lemma kP_orphan (orphan : option block) res : (forall o, orphan = Some o -> bkind o = ParagraphKind) -> Forall kP res ->
  Forall kP (match orphan with Some o => res ++ [o] | None => res end).
Proof. intros Ho A. destruct orphan as [o|]; [|exact A]. apply kP_app; [exact A|right; left; apply Ho; reflexivity]. Qed.
Lemma kP_ref s e k : kP (refDefBlock s e k). Proof. right; right; reflexivity. Qed.
Lemma kP_cut orig pos ik : bkind orig = K0 -> bkind (set_bik (set_bstart orig pos) ik) = K0.
Proof. destruct orig; exact (fun H => H). Qed.

Lemma ocp_loop_kinds : forall f rf src orig orphan r result, bkind orig = K0 -> (forall o, orphan = Some o -> bkind o = ParagraphKind) ->
  Forall kP result -> Forall kP (ocp_loop f rf src orig orphan r result).
Proof.
  induction f as [|f IH]; intros rf src orig orphan r result Hk Ho Hr.
  { cbn [ocp_loop]. apply kP_app; [exact Hr|left; exact Hk]. }
  assert (Ex : Forall kP (result ++ [orig])) by (apply kP_app; [exact Hr|left; exact Hk]).
  cbn [ocp_loop]. cbv zeta.
  destruct (parseLinkLabel rf r) as [[lspan linner] r1]. destruct (negb (spanValid lspan)); [exact Ex|].
  destruct (current r1) as [c r2]. destruct (negb (c =? 58)); [exact Ex|]. destruct (next r2) as [okn r3].
  destruct (skipLinkSpace rf r3) as [ok r4]. destruct (negb ok); [exact Ex|].
  destruct (parseLinkDestination rf r4) as [[dspan dtext] r5]. destruct (negb (spanValid dspan)); [exact Ex|].
  destruct (readEOL rf r5) as [destEOL r6]. destruct (current r6) as [c6 r7]. destruct (_ && _ && _); [exact Ex|].
  match goal with |- context [refDefBlock (fst lspan) destEOL ?k] => set (kids := k) end.
  assert (Er : Forall kP (result ++ [refDefBlock (fst lspan) destEOL kids])) by (apply kP_app; [exact Hr|apply kP_ref]).
  destruct (skipLinkSpace rf r7) as [ok2 r8]. destruct (negb ok2); [apply (kP_orphan orphan _ Ho Er)|].
  destruct (parseLinkTitle rf r8) as [[tspan ttext] r9].
  destruct (negb (spanValid tspan)).
  { destruct (destEOL <? 0); [exact Ex|]. destruct (nodeIndexForPosition (bik orig) (r_pos r6) <? 0); [apply (kP_orphan orphan _ Ho Er)|].
    apply IH; [apply kP_cut, Hk|exact Ho|exact Er]. }
  destruct (readEOL rf r9) as [titleEOL r10]. destruct (titleEOL <? 0).
  { destruct (destEOL <? 0); [exact Ex|]. destruct (nodeIndexForPosition (bik orig) (r_pos r6) <? 0); [apply (kP_orphan orphan _ Ho Er)|].
    apply Forall_app. split; [exact Hr|]. constructor; [apply kP_ref|]. constructor; [left; apply kP_cut, Hk|constructor]. }
  match goal with |- context [refDefBlock (fst lspan) titleEOL ?k] => set (kids3 := k) end.
  assert (Er3 : Forall kP (result ++ [refDefBlock (fst lspan) titleEOL kids3])) by (apply kP_app; [exact Hr|apply kP_ref]).
  destruct (nodeIndexForPosition (bik orig) (r_pos r10) <? 0); [apply (kP_orphan orphan _ Ho Er3)|].
  apply IH; [apply kP_cut, Hk|exact Ho|exact Er3].
Qed.
End Kinds.

Theorem onCloseParagraph_kinds src b x : In x (onCloseParagraph src b) ->
  bkind x = bkind b \/ bkind x = ParagraphKind \/ bkind x = LinkReferenceDefinitionKind.
Proof.
  intros Hx. assert (H : Forall (kP (bkind b)) (onCloseParagraph src b)).
  { unfold onCloseParagraph. destruct (bik b) as [|first rest]; [constructor; [left; reflexivity|constructor]|]. cbv zeta.
    apply ocp_loop_kinds; [reflexivity| |constructor]. intros o Eo. destruct (bkind b =? SetextHeadingKind); [|discriminate Eo].
    inversion Eo. reflexivity. }
  rewrite Forall_forall in H. apply H, Hx.
Qed.
Corollary onCloseParagraph_kinds_para src b x : isParaK (bkind b) = true -> In x (onCloseParagraph src b) ->
  bkind x = ParagraphKind \/ bkind x = SetextHeadingKind \/ bkind x = LinkReferenceDefinitionKind.
Proof.
  intros HK Hx. destruct (onCloseParagraph_kinds src b x Hx) as [E|[E|E]]; [|left; exact E|right; right; exact E].
  rewrite E. unfold isParaK in HK. apply orb_true_iff in HK. destruct HK as [HK|HK]; apply Z.eqb_eq in HK; [left|right; left]; exact HK.
Qed.
Print Assumptions onCloseParagraph_kinds.
Print Assumptions onCloseParagraph_kinds_para.
