From Coq Require Import List ZArith Lia Bool.
Import ListNotations.
Require Import Base Tables Utf8 Tree Rdr Link Collect Html Recog Inl3a Inl3b Inl3c Inl3d Inl3e LP Rules Starts Driver Props.
Require L2Kind2.
Require Import L2CC BShDef BlockShapes BlockShapesNul ComposeBase GI0 IS2 IS1 LADef LA1 LA12 C13Full ExInv1 ExOcp ExInv2 ExemptInfo.
Open Scope Z_scope.

(* ================================================================================================
   T52, ExemptDefs: the LinkLabel / LinkDestination / LinkTitle entries of a link reference definition block satisfy
   Props.shapesI, and with ExemptInfo: C13Full.exemptOK for a whole root block of parseBlocks; the inline pass
   (rewriteB) does not touch the exempt entries.
     spans of the entries: ExInv2.invX;  spans of their children: la (the children tile the block);
     kinds of the entries: L2Kind2.inv;  kinds / childlessness / character references of the children: ExInv1.inv.
   ================================================================================================ *)
Section Root.
  Variables (B src raw : bytes) (n : Z).
  Hypothesis Hn : 0 <= n <= len B.
  Hypothesis Esrc : src = fillNulls (upto B n).
  Hypothesis Htri : tri (upto B n).
  Hypothesis Lraw : len raw = len src.

  (* the kinds an entry of the block layer can have carry no shape condition *)
  Lemma ek_shape K u : L2Kind2.ek K u = true -> forall t, shapeInline t (ikind u) = true.
  Proof.
    unfold L2Kind2.ek. cbv zeta. intros H t.
    destruct (Z.eqb_spec (ikind u) UnparsedKind) as [->|_]; [reflexivity|].
    destruct (Z.eqb_spec (ikind u) TextKind) as [->|_]; [reflexivity|]. destruct (Z.eqb_spec (ikind u) SoftLineBreakKind) as [->|_]; [reflexivity|]. cbn [orb] in H.
    destruct (Z.eqb_spec (ikind u) RawHTMLKind) as [->|_]; [reflexivity|]. destruct (Z.eqb_spec (ikind u) IndentKind) as [->|_]; [reflexivity|]. cbn [orb] in H.
    destruct (Z.eqb_spec (ikind u) InfoStringKind) as [->|_]; [reflexivity|].
    apply andb_true_iff in H. destruct H as [H _].
    destruct (Z.eqb_spec (ikind u) LinkLabelKind) as [->|_]; [reflexivity|]. destruct (Z.eqb_spec (ikind u) LinkDestinationKind) as [->|_]; [reflexivity|].
    cbn [orb] in H. apply Z.eqb_eq in H. rewrite H. reflexivity.
  Qed.

  Lemma def_ok b u : bkind b = LinkReferenceDefinitionKind -> In u (bik b) ->
    ExInv1.inv B b = true -> invX b = true -> la raw (len raw) b -> L2Kind2.inv b = true ->
    span_valid (len src) (bstart b) (bend b) = true -> shapesI src u = true.
  Proof.
    intros HK Hu Hi Hx Hla Hkd Hvb. apply span_valid_elim in Hvb.
    (* the span of the entry *)
    apply invX_parts in Hx. destruct Hx as [Hx _]. unfold locX in Hx. rewrite HK in Hx.
    change (LinkReferenceDefinitionKind =? LinkReferenceDefinitionKind) with true in Hx. cbn [negb orb] in Hx.
    destruct (Z.leb_spec 0 (bstart b)) as [_|]; [|lia]. cbn [negb orb] in Hx. apply andb_true_iff in Hx. destruct Hx as [_ Hx].
    rewrite forallb_forall in Hx. specialize (Hx u Hu). unfold inE in Hx. apply andb_true_iff in Hx. destruct Hx as [Hx X3]. apply andb_true_iff in Hx. destruct Hx as [X1 X2].
    apply Z.leb_le in X1, X2, X3.
    assert (Hv : span_valid (len src) (istart u) (iend u) = true) by (apply span_valid_intro; lia).
    (* its kind *)
    assert (Hek : L2Kind2.ek (bkind b) u = true).
    { destruct b as [K s e bk ik a nn c l lb]. cbn [L2Kind2.inv] in Hkd. apply andb_true_iff in Hkd. destruct Hkd as [Hkd _].
      rewrite forallb_forall in Hkd. apply Hkd, Hu. }
    (* its children *)
    rewrite ExInv1.inv_eq in Hi. apply andb_true_iff in Hi. destruct Hi as [Hi _]. rewrite forallb_forall in Hi. specialize (Hi u Hu). unfold eE in Hi.
    destruct (isExK (ikind u)).
    - rewrite la_eq in Hla. destruct Hla as (L1 & L2 & _ & Lb & _). unfold body in Lb. rewrite HK in Lb.
      change (isLeafK LinkReferenceDefinitionKind) with false in Lb. change (LinkReferenceDefinitionKind =? ListMarkerKind) with false in Lb.
      change (LinkReferenceDefinitionKind =? LinkReferenceDefinitionKind) with true in Lb. cbv iota in Lb. destruct Lb as (Lt & _).
      assert (Hhi : hiOf (len raw) b <= len src) by (rewrite <- Lraw; apply hiOf_le; lia).
      destruct u as [kd s e ind rf ks]. cbn [ikids ikind istart iend] in *. cbn [shapesI]. rewrite Hv, (ek_shape _ _ Hek). cbn [andb].
      apply forallb_forall. intros k Hk. rewrite forallb_forall in Hi. apply (kid_shape B src n Hn Esrc Htri); [apply Hi, Hk|].
      assert (Hin : In (ispan k) (defSpans (bik b))).
      { unfold defSpans. apply in_flat_map. exists (Inl kd s e ind rf ks). split; [exact Hu|]. cbn [ikids]. apply in_map, Hk. }
      destruct (tileS_In raw _ _ _ (ispan k) Lt Hin) as (T1 & T2 & T3). cbn [ispan fst snd] in T1, T2, T3. apply span_valid_intro; lia.
    - apply nilb_true in Hi. destruct u as [kd s e ind rf ks]. cbn [ikids ikind istart iend] in *. subst ks. cbn [shapesI forallb]. rewrite Hv, (ek_shape _ _ Hek). reflexivity.
  Qed.

  (* ---- a whole tree ---- *)
  Definition NX (b : block) : Prop :=
    ExInv1.inv B b = true /\ invX b = true /\ la raw (len raw) b /\ bshapes src b = true /\ L2Kind2.inv b = true.
  Lemma NX_kids b c : NX b -> In c (bkids b) -> NX c.
  Proof.
    intros (A1 & A2 & A3 & A4 & A5) Hc. split; [|split; [|split; [|split]]].
    - rewrite ExInv1.inv_eq in A1. apply andb_true_iff in A1. destruct A1 as [_ A1]. unfold ExInv1.invL in A1. rewrite forallb_forall in A1. apply A1, Hc.
    - apply invX_parts in A2. destruct A2 as [_ A2]. unfold invXL in A2. rewrite forallb_forall in A2. apply A2, Hc.
    - rewrite la_eq in A3. destruct A3 as (_ & _ & _ & _ & A3). eapply allQ_In; eassumption.
    - rewrite bshapes_eq in A4. apply andb_true_iff in A4. destruct A4 as [_ A4]. rewrite forallb_forall in A4. apply A4, Hc.
    - destruct b as [K s e bk ik a nn c0 l lb]. cbn [L2Kind2.inv bkids] in *. apply andb_true_iff in A5. destruct A5 as [_ A5]. rewrite forallb_forall in A5. apply A5, Hc.
  Qed.

  Lemma exemptOK_eq b : exemptOK src b = forallb (fun u => negb (exemptI (bkind b) u) || shapesI src u) (bik b) && forallb (exemptOK src) (bkids b).
  Proof. destruct b; reflexivity. Qed.

  Lemma exempt_tree : forall f b, (bheight b <= f)%nat -> NX b -> exemptOK src b = true.
  Proof.
    induction f as [|f IH]; intros b Hh HN; [destruct b; cbn [bheight] in Hh; lia|].
    rewrite exemptOK_eq. apply andb_true_iff. split.
    - apply forallb_forall. intros u Hu. destruct (exemptI (bkind b) u) eqn:Ex; [|reflexivity]. cbn [negb orb].
      destruct HN as (A1 & A2 & A3 & A4 & A5). unfold exemptI in Ex.
      destruct (Z.eqb_spec (bkind b) LinkReferenceDefinitionKind) as [EK|NK].
      + rewrite bshapes_eq in A4. apply andb_true_iff in A4. destruct A4 as [A4 _]. apply andb_true_iff in A4. destruct A4 as [A4 _].
        apply (def_ok b u); assumption.
      + cbn [orb] in Ex. apply andb_true_iff in Ex. destruct Ex as [E1 E2]. apply Z.eqb_eq in E1, E2.
        apply (info_ok B src raw n Hn Esrc Htri Lraw b u); assumption.
    - apply forallb_forall. intros c Hc. apply IH; [pose proof (ShClose.bheight_kid b c Hc); lia|eapply NX_kids; eassumption].
  Qed.
End Root.

(* ---- the inline pass leaves the exempt entries alone ---- *)
Lemma exemptOK_eq' src b : exemptOK src b = forallb (fun u => negb (exemptI (bkind b) u) || shapesI src u) (bik b) && forallb (exemptOK src) (bkids b).
Proof. destruct b; reflexivity. Qed.
Lemma exempt_rewrite src m : forall f b, L2Kind2.inv b = true -> exemptOK src b = true -> exemptOK src (rewriteB f src m b) = true.
Proof.
  induction f as [|f IH]; intros b Hk He; [exact He|]. cbn [rewriteB].
  rewrite exemptOK_eq' in He. apply andb_true_iff in He. destruct He as [He1 He2].
  destruct ((0 <? len (bik b)) && hasUnparsed b) eqn:Elu.
  - apply andb_true_iff in Elu. destruct Elu as [_ Hu]. unfold hasUnparsed in Hu. apply existsb_exists in Hu. destruct Hu as (u & Hu & Eu). apply Z.eqb_eq in Eu.
    assert (Hek : L2Kind2.ek (bkind b) u = true).
    { destruct b as [K s e bk ik a nn c l lb]. cbn [L2Kind2.inv] in Hk. apply andb_true_iff in Hk. destruct Hk as [Hk _]. rewrite forallb_forall in Hk. apply Hk, Hu. }
    unfold L2Kind2.ek in Hek. cbv zeta in Hek. rewrite Eu in Hek. change (UnparsedKind =? UnparsedKind) with true in Hek. cbv iota in Hek.
    apply andb_true_iff in Hek. destruct Hek as [Hek N2]. apply andb_true_iff in Hek. destruct Hek as [_ N1].
    apply negb_true_iff in N1, N2.
    rewrite exemptOK_eq'. replace (bkind (set_bik b (parseInlines src m b))) with (bkind b) by (destruct b; reflexivity).
    replace (bkids (set_bik b (parseInlines src m b))) with (bkids b) by (destruct b; reflexivity). rewrite He2, andb_true_r.
    apply forallb_forall. intros v _. unfold exemptI. rewrite N2. cbn [orb].
    destruct (Z.eqb_spec (bkind b) FencedCodeBlockKind) as [E|_]; [rewrite E in N1; discriminate|reflexivity].
  - rewrite exemptOK_eq'. replace (bkind (set_bkids b (map (rewriteB f src m) (bkids b)))) with (bkind b) by (destruct b; reflexivity).
    replace (bik (set_bkids b (map (rewriteB f src m) (bkids b)))) with (bik b) by (destruct b; reflexivity).
    replace (bkids (set_bkids b (map (rewriteB f src m) (bkids b)))) with (map (rewriteB f src m) (bkids b)) by (destruct b; reflexivity).
    rewrite He1. cbn [andb]. apply forallb_forall. intros y Hy. apply in_map_iff in Hy. destruct Hy as (c & <- & Hc).
    rewrite forallb_forall in He2. apply IH; [|apply He2, Hc].
    destruct b as [K s e bk ik a nn c0 l lb]. cbn [L2Kind2.inv bkids] in *. apply andb_true_iff in Hk. destruct Hk as [_ Hk]. rewrite forallb_forall in Hk. apply Hk, Hc.
Qed.
