From Coq Require Import List ZArith Lia Bool.
Import ListNotations.
Require Import Base Tables Utf8 Tree Rdr Link Collect Html Recog Inl3a Inl3b Inl3c Inl3d Inl3e Driver Render Safe Leaf3a Leaf3b Leaf3j SafeW.
Open Scope Z_scope.

(* what the block layer must guarantee about the inline entries it creates *)
Definition l2ik (src : bytes) (b : block) (u : inline) : bool :=
  gok 1 src (ofInline u) || ((ikind u =? InfoStringKind) && negb (hasUnparsed b)).
Fixpoint l2ok (src : bytes) (b : block) : bool :=
  match b with Blk k s e bk ik a n c l lb =>
    forallb (l2ok src) bk && forallb (l2ik src (Blk k s e bk ik a n c l lb)) ik end.
(* raw-HTML-freedom of a block tree (trivial when raw HTML is ignored) *)
Fixpoint rokB (ign : bool) (b : block) : bool :=
  match b with Blk _ _ _ bk ik _ _ _ _ _ => forallb (rokB ign) bk && forallb (rok ign) ik end.

Lemma rokB_true : forall b, rokB true b = true.
Proof.
  fix IH 1. intros [k s e bk ik a n c l lb]. cbn [rokB].
  replace (forallb (rok true) ik) with true by (symmetry; apply forallb_forall; intros; apply rok_true).
  rewrite andb_true_r. induction bk as [|x r IHr]; [reflexivity|]. cbn [forallb]. rewrite (IH x). exact IHr.
Qed.

Lemma toInline_ofInline : forall i, toInline (ofInline i) = i.
Proof.
  fix IH 1. intros [k s e ind r ks]. cbn [ofInline toInline]. f_equal.
  induction ks as [|x l IHl]; [reflexivity|]. cbn [map]. rewrite (IH x), IHl. reflexivity.
Qed.

Lemma l2ik_bikW ign src b u : l2ik src b u = true -> rok ign u = true -> bikW ign src u = true.
Proof.
  unfold l2ik, bikW. intros H Hr. apply orb_true_iff in H. destruct H as [H|H].
  - rewrite <- (toInline_ofInline u). rewrite <- (toInline_ofInline u) in Hr. rewrite (gok_iokW ign 1 src _ H Hr). apply orb_true_r.
  - apply andb_true_iff in H. destruct H as [H _]. rewrite H. reflexivity.
Qed.

Lemma l2ok_bokW ign src : forall b, l2ok src b = true -> rokB ign b = true -> bokW ign src b = true.
Proof.
  fix IH 1. intros [k s e bk ik a n c l lb] H Hr. cbn [l2ok rokB bokW] in *.
  apply andb_true_iff in H. destruct H as [Hk Hi]. apply andb_true_iff in Hr. destruct Hr as [Hrk Hri].
  apply andb_true_iff. split.
  - clear Hi Hri. induction bk as [|x r IHr]; [reflexivity|]. cbn [forallb] in *.
    apply andb_true_iff in Hk. destruct Hk as [Hx Hk]. apply andb_true_iff in Hrk. destruct Hrk as [Hrx Hrk].
    rewrite (IH x Hx Hrx). apply IHr; assumption.
  - rewrite forallb_forall in *. intros u Hu. eapply l2ik_bikW; [apply Hi, Hu|apply Hri, Hu].
Qed.

Lemma forallb_map' {A B} (f : A -> B) p l : forallb p (map f l) = forallb (fun x => p (f x)) l.
Proof. induction l as [|x l IH]; [reflexivity|]. cbn. rewrite IH. reflexivity. Qed.

(* the inline pass turns a block tree that meets the block-layer contract into one whose every rendered leaf is sane *)
Theorem rewriteB_bokW ign src m : forall fuel b, l2ok src b = true -> rokB ign (rewriteB fuel src m b) = true ->
  bokW ign src (rewriteB fuel src m b) = true.
Proof.
  induction fuel as [|f IH]; intros b H Hr; [apply l2ok_bokW; assumption|].
  cbn [rewriteB] in *.
  destruct ((0 <? len (bik b)) && hasUnparsed b) eqn:Ec.
  - apply andb_true_iff in Ec. destruct Ec as [_ Eu].
    destruct b as [k s e bk ik a n c l lb]. cbn [set_bik bik] in *. cbn [rokB bokW l2ok] in *.
    apply andb_true_iff in H. destruct H as [Hk Hi]. apply andb_true_iff in Hr. destruct Hr as [Hrk Hri].
    apply andb_true_iff. split.
    + (* block children are untouched *)
      clear Hi Hri. induction bk as [|x r IHr]; [reflexivity|]. cbn [forallb] in *.
      apply andb_true_iff in Hk. destruct Hk as [Hx Hk]. apply andb_true_iff in Hrk. destruct Hrk as [Hrx Hrk].
      rewrite (l2ok_bokW ign src x Hx Hrx). apply IHr; assumption.
    + assert (HU : Forall (fun u => gok 1 src (ofInline u) = true) ik).
      { apply Forall_forall. intros u Hu. rewrite forallb_forall in Hi. specialize (Hi u Hu). unfold l2ik in Hi.
        rewrite Eu in Hi. cbn [negb] in Hi. rewrite andb_false_r, orb_false_r in Hi. exact Hi. }
      destruct (parseInlines_gok src m (Blk k s e bk ik a n c l lb) HU) as (b' & lst & E & Hg).
      rewrite E in *. unfold gokF in Hg. rewrite forallb_map' in *. rewrite forallb_forall in *. intros x Hx.
      unfold bikW. rewrite (gok_iokW ign b' src x (Hg x Hx) (Hri x Hx)). apply orb_true_r.
  - destruct b as [k s e bk ik a n c l lb]. cbn [set_bkids bkids bik] in *. cbn [rokB bokW l2ok] in *.
    apply andb_true_iff in H. destruct H as [Hk Hi]. apply andb_true_iff in Hr. destruct Hr as [Hrk Hri].
    apply andb_true_iff. split.
    + rewrite forallb_map' in *. rewrite forallb_forall in *. intros x Hx. apply IH; [apply Hk, Hx|apply Hrk, Hx].
    + rewrite forallb_forall in *. intros u Hu. eapply l2ik_bikW; [apply Hi, Hu|apply Hri, Hu].
Qed.

(* C07 for parsed documents: block-layer contract + (IgnoreRaw or no raw-HTML node) + no tag filter => safe output *)
Theorem C07_parsed c refs src m fuel rfuel b :
  filterOn c = false ->
  l2ok src b = true ->
  (ignoreRaw c = true \/ rokB false (rewriteB fuel src m b) = true) ->
  safe (renderB rfuel c refs src false (rewriteB fuel src m b)).
Proof.
  intros Hf H2 Hraw. apply C07_render_safeW; [assumption|].
  apply rewriteB_bokW; [assumption|].
  destruct Hraw as [Hi|Hn]; [rewrite Hi; apply rokB_true|].
  destruct (ignoreRaw c); [apply rokB_true|assumption].
Qed.
Print Assumptions C07_parsed.
