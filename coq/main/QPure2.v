From Coq Require Import List ZArith Lia Bool.
Import ListNotations.
Require Import Base Tree Rdr Link Collect Html Recog LP Rules Starts Driver Rec16 Rec17 Rec18 Cursor CursorX RecBounds NoPanic12 L2Kind2 ShEnv QPure1.
Open Scope Z_scope.

(* T64-pure, part 2: block starts (with the cursor invariant NoPanic12.G for startATX), addLineText on a line without
   tab, processLine. *)

(* the content start of an ATX heading is not a space or tab (also when the content is empty) *)
Lemma atx_start l lv cs ce : parseATXHeading l = (lv, cs, ce) -> 1 <= lv ->
  0 <= cs <= len l /\ (cs < len l -> isSpTab (at_ l cs) = false).
Proof.
  unfold parseATXHeading. cbv zeta. intros H Hlv.
  destruct (countWhile_spec (fun c => c =? 35) l) as (C1 & _ & _). remember (countWhile (fun c => c =? 35) l) as level eqn:Elv.
  destruct ((level =? 0) || (6 <? level)); [injection H as <- <- <-; lia|].
  destruct ((len l <=? level) || (at_ l level =? 10) || (at_ l level =? 13)) eqn:Eend.
  { injection H as <- <- <-. split; [lia|]. intros Hl.
    apply orb_true_iff in Eend. destruct Eend as [Eend|Eend]; [apply orb_true_iff in Eend; destruct Eend as [Eend|Eend]|].
    - apply Z.leb_le in Eend. lia.
    - apply Z.eqb_eq in Eend. rewrite Eend. reflexivity.
    - apply Z.eqb_eq in Eend. rewrite Eend. reflexivity. }
  destruct (negb (isSpTab (at_ l level))) eqn:Esp; [injection H as <- <- <-; lia|].
  assert (Hlt : level < len l).
  { apply negb_false_iff in Esp. unfold at_ in Esp. destruct (level <? 0); [discriminate|].
    destruct (Z.lt_ge_cases level (len l)); [assumption|]. rewrite nth_overflow in Esp by (unfold len in *; lia). discriminate. }
  destruct (countWhile_spec isSpTab (from_ l (level + 1))) as (D1 & _ & D3). rewrite len_from in D1, D3 by lia.
  remember (countWhile isSpTab (from_ l (level + 1))) as k eqn:Ek. remember (level + 1 + k) as start eqn:Est.
  assert (Hst : 0 <= start <= len l) by lia.
  assert (Hns : start < len l -> isSpTab (at_ l start) = false).
  { intros Hl. specialize (D3 ltac:(lia)). rewrite at_from in D3 by lia. rewrite Est. exact D3. }
  destruct (atx_scanBack (S (length l)) l start (len l)) as [e1 hit].
  destruct (negb hit); [injection H as <- <- <-; split; [lia|exact Hns]|].
  destruct (atx_trailing (S (length l)) l start (e1 - 1)) as [e2 mode].
  destruct (mode =? 0); injection H as <- <- <-; (split; [lia|exact Hns]).
Qed.

Lemma indent_nonws p : Itab p -> indentLength (rest p) = 0 -> indent p <= 0.
Proof.
  intros Hi Hz. rewrite (indent_eq p Hi). unfold wsWidth, wsRun. rewrite Hz.
  change (upto (rest p) 0) with (@nil Z). rewrite columnWidth_nil. lia.
Qed.

(* ---- block starts ---- *)
Ltac pchain H :=
  repeat match goal with
  | |- pvP (consumeLine _) => apply pvP_consumeLine
  | |- pvP (endBlock _) => apply pvP_endBlock
  | |- pvP (advance _ _) => apply pvP_advance
  | |- pvP (consumeIndent _ _) => apply pvP_consumeIndent
  | |- pvP (openBlock _ _) => apply pvP_openBlock
  | |- pvP (updCont _ _) => apply pvP_updCont; [|intros ? ?; rewrite ?pv_set_bn, ?pv_set_bchar, ?pv_set_bindent; assumption]
  end;
  try exact H.

Lemma pvP_startBlockQuote p : pvP p -> pvP (startBlockQuote p).
Proof. intros H. unfold startBlockQuote. cbv zeta. destruct (_ <=? _); [assumption|]. destruct (negb _); [assumption|].
       destruct (0 <? _); pchain H. Qed.

Lemma pvP_startATX p : st_open p -> G p -> pvP p -> pvP (startATX p).
Proof.
  intros Hs HG H. unfold startATX. cbv zeta. destruct (_ <=? _); [assumption|].
  destruct (parseATXHeading (bytesAfterIndent p)) as [[level cs] ce] eqn:Ea. destruct (Z.ltb_spec level 1) as [|Lv]; [assumption|].
  destruct (atx_start _ _ _ _ Ea Lv) as (Bc & Bn).
  destruct (start_prelude p ATXHeadingKind HG) as (H2 & R2 & L2). set (p2 := openBlock _ ATXHeadingKind) in *.
  set (p2' := updCont p2 (fun b => set_bn b level)). assert (H2' : G p2') by exact H2.
  assert (R2' : rest p2' = bytesAfterIndent p) by exact R2. assert (L2' : len (rest p2') = len (line p2') - li p2') by exact L2.
  assert (Hcs : li p2' + cs <= len (line p2')) by (rewrite R2' in L2'; lia).
  destruct (G_advance p2' cs H2' ltac:(lia) Hcs) as (H3 & La & Lna).
  pose proof (rest_advance p2' cs H2' ltac:(lia) Hcs) as R3. rewrite R2' in R3.
  assert (Hz : indent (advance p2' cs) <= 0).
  { apply indent_nonws; [apply H3|]. rewrite R3. apply indentLength_from_nonws; [lia|exact Bn]. }
  apply pvP_endBlock, pvP_consumeLine.
  eapply (pvP_collectInline _ _ _ ATXHeadingKind); [unfold p2', p2; pchain H| |right; left; repeat split; exact Hz].
  eapply ckind_same; [apply same_advance|]. apply ckind_updCont; [intros b; destruct b; reflexivity|].
  apply ckind_openBlock, st_open_consumeIndent, Hs.
Qed.
Lemma pvP_startFenced p : st_open p -> pvP p -> pvP (startFenced p).
Proof.
  intros Hs H. unfold startFenced. cbv zeta. destruct (_ <=? _); [assumption|].
  destruct (parseCodeFence _) as [[[fc fnn] is_] ie]. destruct (fnn =? 0); [assumption|].
  apply pvP_consumeLine. destruct (spanValid _); [|pchain H].
  eapply (pvP_collectInline _ _ _ FencedCodeBlockKind); [pchain H| |right; right; split; reflexivity].
  eapply ckind_same; [apply same_advance|].
  apply ckind_updCont; [intros b; destruct b; reflexivity|]. apply ckind_updCont; [intros b; destruct b; reflexivity|].
  apply ckind_openBlock, st_open_consumeIndent, Hs.
Qed.
Lemma pvP_startHTML p : st_open p -> pvP p -> pvP (startHTML p).
Proof.
  intros Hs H. unfold startHTML. cbv zeta. destruct (_ <=? _); [assumption|]. destruct (negb _); [assumption|].
  destruct (_ <? 0); [assumption|]. destruct (negb _ && _); [assumption|]. destruct (htmlEnd _ _); [|pchain H].
  apply pvP_endBlock, pvP_consumeLine. eapply (pvP_collectInline _ _ _ HTMLBlockKind); [pchain H| |left; split; reflexivity].
  apply ckind_updCont; [intros b; destruct b; reflexivity|]. apply ckind_openBlock, Hs.
Qed.
Lemma pvP_startSetext p : pvP p -> pvP (startSetext p).
Proof.
  intros H. unfold startSetext. cbv zeta. destruct (negb (containerKind p =? ParagraphKind)) eqn:Ek; [assumption|].
  do 3 (match goal with |- pvP (if ?c then _ else _) => destruct c end; [assumption|]).
  apply pvP_endBlock, pvP_consumeLine. apply pvP_updCont_at; [assumption|].
  intros b Hb Hi. rewrite pv_set_bn. apply negb_false_iff, Z.eqb_eq in Ek.
  pose proof (ckind_self p b Hb) as Eb. rewrite Ek in Eb.
  apply pv_set_bkind; [rewrite Eb; reflexivity|assumption].
Qed.
Lemma pvP_startThematic p : pvP p -> pvP (startThematic p).
Proof. intros H. unfold startThematic. cbv zeta. destruct (_ <=? _); [assumption|]. destruct (_ <? 0); [assumption|]. pchain H. Qed.
Lemma pvP_startListItem p : pvP p -> pvP (startListItem p).
Proof.
  intros H. unfold startListItem. cbv zeta. destruct (_ <=? _); [assumption|].
  destruct (parseListMarker _) as [[delim n] mend]. destruct (_ || _); [assumption|]. destruct (_ && _); [assumption|].
  match goal with |- context [endBlock ?X] => assert (H1 : pvP (endBlock X)) end.
  { destruct (negb _ || negb _); pchain H. }
  match goal with |- context [endBlock ?X] => set (q := endBlock X) in * end.
  destruct (isRestBlank q); [pchain H1|].
  destruct (indent q <? 1); [pchain H1|]. destruct (4 <? indent q); pchain H1.
Qed.
Lemma pvP_startIndented p : pvP p -> pvP (startIndented p).
Proof. intros H. unfold startIndented. destruct (_ || _ || _); [assumption|]. pchain H. Qed.

Definition startOKp (f : lp -> lp) : Prop := forall p, st_open p -> G p -> pvP p -> pvP (f p).
Lemma blockStarts_okp : Forall startOKp blockStarts.
Proof.
  unfold blockStarts. repeat constructor; intros p Hs HG H;
    [apply pvP_startBlockQuote|apply pvP_startATX|apply pvP_startFenced|apply pvP_startHTML
    |apply pvP_startSetext|apply pvP_startThematic|apply pvP_startListItem|apply pvP_startIndented]; assumption.
Qed.
Lemma G_withState p s : G p -> G (withState p s). Proof. exact (fun H => H). Qed.
Lemma pvP_tryStarts : forall fs p, Forall startOKp fs -> Forall startOKG fs -> G p -> pvP p -> pvP (snd (tryStarts fs p)).
Proof.
  induction fs as [|f r IH]; intros p Hfs Hgs HG H; [assumption|]. cbn [tryStarts]. cbv zeta.
  inversion Hfs as [|? ? Hf Hr]; subst. inversion Hgs as [|? ? Hg Hgr]; subst.
  assert (H1 : pvP (f (withState p stOpening))) by (apply Hf; [left; reflexivity|apply G_withState, HG|assumption]).
  assert (G1 : G (f (withState p stOpening))) by (apply Hg, G_withState, HG).
  destruct (_ || _); [assumption|]. apply IH; assumption.
Qed.
Lemma pvP_opening_loop : forall fuel p, G p -> pvP p -> pvP (snd (opening_loop fuel p)).
Proof.
  induction fuel as [|f IH]; intros p HG H; [assumption|]. cbn [opening_loop].
  destruct (_ || _); [|assumption].
  pose proof (pvP_tryStarts blockStarts p blockStarts_okp blockStarts_okG HG H) as H1.
  pose proof (G_tryStarts blockStarts p blockStarts_okG HG) as G1.
  destruct (tryStarts blockStarts p) as [[|] p1]; cbn [snd] in H1, G1.
  - destruct (_ =? stLineConsumed); [assumption|apply IH; assumption].
  - assumption.
Qed.
Lemma pvP_deferredClose p : pvP p -> pvP (deferredClose p).
Proof. intros H. unfold deferredClose. cbv zeta. destruct (_ && _); [assumption|apply pvP_closeLastChildAt, H]. Qed.
Lemma pvP_openNewBlocks p am : G p -> pvP p -> pvP (snd (openNewBlocks p am)).
Proof.
  intros HG H. unfold openNewBlocks. destruct (_ =? 0).
  - cbn [snd]. unfold pvP. cbn.
    pose proof (pv_closeBlock (source p) (lineStart p) (bheight (root p)) (root p) H) as Hc.
    destruct (closeBlock _ _ _ _) as [|b r]; [assumption|]. cbn in Hc. apply andb_true_iff in Hc. tauto.
  - pose proof (pvP_opening_loop (S (length (line p))) p HG H) as H1. destruct (opening_loop _ p) as [ht p1]. cbn [snd] in H1.
    destruct am; cbn [snd]; [assumption|apply pvP_deferredClose, H1].
Qed.

Lemma pv_setLastBlankUpTo v : forall d rt, pv rt = true -> pv (setLastBlankUpTo d v rt) = true.
Proof.
  induction d as [|d IH]; intros rt H; cbn [setLastBlankUpTo].
  - cbn [updAt]. rewrite pv_set_blast. assumption.
  - apply IH. apply pv_updAt; [intros b Hb; rewrite pv_set_blast; assumption|assumption].
Qed.

(* the text of a line goes into a block that accepts lines *)
Lemma acceptsLines_cases K : acceptsLines K = true ->
  K = FencedCodeBlockKind \/ K = IndentedCodeBlockKind \/ K = ATXHeadingKind \/ K = HTMLBlockKind \/ K = ParagraphKind.
Proof.
  unfold acceptsLines. intros H. repeat (apply orb_true_iff in H; destruct H as [H|H]); apply Z.eqb_eq in H; tauto.
Qed.
Lemma pvP_go q : pvP q -> (forall b, getAt (cdepth q) (root q) = Some b -> acceptsLines (bkind b) = true) ->
  pvP (let k := containerKind q in
        let inlineKind := if isCode k then TextKind else if k =? HTMLBlockKind then RawHTMLKind else UnparsedKind in
        let q' := updCont q (fun b => set_bik b (bik b ++ [mkI inlineKind (lineStart q + li q) (lineStart q + len (line q))])) in
        if isCode k && negb (hasByteSuffixEOL (line q')) then
          updCont q' (fun b => set_bik b (bik b ++ [mkI SoftLineBreakKind (lineStart q' + len (line q')) (lineStart q' + len (line q'))]))
        else q').
Proof.
  intros Hq Ha. cbv zeta.
  set (q' := updCont q _).
  assert (Hq' : pvP q').
  { apply pvP_updCont_at; [assumption|]. intros b Hb Hi. apply pv_add_ik; [assumption|].
    pose proof (Ha b Hb) as Hacc. rewrite <- (ckind_self q b Hb).
    destruct (acceptsLines_cases _ Hacc) as [E|[E|[E|[E|E]]]]; rewrite E; reflexivity. }
  assert (Cq' : ckind q' (containerKind q)) by (apply ckind_updCont; [intros b; apply bkind_set_bik|apply ckind_self]).
  destruct (isCode (containerKind q)) eqn:Ec; cbn [andb]; [|exact Hq'].
  destruct (negb _); [|exact Hq'].
  apply pvP_updCont_at; [exact Hq'|]. intros b Hb Hi. apply pv_add_ik; [assumption|].
  rewrite (Cq' b Hb). unfold tk. rewrite (isCode_notText _ Ec). reflexivity.
Qed.

Definition noTab (l : bytes) : Prop := ~ In 9 l.
Lemma at_tab_In l i : at_ l i = 9 -> In 9 l.
Proof.
  unfold at_. destruct (i <? 0); [discriminate|]. intros H.
  destruct (nth_in_or_default (Z.to_nat i) l 0) as [Hin|Hd]; [rewrite H in Hin; exact Hin|rewrite H in Hd; discriminate].
Qed.

Lemma pvP_addLineText p : pvP p -> goodSt p -> noTab (line p) -> pvP (addLineText p).
Proof.
  intros H Hst Hnt. unfold addLineText. cbv zeta.
  set (p1 := if isRestBlank p then _ else p).
  assert (H1 : pvP p1).
  { unfold p1. destruct (isRestBlank p); [|assumption]. apply pvP_updCont; [assumption|].
    intros b Hb. destruct (lastBlock b) as [c|] eqn:El; [|assumption].
    apply pv_set_lastBlocks; [assumption|]. cbn. rewrite pv_set_blast, andb_true_r. eapply pv_lastBlock; eassumption. }
  assert (K1 : containerKind p1 = containerKind p).
  { unfold p1. destruct (isRestBlank p); [|reflexivity]. apply containerKind_updCont.
    intros b. destruct (lastBlock b); [destruct b; reflexivity|reflexivity]. }
  assert (S1 : state p1 = state p) by (unfold p1; destruct (isRestBlank p); reflexivity).
  assert (Ln1 : line p1 = line p) by (unfold p1; destruct (isRestBlank p); reflexivity).
  set (p2 := withRoot p1 _).
  assert (H2 : pvP p2) by (unfold p2, pvP; cbn; apply pv_setLastBlankUpTo; exact H1).
  assert (K2 : containerKind p2 = containerKind p).
  { rewrite <- K1. unfold containerKind, contBlock, p2, cdepth. cbn [root container withRoot setLP]. fold (cdepth p1).
    match goal with |- bkind (match getAt ?k (setLastBlankUpTo ?d ?v ?r) with _ => _ end) = _ =>
      pose proof (kindAt_setLastBlankUpTo v d k r) as E end.
    destruct (getAt (cdepth p1) (setLastBlankUpTo _ _ _)); destruct (getAt (cdepth p1) (root p1)); cbn in E; try congruence; reflexivity. }
  assert (S2 : state p2 = state p) by exact S1.
  assert (Ln2 : line p2 = line p) by exact Ln1.
  change (bkind (contBlock p1)) with (containerKind p1). rewrite K1.
  destruct (acceptsLines (containerKind p)) eqn:Ea.
  - assert (Etab : ((li p2 <? len (line p2)) && (at_ (line p2) (li p2) =? 9) && (0 <? tabRem p2) && (tabRem p2 <? 4)) = false).
    { destruct (Z.eqb_spec (at_ (line p2) (li p2)) 9) as [E9|N9]; [|rewrite andb_false_r; reflexivity].
      exfalso. apply Hnt. rewrite <- Ln2. eapply at_tab_In. exact E9. }
    rewrite Etab. apply pvP_go; [exact H2|].
    intros b Hb. rewrite (ckind_self p2 b Hb), K2. exact Ea.
  - match goal with |- pvP (if ?c then _ else _) => destruct c end; [|exact H2].
    assert (So : st_open p2) by (unfold st_open; rewrite S2; exact (Hst Ea)).
    apply pvP_go; [apply pvP_consumeIndent, pvP_openBlock, H2|].
    intros b Hb.
    assert (Ck : ckind (consumeIndent (openBlock p2 ParagraphKind) (indent (openBlock p2 ParagraphKind))) ParagraphKind).
    { eapply ckind_same; [apply same_consumeIndent|]. apply ckind_openBlock, So. }
    rewrite (Ck b Hb). reflexivity.
Qed.

Lemma G_reset st children ls src : G (resetLP st children ls src).
Proof.
  unfold resetLP. split; [split; [cbn; lia|]|split; [cbn; apply len_nonneg|split; cbn; discriminate]].
  cbn [li line col tabRem]. intros Hl Ha. apply computeTabRem_spec; [lia|exact Hl|exact Ha].
Qed.

Theorem pv_processLine st children ls src : noTab src -> pvL children = true ->
  pvL (fst (fst (processLine st children ls src))) = true.
Proof.
  intros Hnt H. unfold processLine. cbv zeta.
  set (p0 := resetLP st children ls src).
  assert (H0 : pvP p0) by (unfold pvP; cbn; exact H).
  assert (G0 : G p0) by apply G_reset.
  assert (N0 : noTab (line p0)) by (intros Hin; apply Hnt; cbn [p0 resetLP line] in Hin; eapply from_sub; exact Hin).
  pose proof (pvP_descend_loop (bheight (root p0)) _ O H0) as H1.
  pose proof (G_descend_loop (bheight (root p0)) _ O G0) as G1.
  pose proof (env_descend_loop (bheight (root p0)) p0 O) as E1.
  fold (descendOpenBlocks p0) in H1, G1, E1.
  destruct (descendOpenBlocks p0) as [am p1]. cbn [snd] in H1, G1, E1.
  assert (N1 : noTab (line p1)) by (injection E1 as _ _ E1; rewrite E1; exact N0).
  set (r2 := if negb (state p1 =? stDescendTerminated) then openNewBlocks p1 am else (false, p1)).
  assert (H2 : pvP (snd r2) /\ (fst r2 = true -> goodSt (snd r2)) /\ noTab (line (snd r2))).
  { unfold r2. destruct (negb _).
    - split; [apply pvP_openNewBlocks; assumption|]. split; [apply openNewBlocks_good|].
      pose proof (env_openNewBlocks p1 am) as E2. injection E2 as _ _ E2. rewrite E2. exact N1.
    - split; [assumption|]. split; [cbn; discriminate|exact N1]. }
  destruct r2 as [ht p2]. cbn [fst snd] in H2. destruct H2 as (H2 & G2 & N2).
  assert (H3 : pvP (if ht then addLineText p2 else p2)).
  { destruct ht; [apply pvP_addLineText; [exact H2|exact (G2 eq_refl)|exact N2]|exact H2]. }
  cbn [fst]. unfold pvP in H3. apply pv_parts in H3. tauto.
Qed.
Print Assumptions pv_processLine.
