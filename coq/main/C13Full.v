From Coq Require Import List ZArith Lia Bool.
Import ListNotations.
Require Import Base Tables Utf8 Tree Rdr Link Collect Html Recog Inl3a Inl3b Inl3c Inl3d Inl3e LP Rules Starts Driver Props.
Require L2Kind2.
Require Import L2CC BSDef BSTree BlockSpans BShDef ShDef BlockShapes BlockShapesNul BlockShapesAll.
Require Import ShapesBase SpanHypDef ShapeHypDef EntBase EntRdr1 EntOcpDefs En2Tree En2Drv EntDefs En2OK ComposeBase ComposeShapes.
Require Import LADef LA1 LA13 LAOcp LinesAccounted.
Open Scope Z_scope.

(* ================================================================================================
   T48, part 2: towards Props.C13_statement for every input.
     block nodes: BlockShapesAll.parseBlocks_block_shapes (valid span + shape of the construct, every block node);
     inline nodes of the blocks the inline parser rewrites: ComposeShapes.parseBlocks_inline_shapes;
     inline entries the inline pass leaves alone (code blocks, HTML blocks): valid spans from the "lines accounted"
       invariant (LinesAccounted: the entries tile the block), kinds and childlessness from L2Kind2.inv.
   NOT covered (no invariant of the development speaks about them): the InfoString entry of a fenced code block (its
   Text / CharacterReference children) and the LinkLabel / LinkDestination / LinkTitle entries of a link reference
   definition block.  C13_partial below is Props.C13_statement with exactly these entries exempt; C13_of_exempt says
   that the exempt entries are all that is missing.
   ================================================================================================ *)

Definition exemptI (K : Z) (u : inline) : bool :=
  (K =? LinkReferenceDefinitionKind) || ((K =? FencedCodeBlockKind) && (ikind u =? InfoStringKind)).
Fixpoint shapesBX (src : bytes) (b : block) : bool :=
  match b with Blk k s e bk ik a n c l lb =>
    span_valid (len src) s e && shapeBlock (sub src s e) (Blk k s e bk ik a n c l lb) && forallb (shapesBX src) bk &&
    forallb (fun u => exemptI k u || shapesI src u) ik
  end.
(* the exempt entries *)
Fixpoint exemptOK (src : bytes) (b : block) : bool :=
  match b with Blk k _ _ bk ik _ _ _ _ _ => forallb (fun u => negb (exemptI k u) || shapesI src u) ik && forallb (exemptOK src) bk end.

Lemma shapesBX_eq src b : shapesBX src b =
  span_valid (len src) (bstart b) (bend b) && shapeBlock (sub src (bstart b) (bend b)) b && forallb (shapesBX src) (bkids b) &&
  forallb (fun u => exemptI (bkind b) u || shapesI src u) (bik b).
Proof. destruct b; reflexivity. Qed.

Lemma shapesB_split src : forall b, shapesB src b = shapesBX src b && exemptOK src b.
Proof.
  fix IH 1. intros [k s e bk ik a n c l lb]. cbn [shapesB shapesBX exemptOK].
  assert (Hk : forallb (shapesB src) bk = forallb (shapesBX src) bk && forallb (exemptOK src) bk).
  { induction bk as [|x r IHr]; [reflexivity|]. cbn [forallb]. rewrite (IH x), IHr.
    destruct (shapesBX src x), (exemptOK src x), (forallb (shapesBX src) r), (forallb (exemptOK src) r); reflexivity. }
  assert (Hi : forallb (shapesI src) ik = forallb (fun u => exemptI k u || shapesI src u) ik && forallb (fun u => negb (exemptI k u) || shapesI src u) ik).
  { induction ik as [|u r IHr]; [reflexivity|]. cbn [forallb]. rewrite IHr.
    destruct (exemptI k u), (shapesI src u), (forallb (fun u => exemptI k u || shapesI src u) r), (forallb (fun u => negb (exemptI k u) || shapesI src u) r); reflexivity. }
  rewrite Hk, Hi.
  destruct (span_valid _ _ _), (shapeBlock _ _), (forallb (shapesBX src) bk), (forallb (exemptOK src) bk),
    (forallb (fun u => exemptI k u || shapesI src u) ik), (forallb (fun u => negb (exemptI k u) || shapesI src u) ik); reflexivity.
Qed.

(* ---- the facts about one node ---- *)
Section Root.
  Variables (B pre' raw src : bytes) (M n : Z) (m : list bytes).
  Hypothesis Lp' : len pre' = n.
  Hypothesis Lraw : len raw = len src.

  Definition NF (b : block) : Prop := facts B pre' M b /\ la raw (len raw) b /\ cc b = true /\ bshapes src b = true.
  Lemma NF_kids b c : NF b -> In c (bkids b) -> NF c.
  Proof.
    intros (F & L & C & S) Hc. split; [eapply facts_kids; eassumption|]. split; [|split].
    - rewrite la_eq in L. destruct L as (_ & _ & _ & _ & L). eapply allQ_In; eassumption.
    - apply cc_parts in C. destruct C as [_ C]. unfold ccL in C. rewrite forallb_forall in C. apply C, Hc.
    - rewrite bshapes_eq in S. apply andb_true_iff in S. destruct S as [_ S]. rewrite forallb_forall in S. apply S, Hc.
  Qed.

  Lemma nokids_leaf b : cc b = true -> canContain (bkind b) 0 = false -> (forall k, canContain (bkind b) k = false) -> bkids b = [].
  Proof.
    intros C _ H. apply cc_parts in C. destruct C as [C _]. destruct (bkids b) as [|x r]; [reflexivity|]. cbn [forallb] in C. rewrite H in C. discriminate.
  Qed.

  (* an entry the inline pass leaves alone, in a block that is neither a definition nor (for the info string) a fenced code block *)
  Lemma entry_ok b u : NF b -> isLeafU b = false -> In u (bik b) -> exemptI (bkind b) u || shapesI src u = true.
  Proof.
    intros ((_ & _ & Hinv) & L & _ & S) Hlu Hu. destruct (exemptI (bkind b) u) eqn:Ex; [reflexivity|]. cbn [orb].
    unfold exemptI in Ex. apply orb_false_iff in Ex. destruct Ex as [Ex1 Ex2].
    rewrite la_eq in L. destruct L as (L1 & L2 & _ & Lb & _). unfold body in Lb.
    assert (Hek : L2Kind2.ek (bkind b) u = true).
    { destruct b as [K s e bk ik a nn c l lb]. cbn [L2Kind2.inv] in Hinv. apply andb_true_iff in Hinv. destruct Hinv as [Hi _].
      rewrite forallb_forall in Hi. apply Hi, Hu. }
    destruct (isLeafK (bkind b)) eqn:Elk.
    2:{ exfalso. destruct (bkind b =? ListMarkerKind); [destruct Lb as [_ E]; rewrite E in Hu; destruct Hu|].
        rewrite Ex1 in Lb. destruct Lb as [_ E]. rewrite E in Hu. destruct Hu. }
    destruct Lb as (Lt & _ & _).
    destruct (tileS_In raw _ _ _ (ispan u) Lt (in_map ispan _ _ Hu)) as (T1 & T2 & T3). cbn [ispan fst snd] in T1, T2, T3.
    assert (Hhi : hiOf (len raw) b <= len src) by (unfold hiOf; destruct (Z.ltb_spec (bend b) 0); lia).
    assert (Hv : span_valid (len src) (istart u) (iend u) = true).
    { unfold span_valid. apply andb_true_iff. split; [apply andb_true_iff; split|]; apply Z.leb_le; lia. }
    (* the kind of the entry: not Unparsed (the block is not a leaf of the inline pass), not an info string, not a definition part *)
    assert (Hnu : ikind u <> UnparsedKind).
    { intros E. unfold isLeafU in Hlu. apply andb_false_iff in Hlu. destruct Hlu as [H0|H0].
      - apply Z.ltb_ge in H0. destruct (bik b); [destruct Hu|]. rewrite ShapesBase.len_cons in H0. pose proof (ShapesBase.len_nonneg l). lia.
      - unfold hasUnparsed in H0. assert (X : existsb (fun i => ikind i =? UnparsedKind) (bik b) = true) by (apply existsb_exists; exists u; split; [exact Hu|apply Z.eqb_eq, E]). congruence. }
    unfold L2Kind2.ek in Hek. cbv zeta in Hek.
    replace (ikind u =? UnparsedKind) with false in Hek by (symmetry; apply Z.eqb_neq; exact Hnu).
    assert (Hshape : forall k, k = TextKind \/ k = SoftLineBreakKind \/ k = RawHTMLKind \/ k = IndentKind -> forall t, shapeInline t k = true).
    { intros k [->|[->|[->| ->]]] t; reflexivity. }
    assert (Fin : L2Kind2.kidless u = true -> (ikind u = TextKind \/ ikind u = SoftLineBreakKind \/ ikind u = RawHTMLKind \/ ikind u = IndentKind) -> shapesI src u = true).
    { intros Hkl Hk. destruct u as [k s e ind rf ks]. cbn [ikind istart iend] in *. unfold L2Kind2.kidless in Hkl. cbn [ikids] in Hkl.
      destruct ks; [|discriminate]. cbn [shapesI forallb]. rewrite Hv, (Hshape k Hk). reflexivity. }
    destruct ((ikind u =? TextKind) || (ikind u =? SoftLineBreakKind)) eqn:E1.
    { apply andb_true_iff in Hek. apply Fin; [tauto|]. apply orb_true_iff in E1. destruct E1 as [E1|E1]; apply Z.eqb_eq in E1; tauto. }
    destruct ((ikind u =? RawHTMLKind) || (ikind u =? IndentKind)) eqn:E2.
    { apply Fin; [exact Hek|]. apply orb_true_iff in E2. destruct E2 as [E2|E2]; apply Z.eqb_eq in E2; tauto. }
    exfalso. destruct (ikind u =? InfoStringKind) eqn:E3.
    - rewrite Hek in Ex2. discriminate.
    - apply andb_true_iff in Hek. destruct Hek as [_ Hek]. congruence.
  Qed.

  Lemma rewrite_shapesBX : forall f b, (bheight b <= f)%nat -> NF b -> shapesAfter f src m b = true -> shapesBX src (rewriteB f src m b) = true.
  Proof.
    induction f as [|f IH]; intros b Hh HN Hsa; [destruct b; cbn [bheight] in Hh; lia|].
    pose proof HN as (HF & HL & HC & HS). cbn [rewriteB]. cbn [shapesAfter] in Hsa. fold (isLeafU b). destruct (isLeafU b) eqn:Elu.
    - (* a leaf of the inline pass: paragraph, setext or ATX heading *)
      cbn [rewriteB] in Hsa. fold (isLeafU b) in Hsa. rewrite Elu in Hsa.
      assert (Hu : hasUnparsed b = true) by (unfold isLeafU in Elu; apply andb_true_iff in Elu; tauto).
      destruct (leaf_cases B pre' M n Lp' b HF Hu) as (_ & _ & _ & HK).
      assert (Hk : bkids b = []).
      { apply cc_parts in HC. destruct HC as [HC _]. destruct (bkids b) as [|x r]; [reflexivity|]. cbn [forallb] in HC. exfalso.
        destruct HK as [([E|E] & _)|(E & _)]; rewrite E in HC; cbn in HC; discriminate. }
      rewrite shapesBX_eq. rewrite bshapes_eq in HS. apply andb_true_iff in HS. destruct HS as [HS _].
      assert (E1 : bstart (set_bik b (parseInlines src m b)) = bstart b) by (destruct b; reflexivity).
      assert (E2 : bend (set_bik b (parseInlines src m b)) = bend b) by (destruct b; reflexivity).
      assert (E3 : bkids (set_bik b (parseInlines src m b)) = bkids b) by (destruct b; reflexivity).
      assert (E4 : bik (set_bik b (parseInlines src m b)) = parseInlines src m b) by (destruct b; reflexivity).
      rewrite E1, E2, E3, E4, Hk. rewrite !shapeBlock_KN in *. replace (bkind (set_bik b (parseInlines src m b))) with (bkind b) by (destruct b; reflexivity).
      replace (bn (set_bik b (parseInlines src m b))) with (bn b) by (destruct b; reflexivity). rewrite HS. cbn [forallb andb].
      rewrite E4 in Hsa. apply forallb_forall. intros u Hin. rewrite forallb_forall in Hsa. rewrite (Hsa u Hin). apply orb_true_r.
    - rewrite shapesBX_eq. rewrite bshapes_eq in HS. apply andb_true_iff in HS. destruct HS as [HS _].
      rewrite bstart_set_bkids, bend_set_bkids, bkids_set_bkids, bik_set_bkids, bkind_set_bkids. rewrite !shapeBlock_KN in *. rewrite bkind_set_bkids, bn_set_bkids, HS. cbn [andb].
      apply andb_true_iff. split.
      + apply forallb_forall. intros y Hy. apply in_map_iff in Hy. destruct Hy as (c & <- & Hc). apply IH.
        * pose proof (ShClose.bheight_kid b c Hc). lia.
        * eapply NF_kids; eassumption.
        * rewrite forallb_forall in Hsa. apply Hsa, Hc.
      + apply forallb_forall. intros u Hu. apply (entry_ok b u HN Elu Hu).
  Qed.
End Root.

(* ---- every input ---- *)
Theorem C13_partial : forall input, forallb (fun r => shapesBX (rb_src r) (rb_blk r)) (fst (parseFull input)) = true.
Proof.
  intros input. unfold parseFull.
  pose proof (parseBlocks_block_shapes input) as H1. pose proof (root_facts input) as H2.
  pose proof (parseBlocks_rootLA (fun _ => True) ltac:(intros; apply OcpLoopSpec_all) ltac:(auto) ltac:(auto) input I) as H3.
  pose proof (parseBlocks_inline_shapes input) as H4.
  destruct (parseBlocks input) as [roots code]. cbn [fst] in *.
  set (refs := fold_left (fun a r => extractB (bheight (rb_blk r)) (rb_blk r) a) roots []). specialize (H4 refs).
  apply forallb_forall. intros r Hr. apply in_map_iff in Hr. destruct Hr as (r0 & <- & Hr0). cbn [rb_src rb_blk].
  rewrite Forall_forall in H1, H3. rewrite forallb_forall in H4.
  destruct (H2 r0 Hr0) as (B & pre' & M & Hn & Es & Ht & Lp & Hf).
  destruct (H3 r0 Hr0) as (raw & _ & _ & Er & El & Hcc & Hla & _).
  apply (rewrite_shapesBX B pre' raw (rb_src r0) M (bend (rb_blk r0)) refs Lp ltac:(rewrite Er, len_fillNulls; reflexivity)); [lia| |apply H4, Hr0].
  split; [exact Hf|split; [exact Hla|split; [exact Hcc|apply H1, Hr0]]].
Qed.
Print Assumptions C13_partial.

(* exactly what is missing for the full statement: the shapes of the exempt entries *)
Theorem C13_of_exempt : (forall input, forallb (fun r => exemptOK (rb_src r) (rb_blk r)) (fst (parseFull input)) = true) -> C13_statement.
Proof.
  intros H input. specialize (H input). pose proof (C13_partial input) as H1. rewrite forallb_forall in *.
  intros r Hr. unfold chk_C13_root. rewrite shapesB_split, (H1 r Hr), (H r Hr). reflexivity.
Qed.
Print Assumptions C13_of_exempt.
