(* QInlStep10.v -- T64 (asm): parseEndBracket on the two sides (QInlStep5.BracketOK). *)
From Coq Require Import List ZArith Lia Bool.
Import ListNotations.
Require Import Base Tables Utf8 Tree Rdr Link Collect Html Recog Inl3a Inl3b Inl3c Inl3d Driver Inl3e Props PEProof.
Require Import ShapesBase ShapesR IFBase IFLink IFCollect IFLabel GI0 GI1 GI2 GI3 GI4 GI6 IS0 IS2 IS1 IS3 IS4 IS5a IS5b IS8c IS5 IS6a IS6b IS6 IFTokDef IFTokAux IFTokUm IFFrame IFTokRf IFTokTf IFTokLoop IFTree IFPe IFTk1 IFTk2 IFTk3 IFTk4.
Require Import SpanSmall SpanHypDef.
Require Import QCutsDef QCuts QIRdrBase QIRdrLink QIRdrCollect QInlDefs QInlBytes QInlBytesEmph QInlHtml QInlTree1 QInlTree2 QInlTree3 QInlTree.
Require Import QInlStep0 QInlStep1 QInlStep2 QInlStep3 QInlStep4 QInlStepF QInlStep5 QInlStep6 QInlStep6b QInlStepLab QInlStep7 QInlStep9.
Open Scope Z_scope.

Section Step10.
  Variables (sD sQ : bytes) (sg : Z -> Z) (U : list inline).
  Hypothesis SG : SGood sD sQ sg.
  Hypothesis GP : GapSp sD sQ sg.
  Hypothesis HG : Forall (gsp sD sg U) U.
  Hypothesis HOK : spOK sD U = true.
  Hypothesis HKl : forall u, In u U -> ikids u = [].
  Hypothesis HLn : IS6b.linesOK sD U = true.
  Hypothesis HNG : NoGtBehindLast sD U.
  Hypothesis HTl : tailOKX sD U = true.
  Hypothesis HGN : GapNoParen sD sQ sg.
  Set Default Proof Using "All".
  Local Notation Hy l := (l sD sQ sg U SG GP HG HOK HKl HLn HNG) (only parsing).
  Local Notation Hz l := (l sD sQ sg U SG GP HG HOK HKl HLn HNG HTl HGN) (only parsing).
  Notation tr := (QInlBytes.tr sg).
  Notation IR := (QInlDefs.IR sD sQ sg).
  Notation SL := (QInlTree1.SL sD).
  Notation curU := QInlTree3.curU.
  Notation Ctx := (Ctx sD sQ sg U).
  Notation InIK := (QIRdrBase.InIK U).
  Notation PosR := (QInlStep1.PosR sg U).
  Notation J := (IS3.J sD U).
  Notation R2 := (QInlStep9.R2 sD sQ sg U).

  Lemma q_bracketF rf st st' u start hi : len sQ < Z.of_nat rf -> Ctx st st' u -> istart u <= start < iend u -> at_ sD start = 93 ->
    MI true U st -> J hi st -> hi <= start -> TKb (nid st) st -> load st <= len sD -> (forall v, In v U -> iend v <= rootEnd st) ->
    R2 (parseEndBracketF rf rf st start) (parseEndBracketF rf rf st' (tr u start)).
  Proof.
    intros Hrf HC Hs H93 HM HJ Hhi HTK HLd HRE. pose proof HC as (HI & HS & Eu & Hu & Ecu).
    destruct ((Hy Ctx_facts) st st' u HC) as (Hinu & Gu & Es & Es' & Ee & Ee' & _). pose proof Gu as (Ua & Ub & Uc & _).
    unfold parseEndBracketF. cbv zeta. rewrite Es, Es'.
    destruct (IR_lookForLinkOrImage sD sQ sg st st' HI) as [I1 Eo].
    destruct (lfl_rk (S (length (stk st))) st (len (stk st) - 1)) as (R1 & R2' & R3 & R4). fold (lookForLinkOrImage st) in R1, R2', R3, R4.
    destruct (lfl_rk (S (length (stk st'))) st' (len (stk st') - 1)) as (R1' & R2'' & R3' & R4'). fold (lookForLinkOrImage st') in R1', R2'', R3', R4'.
    pose proof (lfl_spec (S (length (stk st))) st (len (stk st) - 1) ltac:(lia)) as Hspec. fold (lookForLinkOrImage st) in Hspec.
    destruct (lookForLinkOrImage st) as [s1 odi]. destruct (lookForLinkOrImage st') as [s1' odi']. cbn [fst snd] in *. subst odi'.
    assert (HC1 : Ctx s1 s1' u).
    { split; [exact I1|]. split; [rewrite R1; exact HS|]. split; [congruence|]. split; [lia|]. rewrite Ecu. unfold QInlTree3.curU. rewrite R3, R4. reflexivity. }
    destruct Hspec as [(Er & _)|(Hr & E1 & Htyp & _)].
    - (* no opener *)
      subst odi. cbn [Z.ltb Z.compare]. pose proof HC1 as (_ & HS1 & _).
      destruct ((Hy addText_tr) s1 s1' u start (start + 1) I1 HS1 Gu ltac:(lia) ltac:(lia) ltac:(lia)) as [A B]. rewrite tr_add in A.
      unfold QInlStep9.R2. cbn [fst snd]. split; [exact A|]. split; [exact B|]. rewrite <- tr_add. split.
      + intros _. cbv zeta. unfold QInlTree3.curU. rewrite unp_addText, upos_addText, R3, R4. fold (curU st). rewrite <- Ecu. repeat split; lia.
      + rewrite upos_addText, R4. intros L. lia.
    - subst s1. destruct (Z.ltb_spec odi 0) as [L0|L0]; [lia|].
      destruct ((Hz bracket_plain) st start hi odi HM HJ Hhi H93 Hr Htyp) as (low & high & pre & M & sb & eb & s0 & e0 & BP). cbv zeta in BP.
      assert (Estk : stk s1' = stk st) by apply I1. replace (nthD (stk s1') odi) with (nthD (stk st) odi) by (rewrite Estk; reflexivity).
      destruct ((Hy Ctx_facts) st s1' u HC1) as (_ & _ & _ & Es1' & _ & Ee1' & _).
      assert (Et : ((tr u start + 1 <? spanEnd s1') && (at_ sQ (tr u start + 1) =? 40)) = ((start + 1 <? spanEnd st) && (at_ sD (start + 1) =? 40)))
        by (rewrite Ee, Ee1'; apply (test_and sD sQ sg U SG u Gu start 1 40); lia).
      rewrite Et. clear Et.
      destruct ((start + 1 <? spanEnd st) && (at_ sD (start + 1) =? 40)) eqn:Ec1.
      2:{ apply ((Hz ref_path) rf st s1' u start hi odi Hrf HC1 Hs H93 HM HJ Hhi HTK HLd HRE low high pre M sb eb s0 e0 BP Htyp). }
      rewrite Ee in Ec1. apply andb_true_iff in Ec1. destruct Ec1 as [Elt E40]. apply Z.ltb_lt in Elt. apply Z.eqb_eq in E40.
      assert (Hrf0 : rf <> O) by (intros ->; pose proof (len_nonneg sQ); cbn in Hrf; lia).
      pose proof ((Hz q_parseInlineLink) rf st s1' (start + 1) I1 Eu Hu ltac:(rewrite <- Ecu; lia) ltac:(rewrite E40; discriminate) Hrf0) as HP.
      rewrite <- Ecu, tr_add in HP.
      assert (HokF : spOK (isrc st) (unpFrom st) = true) by (rewrite Es; unfold unpFrom; rewrite Eu; apply spOK_from, HOK).
      pose proof (parseInlineLink_res rf st (start + 1)) as Hres.
      pose proof (pil_lower sD (start + 2) rf st (start + 1)) as Hlow.
      destruct (parseInlineLink rf st (start + 1)) as [[ispan [dspan dtext]] [tspan ttext]].
      destruct (parseInlineLink rf s1' (tr u start + 1)) as [[ispan' [dspan' dtext']] [tspan' ttext']].
      destruct HP as [[Ea Eb]|(q & xd & xd' & xt & xt' & Hq & H41 & Hpos & Ei & Ei' & HD & HT)].
      + assert (Vi : ispan = nullSpan) by (unfold pnone in Ea; congruence). assert (Vi' : ispan' = nullSpan) by (unfold pnone in Eb; congruence).
        rewrite Vi, Vi'. change (spanValid nullSpan) with false. cbv iota.
        apply ((Hz ref_path) rf st s1' u start hi odi Hrf HC1 Hs H93 HM HJ Hhi HTK HLd HRE low high pre M sb eb s0 e0 BP Htyp).
      + cbn [fst snd] in Ei, Ei', HD, HT.
        destruct (Hlow ispan dspan dtext tspan ttext Es ltac:(apply (Hy unpFrom_spW); exact Eu) ltac:(lia) eq_refl ltac:(intros X; rewrite Ei in X; unfold nullSpan in X; inversion X; lia)) as (Ld & Lt & Lq).
        rewrite Ei in Lq. cbn [snd] in Lq.
        assert (V : spanValid ispan = true) by (rewrite Ei; apply (Hy spanValid_in); lia).
        assert (V' : spanValid ispan' = true).
        { rewrite Ei'. apply (Hy spanValid_in); [pose proof (tr_nn sD sQ sg U SG u Gu start ltac:(lia)); lia|].
          rewrite ((Hy tr_in) u start Gu) by lia. pose proof ((Hy sg_le') start q ltac:(lia) ltac:(lia)). lia. }
        rewrite V, V'.
        destruct (Hres ispan dspan dtext tspan ttext HokF ltac:(rewrite Es; lia) eq_refl V) as (Bd & Bt). rewrite Es in Bd, Bt.
        apply ((Hz inline_path) rf st s1' u start hi odi Hrf HC1 Hs H93 HM HJ Hhi HTK HLd HRE low high pre M sb eb s0 e0 BP Htyp
                 ispan dspan dtext tspan ttext ispan' dspan' dtext' tspan' ttext' q xd xd' xt xt' Ei Ei'); try assumption; try lia; [intros X; specialize (Ld X); lia|intros X; specialize (Lt X); lia].
  Qed.

  Lemma ind1_U : ind1 U = true.
  Proof. unfold ind1. apply forallb_forall. intros i Hi. rewrite ((Hy U_unp) i Hi). reflexivity. Qed.

  Theorem bracket_ok : BracketOK sD sQ sg U.
  Proof.
    unfold BracketOK. intros st st' u start hi HC Hs H93 HM HJ Hhi HTK HLd HRE.
    destruct ((Hy Ctx_facts) st st' u HC) as (_ & _ & Es & Es' & _). pose proof HC as (_ & _ & Eu & _).
    pose proof (Hy fuel_le) as FL. pose proof (Hy HBud0) as HB0.
    assert (HF : len sD + ibudget U < Z.of_nat (rfuelOf st)) by (unfold rfuelOf; rewrite Es, HB0; unfold len; lia).
    assert (HF' : len sD + ibudget U < Z.of_nat (rfuelOf st')) by (unfold rfuelOf; rewrite Es', HB0; unfold len; lia).
    assert (Hg : good sD U st) by (split; assumption).
    rewrite <- (parseEndBracketF_model st start), <- (parseEndBracketF_model st' (tr u start)).
    rewrite (parseEndBracketF_rf sD U (Hy HW) (rfuelOf st) (rfuelOf st') HF HF' (rfuelOf st) st start Hg).
    rewrite (parseEndBracketF_tf sD U (Hy HW) ind1_U (rfuelOf st') HF' (rfuelOf st) (rfuelOf st') HF HF' st start Hg).
    apply (q_bracketF (rfuelOf st') st st' u start hi); try assumption. unfold rfuelOf. rewrite Es'. unfold len. lia.
  Qed.
End Step10.
