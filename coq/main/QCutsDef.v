(* QCutsDef.v -- T58: the pieces of a span [a, e) of a source, cut after every line feed that is not its last byte. *)
From Coq Require Import List ZArith Lia Bool.
Import ListNotations.
Require Import Base Tree LP Driver QuoteSimDefs.
Open Scope Z_scope.

Section Cuts.
  Variable src : bytes.
  (* a: start of the current piece; x: the next byte to look at; fuel: at least e - x *)
  Fixpoint cutsF (n : nat) (a x e : Z) : list (Z * Z) :=
    match n with
    | O => [(a, e)]
    | S n' => if e <=? x + 1 then [(a, e)]
              else if at_ src x =? 10 then (a, x + 1) :: cutsF n' (x + 1) (x + 1) e
              else cutsF n' a (x + 1) e
    end.
  Definition cuts (a e : Z) : list (Z * Z) := cutsF (Z.to_nat (e - a)) a a e.
  (* the complete pieces of [ps, m) when m is a piece boundary *)
  Definition cutsDone (ps m : Z) : list (Z * Z) := if ps <? m then cuts ps m else [].
  Definition noLFin (a b : Z) : Prop := forall x, a <= x < b -> at_ src x <> 10.
End Cuts.
