From Coq Require Import List ZArith Lia Bool.
Import ListNotations.
Require Import Base Tree Rdr Link Collect Html Recog LP Rules Starts Driver Rec16 Rec17 Rec18 RecBounds Cursor CursorX NoPanic12 NoPanic3
  L2Kind L2CC BSDef BSRdr BSTree BSOrph BSClose BSLine1 BSLine2 BSLine3 BSLine4 BSLine5
  BSLine7 LADef LA1 LA2 LA3 LA4 LA5 LARec LA6.
Open Scope Z_scope.

(* ===== the block starts, part 1 (mirrors BSLine5) ===== *)

Definition LLI2 (p : lp) : Prop := LLI p \/ (acceptsLines (containerKind p) = true /\ containerKind p <> ParagraphKind).
(* a consumed line leaves the cursor at the end of the line *)
Definition SC (p : lp) : Prop := state p = stLineConsumed -> li p = len (line p).
Definition startOKL (f : lp -> lp) : Prop :=
  forall p, st_open p -> LOP p -> LLI p -> N3 p -> LSp p ->
    LOP (f p) /\ LLI2 (f p) /\ (LLI (f p) \/ ms (f p)) /\ SC (f p) /\ (f p = p \/ containerKind (f p) <> ParagraphKind).

(* ---- operations that leave the cursor alone ---- *)
Definition curE (p p' : lp) : Prop := curS p p' /\ env p p'.
Lemma curE_refl p : curE p p. Proof. split; [apply curS_refl|apply env_refl]. Qed.
Lemma curE_trans a b c : curE a b -> curE b c -> curE a c.
Proof. intros [A1 A2] [B1 B2]. split; [eapply curS_trans; eassumption|eapply env_trans; eassumption]. Qed.
Lemma curE_opened p : curE p (if state p =? stOpening then withState p stOpenMatched else p).
Proof. destruct (_ =? _); repeat split. Qed.
Lemma curE_openBlock_up : forall fuel p kind, curE p (openBlock_up fuel p kind).
Proof.
  induction fuel as [|f IH]; intros p kind; [apply curE_refl|]. cbn [openBlock_up].
  destruct (canContain _ _); [apply curE_refl|]. destruct (cdepth p); [repeat split|].
  eapply curE_trans; [|apply IH]. repeat split.
Qed.
Lemma curE_openBlock p kind : curE p (openBlock p kind).
Proof.
  unfold openBlock. destruct (_ || _); [repeat split|]. cbv zeta.
  set (p0 := if state p =? stOpening then withState p stOpenMatched else p).
  eapply curE_trans; [apply curE_opened|]. fold p0. eapply curE_trans; [apply (curE_openBlock_up (S (cdepth p0)) p0 kind)|]. repeat split.
Qed.
Lemma curE_endBlock p : curE p (endBlock p).
Proof.
  unfold endBlock. destruct (_ || _); [repeat split|]. cbv zeta. eapply curE_trans; [apply curE_opened|].
  destruct (cdepth _); repeat split.
Qed.
Lemma curE_updCont p f : curE p (updCont p f). Proof. repeat split. Qed.
Lemma curE_facts p p' : curE p p' -> li p' = li p /\ line p' = line p /\ lineStart p' = lineStart p /\ source p' = source p /\
  rest p' = rest p /\ indent p' = indent p /\ bytesAfterIndent p' = bytesAfterIndent p /\ idl p' = idl p /\ Mc p' = Mc p.
Proof.
  intros [Hc (E1 & E2 & E3)]. pose proof (rest_curS _ _ Hc) as Er. pose proof (indent_curS _ _ Hc) as Ei. destruct Hc as (A & B & _).
  unfold bytesAfterIndent, idl, Mc. rewrite Er, A, E1. repeat split; assumption.
Qed.
Lemma curP_curE p p' : curE p p' -> curP p -> curP p'.
Proof. intros H C. destruct (curE_facts p p' H) as (A & B & D & _). unfold curP. rewrite A, B, D. exact C. Qed.
Lemma Itab_curE p p' : curE p p' -> Itab p -> Itab p'.
Proof. intros [H _]. apply Itab_curS, H. Qed.
Lemma NTl_curE p p' a b : curE p p' -> NTl p a b -> NTl p' a b.
Proof. intros H. apply NTl_env. apply (curE_facts p p' H). Qed.

(* the container after openBlock is the fresh block *)
Lemma openBlock_cont p K b : st_open p -> getAt (cdepth (openBlock p K)) (root (openBlock p K)) = Some b -> b = newBlock K (lineStart p + li p).
Proof.
  intros Hs Hb. revert Hb. unfold openBlock.
  replace ((state p =? stDescending) || (state p =? stDescendTerminated)) with false by (destruct Hs as [-> | ->]; reflexivity).
  cbv zeta. set (p0 := if state p =? stOpening then withState p stOpenMatched else p).
  set (p2 := openBlock_up (S (cdepth p0)) p0 K). set (p3 := closeLastChildAt p2 (cdepth p2) (lineStart p2)).
  intros Hb. unfold cdepth, updCont in Hb. cbn [root container withCont withRoot setLP] in Hb.
  fold (cdepth p3) in Hb. change (cdepth p3) with (cdepth p2) in Hb.
  apply getAt_S_append in Hb. subst b.
  assert (E : curE p p3).
  { eapply curE_trans; [apply curE_opened|]. fold p0. eapply curE_trans; [apply (curE_openBlock_up (S (cdepth p0)) p0 K)|]. repeat split. }
  destruct (curE_facts p p3 E) as (A & _ & B & _). rewrite A, B. reflexivity.
Qed.

Lemma LLI_pre p kind : ccP p -> LLI p -> kind <> ListItemKind ->
  canContain (containerKind p) kind = true \/ (kind <> ListItemKind /\ LcleanC p).
Proof.
  intros D H N. destruct (wf_le p (cdepth p) D ltac:(lia)) as (x & Ex). destruct (H x Ex) as [S0|Wd].
  - right. split; [exact N|]. intros x' Ex'. rewrite Ex in Ex'. inversion Ex'; subst x'. exact S0.
  - left. rewrite (containerKind_at p x Ex). apply wide_accepts; assumption.
Qed.
Lemma LLI_of_ckind p K : ckind p K -> wide K -> LLI p.
Proof. intros Hc Hw x Ex. right. rewrite (Hc x Ex). exact Hw. Qed.
Lemma LLI2_of_ckind p K : ccP p -> ckind p K -> acceptsLines K = true -> K <> ParagraphKind -> LLI2 p.
Proof. intros D Hc Ha N. right. rewrite (containerKind_of p K D Hc). tauto. Qed.
Lemma LOP_openBlock p kind : LOP p -> kind <> SetextHeadingKind -> LLI p -> kind <> ListItemKind -> LOP (openBlock p kind).
Proof. intros H N1 HL N2. apply LOP_openBlock_ns; [exact H|exact N1|]. apply LLI_pre; [apply H|exact HL|exact N2]. Qed.

(* a freshly opened block of kind K after consuming n columns of indentation *)
Lemma Lopen_fresh p n K : st_open p -> LOP p -> LLI p -> K <> ListItemKind -> K <> SetextHeadingKind ->
  let q := openBlock (consumeIndent p n) K in
  LOP q /\ ckind q K /\ state q = stOpenMatched /\ curE (consumeIndent p n) q /\ containerKind q = K.
Proof.
  intros Hs H HL N1 N2 q. pose proof H as ((C & _) & _). pose proof (ntstep_consumeIndent p n C) as Hc.
  assert (S1 : st_open (consumeIndent p n)) by (apply st_open_consumeIndent, Hs).
  assert (H1 : LOP (consumeIndent p n)) by (eapply LOP_ntstep; eassumption).
  assert (L1 : LLI (consumeIndent p n)) by (eapply LLI_cstep; [apply Hc|exact HL]).
  assert (A : LOP q) by (apply LOP_openBlock; assumption).
  split; [exact A|]. split; [apply ckind_openBlock, S1|]. split; [apply state_openBlock, S1|]. split; [apply curE_openBlock|].
  apply containerKind_of; [apply A|apply ckind_openBlock, S1].
Qed.

Lemma SC_of_state p : state p = stOpenMatched -> SC p.
Proof. intros E H. rewrite E in H. discriminate. Qed.
Lemma state_sstep_om p p' : sstep p p' -> state p = stOpenMatched -> state p' = stOpenMatched.
Proof. intros [E|[E _]] H; [congruence|rewrite H in E; discriminate]. Qed.

Lemma sameL p : LOP p -> LLI p -> LOP p /\ LLI2 p /\ (LLI p \/ ms p) /\ (p = p \/ containerKind p <> ParagraphKind).
Proof. intros H HL. split; [exact H|split; [left; exact HL|split; [left; exact HL|left; reflexivity]]]. Qed.

Lemma sOKL_startBlockQuote : startOKL startBlockQuote.
Proof.
  intros p Hs H HL H3 HS. unfold startBlockQuote. cbv zeta.
  assert (SCp : SC p) by (intros E; destruct Hs as [E'|E']; rewrite E' in E; discriminate).
  assert (Same : LOP p /\ LLI2 p /\ (LLI p \/ ms p) /\ SC p /\ (p = p \/ containerKind p <> ParagraphKind)).
  { destruct (sameL p H HL) as (A & B & C & D). tauto. }
  destruct (_ <=? _); [exact Same|]. destruct (negb _) eqn:Eh; [exact Same|]. clear Same.
  apply negb_false_iff in Eh. destruct (prefix62 _ Eh) as [P1 P2].
  pose proof H as ((C & _) & _). pose proof (proj1 H3) as Hi.
  destruct (Lopen_fresh p (indent p) BlockQuoteKind Hs H HL ltac:(discriminate) ltac:(discriminate)) as (A & B & St & E & K).
  destruct (consume_ind p C Hi) as (A1 & A2 & A3 & A4 & A5).
  set (q := openBlock (consumeIndent p (indent p)) BlockQuoteKind) in *.
  destruct (curE_facts _ _ E) as (F1 & F2 & _). pose proof (curP_curE _ _ E A4) as Cq.
  assert (N1 : ntstep q (advance q 1)).
  { apply ntstep_advance; [exact Cq|]. intros i Hi'. replace i with (li q) by lia. rewrite F1, F2, A1, A2.
    replace (li p + idl p) with (li p + idl p + 0) by lia. rewrite <- bai_at by (try assumption; lia). rewrite P1. reflexivity. }
  set (r := if 0 <? indent (advance q 1) then consumeIndent (advance q 1) 1 else advance q 1).
  assert (Nr : ntstep q r).
  { unfold r. destruct (0 <? _); [|exact N1]. eapply ntstep_trans; [exact Cq|exact N1|]. apply ntstep_consumeIndent.
    destruct (cstep_Mc q _ (proj1 N1) Cq) as (Ca & _). exact Ca. }
  assert (Sr : sstep q r).
  { unfold r. destruct (0 <? _); [eapply sstep_trans; [apply sstep_advance|apply sstep_consumeIndent]|apply sstep_advance]. }
  assert (Kr : ckind r BlockQuoteKind) by (eapply ckind_cstep'; [apply Nr|exact B]).
  assert (Ar : LOP r) by (eapply LOP_ntstep; eassumption).
  assert (L : LLI r) by (eapply LLI_of_ckind; [exact Kr|right; left; reflexivity]).
  split; [exact Ar|]. split; [left; exact L|]. split; [left; exact L|]. split; [apply SC_of_state, (state_sstep_om q r Sr St)|].
  right. rewrite (containerKind_of r BlockQuoteKind); [discriminate|apply Ar|exact Kr].
Qed.

(* ---- cursor facts for collectInline ---- *)
Lemma indent_nonws p : (len (line p) <= li p \/ isSpTab (at_ (line p) (li p)) = false) -> indent p = 0.
Proof.
  intros H. unfold indent. destruct (Z.leb_spec (len (line p)) (li p)) as [L|L]; [reflexivity|]. destruct H as [H|H]; [lia|].
  unfold isSpTab in H. apply orb_false_iff in H. destruct H as [H1 H2]. rewrite H1, H2. reflexivity.
Qed.
Lemma collect_li_exact p kind n : curP p -> state p <> stDescendTerminated -> indent p <= 0 -> 0 <= n -> li p + n <= len (line p) ->
  li (collectInline p kind n) = li p + n.
Proof.
  intros C Hs Hi Hn Hl. unfold collectInline. destruct (Z.eqb_spec (state p) stDescendTerminated); [contradiction|]. cbv zeta.
  set (p0 := if state p =? stOpening then withState p stOpenMatched else p).
  assert (E0 : li p0 = li p /\ line p0 = line p /\ indent p0 = indent p /\ curP p0) by (unfold p0; destruct (_ =? _); repeat split; apply C).
  destruct E0 as (E1 & E2 & E3 & C0). rewrite E3. destruct (Z.ltb_spec 0 (indent p)); [lia|].
  cbn [li updCont withRoot setLP]. rewrite li_advance by (try assumption; rewrite ?E1, ?E2; lia). lia.
Qed.
Lemma collect_li_ge p kind n : curP p -> li p <= li (collectInline p kind n).
Proof.
  intros C. unfold collectInline. destruct (_ =? stDescendTerminated); [cbn; lia|]. cbv zeta.
  set (p0 := if state p =? stOpening then withState p stOpenMatched else p).
  assert (E0 : li p0 = li p /\ curP p0) by (unfold p0; destruct (_ =? _); split; try reflexivity; exact C). destruct E0 as [E1 C0].
  set (p1 := if 0 <? indent p0 then _ else p0).
  assert (H1 : li p <= li p1 /\ curP p1).
  { unfold p1. destruct (0 <? indent p0); [|split; [lia|exact C0]]. cbn [li updCont withRoot setLP].
    destruct (cstep_Mc p0 _ (cstep_advance p0 (indentLength (rest p0))) C0) as (CA & Hm & E & _). unfold Mc in Hm. split; [lia|exact CA]. }
  destruct H1 as [H1 C1]. cbn [li updCont withRoot setLP].
  destruct (cstep_Mc p1 _ (cstep_advance p1 n) C1) as (_ & Hm & E & _). unfold Mc in Hm. lia.
Qed.

(* the common ending: consume the rest of the line (which needs no cover) and end the block *)
Lemma state_consumeLine_om q : state q = stOpenMatched -> state (consumeLine q) = stLineConsumed.
Proof.
  intros E. unfold consumeLine. cbv zeta. pose proof (sstep_advance q (len (line q) - li q)) as Hs.
  rewrite (state_sstep_om _ _ Hs E). reflexivity.
Qed.
Lemma finish_end q K : LOP q -> ckind q K -> K <> ListItemKind -> state q = stOpenMatched -> NTl q (li q) (len (line q)) ->
  let r := endBlock (consumeLine q) in
  LOP r /\ wideC r /\ ms r /\ li r = len (line r) /\ containerKind r <> ParagraphKind.
Proof.
  intros H Hk Nk St Hn r. pose proof H as ((C & _) & _).
  pose proof (ntstep_consumeLine q C Hn) as N1.
  assert (A4 : LOP (consumeLine q)) by (eapply LOP_ntstep; eassumption).
  assert (B4 : ckind (consumeLine q) K) by (eapply ckind_cstep'; [apply N1|exact Hk]).
  assert (M4 : ms q) by (left; exact St).
  destruct (ms_consumeLine q (ms_nd _ M4)) as [M5 N4].
  assert (Hbd : bnd0 (source (consumeLine q)) (Mc (consumeLine q))).
  { right; left. pose proof A4 as ((C4 & St4 & _) & _). pose proof (ST_len _ C4 St4) as Hl. unfold Mc. rewrite li_consumeLine by exact C.
    destruct (cstep_consumeLine q) as (_ & (_ & E2 & _) & _). rewrite <- E2. exact Hl. }
  destruct (LOP_endBlock _ K A4 N4 B4 Hbd) as [A5 W5]. specialize (W5 Nk). fold r in A5, W5.
  split; [exact A5|]. split; [exact W5|]. split; [eapply ms_sstep; [apply sstep_endBlock|exact M5]|].
  destruct (curE_facts _ _ (curE_endBlock (consumeLine q))) as (F1 & F2 & _). fold r in F1, F2.
  split; [rewrite F1, F2, li_consumeLine by exact C; destruct (cstep_consumeLine q) as (_ & (_ & E2 & _) & _); rewrite E2; reflexivity|].
  pose proof (wideC_kind r ltac:(apply A5) W5) as [E|[E|E]]; rewrite E; discriminate.
Qed.

Lemma SC_of_li p : li p = len (line p) -> SC p. Proof. intros E _. exact E. Qed.

Lemma sOKL_startATX : startOKL startATX.
Proof.
  intros p Hs H HL H3 HS. unfold startATX. cbv zeta.
  assert (SCp : SC p) by (intros E; destruct Hs as [E'|E']; rewrite E' in E; discriminate).
  assert (Same : LOP p /\ LLI2 p /\ (LLI p \/ ms p) /\ SC p /\ (p = p \/ containerKind p <> ParagraphKind)).
  { destruct (sameL p H HL) as (A & B & C & D). tauto. }
  destruct (_ <=? _); [exact Same|]. destruct (parseATXHeading _) as [[level cs] ce] eqn:Ep. destruct (Z.ltb_spec level 1) as [Ll|Ll]; [exact Same|]. clear Same.
  pose proof H as ((C & _) & _). pose proof (proj1 H3) as Hi.
  destruct (atx_nt _ _ _ _ Ep Ll (LSp_bai p C HS)) as (B1 & B2 & B3 & B4).
  destruct (atx_bounds _ _ _ _ Ep Ll) as (_ & _ & B5).
  destruct (Lopen_fresh p (indent p) ATXHeadingKind Hs H HL ltac:(discriminate) ltac:(discriminate)) as (A & B & St & E & K).
  destruct (consume_ind p C Hi) as (A1 & A2 & A3 & A4 & A5).
  set (q := openBlock (consumeIndent p (indent p)) ATXHeadingKind) in *.
  destruct (curE_facts _ _ E) as (F1 & F2 & _). pose proof (curP_curE _ _ E A4) as Cq.
  destruct (idl_bounds p C) as [I1 I2]. pose proof (len_bai p C) as Lb.
  set (q1 := updCont q (fun b => set_bn b level)).
  assert (A1' : LOP q1) by (apply LOP_field; [exact A|apply keeps_bn|intros s0 M x; apply la_set_bn]).
  assert (Bk1 : ckind q1 ATXHeadingKind) by (apply ckind_updCont; [intros b; apply bkind_set_bn|exact B]).
  assert (Eq1 : li q1 = li p + idl p /\ line q1 = line p /\ curP q1 /\ state q1 = stOpenMatched).
  { split; [cbn [li q1 updCont withRoot setLP]; rewrite F1, A1; reflexivity|]. split; [cbn [line q1 updCont withRoot setLP]; rewrite F2, A2; reflexivity|].
    split; [exact Cq|exact St]. }
  destruct Eq1 as (L1 & Ln1 & C1 & St1).
  set (q2 := advance q1 cs).
  assert (N2 : ntstep q1 q2).
  { apply ntstep_advance; [exact C1|]. rewrite L1. apply (NTl_env p); [exact Ln1|].
    pose proof (NTa_bai p 0 cs C ltac:(lia) B3) as Hn. replace (li p + idl p + 0) with (li p + idl p) in Hn by lia. exact Hn. }
  assert (L2 : li q2 = li p + idl p + cs) by (unfold q2; rewrite li_advance by (try assumption; rewrite ?L1, ?Ln1; lia); lia).
  assert (A2' : LOP q2) by (eapply LOP_ntstep; eassumption).
  assert (Bk2 : ckind q2 ATXHeadingKind) by (eapply ckind_cstep'; [apply N2|exact Bk1]).
  assert (St2 : state q2 = stOpenMatched) by (apply (state_sstep_om q1 q2); [apply sstep_advance|exact St1]).
  destruct (cstep_Mc q1 q2 (proj1 N2) C1) as (C2 & _ & _ & Ln2).
  destruct (LOP_collectInline q2 UnparsedKind (ce - cs) ATXHeadingKind A2' Bk2 eq_refl eq_refl ltac:(discriminate)) as [A3' Bk3].
  set (q3 := collectInline q2 UnparsedKind (ce - cs)) in *.
  assert (St3 : state q3 = stOpenMatched) by (apply (state_sstep_om q2 q3); [apply sstep_collectInline|exact St2]).
  pose proof (line_collectInline q2 UnparsedKind (ce - cs)) as Ln3. fold q3 in Ln3.
  assert (L3 : li p + idl p + ce <= li q3).
  { destruct (Z.eq_dec cs ce) as [Ece|Nce]; [pose proof (collect_li_ge q2 UnparsedKind (ce - cs) C2) as Hge; fold q3 in Hge; lia|].
    unfold q3. rewrite collect_li_exact; try assumption; try lia.
    - rewrite St2. discriminate.
    - rewrite (indent_nonws q2); [lia|]. right. rewrite L2, Ln2, Ln1.
      rewrite <- bai_at by (try assumption; lia). apply B5; lia.
    - rewrite L2, Ln2, Ln1. lia. }
  assert (N3' : NTl q3 (li q3) (len (line q3))).
  { rewrite Ln3, Ln2, Ln1. apply (NTl_env p); [congruence|]. intros i Hi'.
    pose proof (NTa_bai p ce (len (bytesAfterIndent p)) C ltac:(lia) B4) as Hn. apply Hn. lia. }
  destruct (finish_end q3 ATXHeadingKind A3' Bk3 ltac:(discriminate) St3 N3') as (R1 & R2 & R3 & R4 & R5).
  split; [exact R1|]. split; [left; apply wideC_LLI, R2|]. split; [left; apply wideC_LLI, R2|]. split; [apply SC_of_li, R4|right; exact R5].
Qed.

Lemma sOKL_startFenced : startOKL startFenced.
Proof.
  intros p Hs H HL H3 HS. unfold startFenced. cbv zeta.
  assert (SCp : SC p) by (intros E; destruct Hs as [E'|E']; rewrite E' in E; discriminate).
  assert (Same : LOP p /\ LLI2 p /\ (LLI p \/ ms p) /\ SC p /\ (p = p \/ containerKind p <> ParagraphKind)).
  { destruct (sameL p H HL) as (A & B & C & D). tauto. }
  destruct (_ <=? _); [exact Same|]. destruct (parseCodeFence _) as [[[fc fnn] is_] ie] eqn:Ef.
  destruct (Z.eqb_spec fnn 0) as [E0|N0]; [exact Same|]. clear Same.
  pose proof H as ((C & _) & _). pose proof (proj1 H3) as Hi.
  assert (Hn : 0 < fnn).
  { destruct (Z.lt_ge_cases 0 fnn) as [L|L]; [exact L|]. exfalso. pose proof (parseCodeFence_none _ _ _ _ _ Ef ltac:(lia)) as Hn. inversion Hn. contradiction. }
  destruct (fence_nt _ _ _ _ _ Ef Hn) as [F1 F2].
  destruct (Lopen_fresh p (indent p) FencedCodeBlockKind Hs H HL ltac:(discriminate) ltac:(discriminate)) as (A & B & St & E & K).
  destruct (consume_ind p C Hi) as (A1 & A2 & A3 & A4 & A5).
  set (q := openBlock (consumeIndent p (indent p)) FencedCodeBlockKind) in *.
  destruct (curE_facts _ _ E) as (G1 & G2 & _). pose proof (curP_curE _ _ E A4) as Cq.
  destruct (idl_bounds p C) as [I1 I2]. pose proof (len_bai p C) as Lb.
  set (q1 := updCont q (fun b => set_bn (set_bchar b fc) fnn)).
  assert (A1' : LOP q1) by (apply LOP_field; [exact A|apply keeps_fence|intros s0 M x Hx; apply la_set_bn, la_set_bchar, Hx]).
  assert (B1 : ckind q1 FencedCodeBlockKind) by (apply ckind_updCont; [intros b; destruct b; reflexivity|exact B]).
  set (q2 := updCont q1 (fun b => set_bindent b (indent p))).
  assert (A2' : LOP q2) by (apply LOP_field; [exact A1'|apply keeps_bindent|intros s0 M x; apply la_set_bindent]).
  assert (B2 : ckind q2 FencedCodeBlockKind) by (apply ckind_updCont; [intros b; apply bkind_set_bindent|exact B1]).
  assert (Eq2 : li q2 = li p + idl p /\ line q2 = line p /\ curP q2 /\ state q2 = stOpenMatched).
  { split; [cbn [li q2 q1 updCont withRoot setLP]; rewrite G1, A1; reflexivity|]. split; [cbn [line q2 q1 updCont withRoot setLP]; rewrite G2, A2; reflexivity|].
    split; [exact Cq|exact St]. }
  destruct Eq2 as (L2 & Ln2 & C2 & St2).
  set (q3 := if spanValid (is_, ie) then collectInline (advance q2 is_) InfoStringKind (ie - is_) else q2).
  assert (H3' : LOP q3 /\ ckind q3 FencedCodeBlockKind /\ state q3 = stOpenMatched /\ line q3 = line p /\ curP q3 /\ NTl q3 (li q3) (len (line q3))).
  { unfold q3. destruct (spanValid (is_, ie)) eqn:Ev.
    - apply spanValid_iff in Ev. destruct (F2 ltac:(lia)) as (V1 & V2 & V3 & V4 & V5).
      destruct (parseCodeFence_bounds _ _ _ _ _ Ef Hn ltac:(lia)) as (_ & W2 & _ & W4).
      set (qa := advance q2 is_).
      assert (Na : ntstep q2 qa).
      { apply ntstep_advance; [exact C2|]. rewrite L2. apply (NTl_env p); [exact Ln2|].
        pose proof (NTa_bai p 0 is_ C ltac:(lia) V4) as Hn'. replace (li p + idl p + 0) with (li p + idl p) in Hn' by lia. exact Hn'. }
      assert (La : li qa = li p + idl p + is_) by (unfold qa; rewrite li_advance by (try assumption; rewrite ?L2, ?Ln2; lia); lia).
      assert (Aa : LOP qa) by (eapply LOP_ntstep; eassumption).
      assert (Ba : ckind qa FencedCodeBlockKind) by (eapply ckind_cstep'; [apply Na|exact B2]).
      assert (Sa : state qa = stOpenMatched) by (apply (state_sstep_om q2 qa); [apply sstep_advance|exact St2]).
      destruct (cstep_Mc q2 qa (proj1 Na) C2) as (Ca & _ & _ & Lna).
      destruct (LOP_collectInline qa InfoStringKind (ie - is_) FencedCodeBlockKind Aa Ba eq_refl eq_refl ltac:(discriminate)) as [P1 P2].
      pose proof (line_collectInline qa InfoStringKind (ie - is_)) as Lnc.
      assert (Lc : li (collectInline qa InfoStringKind (ie - is_)) = li p + idl p + ie).
      { rewrite collect_li_exact; try assumption; try lia.
        - rewrite Sa. discriminate.
        - rewrite (indent_nonws qa); [lia|]. right. rewrite La, Lna, Ln2. rewrite <- bai_at by (try assumption; lia).
          unfold isSpaceTabOrLineEnding in W4. unfold isSpTab. apply orb_false_iff in W4. destruct W4 as [W4 _]. apply orb_false_iff in W4. destruct W4 as [W4 _]. exact W4.
        - rewrite La, Lna, Ln2. lia. }
      split; [exact P1|]. split; [exact P2|]. split; [apply (state_sstep_om qa _); [apply sstep_collectInline|exact Sa]|].
      split; [congruence|]. split; [apply curP_collectInline, Ca|]. rewrite Lc, Lnc, Lna, Ln2. apply (NTl_env p); [congruence|].
      intros i Hi'. pose proof (NTa_bai p ie (len (bytesAfterIndent p)) C ltac:(lia) V5) as Hn'. apply Hn'. lia.
    - split; [exact A2'|]. split; [exact B2|]. split; [exact St2|]. split; [exact Ln2|]. split; [exact C2|].
      assert (His : is_ < 0).
      { destruct (Z.lt_ge_cases is_ 0) as [L|L]; [exact L|]. exfalso. destruct (F2 L) as (G1' & G2' & G3' & _).
        assert (Hv : spanValid (is_, ie) = true) by (apply spanValid_iff; lia). congruence. }
      rewrite L2, Ln2. apply (NTl_env p); [exact Ln2|].
      pose proof (NTa_bai p 0 _ C ltac:(lia) (F1 His)) as Hn'. rewrite Lb in Hn'.
      intros i Hi'. apply Hn'. lia. }
  destruct H3' as (A3' & B3 & St3 & Ln3 & C3 & N3').
  pose proof (ntstep_consumeLine q3 C3 N3') as N4.
  assert (A4' : LOP (consumeLine q3)) by (eapply LOP_ntstep; eassumption).
  assert (B4 : ckind (consumeLine q3) FencedCodeBlockKind) by (eapply ckind_cstep'; [apply N4|exact B3]).
  destruct (ms_consumeLine q3 (ms_nd _ (or_introl St3))) as [M4 _].
  split; [exact A4'|]. split; [eapply LLI2_of_ckind; [apply A4'|exact B4|reflexivity|discriminate]|]. split; [right; exact M4|].
  split; [apply SC_of_li; rewrite li_consumeLine by exact C3; destruct (cstep_consumeLine q3) as (_ & (_ & E2 & _) & _); rewrite E2; reflexivity|].
  right. rewrite (containerKind_of _ FencedCodeBlockKind); [discriminate|apply A4'|exact B4].
Qed.

Lemma sOKL_startThematic : startOKL startThematic.
Proof.
  intros p Hs H HL H3 HS. unfold startThematic. cbv zeta.
  assert (SCp : SC p) by (intros E; destruct Hs as [E'|E']; rewrite E' in E; discriminate).
  assert (Same : LOP p /\ LLI2 p /\ (LLI p \/ ms p) /\ SC p /\ (p = p \/ containerKind p <> ParagraphKind)).
  { destruct (sameL p H HL) as (A & B & C & D). tauto. }
  destruct (_ <=? _); [exact Same|]. destruct (Z.ltb_spec (parseThematicBreak (bytesAfterIndent p)) 0) as [L|L]; [exact Same|]. clear Same.
  pose proof H as ((C & _) & _). pose proof (proj1 H3) as Hi.
  pose proof (thematic_all _ L) as Hall. pose proof (parseThematicBreak_le (bytesAfterIndent p)) as Hle.
  destruct (Lopen_fresh p (indent p) ThematicBreakKind Hs H HL ltac:(discriminate) ltac:(discriminate)) as (A & B & St & E & K).
  destruct (consume_ind p C Hi) as (A1 & A2 & A3 & A4 & A5).
  set (q := openBlock (consumeIndent p (indent p)) ThematicBreakKind) in *.
  destruct (curE_facts _ _ E) as (G1 & G2 & _). pose proof (curP_curE _ _ E A4) as Cq.
  destruct (idl_bounds p C) as [I1 I2]. pose proof (len_bai p C) as Lb.
  assert (Lq : li q = li p + idl p) by (rewrite G1, A1; reflexivity). assert (Lnq : line q = line p) by (rewrite G2, A2; reflexivity).
  assert (Hrest : NTl p (li p + idl p) (len (line p))).
  { pose proof (NTa_bai p 0 _ C ltac:(lia) Hall) as Hn'. rewrite Lb in Hn'. intros i Hi'. apply Hn'. lia. }
  set (q2 := advance q (parseThematicBreak (bytesAfterIndent p))).
  assert (N2 : ntstep q q2).
  { apply ntstep_advance; [exact Cq|]. rewrite Lq. apply (NTl_env p); [exact Lnq|]. intros i Hi'. apply Hrest. lia. }
  assert (A2' : LOP q2) by (eapply LOP_ntstep; eassumption).
  assert (B2 : ckind q2 ThematicBreakKind) by (eapply ckind_cstep'; [apply N2|exact B]).
  assert (St2 : state q2 = stOpenMatched) by (apply (state_sstep_om q q2); [apply sstep_advance|exact St]).
  destruct (cstep_Mc q q2 (proj1 N2) Cq) as (C2 & Hm & _ & Ln2). unfold Mc in Hm.
  assert (N3' : NTl q2 (li q2) (len (line q2))).
  { rewrite Ln2, Lnq. apply (NTl_env p); [congruence|]. intros i Hi'. apply Hrest.
    destruct (cstep_Mc q q2 (proj1 N2) Cq) as (_ & _ & E4 & _). lia. }
  destruct (finish_end q2 ThematicBreakKind A2' B2 ltac:(discriminate) St2 N3') as (R1 & R2 & R3 & R4 & R5).
  split; [exact R1|]. split; [left; apply wideC_LLI, R2|]. split; [left; apply wideC_LLI, R2|]. split; [apply SC_of_li, R4|right; exact R5].
Qed.

Lemma sOKL_startIndented : startOKL startIndented.
Proof.
  intros p Hs H HL H3 HS. unfold startIndented.
  assert (SCp : SC p) by (intros E; destruct Hs as [E'|E']; rewrite E' in E; discriminate).
  assert (Same : LOP p /\ LLI2 p /\ (LLI p \/ ms p) /\ SC p /\ (p = p \/ containerKind p <> ParagraphKind)).
  { destruct (sameL p H HL) as (A & B & C & D). tauto. }
  destruct (_ || _ || _); [exact Same|]. clear Same.
  destruct (Lopen_fresh p codeBlockIndentLimit IndentedCodeBlockKind Hs H HL ltac:(discriminate) ltac:(discriminate)) as (A & B & St & E & K).
  split; [exact A|]. split; [eapply LLI2_of_ckind; [apply A|exact B|reflexivity|discriminate]|]. split; [right; left; exact St|].
  split; [apply SC_of_state, St|right; rewrite K; discriminate].
Qed.

Lemma sOKL_startHTML : startOKL startHTML.
Proof.
  intros p Hs H HL H3 HS. unfold startHTML. cbv zeta.
  assert (SCp : SC p) by (intros E; destruct Hs as [E'|E']; rewrite E' in E; discriminate).
  assert (Same : LOP p /\ LLI2 p /\ (LLI p \/ ms p) /\ SC p /\ (p = p \/ containerKind p <> ParagraphKind)).
  { destruct (sameL p H HL) as (A & B & C & D). tauto. }
  destruct (_ <=? _); [exact Same|]. destruct (negb _); [exact Same|]. destruct (_ <? 0); [exact Same|]. destruct (negb _ && _); [exact Same|]. clear Same.
  set (i := firstHtmlCond 0 7 (bytesAfterIndent p)).
  pose proof H as ((C & _) & _). pose proof (proj1 H3) as Hi.
  assert (A : LOP (openBlock p HTMLBlockKind)) by (apply LOP_openBlock; [exact H|discriminate|exact HL|discriminate]).
  pose proof (ckind_openBlock p HTMLBlockKind Hs) as B. pose proof (state_openBlock p HTMLBlockKind Hs) as St.
  pose proof (curE_openBlock p HTMLBlockKind) as E.
  set (q := openBlock p HTMLBlockKind) in *.
  set (q1 := updCont q (fun b => set_bn b i)).
  assert (A1 : LOP q1) by (apply LOP_field; [exact A|apply keeps_bn|intros s0 M x; apply la_set_bn]).
  assert (B1 : ckind q1 HTMLBlockKind) by (apply ckind_updCont; [intros b; apply bkind_set_bn|exact B]).
  assert (E1 : curE p q1) by (eapply curE_trans; [exact E|apply curE_updCont]).
  assert (St1 : state q1 = stOpenMatched) by exact St.
  pose proof (curP_curE _ _ E1 C) as C1. pose proof (Itab_curE _ _ E1 Hi) as Hi1.
  destruct (htmlEnd _ _).
  - destruct (LOP_collectInline q1 RawHTMLKind (len (bytesAfterIndent q1)) HTMLBlockKind A1 B1 eq_refl eq_refl ltac:(discriminate)) as [A3 B3].
    pose proof (collect_to_end q1 RawHTMLKind C1 Hi1 ltac:(rewrite St1; discriminate)) as Hend.
    set (q3 := collectInline q1 RawHTMLKind (len (bytesAfterIndent q1))) in *.
    assert (St3 : state q3 = stOpenMatched) by (apply (state_sstep_om q1 q3); [apply sstep_collectInline|exact St1]).
    pose proof (line_collectInline q1 RawHTMLKind (len (bytesAfterIndent q1))) as Ln3. fold q3 in Ln3.
    assert (N3' : NTl q3 (li q3) (len (line q3))) by (intros j Hj; rewrite Hend, Ln3 in Hj; lia).
    destruct (finish_end q3 HTMLBlockKind A3 B3 ltac:(discriminate) St3 N3') as (R1 & R2 & R3 & R4 & R5).
    split; [exact R1|]. split; [left; apply wideC_LLI, R2|]. split; [left; apply wideC_LLI, R2|]. split; [apply SC_of_li, R4|right; exact R5].
  - split; [exact A1|]. split; [eapply LLI2_of_ckind; [apply A1|exact B1|reflexivity|discriminate]|]. split; [right; left; exact St1|].
    split; [apply SC_of_state, St1|right]. rewrite (containerKind_of _ HTMLBlockKind); [discriminate|apply A1|exact B1].
Qed.
