(* ChkA.v -- T30, part A (renderer side): a structural predicate on the final tree that implies the side condition chkB.
   The only context-sensitive leaf is the last RawHTML entry of an HTML block that lies on the right spine of a root block
   (an HTML block whose last line has no line ending: what follows it in the output is a closing tag of the renderer, the
   two line feeds between root blocks, or nothing). *)
From Coq Require Import List ZArith Lia Bool.
Import ListNotations.
Require Import Base Tables Utf8 Tree Recog Inl3b Driver Inl3e Render Safe MainTok C17bytes C17chk C17tags C17local ShapesBase.
Open Scope Z_scope.

(* ---- bytes that end a span safely ---- *)
Definition okLast (c : Z) : bool := negb (nameCh c) && negb (c =? 60).
Definition sepByte (c : Z) : bool := (c =? 10) || (c =? 13) || (c =? 239) || (c =? 191) || (c =? 189).
Lemma sepByte_okLast c : sepByte c = true -> okLast c = true.
Proof.
  unfold sepByte. intros H. repeat (apply orb_true_iff in H; destruct H as [H|H]); apply Z.eqb_eq in H; subst c; reflexivity.
Qed.
Lemma sepByte_nonzero c : sepByte c = true -> c <> 0.
Proof. intros H E. subst c. discriminate. Qed.

Fixpoint endsOKb (s : bytes) : bool :=
  match s with [] => true | [x] => okLast x | _ :: r => endsOKb r end.

Lemma endsOK_notall : forall r, r <> [] -> endsOKb r = true -> forallb nameCh r = false.
Proof.
  induction r as [|x r IH]; intros Hn H; [congruence|]. destruct r as [|y r].
  - cbn [endsOKb] in H. unfold okLast in H. apply andb_true_iff in H. destruct H as [H _]. apply negb_true_iff in H.
    cbn [forallb]. rewrite H. reflexivity.
  - change (forallb nameCh (x :: y :: r)) with (nameCh x && forallb nameCh (y :: r)).
    rewrite (IH ltac:(discriminate) H). apply andb_false_r.
Qed.
Lemma endsOK_joinOK : forall s t, endsOKb s = true -> joinOK s t = true.
Proof.
  induction s as [|x r IH]; intros t H; [reflexivity|]. destruct r as [|y r].
  - cbn [endsOKb] in H. unfold okLast in H. apply andb_true_iff in H. destruct H as [_ H]. apply negb_true_iff in H.
    cbn [joinOK]. rewrite H. reflexivity.
  - change (endsOKb (x :: y :: r)) with (endsOKb (y :: r)) in H.
    change (joinOK (x :: y :: r) t) with ((if x =? 60 then nameStable (y :: r) t else true) && joinOK (y :: r) t).
    rewrite (IH t H), andb_true_r.
    destruct (x =? 60); [|reflexivity]. unfold nameStable.
    rewrite (endsOK_notall (y :: r) ltac:(discriminate) H). rewrite andb_false_r. reflexivity.
Qed.
Lemma endsOK_closedRaw s : endsOKb s = true -> closedRaw s = true.
Proof. intros H. apply endsOK_joinOK, H. Qed.

Lemma endsOKb_last : forall s, s <> [] -> endsOKb s = okLast (at_ s (len s - 1)).
Proof.
  induction s as [|x r IH]; intros Hn; [congruence|]. destruct r as [|y r]; [reflexivity|].
  change (endsOKb (x :: y :: r)) with (endsOKb (y :: r)). rewrite (IH ltac:(discriminate)).
  rewrite (at_S' x (y :: r) (len (x :: y :: r) - 1)).
  - rewrite (len_cons x). f_equal. f_equal. lia.
  - rewrite !len_cons. pose proof (len_nonneg r). lia.
Qed.

(* a span of the source whose last byte is safe *)
Lemma span_endsOK src s e : 0 <= s -> okLast (at_ src (e - 1)) = true -> at_ src (e - 1) <> 0 -> endsOKb (sub src s e) = true.
Proof.
  intros Hs Hok Hnz. destruct (Z.le_gt_cases e s) as [L|L].
  - unfold sub, upto. replace (Z.to_nat (e - s)) with O by lia. reflexivity.
  - pose proof (at_nonzero_lt src (e - 1) Hnz) as Hr.
    assert (Hl : len (sub src s e) = e - s) by (apply len_sub_in; lia).
    rewrite endsOKb_last.
    + rewrite Hl, at_sub by lia. replace (s + (e - s - 1)) with (e - 1) by lia. exact Hok.
    + intros E. rewrite E in Hl. cbn in Hl. lia.
Qed.

(* joinOK against an output that does not start with a name byte *)
Lemma joinOK_nonname : forall s t, startsNameCh t = false -> joinOK s t = true.
Proof.
  induction s as [|x r IH]; intros t Ht; [reflexivity|]. cbn [joinOK]. rewrite (IH t Ht), andb_true_r.
  destruct (x =? 60); [|reflexivity]. unfold nameStable. destruct r as [|a r].
  - destruct t as [|y t]; [reflexivity|]. cbn [startsLetter startsNameCh] in *. unfold nameCh in Ht.
    destruct (isASCIILetter y); [discriminate|reflexivity].
  - rewrite Ht, andb_false_r. reflexivity.
Qed.

(* ---- the leaf conditions, semantically ---- *)
Section R.
  Variable c : cfg.
  Variable refs : list (bytes * linkDef).
  Variable src : bytes.

  Definition iSafe (i : inline) : Prop := forall fuel t, chkI fuel c refs src i t = true.
  Definition iSafeW (i : inline) : Prop := forall fuel t, startsNameCh t = false -> chkI fuel c refs src i t = true.

  Lemma iSafe_W i : iSafe i -> iSafeW i. Proof. intros H fuel t _. apply H. Qed.
  Lemma iClosed_iSafe i : iClosed (ignoreRaw c) src i = true -> iSafe i.
  Proof. intros H fuel t. apply chkI_local. exact H. Qed.
  Lemma iClosed_false_iSafe i : iClosed false src i = true -> iSafe i.
  Proof.
    intros H. apply iClosed_iSafe. revert i H. fix IH 1. intros [k s e ind r ks] H. cbn [iClosed] in *.
    apply andb_true_iff in H. destruct H as [H H4]. apply andb_true_iff in H. destruct H as [H H3]. rewrite H. cbn [andb].
    apply andb_true_iff. split.
    - destruct (k =? RawHTMLKind); [|reflexivity]. cbn [orb] in H3. rewrite H3. apply orb_true_r.
    - induction ks as [|x l IHl]; [reflexivity|]. cbn [forallb] in *. apply andb_true_iff in H4. destruct H4 as [Hx Hl].
      rewrite (IH x Hx). apply IHl. exact Hl.
  Qed.
  Lemma raw_iSafeW i : ikind i = RawHTMLKind -> iSafeW i.
  Proof.
    intros Hk fuel t Ht. destruct fuel as [|f]; [reflexivity|]. cbn [chkI]. cbv zeta. rewrite Hk.
    change ((RawHTMLKind =? TextKind) || (RawHTMLKind =? UnparsedKind)) with false.
    change (RawHTMLKind =? CharacterReferenceKind) with false. change (RawHTMLKind =? RawHTMLKind) with true. cbv iota.
    destruct (ignoreRaw c); [reflexivity|]. apply joinOK_nonname, Ht.
  Qed.
  Lemma kind_iSafe i : (ikind i =? TextKind) || (ikind i =? UnparsedKind) || (ikind i =? IndentKind) || (ikind i =? InfoStringKind) = true -> iSafe i.
  Proof.
    intros Hk fuel t. destruct fuel as [|f]; [reflexivity|]. cbn [chkI]. cbv zeta.
    apply orb_true_iff in Hk. destruct Hk as [Hk|Hk].
    - apply orb_true_iff in Hk. destruct Hk as [Hk|Hk].
      + rewrite Hk. reflexivity.
      + apply Z.eqb_eq in Hk. rewrite Hk. reflexivity.
    - apply Z.eqb_eq in Hk. rewrite Hk. reflexivity.
  Qed.

  (* ---- entries of a block: all but the last are safe against any output; the last one may be exempted ---- *)
  Fixpoint entsF (w : bool) (ik : list inline) : Prop :=
    match ik with
    | [] => True
    | [u] => if w then iSafeW u else iSafe u
    | u :: r => iSafe u /\ entsF w r
    end.
  Lemma entsF_all ik w : (forall u, In u ik -> iSafe u) -> entsF w ik.
  Proof.
    induction ik as [|u r IH]; intros H; [exact I|]. destruct r as [|v r].
    - cbn [entsF]. destruct w; [apply iSafe_W|]; apply H; left; reflexivity.
    - split; [apply H; left; reflexivity|apply IH; intros x Hx; apply H; right; exact Hx].
  Qed.

  (* rendered kinds *)
  Definition rendK (K : Z) : bool :=
    (K =? ParagraphKind) || isHeading K || isCode K || (K =? BlockQuoteKind) || (K =? ListKind) || (K =? ListItemKind) || (K =? HTMLBlockKind).

  Fixpoint FB (x : bool) (b : block) : Prop :=
    match b with Blk K _ _ bk ik _ _ _ _ _ =>
      (rendK K = true -> entsF (x && (K =? HTMLBlockKind)) ik) /\
      (fix fl (l : list block) : Prop :=
         match l with [] => True | [k] => FB x k | k :: r => FB false k /\ fl r end) bk
    end.
  Fixpoint FL (x : bool) (l : list block) : Prop :=
    match l with [] => True | [k] => FB x k | k :: r => FB false k /\ FL x r end.
  Lemma FB_eq x b : FB x b <-> ((rendK (bkind b) = true -> entsF (x && (bkind b =? HTMLBlockKind)) (bik b)) /\ FL x (bkids b)).
  Proof.
    destruct b as [K s e bk ik a n ch l lb]. cbn [FB bkind bik bkids].
    assert (E : forall l0, (fix fl (l : list block) : Prop := match l with [] => True | [k] => FB x k | k :: r => FB false k /\ fl r end) l0 <-> FL x l0).
    { induction l0 as [|k r IH]; [tauto|]. destruct r as [|k2 r]; [tauto|]. cbn [FL]. rewrite <- IH. tauto. }
    rewrite E. tauto.
  Qed.

  Lemma chkL_ents (g : inline -> bytes) w ik t : entsF w ik -> (w = true -> startsNameCh t = false) ->
    chkL g (fun i => chkI (isize i) c refs src i) ik t = true.
  Proof.
    revert t. induction ik as [|u r IH]; intros t H Hw; [reflexivity|]. cbn [chkL]. destruct r as [|v r].
    - cbn [flat_map app chkL]. rewrite andb_true_r. cbn [entsF] in H. destruct w; [apply H, Hw; reflexivity|apply H].
    - destruct H as [H1 H2]. rewrite H1. cbn [andb]. apply IH; assumption.
  Qed.

  Lemma closeTag_nonname n t : startsNameCh (closeTag c n ++ t) = false.
  Proof. unfold closeTag. destruct (reject c (47 :: n)); reflexivity. Qed.

  Lemma chkB_FB : forall fuel x pt b t, FB x b -> (x = true -> startsNameCh t = false) -> chkB fuel c refs src pt b t = true.
  Proof.
    induction fuel as [|f IH]; intros x pt b t H Hx; [reflexivity|]. cbn [chkB]. cbv zeta.
    apply FB_eq in H. destruct H as [HI HK].
    assert (HkB : forall pt' t', (x = true -> startsNameCh t' = false) ->
              chkL (renderB f c refs src pt') (chkB f c refs src pt') (bkids b) t' = true).
    { intros pt' t' Ht'. clear HI. revert HK. generalize (bkids b). induction l as [|k r IHr]; intros HK; [reflexivity|].
      cbn [chkL]. destruct r as [|k2 r].
      - cbn [flat_map app chkL]. rewrite andb_true_r. apply (IH x); [exact HK|exact Ht'].
      - destruct HK as [H1 H2]. rewrite (IH false pt' k _ H1 ltac:(discriminate)). cbn [andb]. apply IHr. exact H2. }
    assert (Hk : rendK (bkind b) = true -> forall t', (x = true -> startsNameCh t' = false) ->
      (match bkids b with
       | [] => chkL (fun i => renderI (isize i) c refs src i) (fun i => chkI (isize i) c refs src i) (bik b)
       | _ :: _ => chkL (renderB f c refs src (isTightList b)) (chkB f c refs src (isTightList b)) (bkids b) end) t' = true).
    { intros Hr t' Ht'. destruct (bkids b) as [|b0 bs] eqn:E.
      - apply (chkL_ents _ (x && (bkind b =? HTMLBlockKind))); [apply HI, Hr|].
        intros Hw. apply andb_true_iff in Hw. apply Ht', Hw.
      - apply HkB, Ht'. }
    unfold rendK in Hk.
    destruct (bkind b =? ParagraphKind) eqn:E1.
    { destruct pt; apply Hk; try reflexivity; [exact Hx|intros _; apply closeTag_nonname]. }
    destruct (bkind b =? ThematicBreakKind); [reflexivity|].
    destruct (isHeading (bkind b)) eqn:E2; [apply Hk; [reflexivity|intros _; apply closeTag_nonname]|].
    destruct (isCode (bkind b)) eqn:E3; [apply Hk; [reflexivity|intros _; apply closeTag_nonname]|].
    destruct (bkind b =? BlockQuoteKind) eqn:E4; [apply Hk; [reflexivity|intros _; apply closeTag_nonname]|].
    destruct (bkind b =? ListKind) eqn:E5; [destruct (isOrdered b); apply Hk; try reflexivity; intros _; apply closeTag_nonname|].
    destruct (bkind b =? ListItemKind) eqn:E6; [apply Hk; [reflexivity|intros _; apply closeTag_nonname]|].
    destruct (bkind b =? HTMLBlockKind) eqn:E7; [|reflexivity].
    destruct (ignoreRaw c); [reflexivity|]. apply Hk; [reflexivity|exact Hx].
  Qed.
End R.

(* ---- whole documents ---- *)
Lemma chkJoin_FB c refs : forall roots : list rootB,
  (forall r, In r roots -> FB c refs (rb_src r) true (rb_blk r)) -> chkRoots c refs roots = true.
Proof.
  unfold chkRoots. induction roots as [|r rest IH]; intros H; [reflexivity|]. cbn [chkJoin]. destruct rest as [|r2 rest].
  - apply (chkB_FB c refs (rb_src r) _ true); [apply H; left; reflexivity|reflexivity].
  - rewrite (chkB_FB c refs (rb_src r) _ true); [|apply H; left; reflexivity|reflexivity]. cbn [andb].
    apply IH. intros x Hx. apply H. right. exact Hx.
Qed.
