From Coq Require Import List ZArith Lia Bool.
Import ListNotations.
Require Import Base Tree Rdr Link Collect Html Recog Inl3e Driver Props SpanHypDef.
Open Scope Z_scope.

(* Definitions only (needed by the extracted driver): the entry conditions bikOK' of InlineShapes.parseInlines_shapes, copied
   verbatim; ShapeHyp.v proves that the copies are the definitions the theorem speaks about and lifts the theorem to whole
   root blocks. *)

Fixpoint spOKX (src : bytes) (sp : list inline) : bool :=
  match sp with
  | [] => true
  | i :: r =>
    (0 <=? istart i) && (istart i <? iend i) && (iend i <=? len src) &&
    forallb (fun j => (iend i <=? istart j) && negb (at_ src (istart j - 1) =? 96)) r &&
    (if ikind i =? IndentKind then forallb isSpTab (sub src (istart i) (iend i))
     else match r with [] => true | _ => negb (at_ src (iend i - 1) =? 96) end) &&
    spOKX src r
  end.
Fixpoint ibudgetX (sp : list inline) : Z :=
  match sp with [] => 0 | i :: r => (if ikind i =? IndentKind then Z.max 0 (iindent i) else 0) + ibudgetX r end.
Fixpoint noCSIX (i : inline) : bool :=
  match i with Inl k _ _ _ _ ks => negb (k =? CodeSpanKind) && forallb noCSIX ks end.
Definition nilbX {A} (l : list A) : bool := match l with [] => true | _ => false end.
Definition eokX (u : inline) : bool :=
  ((ikind u =? UnparsedKind) || (ikind u =? RawHTMLKind) || (ikind u =? IndentKind)) && nilbX (ikids u).
Definition isEolX (c : Z) : bool := (c =? 10) || (c =? 13).
Fixpoint linesOKS (src : bytes) (sp : list inline) : bool :=
  match sp with
  | [] => true
  | i :: r =>
    (if ikind i =? IndentKind then true
     else
       let t := sub src (istart i) (iend i) in
       forallb (fun c => negb (isEolX c)) (trimEOLr t) && (match r with [] => true | _ => len (trimEOLr t) <? len t end)) && linesOKS src r
  end.
Definition bikOKX (src : bytes) (b : block) : bool :=
  spOKX src (bik b) && (ibudgetX (bik b) <=? len src + 9) && forallb noCSIX (bik b).
Definition bikOKX' (src : bytes) (b : block) : bool := bikOKX src b && forallb eokX (bik b) && linesOKS src (bik b).

(* the one legitimate entry list that bikOK rejects: the single empty entry of an ATX heading without content, on which the
   inline parser returns the empty forest (EntDefs.parseInlines_emptyOne) *)
Definition emptyOneX (ik : list inline) : bool :=
  match ik with
  | [u] => (ikind u =? UnparsedKind) && (istart u =? iend u) && match ikids u with [] => true | _ => false end
  | _ => false
  end.

Fixpoint shapeHypB (fuel : nat) (src : bytes) (b : block) : bool :=
  match fuel with
  | O => true
  | S f => if isLeafU b then bikOKX' src b || emptyOneX (bik b) else forallb (shapeHypB f src) (bkids b)
  end.
Definition shapeHypRoots (roots : list rootB) : bool :=
  forallb (fun r => shapeHypB (bheight (rb_blk r)) (rb_src r) (rb_blk r)) roots.

(* the conclusion on a root block after Rewrite: every inline node of every rewritten leaf has a valid span and the shape of
   its construct (Props.shapesI) *)
Fixpoint shapesAfter (fuel : nat) (src : bytes) (matcher : list bytes) (b : block) : bool :=
  match fuel with
  | O => true
  | S f =>
    if isLeafU b then forallb (shapesI src) (bik (rewriteB (S f) src matcher b))
    else forallb (shapesAfter f src matcher) (bkids b)
  end.
