From Coq Require Import List ZArith Lia Bool.
Import ListNotations.
Require Import Base Tables Utf8 Tree Rdr Link Collect Html Recog Props.
Require Import Inl3a Inl3b Inl3c Inl3d Inl3e Leaf3e ShapesBase ShapesR ShapesA IS2 IS5a IS8b BndDefs BndRdr BndScan.
Open Scope Z_scope.

(* ================================================================== *)
(* BndLink: parseInlineLink and collectCodeSpan cut at good positions. *)
(* ================================================================== *)
Section LK.
  Variable src : bytes.
  Hypothesis HV : asciiOK src.
  Hypothesis HV0 : boundary_ok src 0 = true.
  Notation bok := (boundary_ok src).
  Notation QR := (QR src).

  Lemma QR_newReader sp pos : spOK src sp = true -> GS src sp -> bok pos = true -> QR (newReader src sp pos).
  Proof. intros A B C. split; [split; [reflexivity|exact A]|]. split; [exact B|right; exact C]. Qed.
  Lemma MB_newReader sp pos F : len src - pos + ibudget sp < F -> MB src F (newReader src sp pos).
  Proof. intros H _. pose proof (mu_le_start src (newReader src sp pos) ltac:(cbn; lia)) as Hm. cbn [newReader r_pos r_spans] in Hm. lia. Qed.

  Lemma QR_skipLinkSpace_loop' : forall fuel r, QR r -> QR (snd (skipLinkSpace_loop fuel r)).
  Proof.
    induction fuel as [|f IH]; intros r HQ; [exact HQ|]. cbn [skipLinkSpace_loop].
    pose proof (QR_current src r HQ) as HQ1. destruct (current r) as [c r1]. cbn [snd] in *.
    destruct (isSpaceTabOrLineEnding c); [|exact HQ1].
    pose proof (QR_next src HV r1 HQ1) as HQ2. destruct (next r1) as [ok r2]. cbn [snd] in *. destruct ok; [apply IH, HQ2|exact HQ2].
  Qed.
  Lemma QR_skipLinkSpace' fuel r : QR r -> QR (snd (skipLinkSpace fuel r)).
  Proof.
    intros HQ. unfold skipLinkSpace. pose proof (QR_current src r HQ) as HQ1. destruct (current r) as [c r1]. cbn [snd] in *.
    destruct (c =? 0); [exact HQ1|apply QR_skipLinkSpace_loop', HQ1].
  Qed.

  Definition partsGood (sp tx : Z * Z) : Prop :=
    spanValid sp = true -> bok (fst sp) = true /\ bok (snd sp) = true /\ bok (fst tx) = true /\ bok (snd tx) = true.

  Lemma parseInlineLink_good fuel st start ispan dspan dtext tspan ttext :
    isrc st = src -> spOK src (unpFrom st) = true -> GS src (unpFrom st) -> bok (start + 1) = true ->
    len src - (start + 1) + ibudget (unpFrom st) < Z.of_nat fuel ->
    parseInlineLink fuel st start = (ispan, (dspan, dtext), (tspan, ttext)) -> spanValid ispan = true ->
    partsGood dspan dtext /\ partsGood tspan ttext.
  Proof.
    intros Es Hok Hgs Hb Hf H Hv. unfold parseInlineLink in H. rewrite Es in H.
    pose proof (QR_newReader (unpFrom st) (start + 1) Hok Hgs Hb) as HQ0.
    pose proof (MB_newReader (unpFrom st) (start + 1) (Z.of_nat fuel) Hf) as HM0.
    destruct (QR_skipLinkSpace src HV (Z.of_nat fuel) fuel _ HQ0 HM0 Hb) as (HQ1 & HM1 & Hb1).
    destruct (skipLinkSpace fuel (newReader src (unpFrom st) (start + 1))) as [ok r1]. cbn [snd] in *.
    destruct (negb ok); [inversion H; subst; discriminate|].
    pose proof (parseLinkDestination_good src HV fuel r1 (Z.of_nat fuel) HQ1 HM1 ltac:(lia) Hb1) as HD.
    destruct (parseLinkDestination fuel r1) as [[ds dt] r2]. destruct HD as [HQ2 HD]. cbn [fst snd] in *.
    assert (HQ3 : QR (snd (if spanValid ds then skipLinkSpace fuel r2 else (true, r2)))).
    { destruct (spanValid ds); [apply QR_skipLinkSpace', HQ2|exact HQ2]. }
    destruct (if spanValid ds then skipLinkSpace fuel r2 else (true, r2)) as [ok2 r3]. cbn [snd] in HQ3.
    destruct (negb ok2); [inversion H; subst; discriminate|].
    pose proof (parseLinkTitle_good src HV fuel r3 HQ3) as HT.
    destruct (parseLinkTitle fuel r3) as [[ts tt] r4]. destruct HT as [HQ4 HT]. cbn [fst snd] in *.
    destruct (if spanValid ts then skipLinkSpace fuel r4 else (true, r4)) as [ok3 r5].
    destruct (negb ok3); [inversion H; subst; discriminate|].
    destruct (negb (cur r5 =? 41)); inversion H; subst; [discriminate|].
    split; [exact HD|exact HT].
  Qed.

  (* ---------------------------------------------------------------- the children of a code span *)
  Lemma cs_addSpan_bp acc s e : 0 <= s -> e <= len src -> bok s = true -> bok e = true -> bpF src acc = true ->
    bpF src (cs_addSpan src acc s e) = true.
  Proof.
    intros Hs He Bs Be Hacc. unfold cs_addSpan. cbv zeta.
    set (t := sub src s e). set (n := len t).
    assert (Hn : n <= Z.max 0 (e - s)) by apply len_sub_le.
    assert (Hat : forall i, 0 <= i < n -> at_ t i = at_ src (s + i)) by (intros i Hi; apply at_sub; lia).
    assert (Hpiece : forall a b k ind, bok a = true -> bok b = true -> bpF src [PN 0 k a b ind [] []] = true).
    { intros a b k ind A B. cbn [bpF forallb]. rewrite (bp_mk src 0 k a b ind [] [] A B eq_refl). reflexivity. }
    destruct ((2 <=? n) && (at_ t (n - 2) =? 13) && (at_ t (n - 1) =? 10)) eqn:E2.
    { apply andb_true_iff in E2. destruct E2 as [E2 E10]. apply andb_true_iff in E2. destruct E2 as [En E13].
      apply Z.leb_le in En. apply Z.eqb_eq in E13, E10. rewrite Hat in E13 by lia.
      assert (Hn2 : n = e - s).
      { unfold n, t. rewrite len_sub by lia. assert (at_ src (s + (n - 2)) <> 0) by lia. pose proof (in_src src _ H). lia. }
      assert (Bm : bok (e - 2) = true) by (apply (bok_byte src _ 13); [replace (e - 2) with (s + (n - 2)) by lia; exact E13|lia]).
      cbn [Z.ltb Z.compare]. replace (e - 2 + 2) with e by lia.
      destruct (0 <? spanLen s (e - 2)); rewrite ?bpF_app, ?Hacc, ?(Hpiece s (e - 2)), ?(Hpiece (e - 2) e) by assumption; reflexivity. }
    destruct ((1 <=? n) && ((at_ t (n - 1) =? 10) || (at_ t (n - 1) =? 13))) eqn:E1.
    { apply andb_true_iff in E1. destruct E1 as [En E]. apply Z.leb_le in En. rewrite Hat in E by lia.
      assert (Hb : at_ src (s + (n - 1)) = 10 \/ at_ src (s + (n - 1)) = 13) by (apply orb_true_iff in E; destruct E as [E|E]; apply Z.eqb_eq in E; tauto).
      assert (Hn2 : n = e - s).
      { unfold n, t. rewrite len_sub by lia. assert (at_ src (s + (n - 1)) <> 0) by lia. pose proof (in_src src _ H). lia. }
      assert (Bm : bok (e - 1) = true) by (apply bok_at; replace (e - 1) with (s + (n - 1)) by lia; lia).
      cbn [Z.ltb Z.compare]. replace (e - 1 + 1) with e by lia.
      destruct (0 <? spanLen s (e - 1)); rewrite ?bpF_app, ?Hacc, ?(Hpiece s (e - 1)), ?(Hpiece (e - 1) e) by assumption; reflexivity. }
    cbn [Z.ltb Z.compare]. replace (e - 0) with e by lia.
    destruct (0 <? spanLen s e); rewrite ?bpF_app, ?Hacc, ?(Hpiece s e) by assumption; reflexivity.
  Qed.

  Lemma hd_rev_cons {A} (x : A) r : r <> [] -> hd_error (rev (x :: r)) = hd_error (rev r).
  Proof.
    intros Hr. cbn [rev]. destruct (rev r) as [|y l] eqn:E; [|reflexivity].
    exfalso. apply Hr. rewrite <- (rev_involutive r), E. reflexivity.
  Qed.
  Lemma bpF_rev l : bpF src (rev l) = bpF src l.
  Proof.
    unfold bpF. induction l as [|x l IH]; [reflexivity|]. cbn [rev]. rewrite forallb_app, IH. cbn [forallb]. rewrite andb_true_r. apply andb_comm.
  Qed.
  Lemma pe_setSpan n s e : pe (setSpan n s e) = e. Proof. destruct n; reflexivity. Qed.
  Lemma pkind_setSpan n s e : pkind (setSpan n s e) = pkind n. Proof. destruct n; reflexivity. Qed.
  Lemma pe_setInd n v : pe (setInd n v) = pe n. Proof. destruct n; reflexivity. Qed.
  Lemma pkind_setInd n v : pkind (setInd n v) = pkind n. Proof. destruct n; reflexivity. Qed.

  Lemma strip_bp sl : bpF src sl = true -> bpF src (stripCodeSpanSpace src sl) = true.
  Proof.
    intros H. unfold stripCodeSpanSpace.
    destruct (negb (existsb _ sl)); [assumption|].
    destruct sl as [|f r]; [assumption|].
    destruct (rev (f :: r)) as [|lst rr] eqn:Er; [assumption|].
    destruct (negb ((pkind f =? IndentKind) || (at_ src (ps f) =? 32)) || negb ((pkind lst =? IndentKind) || (at_ src (pe lst - 1) =? 32))) eqn:Ec; [assumption|].
    apply orb_false_iff in Ec. destruct Ec as [Ec1 Ec2]. apply negb_false_iff in Ec1, Ec2.
    cbv zeta.
    rewrite bpF_cons in H. apply andb_true_iff in H. destruct H as [Hf Hr].
    set (sl1 := if pkind f =? IndentKind then _ else _).
    assert (H1 : bpF src sl1 = true /\ (sl1 = r \/ exists f', sl1 = f' :: r /\ pe f' = pe f /\ pkind f' = pkind f)).
    { unfold sl1. destruct (pkind f =? IndentKind) eqn:Ek.
      - destruct (pind _ =? 0); [split; [exact Hr|left; reflexivity]|]. split.
        + rewrite bpF_cons, bp_setInd, Hf, Hr. reflexivity.
        + right. eexists. split; [reflexivity|]. split; [apply pe_setInd|apply pkind_setInd].
      - destruct (plen _ =? 0); [split; [exact Hr|left; reflexivity]|]. cbn [orb] in Ec1. apply Z.eqb_eq in Ec1. split.
        + rewrite bpF_cons, Hr, andb_true_r. apply bp_setSpan; [exact Hf| |apply (bp_parts src f Hf)].
          apply (bok_after src _ 32 HV); [replace (ps f + 1 - 1) with (ps f) by lia; exact Ec1|lia|lia].
        + right. eexists. split; [reflexivity|]. split; [apply pe_setSpan|apply pkind_setSpan]. }
    destruct H1 as [H1 Hshape].
    destruct (rev sl1) as [|l rr'] eqn:Er1; [exact H1|].
    assert (H2 : bpF src (l :: rr') = true) by (rewrite <- Er1, bpF_rev; exact H1).
    rewrite bpF_cons in H2. apply andb_true_iff in H2. destruct H2 as [Hl Hrr].
    assert (Hsame : pe l = pe lst /\ pkind l = pkind lst).
    { destruct r as [|x r'].
      - cbn in Er. inversion Er; subst lst rr. destruct Hshape as [E|(f' & E & A & B)]; rewrite E in Er1; cbn in Er1; [discriminate|].
        inversion Er1; subst. split; assumption.
      - assert (Hh : hd_error (rev (f :: x :: r')) = hd_error (rev (x :: r'))) by (apply hd_rev_cons; discriminate).
        rewrite Er in Hh. cbn [hd_error] in Hh.
        destruct Hshape as [E|(f' & E & _)]; rewrite E in Er1.
        + rewrite Er1 in Hh. cbn in Hh. inversion Hh; subst. split; reflexivity.
        + assert (Hh' : hd_error (rev (f' :: x :: r')) = hd_error (rev (x :: r'))) by (apply hd_rev_cons; discriminate).
          rewrite Er1 in Hh'. cbn [hd_error] in Hh'. rewrite <- Hh' in Hh. inversion Hh; subst. split; reflexivity. }
    destruct Hsame as [Epe Ekd]. rewrite <- Ekd, <- Epe in Ec2.
    destruct (pkind l =? IndentKind) eqn:Ek.
    - match goal with |- context [if ?c then rev rr' else _] => destruct c end; rewrite bpF_rev; [exact Hrr|]. rewrite bpF_cons, bp_setInd, Hl, Hrr. reflexivity.
    - cbn [orb] in Ec2. apply Z.eqb_eq in Ec2.
      match goal with |- context [if ?c then rev rr' else _] => destruct c end; rewrite bpF_rev; [exact Hrr|]. rewrite bpF_cons, Hrr, andb_true_r.
      apply bp_setSpan; [exact Hl|apply (bp_parts src l Hl)|]. apply (bok_byte src _ 32 Ec2). lia.
  Qed.

  (* entries: good ends, inside the source *)
  Definition EG (u : inline) : Prop := gsp src u /\ 0 <= istart u /\ iend u <= len src.

  Lemma collectCodeSpan_BP st a b c d : isrc st = src -> (forall i, EG (nth i (unp st) (mkI 0 0 0))) ->
    BP src st -> bok a = true -> bok b = true -> 0 <= c -> d <= len src -> bok c = true -> bok d = true ->
    BP src (collectCodeSpan st a b c d).
  Proof.
    intros Es HE HB Ba Bb Hc Hd Bc Bd. unfold collectCodeSpan. cbv zeta. rewrite Es.
    destruct (nodeIndexForPosition (unpFrom st) d =? 0).
    - apply BP_addNode; [exact HB|exact Ba|exact Bb|]. apply strip_bp, cs_addSpan_bp; try assumption. reflexivity.
    - match goal with |- context [?F (Z.to_nat _) (cs_addSpan src [] ?x ?y) (upos st)] =>
        assert (HM : forall k acc up, bpF src acc = true -> bpF src (fst (F k acc up)) = true) end.
      { induction k as [|k IHk]; intros acc up Ha; [exact Ha|]. cbn [fst]. apply IHk.
        destruct (ikind _ =? UnparsedKind); [|exact Ha].
        destruct (HE (Z.to_nat (up + 1))) as (G & G1 & G2).
        apply cs_addSpan_bp; [exact G1|exact G2|apply (gsp_start src), G|apply (gsp_end src), G|exact Ha]. }
      destruct (HE (Z.to_nat (upos st))) as (G0 & G01 & G02).
      match goal with |- context [?F (Z.to_nat ?n) (cs_addSpan src [] ?x ?y) (upos st)] =>
        specialize (HM (Z.to_nat n) (cs_addSpan src [] x y) (upos st));
        destruct (F (Z.to_nat n) (cs_addSpan src [] x y) (upos st)) as [acc up] end.
      cbn [fst] in HM.
      apply BP_addNode; [apply BP_setUpos, HB|exact Ba|exact Bb|]. apply strip_bp.
      destruct (HE (Z.to_nat (up + 1))) as (G & G1 & G2).
      apply cs_addSpan_bp; [exact G1|exact Hd|apply (gsp_start src), G|exact Bd|]. apply HM.
      apply cs_addSpan_bp; [exact Hc|exact G02|exact Bc|apply (gsp_end src), G0|reflexivity].
  Qed.
End LK.
