From Coq Require Import List ZArith Lia Bool.
Import ListNotations.
Require Import Base Tables Utf8 Tree Rdr Link Collect Html Recog Inl3a Inl3b Inl3c Inl3d Render Props PEProof GI0 GI1 GI2.
Open Scope Z_scope.

(* ================================================================== *)
(* GI3: processEmphasis keeps the forest invariant PEI.                *)
(* ================================================================== *)

Definition sids (s : list delim) : list Z := map d_node s.
Lemma sids_app a b : sids (a ++ b) = sids a ++ sids b. Proof. apply map_app. Qed.
Lemma sids_cons d l : sids (d :: l) = d_node d :: sids l. Proof. reflexivity. Qed.

(* ---------------------------------------------------------------- identities stay below the counter *)
Lemma idbF_app b l1 l2 : forallb (idb b) (l1 ++ l2) = forallb (idb b) l1 && forallb (idb b) l2.
Proof. apply forallb_app. Qed.
Lemma idb_setKids b n ks : idb b n = true -> forallb (idb b) ks = true -> idb b (setKids n ks) = true.
Proof.
  rewrite !idb_eq, pid_setKids, pkids_setKids. intros H Hk. apply andb_true_iff in H. destruct H as [H _]. rewrite H, Hk. reflexivity.
Qed.
Lemma wrapLevel_idb b newId kind o endId es pe0 l : 0 <= newId < b -> forallb (idb b) l = true ->
  forallb (idb b) (wrapLevel newId kind o endId es pe0 l) = true.
Proof.
  intros Hn H. unfold wrapLevel.
  pose proof (sAt_app o l) as E1. destruct (splitAtId o l) as [pre post].
  pose proof (sBefore_app endId post) as E2. destruct (splitBeforeId endId post) as [mid rest].
  subst l post. rewrite !idbF_app in *. apply andb_true_iff in H. destruct H as [Hp H]. apply andb_true_iff in H. destruct H as [Hm Hr].
  rewrite Hp, Hr. cbn [forallb idb]. rewrite Hm.
  replace (0 <=? newId) with true by (symmetry; apply Z.leb_le; lia).
  replace (newId <? b) with true by (symmetry; apply Z.ltb_lt; lia). reflexivity.
Qed.
Lemma wrapIn_idb b newId kind o endId es : 0 <= newId < b ->
  forall fuel pe0 l, forallb (idb b) l = true -> forallb (idb b) (wrapIn fuel newId kind o endId es pe0 l) = true.
Proof.
  intros Hn. induction fuel as [|f IH]; intros pe0 l H; [exact H|]. cbn [wrapIn].
  destruct (hasId o l); [apply wrapLevel_idb; assumption|].
  rewrite forallb_forall in *. intros x Hx. apply in_map_iff in Hx. destruct Hx as (n & <- & Hin).
  apply idb_setKids; [apply H, Hin|]. apply IH. apply idb_kids, H, Hin.
Qed.
Lemma removeId_idb b id : forall fuel l, forallb (idb b) l = true -> forallb (idb b) (removeId fuel id l) = true.
Proof.
  induction fuel as [|f IH]; intros l H; [exact H|]. cbn [removeId]. destruct (hasId id l).
  - rewrite forallb_forall in *. intros x Hx. apply filter_In in Hx. apply H. tauto.
  - rewrite forallb_forall in *. intros x Hx. apply in_map_iff in Hx. destruct Hx as (n & <- & Hin).
    apply idb_setKids; [apply H, Hin|]. apply IH. apply idb_kids, H, Hin.
Qed.

(* ---------------------------------------------------------------- the frame: levels that hold no active identity *)
Definition Rn (n n' : pn) : Prop := hd2 n' = hd2 n /\ (nl n = true -> nl n' = true).
Definition RF (l l' : list pn) : Prop := Forall2 Rn l l'.

Lemma RF_refl l : RF l l.
Proof. induction l; constructor; [split; [reflexivity|tauto]|assumption]. Qed.
Lemma RF_trans l1 l2 l3 : RF l1 l2 -> RF l2 l3 -> RF l1 l3.
Proof.
  intros H12. revert l3. induction H12 as [|a b l1 l2 Hab H12 IH]; intros l3 H23.
  - inversion H23; subst. constructor.
  - inversion H23 as [|b' c0 l2' l3' Hbc H23']; subst. constructor.
    + destruct Hab as [A1 A2]. destruct Hbc as [B1 B2]. split; [congruence|tauto].
    + apply IH. exact H23'.
Qed.
Lemma RF_map phi l : (forall n, In n l -> Rn n (phi n)) -> RF l (map phi l).
Proof. induction l as [|x l IH]; intros H; constructor; [apply H; left; reflexivity|apply IH; intros n Hn; apply H; right; exact Hn]. Qed.
Lemma RF_hd2 l l' : RF l l' -> map hd2 l' = map hd2 l.
Proof. induction 1 as [|a b l l' Hab _ IH]; [reflexivity|]. cbn. destruct Hab as [E _]. rewrite E, IH. reflexivity. Qed.
Lemma RF_ids l l' : RF l l' -> ids l' = ids l.
Proof. intros H. apply ids_hd, RF_hd2, H. Qed.
Lemma RF_nl l l' : RF l l' -> forallb nl l = true -> forallb nl l' = true.
Proof.
  induction 1 as [|a b l l' Hab _ IH]; [tauto|]. cbn [forallb]. intros H. apply andb_true_iff in H. destruct H as [Ha Hl].
  destruct Hab as [_ Hn]. rewrite (Hn Ha), (IH Hl). reflexivity.
Qed.
Lemma RF_app a a' b b' : RF a a' -> RF b b' -> RF (a ++ b) (a' ++ b').
Proof. apply Forall2_app. Qed.
Lemma RF_er l l' : map er l = map er l' -> RF l l'.
Proof.
  revert l'. induction l as [|x l IH]; intros [|x' l'] E; cbn [map] in E; try discriminate; constructor;
    inversion E as [[E1 E2]].
  - split.
    + unfold hd2. rewrite <- (pid_er x'), <- (pkind_er x'), <- E1, pid_er, pkind_er. reflexivity.
    + rewrite <- (nl_er x), E1, nl_er. tauto.
  - apply IH. exact E2.
Qed.
Lemma RF_splitAt id : forall l l', RF l l' ->
  RF (fst (splitAtId id l)) (fst (splitAtId id l')) /\ RF (snd (splitAtId id l)) (snd (splitAtId id l')).
Proof.
  induction 1 as [|a b l l' Hab Hl IH]; [split; constructor|]. cbn [splitAtId].
  assert (Ep : pid b = pid a) by (destruct Hab as [E _]; unfold hd2 in E; congruence). rewrite Ep.
  destruct (pid a =? id).
  - cbn [fst snd]. split; [constructor; [exact Hab|constructor]|exact Hl].
  - destruct (splitAtId id l) as [p q], (splitAtId id l') as [p' q']. cbn [fst snd] in *. destruct IH as [I1 I2].
    split; [constructor; assumption|assumption].
Qed.

Lemma Rn_setKids n ks : (forallb nl (pkids n) = true -> forallb nl ks = true) -> Rn n (setKids n ks).
Proof.
  intros H. split; [unfold hd2; rewrite pid_setKids, pkind_setKids; reflexivity|].
  destruct n as [i k s e ind r ks0]. cbn [setKids nl pkids] in *. destruct (k =? LinkKind); [discriminate|]. destruct (cont k); tauto.
Qed.

Lemma wrapIn_frame newId kind o endId es : cont kind = true -> kind <> LinkKind ->
  forall fuel pe0 l, ~ In o (ids l) -> RF l (wrapIn (S fuel) newId kind o endId es pe0 l).
Proof.
  intros Hc Hk fuel pe0 l Ho. cbn [wrapIn]. replace (hasId o l) with false by (symmetry; apply hasId_false, Ho).
  apply RF_map. intros n _. apply Rn_setKids. rewrite wrapIn_nl by assumption. tauto.
Qed.
Lemma removeId_frame id : forall fuel l, ~ In id (ids l) -> RF l (removeId (S fuel) id l).
Proof.
  intros fuel l Ho. cbn [removeId]. replace (hasId id l) with false by (symmetry; apply hasId_false, Ho).
  apply RF_map. intros n _. apply Rn_setKids. apply removeId_nl.
Qed.
Lemma fsize_S l : exists f, fsize l = S f. Proof. unfold fsize. eexists. reflexivity. Qed.

(* ---------------------------------------------------------------- the forest invariant of processEmphasis *)
Record PEI (tw : bool) (X H : list Z) (st : ist) : Prop := {
  pe_nid : 1 <= nid st;
  pe_idb : forallb (idb (nid st)) (rk st) = true;
  pe_Hr : forall x, In x H -> 1 <= x < nid st;
  pe_Xr : forall x, In x X -> 1 <= x < nid st;
  pe_nd : NoDup H;
  pe_LB : LB tw X H 0 [] (rk st)
}.

Lemma LB_er tw X H P rf l l' : map er l = map er l' -> LB tw X H P rf l -> LB tw X H P rf l'.
Proof.
  intros E (B1 & B2 & B3 & B4). repeat split.
  - rewrite <- (erF_ids l l' E). exact B1.
  - rewrite <- (erF_forallb (lvs X H) (lvs_er X H) l l' E). exact B2.
  - rewrite <- (lvlG_er tw P rf l'), <- E, lvlG_er. exact B3.
  - rewrite <- (erF_forallb (gk tw) (gk_er tw) l l' E). exact B4.
Qed.

Lemma PEI_span tw X H st id g : (forall n, er (g n) = er n) -> PEI tw X H st -> PEI tw X H (updN st id g).
Proof.
  intros Hg [P1 P2 P3 P4 P5 P6]. unfold updN.
  assert (E : map er (rk st) = map er (updNode (fsize (rk st)) id g (rk st))).
  { symmetry. apply updNode_er. exact Hg. }
  constructor; cbn [setRk nid rk]; try assumption.
  - rewrite <- (erF_forallb (idb (nid st)) (idb_er (nid st)) _ _ E). exact P2.
  - apply (LB_er tw X H 0 [] _ _ E). exact P6.
Qed.
Lemma span_frame st id g : (forall n, er (g n) = er n) -> RF (rk st) (rk (updN st id g)).
Proof. intros Hg. unfold updN. cbn [setRk rk]. apply RF_er. symmetry. apply updNode_er. exact Hg. Qed.

Lemma PEI_del tw X S1 S2 S3 st : PEI tw X (S1 ++ S2 ++ S3) st -> PEI tw X (S1 ++ S3) st.
Proof.
  intros [P1 P2 P3 P4 P5 (B1 & B2 & B3 & B4)]. constructor; try assumption.
  - intros x Hx. apply P3. apply in_app_or in Hx. apply in_or_app. destruct Hx; [left; assumption|right; apply in_or_app; right; assumption].
  - pose proof (NoDup_app_l _ _ P5) as N1. pose proof (NoDup_app_r _ _ (NoDup_app_r _ _ P5)) as N3.
    clear - P5 N1 N3. induction S1 as [|x S1 IH]; [exact N3|]. cbn in *. inversion P5 as [|? ? Hx Hn]; subst. inversion N1; subst. constructor.
    + intros Hi. apply Hx. apply in_app_or in Hi. apply in_or_app. destruct Hi; [left; assumption|right; apply in_or_app; right; assumption].
    + apply IH; assumption.
  - repeat split; try assumption; [apply (lpb_del X S1 S2 S3)|apply (lvsF_del X S1 S2 S3)]; assumption.
Qed.

Lemma PEI_wrap tw X D1 o D2 c D3 st kind : kind = EmphasisKind \/ kind = StrongKind ->
  PEI tw X (D1 ++ o :: D2 ++ c :: D3) st -> PEI tw X (D1 ++ o :: c :: D3) (fst (wrap st kind o (Some c))).
Proof.
  intros Hk [P1 P2 P3 P4 P5 P6]. unfold wrap. cbn [fst].
  assert (H0 : ~ In 0 (D1 ++ o :: D2 ++ c :: D3)) by (intros Hi; apply P3 in Hi; lia).
  assert (HnH : ~ In (nid st) (D1 ++ o :: D2 ++ c :: D3)) by (intros Hi; apply P3 in Hi; lia).
  assert (HnX : ~ In (nid st) X) by (intros Hi; apply P4 in Hi; lia).
  destruct (wrapIn_LB tw X D1 D2 D3 o c (nid st) kind P5 H0 HnH HnX Hk (Some (ps (nodeOf st c))) (fsize (rk st)) (rootEnd st) (rk st) 0 [] P6) as [HB _].
  pose proof (PEI_del tw X (D1 ++ [o]) D2 (c :: D3) st) as Hd. rewrite <- !app_assoc in Hd. cbn [app] in Hd.
  destruct (Hd (Build_PEI tw X _ st P1 P2 P3 P4 P5 P6)) as [_ _ Q3 _ Q5 _].
  constructor; cbn [bumpId setRk nid rk].
  - lia.
  - apply wrapIn_idb; [lia|]. apply (idbF_mono (nid st)); [lia|exact P2].
  - intros x Hx. specialize (Q3 x Hx). lia.
  - intros x Hx. specialize (P4 x Hx). lia.
  - exact Q5.
  - exact HB.
Qed.
Lemma wrap_frame st kind o endId : cont kind = true -> kind <> LinkKind -> ~ In o (ids (rk st)) ->
  RF (rk st) (rk (fst (wrap st kind o endId))).
Proof.
  intros Hc Hk Ho. unfold wrap. cbn [fst bumpId setRk rk]. destruct (fsize_S (rk st)) as [f ->]. apply wrapIn_frame; assumption.
Qed.

Lemma PEI_remove tw X S1 o S3 st : PEI tw X (S1 ++ [o] ++ S3) st -> PEI tw X (S1 ++ S3) (removeNode st o).
Proof.
  intros HP. pose proof HP as [P1 P2 P3 P4 P5 P6]. unfold removeNode.
  assert (Ho0 : o <> 0) by (intros ->; specialize (P3 0 ltac:(apply in_or_app; right; left; reflexivity)); lia).
  destruct (removeId_LB tw X S1 S3 o P5 Ho0 (fsize (rk st)) (rk st) 0 [] P6) as [HB _].
  destruct (PEI_del tw X S1 [o] S3 st HP) as [_ _ Q3 _ Q5 _].
  constructor; cbn [setRk nid rk]; try assumption.
  apply removeId_idb. exact P2.
Qed.
Lemma remove_frame st id : ~ In id (ids (rk st)) -> RF (rk st) (rk (removeNode st id)).
Proof. intros Ho. unfold removeNode. cbn [setRk rk]. destruct (fsize_S (rk st)) as [f ->]. apply removeId_frame. exact Ho. Qed.

Lemma PEI_setStk tw X H st v : PEI tw X H st -> PEI tw X H (setStk st v).
Proof. intros [P1 P2 P3 P4 P5 P6]. constructor; assumption. Qed.

(* ---------------------------------------------------------------- fields processEmphasis does not touch *)
Definition others (st st' : ist) : Prop :=
  isrc st' = isrc st /\ unp st' = unp st /\ upos st' = upos st /\ ign st' = ign st /\ rootEnd st' = rootEnd st /\
  matcher st' = matcher st /\ nid st <= nid st'.
Lemma others_refl st : others st st. Proof. unfold others. repeat split; lia. Qed.
Lemma others_trans a b c : others a b -> others b c -> others a c.
Proof. unfold others. intros (A1&A2&A3&A4&A5&A6&A7) (B1&B2&B3&B4&B5&B6&B7). repeat split; try congruence. lia. Qed.

(* ---------------------------------------------------------------- one matched pair *)
Lemma pe_match_step tw low D1s o D2s c D3s st g1 g2 kind (b1 b2 : bool) :
  PEI tw (sids low) (sids (D1s ++ o :: D2s ++ c :: D3s)) st ->
  (forall n, er (g1 n) = er n) -> (forall n, er (g2 n) = er n) -> kind = EmphasisKind \/ kind = StrongKind ->
  let st3 := fst (wrap (updN (updN st (d_node o) g1) (d_node c) g2) kind (d_node o) (Some (d_node c))) in
  let st5 := if b1 then removeNode st3 (d_node o) else st3 in
  let high5 := if b1 then D1s ++ c :: D3s else D1s ++ o :: c :: D3s in
  let st6 := if b2 then removeNode st5 (d_node c) else st5 in
  let high6 := if b2 then (if b1 then D1s ++ D3s else D1s ++ o :: D3s) else high5 in
  PEI tw (sids low) (sids high6) st6 /\ others st st6 /\
  (fl (sids (D1s ++ o :: D2s ++ c :: D3s)) (ids (rk st)) = [] -> RF (rk st) (rk st6)) /\
  (forall x, In x (sids high6) -> In x (sids (D1s ++ o :: D2s ++ c :: D3s))).
Proof.
  intros HP Hg1 Hg2 Hk.
  assert (Kc : cont kind = true /\ kind <> LinkKind) by (destruct Hk as [-> | ->]; split; try reflexivity; discriminate).
  destruct Kc as [Kc Kl].
  set (H := sids (D1s ++ o :: D2s ++ c :: D3s)).
  assert (EH : H = sids D1s ++ d_node o :: sids D2s ++ d_node c :: sids D3s).
  { unfold H. rewrite sids_app. cbn [sids map]. f_equal. f_equal. fold (sids (D2s ++ c :: D3s)). rewrite sids_app. reflexivity. }
  set (st1 := updN st (d_node o) g1). set (st2 := updN st1 (d_node c) g2).
  assert (P1 : PEI tw (sids low) H st1) by (apply PEI_span; assumption).
  assert (P2 : PEI tw (sids low) H st2) by (apply PEI_span; assumption).
  rewrite EH in P2.
  pose proof (PEI_wrap tw (sids low) _ _ _ _ _ st2 kind Hk P2) as P3.
  intros st3 st5 high5 st6 high6. fold st1 st2 in st3. fold st3 in P3.
  assert (F12 : RF (rk st) (rk st2)).
  { eapply RF_trans; [apply (span_frame st (d_node o) g1 Hg1)|apply (span_frame st1 (d_node c) g2 Hg2)]. }
  assert (O3 : others st st3).
  { unfold st3, wrap, st2, st1, updN, others. cbn. repeat split; lia. }
  assert (HoH : In (d_node o) H) by (rewrite EH; apply in_or_app; right; left; reflexivity).
  assert (HcH : In (d_node c) H) by (rewrite EH; apply in_or_app; right; right; apply in_or_app; right; left; reflexivity).
  assert (F3 : fl H (ids (rk st)) = [] -> RF (rk st) (rk st3)).
  { intros Hf. eapply RF_trans; [exact F12|]. apply wrap_frame; [assumption|assumption|].
    rewrite (RF_ids _ _ F12). intros Hi. exact (proj1 (fl_nil_iff H (ids (rk st))) Hf _ Hi HoH). }
  (* first removal *)
  assert (S5 : PEI tw (sids low) (sids high5) st5 /\ others st st5 /\ (fl H (ids (rk st)) = [] -> RF (rk st) (rk st5)) /\
               (forall x, In x (sids high5) -> In x H) /\ In (d_node c) (sids high5)).
  { unfold st5, high5. destruct b1.
    - split; [|split; [|split; [|split]]].
      + pose proof (PEI_remove tw (sids low) (sids D1s) (d_node o) (d_node c :: sids D3s) st3) as Hr.
        rewrite sids_app. cbn [sids map]. apply Hr. cbn [app]. exact P3.
      + unfold removeNode. exact O3.
      + intros Hf. eapply RF_trans; [apply F3, Hf|]. apply remove_frame. rewrite (RF_ids _ _ (F3 Hf)).
        intros Hi. exact (proj1 (fl_nil_iff H (ids (rk st))) Hf _ Hi HoH).
      + intros x Hx. rewrite EH. rewrite sids_app in Hx. cbn [sids map] in Hx. apply in_app_or in Hx. apply in_or_app.
        destruct Hx as [Hx|[Hx|Hx]]; [left; exact Hx|right; right; apply in_or_app; right; left; exact Hx|right; right; apply in_or_app; right; right; exact Hx].
      + rewrite sids_app. apply in_or_app. right. left. reflexivity.
    - split; [|split; [|split; [|split]]].
      + rewrite sids_app. cbn [sids map]. exact P3.
      + exact O3.
      + exact F3.
      + intros x Hx. rewrite EH. rewrite sids_app in Hx. cbn [sids map] in Hx. apply in_app_or in Hx. apply in_or_app.
        destruct Hx as [Hx|[Hx|[Hx|Hx]]]; [left; exact Hx|right; left; exact Hx|right; right; apply in_or_app; right; left; exact Hx|right; right; apply in_or_app; right; right; exact Hx].
      + rewrite sids_app. apply in_or_app. right. right. left. reflexivity. }
  destruct S5 as (Q5 & O5 & F5 & I5 & C5).
  unfold st6, high6. destruct b2; [|split; [exact Q5|split; [exact O5|split; [exact F5|exact I5]]]].
  split; [|split; [|split]].
  - unfold high5 in Q5. destruct b1.
    + pose proof (PEI_remove tw (sids low) (sids D1s) (d_node c) (sids D3s) st5) as Hr. rewrite sids_app. apply Hr.
      rewrite sids_app in Q5. exact Q5.
    + pose proof (PEI_remove tw (sids low) (sids D1s ++ [d_node o]) (d_node c) (sids D3s) st5) as Hr.
      rewrite sids_app, sids_cons.
      replace (sids D1s ++ d_node o :: sids D3s) with ((sids D1s ++ [d_node o]) ++ sids D3s) by (rewrite <- app_assoc; reflexivity).
      apply Hr. rewrite <- app_assoc. cbn [app]. rewrite sids_app, !sids_cons in Q5. exact Q5.
  - unfold removeNode. exact O5.
  - intros Hf. eapply RF_trans; [apply F5, Hf|]. apply remove_frame. rewrite (RF_ids _ _ (F5 Hf)).
    intros Hi. exact (proj1 (fl_nil_iff H (ids (rk st))) Hf _ Hi HcH).
  - intros x Hx. apply I5. unfold high5. destruct b1; rewrite sids_app in *; cbn [sids map] in *; apply in_app_or in Hx; apply in_or_app.
    + destruct Hx as [Hx|Hx]; [left; exact Hx|right; right; exact Hx].
    + destruct Hx as [Hx|[Hx|Hx]]; [left; exact Hx|right; left; exact Hx|right; right; right; exact Hx].
Qed.

(* ---------------------------------------------------------------- the loop *)
Definition OBI (sb : Z) (ob : list Z) : Prop := len ob = OBN /\ forall b, 0 <= b < OBN -> sb <= getOB ob b.

Lemma OBI_set sb ob i v : OBI sb ob -> 0 <= i < OBN -> sb <= v -> OBI sb (setOB ob i v).
Proof.
  intros [Hl Hb] Hi Hv. split; [rewrite len_setOB; [exact Hl|rewrite Hl; exact Hi]|].
  intros b Hbb. rewrite getOB_set by (rewrite ?Hl; lia). destruct (b =? i); [exact Hv|apply Hb, Hbb].
Qed.
Lemma OBI_map sb ob g : OBI sb ob -> (forall b, sb <= b -> sb <= g b) -> OBI sb (map g ob).
Proof.
  intros [Hl Hb] Hg. split; [rewrite len_map; exact Hl|]. intros b Hbb. rewrite getOB_map by (rewrite Hl; exact Hbb). apply Hg, Hb, Hbb.
Qed.

(* equal up to the stack *)
Definition sameBut (S S' : ist) : Prop :=
  rk S = rk S' /\ nid S = nid S' /\ isrc S = isrc S' /\ unp S = unp S' /\ upos S = upos S' /\ ign S = ign S' /\
  rootEnd S = rootEnd S' /\ matcher S = matcher S'.
Lemma PEI_same tw X H S S' : sameBut S S' -> PEI tw X H S' -> PEI tw X H S.
Proof. intros (E1 & E2 & _) [P1 P2 P3 P4 P5 P6]. constructor; rewrite ?E1, ?E2; assumption. Qed.
Lemma others_same st S S' : sameBut S S' -> others st S' -> others st S.
Proof. intros (E1 & E2 & E3 & E4 & E5 & E6 & E7 & E8) (A1&A2&A3&A4&A5&A6&A7). unfold others. repeat split; try congruence; try lia. Qed.

Lemma pe_loop_PEI tw low : forall fuel st ob cp high,
  stk st = low ++ high -> PEI tw (sids low) (sids high) st -> OBI (len low) ob -> len low <= cp ->
  exists high', stk (pe_loop fuel st ob cp) = low ++ high' /\ PEI tw (sids low) (sids high') (pe_loop fuel st ob cp) /\
    others st (pe_loop fuel st ob cp) /\
    (fl (sids high) (ids (rk st)) = [] -> RF (rk st) (rk (pe_loop fuel st ob cp))) /\
    (forall x, In x (sids high') -> In x (sids high)).
Proof.
  induction fuel as [|f IH]; intros st ob cp high Es HP HO Hcp.
  { exists high. cbn [pe_loop]. split; [exact Es|]. split; [exact HP|]. split; [apply others_refl|]. split; [intros _; apply RF_refl|tauto]. }
  assert (Hfin : forall S high6 ob' cp', stk S = low ++ high6 -> PEI tw (sids low) (sids high6) S -> others st S ->
            (fl (sids high) (ids (rk st)) = [] -> RF (rk st) (rk S)) -> (forall x, In x (sids high6) -> In x (sids high)) ->
            OBI (len low) ob' -> len low <= cp' ->
            exists high', stk (pe_loop f S ob' cp') = low ++ high' /\ PEI tw (sids low) (sids high') (pe_loop f S ob' cp') /\
              others st (pe_loop f S ob' cp') /\
              (fl (sids high) (ids (rk st)) = [] -> RF (rk st) (rk (pe_loop f S ob' cp'))) /\
              (forall x, In x (sids high') -> In x (sids high))).
  { intros S high6 ob' cp' A1 A2 A3 A4 A5 A6 A7.
    destruct (IH S ob' cp' high6 A1 A2 A6 A7) as (high' & B1 & B2 & B3 & B4 & B5).
    exists high'. split; [exact B1|]. split; [exact B2|]. split; [eapply others_trans; eassumption|]. split.
    - intros Hf. eapply RF_trans; [apply A4, Hf|]. apply B4. rewrite (RF_ids _ _ (A4 Hf)).
      apply (fl_nil_sub _ (sids high)); [exact A5|exact Hf].
    - intros x Hx. apply A5, B5, Hx. }
  cbn [pe_loop].
  remember (pe_findCloser (S (length (stk st))) (stk st) cp) as cp1 eqn:Ecp1.
  destruct (Z.ltb_spec cp1 0) as [Hneg|Hpos].
  { exists high. split; [exact Es|]. split; [exact HP|]. split; [apply others_refl|]. split; [intros _; apply RF_refl|tauto]. }
  destruct (findCloser_spec _ _ _ _ (eq_sym Ecp1) Hpos) as [Hcp1 Hcl].
  remember (nthD (stk st) cp1) as c eqn:Ec.
  pose proof (obIndex_range c Hcl) as Hobi.
  remember (getOB ob (obIndex c)) as lo eqn:Elo.
  assert (Hlo : len low <= lo) by (subst lo; apply HO; unfold OBN; lia).
  remember (pe_findOpener (S (length (stk st))) (stk st) (cp1 - 1) lo c) as oi eqn:Eoi.
  pose proof (len_nonneg low) as Hl0.
  destruct (Z.leb_spec lo oi) as [Hfound|Hnone].
  - (* a pair *)
    assert (Hoi : lo <= oi <= cp1 - 1).
    { pose proof (findOpener_spec (stk st) c lo (S (length (stk st))) (cp1 - 1)) as Hs.
      assert (Hf : (Z.to_nat (cp1 - 1 - lo + 1) < S (length (stk st)))%nat) by (unfold len in *; lia).
      specialize (Hs Hf). cbn zeta in Hs. rewrite <- Eoi in Hs. destruct Hs as [(A1 & _)|(A1 & _)]; lia. }
    remember (nthD (stk st) oi) as o eqn:Eo.
    destruct (split_at2 (stk st) oi cp1 ltac:(lia) ltac:(lia) ltac:(lia)) as (P & D2s & D3s & Esplit & HlenP & HlenD2).
    rewrite <- Eo, <- Ec in Esplit.
    destruct (app_prefix_len low high P (o :: D2s ++ c :: D3s)) as (D1s & EP & Ehigh); [rewrite <- Es; exact Esplit|lia|].
    subst P high.
    match goal with |- context [wrap ?A ?K ?X ?Y] => remember K as kind eqn:EK end.
    assert (Hk : kind = EmphasisKind \/ kind = StrongKind) by (subst kind; destruct (_ && _); tauto).
    match goal with |- context [wrap (updN (updN st _ ?G1) _ ?G2) kind _ _] => remember G1 as g1 eqn:Eg1; remember G2 as g2 eqn:Eg2 end.
    assert (Hg1 : forall n, er (g1 n) = er n) by (intros n; subst g1; apply er_setSpan).
    assert (Hg2 : forall n, er (g2 n) = er n) by (intros n; subst g2; apply er_setSpan).
    destruct (wrap (updN (updN st (d_node o) g1) (d_node c) g2) kind (d_node o) (Some (d_node c))) as [st3 wid] eqn:Ew.
    assert (E3 : st3 = fst (wrap (updN (updN st (d_node o) g1) (d_node c) g2) kind (d_node o) (Some (d_node c)))) by (rewrite Ew; reflexivity).
    assert (Es3 : stk st3 = (low ++ D1s) ++ [o] ++ D2s ++ c :: D3s).
    { rewrite E3. rewrite stk_wrap, !stk_updN. rewrite Es. rewrite <- !app_assoc. reflexivity. }
    assert (Hl1 : len (low ++ D1s) = oi) by exact HlenP.
    assert (Ed1 : delStack (stk st3) (oi + 1) cp1 = (low ++ D1s) ++ [o] ++ [c] ++ D3s).
    { rewrite Es3. replace ((low ++ D1s) ++ [o] ++ D2s ++ c :: D3s) with (((low ++ D1s) ++ [o]) ++ D2s ++ (c :: D3s)) by (rewrite <- !app_assoc; reflexivity).
      replace (oi + 1) with (len ((low ++ D1s) ++ [o])) by (rewrite len_app; change (len [o]) with 1; lia).
      replace cp1 with (len ((low ++ D1s) ++ [o]) + len D2s) by (rewrite len_app; change (len [o]) with 1; lia).
      rewrite delStack_app3. rewrite <- !app_assoc. reflexivity. }
    rewrite Ed1. 
    rewrite !stk_setStk.
    assert (Ed2 : delStack ((low ++ D1s) ++ [o] ++ [c] ++ D3s) oi (oi + 1) = (low ++ D1s) ++ [c] ++ D3s).
    { replace (oi + 1) with (len (low ++ D1s) + len [o]) by (change (len [o]) with 1; lia). rewrite <- Hl1 at 1.
      apply (delStack_app3 (low ++ D1s) [o] ([c] ++ D3s)). }
    rewrite Ed2.
    assert (HOB1 : OBI (len low) (map (fun b : Z => if oi + 1 <? b then oi + 1 else b) ob)).
    { apply OBI_map; [exact HO|]. intros b Hb. destruct (oi + 1 <? b); lia. }
    assert (HOB2 : OBI (len low) (map (fun b : Z => if oi <? b then b - 1 else b) (map (fun b : Z => if oi + 1 <? b then oi + 1 else b) ob))).
    { apply OBI_map; [exact HOB1|]. intros b Hb. destruct (Z.ltb_spec oi b); lia. }
    pose proof (pe_match_step tw low D1s o D2s c D3s st g1 g2 kind) as Hstep.
    destruct (plen (nodeOf (setStk st3 _) (d_node o)) =? 0) eqn:Eb1; cbv beta iota; rewrite ?stk_setStk.
    + (* opener node emptied *)
      assert (Ed3 : delStack ((low ++ D1s) ++ [c] ++ D3s) (oi + 1 - 1) (oi + 1 - 1 + 1) = (low ++ D1s) ++ D3s).
      { replace (oi + 1 - 1 + 1) with (len (low ++ D1s) + len [c]) by (change (len [c]) with 1; lia).
        replace (oi + 1 - 1) with (len (low ++ D1s)) by lia. apply (delStack_app3 (low ++ D1s) [c] D3s). }
      rewrite Ed3.
      destruct (plen (nodeOf _ (d_node c)) =? 0) eqn:Eb2.
      * specialize (Hstep true true HP Hg1 Hg2 Hk). cbv zeta in Hstep. cbv beta iota in Hstep. destruct Hstep as (Q1 & Q2 & Q3 & Q4).
        apply (Hfin _ (D1s ++ D3s)); try assumption; try lia.
        -- cbn [stk setStk]. rewrite <- app_assoc. reflexivity.
        -- eapply PEI_same; [|exact Q1]. rewrite E3. repeat split; reflexivity.
        -- eapply others_same; [|exact Q2]. rewrite E3. repeat split; reflexivity.
        -- intros Hf. rewrite E3. exact (Q3 Hf).
      * specialize (Hstep true false HP Hg1 Hg2 Hk). cbv zeta in Hstep. cbv beta iota in Hstep. destruct Hstep as (Q1 & Q2 & Q3 & Q4).
        apply (Hfin _ (D1s ++ c :: D3s)); try assumption; try lia.
        -- cbn [stk setStk]. rewrite <- app_assoc. reflexivity.
        -- eapply PEI_same; [|exact Q1]. rewrite E3. repeat split; reflexivity.
        -- eapply others_same; [|exact Q2]. rewrite E3. repeat split; reflexivity.
        -- intros Hf. rewrite E3. exact (Q3 Hf).
    + assert (Ed3 : delStack ((low ++ D1s) ++ [o] ++ [c] ++ D3s) (oi + 1) (oi + 1 + 1) = (low ++ D1s) ++ [o] ++ D3s).
      { replace ((low ++ D1s) ++ [o] ++ [c] ++ D3s) with (((low ++ D1s) ++ [o]) ++ [c] ++ D3s) by (rewrite <- !app_assoc; reflexivity).
        replace (oi + 1 + 1) with (len ((low ++ D1s) ++ [o]) + len [c]) by (rewrite len_app; change (len [o]) with 1; change (len [c]) with 1; lia).
        replace (oi + 1) with (len ((low ++ D1s) ++ [o])) by (rewrite len_app; change (len [o]) with 1; lia).
        rewrite (delStack_app3 ((low ++ D1s) ++ [o]) [c] D3s). rewrite <- !app_assoc. reflexivity. }
      rewrite Ed3.
      destruct (plen (nodeOf _ (d_node c)) =? 0) eqn:Eb2.
      * specialize (Hstep false true HP Hg1 Hg2 Hk). cbv zeta in Hstep. cbv beta iota in Hstep. destruct Hstep as (Q1 & Q2 & Q3 & Q4).
        apply (Hfin _ (D1s ++ o :: D3s)); try assumption; try lia.
        -- cbn [stk setStk]. rewrite <- app_assoc. reflexivity.
        -- eapply PEI_same; [|exact Q1]. rewrite E3. repeat split; reflexivity.
        -- eapply others_same; [|exact Q2]. rewrite E3. repeat split; reflexivity.
        -- intros Hf. rewrite E3. exact (Q3 Hf).
      * specialize (Hstep false false HP Hg1 Hg2 Hk). cbv zeta in Hstep. cbv beta iota in Hstep. destruct Hstep as (Q1 & Q2 & Q3 & Q4).
        apply (Hfin _ (D1s ++ o :: c :: D3s)); try assumption; try lia.
        -- cbn [stk setStk]. rewrite <- app_assoc. reflexivity.
        -- eapply PEI_same; [|exact Q1]. rewrite E3. repeat split; reflexivity.
        -- eapply others_same; [|exact Q2]. rewrite E3. repeat split; reflexivity.
        -- intros Hf. rewrite E3. exact (Q3 Hf).
  - (* no opener for this closer *)
    assert (HOB' : OBI (len low) (setOB ob (obIndex c) cp1)) by (apply OBI_set; [exact HO|unfold OBN; lia|lia]).
    destruct (negb (hasFlag c fOpener)).
    + destruct (split_at1 (stk st) cp1 ltac:(lia)) as (P & Q & Esplit & HlenP).
      rewrite <- Ec in Esplit.
      destruct (app_prefix_len low high P (c :: Q)) as (D1s & EP & Ehigh); [rewrite <- Es; exact Esplit|lia|].
      subst P high.
      assert (Ed : delStack (stk st) cp1 (cp1 + 1) = low ++ D1s ++ Q).
      { rewrite Esplit. change (c :: Q) with ([c] ++ Q).
        replace (cp1 + 1) with (len (low ++ D1s) + len [c]) by (change (len [c]) with 1; lia). rewrite <- HlenP at 1.
        rewrite (delStack_app3 (low ++ D1s) [c] Q). rewrite <- app_assoc. reflexivity. }
      rewrite Ed. apply (Hfin _ (D1s ++ Q)); try assumption; try lia.
      * reflexivity.
      * apply PEI_setStk. rewrite sids_app in *. rewrite sids_cons in HP. apply (PEI_del tw (sids low) (sids D1s) [d_node c] (sids Q)). exact HP.
      * unfold others. cbn. repeat split; lia.
      * intros _. apply RF_refl.
      * intros x Hx. rewrite sids_app in *. rewrite sids_cons. apply in_app_or in Hx. apply in_or_app. destruct Hx; [left; assumption|right; right; assumption].
    + apply (Hfin _ high); try assumption; try lia.
      * apply others_refl.
      * intros _. apply RF_refl.
      * tauto.
Qed.

Definition OB0 (sb : Z) : list Z := repeat sb 14.
Lemma OBI_init sb : OBI sb (repeat sb 14).
Proof.
  split; [reflexivity|]. intros b Hb. unfold getOB, OBN in *.
  assert (Hn : (Z.to_nat b < 14)%nat) by lia. revert Hn. generalize (Z.to_nat b). intros n Hn.
  do 14 (destruct n as [|n]; [cbn; lia|]). lia.
Qed.

Theorem processEmphasis_PEI tw low high st :
  stk st = low ++ high -> PEI tw (sids low) (sids high) st ->
  stk (processEmphasis st (len low)) = low /\ PEI tw (sids low) [] (processEmphasis st (len low)) /\
  others st (processEmphasis st (len low)) /\
  (fl (sids high) (ids (rk st)) = [] -> RF (rk st) (rk (processEmphasis st (len low)))).
Proof.
  intros Es HP. unfold processEmphasis.
  destruct (pe_loop_PEI tw low (4 * (length (stk st) + length (isrc st)) + 8) st (repeat (len low) 14) (len low) high Es HP (OBI_init _) ltac:(lia))
    as (high' & B1 & B2 & B3 & B4 & B5).
  cbn [stk setStk]. rewrite B1. split; [apply upto_app_len|]. split; [|split].
  - apply PEI_setStk. apply (PEI_del tw (sids low) [] (sids high') []). cbn [app]. rewrite app_nil_r. exact B2.
  - exact B3.
  - exact B4.
Qed.
