(* ItemSimDrv1.v -- T65: QS2Drv1.v (T58) for the list item: the position maps of item mk NN D (sigmaK / epsBK relative to a buffer
   offset o), the reader hook equations for a region of D (QRdrOcp, unchanged: its hypothesis SGood is about any monotone position map
   that skips over the inserted bytes), and one line of the nested run against one line of the plain run (stages 1 and 2 combined):
   line_stepI for the lines after the first, line_stepI_first for the first line. *)
From Coq Require Import List ZArith Lia Bool Arith.
Import ListNotations.
Require Import Base Tree Rdr Link Collect Html Recog LP Rules Starts Driver Rec16 Rec17 Rec18 L2Kind L2CC NoPanic47 StreamFuel SliceBase LADef IFBase BSOrph
  QuoteSimDefs QuoteSimTree QuoteSimNest QuoteSimQLine QuoteSimMap QuoteSimReloc QuoteSimAux QuoteSimLines QuoteSimDrv1 QuoteSimSpec
  QCutsDef QCuts QRdrBase QRdrLink QRdrCollect QRdrOcp QRdrKids QS2Drv1
  SliceNest ItemSimDefs ItemSimNest ItemSimQLine ItemSimFirst ItemSimReloc ItemSimLines.
Require BlankPrefix QS2Nest QS2Reloc.
Open Scope Z_scope.

Section ItemDoc.
  Variables (mk : bytes) (NN KK : Z) (D : bytes).
  Hypothesis K_eq : KK + 0 = len mk + NN.
  Hypothesis N_pos : 0 <= NN.
  Hypothesis K_pos : 1 <= KK.
  Hypothesis mk_noEol : BlankPrefix.noEol mk.
  Hypothesis D_first : exists c r, D = c :: r /\ c <> 10.

  Definition Idoc : bytes := item mk NN D.
  Definition sgI (o x : Z) : Z := let y := o + x in if y <? 0 then y else sigmaK KK D y.
  Definition eBI (o e : Z) : Z := if e <? 0 then e else epsBK KK D (o + e).
  Definition lpI (o : Z) (u : inline) : inline :=
    match u with Inl k s e ind rf kids =>
      Inl k (sgI o s) (epsG (sgI o) s e) ind rf (flat_map (QRdrCollect.qK (from_ D o) (sgI o)) kids) end.
  Definition MOI (o : Z) : block -> block := rB (sgI o) (eBI o) (lpI o).
  Lemma lpI_kind o u : ikind (lpI o u) = ikind u. Proof. destruct u; reflexivity. Qed.
  Lemma eBI_neg o e : e < 0 -> eBI o e = e.
  Proof. intros H. unfold eBI. destruct (Z.ltb_spec e 0); [reflexivity|lia]. Qed.
  Lemma eBI_pos o e : 0 <= o -> 0 <= e -> 0 <= eBI o e.
  Proof. intros Ho H. unfold eBI. destruct (Z.ltb_spec e 0); [lia|]. apply (epsBK_nonneg mk NN KK K_eq N_pos). lia. Qed.
  Lemma lpI_spec o bi : 0 <= bi <= len (from_ D o) -> forall k s e rf kids, isLinkPart k = true -> Forall (QRdrCollect.inR (upto (from_ D o) bi)) kids ->
    lpI o (Inl k s e 0 rf kids) = Inl k (sgI o s) (epsG (sgI o) s e) 0 rf (flat_map (QRdrCollect.qK (upto (from_ D o) bi) (sgI o)) kids).
  Proof.
    intros Hbi k s e rf kids _ Hk. unfold lpI. f_equal. induction kids as [|u kids IH]; [reflexivity|]. inversion Hk as [|? ? Hu Hr]; subst.
    cbn [flat_map]. rewrite (qK_prefix D o bi _ u Hu Hbi), (IH Hr). reflexivity.
  Qed.

  (* ---- the bytes of item D ---- *)
  Lemma indentAux_at : forall l b p, 0 <= p < len l ->
    at_ (indentAux KK b l) (p + KK * (nlc (upto l p) + (if b then 1 else 0))) = at_ l p.
  Proof.
    induction l as [|c r IH]; intros b p Hp; [unfold len in Hp; cbn in Hp; lia|]. rewrite len_cons in Hp. cbn [indentAux].
    set (P := if b then spaces KK else []).
    assert (LP : len P = KK * (if b then 1 else 0)) by (unfold P; destruct b; [rewrite len_spaces' by lia; lia|cbn; lia]).
    destruct (Z.eq_dec p 0) as [->|Np].
    - change (upto (c :: r) 0) with (@nil Z). cbn [nlc]. replace (0 + KK * (0 + (if b then 1 else 0))) with (len P + 0) by lia.
      rewrite at_app_shift by lia. reflexivity.
    - rewrite upto_cons by lia. cbn [nlc]. specialize (IH (c =? 10) (p - 1) ltac:(lia)).
      pose proof (nlc_nonneg (upto r (p - 1))) as Hn0.
      replace (p + KK * ((if c =? 10 then 1 else 0) + nlc (upto r (p - 1)) + (if b then 1 else 0)))
        with (len P + ((p - 1 + KK * (nlc (upto r (p - 1)) + (if c =? 10 then 1 else 0))) + 1)) by (rewrite LP; destruct (c =? 10), b; lia).
      rewrite at_app_shift by (destruct (c =? 10); nia). rewrite at_consS by (destruct (c =? 10); nia). rewrite IH. replace p with ((p - 1) + 1) at 2 by lia. rewrite at_consS by lia. reflexivity.
  Qed.
  Lemma sigmaK_at p : 0 <= p < len D -> at_ Idoc (sigmaK KK D p) = at_ D p.
  Proof.
    intros H. unfold Idoc, item, sigmaK, nl. replace (len mk + NN) with KK by lia. rewrite app_assoc.
    pose proof (nlc_nonneg (upto D p)) as Hn0.
    replace (p + KK * (nlc (upto D p) + 1)) with (len (mk ++ spaces NN) + (p + KK * (nlc (upto D p) + 0))) by (rewrite len_app, len_spaces' by lia; lia).
    rewrite at_app_shift by nia. apply (indentAux_at D false p H).
  Qed.
  Lemma sigmaK_mono x y : 0 <= x -> x < y -> sigmaK KK D x < sigmaK KK D y.
  Proof. intros Hx H. unfold sigmaK. pose proof (nl_mono D x y ltac:(lia)). nia. Qed.
  Lemma sigmaK_nn x : 0 <= x -> 0 <= sigmaK KK D x.
  Proof. intros H. unfold sigmaK, nl. pose proof (nlc_nonneg (upto D x)). nia. Qed.
  Lemma sigmaK_succ x : 0 <= x < len D -> sigmaK KK D (x + 1) = sigmaK KK D x + 1 + (if at_ D x =? 10 then KK else 0).
  Proof. intros H. unfold sigmaK. rewrite (nl_succ D x H). destruct (at_ D x =? 10); lia. Qed.

Section Line.
  Notation Q := Idoc.
  Hypothesis D_tab : noTab D.
  Hypothesis D_cr : noCR D.
  Hypothesis D_nul : noNul D.

  Notation OPd := QS2Drv1.OPd.
  Notation OPd_ext := QS2Drv1.OPd_ext.
  Notation OPd_nil := QS2Drv1.OPd_nil.
  Notation OPd_setext := QS2Drv1.OPd_setext.
  Notation ceB2 sD sQ sg := (ItemSimReloc.ceB sD sQ sg (OPd sD sg)).
  Notation ceL2 sD sQ sg := (ItemSimReloc.ceL sD sQ sg (OPd sD sg)).

  (* ---- the relocation facts of a region [o, o + bi) of the document (the lines of the open root block) ---- *)
  Lemma epsBK_le_lenI y : 0 < y <= len D -> epsBK KK D y <= len Q.
  Proof.
    intros Hy. assert (Dne : D <> []) by (intros E; rewrite E in Hy; change (len (@nil Z)) with 0 in Hy; lia).
    unfold Idoc. rewrite (len_item_epsBK mk NN KK K_eq N_pos D Dne D_first). unfold epsBK. destruct (Z.leb_spec y 0); [lia|]. destruct (Z.leb_spec (len D) 0); [lia|].
    destruct (Z.eq_dec y (len D)) as [->|N]; [lia|]. pose proof (sigmaK_mono (y - 1) (len D - 1) ltac:(lia) ltac:(lia)). lia.
  Qed.

  Section Region.
    Variables (o bi : Z).
    Hypothesis Ho : 0 <= o.
    Hypothesis Hbi : 0 < bi.
    Hypothesis Hend : o + bi <= len D.
    Let sD := upto (from_ D o) bi.
    Let sQ := upto Q (epsBK KK D (o + bi)).

    Lemma reg_lens : len sD = bi /\ len sQ = epsBK KK D (o + bi) /\ bi <= len (from_ D o) /\ epsBK KK D (o + bi) = sigmaK KK D (o + bi - 1) + 1.
    Proof.
      assert (Hbf : bi <= len (from_ D o)) by (rewrite len_from by lia; lia).
      assert (E : epsBK KK D (o + bi) = sigmaK KK D (o + bi - 1) + 1) by (unfold epsBK; destruct (Z.leb_spec (o + bi) 0); [lia|reflexivity]).
      split; [unfold sD; apply len_upto'; lia|]. split; [|split; [exact Hbf|exact E]].
      unfold sQ. apply len_upto'. split; [rewrite E; pose proof (sigmaK_nn (o + bi - 1) ltac:(lia)); lia|apply epsBK_le_lenI; lia].
    Qed.

    Lemma sD_at x : 0 <= x < bi -> at_ sD x = at_ D (o + x).
    Proof. intros H. destruct reg_lens as (_ & _ & Hbf & _). unfold sD. rewrite at_upto_lt by lia. apply at_from; lia. Qed.
    Lemma sgI_abs x : 0 <= x -> sgI o x = sigmaK KK D (o + x).
    Proof. intros H. unfold sgI. cbv zeta. destruct (Z.ltb_spec (o + x) 0); [lia|reflexivity]. Qed.

    Lemma SGood_line : SGood sD sQ (sgI o).
    Proof.
      destruct reg_lens as (LsD & LsQ & Hbf & EQ).
      assert (Hlt : forall x, 0 <= x < len sD -> sgI o x < len sQ).
      { intros x Hx. rewrite sgI_abs by lia. rewrite LsD in Hx. rewrite LsQ, EQ.
        destruct (Z.eq_dec x (bi - 1)) as [->|N]; [replace (o + (bi - 1)) with (o + bi - 1) by lia; lia|]. pose proof (sigmaK_mono (o + x) (o + bi - 1) ltac:(lia) ltac:(lia)) as M. lia. }
      constructor.
      - intros x y Hx Hxy. rewrite !sgI_abs by lia. apply sigmaK_mono; lia.
      - intros x Hx. rewrite sgI_abs by lia. apply sigmaK_nn. lia.
      - intros x Hx. rewrite LsD in Hx. rewrite (sD_at x Hx). unfold sQ. rewrite at_upto_lt by (split; [rewrite sgI_abs by lia; apply sigmaK_nn; lia|rewrite <- LsQ; apply Hlt; rewrite LsD; lia]).
        rewrite sgI_abs by lia. apply sigmaK_at. lia.
      - exact Hlt.
      - intros x Hx Hx1 N. rewrite LsD in Hx1. rewrite sD_at in N by lia. rewrite !sgI_abs by lia. replace (o + (x + 1)) with (o + x + 1) by lia.
        rewrite sigmaK_succ by lia. destruct (Z.eqb_spec (at_ D (o + x)) 10); [contradiction|lia].
      - intros x Hx Hx1 N. rewrite LsD in Hx1. rewrite sD_at in N by lia. rewrite !sgI_abs by lia. replace (o + (x + 1)) with (o + x + 1) by lia.
        rewrite sigmaK_succ by lia. rewrite N. change (10 =? 10) with true. cbv iota. lia.
      - intros _. rewrite LsD, LsQ, EQ, sgI_abs by lia. replace (o + (bi - 1)) with (o + bi - 1) by lia. reflexivity.
      - intros x Hx. rewrite LsD in Hx. rewrite sD_at by lia. apply (Forall_at (fun c => c <> 0)); [exact D_nul|lia].
      - rewrite LsD. lia.
    Qed.

    Lemma eBI_m1 : eBI o (-1) = -1. Proof. reflexivity. Qed.
    Lemma eBI_end q : 0 <= q < len sD -> eBI o (q + 1) = sgI o q + 1.
    Proof.
      intros Hq. unfold eBI. destruct (Z.ltb_spec (q + 1) 0); [lia|]. rewrite sgI_abs by lia. unfold epsBK. destruct (Z.leb_spec (o + (q + 1)) 0); [lia|]. f_equal. f_equal. lia.
    Qed.
    Lemma lp_line : forall k s e rf kids, isLinkPart k = true -> Forall (QRdrCollect.inR sD) kids ->
      lpI o (Inl k s e 0 rf kids) = Inl k (sgI o s) (epsG (sgI o) s e) 0 rf (flat_map (QRdrCollect.qK sD (sgI o)) kids).
    Proof. destruct reg_lens as (_ & _ & Hbf & _). apply lpI_spec. lia. Qed.

    Notation M := (rB (sgI o) (eBI o) (lpI o)).
    Notation OP := (OPd sD (sgI o)).

    (* the hook equations *)
    Lemma ceB_cut_orig b pos i : ceB2 sD sQ (sgI o) b -> isOpen b = false -> isParaK (bkind b) = true ->
      ceB2 sD sQ (sgI o) (set_bik (set_bstart b pos) (from_ (bik b) i)) /\ isOpen (set_bik (set_bstart b pos) (from_ (bik b) i)) = false /\ isParaK (bkind (set_bik (set_bstart b pos) (from_ (bik b) i))) = true.
    Proof.
      intros H Hc Hk. apply ItemSimReloc.ceB_eq in H. destruct H as (A & B & C & L4 & Dk).
      assert (E : bkind (set_bik (set_bstart b pos) (from_ (bik b) i)) = bkind b /\ bik (set_bik (set_bstart b pos) (from_ (bik b) i)) = from_ (bik b) i /\
                  bkids (set_bik (set_bstart b pos) (from_ (bik b) i)) = bkids b /\ isOpen (set_bik (set_bstart b pos) (from_ (bik b) i)) = isOpen b) by (destruct b; repeat split).
      destruct E as (E0 & E1 & E2 & E3). split; [|split; [rewrite E3; exact Hc|rewrite E0; exact Hk]].
      apply ItemSimReloc.ceB_eq. rewrite E0, E1, E2.
      assert (Sub : forall (P : inline -> Prop), Forall P (bik b) -> Forall P (from_ (bik b) i)).
      { intros P HP. unfold from_. rewrite <- (firstn_skipn (Z.to_nat i) (bik b)) in HP. apply Forall_app in HP. apply HP. }
      split; [intros K; apply Sub, A, K|]. split; [intros K; apply Sub, B, K|]. split; [|split; [apply Sub, L4|exact Dk]].
      intros K. destruct (C K) as [En|[G _]].
      - left. rewrite E1, En. unfold from_. apply skipn_nil.
      - right. rewrite E1. split; [apply GoodIk_from, G|]. intros _ Ho'. rewrite E3, Hc in Ho'. discriminate Ho'.
    Qed.
    Lemma ceB_refDef s e kids : Forall (ItemSimReloc.lpOKk LinkReferenceDefinitionKind) kids -> ceB2 sD sQ (sgI o) (refDefBlock s e kids).
    Proof. intros Hk. apply ItemSimReloc.ceB_eq. unfold refDefBlock. cbn [bkind bik bkids]. split; [intros K; exfalso; apply K; reflexivity|]. split; [discriminate|]. split; [discriminate|]. split; [exact Hk|constructor]. Qed.

    Lemma ocp_ceL b : ceB2 sD sQ (sgI o) b -> isOpen b = false -> isParaK (bkind b) = true -> bkind b <> SetextHeadingKind \/ (exists o1, bik o1 = bik b /\ bkind o1 <> SetextHeadingKind /\ lastIsPara (onCloseParagraph sD o1) = true) ->
      ceL2 sD sQ (sgI o) (onCloseParagraph sD b).
    Proof.
      intros H Hc Hk Hs.
      assert (En : orphanOf sD b = None \/ exists o1, bik o1 = bik b /\ bkind o1 <> SetextHeadingKind /\ lastIsPara (onCloseParagraph sD o1) = true).
      { destruct Hs as [Hs|Hs]; [left; apply orphanOf_para, Hs|right; exact Hs]. }
      clear Hs. destruct (bik b) as [|first rest] eqn:E; [rewrite (ocp_unfold_nil sD b E); constructor; [exact H|constructor]|].
      rewrite (ocp_unfold sD b first rest E).
      assert (Hnone : Forall (ItemSimReloc.ceB sD sQ (sgI o) OP) (ocp_loop (S (length (bik b))) (rfuelOf sD) sD b None (newReader sD (bik b) (istart first)) [])).
      { apply (ocp_forall (ItemSimReloc.ceB sD sQ (sgI o) OP) (fun x => ItemSimReloc.ceB sD sQ (sgI o) OP x /\ isOpen x = false /\ isParaK (bkind x) = true)).
        - intros s e kids. apply ceB_refDef.
        - intros x Hx. apply Hx.
        - intros x pos i (X1 & X2 & X3). apply ceB_cut_orig; assumption.
        - intros x (X1 & X2 & X3). apply ItemSimReloc.ceB_eq in X1. destruct X1 as (_ & X1 & _). exact (X1 X3).
        - split; [exact H|split; assumption].
        - constructor. }
      destruct En as [En|(o1 & E1 & K1 & HL)]; [rewrite En; exact Hnone|].
      rewrite (ocp_unfold sD o1 first rest E1), (orphanOf_para sD o1 K1) in HL.
      rewrite E1, <- E in HL. rewrite (ocp_orphan_irrel _ _ sD o1 b _ _ [] [] ltac:(rewrite E1, E; reflexivity) HL). exact Hnone.
    Qed.

    Lemma M_set_bend b e : rB (sgI o) (eBI o) (lpI o) (set_bend b e) = set_bend (rB (sgI o) (eBI o) (lpI o) b) (eBI o e).
    Proof. destruct b; reflexivity. Qed.

    Lemma HocpC_line b e : ceB2 sD sQ (sgI o) b -> isParaK (bkind b) = true -> isOpen b = true -> 0 <= e ->
      onCloseParagraph sQ (M (set_bend b e)) = map M (onCloseParagraph sD (set_bend b e)) /\ ceL2 sD sQ (sgI o) (onCloseParagraph sD (set_bend b e)).
    Proof.
      intros H Hk Hob He. pose proof (ItemSimReloc.ceB_OP _ _ _ _ b H Hk) as Hop.
      assert (E : bkind (set_bend b e) = bkind b /\ bik (set_bend b e) = bik b /\ bkids (set_bend b e) = bkids b) by (destruct b; repeat split). destruct E as (E0 & E1 & E2).
      assert (Hcl : isOpen (set_bend b e) = false) by (destruct b; unfold isOpen; cbn [set_bend bend]; apply Z.ltb_ge; exact He).
      assert (H1 : ceB2 sD sQ (sgI o) (set_bend b e)) by (apply (ItemSimReloc.ceB_same sD sQ (sgI o) OP (OPd_ext sD (sgI o)) b); [exact E0|exact E1|exact E2|intros _; exact Hob|exact H]).
      destruct Hop as [En|[G S]].
      - split; [|rewrite (ocp_unfold_nil sD (set_bend b e)) by (rewrite E1; exact En); constructor; [exact H1|constructor]].
        rewrite (ocp_unfold_nil sD (set_bend b e)) by (rewrite E1; exact En). rewrite (ocp_unfold_nil sQ) by (rewrite (bik_rB (sgI o) (eBI o) (lpI o)), E1, En; reflexivity). reflexivity.
      - assert (G1 : GoodIk sD (sgI o) (bik (set_bend b e))) by (rewrite E1; exact G).
        destruct (Z.eq_dec (bkind b) SetextHeadingKind) as [Es|Ns].
        + destruct (S Es Hob) as (o1 & O1 & O2 & O3). split.
          * apply (q_onCloseParagraph_setext sD sQ (sgI o) (eBI o) (lpI o) SGood_line eBI_m1 eBI_end lp_line (set_bend b e) o1 G1); [rewrite E1; exact O1|exact O2|exact O3].
          * apply ocp_ceL; [exact H1|exact Hcl|rewrite E0; exact Hk|right; exists o1; rewrite E1; repeat split; assumption].
        + split.
          * apply (q_onCloseParagraph sD sQ (sgI o) (eBI o) (lpI o) SGood_line eBI_m1 eBI_end lp_line (set_bend b e) G1). rewrite E0. exact Ns.
          * apply ocp_ceL; [exact H1|exact Hcl|rewrite E0; exact Hk|left; rewrite E0; exact Ns].
    Qed.
    Lemma HocpP_line b : ceB2 sD sQ (sgI o) b -> bkind b = ParagraphKind -> onCloseParagraph sQ (M b) = map M (onCloseParagraph sD b).
    Proof.
      intros H Hk. pose proof (ItemSimReloc.ceB_OP _ _ _ _ b H ltac:(rewrite Hk; reflexivity)) as [En|[G _]].
      - rewrite (ocp_unfold_nil sD b En). rewrite (ocp_unfold_nil sQ) by (rewrite (bik_rB (sgI o) (eBI o) (lpI o)), En; reflexivity). reflexivity.
      - apply (q_onCloseParagraph sD sQ (sgI o) (eBI o) (lpI o) SGood_line eBI_m1 eBI_end lp_line b G). rewrite Hk. discriminate.
    Qed.
  End Region.

  Lemma line_lens o ls a pre body eol post : 0 <= o -> 0 <= ls -> a = o + ls -> lineAt D a pre body eol post ->
    let bi := ls + len body + len eol in
    a + len body + len eol <= len D /\ len (upto (from_ D o) bi) = bi /\ len (upto Q (epsBK KK D a + KK + len body + len eol)) = epsBK KK D a + KK + len body + len eol /\
    0 < len body + len eol /\ len eol <= 1 /\ bi <= len (from_ D o) /\ epsBK KK D a + KK + len body + len eol = epsBK KK D (o + bi).
  Proof.
    intros Ho Hls Ea L. cbv zeta.
    pose proof L as (ED & Ha & Hb & He & Hp & Hne). pose proof (len_nonneg body) as Hlb. pose proof (len_nonneg eol) as Hle.
    destruct (lineAt_I mk NN KK K_eq N_pos mk_noEol D a pre body eol post D_cr L) as (Q1 & Q2 & Q3 & Q4).
    assert (HlenD : a + len body + len eol <= len D) by (rewrite ED, !len_app; pose proof (len_nonneg post); lia).
    assert (Hpos : 0 < len body + len eol).
    { destruct body as [|c0 b0]; [|rewrite len_cons; pose proof (len_nonneg b0); lia]. destruct eol as [|c1 e1]; [contradiction|rewrite len_cons; pose proof (len_nonneg e1); change (len (@nil Z)) with 0; lia]. }
    assert (Hel : len eol <= 1) by (destruct He as [->|[-> _]]; [change (len [10]) with 1|change (len (@nil Z)) with 0]; lia).
    assert (Hbf : ls + len body + len eol <= len (from_ D o)) by (rewrite len_from by lia; lia).
    split; [exact HlenD|]. split; [apply len_upto'; lia|]. split; [apply len_upto'; pose proof (epsBK_nonneg mk NN KK K_eq N_pos D a ltac:(lia)); unfold Idoc; lia|].
    split; [exact Hpos|]. split; [exact Hel|]. split; [exact Hbf|].
    replace (o + (ls + len body + len eol)) with (a + (len body + len eol)) by lia. rewrite (lineAt_epsBK_in KK D a pre body eol post (len body + len eol) L) by lia. lia.
  Qed.


  Lemma noTab_spaces k : noTab (spaces k).
  Proof. unfold spaces, noTab. apply Forall_forall. intros x Hx. apply repeat_spec in Hx. subst x. discriminate. Qed.
  Lemma noTabL_of l : noTab l -> QuoteSimFuel.noTabL l. Proof. exact (fun H => H). Qed.

  (* ---- one line after the first, both runs ---- *)
  Lemma line_stepI o ls a pre body eol post st stQ ks bl it (fr : frame) :
    0 <= o -> 0 <= ls -> a = o + ls -> 0 < a -> lineAt D a pre body eol post -> isBlankLine (body ++ eol) = false ->
    let bi := ls + len body + len eol in
    let sD := upto (from_ D o) bi in
    let lsq := epsBK KK D a in
    let sQ := upto Q (lsq + KK + len body + len eol) in
    ccF ks = true -> ceL2 sD sQ (sgI o) ks -> (st = stDescendTerminated -> HMk ks) ->
    bkind bl = ListKind -> isOpen bl = true -> bkids bl = [it] ->
    bkind it = ListItemKind -> isOpen it = true -> bindent it = KK -> auxOf it = snd fr -> bkids it = fst fr ++ map (MOI o) ks -> Forall closedB (fst fr) ->
    exists bl' it' (beta : bool),
      processLine stQ [bl] lsq sQ = ([bl'], snd (fst (processLine st ks ls sD)), snd (processLine st ks ls sD)) /\
      bkind bl' = ListKind /\ isOpen bl' = true /\ auxOf bl' = auxOf bl /\ bkids bl' = [it'] /\
      bkind it' = ListItemKind /\ isOpen it' = true /\ auxOf it' = snd fr /\
      Forall closedB (fst (QS2Nest.blankFr beta fr)) /\
      bkids it' = fst (QS2Nest.blankFr beta fr) ++ map (MOI o) (fst (fst (processLine st ks ls sD))) /\
      (beta = true -> fst (fst (processLine st ks ls sD)) = []) /\
      ItemSimReloc.ceL0 sD sQ (sgI o) (fst (fst (processLine st ks ls sD))).
  Proof.
    intros Ho Hls Ea Ha0 L Hnbl. cbv zeta. intros Hcc Hce Hst Kl Ol El Ki Oi Ei Hax Hkids Hcl.
    set (bi := ls + len body + len eol). set (sD := upto (from_ D o) bi). set (lsq := epsBK KK D a). set (sQ := upto Q (lsq + KK + len body + len eol)).
    pose proof L as (ED & Ha & Hb & He & Hp & Hne). pose proof (len_nonneg body) as Hlb. pose proof (len_nonneg eol) as Hle.
    destruct (lineAt_I mk NN KK K_eq N_pos mk_noEol D a pre body eol post D_cr L) as (Q1 & Q2 & Q3 & Q4). fold lsq in Q1, Q2, Q3, Q4. fold Idoc in Q2, Q3, Q4.
    destruct (line_lens o ls a pre body eol post Ho Hls Ea L) as (HlenD & LsD & LsQ & Hpos & Hel & Hbf & EQe). fold bi in LsD, Hbf, EQe. fold sD in LsD. fold lsq in LsQ, EQe. fold sQ in LsQ.
    assert (Hbi0 : 0 < bi) by (unfold bi; lia). assert (Hend : o + bi <= len D) by (unfold bi; lia).
    assert (EsQ2 : sQ = upto Q (epsBK KK D (o + bi))) by (unfold sQ; rewrite EQe; reflexivity).
    assert (EsD : from_ sD ls = body ++ eol).
    { unfold sD, bi. rewrite upto_from_comm by lia. rewrite from_from by lia. replace (o + (ls + len body + len eol)) with (a + len body + len eol) by lia.
      rewrite <- Ea. apply (lineAt_line D a pre body eol post L). }
    assert (Epf : pfx mk NN KK a = spaces KK) by (unfold pfx; replace (a =? 0) with false by (symmetry; apply Z.eqb_neq; lia); reflexivity).
    assert (EsQ : from_ sQ lsq = spaces KK ++ (body ++ eol)) by (rewrite <- Epf; exact Q3).
    assert (Hlsq : 0 <= lsq) by (apply (epsBK_nonneg mk NN KK K_eq N_pos); lia).
    assert (Hne' : from_ sD ls <> []) by (rewrite EsD; exact Hne).
    assert (Hnt : noTab (body ++ eol)) by (rewrite <- EsD; apply noTab_from, noTab_upto, noTab_from, D_tab).
    rewrite (processLine_state st ks ls sD Hne' Hst).
    assert (Hnb2 : isBlankLine (spaces KK ++ body ++ eol) = false).
    { unfold isBlankLine in *. rewrite forallb_app. rewrite Hnbl. apply andb_false_r. }
    assert (Hnt2 : QuoteSimFuel.noTabL (spaces KK ++ body ++ eol)) by (apply Forall_app; split; [apply noTab_spaces|exact Hnt]).
    destruct (processLine_item fr stQ bl it (map (MOI o) ks) lsq sQ KK (body ++ eol) EsQ K_pos Hnb2 Hnt2 Kl Ol El Ki Oi Ei Hax Hkids Hcl ltac:(unfold MOI; rewrite ccF_map_rB; exact Hcc))
      as (bl' & it' & beta & EP & L1 & L2 & L3 & L4 & K1 & K2 & K3 & K4 & K6 & K7).
    assert (RL : processLineAt KK KK stDescending (map (MOI o) ks) lsq sQ =
                 (map (MOI o) (fst (fst (processLine stDescending ks ls sD))), snd (fst (processLine stDescending ks ls sD)), snd (processLine stDescending ks ls sD)) /\
                 ItemSimReloc.ceL0 sD sQ (sgI o) (fst (fst (processLine stDescending ks ls sD)))).
    { apply (ItemSimReloc.reloc_line sD sQ (sgI o) (eBI o) (lpI o) ls lsq (body ++ eol) (len body) (spaces KK) KK) with (OP := OPd sD (sgI o)); try assumption.
      - apply len_spaces'. lia.
      - apply noTab_spaces.
      - lia.
      - apply eBI_neg.
      - intros e He0. apply eBI_pos; assumption.
      - rewrite len_app. lia.
      - intros x Hx. unfold sgI. cbv zeta. replace (o + (ls + x)) with (a + x) by lia. destruct (Z.ltb_spec (a + x) 0); [lia|].
        apply (lineAt_sigmaK KK D a pre body eol post x L Hx).
      - unfold eBI. destruct (Z.ltb_spec ls 0); [lia|]. rewrite <- Ea. reflexivity.
      - intros x Hx. rewrite len_app in Hx. unfold eBI. destruct (Z.ltb_spec (ls + x) 0); [lia|]. replace (o + (ls + x)) with (a + x) by lia.
        apply (lineAt_epsBK_in KK D a pre body eol post x L Hx).
      - intros x Hx. unfold sgI. cbv zeta. destruct (Z.ltb_spec (o + x) 0); [lia|]. apply (lineAt_monoK_ge mk NN KK K_eq N_pos D a pre body eol post (o + x) L). lia.
      - intros x Hx. unfold sgI. cbv zeta. destruct (Z.ltb_spec (o + x) 0); [lia|]. apply (lineAt_monoK_lt KK D a pre body eol post (o + x) K_pos L). lia.
      - apply OPd_ext.
      - apply OPd_nil.
      - apply lpI_kind.
      - intros b e Hb0 Hk0 Ho0 He0. revert Hb0. rewrite EsQ2. intros Hb0. apply (HocpC_line o bi Ho Hbi0 Hend b e Hb0 Hk0 Ho0 He0).
      - intros b Hb0 Hk0. revert Hb0. rewrite EsQ2. intros Hb0. apply (HocpP_line o bi Ho Hbi0 Hend b Hb0 Hk0).
      - intros Hlt. rewrite len_app in Hlt. destruct He as [->|[-> _]]; [|change (len (@nil Z)) with 0 in Hlt; lia].
        rewrite at_app_r by lia. replace (len body - len body) with 0 by lia. reflexivity.
      - rewrite LsD. unfold bi. lia.
      - rewrite LsQ. lia.
      - rewrite len_app. destruct He as [->|[-> _]]; [right|left; change (len (@nil Z)) with 0; lia].
        change (len [10]) with 1. split; [lia|]. rewrite at_app_r by lia. replace (len body - len body) with 0 by lia. reflexivity.
      - rewrite len_app. lia.
      - apply OPd_setext. }
    destruct RL as [RL1 RL2]. rewrite RL1 in EP, K6, K7. cbn [fst snd] in EP, K6, K7.
    exists bl', it', beta. repeat split; try assumption.
    intros Hbeta. specialize (K7 Hbeta). destruct (fst (fst (processLine stDescending ks ls sD))); [reflexivity|discriminate K7].
  Qed.

  (* ---- the first line, both runs ---- *)
  Lemma line_stepI_first delim n body eol post st0 : mkOK mk delim n -> 1 <= NN <= 4 -> noTab mk ->
    lineAt D 0 [] body eol post -> (exists c0 r, body = c0 :: r /\ isSpaceTabOrLineEnding c0 = false) ->
    parseThematicBreak (mk ++ spaces NN ++ body ++ eol) < 0 -> st0 <> stDescendTerminated ->
    let bi := 0 + len body + len eol in
    let sD := upto (from_ D 0) bi in
    let sQ := upto Q (0 + KK + len body + len eol) in
    let fr : frame := ([markerBlk 0 (0 + len mk)], itemSk 0 KK delim) in
    exists bl' it' (beta : bool),
      processLine st0 [] 0 sQ = ([bl'], snd (fst (processLine st0 [] 0 sD)), snd (processLine st0 [] 0 sD)) /\
      bkind bl' = ListKind /\ isOpen bl' = true /\ auxOf bl' = listSk 0 delim /\ bkids bl' = [it'] /\
      bkind it' = ListItemKind /\ isOpen it' = true /\ auxOf it' = itemSk 0 KK delim /\
      Forall closedB (fst (QS2Nest.blankFr beta fr)) /\
      bkids it' = fst (QS2Nest.blankFr beta fr) ++ map (MOI 0) (fst (fst (processLine st0 [] 0 sD))) /\
      (beta = true -> fst (fst (processLine st0 [] 0 sD)) = []) /\
      ItemSimReloc.ceL0 sD sQ (sgI 0) (fst (fst (processLine st0 [] 0 sD))).
  Proof.
    intros Hmk HN Hmt L (c0 & r0 & Eb0 & Hc0) Htb Hst0. cbv zeta.
    set (bi := 0 + len body + len eol). set (sD := upto (from_ D 0) bi). set (sQ := upto Q (0 + KK + len body + len eol)).
    pose proof L as (ED & Ha & Hb & He & Hp & Hne). pose proof (len_nonneg body) as Hlb. pose proof (len_nonneg eol) as Hle.
    destruct (lineAt_I mk NN KK K_eq N_pos mk_noEol D 0 [] body eol post D_cr L) as (Q1 & Q2 & Q3 & Q4). fold Idoc in Q2, Q3, Q4.
    assert (E0 : epsBK KK D 0 = 0) by reflexivity. rewrite E0 in Q2, Q3, Q4.
    destruct (line_lens 0 0 0 [] body eol post ltac:(lia) ltac:(lia) eq_refl L) as (HlenD & LsD & LsQ & Hpos & Hel & Hbf & EQe). rewrite E0 in LsQ, EQe. fold bi in LsD, Hbf, EQe. fold sD in LsD. fold sQ in LsQ.
    assert (Hbi0 : 0 < bi) by (unfold bi; lia). assert (Hend : 0 + bi <= len D) by (unfold bi; lia).
    assert (EsQ2 : sQ = upto Q (epsBK KK D (0 + bi))) by (unfold sQ; rewrite EQe; reflexivity).
    assert (EsD : from_ sD 0 = body ++ eol).
    { unfold sD, bi. rewrite upto_from_comm by lia. rewrite from_from by lia. replace (0 + (0 + len body + len eol)) with (0 + len body + len eol) by lia.
      apply (lineAt_line D 0 [] body eol post L). }
    assert (Epf : pfx mk NN KK 0 = mk ++ spaces NN) by reflexivity.
    assert (EsQ : from_ sQ 0 = mk ++ spaces NN ++ c0 :: (r0 ++ eol)).
    { unfold sQ. rewrite Q3, Epf, Eb0. rewrite <- app_assoc. reflexivity. }
    assert (Hne' : from_ sD 0 <> []) by (rewrite EsD; exact Hne).
    assert (Hnt : noTab (body ++ eol)) by (rewrite <- EsD; apply noTab_from, noTab_upto, noTab_from, D_tab).
    assert (Hst' : st0 = stDescendTerminated -> HMk []) by (intros E; contradiction).
    rewrite (processLine_state st0 [] 0 sD Hne' Hst').
    assert (Hnt2 : QuoteSimFuel.noTabL (from_ sQ 0)).
    { rewrite EsQ. replace (mk ++ spaces NN ++ c0 :: r0 ++ eol) with ((mk ++ spaces NN) ++ body ++ eol) by (rewrite Eb0, <- app_assoc; reflexivity).
      apply Forall_app. split; [apply Forall_app; split; [exact Hmt|apply noTab_spaces]|exact Hnt]. }
    assert (Htb2 : parseThematicBreak (from_ sQ 0) < 0).
    { rewrite EsQ. replace (mk ++ spaces NN ++ c0 :: r0 ++ eol) with (mk ++ spaces NN ++ body ++ eol) by (rewrite Eb0; reflexivity). exact Htb. }
    destruct (processLine_item_first st0 0 sQ mk delim n NN c0 (r0 ++ eol) Hmk HN ltac:(lia) EsQ Hc0 Hnt2 Htb2 Hst0)
      as (bl' & it' & beta & EP & L1 & L2 & L3 & L4 & K1 & K2 & K3 & K4 & K6 & K7).
    replace (len mk + NN) with KK in EP, K3, K4, K6, K7 by lia.
    assert (RL : processLineAt KK KK stDescending (map (MOI 0) []) 0 sQ =
                 (map (MOI 0) (fst (fst (processLine stDescending [] 0 sD))), snd (fst (processLine stDescending [] 0 sD)), snd (processLine stDescending [] 0 sD)) /\
                 ItemSimReloc.ceL0 sD sQ (sgI 0) (fst (fst (processLine stDescending [] 0 sD)))).
    { apply (ItemSimReloc.reloc_line sD sQ (sgI 0) (eBI 0) (lpI 0) 0 0 (body ++ eol) (len body) (mk ++ spaces NN) KK) with (OP := OPd sD (sgI 0)); try assumption; try reflexivity.
      - rewrite len_app, len_spaces' by lia. lia.
      - apply Forall_app. split; [exact Hmt|apply noTab_spaces].
      - lia.
      - apply eBI_neg.
      - intros e He0. apply eBI_pos; [lia|assumption].
      - rewrite len_app. lia.
      - intros x Hx. unfold sgI. cbv zeta. destruct (Z.ltb_spec (0 + (0 + x)) 0); [lia|]. replace (0 + (0 + x)) with (0 + x) by lia.
        rewrite (lineAt_sigmaK KK D 0 [] body eol post x L Hx). rewrite E0. lia.
      - intros x Hx. rewrite len_app in Hx. unfold eBI. destruct (Z.ltb_spec (0 + x) 0); [lia|]. replace (0 + (0 + x)) with (0 + x) by lia.
        rewrite (lineAt_epsBK_in KK D 0 [] body eol post x L Hx). rewrite E0. lia.
      - intros x Hx. unfold sgI. cbv zeta. destruct (Z.ltb_spec (0 + x) 0); [lia|]. pose proof (lineAt_monoK_ge mk NN KK K_eq N_pos D 0 [] body eol post (0 + x) L ltac:(lia)) as Hm. rewrite E0 in Hm. exact Hm.
      - intros x Hx. unfold sgI. cbv zeta. destruct (Z.ltb_spec (0 + x) 0); lia.
      - apply OPd_ext.
      - apply OPd_nil.
      - apply lpI_kind.
      - intros b e Hb0 Hk0 Ho0 He0. revert Hb0. rewrite EsQ2. intros Hb0. apply (HocpC_line 0 bi ltac:(lia) Hbi0 Hend b e Hb0 Hk0 Ho0 He0).
      - intros b Hb0 Hk0. revert Hb0. rewrite EsQ2. intros Hb0. apply (HocpP_line 0 bi ltac:(lia) Hbi0 Hend b Hb0 Hk0).
      - intros Hlt. rewrite len_app in Hlt. destruct He as [->|[-> _]]; [|change (len (@nil Z)) with 0 in Hlt; lia].
        rewrite at_app_r by lia. replace (len body - len body) with 0 by lia. reflexivity.
      - rewrite LsD. unfold bi. lia.
      - rewrite LsQ. lia.
      - rewrite len_app. destruct He as [->|[-> _]]; [right|left; change (len (@nil Z)) with 0; lia].
        change (len [10]) with 1. split; [lia|]. rewrite at_app_r by lia. replace (len body - len body) with 0 by lia. reflexivity.
      - rewrite len_app. lia.
      - apply OPd_setext.
      - constructor. }
    destruct RL as [RL1 RL2]. cbn [map] in RL1. rewrite RL1 in EP, K6, K7. cbn [fst snd] in EP, K6, K7.
    exists bl', it', beta. repeat split; try assumption.
    intros Hbeta. specialize (K7 Hbeta). destruct (fst (fst (processLine stDescending [] 0 sD))); [reflexivity|discriminate K7].
  Qed.
End Line.
End ItemDoc.
