From Coq Require Import List ZArith Lia Bool.
Import ListNotations.
Require Import Base Tree Driver Props.
Open Scope Z_scope.

(* ===== Block-layer leaves (property C03, block half) =====
   The spans that carry text after parseBlocks and before the inline pass:
   - every inline entry of a leaf block (paragraph, ATX / setext heading, indented / fenced code block, HTML block):
     one span per entry (the InfoString entry of a fenced code block counts as ONE span);
   - for link reference definition blocks: the CHILDREN of the label / destination / title entries;
   - every ListMarkerKind block;
   - containers (document, list, list item, block quote) contribute the leaves of their block children, in order;
     a thematic break contributes nothing. *)
Definition ispan (i : inline) : Z * Z := (istart i, iend i).
Definition isLeafK (k : Z) : bool :=
  (k =? ParagraphKind) || (k =? ATXHeadingKind) || (k =? SetextHeadingKind) || (k =? IndentedCodeBlockKind) ||
  (k =? FencedCodeBlockKind) || (k =? HTMLBlockKind).
Definition defSpans (ik : list inline) : list (Z * Z) := flat_map (fun i => map ispan (ikids i)) ik.
Fixpoint entryLeaves (b : block) : list (Z * Z) :=
  match b with Blk k s e bk ik _ _ _ _ _ =>
    if isLeafK k then map ispan ik
    else if k =? ListMarkerKind then [(s, e)]
    else if k =? LinkReferenceDefinitionKind then defSpans ik
    else flat_map entryLeaves bk
  end.

(* sorted by start, every span well formed, each end <= next start: pairwise disjoint *)
Fixpoint disjFrom (lo : Z) (l : list (Z * Z)) : Prop :=
  match l with [] => True | se :: r => lo <= fst se /\ fst se <= snd se /\ disjFrom (snd se) r end.
Fixpoint disjFromb (lo : Z) (l : list (Z * Z)) : bool :=
  match l with [] => true | se :: r => (lo <=? fst se) && (fst se <=? snd se) && disjFromb (snd se) r end.

(* ===== the "lines accounted" invariant =====
   tx: the bytes that must be covered.  On the padded buffer a NUL byte stands for (a third of) U+FFFD, which is textual
   in the root's source, so NUL counts. *)
Definition tx (c : Z) : bool := textual c || (c =? 0).
Definition NT (src : bytes) (a b : Z) : Prop := forall q, a <= q < b -> tx (at_ src q) = false.
Definition isEOLz (c : Z) : bool := (c =? 10) || (c =? 13).

(* an Unparsed entry of a paragraph is a non-empty piece of one line: it does not start with a line ending and a line
   ending occurs only as its last byte, or as CR LF in its last two bytes *)
Definition lineOK (src : bytes) (s e : Z) : Prop :=
  s < e /\ isEOLz (at_ src s) = false /\
  (forall q, s <= q < e -> isEOLz (at_ src q) = true -> q = e - 1 \/ (q = e - 2 /\ at_ src q = 13 /\ at_ src (e - 1) = 10)) /\
  (e = len src \/ isEOLz (at_ src (e - 1)) = true).
Definition isParaK (k : Z) : bool := (k =? ParagraphKind) || (k =? SetextHeadingKind).
(* spans in ascending order inside [lo, hi], pairwise disjoint (a tiling without the condition on the gaps) *)
Fixpoint ordIn (lo hi : Z) (l : list (Z * Z)) : Prop :=
  match l with
  | [] => lo <= hi
  | se :: r => lo <= fst se /\ fst se <= snd se /\ ordIn (snd se) hi r
  end.
(* the leaves (Props.leavesI) of an entry lie in order inside the entry *)
Definition lvOK (u : inline) : Prop := ordIn (istart u) (iend u) (leavesI u).
(* facts about one entry of a leaf block of kind K *)
Definition eok (src : bytes) (K : Z) (u : inline) : Prop :=
  (ikind u = IndentKind -> NT src (istart u) (iend u)) /\
  (isParaK K = true -> ((ikind u = IndentKind /\ iend u = istart u + 1 /\ iindent u <= 3) \/ (ikind u = UnparsedKind /\ lineOK src (istart u) (iend u)))) /\
  lvOK u.

(* the entries of a paragraph: an Indent entry (the rest of a partially consumed tab) is always followed by the text of its line *)
Fixpoint indOK (l : list inline) : Prop :=
  match l with
  | [] => True
  | a :: r => (ikind a = IndentKind -> match r with b :: _ => ikind b <> IndentKind | [] => False end) /\ indOK r
  end.

(* spans tile [lo, hi): ascending, well formed, and the gaps hold no byte that must be covered *)
Fixpoint tileS (src : bytes) (lo hi : Z) (l : list (Z * Z)) : Prop :=
  match l with
  | [] => lo <= hi /\ NT src lo hi
  | se :: r => lo <= fst se /\ NT src lo (fst se) /\ fst se <= snd se /\ tileS src (snd se) hi r
  end.
(* block children tile [lo, hi); an open child is the last one and only allowed in an open parent (op = true) *)
Fixpoint tchain (src : bytes) (op : bool) (lo hi : Z) (l : list block) : Prop :=
  match l with
  | [] => lo <= hi /\ NT src lo hi
  | c :: r => lo <= bstart c /\ NT src lo (bstart c) /\
              (if bend c <? 0 then op = true /\ r = [] else bstart c <= bend c /\ tchain src op (bend c) hi r)
  end.

Section AllP.
  Context {A : Type} (P : A -> Prop).
  Fixpoint allQ (l : list A) : Prop := match l with [] => True | x :: r => P x /\ allQ r end.
End AllP.

(* a good cut position: the start, the end of the source, or just after a byte that is not NUL *)
Definition bnd0 (src : bytes) (e : Z) : Prop := e = 0 \/ e = len src \/ at_ src (e - 1) <> 0.

(* la src M b: relative to the position M up to which the input has been consumed, block b accounts for every byte of its
   span: closed blocks for [start, end), open blocks for [start, M) *)
Fixpoint la (src : bytes) (M : Z) (b : block) : Prop :=
  match b with Blk K s e bk ik _ _ _ _ _ =>
    0 <= s <= M /\ (e < 0 \/ (s <= e <= M /\ bnd0 src e)) /\ (e < 0 -> K <> SetextHeadingKind) /\
    (let hi := if e <? 0 then M else e in
     if isLeafK K then tileS src s hi (map ispan ik) /\ Forall (eok src K) ik /\ (isParaK K = true -> indOK ik)
     else if K =? ListMarkerKind then (e < 0 -> NT src s hi) /\ ik = []
     else if K =? LinkReferenceDefinitionKind then tileS src s hi (defSpans ik) /\ ordIn s hi (flat_map leavesI ik)
     else tchain src (e <? 0) s hi bk /\ ik = []) /\
    allQ (la src M) bk
  end.
