From Coq Require Import List ZArith Lia Bool String Ascii.
Import ListNotations.
Require Import Base Tree LP Driver Inl3e Props BShDef BShTest C13Full T48Test.
Open Scope Z_scope.
Open Scope string_scope.
Definition chkEx (input : bytes) : bool * bool :=
  let '(rs, code) := parseFull input in
  (forallb (fun r => exemptOK (rb_src r) (rb_blk r)) rs, forallb chk_C13_root rs).
Definition x1 := bs ("```a&amp;b \* c&#35;" ++ nul ++ " &;&x; d\" ++ nl ++ "code" ++ nl ++ "```" ++ nl ++ "~~~  i " ++ tab ++ " j  " ++ nl ++ "~~~" ++ nl ++ "````&amp" ++ nl).
Definition x2 := bs ("[foo" ++ nl ++ "bar]: /url" ++ nl ++ "  'title" ++ nl ++ "over &amp; lines \' '" ++ nl ++ "[b]: <a b&#35;>" ++ nl ++ "[c]:" ++ nl ++ "  /d" ++ nl ++ "  (t&quot;)" ++ nl ++ "rest" ++ nl).
Definition x3 := bs (">" ++ tab ++ "[a" ++ nl ++ ">" ++ tab ++ tab ++ "b\]]: /u&amp;" ++ nl ++ "> " ++ tab ++ "'t" ++ nl ++ ">" ++ tab ++ "u'" ++ nl ++ "- [x]: y" ++ nl ++ tab ++ "'z'" ++ nl ++ "- ```  i&nf;o &lt;" ++ nl ++ tab ++ "c" ++ nl).
Definition x4 := bs ("[a]: b 'c'" ++ nl ++ "[d]: e 'f' g" ++ nl ++ "[h]: i" ++ nl ++ "'j" ++ nl ++ nl ++ "[k" ++ nul ++ "]: l" ++ nul ++ " " ++ nl ++ "===" ++ nl ++ "[m]: <>" ++ nl ++ "[n]: o" ++ cr ++ "'p'" ++ cr ++ nl ++ "[q]:r").
Definition x5 := bs ("   ```  " ++ nl ++ "```` ``" ++ nl ++ "``` a`b" ++ nl ++ "~~~ a`b~ \" ++ nl ++ "~~~" ++ nl ++ "``` &" ++ nl ++ "```" ++ nl ++ "``` &#x1F600; \&amp;" ++ cr ++ nl).
Definition xs := [x1;x2;x3;x4;x5].
Eval vm_compute in map chkEx xs.
Eval vm_compute in map chkEx nuls.
Eval vm_compute in map chkEx BShTest.all.
Close Scope string_scope.
Fixpoint skI (i : inline) : list Z := match i with Inl k s e _ _ ks => [k; s; e] ++ [-1] ++ flat_map skI ks ++ [-2] end.
Fixpoint exB (fuel : nat) (b : block) : list (Z * list Z) :=
  match fuel with O => [] | S f =>
  (if (bkind b =? LinkReferenceDefinitionKind) || (bkind b =? FencedCodeBlockKind) then [(bkind b, flat_map skI (bik b))] else []) ++ flat_map (exB f) (bkids b) end.
Eval vm_compute in map (fun r => exB 10 (rb_blk r)) (fst (parseFull x2)).
Eval vm_compute in map (fun r => exB 10 (rb_blk r)) (fst (parseFull x3)).
Eval vm_compute in map (fun r => exB 10 (rb_blk r)) (fst (parseFull x1)).
