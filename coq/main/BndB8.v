From Coq Require Import List ZArith Lia Bool.
Import ListNotations.
Require Import Base Tables Utf8 Tree Rdr Link Collect Html Recog Inl3a Inl3b Inl3c Inl3d Inl3e LP Rules Starts Driver Leaf3e RdrBound
  L2Kind L2CC L2CCfull L2Bnd L2BndS Rec16 Rec17 Rec18
  BSDef BSRdr BSTree BSOcp BSOrph BSClose BSLine1 BSLine2 BSLine3 BSLine4 BSLine5 BSLine6 BSLine7 BSLine8 BSErase BSLine9 BSLine10 BSShift BlockSpans.
Require Import BlockShapesNul.
Require Import Props ShapesBase EntBase EntOcpDefs EntOcp EntTree EntCur EntLP1 EntLP8 EntDrv.
Require Import BndDefs BndUtf8 BndBDefs BndB1 BndB2 BndB7.
Open Scope Z_scope.

(* ================================================================== *)
(* BndB8: the driver (makeRoot, lineLoop, skipLoop, nextBlock,         *)
(* allBlocks).  On top of the stream invariants of T7 / T28 (SJ, EJ):  *)
(* the buffer has no continuation byte after an ASCII byte and does    *)
(* not begin with one (adjF 0), and every span end of the pending      *)
(* blocks is good in the buffer.                                       *)
(* ================================================================== *)

Lemma gdb_move B n p : 0 <= n <= len B -> boundary_ok (from_ B n) 0 = true -> gdb B p = true -> gdb (from_ B n) (p - n) = true.
Proof.
  intros Hn H0 H. destruct (Z.le_gt_cases p n) as [L|L]; [apply gdb_neg; [lia|exact H0]|]. apply gdb_shift; try assumption; lia.
Qed.
Lemma gI_shift B n : 0 <= n <= len B -> boundary_ok (from_ B n) 0 = true ->
  forall i, gI (gdb B) i = true -> gI (gdb (from_ B n)) (shiftI (- n) i) = true.
Proof.
  intros Hn H0. fix IH 1. intros [k s e ind r ks]. cbn [gI shiftI]. intros H.
  apply andb_true_iff in H. destruct H as [H H3]. apply andb_true_iff in H. destruct H as [H1 H2].
  replace (s + - n) with (s - n) by lia. rewrite (gdb_move B n s Hn H0 H1).
  assert (He : gdb (from_ B n) (if 0 <=? e then e + - n else e) = true).
  { destruct (Z.leb_spec 0 e); [replace (e + - n) with (e - n) by lia; apply gdb_move; assumption|apply gdb_neg'; lia]. }
  rewrite He. cbn [andb].
  induction ks as [|x l IHl]; [reflexivity|]. cbn [map forallb] in *. apply andb_true_iff in H3. destruct H3 as [Hx Hl].
  rewrite (IH x Hx), (IHl Hl). reflexivity.
Qed.
Lemma gB_shift B n : 0 <= n <= len B -> boundary_ok (from_ B n) 0 = true ->
  forall b, gB (gdb B) b = true -> gB (gdb (from_ B n)) (shiftB (- n) b) = true.
Proof.
  intros Hn H0. fix IH 1. intros [k s e bk ik a nn c l lb]. cbn [gB shiftB]. intros H.
  apply andb_true_iff in H. destruct H as [H H4]. apply andb_true_iff in H. destruct H as [H H3]. apply andb_true_iff in H. destruct H as [H1 H2].
  replace (s + - n) with (s - n) by lia. rewrite (gdb_move B n s Hn H0 H1).
  assert (He : gdb (from_ B n) (if 0 <=? e then e + - n else e) = true).
  { destruct (Z.leb_spec 0 e); [replace (e + - n) with (e - n) by lia; apply gdb_move; assumption|apply gdb_neg'; lia]. }
  rewrite He. cbn [andb].
  assert (Hk : forallb (gB (gdb (from_ B n))) (map (shiftB (- n)) bk) = true).
  { induction bk as [|x r IHr]; [reflexivity|]. cbn [map forallb] in *. apply andb_true_iff in H3. destruct H3 as [Hx Hr].
    rewrite (IH x Hx), (IHr Hr). reflexivity. }
  rewrite Hk. cbn [andb]. apply forallb_forall. intros y Hy. apply in_map_iff in Hy. destruct Hy as (x & <- & Hx).
  rewrite forallb_forall in H4. apply (gI_shift B n Hn H0), H4, Hx.
Qed.

(* a root block together with the buffer it was cut from *)
Definition okRB (r : rootB) : Prop :=
  exists B, 0 <= bend (rb_blk r) <= len B /\ rb_src r = fillNulls (upto B (bend (rb_blk r))) /\ tri (upto B (bend (rb_blk r))) /\
            adjF 0 B /\ gB (gdb B) (rb_blk r) = true.

(* what is proved about a root: the source has the two properties the inline parser needs, and every span end of the
   pre-inline tree lies on a character boundary of the source *)
Lemma okRB_bnd r : okRB r -> asciiOK (rb_src r) /\ boundary_ok (rb_src r) 0 = true /\ bndB (rb_src r) (rb_blk r) = true.
Proof.
  intros (B & Hn & Es & Ht & Ha & Hg). rewrite Es.
  destruct (adjF_asciiOK _ (adjF_fill _ Ht 0 (adjF_upto B 0 (bend (rb_blk r)) Ha))) as [A1 A2].
  split; [exact A1|]. split; [exact A2|]. apply gB_fill; assumption.
Qed.

Section Drv.
  Hypothesis HocpAll : forall B, adjF 0 B -> OcpG B.

  Definition GJ (s : bpst) (ch : list block) : Prop := adjF 0 (buf s) /\ gL (gdb (buf s)) ch = true.
  Definition gNE (x : nb) : Prop := match x with NBBlock r s' => okRB r /\ GJ s' (pending s') | _ => True end.

  Lemma adjF_cut B n : adjF 0 B -> 0 <= n -> gdb B n = true -> adjF 0 (from_ B n).
  Proof.
    intros Ha Hn Hg. apply (adjF_from B 0 n Hn Ha). unfold gdb in Hg. apply andb_true_iff in Hg. destruct Hg as [Hg _].
    unfold boundary_ok in Hg. destruct (Z.ltb_spec n (len B)); [apply negb_true_iff in Hg; exact Hg|rewrite at_beyond by lia; reflexivity].
  Qed.
  Lemma adjF_cut_eol B n : adjF 0 B -> 0 <= n -> prevOK B n -> adjF 0 (from_ B n).
  Proof.
    intros Ha Hn Hp. destruct (adjF_asciiOK B Ha) as [HV HV0]. apply adjF_cut; [exact Ha|exact Hn|].
    destruct Hp as [E|[E|E]].
    - rewrite E. apply gdb_neg; [lia|exact HV0].
    - apply gdb_prev; [exact HV| |]; destruct E as [E|E]; rewrite E; lia.
    - apply gdb_end. lia.
  Qed.

  Lemma GJ_makeRoot s children ns r s' : SJ s children ns -> EJ s children -> GJ s children -> makeRoot children s = Some (r, s') ->
    okRB r /\ GJ s' (pending s').
  Proof.
    intros ((Hb & Hc & Hn) & Hcc & Ha & Hch) (He & Hp & Ht) (Hadj & Hg) Hm.
    unfold makeRoot in Hm. destruct children as [|b rest]; [discriminate|].
    destruct (isOpen b) eqn:Eo; [discriminate|]. inversion Hm; subst. clear Hm.
    unfold isOpen in Eo. apply Z.ltb_ge in Eo. destruct Ha as [Sb Sr]. destruct He as [Eb Er].
    pose proof (sp_bounds _ _ Sb) as Hbb.
    destruct (tri_cut (buf s) Ht (bend b) (en_end_bdy _ _ _ Eb Eo)) as [T1 T2].
    unfold gL in Hg. cbn [forallb] in Hg. apply andb_true_iff in Hg. destruct Hg as [Gb Gr].
    assert (Gn : gdb (buf s) (bend b) = true) by (apply (gB_parts _ _ Gb)).
    assert (Hadj' : adjF 0 (from_ (buf s) (bend b))) by (apply adjF_cut; [exact Hadj|lia|exact Gn]).
    split.
    - exists (buf s). cbn [rb_blk rb_src]. split; [lia|]. split; [reflexivity|]. split; [exact T1|]. split; [exact Hadj|exact Gb].
    - split; cbn [buf pending]; [exact Hadj'|].
      unfold gL. apply forallb_forall. intros y Hy. apply in_map_iff in Hy. destruct Hy as (x & <- & Hx).
      rewrite forallb_forall in Gr. apply gB_shift; [lia|apply (adjF_asciiOK _ Hadj')|apply Gr, Hx].
  Qed.

  Lemma GJ_lineLoop : forall fuel st children ls s ns, 0 <= ls <= len (buf s) -> bi s = lineEnd (buf s) ls ->
    bndL ls ns children = true -> (ns = false -> ls = len (buf s)) -> ccF children = true -> kidsOK ls children ->
    allP (en (buf s) ls) children -> prevOK (buf s) ls -> tri (buf s) -> GJ s children ->
    gNE (lineLoop fuel st children ls s).
  Proof.
    induction fuel as [|f IH]; intros st children ls s ns Hls Hbi Hc Hn Hcc Hk He Hp Ht HG; [exact I|]. cbn [lineLoop].
    destruct (lineEnd_spec (buf s) ls Hls) as [A B]. rewrite <- Hbi in A, B.
    set (ln := from_ (upto (buf s) (bi s)) ls).
    destruct (line_of (buf s) ls (bi s) ltac:(lia) ltac:(lia)) as [Ll _]. fold ln in Ll.
    set (ns' := if ns then hasByteSuffixEOL ln else false).
    assert (Hc' : bndL (bi s) ns' children = true).
    { unfold ns'. destruct ns.
      - pose proof (bndL_mono ls (bi s) children ltac:(lia) Hc) as Hm. destruct (hasByteSuffixEOL ln); [exact Hm|apply bndL_weaken, Hm].
      - rewrite (Hn eq_refl) in *. replace (bi s) with (len (buf s)) by lia. exact Hc. }
    assert (Hn' : ns' = false -> bi s = len (buf s)).
    { unfold ns'. destruct ns; [|intros _; rewrite (Hn eq_refl) in *; lia].
      intros Ee. destruct (Z.lt_ge_cases (bi s) (len (buf s))) as [Lt|Ge]; [|lia].
      exfalso. rewrite Hbi in Lt. pose proof (line_hasEOL (buf s) ls Hls Lt) as Hh. rewrite <- Hbi in Hh. fold ln in Hh. congruence. }
    pose proof (L2BndS.bnd_processLine (bi s) ns' st children ls (upto (buf s) (bi s)) ltac:(lia) ltac:(lia) ltac:(fold ln; lia)
                  ltac:(rewrite L2BndS.len_upto by lia; lia) ltac:(unfold ns'; fold ln; destruct ns; [tauto|discriminate]) Hc') as H1.
    pose proof (sp_processLine (bi s) ns' st children ls (upto (buf s) (bi s)) ltac:(lia) ltac:(lia) ltac:(fold ln; lia)
                  ltac:(rewrite L2BndS.len_upto by lia; lia) ltac:(unfold ns'; fold ln; destruct ns; [tauto|discriminate]) Hc' Hcc Hk) as H2.
    pose proof (cc_processLine st children ls (upto (buf s) (bi s)) Hcc) as H3.
    pose proof (ent_processLine (buf s) (bi s) st children ls ltac:(lia) ltac:(lia) ltac:(lia) Hp
                  ltac:(rewrite Hbi; apply lineEnd_lineOK, Hls) Hcc Hk He) as H4.
    destruct HG as [Hadj Hg]. destruct (adjF_asciiOK _ Hadj) as [HV HV0].
    pose proof (BndB7.bnd_processLine (buf s) HV HV0 (HocpAll _ Hadj) (bi s) st children ls ltac:(lia) ltac:(lia) ltac:(lia) Hp
                  ltac:(rewrite Hbi; apply lineEnd_lineOK, Hls) Hcc Hk He Hg) as H5.
    destruct (processLine st children ls (upto (buf s) (bi s))) as [[children' st'] pn]. cbn [fst] in H1, H2, H3, H4, H5.
    destruct (negb (pn =? 0)); [exact I|].
    assert (HS : SJ s children' ns') by (split; [repeat split; try lia; assumption|split; assumption]).
    assert (Hp' : prevOK (buf s) (bi s)).
    { destruct (Z.lt_ge_cases (bi s) (len (buf s))) as [Lt|Ge]; [|right; right; lia]. destruct (B Lt) as [_ D]. right. left. apply isEOLb_z, D. }
    assert (HE : EJ s children') by (split; [assumption|split; assumption]).
    assert (HG' : GJ s children') by (split; assumption).
    destruct (makeRoot children' s) as [[r s']|] eqn:Em.
    - cbn [gNE]. apply (GJ_makeRoot _ _ _ _ _ HS HE HG' Em).
    - apply (IH st' children' (bi s) _ ns'); cbn [buf bi]; try assumption; try lia; reflexivity.
  Qed.

  Lemma GJ_skipLoop : forall fuel s, bi s = 0 -> tri (buf s) -> adjF 0 (buf s) -> gNE (skipLoop fuel s).
  Proof.
    induction fuel as [|f IH]; intros s Hb Ht Ha; [exact I|]. cbn [skipLoop]. cbv zeta.
    destruct (negb _); [exact I|].
    assert (Hls : 0 <= bi s <= len (buf s)) by (pose proof (len_nonneg (buf s)); lia).
    assert (Hpe : prevOK (buf s) (lineEnd (buf s) (bi s))).
    { destruct (lineEnd_spec (buf s) (bi s) Hls) as [A B]. destruct (Z.lt_ge_cases (lineEnd (buf s) (bi s)) (len (buf s))) as [Lt|Ge]; [|right; right; lia].
      destruct (B Lt) as [_ D]. right. left. apply isEOLb_z, D. }
    destruct (isBlankLine _).
    - apply IH; [reflexivity| |]; cbn [buf].
      + apply tri_cut; [exact Ht|]. apply prevOK_bdy, Hpe.
      + apply adjF_cut_eol; [exact Ha|destruct (lineEnd_spec (buf s) (bi s) Hls); lia|exact Hpe].
    - apply (GJ_lineLoop f 0 [] 0 _ true); cbn [buf bi];
        [lia|rewrite Hb; reflexivity|reflexivity|discriminate|reflexivity|split; exact I|exact I|left; reflexivity|exact Ht|split; [exact Ha|reflexivity]].
  Qed.

  Lemma GJ_nextBlock fuel s ns : SJ s (pending s) ns -> EJ s (pending s) -> GJ s (pending s) -> gNE (nextBlock fuel s).
  Proof.
    intros HS HE HG. unfold nextBlock. destruct (makeRoot (pending s) s) as [[r s']|] eqn:Em.
    - cbn [gNE]. apply (GJ_makeRoot _ _ _ _ _ HS HE HG Em).
    - destruct HS as ((Hb & Hc & Hn) & Hcc & Hk). destruct HE as (He & Hp & Ht). destruct (pending s) as [|b0 rest] eqn:Ep.
      + apply GJ_skipLoop; [reflexivity| |]; cbn [buf].
        * apply tri_cut; [exact Ht|apply prevOK_bdy, Hp].
        * destruct (Z.le_gt_cases (bi s) 0) as [L|L]; [rewrite from_neg by lia; apply HG|]. apply adjF_cut_eol; [apply HG|lia|exact Hp].
      + apply (GJ_lineLoop fuel 0 (b0 :: rest) (bi s) _ ns); cbn [buf bi]; try assumption; try lia; reflexivity.
  Qed.

  Lemma GJ_allBlocks : forall fuel s acc ns, SJ s (pending s) ns -> EJ s (pending s) -> GJ s (pending s) -> Forall okRB acc ->
    Forall okRB (fst (allBlocks fuel s acc)).
  Proof.
    induction fuel as [|f IH]; intros s acc ns HS HE HG Ha; [exact Ha|]. cbn [allBlocks].
    pose proof (EJ_nextBlock (3 + length (buf s)) s ns HS HE) as Hn.
    pose proof (GJ_nextBlock (3 + length (buf s)) s ns HS HE HG) as Hg.
    destruct (nextBlock _ s) as [r s'| | |]; try exact Ha.
    destruct Hn as (Hr & (ns' & Hs') & He'). destruct Hg as [Gr Gs'].
    apply (IH s' _ ns'); [exact Hs'|exact He'|exact Gs'|]. apply Forall_app. split; [exact Ha|]. constructor; [exact Gr|constructor].
  Qed.

  Theorem parseBlocks_okRB : forall input, validUtf8 input = true -> Forall okRB (fst (parseBlocks input)).
  Proof.
    intros input Hv. unfold parseBlocks. apply (GJ_allBlocks _ _ _ true); [| | |constructor].
    - split; [|split; [reflexivity|split; exact I]].
      unfold SI. cbn [buf bi pending]. pose proof (len_nonneg (pad input)). repeat split; try lia.
    - split; [exact I|split; [left; reflexivity|apply tri_pad]].
    - split; [cbn [buf]; apply valid_pad_adjF, Hv|reflexivity].
  Qed.
End Drv.
Print Assumptions parseBlocks_okRB.
