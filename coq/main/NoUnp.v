From Coq Require Import List ZArith Lia Bool.
Import ListNotations.
Require Import Base Tables Utf8 Tree Rdr Link Collect Html Recog Inl3a Inl3b Inl3c Inl3d Inl3e Leaf3a Leaf3b Leaf3e Leaf3n.
Open Scope Z_scope.

(* C05, 'no unparsed node remains': no node the inline parser builds is of kind Unparsed, at any depth *)
Section Clos.
  Fixpoint rfk (n : pn) : bool := match n with PN _ k _ _ _ _ ks => negb (k =? UnparsedKind) && forallb rfk ks end.
  Definition rfkF (l : list pn) : bool := forallb rfk l.

  Lemma rfkF_app a b : rfkF (a ++ b) = rfkF a && rfkF b. Proof. apply forallb_app. Qed.
  Lemma rfk_kids n : rfk n = true -> rfkF (pkids n) = true.
  Proof. destruct n. cbn. intros H. apply andb_true_iff in H. tauto. Qed.
  Lemma rfk_setKids n ks : rfk n = true -> rfkF ks = true -> rfk (setKids n ks) = true.
  Proof. destruct n. cbn. intros H Hk. apply andb_true_iff in H. destruct H as [H _]. rewrite H. exact Hk. Qed.
  Lemma rfk_setSpan n s e : rfk (setSpan n s e) = rfk n. Proof. destruct n; reflexivity. Qed.
  Lemma rfk_setRef n r : rfk (setRef n r) = rfk n.
  Proof. destruct n. reflexivity. Qed.

  Lemma removeId_rfk id : forall fuel l, rfkF l = true -> rfkF (removeId fuel id l) = true.
  Proof.
    induction fuel as [|f IH]; intros l H; [assumption|]. cbn [removeId].
    destruct (hasId id l).
    - unfold rfkF in *. rewrite forallb_forall in *. intros x Hx. apply filter_In in Hx. apply H. tauto.
    - unfold rfkF in *. rewrite forallb_forall in *. intros x Hx. apply in_map_iff in Hx. destruct Hx as (n & <- & Hn).
      apply rfk_setKids; [apply H, Hn|]. apply IH. apply rfk_kids, H, Hn.
  Qed.
  Lemma updNode_rfk id g : (forall n, rfk n = true -> rfk (g n) = true) ->
    forall fuel l, rfkF l = true -> rfkF (updNode fuel id g l) = true.
  Proof.
    intros Hg. induction fuel as [|f IH]; intros l H; [assumption|]. cbn [updNode].
    unfold rfkF in *. rewrite forallb_forall in *. intros x Hx. apply in_map_iff in Hx. destruct Hx as (n & <- & Hn).
    destruct (pid n =? id); [apply Hg, H, Hn|]. apply rfk_setKids; [apply H, Hn|]. apply IH. apply rfk_kids, H, Hn.
  Qed.
  Lemma wrapLevel_rfk newId kind startId endId endStart parentEnd l : negb (kind =? UnparsedKind) = true ->
    rfkF l = true -> rfkF (wrapLevel newId kind startId endId endStart parentEnd l) = true.
  Proof.
    intros HK H. unfold wrapLevel.
    pose proof (splitAtId_app startId l) as E1. destruct (splitAtId startId l) as [pre post].
    pose proof (splitBeforeId_app endId post) as E2. destruct (splitBeforeId endId post) as [mid rest].
    subst l post. rewrite !rfkF_app in H. apply andb_true_iff in H. destruct H as [Hpre H].
    apply andb_true_iff in H. destruct H as [Hmid Hrest].
    rewrite !rfkF_app, Hpre, Hrest. cbn [andb]. unfold rfkF at 1. cbn [forallb rfk]. unfold rfkF in Hmid. rewrite HK, Hmid. reflexivity.
  Qed.
  Lemma wrapIn_rfk newId kind startId endId endStart : negb (kind =? UnparsedKind) = true ->
    forall fuel parentEnd l, rfkF l = true -> rfkF (wrapIn fuel newId kind startId endId endStart parentEnd l) = true.
  Proof.
    intros HK. induction fuel as [|f IH]; intros parentEnd l H; [assumption|]. cbn [wrapIn].
    destruct (hasId startId l); [apply wrapLevel_rfk; assumption|].
    unfold rfkF in *. rewrite forallb_forall in *. intros x Hx. apply in_map_iff in Hx. destruct Hx as (n & <- & Hn).
    apply rfk_setKids; [apply H, Hn|]. apply IH. apply rfk_kids, H, Hn.
  Qed.

  (* ---- state level ---- *)
  Variable U : list inline.
  Hypothesis HU : Forall (fun u => ikind u = UnparsedKind \/ rfk (ofInline u) = true) U.
  Definition InvR (st : ist) : Prop := True /\ unp st = U /\ rfkF (rk st) = true.

  Lemma R_addNode st k s e kids : InvR st -> negb (k =? UnparsedKind) = true -> rfkF kids = true -> InvR (fst (addNode st k s e kids)).
  Proof.
    intros (E1 & E2 & H) HK Hk. unfold addNode. destruct (spanLen s e =? 0); [repeat split; assumption|].
    cbn [fst]. unfold InvR, bumpId, setRk. cbn [matcher unp rk]. repeat split; try assumption.
    rewrite rfkF_app, H. unfold rfkF at 1. cbn [forallb rfk]. unfold rfkF in Hk. rewrite HK, Hk. reflexivity.
  Qed.
  Lemma R_addText st s e : InvR st -> InvR (addText st s e).
  Proof. intros H. unfold addText. apply R_addNode; [assumption|reflexivity|reflexivity]. Qed.
  Lemma R_wrap st kind a b : negb (kind =? UnparsedKind) = true -> InvR st -> InvR (fst (wrap st kind a b)).
  Proof.
    intros HK (E1 & E2 & H). unfold wrap. cbn [fst]. unfold InvR, bumpId, setRk. cbn [matcher unp rk]. repeat split; try assumption.
    apply wrapIn_rfk; assumption.
  Qed.
  Lemma R_remove st id : InvR st -> InvR (removeNode st id).
  Proof. intros (E1 & E2 & H). unfold removeNode, InvR, setRk. cbn [matcher unp rk]. repeat split; try assumption. apply removeId_rfk, H. Qed.
  Lemma R_updN st id g : InvR st -> (forall n, rfk n = true -> rfk (g n) = true) -> InvR (updN st id g).
  Proof. intros (E1 & E2 & H) Hg. unfold updN, InvR, setRk. cbn [matcher unp rk]. repeat split; try assumption. apply updNode_rfk; assumption. Qed.
  Lemma R_setStk st v : InvR st -> InvR (setStk st v). Proof. exact (fun H => H). Qed.
  Lemma R_setUpos st v : InvR st -> InvR (setUpos st v). Proof. exact (fun H => H). Qed.
  Lemma R_setIgn st v : InvR st -> InvR (setIgn st v). Proof. exact (fun H => H). Qed.
  Lemma R_advanceTo st p : InvR st -> InvR (advanceTo st p).
  Proof. intros H. unfold advanceTo. destruct (0 <=? _); exact H. Qed.
  Lemma R_appendKid st id k : InvR st -> rfk k = true -> InvR (appendKid st id k).
  Proof.
    intros H Hk. unfold appendKid. apply R_updN; [assumption|]. intros n Hn. apply rfk_setKids; [assumption|].
    rewrite rfkF_app, (rfk_kids n Hn). cbn. rewrite Hk. reflexivity.
  Qed.
  Lemma R_span st id s e : InvR st -> InvR (updN st id (fun n => setSpan n s e)).
  Proof. intros H. apply R_updN; [assumption|]. intros n Hn. rewrite rfk_setSpan. exact Hn. Qed.

  (* ---- the parser, function by function ---- *)
  Lemma R_pe_loop : forall fuel st ob cp, InvR st -> InvR (pe_loop fuel st ob cp).
  Proof.
    induction fuel as [|f IH]; intros st ob cp H; [assumption|]. cbn [pe_loop].
    destruct (_ <? 0); [assumption|].
    destruct (_ <=? _).
    - match goal with |- context [wrap ?A ?K ?X ?Y] =>
        assert (HA : InvR A); [|assert (HKK : negb (K =? UnparsedKind) = true) by (destruct (_ && _); reflexivity);
                                pose proof (R_wrap A K X Y HKK HA) as HB; destruct (wrap A K X Y) as [stB wid]] end.
      + apply R_updN; [apply R_updN; [assumption|] |]; intros n Hn; rewrite rfk_setSpan; exact Hn.
      + cbn [fst] in HB.
        destruct (plen _ =? 0); destruct (plen _ =? 0); apply IH;
          repeat first [apply R_setStk | apply R_remove]; assumption.
    - destruct (negb _); apply IH; [apply R_setStk|]; assumption.
  Qed.
  Lemma R_processEmphasis st sb : InvR st -> InvR (processEmphasis st sb).
  Proof. intros H. unfold processEmphasis. apply R_setStk, R_pe_loop, H. Qed.
  Lemma R_finishLink st kind odi : InvR st -> InvR (finishLink st kind odi).
  Proof.
    intros H. unfold finishLink.
    destruct (kind =? LinkKind); repeat first [apply R_setStk | apply R_remove | apply R_processEmphasis]; assumption.
  Qed.

  (* nodes without a label, with label-free children *)
  Definition noref (n : pn) : Prop := rfk n = true.
  Lemma cs_addSpan_rfk src acc s e : rfkF acc = true -> rfkF (cs_addSpan src acc s e) = true.
  Proof.
    intros H. unfold cs_addSpan. cbv zeta.
    repeat match goal with |- context [if ?c then _ else _] => destruct c end;
      rewrite ?rfkF_app, ?H; reflexivity.
  Qed.
  Lemma rfk_setInd n v : rfk (setInd n v) = rfk n. Proof. destruct n; reflexivity. Qed.
  Lemma rfkF_rev l : rfkF (rev l) = rfkF l.
  Proof. unfold rfkF. induction l as [|x l IH]; [reflexivity|]. cbn [rev]. rewrite forallb_app, IH. cbn. rewrite andb_true_r. apply andb_comm. Qed.
  Lemma strip_rfk src sl : rfkF sl = true -> rfkF (stripCodeSpanSpace src sl) = true.
  Proof.
    intros H. unfold stripCodeSpanSpace.
    destruct (negb (existsb _ sl)); [assumption|].
    destruct sl as [|f r]; [assumption|].
    destruct (rev (f :: r)) as [|lst rr] eqn:Er; [assumption|].
    destruct (negb _ || negb _); [assumption|].
    cbv zeta.
    assert (H1 : rfkF (if pkind f =? IndentKind
                       then if pind (setInd f (pind f - 1)) =? 0 then r else setInd f (pind f - 1) :: r
                       else if plen (setSpan f (ps f + 1) (pe f)) =? 0 then r else setSpan f (ps f + 1) (pe f) :: r) = true).
    { unfold rfkF in *. cbn [forallb] in H. apply andb_true_iff in H. destruct H as [Hf Hr].
      destruct (pkind f =? IndentKind); [destruct (pind _ =? 0)|destruct (plen _ =? 0)]; try assumption;
        cbn [forallb]; rewrite ?rfk_setInd, ?rfk_setSpan, Hf, Hr; reflexivity. }
    set (sl1 := if pkind f =? IndentKind then _ else _) in *.
    destruct (rev sl1) as [|l rr'] eqn:Er1; [assumption|].
    assert (H2 : rfkF (l :: rr') = true) by (rewrite <- Er1, rfkF_rev; assumption).
    unfold rfkF in H2. cbn [forallb] in H2. apply andb_true_iff in H2. destruct H2 as [Hl Hrr].
    destruct (pkind l =? IndentKind); match goal with |- context [if ?c then _ else _] => destruct c end;
      rewrite rfkF_rev; unfold rfkF; cbn [forallb]; rewrite ?rfk_setInd, ?rfk_setSpan, ?Hl, ?Hrr; reflexivity.
  Qed.
  Lemma R_collectCodeSpan st a b c d : InvR st -> InvR (collectCodeSpan st a b c d).
  Proof.
    intros H. unfold collectCodeSpan. cbv zeta.
    destruct (nodeIndexForPosition (unpFrom st) d =? 0).
    - apply R_addNode; [assumption|reflexivity|]. apply strip_rfk, cs_addSpan_rfk. reflexivity.
    - match goal with |- context [?F (Z.to_nat _) (cs_addSpan (isrc st) [] ?x ?y) (upos st)] =>
        assert (HM : forall k acc up, rfkF acc = true -> rfkF (fst (F k acc up)) = true) end.
      { induction k as [|k IHk]; intros acc up Ha; [exact Ha|]. cbn [fst]. apply IHk.
        destruct (ikind _ =? UnparsedKind); [apply cs_addSpan_rfk|]; assumption. }
      match goal with |- context [?F (Z.to_nat ?n) (cs_addSpan (isrc st) [] ?x ?y) (upos st)] =>
        specialize (HM (Z.to_nat n) (cs_addSpan (isrc st) [] x y) (upos st) (cs_addSpan_rfk _ [] _ _ (eq_refl true)));
        destruct (F (Z.to_nat n) (cs_addSpan (isrc st) [] x y) (upos st)) as [acc up] end.
      cbn [fst] in HM.
      apply R_addNode; [apply R_setUpos; assumption|reflexivity|]. apply strip_rfk, cs_addSpan_rfk. assumption.
  Qed.

  Lemma R_lfl : forall fuel st i, InvR st -> InvR (fst (lfl fuel st i)).
  Proof.
    induction fuel as [|f IH]; intros st i H; [assumption|]. cbn [lfl].
    destruct (i <? 0); [assumption|]. destruct (_ || _); [|apply IH; assumption].
    destruct (negb _); [apply R_setStk|]; assumption.
  Qed.
  Lemma R_parseDelimiterRun st pos : InvR st -> InvR (fst (parseDelimiterRun st pos)).
  Proof.
    intros H. unfold parseDelimiterRun. cbv zeta.
    match goal with |- context [addNode ?a ?b ?c ?d ?e] =>
      pose proof (R_addNode a b c d e H eq_refl eq_refl) as H1; destruct (addNode a b c d e) as [st1 id] end.
    cbn [fst] in *. apply R_setStk. assumption.
  Qed.
  Lemma R_parseBackslash st pos : InvR st -> InvR (fst (parseBackslash st pos)).
  Proof.
    intros H. unfold parseBackslash. cbv zeta.
    destruct (_ || _ || _).
    - destruct (isLastSpan st); cbn [fst]; [apply R_addText; assumption|].
      apply R_addNode; [apply R_setIgn; assumption|reflexivity|reflexivity].
    - destruct (isASCIIPunctuation _); cbn [fst]; apply R_addText; assumption.
  Qed.


  Lemma kids_rfk tk spans l : negb (tk =? UnparsedKind) = true -> sublist spans U -> Forall (freshK tk spans) l -> rfkF (kidsOf l) = true.
  Proof.
    intros Htk Hs H. unfold rfkF, kidsOf. apply forallb_forall. intros x Hx. apply in_map_iff in Hx. destruct Hx as (i & <- & Hi).
    rewrite Forall_forall in H. destruct (H i Hi) as [(s & e & ->)|[(s & e & ->)|(Hin & Hk)]].
    - cbn. rewrite Htk. reflexivity.
    - reflexivity.
    - rewrite Forall_forall in HU. destruct (HU i (Hs i Hin)) as [E|E]; [rewrite Hk in E; discriminate|exact E].
  Qed.
  Lemma unpFrom_subU st : InvR st -> sublist (unpFrom st) U.
  Proof. intros (_ & E & _). unfold unpFrom, from_. rewrite E. apply sublist_skipn. Qed.
  Lemma collected_rfk st fuel src pos e tk esc : InvR st -> negb (tk =? UnparsedKind) = true ->
    rfkF (kidsOf (collectTextNodes fuel (newReader src (unpFrom st) pos) e tk esc)) = true.
  Proof.
    intros H Htk. apply (kids_rfk tk (unpFrom st)); [exact Htk|apply unpFrom_subU, H|]. apply collectTextNodes_kinds. cbn [newReader r_spans]. apply sublist_refl.
  Qed.
  Lemma unpFrom_updN st id g : unpFrom (updN st id g) = unpFrom st. Proof. reflexivity. Qed.

  Lemma R_parseEndBracket st start : InvR st -> InvR (fst (parseEndBracket st start)).
  Proof.
    intros H. unfold parseEndBracket. cbv zeta.
    assert (H1 : InvR (fst (lookForLinkOrImage st))) by (apply R_lfl; assumption).
    destruct (lookForLinkOrImage st) as [st1 odi]. cbn [fst] in H1.
    destruct (odi <? 0). { cbn [fst]. apply R_addText. exact H1. }
    remember (if d_typ (nthD (stk st1) odi) =? tImage then ImageKind else LinkKind) as kind eqn:Ekind.
    assert (HKK : negb (kind =? UnparsedKind) = true) by (subst kind; destruct (_ =? tImage); reflexivity).
    pose proof (R_wrap st1 kind (d_node (nthD (stk st1) odi)) None HKK H1) as HW.
    assert (Hfail : InvR (setStk (addText st1 start (start + 1)) (delStack (stk st1) odi (odi + 1)))).
    { apply R_setStk, R_addText. assumption. }
    match goal with |- context [match ?X with Some _ => _ | None => _ end] => destruct X as [[[[[ispan dspan] dtext] tspan] ttext]|] end.
    - destruct (wrap st1 kind _ None) as [st2 lid]. cbn [fst snd] in *.
      apply R_finishLink, R_advanceTo.
      assert (A1 : InvR (updN st2 lid (fun n => setSpan n (ps (nodeOf st1 (d_node (nthD (stk st1) odi)))) (snd ispan)))) by (apply R_span; exact HW).
      assert (Hnode : forall st' K s e (c : bool) fuel src pos e', InvR st' -> negb (K =? UnparsedKind) = true ->
                rfk (PN 0 K s e 0 [] (if c then kidsOf (collectTextNodes fuel (newReader src (unpFrom st') pos) e' TextKind true) else [])) = true).
      { intros st' K s e c fuel src pos e' Hst' HK. cbn [rfk]. rewrite HK. cbn [andb]. destruct c; [|reflexivity].
        fold (rfkF (kidsOf (collectTextNodes fuel (newReader src (unpFrom st') pos) e' TextKind true))). rewrite collected_rfk by (exact Hst' || reflexivity). reflexivity. }
      destruct (spanValid dspan); destruct (spanValid tspan).
      + apply R_appendKid; [apply R_appendKid; [exact A1|apply Hnode; [exact A1|reflexivity]]|apply Hnode; [|reflexivity]]. apply R_appendKid; [exact A1|apply Hnode; [exact A1|reflexivity]].
      + apply R_appendKid; [exact A1|apply Hnode; [exact A1|reflexivity]].
      + apply R_appendKid; [exact A1|apply Hnode; [exact A1|reflexivity]].
      + exact A1.
    - match goal with |- InvR (fst (match ?X with pair _ _ => _ end)) => destruct X as [lspan linner] end.
      destruct (_ && _ && _).
      + destruct (negb (matchRef _ _)) eqn:Emr; [cbn [fst]; assumption|]. apply negb_false_iff in Emr.
        destruct (wrap st1 kind _ None) as [st2 lid]. cbn [fst snd] in *.
        apply R_finishLink. apply R_updN; [exact HW|]. intros n Hn.
        rewrite rfk_setRef, rfk_setSpan; exact Hn.
      + destruct (spanValid lspan).
        * destruct (negb (matchRef _ _)) eqn:Emr; [cbn [fst]; assumption|]. apply negb_false_iff in Emr.
          destruct (wrap st1 kind _ None) as [st2 lid]. cbn [fst snd] in *.
          apply R_finishLink, R_advanceTo, R_span. apply R_appendKid; [exact HW|].
          cbn [rfk]. change (LinkLabelKind =? UnparsedKind) with false. cbn [negb andb].
          apply (collected_rfk st1); [exact H1|reflexivity].
        * destruct (negb (matchRef _ _)) eqn:Emr; [cbn [fst]; assumption|]. apply negb_false_iff in Emr.
          destruct (wrap st1 kind _ None) as [st2 lid]. cbn [fst snd] in *.
          apply R_finishLink. apply R_updN; [exact HW|]. intros n Hn.
          rewrite rfk_setRef, rfk_setSpan; exact Hn.
  Qed.

  Lemma R_istep st pos pl : InvR st -> InvR (fst (fst (istep st pos pl))).
  Proof.
    intros H. unfold istep. cbv zeta.
    assert (HT : InvR (addText st pl pos)) by (apply R_addText; assumption).
    destruct ((_ =? 42) || (_ =? 95)).
    { pose proof (R_parseDelimiterRun _ pos HT) as H2. destruct (parseDelimiterRun _ pos) as [st2 e]. exact H2. }
    destruct (_ =? 91).
    { match goal with |- context [addNode ?a ?b ?c ?d ?e] =>
        pose proof (R_addNode a b c d e HT eq_refl eq_refl) as H2; destruct (addNode a b c d e) as [st2 id] end.
      cbn [fst] in *. apply R_setStk. assumption. }
    destruct (_ =? 93).
    { pose proof (R_parseEndBracket _ pos HT) as H2. destruct (parseEndBracket _ pos) as [st2 e]. exact H2. }
    destruct (_ =? 33).
    { destruct (_ || _); [exact H|].
      match goal with |- context [addNode ?a ?b ?c ?d ?e] =>
        pose proof (R_addNode a b c d e HT eq_refl eq_refl) as H2; destruct (addNode a b c d e) as [st2 id] end.
      cbn [fst] in *. apply R_setStk. assumption. }
    destruct (_ =? 32).
    { destruct (parseHardLineBreakSpace _) as [e ok]. destruct (ok && _); [|exact H].
      cbn [fst]. apply R_setIgn. apply R_addNode; [assumption|reflexivity|reflexivity]. }
    destruct (_ =? 96).
    { destruct (parseCodeSpan _ st pos) as [[cS cE] sE]. destruct (0 <=? sE); [|exact H].
      cbn [fst]. apply R_collectCodeSpan. assumption. }
    destruct (_ =? 60).
    { destruct (0 <=? parseAutolink _).
      - cbn [fst]. apply R_addNode; [assumption|reflexivity|reflexivity].
      - destruct (parseHTMLTag _ _) as [ts te]. destruct (negb _); [exact H|]. cbn [fst].
        apply R_advanceTo.
        assert (HT' : InvR (addText st pl ts)) by (apply R_addText; assumption).
        apply R_addNode; [assumption|reflexivity|]. apply collected_rfk; [exact HT'|reflexivity]. }
    destruct (_ =? 92).
    { pose proof (R_parseBackslash _ pos HT) as H2. destruct (parseBackslash _ pos) as [st2 e]. exact H2. }
    destruct (_ =? 38).
    { destruct (_ <? 0); [exact H|]. cbn [fst]. apply R_addNode; [assumption|reflexivity|reflexivity]. }
    destruct (_ =? 10).
    { cbn [fst]. destruct (negb _); [|assumption]. apply R_addNode; [assumption|reflexivity|reflexivity]. }
    destruct (_ =? 13).
    { cbn [fst]. destruct (negb _); [|assumption]. apply R_addNode; [assumption|reflexivity|reflexivity]. }
    exact H.
  Qed.

  Lemma R_iloop : forall fuel st pos pl, InvR st -> InvR (fst (iloop fuel st pos pl)).
  Proof.
    induction fuel as [|f IH]; intros st pos pl H; [exact H|]. cbn [iloop].
    destruct (_ && _); [|exact H].
    pose proof (R_istep st pos pl H) as H2. destruct (istep st pos pl) as [[st2 pos2] pl2]. cbn [fst] in H2.
    apply IH. assumption.
  Qed.
  Lemma R_pushU st u : InvR st -> rfk (ofInline u) = true -> InvR (setRk st (rk st ++ [ofInline u])).
  Proof.
    intros (E1 & E2 & Hg) Hu. unfold InvR, setRk. cbn [matcher unp rk]. repeat split; try assumption.
    rewrite rfkF_app, Hg. cbn. rewrite Hu. reflexivity.
  Qed.
  Lemma R_nthU st : InvR st -> let u := nth (Z.to_nat (upos st)) (unp st) (mkI 0 0 0) in ikind u = UnparsedKind \/ rfk (ofInline u) = true.
  Proof.
    intros (_ & E2 & _). rewrite E2. cbv zeta.
    destruct (nth_in_or_default (Z.to_nat (upos st)) U (mkI 0 0 0)) as [Hin|Hd].
    - rewrite Forall_forall in HU. apply HU. assumption.
    - rewrite Hd. right. reflexivity.
  Qed.
  Lemma R_outer : forall fuel st, InvR st -> InvR (outer fuel st).
  Proof.
    induction fuel as [|f IH]; intros st H; [exact H|]. cbn [outer].
    destruct (len (unp st) <=? upos st); [exact H|].
    apply IH. apply R_setUpos.
    pose proof (R_nthU st H) as Hu. cbv zeta in Hu.
    destruct (ikind _ =? 0); [apply R_setIgn; assumption|].
    destruct (ikind (nth (Z.to_nat (upos st)) (unp st) (mkI 0 0 0)) =? IndentKind) eqn:Ei.
    { destruct (negb (ign st)); [|assumption]. apply R_pushU; [assumption|].
      destruct Hu as [E|E]; [apply Z.eqb_eq in Ei; rewrite Ei in E; discriminate|exact E]. }
    destruct (ikind (nth (Z.to_nat (upos st)) (unp st) (mkI 0 0 0)) =? UnparsedKind) eqn:Eu.
    { match goal with |- context [iloop ?a ?b ?c ?d] =>
        pose proof (R_iloop a b c d (R_setIgn st false H)) as H2; destruct (iloop a b c d) as [st2 pl2] end.
      cbn [fst] in H2. apply R_addText. assumption. }
    apply (R_pushU (setIgn st false)); [apply R_setIgn; assumption|].
    destruct Hu as [E|E]; [apply Z.eqb_neq in Eu; contradiction|exact E].
  Qed.
End Clos.

(* the same predicate on finished inline trees *)
Fixpoint nuI (i : inline) : bool :=
  match i with Inl k _ _ _ _ ks => negb (k =? UnparsedKind) && forallb nuI ks end.
Lemma rfk_toInline : forall n, rfk n = true -> nuI (toInline n) = true.
Proof.
  fix IH 1. intros [id k s e ind r ks] H. cbn [rfk toInline nuI] in *.
  apply andb_true_iff in H. destruct H as [Hr Hk]. rewrite Hr. cbn [andb].
  induction ks as [|x l IHl]; [reflexivity|]. cbn [map forallb] in *. apply andb_true_iff in Hk. destruct Hk as [Hx Hl].
  rewrite (IH x Hx). apply IHl, Hl.
Qed.

(* U may hold Unparsed entries (they are tokenised, never copied); what is copied must be free of Unparsed nodes *)
Definition copiedOK (u : inline) : Prop := ikind u = UnparsedKind \/ rfk (ofInline u) = true.

Theorem parseInlines_noUnparsed src m container :
  Forall (fun u => ikind u = UnparsedKind \/ rfk (ofInline u) = true) (bik container) ->
  forallb nuI (parseInlines src m container) = true.
Proof.
  intros HU. unfold parseInlines.
  set (st0 := {| rk := []; isrc := src; unp := bik container; upos := 0; stk := []; ign := false; nid := 1;
                 rootEnd := bend container; matcher := m |}).
  assert (H0 : InvR (bik container) st0) by (repeat split).
  pose proof (R_outer (bik container) HU (S (length (bik container))) st0 H0) as H1.
  pose proof (R_processEmphasis (bik container) _ 0 H1) as (_ & _ & Hg).
  rewrite forallb_forall. intros x Hx. apply in_map_iff in Hx. destruct Hx as (n & <- & Hn).
  apply rfk_toInline. unfold rfkF in Hg. rewrite forallb_forall in Hg. apply Hg, Hn.
Qed.
Print Assumptions parseInlines_noUnparsed.
