(* QInlTree4.v -- T64 (tree): one matched emphasis pair of processEmphasis on the two sides.
   Plain-side invariants: IS3.J (every stack entry names exactly one childless Text node whose span is a run of the delimiter byte;
   the spans increase along the stack) and QInlTree1.SL. *)
From Coq Require Import List ZArith Lia Bool.
Import ListNotations.
Require Import Base Tables Utf8 Tree Rdr Link Collect Html Recog Inl3a Inl3b Inl3c Inl3d Driver Inl3e QCutsDef QCuts QIRdrBase QInlDefs.
Require Import Props PEProof GI0 GI1 GI2 GI3 IFTree IS0 IS2 IS1 IS3 IS4 QInlTree1 QInlTree2 QInlTree3.
Open Scope Z_scope.

Section PEQ.
  Variables (sD sQ : bytes) (sg : Z -> Z).
  Hypothesis SG : SGood sD sQ sg.
  Variable U : list inline.
  Notation qP := (QInlDefs.qP sD sg).
  Notation qPs := (QInlDefs.qPs sD sg).
  Notation eE := (QInlDefs.eE sg).
  Notation qN := (QInlTree1.qN sD sg).
  Notation SLn := (QInlTree1.SLn sD).
  Notation SL := (QInlTree1.SL sD).
  Notation IR := (QInlDefs.IR sD sQ sg).
  Notation J := (IS3.J sD U).

  Lemma sig_fields n k s e l : sig n = (k, s, e, l) -> pkind n = k /\ ps n = s /\ pe n = e.
  Proof. unfold sig. intros H. inversion H. repeat split. Qed.

  (* the length of a one-line node is the same on both sides *)
  Lemma plen_nodeOf_q st st' id k s e l : IR st st' -> SL (rk st) -> id <> 0 -> occF id (rk st) = [(k, s, e, l)] ->
    0 <= s <= e -> e <= len sD -> noLFin sD s (e - 1) -> plen (nodeOf st' id) = plen (nodeOf st id).
  Proof.
    intros HI HS Hid Ho Hs He Hn. rewrite (nodeOf_q_occ sD sQ sg st st' id _ _ HI HS Hid Ho).
    pose proof (nodeOf_occ st id _ Ho) as Sn. destruct (sig_fields _ _ _ _ _ Sn) as (_ & E1 & E2).
    apply (plen_qN sD sQ sg SG); rewrite ?E1, ?E2; assumption.
  Qed.

  (* shrinking a one-line Text node at its end / at its start *)
  Lemma shrink_end_q n k s e : sig n = (TextKind, s, e, true) -> 0 <= s -> 0 <= k -> s <= e - k -> e <= len sD -> noLFin sD s e ->
    qP (setSpan n (ps n) (pe n - k)) = [setSpan (qN n) (ps (qN n)) (pe (qN n) - k)].
  Proof.
    intros Sn Hs Hk Hke He Hn. destruct (sig_fields _ _ _ _ _ Sn) as (E0 & E1 & E2). rewrite E1, E2.
    apply (qP_setSpan sD sg); [intros _ _ x Hx; apply Hn; lia|rewrite ps_qN, E1; reflexivity|].
    rewrite pe_qN, E1, E2. rewrite !(eE_run sD sQ sg SG) by (lia || (intros x Hx; apply Hn; lia)). lia.
  Qed.
  Lemma shrink_start_q n k s e : sig n = (TextKind, s, e, true) -> 0 <= s -> 0 <= k -> s + k <= e -> e <= len sD -> noLFin sD s e ->
    qP (setSpan n (ps n + k) (pe n)) = [setSpan (qN n) (ps (qN n) + k) (pe (qN n))].
  Proof.
    intros Sn Hs Hk Hke He Hn. destruct (sig_fields _ _ _ _ _ Sn) as (E0 & E1 & E2). rewrite E1, E2.
    apply (qP_setSpan sD sg); [intros _ _ x Hx; apply Hn; lia| |].
    - rewrite ps_qN, E1. rewrite (sg_run sD sQ sg SG s (s + k)) by (lia || (intros x Hx; apply Hn; lia)). lia.
    - rewrite pe_qN, E1, E2. rewrite !(eE_run sD sQ sg SG) by (lia || (intros x Hx; apply Hn; lia)).
      rewrite (sg_run sD sQ sg SG s (s + k)) by (lia || (intros x Hx; apply Hn; lia)). lia.
  Qed.
  Lemma SLn_shrink n a b : SLn n -> pid n <> 0 -> 0 <= a -> 0 <= b -> SLn (setSpan n (ps n + a) (pe n - b)).
  Proof.
    intros H Hi Ha Hb. apply (SLn_setSpan sD); [exact H|]. intros Hk Hlt. destruct (SLn_inv sD n H) as [S1 _]. specialize (S1 Hi).
    unfold QInlTree1.sgl in S1. rewrite Hk in S1. cbn [andb] in S1. assert (L : (ps n <? pe n) = true) by (apply Z.ltb_lt; lia).
    specialize (S1 L). intros x Hx. apply S1. lia.
  Qed.

  Lemma pe_pair_q hi st st' P o D2 c D3 :
    J hi st -> SL (rk st) -> IR st st' -> stk st = P ++ o :: D2 ++ c :: D3 -> d_typ o = d_typ c -> (d_typ c = tStar \/ d_typ c = tUnder) ->
    let strong := (2 <=? plen (nodeOf st (d_node o))) && (2 <=? plen (nodeOf st (d_node c))) in
    let k := if strong then 2 else 1 in
    let kind := if strong then StrongKind else EmphasisKind in
    let st3 := fst (wrap (updN (updN st (d_node o) (fun n => setSpan n (ps n) (pe n - k))) (d_node c) (fun n => setSpan n (ps n + k) (pe n))) kind (d_node o) (Some (d_node c))) in
    let st3' := fst (wrap (updN (updN st' (d_node o) (fun n => setSpan n (ps n) (pe n - k))) (d_node c) (fun n => setSpan n (ps n + k) (pe n))) kind (d_node o) (Some (d_node c))) in
    let b1 := plen (nodeOf st3 (d_node o)) =? 0 in
    let st5 := if b1 then removeNode st3 (d_node o) else st3 in
    let st5' := if b1 then removeNode st3' (d_node o) else st3' in
    let b2 := plen (nodeOf st5 (d_node c)) =? 0 in
    let st6 := if b2 then removeNode st5 (d_node c) else st5 in
    let st6' := if b2 then removeNode st5' (d_node c) else st5' in
    (2 <=? plen (nodeOf st' (d_node o))) && (2 <=? plen (nodeOf st' (d_node c))) = strong /\
    IR st3 st3' /\ (plen (nodeOf st3' (d_node o)) =? 0) = b1 /\ IR st5 st5' /\ (plen (nodeOf st5' (d_node c)) =? 0) = b2 /\
    IR st6 st6' /\ SL (rk st6).
  Proof.
    intros HJ HS HI Es Htyp Htc. destruct HJ as [A B C D E F G V].
    pose proof G as G0. rewrite Es in G0.
    destruct (chain_two sD _ _ _ _ _ _ _ _ G0) as (so & eo & sc & ec & Oo & Oc & Hso & Hlo & Hoc & Hlc & Hec & Do & Dc & Hne).
    destruct (dOK_emph sD o so eo ltac:(rewrite Htyp; exact Htc) Do) as (ch & Hch & Ro & _).
    destruct (dOK_emph sD c sc ec Htc Dc) as (ch' & Hch' & Rc & _).
    assert (Hch1 : ch <> 10 /\ ch <> 0) by (destruct Hch as [-> | ->]; split; discriminate).
    assert (Hch2 : ch' <> 10 /\ ch' <> 0) by (destruct Hch' as [-> | ->]; split; discriminate).
    assert (Hel : ec <= len sD) by (pose proof (in_src sD (ec - 1) ltac:(rewrite (Rc (ec - 1)) by lia; apply Hch2)); lia).
    assert (NLo : noLFin sD so eo) by (intros x Hx; rewrite (Ro x Hx); apply Hch1).
    assert (NLc : noLFin sD sc ec) by (intros x Hx; rewrite (Rc x Hx); apply Hch2).
    assert (Ho_in : In o (stk st)) by (rewrite Es; apply in_or_app; right; left; reflexivity).
    assert (Hc_in : In c (stk st)) by (rewrite Es; apply in_or_app; right; right; apply in_or_app; right; left; reflexivity).
    pose proof E as E'. rewrite Forall_forall in E'. pose proof (E' o Ho_in) as Ro_id. pose proof (E' c Hc_in) as Rc_id.
    pose proof (nodeOf_occ st _ _ Oo) as So. pose proof (nodeOf_occ st _ _ Oc) as Sc.
    rewrite (plen_sig _ _ _ _ _ So), (plen_sig _ _ _ _ _ Sc), !IS4.spanLen_pos by lia.
    intros strong k kind.
    assert (Hk : 1 <= k <= 2 /\ k <= eo - so /\ k <= ec - sc).
    { unfold k, strong. destruct (Z.leb_spec 2 (eo - so)), (Z.leb_spec 2 (ec - sc)); cbn [andb]; repeat split; lia. }
    destruct Hk as (Hk1 & Hko & Hkc).
    (* (1) the same sizes on the quoted side *)
    assert (P1 : (2 <=? plen (nodeOf st' (d_node o))) && (2 <=? plen (nodeOf st' (d_node c))) = strong).
    { rewrite (plen_nodeOf_q st st' (d_node o) _ _ _ _ HI HS ltac:(lia) Oo) by (lia || (intros x Hx; apply NLo; lia)).
      rewrite (plen_nodeOf_q st st' (d_node c) _ _ _ _ HI HS ltac:(lia) Oc) by (lia || (intros x Hx; apply NLc; lia)).
      rewrite (plen_sig _ _ _ _ _ So), (plen_sig _ _ _ _ _ Sc), !IS4.spanLen_pos by lia. reflexivity. }
    (* (2) the two span updates *)
    set (g1 := fun n : pn => setSpan n (ps n) (pe n - k)). set (g2 := fun n : pn => setSpan n (ps n + k) (pe n)).
    set (st1 := updN st (d_node o) g1). set (st2 := updN st1 (d_node c) g2).
    set (st1' := updN st' (d_node o) g1). set (st2' := updN st1' (d_node c) g2).
    assert (Hg1 : (forall n, pid (g1 n) = pid n) /\ (forall n, pkids (g1 n) = pkids n)) by (split; intros [? ? ? ? ? ? ?]; reflexivity).
    assert (Hg2 : (forall n, pid (g2 n) = pid n) /\ (forall n, pkids (g2 n) = pkids n)) by (split; intros [? ? ? ? ? ? ?]; reflexivity).
    assert (O1o : occF (d_node o) (rk st1) = [(TextKind, so, eo - k, true)]).
    { exact (occ_updN_span st (d_node o) (fun s _ => s) (fun _ e => e - k) _ Oo eq_refl). }
    assert (O1x : forall id, id <> d_node o -> occF id (rk st1) = occF id (rk st)).
    { intros id Hid. apply occ_updN_other; [exact Hid|apply Hg1|apply Hg1]. }
    assert (O1c : occF (d_node c) (rk st1) = [(TextKind, sc, ec, true)]) by (rewrite O1x by (intros E0; apply Hne; symmetry; exact E0); exact Oc).
    assert (O2c : occF (d_node c) (rk st2) = [(TextKind, sc + k, ec, true)]).
    { exact (occ_updN_span st1 (d_node c) (fun s _ => s + k) (fun _ e => e) (TextKind, sc, ec, true) O1c eq_refl). }
    assert (O2x : forall id, id <> d_node c -> occF id (rk st2) = occF id (rk st1)).
    { intros id Hid. apply occ_updN_other; [exact Hid|apply Hg2|apply Hg2]. }
    assert (O2o : occF (d_node o) (rk st2) = [(TextKind, so, eo - k, true)]) by (rewrite O2x by exact Hne; exact O1o).
    assert (I1 : IR st1 st1').
    { apply (IR_updN sD sQ sg); [exact HI|exact HS|lia|]. intros n Hp Sn Hq. rewrite Oo in Hq. destruct Hq as [Hq|[]]. symmetry in Hq.
      apply (shrink_end_q n k so eo Hq); try lia. exact NLo. }
    assert (S1 : SL (rk st1)).
    { apply (SL_updN sD); [exact HS|]. intros n Hp Sn. replace (g1 n) with (setSpan n (ps n + 0) (pe n - k)) by (unfold g1; f_equal; lia).
      apply SLn_shrink; [exact Sn|lia|lia|lia]. }
    assert (I2 : IR st2 st2').
    { apply (IR_updN sD sQ sg); [exact I1|exact S1|lia|]. intros n Hp Sn Hq. rewrite O1c in Hq. destruct Hq as [Hq|[]]. symmetry in Hq.
      apply (shrink_start_q n k sc ec Hq); try lia. exact NLc. }
    assert (S2 : SL (rk st2)).
    { apply (SL_updN sD); [exact S1|]. intros n Hp Sn. replace (g2 n) with (setSpan n (ps n + k) (pe n - 0)) by (unfold g2; f_equal; lia).
      apply SLn_shrink; [exact Sn|lia|lia|lia]. }
    (* (3) the wrap *)
    pose proof (nodeOf_occ st2 _ _ O2c) as Sc2.
    assert (Eps : ps (nodeOf st2 (d_node c)) = sc + k) by (unfold sig in Sc2; inversion Sc2; reflexivity).
    intros st3 st3'.
    assert (Hkind : splitK kind = false) by (unfold kind; destruct strong; reflexivity).
    assert (I3 : IR st3 st3').
    { apply (IR_wrap_some sD sQ sg st2 st2' kind (d_node o) (d_node c) I2 S2); [lia|lia|exact Hkind| |].
      - destruct (fnd_occ (d_node c) (rk st2) _ _ O2c) as (n & -> & _). discriminate.
      - rewrite Eps. intros q Hq. rewrite O2o in Hq. destruct Hq as [<-|[]]. unfold IS0.sgE, sgS. cbn [fst snd]. split.
        + apply (sg_end sD sQ sg SG); [lia|lia|]. intros L. rewrite (Ro (eo - k - 1)) by lia. apply Hch1.
        + rewrite (eE_lt sg) by lia. replace (sc + k) with (sc + k - 1 + 1) at 1 by lia. apply (SG_succ _ _ _ SG); [lia|].
          rewrite (Rc (sc + k - 1)) by lia. apply Hch2. }
    assert (S3 : SL (rk st3)) by (apply (SL_wrap sD); assumption).
    assert (Hnid2 : nid st2 = nid st) by reflexivity.
    assert (O3x : forall d, In d (stk st) -> occF (d_node d) (rk st3) = occF (d_node d) (rk st2)).
    { intros d Hd. apply occ_wrap. rewrite Hnid2. specialize (E' d Hd). lia. }
    assert (O3o : occF (d_node o) (rk st3) = [(TextKind, so, eo - k, true)]) by (rewrite O3x by exact Ho_in; exact O2o).
    assert (O3c : occF (d_node c) (rk st3) = [(TextKind, sc + k, ec, true)]) by (rewrite O3x by exact Hc_in; exact O2c).
    (* (4) the removals *)
    intros b1.
    assert (P3 : (plen (nodeOf st3' (d_node o)) =? 0) = b1).
    { unfold b1. rewrite (plen_nodeOf_q st3 st3' (d_node o) _ _ _ _ I3 S3 ltac:(lia) O3o) by (lia || (intros x Hx; apply NLo; lia)). reflexivity. }
    intros st5 st5'.
    assert (I5 : IR st5 st5') by (unfold st5, st5'; destruct b1; [apply (IR_removeNode sD sQ sg), I3|exact I3]).
    assert (S5 : SL (rk st5)) by (unfold st5; destruct b1; [apply (SL_removeNode sD), S3|exact S3]).
    assert (O5c : occF (d_node c) (rk st5) = [(TextKind, sc + k, ec, true)]).
    { unfold st5. destruct b1; [|exact O3c]. rewrite occ_remove; [exact O3c|intros E0; apply Hne; symmetry; exact E0| |].
      - rewrite O3o. constructor; [reflexivity|constructor].
      - rewrite O3c. constructor; [reflexivity|constructor]. }
    intros b2.
    assert (P5 : (plen (nodeOf st5' (d_node c)) =? 0) = b2).
    { unfold b2. rewrite (plen_nodeOf_q st5 st5' (d_node c) _ _ _ _ I5 S5 ltac:(lia) O5c) by (lia || (intros x Hx; apply NLc; lia)). reflexivity. }
    intros st6 st6'.
    assert (I6 : IR st6 st6') by (unfold st6, st6'; destruct b2; [apply (IR_removeNode sD sQ sg), I5|exact I5]).
    assert (S6 : SL (rk st6)) by (unfold st6; destruct b2; [apply (SL_removeNode sD), S5|exact S5]).
    split; [exact P1|]. split; [exact I3|]. split; [exact P3|]. split; [exact I5|]. split; [exact P5|]. split; [exact I6|exact S6].
  Qed.
End PEQ.
