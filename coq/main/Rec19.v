From Coq Require Import List ZArith Lia Bool.
Import ListNotations.
Require Import Base Tables Utf8 Recog Render Rec16 Rec17 Rec18.
Open Scope Z_scope.

(* ---------- NormalizeURI: output alphabet, well-formed escapes, idempotence ---------- *)
Definition byte (b : Z) : Prop := 0 <= b < 256.
Definition uriChar (c : Z) : bool := ((c <? 128) && (isASCIILetter c || isASCIIDigit c)) || existsb (Z.eqb c) safeSet.

(* normal form: unreserved/reserved characters, and % always followed by two hex digits *)
Inductive nform : bytes -> Prop :=
| N_nil : nform []
| N_plain c o : uriChar c = true -> 0 <= c < 128 -> nform o -> nform (c :: o)
| N_esc h1 h2 o : isHex h1 = true -> isHex h2 = true -> nform o -> nform (37 :: h1 :: h2 :: o).

(* ---- small facts ---- *)
Lemma safeSet_ascii c : existsb (Z.eqb c) safeSet = true -> 0 <= c < 128 /\ c <> 37.
Proof.
  unfold safeSet. cbn [existsb]. rewrite !orb_true_iff. intros H.
  repeat (destruct H as [H|H]; [apply Z.eqb_eq in H; subst c; split; [lia|discriminate]|]). discriminate.
Qed.
Lemma uriChar_not37 c : uriChar c = true -> c <> 37.
Proof.
  unfold uriChar. intros H. apply orb_true_iff in H. destruct H as [H|H]; [|apply safeSet_ascii in H; tauto].
  intros ->. discriminate.
Qed.
Lemma isHex_ascii h : isHex h = true -> 0 <= h < 128 /\ h <> 37.
Proof.
  unfold isHex, isASCIIDigit. rewrite !orb_true_iff, !andb_true_iff, !Z.leb_le. intros H. split; [lia|]. intros ->. lia.
Qed.
Lemma urlHex_ok x : 0 <= x < 16 -> isHex (urlHexDigit x) = true.
Proof.
  intros H. assert (E : x = 0 \/ x = 1 \/ x = 2 \/ x = 3 \/ x = 4 \/ x = 5 \/ x = 6 \/ x = 7 \/ x = 8 \/ x = 9 \/
                        x = 10 \/ x = 11 \/ x = 12 \/ x = 13 \/ x = 14 \/ x = 15) by lia.
  repeat (destruct E as [->|E]; [reflexivity|]). subst x. reflexivity.
Qed.

Lemma decodeRune_ascii b r : 0 <= b < 128 -> decodeRune (b :: r) = (b, 1).
Proof. intros H. cbn [decodeRune]. replace (b <? 128) with true by (symmetry; apply Z.ltb_lt; lia). reflexivity. Qed.
Lemma encodeRune_ascii c : c < 128 -> encodeRune c = [c].
Proof. intros H. unfold encodeRune. replace (c <? 128) with true by (symmetry; apply Z.ltb_lt; lia). reflexivity. Qed.

(* a decoded rune below 128 is the first byte, width 1; every decoded rune is a code point or RuneError *)
Lemma decodeRune_facts b r : byte b -> Forall byte r ->
  let '(c, w) := decodeRune (b :: r) in
  0 <= c < 1114112 /\ 1 <= w <= 4 /\ (c < 128 -> c = b /\ w = 1).
Proof.
  intros Hb Hr. unfold byte in Hb. cbn [decodeRune]. unfold RuneError, isCont.
  destruct (Z.ltb_spec b 128); [repeat split; lia|].
  destruct ((194 <=? b) && (b <=? 223)) eqn:E2.
  { apply andb_true_iff in E2. destruct E2 as [A B]. apply Z.leb_le in A, B.
    destruct r as [|b1 r]; [repeat split; lia|]. inversion Hr as [|? ? Hb1 Hr']; subst. unfold byte in Hb1.
    destruct ((128 <=? b1) && (b1 <=? 191)) eqn:E; [|repeat split; lia].
    apply andb_true_iff in E. destruct E as [C D]. apply Z.leb_le in C, D. repeat split; try lia. }
  destruct ((224 <=? b) && (b <=? 239)) eqn:E3.
  { apply andb_true_iff in E3. destruct E3 as [A B]. apply Z.leb_le in A, B.
    destruct r as [|b1 [|b2 r]]; [repeat split; lia|repeat split; lia|].
    inversion Hr as [|? ? Hb1 Hr']; subst. inversion Hr' as [|? ? Hb2 Hr'']; subst. unfold byte in Hb1, Hb2.
    cbv zeta.
    destruct (((if b =? 224 then 160 else 128) <=? b1) && (b1 <=? (if b =? 237 then 159 else 191)) && ((128 <=? b2) && (b2 <=? 191))) eqn:E;
      [|repeat split; lia].
    apply andb_true_iff in E. destruct E as [E E']. apply andb_true_iff in E. destruct E as [C D].
    apply andb_true_iff in E'. destruct E' as [F G]. apply Z.leb_le in C, D, F, G.
    destruct (Z.eqb_spec b 224); destruct (Z.eqb_spec b 237); repeat split; try lia. }
  destruct ((240 <=? b) && (b <=? 244)) eqn:E4; [|repeat split; lia].
  apply andb_true_iff in E4. destruct E4 as [A B]. apply Z.leb_le in A, B.
  destruct r as [|b1 [|b2 [|b3 r]]]; [repeat split; lia|repeat split; lia|repeat split; lia|].
  inversion Hr as [|? ? Hb1 Hr']; subst. inversion Hr' as [|? ? Hb2 Hr'']; subst. inversion Hr'' as [|? ? Hb3 Hr''']; subst.
  unfold byte in Hb1, Hb2, Hb3. cbv zeta.
  destruct (((if b =? 240 then 144 else 128) <=? b1) && (b1 <=? (if b =? 244 then 143 else 191)) && ((128 <=? b2) && (b2 <=? 191)) &&
            ((128 <=? b3) && (b3 <=? 191))) eqn:E; [|repeat split; lia].
  apply andb_true_iff in E. destruct E as [E E3']. apply andb_true_iff in E. destruct E as [E E2'].
  apply andb_true_iff in E. destruct E as [C D]. apply andb_true_iff in E2'. destruct E2' as [F G].
  apply andb_true_iff in E3'. destruct E3' as [I J]. apply Z.leb_le in C, D, F, G, I, J.
  destruct (Z.eqb_spec b 240); destruct (Z.eqb_spec b 244); repeat split; try lia.
Qed.

Lemma encodeRune_bytes c : 0 <= c < 1114112 -> Forall byte (encodeRune c).
Proof.
  intros H. unfold encodeRune, byte.
  destruct (Z.ltb_spec c 128); [repeat constructor; lia|].
  destruct (Z.ltb_spec c 2048).
  { assert (0 <= c / 64 < 32) by (split; [apply Z.div_pos; lia|apply Z.div_lt_upper_bound; lia]).
    pose proof (Z.mod_pos_bound c 64 ltac:(lia)). repeat constructor; lia. }
  destruct (Z.ltb_spec c 65536).
  { assert (0 <= c / 4096 < 16) by (split; [apply Z.div_pos; lia|apply Z.div_lt_upper_bound; lia]).
    pose proof (Z.mod_pos_bound c 64 ltac:(lia)). pose proof (Z.mod_pos_bound (c / 64) 64 ltac:(lia)). repeat constructor; lia. }
  assert (0 <= c / 262144 < 5) by (split; [apply Z.div_pos; lia|apply Z.div_lt_upper_bound; lia]).
  pose proof (Z.mod_pos_bound c 64 ltac:(lia)). pose proof (Z.mod_pos_bound (c / 64) 64 ltac:(lia)).
  pose proof (Z.mod_pos_bound (c / 4096) 64 ltac:(lia)). repeat constructor; lia.
Qed.

Lemma nform_app a b : nform a -> nform b -> nform (a ++ b).
Proof. induction 1; intros Hb; cbn [app]; [assumption|apply N_plain; auto|apply N_esc; auto]. Qed.
Lemma esc_nform l : Forall byte l -> nform (flat_map (fun b => [37; urlHexDigit (b / 16); urlHexDigit (b mod 16)]) l).
Proof.
  induction 1 as [|b l Hb Hl IH]; [constructor|]. cbn [flat_map app]. unfold byte in Hb.
  apply N_esc; [apply urlHex_ok; split; [apply Z.div_pos; lia|apply Z.div_lt_upper_bound; lia]
               |apply urlHex_ok; apply Z.mod_pos_bound; lia|exact IH].
Qed.

(* ---- the loop ---- *)
Definition nformK (k : Z) (o : bytes) : Prop :=
  (k = 0 /\ nform o) \/
  (k = 1 /\ exists h o', o = h :: o' /\ isHex h = true /\ nform o') \/
  (k = 2 /\ exists h1 h2 o', o = h1 :: h2 :: o' /\ isHex h1 = true /\ isHex h2 = true /\ nform o').
Definition skipOK (s : bytes) (i k : Z) : Prop :=
  k = 0 \/ (k = 1 /\ i < len s /\ isHex (at_ s i) = true) \/
  (k = 2 /\ i + 1 < len s /\ isHex (at_ s i) = true /\ isHex (at_ s (i + 1)) = true).

Lemma from_sub' {A} (l : list A) n x : In x (from_ l n) -> In x l.
Proof. unfold from_. revert l. induction (Z.to_nat n) as [|k IH]; intros l H; [exact H|]. destruct l; [exact H|]. right. apply IH, H. Qed.
Lemma Forall_from {A} (P : A -> Prop) l n : Forall P l -> Forall P (from_ l n).
Proof. intros H. rewrite Forall_forall in *. intros x Hx. apply H. eapply from_sub'. exact Hx. Qed.
Lemma len_from_lt (s : bytes) i w b r : 0 <= i -> 1 <= w -> from_ s i = b :: r -> len (from_ s (i + w)) < len (from_ s i) /\ i < len s.
Proof.
  intros Hi Hw E. assert (L : len (from_ s i) = len r + 1) by (rewrite E; apply len_cons).
  unfold len, from_ in *. rewrite !skipn_length in *. lia.
Qed.

Section NU.
  Variable s : bytes.
  Hypothesis Hs : Forall byte s.

  Lemma nu_loop_nform : forall fuel i k, 0 <= i -> len (from_ s i) < Z.of_nat fuel -> skipOK s i k ->
    nformK k (nu_loop s (runes fuel (from_ s i) i) k).
  Proof.
    induction fuel as [|f IH]; intros i k Hi Hf Hk; [pose proof (len_nonneg (from_ s i)); lia|].
    cbn [runes]. destruct (from_ s i) as [|b r] eqn:El.
    { cbn [nu_loop]. destruct Hk as [->|[(-> & Hl & _)|(-> & Hl & _)]].
      - left. split; [reflexivity|constructor].
      - assert (len (from_ s i) = len s - i) by (apply len_from; lia). rewrite El in H. unfold len in H at 1. cbn in H. lia.
      - assert (len (from_ s i) = len s - i) by (apply len_from; lia). rewrite El in H. unfold len in H at 1. cbn in H. lia. }
    assert (Hbr : Forall byte (b :: r)) by (rewrite <- El; apply Forall_from, Hs).
    inversion Hbr as [|? ? Hb Hr]; subst.
    assert (Eb : at_ s i = b).
    { pose proof (at_from s i 0 Hi ltac:(lia)) as A. rewrite El in A. replace (i + 0) with i in A by lia. rewrite <- A. reflexivity. }
    pose proof (decodeRune_facts b r Hb Hr) as DF. destruct (decodeRune (b :: r)) as [c w] eqn:Ed. destruct DF as (Dc & Dw & Dlow).
    replace (if w <? 1 then 1 else w) with w by (destruct (Z.ltb_spec w 1); lia).
    destruct (len_from_lt s i w b r Hi ltac:(lia) El) as (Hlt & Hil). rewrite El in Hlt.
    assert (Erest : from_ (b :: r) w = from_ s (i + w)) by (rewrite <- El; apply from_from; lia).
    rewrite Erest. cbn [nu_loop].
    assert (IH0 : nform (nu_loop s (runes f (from_ s (i + w)) (i + w)) 0)).
    { destruct (IH (i + w) 0 ltac:(lia) ltac:(lia) (or_introl eq_refl)) as [(_ & H)|[(E & _)|(E & _)]]; [exact H|lia|lia]. }
    destruct Hk as [->|[(-> & Hl & Hh)|(-> & Hl & Hh1 & Hh2)]].
    - (* skip = 0 *)
      cbn [Z.ltb Z.compare]. left. split; [reflexivity|].
      destruct (Z.eqb_spec c 37) as [E37|N37].
      + subst c. destruct (Dlow ltac:(lia)) as (Ecb & Ew). subst w.
        destruct ((i + 2 <? len s) && isHex (at_ s (i + 1)) && isHex (at_ s (i + 2))) eqn:Eh.
        * apply andb_true_iff in Eh. destruct Eh as [Eh H2]. apply andb_true_iff in Eh. destruct Eh as [L2 H1]. apply Z.ltb_lt in L2.
          destruct (IH (i + 1) 2 ltac:(lia) ltac:(lia)) as [(E & _)|[(E & _)|(_ & h1 & h2 & o' & Eo & A & B & C)]]; try lia.
          { right. right. repeat split; try lia; try assumption. replace (i + 1 + 1) with (i + 2) by lia. exact H2. }
          cbn [app]. rewrite Eo. apply N_esc; assumption.
        * cbn [app]. apply N_esc; [reflexivity|reflexivity|exact IH0].
      + destruct (((c <? 128) && (isASCIILetter c || isASCIIDigit c)) || existsb (Z.eqb c) safeSet) eqn:Eu.
        * assert (Hc : 0 <= c < 128).
          { apply orb_true_iff in Eu. destruct Eu as [Eu|Eu]; [apply andb_true_iff in Eu; destruct Eu as [Eu _]; apply Z.ltb_lt in Eu; lia|].
            apply safeSet_ascii in Eu. tauto. }
          rewrite encodeRune_ascii by lia. cbn [app]. apply N_plain; [exact Eu|exact Hc|exact IH0].
        * apply nform_app; [apply esc_nform, encodeRune_bytes, Dc|exact IH0].
    - (* skip = 1 *)
      cbn [Z.ltb Z.compare]. rewrite Eb in Hh. destruct (isHex_ascii b Hh) as (Hb128 & _).
      rewrite (decodeRune_ascii b r Hb128) in Ed. inversion Ed; subst c w.
      right. left. split; [reflexivity|]. rewrite encodeRune_ascii by lia. cbn [app]. replace (1 - 1) with 0 by lia.
      exists b, (nu_loop s (runes f (from_ s (i + 1)) (i + 1)) 0). repeat split; assumption.
    - (* skip = 2 *)
      cbn [Z.ltb Z.compare]. rewrite Eb in Hh1. destruct (isHex_ascii b Hh1) as (Hb128 & _).
      rewrite (decodeRune_ascii b r Hb128) in Ed. inversion Ed; subst c w.
      right. right. split; [reflexivity|]. rewrite encodeRune_ascii by lia. cbn [app]. replace (2 - 1) with 1 by lia.
      destruct (IH (i + 1) 1 ltac:(lia) ltac:(lia)) as [(E & _)|[(_ & h & o' & Eo & A & B)|(E & _)]]; try lia.
      { right. left. repeat split; try lia; assumption. }
      exists b, h, o'. rewrite Eo. repeat split; assumption.
  Qed.

  Theorem normalizeURI_nform : nform (normalizeURI s).
  Proof.
    unfold normalizeURI.
    destruct (nu_loop_nform (S (length s)) 0 0 ltac:(lia)) as [(_ & H)|[(E & _)|(E & _)]]; try lia.
    - unfold from_. cbn [Z.to_nat skipn]. unfold len. lia.
    - left. reflexivity.
    - exact H.
  Qed.
End NU.

(* ---- normal forms are fixed points ---- *)
Lemma runes_cons fuel b r i : runes (S fuel) (b :: r) i =
  let '(c, w) := decodeRune (b :: r) in let w := if w <? 1 then 1 else w in (i, c, w) :: runes fuel (from_ (b :: r) w) (i + w).
Proof. reflexivity. Qed.

Lemma nu_fix_aux (s : bytes) : forall n fuel i, 0 <= i -> len (from_ s i) <= Z.of_nat n -> (n < fuel)%nat ->
  nform (from_ s i) -> nu_loop s (runes fuel (from_ s i) i) 0 = from_ s i.
Proof.
  induction n as [n IH] using lt_wf_ind. intros fuel i Hi Hn Hf Hnf.
  destruct fuel as [|f]; [lia|].
  remember (from_ s i) as l eqn:El. destruct Hnf as [|c o Hu Hc Ho|h1 h2 o H1 H2 Ho].
  - reflexivity.
  - assert (Eo : o = from_ s (i + 1)).
    { assert (L : i < len s). { destruct (Z.lt_ge_cases i (len s)); [assumption|]. rewrite from_nil in El by lia. discriminate. }
      rewrite (from_cons s i Hi L) in El. inversion El. reflexivity. }
    rewrite runes_cons, (decodeRune_ascii c o Hc). cbn [Z.ltb Z.compare Pos.compare Pos.compare_cont].
    change (from_ (c :: o) 1) with o. cbn [nu_loop Z.ltb Z.compare].
    replace (c =? 37) with false by (symmetry; apply Z.eqb_neq, uriChar_not37, Hu).
    fold (uriChar c). rewrite Hu, encodeRune_ascii by lia. cbn [app]. f_equal.
    rewrite Eo. rewrite len_cons in Hn. pose proof (len_nonneg o).
    apply (IH (n - 1)%nat); try lia; [rewrite <- Eo; lia|rewrite <- Eo; exact Ho].
  - assert (L : i + 2 < len s).
    { assert (E3 : len (from_ s i) = len o + 3) by (rewrite <- El; rewrite !len_cons; lia).
      pose proof (len_nonneg o). destruct (Z.lt_ge_cases i (len s)) as [G|G]; [rewrite len_from in E3 by lia; lia|].
      rewrite from_nil in E3 by lia. unfold len in E3 at 1. cbn in E3. lia. }
    assert (A1 : at_ s (i + 1) = h1). { rewrite <- at_from by lia. rewrite <- El. reflexivity. }
    assert (A2 : at_ s (i + 2) = h2). { rewrite <- at_from by lia. rewrite <- El. reflexivity. }
    assert (Eo : o = from_ s (i + 3)).
    { rewrite <- (from_from s i 3) by lia. rewrite <- El. reflexivity. }
    destruct (isHex_ascii h1 H1) as (B1 & _). destruct (isHex_ascii h2 H2) as (B2 & _).
    rewrite !len_cons in Hn. pose proof (len_nonneg o).
    destruct f as [|f]; [lia|]. destruct f as [|f]; [lia|].
    rewrite runes_cons, (decodeRune_ascii 37 _ ltac:(lia)). cbn [Z.ltb Z.compare Pos.compare Pos.compare_cont].
    change (from_ (37 :: h1 :: h2 :: o) 1) with (h1 :: h2 :: o).
    rewrite runes_cons, (decodeRune_ascii h1 _ B1). cbn [Z.ltb Z.compare Pos.compare Pos.compare_cont].
    change (from_ (h1 :: h2 :: o) 1) with (h2 :: o).
    rewrite runes_cons, (decodeRune_ascii h2 _ B2). cbn [Z.ltb Z.compare Pos.compare Pos.compare_cont].
    change (from_ (h2 :: o) 1) with o.
    cbn [nu_loop Z.ltb Z.compare Z.eqb Pos.eqb].
    replace (i + 2 <? len s) with true by (symmetry; apply Z.ltb_lt; lia).
    rewrite A1, A2, H1, H2. cbn [andb app]. cbn [Z.ltb Z.compare Pos.compare Pos.compare_cont Z.sub Z.add Z.pos_sub Z.opp Pos.pred_double].
    rewrite (encodeRune_ascii h1), (encodeRune_ascii h2) by lia. cbn [app]. f_equal. f_equal. f_equal.
    replace (i + 1 + 1 + 1) with (i + 3) by lia. rewrite Eo.
    apply (IH (n - 3)%nat); try lia; [rewrite <- Eo; lia|rewrite <- Eo; exact Ho].
Qed.

Theorem normalizeURI_fix o : nform o -> normalizeURI o = o.
Proof.
  intros H. unfold normalizeURI. change o with (from_ o 0) at 3 4.
  apply (nu_fix_aux o (length o)); [lia|unfold from_, len; cbn [Z.to_nat skipn]; lia|lia|exact H].
Qed.

Theorem normalizeURI_idempotent s : Forall byte s -> normalizeURI (normalizeURI s) = normalizeURI s.
Proof. intros H. apply normalizeURI_fix, normalizeURI_nform, H. Qed.

(* the output alphabet, read off the normal form *)
Definition uriByte (c : Z) : bool := uriChar c || (c =? 37).
Lemma nform_alphabet o : nform o -> forallb uriByte o = true.
Proof.
  induction 1 as [|c o Hu Hc Ho IH|h1 h2 o H1 H2 Ho IH]; [reflexivity| |].
  - cbn [forallb]. unfold uriByte at 1. rewrite Hu, IH. reflexivity.
  - cbn [forallb]. rewrite IH, !andb_true_r.
    assert (Hh : forall h, isHex h = true -> uriByte h = true).
    { intros h Hh. unfold uriByte, uriChar. destruct (isHex_ascii h Hh) as (B & _).
      replace (h <? 128) with true by (symmetry; apply Z.ltb_lt; lia). cbn [andb].
      unfold isHex in Hh. unfold isASCIILetter.
      apply orb_true_iff in Hh. destruct Hh as [Hh|Hh]; [|rewrite Hh, orb_true_r; reflexivity].
      apply orb_true_iff in Hh. destruct Hh as [Hh|Hh]; apply andb_true_iff in Hh; destruct Hh as [A C]; apply Z.leb_le in A, C.
      - replace ((97 <=? h) && (h <=? 122)) with true by (symmetry; apply andb_true_iff; split; apply Z.leb_le; lia).
        rewrite orb_true_r. reflexivity.
      - replace ((65 <=? h) && (h <=? 90)) with true by (symmetry; apply andb_true_iff; split; apply Z.leb_le; lia). reflexivity. }
    rewrite (Hh h1 H1), (Hh h2 H2). reflexivity.
Qed.
Corollary normalizeURI_alphabet s : Forall byte s -> forallb uriByte (normalizeURI s) = true.
Proof. intros H. apply nform_alphabet, normalizeURI_nform, H. Qed.

Print Assumptions normalizeURI_idempotent.
Print Assumptions normalizeURI_alphabet.
