From Coq Require Import List ZArith Lia Bool.
Import ListNotations.
Require Import Base Tree Rdr Link Collect Html Recog LP Rules Starts Driver Render L2Kind L2CC GramDefs GramTree GramLP GramLP2 GramLP3
  Rec17 Rec18 BSOrph BSClose BSLine1 BSLine2 BSLine3 BSLine4 BSLine5 BSLine7 TilBase TilDefs TilLP1 TilLP2.
Open Scope Z_scope.

(* ================= endBlock, openBlock, collectInline, the match rules, descendOpenBlocks ================= *)

Lemma TI_same_cd p p' : root p' = root p -> cdepth p' = cdepth p -> fr p p' -> li p' = li p -> TI p -> TI p'.
Proof.
  intros E1 E2 F E3 (A & B & C). split; [eapply GI_same_cd; eassumption|]. split; [eapply EV_fr; eassumption|].
  destruct F as (F1 & F2 & _). apply (TT_ksim p); try assumption. rewrite E1. apply ksim_refl.
Qed.

Lemma EV_cur_end p : EV p -> li p = len (line p) -> cur p = len (source p).
Proof. intros H E. unfold cur. rewrite E. apply EV_len, H. Qed.
Lemma good_end s : good s (len s). Proof. right; left. lia. Qed.

Lemma GI_top1 p : GI p -> (1 <= cdepth p)%nat -> exists c, top p = Some c /\ isOpen c = true.
Proof.
  intros (_ & _ & C) Hd. pose proof (so_le _ 1 _ Hd C) as C1. destruct (so_getAt _ _ C1) as (x & Hx & Ho).
  exists x. rewrite <- top_getAt1. tauto.
Qed.

(* ---- closing the root child that is the container, at the end of the line ---- *)
Lemma TT_closed_top p x : T0 p -> cdepth p = O -> top p = Some x -> isOpen x = false -> blankR (source p) (bend x) (cur p) -> TT p.
Proof.
  intros (A & D & E & F) Ed Ht Ho Hb. split; [exact A|]. split; [|split; [|split; [exact D|split; [exact E|exact F]]]].
  - intros _ Hop. specialize (Hop x Ht). congruence.
  - intros _ c Hc _. rewrite Ht in Hc. inversion Hc; subst c. exact Hb.
Qed.

Lemma closeUp0 p : GI p -> EV p -> TA p -> TC p -> cdepth p = 1%nat ->
  (forall c, top p = Some c ->
     (forall y, In y (closeBlock (bheight (root p)) (source p) c (cur p)) -> good (source p) (bend y) /\ isOpen y = false) /\
     lastBend (cur p) (closeBlock (bheight (root p)) (source p) c (cur p))) ->
  TI (withCont (closeLastChildAt p O (cur p)) (Some O)).
Proof.
  intros A B CA CC Ed HL. set (p' := withCont (closeLastChildAt p O (cur p)) (Some O)).
  assert (A' : GI p') by (apply GI_closeAt; [exact A|lia|lia]).
  split; [exact A'|]. split; [eapply EV_fr; [|exact B]; apply fr_fields; reflexivity|].
  destruct (GI_top1 p A ltac:(lia)) as (c & Ht & Ho). destruct (HL c Ht) as [H1 H2].
  set (L := closeBlock (bheight (root p)) (source p) c (cur p)) in *.
  assert (HLx : exists x, lastL L = Some x /\ bend x = cur p).
  { unfold lastBend in H2. unfold lastL. destruct (rev L) as [|y t]; [contradiction|]. exists y. tauto. }
  destruct HLx as (x & Hx & Ex).
  assert (Hcur : 0 <= cur p) by (destruct B as (_ & B2 & B3 & _); unfold cur; lia).
  assert (Hok : CLok (source p) (cur p) L).
  { split; [intros y Hy; apply H1, Hy|]. split; [intros y Hy; apply H1, Hy|]. split.
    - intros y Hy. rewrite Hx in Hy. inversion Hy; subst y. rewrite Ex. apply blankR_empty. lia.
    - intros E. rewrite E in Hx. discriminate. }
  pose proof (T0_close0 p (cur p) c Ht Ho Hok CA CC) as C'.
  assert (El : lastBlock (root p) = Some c) by (rewrite lastBlock_lastL; exact Ht).
  assert (Etop : top p' = Some x).
  { unfold top, p'. cbn [root withCont setLP]. rewrite (kids_closeAt0 p _ c El). fold L. rewrite lastL_app; [exact Hx|]. apply Hok. }
  apply (TT_closed_top p' x).
  - apply (T0_same (closeLastChildAt p O (cur p))); [reflexivity|reflexivity|reflexivity|exact C'].
  - reflexivity.
  - exact Etop.
  - unfold isOpen. apply Z.ltb_ge. lia.
  - rewrite Ex. apply blankR_empty. change (cur p') with (cur p). lia.
Qed.

Lemma closeUp0_nonpara p : GI p -> EV p -> T0 p -> cdepth p = 1%nat -> li p = len (line p) ->
  (forall c, top p = Some c -> bkind c <> ParagraphKind /\ bkind c <> SetextHeadingKind) ->
  TI (withCont (closeLastChildAt p O (cur p)) (Some O)).
Proof.
  intros A B C Ed Hli Hk. apply closeUp0; try assumption; [apply C|apply C|].
  intros c Ht. destruct (Hk c Ht) as [N1 N2]. destruct (GI_top1 p A ltac:(lia)) as (c' & Ht' & Ho). rewrite Ht in Ht'. inversion Ht'; subst c'.
  destruct (bheight_S (root p)) as (n & ->).
  assert (Hall : forall y, In y (closeBlock (S n) (source p) c (cur p)) -> bend y = cur p).
  { intros y. apply closeBlock_single; [unfold isOpen in Ho; apply Z.ltb_lt in Ho; exact Ho|exact N1|exact N2]. }
  split.
  - intros y Hy. rewrite (Hall y Hy). split; [rewrite (EV_cur_end p B Hli); apply good_end|].
    unfold isOpen. rewrite (Hall y Hy). apply Z.ltb_ge. destruct B as (_ & B2 & B3 & _). unfold cur. lia.
  - unfold lastBend. destruct (rev (closeBlock (S n) (source p) c (cur p))) as [|y t] eqn:Er.
    + apply (closeBlock_nonnil (source p) (cur p) (S n) c). rewrite <- (rev_involutive (closeBlock _ _ _ _)), Er. reflexivity.
    + apply Hall. apply in_rev. rewrite Er. left. reflexivity.
Qed.

Lemma TI_endBlock p : TI p ->
  (cdepth p = 1%nat -> li p = len (line p) /\ forall c, top p = Some c -> bkind c <> ParagraphKind /\ bkind c <> SetextHeadingKind) ->
  TI (endBlock p).
Proof.
  intros H Hc. unfold endBlock. destruct (_ || _); [apply TI_panic, H|]. cbv zeta.
  set (p0 := if state p =? stOpening then withState p stOpenMatched else p).
  assert (H0 : TI p0) by (apply TI_opened, H).
  assert (E0 : cdepth p0 = cdepth p /\ li p0 = li p /\ line p0 = line p /\ top p0 = top p /\ cur p0 = cur p)
    by (unfold p0; destruct (state p =? stOpening); repeat split).
  destruct E0 as (E1 & E2 & E3 & E4 & E5).
  destruct (cdepth p0) as [|[|d]] eqn:Ed; [apply TI_panic, H0| |].
  - destruct H0 as (A & B & C). rewrite <- E1 in Hc. destruct (Hc eq_refl) as [Hli Hk].
    change (lineStart p0 + li p0) with (cur p0).
    apply closeUp0_nonpara; [exact A|exact B|apply TT_T0, C|exact Ed|rewrite E2, E3; exact Hli|rewrite E4; exact Hk].
  - destruct H0 as (A & B & C). apply closeUp_deep; [exact A|exact B|apply TT_T0, C|exact Ed].
Qed.

(* ---- updCont with a function that keeps what the invariant looks at ---- *)
Lemma TT_updCont p f :
  (forall x, getAt (cdepth p) (root p) = Some x -> sameH x (f x) /\ bkids (f x) = bkids x) -> TT p -> TT (updCont p f).
Proof.
  intros Hf H. apply (TT_ksim p); try reflexivity; [|exact H]. unfold updCont. cbn [root withRoot setLP].
  destruct (cdepth p) as [|d] eqn:Ed.
  - cbn [updAt]. apply ksim_eq. apply (Hf (root p)). reflexivity.
  - apply ksim_updAt. intros E0 x Hx. subst d. apply (Hf x). cbn [getAt]. rewrite Hx. reflexivity.
Qed.
Lemma TI_updCont_keep p f : TI p -> GI (updCont p f) ->
  (forall x, getAt (cdepth p) (root p) = Some x -> sameH x (f x) /\ bkids (f x) = bkids x) -> TI (updCont p f).
Proof.
  intros (A & B & C) HG Hf. split; [exact HG|]. split; [eapply EV_fr; [|exact B]; apply fr_fields; reflexivity|apply TT_updCont; assumption].
Qed.
Lemma sameH_set_bik_nonpara x v : isPara (bkind x) = false -> sameH x (set_bik x v).
Proof. intros H. destruct x. cbn [bkind] in H. split; [reflexivity|]. split; [reflexivity|]. cbn [bkind]. congruence. Qed.
Lemma sameH_set_bindent x v : sameH x (set_bindent x v). Proof. destruct x; repeat split. Qed.
Lemma sameH_set_bn x v : sameH x (set_bn x v). Proof. destruct x; repeat split. Qed.
Lemma sameH_set_bchar x v : sameH x (set_bchar x v). Proof. destruct x; repeat split. Qed.

Lemma TI_updCont_ik p (g : block -> list inline) K : TI p -> ckind p K -> nikK K = false -> isPara K = false ->
  TI (updCont p (fun b => set_bik b (g b))).
Proof.
  intros H Hc Hn Hp. apply TI_updCont_keep; [exact H|eapply GI_updCont_ik; [apply H|exact Hc|exact Hn]|].
  intros x Hx. split; [apply sameH_set_bik_nonpara; rewrite (Hc x Hx); exact Hp|destruct x; reflexivity].
Qed.
Lemma TI_updCont_bindent p v : TI p -> TI (updCont p (fun b => set_bindent b v)).
Proof.
  intros H. apply TI_updCont_keep; [exact H|apply GI_updCont_bindent, H|]. intros x _. split; [apply sameH_set_bindent|destruct x; reflexivity].
Qed.

Lemma loud_updCont p f : (forall x, bkind (f x) = bkind x) -> loud p -> loud (updCont p f).
Proof.
  intros Hf [A B]. split; [exact A|]. intros c E1 Hc. change (cdepth (updCont p f)) with (cdepth p) in E1.
  unfold top, updCont in Hc. cbn [root withRoot setLP] in Hc. rewrite E1 in Hc. cbn [updAt] in Hc.
  destruct (lastBlock (root p)) as [c0|] eqn:El.
  - unfold set_lastBlocks in Hc. rewrite bkids_set_bkids, lastL_snoc in Hc. inversion Hc; subst c. rewrite Hf.
    apply (B c0 E1). unfold top. rewrite <- lastBlock_lastL. exact El.
  - apply (B c E1). exact Hc.
Qed.

Lemma TI_collectInline p kind n K : TI p -> ckind p K -> nikK K = false -> isPara K = false -> K <> documentKind ->
  TI (collectInline p kind n).
Proof.
  intros H Hc Hn Hp Nd. unfold collectInline. destruct (_ =? stDescendTerminated); [apply TI_panic, H|]. cbv zeta.
  assert (NP : K <> ParagraphKind) by (intros ->; discriminate).
  set (p0 := if state p =? stOpening then withState p stOpenMatched else p).
  assert (H0 : TI p0) by (apply TI_opened, H).
  assert (C0 : ckind p0 K) by (eapply ckind_same; [apply same_opened|exact Hc]).
  assert (Hloud : forall q, TI q -> ckind q K -> loud q).
  { intros q Hq Cq. apply (loud_ckind q K); [apply Hq|exact Cq|exact Nd|exact NP]. }
  set (p1 := if 0 <? indent p0 then _ else p0).
  assert (H1 : TI p1 /\ ckind p1 K).
  { unfold p1. destruct (0 <? indent p0); [|tauto]. split.
    - apply (TI_updCont_ik _ (fun b => bik b ++ [_]) K); [apply TI_advance; [exact H0|apply Hloud; assumption]| |exact Hn|exact Hp].
      eapply ckind_same; [apply same_advance|exact C0].
    - apply ckind_updCont; [intros b; apply bkind_set_bik|]. eapply ckind_same; [apply same_advance|exact C0]. }
  destruct H1 as [H1 C1].
  apply (TI_updCont_ik _ (fun b => bik b ++ [_]) K); [apply TI_advance; [exact H1|apply Hloud; assumption]| |exact Hn|exact Hp].
  eapply ckind_same; [apply same_advance|exact C1].
Qed.

(* ---- the match rules ---- *)
Lemma state_desc_sstep p p' : sstep p p' -> state p = stDescending -> state p' = stDescending.
Proof. intros [E|[E _]] H; [congruence|rewrite H in E; discriminate]. Qed.

Lemma TI_matchRule q : TI q -> TI (snd (matchRule q)).
Proof.
  intros H. unfold matchRule. cbv zeta.
  destruct (_ || _); [assumption|].
  destruct (_ =? ListItemKind).
  { unfold matchListItem. destruct (isRestBlank q); [destruct (negb _); [assumption|apply TI_consumeIndent, H]|].
    destruct (_ <=? _); [apply TI_consumeIndent, H|assumption]. }
  destruct (Z.eqb_spec (containerKind q) BlockQuoteKind) as [EB|_].
  { unfold matchBlockQuote. cbv zeta. destruct (_ <=? _); [assumption|]. destruct (negb _); [assumption|]. cbn [snd].
    unfold eatQuoteMarker. cbv zeta.
    assert (H1 : TI (advance (consumeIndent q (indent q)) 1)).
    { apply TI_advance; [apply TI_consumeIndent, H|]. apply (loud_same q); [apply same_consumeIndent|].
      apply (loud_of_kind q BlockQuoteKind); [apply H|exact EB|discriminate|discriminate]. }
    destruct (0 <? _); [apply TI_consumeIndent, H1|exact H1]. }
  destruct (Z.eqb_spec (containerKind q) FencedCodeBlockKind) as [EF|_].
  { unfold matchFenced. cbv zeta. destruct (if _ <? _ then _ else false); cbn [snd]; [|apply TI_consumeIndent, H].
    apply TI_consumeLine; [exact H|]. apply (loud_of_kind q FencedCodeBlockKind); [apply H|exact EF|discriminate|discriminate]. }
  destruct (_ =? IndentedCodeBlockKind).
  { unfold matchIndented. cbv zeta. destruct (_ <? _); [destruct (negb _)|]; cbn [snd]; try apply TI_consumeIndent; assumption. }
  destruct (Z.eqb_spec (containerKind q) HTMLBlockKind) as [EH|_]; [|assumption].
  unfold matchHTML. destruct (htmlEnd _ _); [|assumption]. destruct (isRestBlank _); [assumption|]. cbn [snd].
  assert (Hc : ckind q HTMLBlockKind) by (rewrite <- EH; apply ckind_self).
  assert (H1 : TI (collectInline q RawHTMLKind (len (bytesAfterIndent q)))).
  { apply (TI_collectInline _ _ _ HTMLBlockKind); [exact H|exact Hc|reflexivity|reflexivity|discriminate]. }
  apply TI_consumeLine; [exact H1|]. apply (loud_ckind _ HTMLBlockKind); [apply H1| |discriminate|discriminate].
  unfold collectInline. destruct (_ =? stDescendTerminated); [exact Hc|]. cbv zeta.
  apply ckind_updCont; [intros b; apply bkind_set_bik|]. eapply ckind_same; [apply same_advance|].
  destruct (0 <? _); [|eapply ckind_same; [apply same_opened|exact Hc]].
  apply ckind_updCont; [intros b; apply bkind_set_bik|]. eapply ckind_same; [apply same_advance|]. eapply ckind_same; [apply same_opened|exact Hc].
Qed.

(* a failed match that does not end the line leaves the state as it was *)
Lemma matchRule_false q : state q = stDescending -> fst (matchRule q) = false ->
  state (snd (matchRule q)) <> stDescendTerminated -> snd (matchRule q) = q.
Proof.
  intros Es. unfold matchRule. cbv zeta.
  destruct (_ || _); [reflexivity|].
  destruct (_ =? ListItemKind).
  { unfold matchListItem. destruct (isRestBlank q); [destruct (negb _); [reflexivity|discriminate]|].
    destruct (_ <=? _); [discriminate|reflexivity]. }
  destruct (_ =? BlockQuoteKind).
  { unfold matchBlockQuote. cbv zeta. destruct (_ <=? _); [reflexivity|]. destruct (negb _); [reflexivity|discriminate]. }
  destruct (_ =? FencedCodeBlockKind).
  { unfold matchFenced. cbv zeta. destruct (if _ <? _ then _ else false); cbn [fst snd]; [|discriminate].
    intros _ N. exfalso. apply N. apply state_consumeLine_desc, Es. }
  destruct (_ =? IndentedCodeBlockKind).
  { unfold matchIndented. cbv zeta. destruct (_ <? _); [destruct (negb _)|]; cbn [fst snd]; try discriminate; reflexivity. }
  destruct (_ =? HTMLBlockKind); [|reflexivity].
  unfold matchHTML. destruct (htmlEnd _ _); [|discriminate]. destruct (isRestBlank _); [reflexivity|]. cbn [fst snd].
  intros _ N. exfalso. apply N. apply state_consumeLine_desc. eapply state_desc_sstep; [apply sstep_collectInline|exact Es].
Qed.

Lemma fr_opened p : fr p (if state p =? stOpening then withState p stOpenMatched else p).
Proof. destruct (_ =? _); apply fr_fields; reflexivity. Qed.
Lemma fr_updCont p f : fr p (updCont p f). Proof. apply fr_fields; reflexivity. Qed.
Lemma fr_collectInline p kind n : fr p (collectInline p kind n).
Proof.
  unfold collectInline. destruct (_ =? stDescendTerminated); [apply fr_fields; reflexivity|]. cbv zeta.
  eapply fr_trans; [|apply fr_updCont]. eapply fr_trans; [|apply fr_cstep, cstep_advance].
  destruct (0 <? _); [|apply fr_opened].
  eapply fr_trans; [|apply fr_updCont]. eapply fr_trans; [|apply fr_cstep, cstep_advance]. apply fr_opened.
Qed.

(* a match that ends the line: the container is a fenced code block or an HTML block and the line is consumed *)
Lemma matchRule_term_info q : state q = stDescending -> 0 <= li q <= len (line q) ->
  state (snd (matchRule q)) = stDescendTerminated ->
  (containerKind q = FencedCodeBlockKind \/ containerKind q = HTMLBlockKind) /\
  li (snd (matchRule q)) = len (line (snd (matchRule q))).
Proof.
  intros Es Hli. unfold matchRule. cbv zeta.
  assert (Hno : forall p', sstep q p' -> state p' = stDescendTerminated -> False).
  { intros p' Hs E. rewrite (state_desc_sstep q p' Hs Es) in E. discriminate. }
  assert (Hno1 : forall a, sstep q (consumeIndent q a)) by (intros; apply sstep_consumeIndent).
  destruct (_ || _); [intros E; exfalso; apply (Hno q (sstep_refl q) E)|].
  destruct (_ =? ListItemKind).
  { unfold matchListItem. destruct (isRestBlank q); [destruct (negb _)|destruct (_ <=? _)]; cbn [snd]; intros E; exfalso;
      first [apply (Hno q (sstep_refl q) E)|apply (Hno _ (Hno1 _) E)]. }
  destruct (_ =? BlockQuoteKind).
  { unfold matchBlockQuote. cbv zeta. destruct (_ <=? _); [intros E; exfalso; apply (Hno q (sstep_refl q) E)|].
    destruct (negb _); [intros E; exfalso; apply (Hno q (sstep_refl q) E)|]. cbn [snd]. unfold eatQuoteMarker. cbv zeta.
    assert (S1 : sstep q (advance (consumeIndent q (indent q)) 1)) by (eapply sstep_trans; [apply sstep_consumeIndent|apply sstep_advance]).
    destruct (0 <? _); intros E; exfalso; [|apply (Hno _ S1 E)].
    apply (Hno _ (sstep_trans _ _ _ S1 (sstep_consumeIndent _ _)) E). }
  destruct (Z.eqb_spec (containerKind q) FencedCodeBlockKind) as [EF|_].
  { unfold matchFenced. cbv zeta. destruct (if _ <? _ then _ else false); cbn [snd]; [|intros E; exfalso; apply (Hno _ (Hno1 _) E)].
    intros _. split; [left; exact EF|]. destruct (li_consumeLine q Hli) as [A B]. rewrite A, B. reflexivity. }
  destruct (_ =? IndentedCodeBlockKind).
  { unfold matchIndented. cbv zeta. destruct (_ <? _); [destruct (negb _)|]; cbn [snd]; intros E; exfalso;
      first [apply (Hno q (sstep_refl q) E)|apply (Hno _ (Hno1 _) E)]. }
  destruct (Z.eqb_spec (containerKind q) HTMLBlockKind) as [EH|_]; [|intros E; exfalso; apply (Hno q (sstep_refl q) E)].
  unfold matchHTML. destruct (htmlEnd _ _); [|intros E; exfalso; apply (Hno q (sstep_refl q) E)].
  destruct (isRestBlank _); [intros E; exfalso; apply (Hno q (sstep_refl q) E)|]. cbn [snd].
  intros _. split; [right; exact EH|].
  set (q1 := collectInline q RawHTMLKind (len (bytesAfterIndent q))).
  assert (F1 : fr q q1) by apply fr_collectInline.
  destruct F1 as (_ & _ & F3 & F4). specialize (F4 Hli).
  destruct (li_consumeLine q1 ltac:(rewrite F3; lia)) as [A B]. rewrite A, B. reflexivity.
Qed.
