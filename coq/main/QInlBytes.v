(* QInlBytes.v -- T64 (t64-bytes): byte-level facts of the inline tokeniser in the two-run setting (no readers, no trees).
   Setting: sD sQ, sg with QIRdrBase.SGood sD sQ sg, a span list IK and an entry u with QIRdrBase.gsp sD sg IK u.
   Inside the entry the quoted position of p is   tr sg u p = sg (istart u) + (p - istart u)   (istart u <= p <= iend u).
   This file: part 1 (at_tr, sub_tr, order), part 2 (runEnd, eolRun, skipSpTab), parts 4 and 5 (arguments of the byte scanners,
   byte tests at pos + 1, pos + 2).  Part 3 (emphasisFlags) is in QInlBytesRune.v / QInlBytesEmph.v. *)
From Coq Require Import List ZArith Lia Bool.
Import ListNotations.
Require Import Base Tables Utf8 Tree Rdr Link Collect Inl3a Inl3b Inl3c Inl3d Inl3e ShapesBase QIRdrBase.
Open Scope Z_scope.

Definition tr (sg : Z -> Z) (u : inline) (p : Z) : Z := sg (istart u) + (p - istart u).

(* ---- a generic scanner: the three loops of Inl3e are instances ---- *)
Fixpoint scanP (P : Z -> bool) (fuel : nat) (src : bytes) (e lim : Z) : Z :=
  match fuel with O => e | S f => if (e <? lim) && P (at_ src e) then scanP P f src (e + 1) lim else e end.
Lemma runEnd_scanP c : forall fuel src e lim, runEnd fuel src e lim c = scanP (fun x => x =? c) fuel src e lim.
Proof. induction fuel as [|f IH]; intros src e lim; [reflexivity|]. cbn [runEnd scanP]. rewrite IH. reflexivity. Qed.
Lemma eolRun_scanP : forall fuel src e lim, eolRun fuel src e lim = scanP (fun x => (x =? 10) || (x =? 13)) fuel src e lim.
Proof. induction fuel as [|f IH]; intros src e lim; [reflexivity|]. cbn [eolRun scanP]. rewrite IH. reflexivity. Qed.
Lemma skipSpTab_scanP : forall fuel src e lim, skipSpTab fuel src e lim = scanP isSpTab fuel src e lim.
Proof. induction fuel as [|f IH]; intros src e lim; [reflexivity|]. cbn [skipSpTab scanP]. rewrite IH. reflexivity. Qed.

(* what the scanner returns (enough fuel): the first position in [e, lim] that is lim or fails P *)
Lemma scanP_spec P : forall fuel src e lim, e <= lim -> lim - e <= Z.of_nat fuel ->
  let r := scanP P fuel src e lim in
  e <= r <= lim /\ (forall x, e <= x < r -> P (at_ src x) = true) /\ (r < lim -> P (at_ src r) = false).
Proof.
  induction fuel as [|f IH]; intros src e lim Hle Hf; cbv zeta.
  - cbn [scanP]. split; [lia|]. split; intros; lia.
  - cbn [scanP]. destruct (Z.ltb_spec e lim) as [L|L]; cbn [andb].
    + destruct (P (at_ src e)) eqn:EP.
      * specialize (IH src (e + 1) lim ltac:(lia) ltac:(lia)). cbv zeta in IH. destruct IH as (I1 & I2 & I3).
        split; [lia|]. split; [|exact I3]. intros x Hx. destruct (Z.eq_dec x e) as [->|N]; [exact EP|apply I2; lia].
      * split; [lia|]. split; [intros; lia|intros _; exact EP].
    + split; [lia|]. split; intros; lia.
Qed.
Lemma scanP_ge P : forall fuel src e lim, lim <= e -> scanP P fuel src e lim = e.
Proof. intros [|f] src e lim H; [reflexivity|]. cbn [scanP]. destruct (Z.ltb_spec e lim); [lia|reflexivity]. Qed.

(* two slices with the same bytes (QIRdrBase.sub_ext without its accidental section hypotheses) *)
Lemma sub_ext' (X Y : bytes) a b n : 0 <= a -> 0 <= b -> 0 <= n -> a + n <= len X -> b + n <= len Y ->
  (forall i, 0 <= i < n -> at_ X (a + i) = at_ Y (b + i)) -> sub X a (a + n) = sub Y b (b + n).
Proof.
  intros Ha Hb Hn HX HY H. unfold sub, upto, from_. replace (a + n - a) with n by lia. replace (b + n - b) with n by lia.
  apply (nth_ext _ _ 0 0).
  - rewrite !firstn_length, !skipn_length. unfold len in *. lia.
  - intros k Hk. rewrite firstn_length, skipn_length in Hk. unfold len in *.
    rewrite !nth_firstn_lt' by lia. rewrite !nth_skipn'. specialize (H (Z.of_nat k) ltac:(lia)). unfold at_ in H.
    destruct (Z.ltb_spec (a + Z.of_nat k) 0); [lia|]. destruct (Z.ltb_spec (b + Z.of_nat k) 0); [lia|].
    replace (Z.to_nat (a + Z.of_nat k)) with (Z.to_nat a + k)%nat in H by lia. replace (Z.to_nat (b + Z.of_nat k)) with (Z.to_nat b + k)%nat in H by lia. exact H.
Qed.

Section B.
  Variables (sD sQ : bytes) (sg : Z -> Z) (IK : list inline).
  Hypothesis HS : SGood sD sQ sg.
  Variable u : inline.
  Hypothesis Hu : gsp sD sg IK u.
  Notation tr := (tr sg u).

  (* ---- the map tr ---- *)
  Lemma tr_sg p : istart u <= p < iend u -> tr p = sg p.
  Proof. intros H. destruct Hu as (_ & _ & _ & T & _). unfold QInlBytes.tr. rewrite (T p H). reflexivity. Qed.
  Lemma tr_start : tr (istart u) = sg (istart u). Proof. unfold QInlBytes.tr. lia. Qed.
  Lemma tr_end : tr (iend u) = sg (iend u - 1) + 1.
  Proof. destruct Hu as (A & B & C & T & _). unfold QInlBytes.tr. rewrite (T (iend u - 1)) by lia. lia. Qed.
  Lemma tr_end_mvS : tr (iend u) = iend (mvS sg u). Proof. unfold QInlBytes.tr. rewrite iend_mvS. reflexivity. Qed.
  Lemma tr_start_mvS : tr (istart u) = istart (mvS sg u). Proof. rewrite tr_start, istart_mvS. reflexivity. Qed.
  Lemma tr_add p k : tr (p + k) = tr p + k. Proof. unfold QInlBytes.tr. lia. Qed.
  Lemma tr_sub p k : tr (p - k) = tr p - k. Proof. unfold QInlBytes.tr. lia. Qed.
  Lemma tr_diff a b : tr b - tr a = b - a. Proof. unfold QInlBytes.tr. lia. Qed.
  Lemma tr_ltb a b : (tr a <? tr b) = (a <? b).
  Proof. unfold QInlBytes.tr. destruct (Z.ltb_spec a b); [apply Z.ltb_lt|apply Z.ltb_ge]; lia. Qed.
  Lemma tr_leb a b : (tr a <=? tr b) = (a <=? b).
  Proof. unfold QInlBytes.tr. destruct (Z.leb_spec a b); [apply Z.leb_le|apply Z.leb_gt]; lia. Qed.
  Lemma tr_eqb a b : (tr a =? tr b) = (a =? b).
  Proof. unfold QInlBytes.tr. destruct (Z.eqb_spec a b); [apply Z.eqb_eq|apply Z.eqb_neq]; lia. Qed.
  Lemma tr_lt a b : a < b <-> tr a < tr b. Proof. unfold QInlBytes.tr. lia. Qed.
  Lemma tr_le a b : a <= b <-> tr a <= tr b. Proof. unfold QInlBytes.tr. lia. Qed.
  Lemma tr_inj a b : tr a = tr b -> a = b. Proof. unfold QInlBytes.tr. lia. Qed.
  Lemma tr_nn p : istart u <= p -> 0 <= tr p.
  Proof. intros H. destruct Hu as (A & _). pose proof (SG_nn _ _ _ HS (istart u) A). unfold QInlBytes.tr. lia. Qed.
  Lemma tr_le_len p : p <= iend u -> tr p <= len sQ.
  Proof.
    intros H. destruct Hu as (A & B & C & T & _). pose proof (SG_lt _ _ _ HS (iend u - 1) ltac:(lia)) as L.
    rewrite (T (iend u - 1)) in L by lia. unfold QInlBytes.tr. lia.
  Qed.
  Lemma tr_lt_len p : p < iend u -> tr p < len sQ.
  Proof. intros H. pose proof (tr_le_len (p + 1) ltac:(lia)) as L. rewrite tr_add in L. lia. Qed.
  (* the end of the entry is the end of sD and sD does not end with a line feed: the image is the end of sQ *)
  Lemma tr_end_len : iend u = len sD -> at_ sD (len sD - 1) <> 10 -> tr (iend u) = len sQ.
  Proof. intros E N. rewrite tr_end, E. apply (SG_last _ _ _ HS); [apply (SG_pos _ _ _ HS)|exact N]. Qed.
  (* positions of the reader (sgE) *)
  Lemma tr_sgE p : istart u <= p < iend u -> tr p = sgE sD sg p.
  Proof. intros H. destruct Hu as (_ & _ & C & _). rewrite tr_sg by exact H. unfold sgE. destruct (Z.ltb_spec p (len sD)); [reflexivity|lia]. Qed.

  (* ---- part 1 ---- *)
  Lemma at_tr p : istart u <= p < iend u -> at_ sQ (tr p) = at_ sD p.
  Proof. intros H. destruct Hu as (A & B & C & _). rewrite tr_sg by exact H. apply (SG_at _ _ _ HS). lia. Qed.
  Lemma sub_tr a b : istart u <= a -> a <= b -> b <= iend u -> sub sQ (tr a) (tr b) = sub sD a b.
  Proof.
    intros Ha Hab Hb. destruct Hu as (A & B & C & _).
    replace (tr b) with (tr a + (b - a)) by (unfold QInlBytes.tr; lia). replace (sub sD a b) with (sub sD a (a + (b - a))) by (f_equal; lia).
    apply sub_ext'; try lia.
    - apply tr_nn, Ha.
    - pose proof (tr_le_len b Hb). unfold QInlBytes.tr in *. lia.
    - intros i Hi. rewrite <- tr_add. apply at_tr. lia.
  Qed.
  Lemma len_sub_tr a b : istart u <= a -> a <= b -> b <= iend u -> len (sub sD a b) = b - a.
  Proof. intros Ha Hab Hb. destruct Hu as (A & B & C & _). apply len_sub_in; lia. Qed.

  (* ---- part 2: the three scanners ---- *)
  Lemma scanP_tr P : forall f f' e lim, istart u <= e -> e <= lim -> lim <= iend u -> lim - e <= Z.of_nat f -> lim - e <= Z.of_nat f' ->
    scanP P f' sQ (tr e) (tr lim) = tr (scanP P f sD e lim).
  Proof.
    induction f as [|f IH]; intros f' e lim He Hel Hl Hf Hf'.
    - cbn [scanP]. apply scanP_ge. apply (proj1 (tr_le lim e)). lia.
    - destruct f' as [|f']; [rewrite (scanP_ge P (S f)) by lia; reflexivity|].
      cbn [scanP]. rewrite tr_ltb. destruct (Z.ltb_spec e lim) as [L|L]; cbn [andb]; [|reflexivity].
      rewrite at_tr by lia. destruct (P (at_ sD e)); [|reflexivity].
      rewrite <- tr_add. apply IH; lia.
  Qed.
  Lemma fuel_D e lim : istart u <= e -> lim <= iend u -> lim - e <= Z.of_nat (length sD).
  Proof. intros He Hl. destruct Hu as (A & B & C & _). unfold len in C. lia. Qed.
  Lemma fuel_Q e lim : istart u <= e -> lim <= iend u -> lim - e <= Z.of_nat (length sQ).
  Proof.
    intros He Hl. pose proof (tr_le_len lim Hl) as L1. pose proof (tr_nn e He) as L2. pose proof (tr_diff e lim). unfold len in L1. lia.
  Qed.

  Theorem runEnd_tr e lim c : istart u <= e -> e <= lim -> lim <= iend u ->
    runEnd (length sQ) sQ (tr e) (tr lim) c = tr (runEnd (length sD) sD e lim c).
  Proof. intros He Hel Hl. rewrite !runEnd_scanP. apply scanP_tr; try assumption; [apply fuel_D|apply fuel_Q]; assumption. Qed.
  Theorem eolRun_tr e lim : istart u <= e -> e <= lim -> lim <= iend u ->
    eolRun (length sQ) sQ (tr e) (tr lim) = tr (eolRun (length sD) sD e lim).
  Proof. intros He Hel Hl. rewrite !eolRun_scanP. apply scanP_tr; try assumption; [apply fuel_D|apply fuel_Q]; assumption. Qed.
  Theorem skipSpTab_tr pos lim : istart u <= pos -> pos <= lim -> lim <= iend u ->
    skipSpTab (length sQ) sQ (tr pos) (tr lim) = tr (skipSpTab (length sD) sD pos lim).
  Proof. intros He Hel Hl. rewrite !skipSpTab_scanP. apply scanP_tr; try assumption; [apply fuel_D|apply fuel_Q]; assumption. Qed.

  (* where the results lie, and what bytes the run consists of (plain side; enough for the side conditions of the callers) *)
  Lemma runEnd_range e lim c : istart u <= e -> e <= lim -> lim <= iend u ->
    let r := runEnd (length sD) sD e lim c in
    e <= r <= lim /\ (forall x, e <= x < r -> at_ sD x = c) /\ (r < lim -> at_ sD r <> c).
  Proof.
    intros He Hel Hl. cbv zeta. rewrite runEnd_scanP.
    destruct (scanP_spec (fun x => x =? c) (length sD) sD e lim Hel (fuel_D e lim He Hl)) as (R1 & R2 & R3).
    split; [exact R1|]. split; [intros x Hx; apply Z.eqb_eq, R2, Hx|intros Hr; apply Z.eqb_neq, R3, Hr].
  Qed.
  Lemma eolRun_range e lim : istart u <= e -> e <= lim -> lim <= iend u ->
    let r := eolRun (length sD) sD e lim in
    e <= r <= lim /\ (forall x, e <= x < r -> at_ sD x = 10 \/ at_ sD x = 13) /\ (r < lim -> at_ sD r <> 10 /\ at_ sD r <> 13).
  Proof.
    intros He Hel Hl. cbv zeta. rewrite eolRun_scanP.
    destruct (scanP_spec (fun x => (x =? 10) || (x =? 13)) (length sD) sD e lim Hel (fuel_D e lim He Hl)) as (R1 & R2 & R3).
    split; [exact R1|]. split.
    - intros x Hx. specialize (R2 x Hx). apply orb_true_iff in R2. destruct R2 as [R2|R2]; apply Z.eqb_eq in R2; [left|right]; exact R2.
    - intros Hr. specialize (R3 Hr). apply orb_false_iff in R3. destruct R3 as [R3 R4]. apply Z.eqb_neq in R3, R4. split; assumption.
  Qed.
  Lemma skipSpTab_range pos lim : istart u <= pos -> pos <= lim -> lim <= iend u ->
    let r := skipSpTab (length sD) sD pos lim in
    pos <= r <= lim /\ (forall x, pos <= x < r -> isSpTab (at_ sD x) = true) /\ (r < lim -> isSpTab (at_ sD r) = false).
  Proof. intros He Hel Hl. cbv zeta. rewrite skipSpTab_scanP. apply scanP_spec; [exact Hel|apply fuel_D; assumption]. Qed.

  (* the delimiter run of parseDelimiterRun: [start, e) with e = runEnd .. (start + 1) lim (at_ src start); all its bytes are the
     byte at start, in particular the byte at e - 1 *)
  Lemma delimRun_last start lim : istart u <= start -> start < lim -> lim <= iend u ->
    let e := runEnd (length sD) sD (start + 1) lim (at_ sD start) in
    start < e <= lim /\ at_ sD (e - 1) = at_ sD start.
  Proof.
    intros Hs Hsl Hl. cbv zeta. destruct (runEnd_range (start + 1) lim (at_ sD start) ltac:(lia) ltac:(lia) Hl) as (R1 & R2 & _).
    split; [lia|]. destruct (Z.eq_dec (runEnd (length sD) sD (start + 1) lim (at_ sD start)) (start + 1)) as [E|N].
    - rewrite E. f_equal. lia.
    - apply R2. lia.
  Qed.

  (* ---- part 4: the arguments of the byte scanners ---- *)
  Lemma rest_tr pos : istart u <= pos -> pos <= iend u -> sub sQ (tr pos) (tr (iend u)) = sub sD pos (iend u).
  Proof. intros H1 H2. apply sub_tr; lia. Qed.
  Lemma rest_tr_mvS pos : istart u <= pos -> pos <= iend u -> sub sQ (tr pos) (iend (mvS sg u)) = sub sD pos (iend u).
  Proof. intros H1 H2. rewrite <- tr_end_mvS. apply rest_tr; assumption. Qed.
  Corollary parseHardLineBreakSpace_tr pos : istart u <= pos -> pos <= iend u ->
    parseHardLineBreakSpace (sub sQ (tr pos) (tr (iend u))) = parseHardLineBreakSpace (sub sD pos (iend u)).
  Proof. intros H1 H2. rewrite rest_tr by assumption. reflexivity. Qed.
  Corollary parseAutolink_tr pos : istart u <= pos -> pos <= iend u ->
    parseAutolink (sub sQ (tr pos) (tr (iend u))) = parseAutolink (sub sD pos (iend u)).
  Proof. intros H1 H2. rewrite rest_tr by assumption. reflexivity. Qed.
  Corollary parseCharacterEscape_tr pos : istart u <= pos -> pos <= iend u ->
    parseCharacterEscape (sub sQ (tr pos) (tr (iend u))) = parseCharacterEscape (sub sD pos (iend u)).
  Proof. intros H1 H2. rewrite rest_tr by assumption. reflexivity. Qed.

  (* ---- part 5: the byte tests at pos + k guarded by spanEnd ---- *)
  Lemma at_tr_add p k : istart u <= p + k < iend u -> at_ sQ (tr p + k) = at_ sD (p + k).
  Proof. intros H. rewrite <- tr_add. apply at_tr, H. Qed.
  Lemma at_tr_1 p : istart u <= p -> p + 1 < iend u -> at_ sQ (tr p + 1) = at_ sD (p + 1).
  Proof. intros H1 H2. apply at_tr_add. lia. Qed.
  Lemma at_tr_2 p : istart u <= p -> p + 2 < iend u -> at_ sQ (tr p + 2) = at_ sD (p + 2).
  Proof. intros H1 H2. apply at_tr_add. lia. Qed.
  (* the guards themselves: spanEnd is tr (iend u) on the quoted side *)
  Lemma guard_ltb p k : (tr p + k <? tr (iend u)) = (p + k <? iend u).
  Proof. rewrite <- tr_add. apply tr_ltb. Qed.
  Lemma guard_leb p k : (tr (iend u) <=? tr p + k) = (iend u <=? p + k).
  Proof. rewrite <- tr_add. apply tr_leb. Qed.
  (* guarded tests as they occur in istep / parseBackslash / parseEndBracket *)
  Lemma test_and p k c : istart u <= p + k ->
    ((tr p + k <? tr (iend u)) && (at_ sQ (tr p + k) =? c)) = ((p + k <? iend u) && (at_ sD (p + k) =? c)).
  Proof. intros H. rewrite guard_ltb. destruct (Z.ltb_spec (p + k) (iend u)) as [L|L]; cbn [andb]; [|reflexivity]. rewrite at_tr_add by lia. reflexivity. Qed.
  Lemma test_or_neg p k c : istart u <= p + k ->
    ((tr (iend u) <=? tr p + k) || negb (at_ sQ (tr p + k) =? c)) = ((iend u <=? p + k) || negb (at_ sD (p + k) =? c)).
  Proof. intros H. rewrite guard_leb. destruct (Z.leb_spec (iend u) (p + k)) as [L|L]; cbn [orb]; [reflexivity|]. rewrite at_tr_add by lia. reflexivity. Qed.
  Lemma test_or3 p k c d : istart u <= p + k ->
    ((tr (iend u) <=? tr p + k) || (at_ sQ (tr p + k) =? c) || (at_ sQ (tr p + k) =? d)) = ((iend u <=? p + k) || (at_ sD (p + k) =? c) || (at_ sD (p + k) =? d)).
  Proof. intros H. rewrite guard_leb. destruct (Z.leb_spec (iend u) (p + k)) as [L|L]; cbn [orb]; [reflexivity|]. rewrite at_tr_add by lia. reflexivity. Qed.
  Lemma isCollapsed_tr p : istart u <= p ->
    ((tr p + 2 <? tr (iend u)) && (at_ sQ (tr p + 1) =? 91) && (at_ sQ (tr p + 2) =? 93)) = ((p + 2 <? iend u) && (at_ sD (p + 1) =? 91) && (at_ sD (p + 2) =? 93)).
  Proof.
    intros H. rewrite guard_ltb. destruct (Z.ltb_spec (p + 2) (iend u)) as [L|L]; cbn [andb]; [|reflexivity].
    rewrite !at_tr_add by lia. reflexivity.
  Qed.
End B.

Print Assumptions at_tr.
Print Assumptions sub_tr.
Print Assumptions runEnd_tr.
Print Assumptions eolRun_tr.
Print Assumptions skipSpTab_tr.
Print Assumptions rest_tr.
Print Assumptions isCollapsed_tr.
