From Coq Require Import List ZArith Lia Bool.
Import ListNotations.
Require Import Base Tables Utf8 Tree Rdr Link Collect Html Recog Inl3a Inl3b Inl3c Inl3d Inl3e LP Rules Starts Driver Props.
Require L2Kind2.
Require Import BSDef BSTree BlockSpans BShDef BlockShapes BlockShapesNul ShapesR.
Require Import ShapesBase SpanHypDef CoverFuel.
Require Import EntBase EntRdr1 EntOcpDefs En2Tree En2Drv EntDefs En2OK ComposeBase.
Open Scope Z_scope.

(* ================================================================================================
   T46 (2): the column bound of CoverFuel / CoverInline holds of the block layer's output, for every input.

   colsOK src U  :=  cols U <= len src + 8, where cols U is the number of columns the Indent entries of U stand for.
   On a block the inline parser runs on (SpanHypDef.isLeafU): a paragraph / setext heading has entries `lines`
   (EntBase): an Indent entry is one tab byte with at most 3 columns, it is followed by an Unparsed entry that does not
   start with a line ending, and every Unparsed entry but the last ends with a line ending.  So every Indent entry but
   possibly the last one stands in front of at least two more bytes of its own line: cols U <= end of the block + 1
   (EntRdr1.lines_ibudget_aux).  An ATX heading has a single Unparsed entry: cols U = 0.
   ================================================================================================ *)
Fixpoint colsOKB (fuel : nat) (src : bytes) (b : block) : bool :=
  match fuel with
  | O => true
  | S f => if isLeafU b then colsOK src (bik b) else forallb (colsOKB f src) (bkids b)
  end.
Definition colsOKroots (roots : list rootB) : bool :=
  forallb (fun r => colsOKB (bheight (rb_blk r)) (rb_src r) (rb_blk r)) roots.

Lemma cols_ibudget : forall l, cols l = ibudget l.
Proof. induction l as [|u r IH]; [reflexivity|]. cbn [cols ibudget]. unfold colsOf. rewrite IH. reflexivity. Qed.

Section Root.
  Variables (B pre src pre' : bytes) (M n : Z).
  Hypothesis Hn : 0 <= n <= len B.
  Hypothesis Epre : pre = upto B n.
  Hypothesis Esrc : src = fillNulls pre.
  Hypothesis Htri : tri pre.
  Hypothesis Lp' : len pre' = n.

  (* the sharper bound: at most one column more than the block has bytes *)
  Lemma leaf_cols b : facts B pre' M b -> hasUnparsed b = true -> cols (bik b) <= bend b + 1 /\ bend b <= len src.
  Proof.
    intros Hf Hu. destruct (leaf_cases B pre' M n Lp' b Hf Hu) as (S1 & S2 & S3 & [(HK & HL & Hlo)|(HK & a & t & E & _)]).
    - rewrite (src_len B pre src n Hn Epre Esrc). split; [|exact S3]. rewrite cols_ibudget.
      pose proof (lines_ibudget_aux B (bend b) ltac:(lia) (length (bik b)) (bik b) (le_n _) HL 0 ltac:(lia)) as Hb.
      assert (Hall : forall u, In u (bik b) -> 0 <= istart u) by (intros u Hin; apply (lines_entry B (bend b) (bik b) u HL Hin)).
      specialize (Hb Hall). lia.
    - rewrite (src_len B pre src n Hn Epre Esrc). split; [|exact S3]. rewrite E. cbn. lia.
  Qed.

  Lemma leaf_colsOK b : facts B pre' M b -> hasUnparsed b = true -> colsOK src (bik b) = true.
  Proof. intros Hf Hu. destruct (leaf_cols b Hf Hu) as [H1 H2]. unfold colsOK. apply Z.leb_le. lia. Qed.

  Lemma root_colsOKB : forall fuel b, facts B pre' M b -> colsOKB fuel src b = true.
  Proof.
    induction fuel as [|f IH]; intros b Hf; [reflexivity|]. cbn [colsOKB]. destruct (isLeafU b) eqn:El.
    - unfold isLeafU in El. apply andb_true_iff in El. apply leaf_colsOK; [exact Hf|apply El].
    - apply forallb_forall. intros c Hc. apply IH. eapply facts_kids; eassumption.
  Qed.
End Root.

Theorem parseBlocks_colsOK : forall input, colsOKroots (fst (parseBlocks input)) = true.
Proof.
  intros input. unfold colsOKroots. apply forallb_forall. intros r Hr.
  destruct (root_facts input r Hr) as (B & pre' & M & Hn & Es & Ht & Lp & Hf).
  apply (root_colsOKB B (upto B (bend (rb_blk r))) (rb_src r) pre' M (bend (rb_blk r)) Hn eq_refl Es Lp); exact Hf.
Qed.
Print Assumptions parseBlocks_colsOK.
