From Coq Require Import List ZArith Lia Bool.
Import ListNotations.
Require Import Base Tree Driver Inl3e Render EolFinalDefs EolFinalFullDefs EolFinalFullRel.
Require Import EolFinalRenderBase EolFinalRenderI EolFinalRenderDoc EolFinalRenderSafe EolFinalRenderHb EolFinalRenderRel.
Require EolFinalFullMain EolFinalFullHbNo.
Open Scope Z_scope.

(* ====================================================================================================
   Property C14, third clause (final newline), on the rendered HTML, for every cfg and every input s with
   s <> [], not ending in LF / CR, not ending in '>' (the hypotheses of the block-level theorem).
     sbr c      = what the renderer writes for the synthetic empty SoftLineBreak that ends a code block cut by the end of
                  input: [10] / [32] / openTag c "br" ++ [10] for softBreak c = 0 / 1 / 2;
     LFI sb a b = b is a with LF bytes inserted and occurrences of sb replaced by one LF.
   Unconditional theorems (tree level: EolFinalFullMain.parseFull_final_newline_rel, EolFinalFullHbNo.parseFull_final_newline_nohb).
   ==================================================================================================== *)
Theorem renderDoc_final_newline : forall c s, s <> [] -> endsEol s = false -> lastByte s <> 62 ->
  LFI (sbr c) (renderDoc c s) (renderDoc c (s ++ [10])).
Proof. exact (renderDoc_final_newline_of_rel EolFinalFullMain.parseFull_final_newline_rel). Qed.
Print Assumptions renderDoc_final_newline.

(* default soft-break mode (raw or safe): equal after deleting LF bytes *)
Theorem renderDoc_final_newline_delLF : forall c s, softBreak c = 0 -> s <> [] -> endsEol s = false -> lastByte s <> 62 ->
  delLF (renderDoc c (s ++ [10])) = delLF (renderDoc c s).
Proof. exact (renderDoc_final_newline_delLF_of renderDoc_final_newline). Qed.
Print Assumptions renderDoc_final_newline_delLF.

(* softBreak 1: equal after deleting LF and space bytes *)
Theorem renderDoc_final_newline_delWs : forall c s, softBreak c = 1 -> s <> [] -> endsEol s = false -> lastByte s <> 62 ->
  delWs (renderDoc c (s ++ [10])) = delWs (renderDoc c s).
Proof. exact (renderDoc_final_newline_delWs_of renderDoc_final_newline). Qed.
Print Assumptions renderDoc_final_newline_delWs.

(* safe mode with default soft breaks, input not ending in two spaces: LITERALLY equal *)
Theorem renderDoc_final_newline_safe : forall c s, ignoreRaw c = true -> softBreak c = 0 ->
  s <> [] -> endsEol s = false -> lastByte s <> 62 -> hbTail s = false -> renderDoc c (s ++ [10]) = renderDoc c s.
Proof.
  intros c s Hraw Hsb H1 H2 H3 Hhb. rewrite !renderDoc_eq, (EolFinalFullHbNo.parseFull_final_newline_nohb s H1 H2 H3 Hhb). cbn [fst].
  pose proof (parseFull_valid s) as Hv. rewrite (defsOf_fin _ _ Hv). f_equal. apply renderRoots_fin_eq'; try assumption.
  apply last_src_hb, Hhb.
Qed.
Print Assumptions renderDoc_final_newline_safe.

(* the property's clause in the configuration the harness uses (safe mode, default soft breaks), as a byte-level consequence:
   equal after deleting LF bytes -- for EVERY admissible input, also those ending in two spaces *)
Corollary renderDoc_final_newline_safe_delLF : forall p fo s, s <> [] -> endsEol s = false -> lastByte s <> 62 ->
  let c := {| softBreak := 0; ignoreRaw := true; filterOn := fo; filterP := p |} in
  delLF (renderDoc c (s ++ [10])) = delLF (renderDoc c s).
Proof. intros p fo s H1 H2 H3. apply renderDoc_final_newline_delLF; [reflexivity|assumption..]. Qed.
Print Assumptions renderDoc_final_newline_safe_delLF.
