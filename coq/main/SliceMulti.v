(* SliceMulti.v -- property C09, block-quote clause, generalised to SEVERAL text lines forming ONE paragraph (T40 part A, generalisation).

   For text lines t1 .. tn (n >= 1, SliceText.wfText, any lengths), U = the lines (one paragraph), D = "> " before every line:

     C09_quote_lines : parseFull U = one paragraph root whose inline children are  concat forest,
                       parseFull D = one BlockQuoteKind root [0,len) > one paragraph [2,len) whose inline children are
                                     concat (shiftFrom 2 2 forest),
                       renderDoc c D = "<blockquote>" ++ renderDoc c U ++ "</blockquote>"      (every c without tag filter)
     where forest = lineForest [] 0 ts lists the nodes of the unquoted paragraph line by line (the text nodes SliceTok.tokSpec of
     the line, then a SoftLineBreak node [e-1, e) on the line's LF unless it is the last line) and shiftFrom 2 2 shifts the nodes
     of line j (from 0) by 2 * (j + 1): this is the prefix-removal map ("> " removed from each of the j + 1 lines up to there).
     renderDoc_lines_top gives renderDoc c U = "<p>" ++ linesHtml c ts ++ "</p>" (soft breaks rendered according to softBreak c).
   No side condition beyond wfText of every line is needed.
   Route: SliceSpans.parseInlines_lines (multi-span tokeniser), processLine_cont_top / processLine_cont_quote (a continuation line:
   the quote matches "> ", the paragraph matches a non-blank rest, no block start fires, addLineText appends one Unparsed span),
   lineLoop_lines / parseBlocks_lines (generic in the container), processLine_eof_top / processLine_eof_quoteN. *)
From Coq Require Import List ZArith Lia Bool.
Import ListNotations.
Require Import Base Tables Utf8 Tree Rdr Link Collect Html Recog LP Rules Starts Driver Inl3a Inl3b Inl3c Inl3d Inl3e Render Fmt Entry Cursor
  SliceBase SlicePara SliceText SliceCode SliceTok SliceLine SliceFormat SliceNest SliceSpans.
Open Scope Z_scope.

(* ---------------------------------------------------------------------------------------------- *)
(* 1. a continuation line of an open paragraph                                                     *)
(* ---------------------------------------------------------------------------------------------- *)
Lemma st2_setext_para p c r : indent p = 0 -> bytesAfterIndent p = c :: r -> c <> 61 -> c <> 45 -> startSetext p = p.
Proof.
  intros Hi Hb H61 H45. unfold startSetext. destruct (negb (containerKind p =? ParagraphKind)); [reflexivity|].
  rewrite Hi. cbn [codeBlockIndentLimit Z.leb Z.compare]. rewrite Hb. cbn [parseSetextHeadingUnderline].
  destruct (Z.eqb_spec c 61); [contradiction|]. destruct (Z.eqb_spec c 45); [contradiction|]. reflexivity.
Qed.

Lemma tryStarts_none_para p c r : indent p = 0 -> bytesAfterIndent p = c :: r -> paraStart2 c = true -> c <> 61 ->
  snd (parseListMarker (c :: r)) < 0 -> tryStarts blockStarts p = (false, withState p stOpening).
Proof.
  intros Hi Hb Hc H61 Hm.
  assert (Hiq : indent (withState p stOpening) = 0) by exact Hi.
  assert (Hbq : bytesAfterIndent (withState p stOpening) = c :: r) by exact Hb.
  assert (H45 : c <> 45) by (apply Z.eqb_neq; apply ps2_ne; [exact Hc|cbn; tauto]).
  apply tryStarts_id; [|discriminate].
  intros f Hin. unfold blockStarts in Hin. cbn [In] in Hin.
  destruct Hin as [<-|[<-|[<-|[<-|[<-|[<-|[<-|[<-|[]]]]]]]]].
  - apply (st2_bq _ c r Hiq Hbq Hc).
  - apply (st2_atx _ c r Hiq Hbq Hc).
  - apply (st2_fenced _ c r Hiq Hbq Hc).
  - apply (st2_html _ c r Hiq Hbq Hc).
  - apply (st2_setext_para _ c r Hiq Hbq H61 H45).
  - apply (st2_thematic _ c r Hiq Hbq Hc).
  - apply (st2_list _ c r Hiq Hbq Hm).
  - apply (st2_indented _ Hiq).
Qed.

Lemma openNewBlocks_para p pre c r : atLineK p pre c r -> paraStart2 c = true -> c <> 61 -> containerKind p = ParagraphKind ->
  snd (parseListMarker (c :: r)) < 0 -> openNewBlocks p true = (true, withState p stOpening).
Proof.
  intros Hal Hc H61 Hk Hm. unfold openNewBlocks. pose proof (alk_len_pos p pre c r Hal) as Hl.
  destruct (Z.eqb_spec (len (line p)) 0) as [E|_].
  { rewrite E in Hl. destruct Hal as [H1 _]. rewrite H1 in Hl. pose proof (sl_len_nonneg pre). apply Z.leb_gt in Hl. lia. }
  cbn [opening_loop]. rewrite Hk. change (ParagraphKind =? ParagraphKind) with true. cbn [orb]. cbv iota.
  rewrite (tryStarts_none_para p c r (alk_indent p pre c r Hal (ps2_sptab c Hc)) (alk_bai p pre c r Hal (ps2_sptab c Hc)) Hc H61 Hm). reflexivity.
Qed.

Lemma addLineText_cont p pre c r : atLineK p pre c r -> isSpaceTabOrLineEnding c = false -> bkind (contBlock p) = ParagraphKind ->
  setLastBlankUpTo (cdepth p) false (root p) = root p ->
  addLineText p = updCont p (fun b => set_bik b (bik b ++ [mkI UnparsedKind (lineStart p + li p) (lineStart p + len (line p))])).
Proof.
  intros Hal Hc Hk Hlb.
  pose proof (alk_blank p pre c r Hal Hc) as Hb. pose proof (alk_at p pre c r Hal) as Hat.
  assert (H9 : (c =? 9) = false) by (unfold isSpaceTabOrLineEnding in Hc; destruct (c =? 32); [discriminate|]; destruct (c =? 9); [discriminate|reflexivity]).
  unfold addLineText. rewrite Hb. cbv zeta. cbn [andb negb]. rewrite Hk. change (acceptsLines ParagraphKind) with true. cbv iota.
  rewrite Hlb.
  assert (E1 : withRoot p (root p) = p) by (destruct p; reflexivity). rewrite E1.
  rewrite Hat, H9. rewrite andb_false_r. cbn [andb]. cbv iota.
  unfold containerKind. rewrite Hk. change (isCode ParagraphKind) with false. cbn [andb]. cbv iota.
  change (ParagraphKind =? HTMLBlockKind) with false. cbv iota. reflexivity.
Qed.

Definition paraOpenN (s : Z) (spans : list inline) : block := Blk ParagraphKind s (-1) [] spans 0 0 0 false false.
Definition paraClosedN (s e : Z) (spans : list inline) : block := Blk ParagraphKind s e [] spans 0 0 0 false false.

(* the facts used about the first byte c of the text of a continuation line *)
Definition contByte (c : Z) (r : bytes) : Prop :=
  paraStart2 c = true /\ c <> 61 /\ snd (parseListMarker (c :: r)) < 0.

Lemma processLine_cont_top st src s spans ls c r : from_ src ls = c :: r -> contByte c r ->
  processLine st [paraOpenN s spans] ls src = ([paraOpenN s (spans ++ [mkI UnparsedKind ls (ls + len (c :: r))])], stOpening, 0).
Proof.
  intros Hl (Hc & H61 & Hm). unfold processLine, resetLP. rewrite Hl.
  assert (E9 : (c =? 9) = false) by (pose proof (ps2_sptab c Hc) as E; unfold isSpTab in E; apply orb_false_iff in E; apply E).
  rewrite (computeTabRem_0 c r 0 E9).
  set (p0 := {| source := src; root := Blk documentKind 0 (-1) [paraOpenN s spans] [] 0 0 0 false false; container := Some 0%nat;
               lineStart := ls; line := c :: r; li := 0; col := 0; tabRem := 0; state := st; panicked := 0 |}).
  set (q := setLP p0 (root p0) (Some 1%nat) 0 0 0 stDescending 0).
  assert (Halq : atLineK q [] c r) by (split; reflexivity).
  assert (Hd : descendOpenBlocks p0 = (true, q)).
  { unfold descendOpenBlocks. change (bheight (root p0)) with 2%nat. cbn [descend_loop].
    change (getAt 1 (root p0)) with (Some (paraOpenN s spans)). cbv iota.
    change (negb (isOpen (paraOpenN s spans))) with false. cbv iota.
    change (negb (hasMatch (bkind (paraOpenN s spans)))) with false. cbv iota.
    change (withState (withCont p0 (Some 1%nat)) stDescending) with q.
    change (matchRule q) with (negb (isRestBlank q), q). rewrite (alk_blank q [] c r Halq (ps2_ws c Hc)). cbn [negb].
    change (state q =? stDescendTerminated) with false. cbv iota.
    change (getAt 2 (root q)) with (@None block). reflexivity. }
  rewrite Hd. change (negb (state q =? stDescendTerminated)) with true. cbv iota.
  rewrite (openNewBlocks_para q [] c r Halq Hc H61 eq_refl Hm).
  assert (Halq' : atLineK (withState q stOpening) [] c r) by exact Halq.
  rewrite (addLineText_cont (withState q stOpening) [] c r Halq' (ps2_ws c Hc) eq_refl eq_refl).
  cbn [lineStart li line withState setLP q p0]. rewrite Z.add_0_r. reflexivity.
Qed.

Lemma processLine_cont_quote st src qs s spans ls c r : from_ src ls = 62 :: 32 :: c :: r -> contByte c r ->
  processLine st [quoteOpen qs [paraOpenN s spans]] ls src =
  ([quoteOpen qs [paraOpenN s (spans ++ [mkI UnparsedKind (ls + 2) (ls + len (62 :: 32 :: c :: r))])]], stOpening, 0).
Proof.
  intros Hl (Hc & H61 & Hm). unfold processLine, resetLP. rewrite Hl.
  rewrite (computeTabRem_0 62 (32 :: c :: r) 0 eq_refl).
  set (ln := 62 :: 32 :: c :: r).
  set (p0 := {| source := src; root := Blk documentKind 0 (-1) [quoteOpen qs [paraOpenN s spans]] [] 0 0 0 false false; container := Some 0%nat;
               lineStart := ls; line := ln; li := 0; col := 0; tabRem := 0; state := st; panicked := 0 |}).
  set (q1 := setLP p0 (root p0) (Some 1%nat) 0 0 0 stDescending 0).
  assert (Hal1 : atLine q1 62 (32 :: c :: r)) by (split; reflexivity).
  destruct (eatQuote q1 c r eq_refl eq_refl (ps2_sptab c Hc) eq_refl) as (cl & Eq). cbv zeta in Eq.
  set (q2 := setLP q1 (root q1) (container q1) 2 cl 0 (state q1) (panicked q1)) in *.
  assert (Hm1 : matchRule q1 = (true, q2)).
  { change (matchRule q1) with (matchBlockQuote q1). unfold matchBlockQuote.
    rewrite (al_indent q1 62 _ Hal1 eq_refl). cbn [codeBlockIndentLimit Z.leb Z.compare].
    rewrite (al_bai q1 62 _ Hal1 eq_refl). cbn [hasBytePrefix Z.eqb Pos.eqb andb negb].
    unfold eatQuoteMarker. rewrite (consumeIndent_le0 q1 0) by lia. rewrite Eq. reflexivity. }
  set (q3 := setLP q2 (root q2) (Some 2%nat) 2 cl 0 stDescending 0).
  assert (Halq : atLineK q3 [62; 32] c r) by (split; reflexivity).
  assert (Hd : descendOpenBlocks p0 = (true, q3)).
  { unfold descendOpenBlocks. change (bheight (root p0)) with 3%nat. cbn [descend_loop].
    change (getAt 1 (root p0)) with (Some (quoteOpen qs [paraOpenN s spans])). cbv iota.
    change (negb (isOpen (quoteOpen qs [paraOpenN s spans]))) with false. cbv iota.
    change (negb (hasMatch (bkind (quoteOpen qs [paraOpenN s spans])))) with false. cbv iota.
    change (withState (withCont p0 (Some 1%nat)) stDescending) with q1. rewrite Hm1.
    change (state q2 =? stDescendTerminated) with false. cbv iota. cbn [negb].
    change (getAt 2 (root q2)) with (Some (paraOpenN s spans)). cbv iota.
    change (negb (isOpen (paraOpenN s spans))) with false. cbv iota.
    change (negb (hasMatch (bkind (paraOpenN s spans)))) with false. cbv iota.
    change (withState (withCont q2 (Some 2%nat)) stDescending) with q3.
    change (matchRule q3) with (negb (isRestBlank q3), q3). rewrite (alk_blank q3 _ c r Halq (ps2_ws c Hc)). cbn [negb].
    change (state q3 =? stDescendTerminated) with false. cbv iota.
    change (getAt 3 (root q3)) with (@None block). reflexivity. }
  rewrite Hd. change (negb (state q3 =? stDescendTerminated)) with true. cbv iota.
  rewrite (openNewBlocks_para q3 _ c r Halq Hc H61 eq_refl Hm).
  assert (Halq' : atLineK (withState q3 stOpening) [62; 32] c r) by exact Halq.
  rewrite (addLineText_cont (withState q3 stOpening) _ c r Halq' (ps2_ws c Hc) eq_refl eq_refl).
  reflexivity.
Qed.

(* ---------------------------------------------------------------------------------------------- *)
(* 2. end of input                                                                                 *)
(* ---------------------------------------------------------------------------------------------- *)
Lemma current_unparsed_cons src s e rest : 0 <= s -> s < e -> s < len src -> at_ src s <> 0 ->
  fst (current (newReader src (mkI UnparsedKind s e :: rest) s)) = at_ src s.
Proof.
  intros H0 Hse Hlen Hnz. unfold current, newReader. cbn [r_src r_pos r_spans r_vpos].
  destruct (Z.leb_spec (len src) s); [lia|].
  unfold curNode. cbn [r_src r_pos r_spans r_vpos r_prev]. unfold nodeIndexForPosition. cbn [nodeIdx mkI istart iend].
  destruct (Z.ltb_spec s s); [lia|]. unfold spanHas. cbn [mkI istart iend].
  assert (E : (0 <=? s) && (0 <=? e) && (s <=? e) && (s <=? s) && (s <? e) = true).
  { repeat (apply andb_true_iff; split); try (apply Z.leb_le; lia). apply Z.ltb_lt; lia. }
  rewrite E. cbn [Z.ltb Z.compare from_ Z.to_nat skipn hd_error okind mkI ikind].
  change (UnparsedKind =? IndentKind) with false. cbv iota.
  destruct (Z.eqb_spec (at_ src s) 0); [contradiction|]. reflexivity.
Qed.

Lemma onClose_paraN src s e0 e1 rest : 0 <= s -> s < e1 -> s < len src -> at_ src s <> 0 -> at_ src s <> 91 ->
  onCloseParagraph src (paraClosedN s e0 (mkI UnparsedKind s e1 :: rest)) = [paraClosedN s e0 (mkI UnparsedKind s e1 :: rest)].
Proof.
  intros H0 Hse Hlen Hnz H91.
  apply (onCloseParagraph_nolabel src _ (mkI UnparsedKind s e1) rest); [reflexivity|].
  cbn [paraClosedN bik mkI istart]. change (Inl UnparsedKind s e1 0 [] []) with (mkI UnparsedKind s e1).
  rewrite (current_unparsed_cons src s e1 rest H0 Hse Hlen Hnz). apply Z.eqb_neq. exact H91.
Qed.

Lemma processLine_eof_top st src s e1 rest : 0 <= s -> s < e1 -> s < len src -> at_ src s <> 0 -> at_ src s <> 91 ->
  processLine st [paraOpenN s (mkI UnparsedKind s e1 :: rest)] (len src) src =
  ([paraClosedN s (len src) (mkI UnparsedKind s e1 :: rest)], stDescending, 0).
Proof.
  intros H0 Hse Hlen Hnz H91. unfold processLine, resetLP. rewrite sl_from_all.
  change (computeTabRem [] 0 0) with 0.
  set (spans := mkI UnparsedKind s e1 :: rest).
  set (p0 := {| source := src; root := Blk documentKind 0 (-1) [paraOpenN s spans] [] 0 0 0 false false; container := Some 0%nat;
               lineStart := len src; line := []; li := 0; col := 0; tabRem := 0; state := st; panicked := 0 |}).
  assert (Hd : descendOpenBlocks p0 = (false, setLP p0 (root p0) (Some 0%nat) 0 0 0 stDescending 0)) by reflexivity.
  rewrite Hd. set (q := setLP p0 (root p0) (Some 0%nat) 0 0 0 stDescending 0).
  change (negb (state q =? stDescendTerminated)) with true. cbv iota.
  unfold openNewBlocks. change (len (line q) =? 0) with true. cbv iota.
  change (bheight (root q)) with 2%nat. change (root q) with (rootDoc [paraOpenN s spans]).
  change (source q) with src. change (lineStart q) with (len src).
  rewrite (closeBlock_plain 1 src (rootDoc [paraOpenN s spans]) (len src) eq_refl eq_refl).
  change (lastBlock (set_bend (rootDoc [paraOpenN s spans]) (len src))) with (Some (paraOpenN s spans)). cbv iota.
  rewrite (closeBlock_para 0 src (paraOpenN s spans) (len src) eq_refl eq_refl).
  change (set_bend (paraOpenN s spans) (len src)) with (paraClosedN s (len src) spans).
  unfold spans. rewrite (onClose_paraN src s (len src) e1 rest H0 Hse Hlen Hnz H91). reflexivity.
Qed.

Definition quoteClosed (s e : Z) (kids : list block) : block := Blk BlockQuoteKind s e kids [] 0 0 0 false false.

Lemma processLine_eof_quoteN st src qs s e1 rest : 0 <= s -> s < e1 -> s < len src -> at_ src s <> 0 -> at_ src s <> 91 ->
  processLine st [quoteOpen qs [paraOpenN s (mkI UnparsedKind s e1 :: rest)]] (len src) src =
  ([quoteClosed qs (len src) [paraClosedN s (len src) (mkI UnparsedKind s e1 :: rest)]], stDescending, 0).
Proof.
  intros H0 Hse Hlen Hnz H91. unfold processLine, resetLP. rewrite sl_from_all.
  change (computeTabRem [] 0 0) with 0.
  set (spans := mkI UnparsedKind s e1 :: rest).
  set (p0 := {| source := src; root := Blk documentKind 0 (-1) [quoteOpen qs [paraOpenN s spans]] [] 0 0 0 false false; container := Some 0%nat;
               lineStart := len src; line := []; li := 0; col := 0; tabRem := 0; state := st; panicked := 0 |}).
  assert (Hd : descendOpenBlocks p0 = (false, setLP p0 (root p0) (Some 0%nat) 0 0 0 stDescending 0)) by reflexivity.
  rewrite Hd. set (q := setLP p0 (root p0) (Some 0%nat) 0 0 0 stDescending 0).
  change (negb (state q =? stDescendTerminated)) with true. cbv iota.
  unfold openNewBlocks. change (len (line q) =? 0) with true. cbv iota.
  change (bheight (root q)) with 3%nat. change (root q) with (rootDoc [quoteOpen qs [paraOpenN s spans]]).
  change (source q) with src. change (lineStart q) with (len src).
  rewrite (closeBlock_plain 2 src (rootDoc [quoteOpen qs [paraOpenN s spans]]) (len src) eq_refl eq_refl).
  change (lastBlock (set_bend (rootDoc [quoteOpen qs [paraOpenN s spans]]) (len src))) with (Some (quoteOpen qs [paraOpenN s spans])). cbv iota.
  rewrite (closeBlock_plain 1 src (quoteOpen qs [paraOpenN s spans]) (len src) eq_refl eq_refl).
  change (lastBlock (set_bend (quoteOpen qs [paraOpenN s spans]) (len src))) with (Some (paraOpenN s spans)). cbv iota.
  rewrite (closeBlock_para 0 src (paraOpenN s spans) (len src) eq_refl eq_refl).
  change (set_bend (paraOpenN s spans) (len src)) with (paraClosedN s (len src) spans).
  unfold spans. rewrite (onClose_paraN src s (len src) e1 rest H0 Hse Hlen Hnz H91). reflexivity.
Qed.

(* ---------------------------------------------------------------------------------------------- *)
(* 3. the line loop over the continuation lines, generic in the container                          *)
(* ---------------------------------------------------------------------------------------------- *)
Notation EP := isASCIIPunctuation.
Ltac lensimp ::= repeat (rewrite sl_len_app || rewrite sl_len_cons); rewrite ?(@sl_len_nil Z).
Definition pl (P : bytes) (ts : list bytes) : list (bytes * bytes) := map (fun t => (P, t)) ts.
Definition nextEnd (P : bytes) (post : list bytes) : Z := match post with [] => 0 | t :: _ => len P + len (esc t) + 1 end.

Lemma pl_app P a b : pl P (a ++ b) = pl P a ++ pl P b. Proof. apply map_app. Qed.

(* facts about a text line used by the block layer *)
Lemma okText_contByte t : okText true t = true -> exists c r, esc t = c :: r /\ contByte c (r ++ [10]) /\ c <> 91 /\ c <> 0.
Proof.
  intros Hok. destruct (esc_head t Hok) as (c & r & He & Hc & H91 & Hm). exists c, r. split; [exact He|].
  pose proof (esc_bytes t (okText_bytes t true Hok)) as Hb. rewrite He in Hb. apply Forall_cons_iff in Hb. destruct Hb as [Hb _].
  apply textByte_range in Hb.
  assert (H61 : c <> 61).
  { destruct t as [|x t']; [discriminate|]. cbn [okText] in Hok. destruct (Z.eqb_spec x 32); [discriminate|].
    apply andb_true_iff in Hok. destruct Hok as [Hx _]. destruct (isASCIIPunctuation x) eqn:Ep.
    - rewrite (esc_punct x t' Ep) in He. inversion He. lia.
    - rewrite (esc_nonpunct x t' Ep) in He. inversion He; subst. intros ->. discriminate Ep. }
  split; [|split; [exact H91|lia]]. split; [apply paraStartByte_2; exact Hc|]. split; [exact H61|]. rewrite He in Hm. exact Hm.
Qed.
Lemma esc_noEol t p : okText p t = true -> noEolB (esc t).
Proof. intros H. apply textBytes_noEol. apply esc_bytes. exact (okText_bytes t p H). Qed.
Lemma esc_noNul t p : okText p t = true -> noNul (esc t).
Proof. intros H. apply textBytes_noNul. apply esc_bytes. exact (okText_bytes t p H). Qed.

Section LineLoop.
Variable P : bytes.
Hypothesis PnoEol : noEolB P.
Variable wrapO : list inline -> list block.
Variable wrapC : Z -> list inline -> block.
Hypothesis Hopen : forall spans s, makeRoot (wrapO spans) s = None.
Hypothesis HendC : forall e spans, bend (wrapC e spans) = e.
Hypothesis Hstep : forall st src spans ls c r, from_ src ls = P ++ c :: r -> contByte c r ->
  processLine st (wrapO spans) ls src = (wrapO (spans ++ [mkI UnparsedKind (ls + len P) (ls + len (P ++ c :: r))]), stOpening, 0).
Hypothesis Heof : forall st src e1 rest, len P < e1 -> len P < len src -> at_ src (len P) <> 0 -> at_ src (len P) <> 91 ->
  processLine st (wrapO (mkI UnparsedKind (len P) e1 :: rest)) (len src) src = ([wrapC (len src) (mkI UnparsedKind (len P) e1 :: rest)], stDescending, 0).

Lemma srcOf_pl_cons t r : srcOf EP (pl P (t :: r)) = P ++ esc t ++ [10] ++ srcOf EP (pl P r).
Proof. reflexivity. Qed.

Lemma lineEnd_next pre' post' : Forall (fun t => okText true t = true) post' ->
  lineEnd (pre' ++ srcOf EP (pl P post')) (len pre') = len pre' + nextEnd P post'.
Proof.
  intros Hpost'. destruct post' as [|t2 post2].
  - cbn [pl map srcOf]. rewrite app_nil_r. cbn [nextEnd]. rewrite Z.add_0_r. apply lineEnd_end.
  - apply Forall_cons_iff in Hpost'. destruct Hpost' as [Ht2 _]. cbn [nextEnd]. rewrite srcOf_pl_cons.
    replace (pre' ++ P ++ esc t2 ++ [10] ++ srcOf EP (pl P post2)) with (pre' ++ (P ++ esc t2) ++ 10 :: srcOf EP (pl P post2))
      by (rewrite <- !app_assoc; reflexivity).
    rewrite lineEnd_lf; [lensimp; lia|]. apply Forall_app. split; [exact PnoEol|apply (esc_noEol t2 true Ht2)].
Qed.

Lemma lineLoop_lines : forall post t1 done st f bo bl B,
  B = srcOf EP (pl P ((t1 :: done) ++ post)) -> Forall (fun t => okText true t = true) (t1 :: done ++ post) ->
  (length post < f)%nat ->
  lineLoop f st (wrapO (spansAt EP 0 (pl P (t1 :: done)))) (len (srcOf EP (pl P (t1 :: done))))
           {| buf := B; bi := len (srcOf EP (pl P (t1 :: done))) + nextEnd P post; boff := bo; bline := bl; pending := [] |} =
  NBBlock {| rb_line := bl; rb_start := bo; rb_end := bo + unpadded B; rb_src := fillNulls B;
             rb_blk := wrapC (len B) (spansAt EP 0 (pl P ((t1 :: done) ++ post))) |}
          {| buf := []; bi := 0; boff := bo + unpadded B; bline := bl + lineCount B; pending := [] |}.
Proof.
  induction post as [|t post' IH]; intros t1 done st f bo bl B HB Hok Hf.
  - destruct f as [|f]; [cbn [length] in Hf; lia|]. rewrite app_nil_r in HB. cbn [nextEnd]. rewrite Z.add_0_r. rewrite <- HB.
    rewrite sl_lineLoop_S. cbn [buf bi boff bline pending]. rewrite sl_upto_all.
    apply Forall_cons_iff in Hok. destruct Hok as [Ht1 _].
    destruct (okText_contByte t1 Ht1) as (c & r & He & _ & H91 & H0).
    assert (HB1 : B = P ++ c :: (r ++ [10] ++ srcOf EP (pl P done))).
    { rewrite HB. rewrite srcOf_pl_cons. rewrite He. reflexivity. }
    assert (Hat : at_ B (len P) = c) by (rewrite HB1; apply sl_at_app_len).
    pose proof (sl_len_nonneg P) as HP0. pose proof (sl_len_nonneg (r ++ [10] ++ srcOf EP (pl P done))) as Hr0.
    assert (HlenB : len P < len B). { rewrite HB1. lensimp. pose proof (sl_len_nonneg r). pose proof (sl_len_nonneg (srcOf EP (pl P done))). lia. }
    change (pl P (t1 :: done)) with ((P, t1) :: pl P done). cbn [spansAt]. rewrite Z.add_0_l.
    pose proof (sl_len_nonneg (esc t1)) as He0.
    rewrite (Heof st B (len P + len (genEsc EP t1) + 1) _); [|change (genEsc EP t1) with (esc t1); lia|lia|rewrite Hat; exact H0|rewrite Hat; exact H91].
    change (negb (0 =? 0)) with false. cbv iota. unfold makeRoot. unfold isOpen. rewrite HendC. cbn [buf bi boff bline pending].
    pose proof (sl_len_nonneg B). destruct (Z.ltb_spec (len B) 0); [lia|]. rewrite sl_upto_all, sl_from_all, Z.sub_diag. rewrite app_nil_r. reflexivity.
  - destruct f as [|f]; [cbn [length] in Hf; lia|]. cbn [length] in Hf.
    assert (Hok2 := Hok). apply Forall_cons_iff in Hok2. destruct Hok2 as [_ Hok2]. apply Forall_app in Hok2. destruct Hok2 as [_ Hok2].
    apply Forall_cons_iff in Hok2. destruct Hok2 as [Ht Hpost'].
    destruct (okText_contByte t Ht) as (c & r & He & Hcb & _ & _).
    set (dn := t1 :: done) in *. set (pre := srcOf EP (pl P dn)).
    set (pre' := srcOf EP (pl P (dn ++ [t]))).
    assert (Hpre' : pre' = pre ++ P ++ esc t ++ [10]).
    { unfold pre', pre. rewrite pl_app, srcOf_app. cbn [pl map srcOf]. rewrite app_nil_r. reflexivity. }
    assert (HB' : B = pre' ++ srcOf EP (pl P post')).
    { rewrite HB. rewrite pl_app, srcOf_app. fold pre. rewrite Hpre'. cbn [pl map srcOf]. rewrite <- !app_assoc. reflexivity. }
    cbn [nextEnd].
    assert (Hlp : len pre + (len P + len (esc t) + 1) = len pre') by (rewrite Hpre'; lensimp; lia).
    rewrite sl_lineLoop_S. cbn [buf bi boff bline pending]. rewrite Hlp.
    assert (Hup : upto B (len pre') = pre') by (rewrite HB'; apply sl_upto_app_len). rewrite Hup.
    assert (Hfr : from_ pre' (len pre) = P ++ c :: (r ++ [10])).
    { rewrite Hpre'. rewrite sl_from_app_len. rewrite He. reflexivity. }
    rewrite (Hstep st pre' _ (len pre) c (r ++ [10]) Hfr Hcb).
    change (negb (0 =? 0)) with false. cbv iota. rewrite Hopen.
    assert (Hspans : spansAt EP 0 (pl P dn) ++ [mkI UnparsedKind (len pre + len P) (len pre + len (P ++ c :: r ++ [10]))] = spansAt EP 0 (pl P (dn ++ [t]))).
    { rewrite pl_app, spansAt_app. fold pre. cbn [pl map spansAt]. rewrite Z.add_0_l. f_equal. f_equal. f_equal.
      change (genEsc EP t) with (esc t). rewrite He. lensimp. lia. }
    rewrite Hspans.
    assert (Hle : lineEnd B (len pre') = len pre' + nextEnd P post') by (rewrite HB'; apply lineEnd_next; exact Hpost').
    rewrite Hle.
    assert (HBd : B = srcOf EP (pl P ((t1 :: done ++ [t]) ++ post'))).
    { rewrite HB. unfold dn. cbn [app]. rewrite <- app_assoc. reflexivity. }
    assert (Hok3 : Forall (fun t => okText true t = true) (t1 :: (done ++ [t]) ++ post')).
    { rewrite <- app_assoc. exact Hok. }
    pose proof (IH t1 (done ++ [t]) stOpening f bo bl B HBd Hok3 ltac:(lia)) as IHr.
    change (t1 :: done ++ [t]) with (dn ++ [t]) in IHr. fold pre' in IHr. rewrite IHr.
    f_equal. f_equal. f_equal. unfold dn. cbn [app]. rewrite <- app_assoc. reflexivity.
Qed.

Hypothesis PnoNul : noNul P.
Hypothesis Hfirst : forall src c r, from_ src 0 = P ++ c :: r -> contByte c r ->
  processLine 0 [] 0 src = (wrapO [mkI UnparsedKind (0 + len P) (0 + len (P ++ c :: r))], stOpenMatched, 0).

Lemma noNul_srcOf ts : Forall (fun t => okText true t = true) ts -> noNul (srcOf EP (pl P ts)).
Proof.
  induction 1 as [|t r Ht Hr IH]; [constructor|]. rewrite srcOf_pl_cons. apply noNul_app; [exact PnoNul|].
  apply noNul_app; [apply (esc_noNul t true Ht)|]. constructor; [lia|exact IH].
Qed.

Theorem parseBlocks_lines t1 rest : Forall (fun t => okText true t = true) (t1 :: rest) ->
  let B := srcOf EP (pl P (t1 :: rest)) in
  parseBlocks B = ([oneRoot B (wrapC (len B) (spansAt EP 0 (pl P (t1 :: rest))))], 0).
Proof.
  intros Hok B. pose proof (noNul_srcOf _ Hok) as HnulB. fold B in HnulB.
  assert (Ht1 : okText true t1 = true) by (apply Forall_cons_iff in Hok; apply Hok).
  assert (Hrest : Forall (fun t => okText true t = true) rest) by (apply Forall_cons_iff in Hok; apply Hok).
  destruct (okText_contByte t1 Ht1) as (c & r & He & Hcb & H91 & H0).
  set (l1 := srcOf EP (pl P [t1])).
  assert (Hl1 : l1 = P ++ c :: r ++ [10]) by (unfold l1; cbn [pl map srcOf]; rewrite app_nil_r; change (genEsc EP t1) with (esc t1); rewrite He; reflexivity).
  assert (HB : B = l1 ++ srcOf EP (pl P rest)).
  { unfold B, l1. change (t1 :: rest) with ([t1] ++ rest). rewrite pl_app, srcOf_app. reflexivity. }
  pose proof (sl_len_nonneg P) as HP0. pose proof (sl_len_nonneg r) as Hr0. pose proof (sl_len_nonneg (srcOf EP (pl P rest))) as Hs0.
  assert (Hlen1 : len l1 = len P + len r + 2) by (rewrite Hl1; lensimp; lia).
  unfold parseBlocks. rewrite (pad_noNul B HnulB).
  assert (Hfuel : exists f, length B = S (S f) /\ (length rest <= f)%nat).
  { assert (Hg : forall ts, Forall (fun t => okText true t = true) ts -> (2 * length ts <= length (srcOf EP (pl P ts)))%nat).
    { induction 1 as [|t ts' Ht Hts IH]; [cbn; lia|]. rewrite srcOf_pl_cons. rewrite !app_length. cbn [length].
      destruct (okText_contByte t Ht) as (c' & r' & He' & _). rewrite He'. cbn [length]. lia. }
    specialize (Hg _ Hok). cbn [length] in Hg. exists (length B - 2)%nat. fold B in Hg. split; lia. }
  destruct Hfuel as (f & Hf & Hfl). rewrite Hf.
  rewrite sl_allBlocks_S. cbn [buf]. rewrite Hf. rewrite sl_nextBlock_start.
  change (3 + S (S f))%nat with (S (S (S (S (S f))))). rewrite sl_skipLoop_S. cbv zeta. cbn [buf bi boff bline pending].
  assert (Hle : lineEnd B 0 = len l1).
  { rewrite HB, Hl1. replace ((P ++ c :: r ++ [10]) ++ srcOf EP (pl P rest)) with ([] ++ (P ++ c :: r) ++ 10 :: srcOf EP (pl P rest))
      by (repeat (first [rewrite <- app_assoc | progress cbn [app]]); reflexivity).
    change 0 with (len (@nil Z)) at 1. rewrite lineEnd_lf; [lensimp; lia|].
    apply Forall_app. split; [exact PnoEol|]. rewrite <- He. apply (esc_noEol t1 true Ht1). }
  rewrite Hle. destruct (Z.ltb_spec 0 (len l1)); [|lia]. cbn [negb].
  assert (Hup : upto B (len l1) = l1) by (rewrite HB; apply sl_upto_app_len). rewrite Hup.
  assert (Hnb : isBlankLine l1 = false).
  { rewrite Hl1. unfold isBlankLine. rewrite forallb_app. cbn [forallb]. destruct Hcb as (Hc & _). rewrite (ps2_ws c Hc). cbn [andb]. apply andb_false_r. }
  rewrite Hnb.
  rewrite sl_lineLoop_S. cbn [buf bi boff bline pending]. rewrite Hup.
  rewrite (Hfirst l1 c (r ++ [10])); [|rewrite Hl1; reflexivity|exact Hcb].
  change (negb (0 =? 0)) with false. cbv iota. rewrite Hopen.
  assert (Hsp1 : [mkI UnparsedKind (0 + len P) (0 + len (P ++ c :: r ++ [10]))] = spansAt EP 0 (pl P [t1])).
  { cbn [pl map spansAt]. f_equal. f_equal. change (genEsc EP t1) with (esc t1). rewrite He. lensimp. lia. }
  rewrite Hsp1.
  rewrite HB at 2. rewrite (lineEnd_next l1 rest Hrest).
  pose proof (lineLoop_lines rest t1 [] stOpenMatched (S (S (S f))) 0 1 B eq_refl Hok ltac:(lia)) as HLL.
  fold l1 in HLL. rewrite HLL.
  rewrite sl_allBlocks_S. cbn [buf length Nat.add map app]. rewrite nextBlock_eof.
  rewrite (unpadded_noNul B HnulB), (fillNulls_noNul B HnulB). unfold oneRoot. rewrite Z.add_0_l. reflexivity.
Qed.
End LineLoop.

(* ---------------------------------------------------------------------------------------------- *)
(* 4. the two containers                                                                           *)
(* ---------------------------------------------------------------------------------------------- *)
Definition topO (spans : list inline) : list block := [paraOpenN 0 spans].
Definition topC (e : Z) (spans : list inline) : block := paraClosedN 0 e spans.
Definition quoO (spans : list inline) : list block := [quoteOpen 0 [paraOpenN 2 spans]].
Definition quoC (e : Z) (spans : list inline) : block := quoteClosed 0 e [paraClosedN 2 e spans].

Theorem parseBlocks_lines_top t1 rest : Forall (fun t => okText true t = true) (t1 :: rest) ->
  let B := srcOf EP (pl [] (t1 :: rest)) in
  parseBlocks B = ([oneRoot B (topC (len B) (spansAt EP 0 (pl [] (t1 :: rest))))], 0).
Proof.
  apply (parseBlocks_lines [] ltac:(constructor) topO topC).
  - reflexivity.
  - reflexivity.
  - intros st src spans ls c r Hfr Hcb. unfold topO. rewrite (processLine_cont_top st src 0 spans ls c r Hfr Hcb).
    change (len (@nil Z)) with 0. rewrite Z.add_0_r. reflexivity.
  - intros st src e1 rest' H1 H2 H3 H4. unfold topO, topC. change (len (@nil Z)) with 0 in *.
    apply (processLine_eof_top st src 0 e1 rest'); [lia|exact H1|exact H2|exact H3|exact H4].
  - constructor.
  - intros src c r Hfr (Hc & H61 & Hm). unfold topO. rewrite (processLine_first_para2 src 0 c r Hfr Hc Hm). reflexivity.
Qed.

Theorem parseBlocks_lines_quote t1 rest : Forall (fun t => okText true t = true) (t1 :: rest) ->
  let B := srcOf EP (pl [62; 32] (t1 :: rest)) in
  parseBlocks B = ([oneRoot B (quoC (len B) (spansAt EP 0 (pl [62; 32] (t1 :: rest))))], 0).
Proof.
  apply (parseBlocks_lines [62; 32] ltac:(repeat constructor; lia) quoO quoC).
  - reflexivity.
  - reflexivity.
  - intros st src spans ls c r Hfr Hcb. unfold quoO. rewrite (processLine_cont_quote st src 0 2 spans ls c r Hfr Hcb). reflexivity.
  - intros st src e1 rest' H1 H2 H3 H4. unfold quoO, quoC. change (len [62; 32]) with 2 in *.
    apply (processLine_eof_quoteN st src 0 2 e1 rest'); [lia|exact H1|exact H2|exact H3|exact H4].
  - repeat constructor; lia.
  - intros src c r Hfr (Hc & H61 & Hm). unfold quoO. rewrite (processLine_quote_first src 0 c r Hfr Hc Hm). reflexivity.
Qed.

(* ---------------------------------------------------------------------------------------------- *)
(* 5. parseFull                                                                                    *)
(* ---------------------------------------------------------------------------------------------- *)
Lemma okTextE_pl P ts : Forall (fun t => okText true t = true) ts -> Forall (fun pt => okTextE EP true (snd pt) = true) (pl P ts).
Proof. induction 1 as [|t r Ht Hr IH]; [constructor|]. constructor; [apply okText_punct; exact Ht|exact IH]. Qed.

Theorem parseFull_lines_top t1 rest : Forall (fun t => okText true t = true) (t1 :: rest) ->
  let U := srcOf EP (pl [] (t1 :: rest)) in
  parseFull U = ([oneRoot U (paraOf (len U) (nodesAt EP 0 (pl [] (t1 :: rest))))], 0).
Proof.
  intros Hok U. unfold parseFull. pose proof (parseBlocks_lines_top t1 rest Hok) as Hpb. cbv zeta in Hpb. fold U in Hpb. rewrite Hpb.
  cbn [fold_left map oneRoot rb_blk rb_src rb_line rb_start rb_end].
  set (spans := spansAt EP 0 (pl [] (t1 :: rest))). set (b := topC (len U) spans).
  change (bheight b) with 1%nat. change (extractB 1 b []) with (@nil bytes). cbn [rewriteB].
  assert (Hu : (0 <? len (bik b)) && hasUnparsed b = true) by reflexivity. rewrite Hu.
  pose proof (parseInlines_lines EP eq_refl (pl [] (t1 :: rest)) [] b ltac:(discriminate) (okTextE_pl [] _ Hok) eq_refl) as Hpi.
  fold U in Hpi. rewrite Hpi. reflexivity.
Qed.

Definition quotedParaN (e : Z) (nodes : list inline) : block :=
  quoteOf e [Blk ParagraphKind 2 e [] nodes 0 0 0 false false].

Theorem parseFull_lines_quote t1 rest : Forall (fun t => okText true t = true) (t1 :: rest) ->
  let D := srcOf EP (pl [62; 32] (t1 :: rest)) in
  parseFull D = ([oneRoot D (quotedParaN (len D) (nodesAt EP 0 (pl [62; 32] (t1 :: rest))))], 0).
Proof.
  intros Hok D. unfold parseFull. pose proof (parseBlocks_lines_quote t1 rest Hok) as Hpb. cbv zeta in Hpb. fold D in Hpb. rewrite Hpb.
  cbn [fold_left map oneRoot rb_blk rb_src rb_line rb_start rb_end].
  set (spans := spansAt EP 0 (pl [62; 32] (t1 :: rest))). set (b := quoC (len D) spans).
  change (bheight b) with 2%nat. change (extractB 2 b []) with (@nil bytes).
  set (pb := paraClosedN 2 (len D) spans).
  assert (Hrw : rewriteB 2 D [] b = quoteOf (len D) [set_bik pb (parseInlines D [] pb)]) by reflexivity.
  rewrite Hrw.
  pose proof (parseInlines_lines EP eq_refl (pl [62; 32] (t1 :: rest)) [] pb ltac:(discriminate) (okTextE_pl _ _ Hok) eq_refl) as Hpi.
  fold D in Hpi. rewrite Hpi. reflexivity.
Qed.

(* ---------------------------------------------------------------------------------------------- *)
(* 6. the inline forest, line by line, and the prefix-removal map                                  *)
(* ---------------------------------------------------------------------------------------------- *)
Fixpoint lineForest (P : bytes) (off : Z) (ts : list bytes) : list (list inline) :=
  match ts with
  | [] => []
  | t :: r => let s := off + len P in let e := s + len (esc t) + 1 in
              (tokSpec EP s s t ++ match r with [] => [] | _ => [mkI SoftLineBreakKind (e - 1) e] end) :: lineForest P e r
  end.
Lemma nodesAt_concat P : forall ts off, nodesAt EP off (pl P ts) = concat (lineForest P off ts).
Proof.
  induction ts as [|t r IH]; intros off; [reflexivity|]. change (pl P (t :: r)) with ((P, t) :: pl P r). cbn [nodesAt lineForest concat].
  change (genEsc EP t) with (esc t). rewrite IH. rewrite <- app_assoc. f_equal. f_equal. destruct r; reflexivity.
Qed.
(* line j (from 0) is shifted by k + step * j *)
Fixpoint shiftFrom (k step : Z) (ls : list (list inline)) : list (list inline) :=
  match ls with [] => [] | l :: r => map (shiftI k) l :: shiftFrom (k + step) step r end.

Lemma lineForest_shift P : forall ts off k, 0 <= off ->
  lineForest P (off + k) ts = shiftFrom (k + len P) (len P) (lineForest [] off ts).
Proof.
  induction ts as [|t r IH]; intros off k H0; [reflexivity|]. cbn [lineForest shiftFrom]. rewrite sl_len_nil, Z.add_0_r.
  pose proof (sl_len_nonneg (esc t)) as He0. pose proof (sl_len_nonneg P) as HP0.
  f_equal.
  - rewrite map_app. f_equal.
    + replace (off + k + len P) with (off + (k + len P)) by lia. apply (tokSpec_shift EP (k + len P) t off off). lia.
    + destruct r; [reflexivity|]. cbn [map shiftI mkI]. destruct (Z.leb_spec 0 (off + len (esc t) + 1)); [|lia]. unfold mkI. f_equal. f_equal; lia.
  - replace (off + k + len P + len (esc t) + 1) with (off + len (esc t) + 1 + (k + len P)) by lia. apply IH. lia.
Qed.

(* ---------------------------------------------------------------------------------------------- *)
(* 7. rendering                                                                                    *)
(* ---------------------------------------------------------------------------------------------- *)
Definition softHtml (c : cfg) : bytes :=
  if softBreak c =? 2 then openTag c s_brname ++ [10] else if softBreak c =? 1 then [32] else [10].
Fixpoint linesHtml (c : cfg) (ts : list bytes) : bytes :=
  match ts with [] => [] | t :: r => escapeHTML t ++ (match r with [] => [] | _ => softHtml c end) ++ linesHtml c r end.

Lemma render_soft c X e : 0 <= e - 1 -> sub X (e - 1) e = [10] ->
  renderI (isize (mkI SoftLineBreakKind (e - 1) e)) c [] X (mkI SoftLineBreakKind (e - 1) e) = softHtml c.
Proof.
  intros H0 Hs. cbn [mkI isize fold_right renderI ikind istart iend].
  change ((SoftLineBreakKind =? TextKind) || (SoftLineBreakKind =? UnparsedKind)) with false.
  change (SoftLineBreakKind =? CharacterReferenceKind) with false. change (SoftLineBreakKind =? RawHTMLKind) with false.
  change (SoftLineBreakKind =? SoftLineBreakKind) with true. cbv iota. unfold softHtml.
  destruct (softBreak c =? 2); [reflexivity|]. destruct (softBreak c =? 1); [reflexivity|].
  destruct (Z.ltb_spec 0 (e - (e - 1))); [|lia]. unfold spanOf. cbn [istart iend]. exact Hs.
Qed.

Lemma render_lines c P : forall ts pre X, X = pre ++ srcOf EP (pl P ts) ->
  flat_map (fun i => renderI (isize i) c [] X i) (nodesAt EP (len pre) (pl P ts)) = linesHtml c ts.
Proof.
  induction ts as [|t r IH]; intros pre X HX; [reflexivity|].
  change (pl P (t :: r)) with ((P, t) :: pl P r). cbn [nodesAt linesHtml]. rewrite !flat_map_app.
  change (genEsc EP t) with (esc t).
  assert (HX1 : X = (pre ++ P) ++ [] ++ genEsc EP t ++ [10] ++ srcOf EP (pl P r)).
  { rewrite HX. cbn [srcOf app]. rewrite <- !app_assoc. reflexivity. }
  f_equal; [|f_equal].
  - rewrite (kidsI_texts c [] X _ (tokSpec_isText EP t _ _)).
    pose proof (tokSpec_spans EP t (pre ++ P) [] ([10] ++ srcOf EP (pl P r)) X HX1) as Hs.
    rewrite sl_len_nil, Z.add_0_r, sl_len_app in Hs. rewrite Hs. reflexivity.
  - destruct r as [|t2 r']; [reflexivity|]. change (pl P (t2 :: r')) with ((P, t2) :: pl P r'). cbv iota. cbn [flat_map]. rewrite ?app_nil_r.
    pose proof (sl_len_nonneg pre). pose proof (sl_len_nonneg P). pose proof (sl_len_nonneg (esc t)).
    apply render_soft; [lia|].
    assert (HX2 : X = (pre ++ P ++ esc t) ++ [10] ++ srcOf EP (pl P (t2 :: r'))) by (rewrite HX1; rewrite <- !app_assoc; reflexivity).
    rewrite HX2. apply sl_sub_app'; lensimp; lia.
  - replace (len pre + len P + len (esc t) + 1) with (len (pre ++ P ++ esc t ++ [10])) by (lensimp; lia).
    apply IH. rewrite HX. cbn [srcOf app]. rewrite <- !app_assoc. reflexivity.
Qed.

(* ---------------------------------------------------------------------------------------------- *)
(* 8. C09, block-quote clause, several text lines forming one paragraph                            *)
(* ---------------------------------------------------------------------------------------------- *)
Definition linesDoc (P : bytes) (ts : list bytes) : bytes := concat (map (fun t => P ++ tline t) ts).
Lemma srcOf_linesDoc P ts : srcOf EP (pl P ts) = linesDoc P ts.
Proof.
  induction ts as [|t r IH]; [reflexivity|]. change (pl P (t :: r)) with ((P, t) :: pl P r). cbn [srcOf]. unfold linesDoc in *. cbn [map concat].
  rewrite IH. unfold tline. change (genEsc EP t) with (esc t). rewrite <- !app_assoc. reflexivity.
Qed.

Lemma renderDoc_lines_top c t1 rest : filterOn c = false -> Forall (fun t => okText true t = true) (t1 :: rest) ->
  renderDoc c (linesDoc [] (t1 :: rest)) = [60; 112; 62] ++ linesHtml c (t1 :: rest) ++ [60; 47; 112; 62].
Proof.
  intros Hc Hok. rewrite <- srcOf_linesDoc. pose proof (parseFull_lines_top t1 rest Hok) as Hpf. cbv zeta in Hpf.
  set (U := srcOf EP (pl [] (t1 :: rest))) in *. unfold renderDoc. rewrite Hpf.
  cbn [fold_left map oneRoot rb_blk rb_src]. set (nodes := nodesAt EP 0 (pl [] (t1 :: rest))).
  change (bheight (paraOf (len U) nodes)) with 1%nat.
  change (extractDefs 1 U (paraOf (len U) nodes) []) with (@nil (bytes * linkDef)).
  cbn [joinBlocks renderB]. change (bkind (paraOf (len U) nodes)) with ParagraphKind. change (bkids (paraOf (len U) nodes)) with (@nil block).
  change (bik (paraOf (len U) nodes)) with nodes. change (ParagraphKind =? ParagraphKind) with true. cbv iota.
  unfold nodes. change 0 with (len (@nil Z)) at 1. rewrite (render_lines c [] (t1 :: rest) [] U eq_refl).
  rewrite (openTag_nf c _ Hc), (closeTag_nf c _ Hc). reflexivity.
Qed.

Lemma renderB_quote f c refs src pt b : bkind b = BlockQuoteKind -> bkids b <> [] ->
  renderB (S f) c refs src pt b =
  openTag c [98;108;111;99;107;113;117;111;116;101] ++ flat_map (renderB f c refs src (isTightList b)) (bkids b) ++ closeTag c [98;108;111;99;107;113;117;111;116;101].
Proof.
  intros Hk Hne. cbn [renderB]. rewrite Hk. change (BlockQuoteKind =? ParagraphKind) with false.
  change (BlockQuoteKind =? ThematicBreakKind) with false. change (isHeading BlockQuoteKind) with false. change (isCode BlockQuoteKind) with false.
  change (BlockQuoteKind =? BlockQuoteKind) with true. cbv iota. destruct (bkids b); [contradiction|reflexivity].
Qed.

Lemma renderDoc_lines_quote c t1 rest : filterOn c = false -> Forall (fun t => okText true t = true) (t1 :: rest) ->
  renderDoc c (linesDoc [62; 32] (t1 :: rest)) =
  [60;98;108;111;99;107;113;117;111;116;101;62] ++ ([60; 112; 62] ++ linesHtml c (t1 :: rest) ++ [60; 47; 112; 62]) ++ [60;47;98;108;111;99;107;113;117;111;116;101;62].
Proof.
  intros Hc Hok. rewrite <- srcOf_linesDoc. pose proof (parseFull_lines_quote t1 rest Hok) as Hpf. cbv zeta in Hpf.
  set (D := srcOf EP (pl [62; 32] (t1 :: rest))) in *. unfold renderDoc. rewrite Hpf.
  cbn [fold_left map oneRoot rb_blk rb_src]. set (nodes := nodesAt EP 0 (pl [62; 32] (t1 :: rest))).
  set (q := quotedParaN (len D) nodes).
  change (bheight q) with 2%nat. change (extractDefs 2 D q []) with (@nil (bytes * linkDef)). cbn [joinBlocks].
  rewrite (renderB_quote 1 c [] D false q eq_refl ltac:(discriminate)).
  change (isTightList q) with false. unfold q at 1. unfold quotedParaN, quoteOf. cbn [bkids flat_map]. rewrite app_nil_r.
  cbn [renderB]. cbn [bkind bkids bik]. change (ParagraphKind =? ParagraphKind) with true. cbv iota.
  unfold nodes. change 0 with (len (@nil Z)) at 1. rewrite (render_lines c [62; 32] (t1 :: rest) [] D eq_refl).
  rewrite !(openTag_nf c _ Hc), !(closeTag_nf c _ Hc). cbn [app]. rewrite <- ?app_assoc. reflexivity.
Qed.

Theorem C09_quote_lines c t1 rest : filterOn c = false -> Forall wfText (t1 :: rest) ->
  let ts := t1 :: rest in
  let U := linesDoc [] ts in           (* the lines, one paragraph *)
  let D := linesDoc [62; 32] ts in     (* "> " before every line *)
  let forest := lineForest [] 0 ts in  (* the inline nodes of the unquoted paragraph, line by line *)
  parseFull U = ([oneRoot U (paraOf (len U) (concat forest))], 0) /\
  parseFull D = ([oneRoot D (quotedParaN (len D) (concat (shiftFrom 2 2 forest)))], 0) /\
  renderDoc c D = [60;98;108;111;99;107;113;117;111;116;101;62] ++ renderDoc c U ++ [60;47;98;108;111;99;107;113;117;111;116;101;62].
Proof.
  intros Hc Hw ts U D forest.
  assert (Hok : Forall (fun t => okText true t = true) ts).
  { eapply Forall_impl; [|exact Hw]. intros t Ht. apply okText_iff_wfText. exact Ht. }
  split; [|split].
  - pose proof (parseFull_lines_top t1 rest Hok) as H. cbv zeta in H. rewrite srcOf_linesDoc in H. rewrite nodesAt_concat in H. exact H.
  - pose proof (parseFull_lines_quote t1 rest Hok) as H. cbv zeta in H. rewrite srcOf_linesDoc in H. rewrite nodesAt_concat in H.
    pose proof (lineForest_shift [62; 32] (t1 :: rest) 0 0 ltac:(lia)) as Hs. change (0 + 0) with 0 in Hs. rewrite Hs in H. exact H.
  - unfold D, U, ts. rewrite (renderDoc_lines_quote c t1 rest Hc Hok), (renderDoc_lines_top c t1 rest Hc Hok). reflexivity.
Qed.
Print Assumptions C09_quote_lines.

(* a concrete instance, by computation: three lines  "a.b c" / "1. x!" / "*q*"  *)
Example ex_quote_lines :
  let ts := [[97;46;98;32;99]; [49;46;32;120;33]; [42;113;42]] in
  renderDoc c0 (linesDoc [62; 32] ts) =
    [60;98;108;111;99;107;113;117;111;116;101;62] ++ renderDoc c0 (linesDoc [] ts) ++ [60;47;98;108;111;99;107;113;117;111;116;101;62] /\
  renderDoc c0 (linesDoc [] ts) = [60;112;62;97;46;98;32;99;10;49;46;32;120;33;10;42;113;42;60;47;112;62] /\
  match fst (parseFull (linesDoc [62; 32] ts)) with
  | [r] => match bkids (rb_blk r) with [p] => Nat.eqb (length (bik p)) 12 && (bstart p =? 2) | _ => false end
  | _ => false end = true.
Proof. vm_compute. repeat split. Qed.
