(* ItemSimFirst.v -- T65: the first line of item mk N D:  mk ++ (N spaces) ++ rest  with rest starting with a non-space byte.
   The list start opens list, item and marker, closes the marker, eats the N spaces and sets the content offset K = len mk + N;
   the rest of the line is then processed under the item exactly as the plain line parser processes it under the document
   from cursor (K, K). *)
From Coq Require Import List ZArith Lia Bool Arith.
Import ListNotations.
Require Import Base Tree Rdr Link Collect Html Recog LP Rules Starts Driver Cursor Rec16 Rec17 Rec18 L2Kind L2Kind2 L2CC NoPanic47 SlicePara SliceLine SliceNest
  QuoteSimTree QuoteSimNest QuoteSimQLine QuoteSimAux QuoteSimFuel QuoteSimDrv3 ItemSimDefs ItemSimNest ItemSimQLine.
Require QS2Nest.
Open Scope Z_scope.

(* what we need to know about a list marker mk *)
Record mkOK (mk : bytes) (delim n : Z) : Prop := {
  mo_hd : exists m0 mr, mk = m0 :: mr /\ isSpTab m0 = false /\ m0 <> 62 /\ m0 <> 35 /\ m0 <> 96 /\ m0 <> 126 /\ m0 <> 60;
  mo_plm : forall rest, parseListMarker (mk ++ 32 :: rest) = (delim, n, len mk);
  mo_asc : Forall (fun c => c <> 9 /\ c < 128) mk }.

Lemma columnWidth_ascii : forall w c, Forall (fun x => x <> 9 /\ x < 128) w -> columnWidth c w = len w.
Proof.
  induction w as [|x w IH]; intros c H; [apply columnWidth_nil|]. inversion H as [|? ? [H9 H128] Hw]; subst.
  unfold columnWidth. cbn [columnEnd]. destruct (Z.eqb_spec x 9); [contradiction|]. destruct (Z.ltb_spec x 128); [|lia].
  specialize (IH (c + 1) Hw). unfold columnWidth in IH. rewrite len_cons. lia.
Qed.

Definition itemOpenRoot (s W K delim : Z) (kids : list block) : block :=
  rootDoc [listBlk s (-1) delim [itemBlk s (-1) K delim (markerBlk s (s + W) :: kids)]].

Lemma sub_app_exact (a b : bytes) : sub (a ++ b) 0 (0 + len a) = a.
Proof. unfold sub. change (from_ (a ++ b) 0) with (a ++ b). replace (0 + len a - 0) with (len a) by lia. apply upto_app_exact. Qed.

(* the list start on the first line *)
Lemma startListItem_first p mk delim n N c0 r : mkOK mk delim n -> 1 <= N <= 4 ->
  li p = 0 -> col p = 0 -> line p = mk ++ spaces N ++ c0 :: r -> isSpaceTabOrLineEnding c0 = false -> noTabL (line p) ->
  container p = Some O -> root p = rootDoc [] -> state p = stOpening ->
  startListItem p =
    setLP p (itemOpenRoot (lineStart p) (len mk) (len mk + N) delim []) (Some 2%nat) (len mk + N) (len mk + N)
          (computeTabRem (line p) (len mk + N) (len mk + N)) stOpenMatched (panicked p).
Proof.
  intros [Hhd Hplm Hasc] HN Hli Hcol Hln Hc0 Hnt Hcont Hroot Hst. destruct Hhd as (m0 & mr & Hmk & Hsp & _).
  assert (Hsp0 : isSpTab c0 = false).
  { unfold isSpaceTabOrLineEnding in Hc0. unfold isSpTab. destruct (c0 =? 32); [discriminate|]. destruct (c0 =? 9); [discriminate|reflexivity]. }
  assert (Hlm : 0 < len mk) by (rewrite Hmk, len_cons; pose proof (len_nonneg mr); lia).
  assert (HsN : spaces N = 32 :: spaces (N - 1)) by (replace N with ((N - 1) + 1) at 1 by lia; apply spaces_S; lia).
  assert (Hal : atLine p m0 (mr ++ spaces N ++ c0 :: r)) by (split; [exact Hli|rewrite Hln, Hmk; reflexivity]).
  unfold startListItem. rewrite (al_indent p m0 _ Hal Hsp). cbn [codeBlockIndentLimit Z.leb Z.compare].
  rewrite (al_bai p m0 _ Hal Hsp). change (m0 :: mr ++ spaces N ++ c0 :: r) with ((m0 :: mr) ++ spaces N ++ c0 :: r). rewrite <- Hmk.
  rewrite HsN. cbn [app]. rewrite (Hplm (spaces (N - 1) ++ c0 :: r)).
  destruct (Z.ltb_spec (len mk) 0); [lia|].
  assert (Hk : containerKind p = documentKind) by (unfold containerKind, contBlock, cdepth; rewrite Hcont, Hroot; reflexivity).
  rewrite Hk. change (documentKind =? ParagraphKind) with false. cbn [andb orb]. cbv iota.
  rewrite (consumeIndent_le0 p 0) by lia. rewrite Hk.
  change ((documentKind =? ListKind) || (documentKind =? ListItemKind)) with false. cbv iota.
  change (negb (documentKind =? ListKind)) with true. cbn [orb]. cbv iota.
  cbv zeta. rewrite (liOpenSeq_doc p delim Hcont Hroot Hst).
  set (s := lineStart p + li p).
  set (p3 := setLP p _ _ _ _ _ _ _).
  (* advancing over the marker *)
  assert (Ea : advance p3 (len mk) = setLP p3 (root p3) (container p3) (len mk) (len mk) 0 stOpenMatched (panicked p3)).
  { unfold advance. destruct (Z.ltb_spec (len mk) 0); [lia|]. destruct (Z.eqb_spec (len mk) 0); [lia|]. cbv zeta.
    change (state p3) with stOpenMatched. change (stOpenMatched =? stOpening) with false. cbv iota.
    change (li p3) with (li p). change (line p3) with (line p). change (col p3) with (col p). rewrite Hli, Hcol, Hln.
    destruct (Z.ltb_spec (len (mk ++ spaces N ++ c0 :: r)) (0 + len mk)); [rewrite len_app in *; pose proof (len_nonneg (spaces N ++ c0 :: r)); lia|].
    assert (Eat : at_ (mk ++ spaces N ++ c0 :: r) 0 = m0) by (rewrite Hmk; reflexivity). rewrite Eat.
    assert (H9 : (m0 =? 9) = false) by (unfold isSpTab in Hsp; apply orb_false_iff in Hsp; apply Hsp). rewrite H9, andb_false_r.
    rewrite sub_app_exact. rewrite (columnWidth_ascii mk 0 Hasc).
    assert (Et : computeTabRem (mk ++ spaces N ++ c0 :: r) (0 + len mk) (0 + len mk) = 0).
    { unfold computeTabRem. rewrite HsN. cbn [app]. replace (0 + len mk) with (len mk) by lia. rewrite at_app_len'. rewrite andb_false_r. reflexivity. }
    rewrite Et. unfold withCursor, setLP. cbn [root container state panicked source lineStart line]. replace (0 + len mk) with (len mk) by lia. reflexivity. }
  rewrite Ea.
  set (p4 := setLP p3 (root p3) (container p3) (len mk) (len mk) 0 stOpenMatched (panicked p3)).
  (* closing the marker *)
  assert (Ee : endBlock p4 = setLP p4 (rootDoc [listBlk s (-1) delim [itemBlk s (-1) 0 delim [markerBlk s (lineStart p + len mk)]]]) (Some 2%nat) (len mk) (len mk) 0 stOpenMatched (panicked p)).
  { destruct p as [src rt cont ls ln i cl tr st pn]. cbn [li col line container root state lineStart panicked] in *. subst i cl cont rt st. reflexivity. }
  rewrite Ee.
  set (p5 := setLP p4 _ (Some 2%nat) (len mk) (len mk) 0 stOpenMatched (panicked p)).
  assert (Hli5 : li p5 = len mk) by reflexivity. assert (Hln5 : line p5 = mk ++ spaces N ++ c0 :: r) by exact Hln.
  assert (Erb : isRestBlank p5 = false).
  { unfold isRestBlank, rest. rewrite Hli5, Hln5, from_app. unfold isBlankLine. rewrite forallb_app. cbn [forallb]. rewrite Hc0. rewrite andb_false_r. reflexivity. }
  rewrite Erb.
  rewrite (indent_spaces p5 mk N c0 r ltac:(lia) Hli5 Hln5 Hsp0 ltac:(exact Hnt)).
  destruct (Z.ltb_spec N 1); [lia|]. destruct (Z.ltb_spec 4 N); [lia|].
  rewrite (eatSpaces p5 mk (c0 :: r) N ltac:(lia) Hli5 Hln5 eq_refl).
  destruct p as [src rt cont ls ln i cl tr st pn]. cbn [li col line container root state lineStart panicked] in *. subst i cl cont rt st ln.
  unfold p5, p4, p3, s. cbn [lineStart li setLP col line state panicked root container]. replace (ls + 0) with ls by lia. reflexivity.
Qed.

Lemma tryStarts_skip f r p : withState p stOpening = p -> f p = p -> tryStarts (f :: r) p = tryStarts r p.
Proof. intros E0 E. cbn [tryStarts]. cbv zeta. rewrite E0, E. rewrite <- E0 at 1 2. reflexivity. Qed.
Lemma tryStarts_hit f r p : withState p stOpening = p -> state (f p) = stOpenMatched -> tryStarts (f :: r) p = (true, f p).
Proof. intros E0 E. cbn [tryStarts]. cbv zeta. rewrite E0, E. reflexivity. Qed.

Definition listSk (s delim : Z) : block := auxOf (listBlk s (-1) delim []).
Definition itemSk (s K delim : Z) : block := auxOf (itemBlk s (-1) K delim []).

Theorem processLine_item_first st0 ls src mk delim n N c0 r : mkOK mk delim n -> 1 <= N <= 4 -> 0 <= ls ->
  from_ src ls = mk ++ spaces N ++ c0 :: r -> isSpaceTabOrLineEnding c0 = false -> noTabL (from_ src ls) ->
  parseThematicBreak (from_ src ls) < 0 -> st0 <> stDescendTerminated ->
  let K := len mk + N in let R := processLineAt K K stDescending [] ls src in
  let fr : frame := ([markerBlk ls (ls + len mk)], itemSk ls K delim) in
  exists bl' bi' (beta : bool),
    processLine st0 [] ls src = ([bl'], snd (fst R), snd R) /\
    bkind bl' = ListKind /\ isOpen bl' = true /\ auxOf bl' = listSk ls delim /\ bkids bl' = [bi'] /\
    bkind bi' = ListItemKind /\ isOpen bi' = true /\ auxOf bi' = itemSk ls K delim /\
    Forall closedB (fst (QS2Nest.blankFr beta fr)) /\
    bkids bi' = fst (QS2Nest.blankFr beta fr) ++ fst (fst R) /\
    (beta = true -> fst (fst R) = []).
Proof.
  intros Hmk HN Hls Hl Hc0 Hnt Htb Hst0. cbv zeta. set (K := len mk + N). set (ln := mk ++ spaces N ++ c0 :: r) in *.
  pose proof Hmk as [Hhd Hplm Hasc]. destruct Hhd as (m0 & mr & Emk & Hsp & H62 & H35 & H96 & H126 & H60).
  assert (Hlm : 0 < len mk) by (rewrite Emk, len_cons; pose proof (len_nonneg mr); lia).
  assert (Hlen : len ln = K + 1 + len r) by (unfold ln, K; rewrite !len_app, len_spaces, len_cons by lia; lia).
  pose proof (len_nonneg r) as Hr0.
  set (fr := ([markerBlk ls (ls + len mk)], itemSk ls K delim) : frame).
  rewrite processLine_tail. unfold processLineAt, processTail.
  (* the nested run: nothing to descend into; the block starts *)
  set (q0 := resetLP st0 [] ls src).
  assert (Edq : descendOpenBlocks q0 = (true, withCont q0 (Some O))) by reflexivity.
  rewrite Edq. cbv beta iota zeta. change (state (withCont q0 (Some O))) with st0.
  replace (st0 =? stDescendTerminated) with false by (symmetry; apply Z.eqb_neq; exact Hst0). cbn [negb].
  unfold openNewBlocks at 1. change (line (withCont q0 (Some O))) with (from_ src ls). rewrite Hl.
  destruct (Z.eqb_spec (len ln) 0) as [E0|_]; [lia|].
  cbn [opening_loop]. change (containerKind (withCont q0 (Some O))) with documentKind.
  change ((documentKind =? ParagraphKind) || negb (acceptsLines documentKind)) with true. cbv iota.
  set (qs := withState (withCont q0 (Some O)) stOpening).
  assert (Eln : line qs = ln) by (unfold qs, q0, resetLP; cbn [line withState withCont setLP]; exact Hl).
  assert (Hal : atLine qs m0 (mr ++ spaces N ++ c0 :: r)) by (split; [reflexivity|rewrite Eln; unfold ln; rewrite Emk; reflexivity]).
  pose proof (al_indent qs m0 _ Hal Hsp) as Hi. pose proof (al_bai qs m0 _ Hal Hsp) as Hb.
  assert (Ebai : m0 :: mr ++ spaces N ++ c0 :: r = ln) by (unfold ln; rewrite Emk; reflexivity).
  assert (Esl : startListItem qs = setLP qs (itemOpenRoot ls (len mk) K delim []) (Some 2%nat) K K (computeTabRem ln K K) stOpenMatched 0).
  { rewrite (startListItem_first qs mk delim n N c0 r Hmk HN eq_refl eq_refl Eln Hc0 ltac:(rewrite Eln; rewrite <- Hl; exact Hnt) eq_refl eq_refl eq_refl).
    rewrite Eln. reflexivity. }
  set (q1 := setLP qs (itemOpenRoot ls (len mk) K delim []) (Some 2%nat) K K (computeTabRem ln K K) stOpenMatched 0) in *.
  assert (Et : tryStarts blockStarts (withCont q0 (Some O)) = (true, q1)).
  { rewrite <- (tryStarts_state blockStarts (withCont q0 (Some O)) stOpening blockStarts_ne). fold qs. unfold blockStarts.
    assert (Eqs : withState qs stOpening = qs) by reflexivity.
    rewrite (tryStarts_skip _ _ qs Eqs (stf_bq qs m0 _ Hi Hb H62)).
    rewrite (tryStarts_skip _ _ qs Eqs (stf_atx qs m0 _ Hi Hb H35)).
    rewrite (tryStarts_skip _ _ qs Eqs (stf_fenced qs m0 _ Hi Hb H96 H126)).
    rewrite (tryStarts_skip _ _ qs Eqs (stf_html qs m0 _ Hi Hb H60)).
    rewrite (tryStarts_skip _ _ qs Eqs eq_refl).
    rewrite (tryStarts_skip _ _ qs Eqs) by (apply (stf_thematic qs m0 _ Hi Hb); rewrite Ebai, <- Hl; exact Htb).
    rewrite (tryStarts_hit _ _ qs Eqs) by (rewrite Esl; reflexivity). rewrite Esl. reflexivity. }
  rewrite Et. cbv iota. change (state q1) with stOpenMatched. change (stOpenMatched =? stLineConsumed) with false. cbv iota.
  (* the plain run at (K, K) *)
  set (p0 := resetLPAt K K stDescending [] ls src).
  assert (Edp : descendOpenBlocks p0 = (true, withCont p0 (Some O))) by reflexivity.
  rewrite Edp. cbv beta iota zeta. change (state (withCont p0 (Some O))) with stDescending. change (stDescending =? stDescendTerminated) with false. cbn [negb].
  unfold openNewBlocks. change (line (withCont p0 (Some O))) with (from_ src ls). rewrite Hl.
  destruct (Z.eqb_spec (len ln) 0) as [E0|_]; [lia|].
  set (pc := withState (withCont p0 (Some O)) stOpenMatched).
  assert (Elnc : line pc = ln) by (unfold pc, p0, resetLPAt; cbn [line withState withCont setLP]; exact Hl).
  assert (Hgc : guardO pc = true) by reflexivity.
  assert (Fc : F pc) by (apply (F_resetLPAt K K stDescending [] ls src); reflexivity).
  assert (Cc : CB pc) by (split; [rewrite Elnc; rewrite <- Hl; exact Hnt|rewrite Elnc, Hlen; unfold pc; cbn [li withState withCont setLP p0 resetLPAt]; lia]).
  assert (Eo : opening_loop (S (length ln)) (withCont p0 (Some O)) = opening_loop (length ln) pc).
  { change (withCont p0 (Some O)) with (withState pc stDescending). rewrite (opening_loop_state _ pc stDescending Hgc).
    apply opening_loop_fuel; [exact Fc|exact Cc| |]; unfold needO; rewrite Hgc, Elnc; change (li pc) with K; unfold len in *; lia. }
  rewrite Eo.
  (* the relation *)
  set (lsk := listSk ls delim).
  assert (H0 : IN lsk fr pc q1).
  { unfold pc, q1, qs, p0, q0, resetLPAt, resetLP. rewrite Hl. cbv zeta. unfold withState, withCont, setLP. cbn [source root container lineStart line li col tabRem state panicked].
    apply IN_mk. split.
    - exists O. repeat split. discriminate.
    - exists (listBlk ls (-1) delim [itemBlk ls (-1) K delim [markerBlk ls (ls + len mk)]]), (itemBlk ls (-1) K delim [markerBlk ls (ls + len mk)]).
      split; [reflexivity|]. split; [unfold listRel; repeat split; reflexivity|].
      unfold itopRel. cbn [bkind bkids]. repeat split; try reflexivity. exists [markerBlk ls (ls + len mk)]. repeat split.
      constructor; [|constructor]. unfold closedB, isOpen, markerBlk. cbn [bend]. apply Z.ltb_ge. lia. }
  destruct (IN_opening_loop lsk fr (length ln) pc q1 Fc H0) as [[Eb H1] F1].
  pose proof (L2Kind2.openNewBlocks_good (withCont p0 (Some O)) true) as G0. unfold openNewBlocks in G0.
  change (line (withCont p0 (Some O))) with (from_ src ls) in G0. rewrite Hl in G0.
  destruct (Z.eqb_spec (len ln) 0) as [E0|_]; [lia|]. rewrite Eo in G0.
  destruct (opening_loop (length ln) pc) as [ht p2]. destruct (opening_loop (length ln) q1) as [ht' q2]. cbn [fst snd] in *. subst ht'.
  set (beta := ht && blankX p2).
  assert (H3 : IN lsk (blankFr beta fr) (if ht then addLineText p2 else p2) (if ht then addLineText q2 else q2)).
  { unfold beta. destruct ht; [cbn [andb]; apply IN_addLineText; [exact H1|]|exact H1]. intros Hacc. left. apply (G0 eq_refl Hacc). }
  assert (HX : beta = true -> bkids (root (if ht then addLineText p2 else p2)) = []).
  { unfold beta. intros Hb'. apply andb_true_iff in Hb'. destruct Hb' as [-> Hb']. apply addLineText_blankX; [exact Hb'|apply (IN_root_doc _ _ _ _ H1)]. }
  set (p3 := if ht then addLineText p2 else p2) in *. set (q3 := if ht then addLineText q2 else q2) in *. clearbody p3 q3.
  pose proof (IN_state _ _ _ _ H3) as Es. pose proof (IN_panicked _ _ _ _ H3) as Ep.
  destruct H3 as (_ & _ & _ & _ & _ & _ & _ & _ & _ & bl' & bi' & Ebl & (L1' & L2' & L3' & L4') & (K1 & K2 & K3 & KA & dn & E1 & E2 & E3)).
  exists bl', bi', beta. rewrite Ebl, Es, Ep. subst dn.
  assert (KA' : auxOf bi' = itemSk ls K delim) by (rewrite KA; unfold blankFr; destruct beta; reflexivity).
  repeat split; assumption.
Qed.
Print Assumptions processLine_item_first.
