From Coq Require Import List ZArith Lia Bool.
Import ListNotations.
Require Import Base Tree Driver Props.
Open Scope Z_scope.

(* C13, block level: the span of every block node has the shape of its construct (checker Props.shapeBlock),
   and every block span is valid in the root's source text. *)
Fixpoint bshapes (src : bytes) (b : block) : bool :=
  span_valid (len src) (bstart b) (bend b) && shapeBlock (sub src (bstart b) (bend b)) b && forallb (bshapes src) (bkids b).
