(* T4 / property C14 clause (a): the five line recognizers of Recog.v do not depend on the line-ending style.
   Everything is proved for an ARBITRARY run of line-ending bytes (any list over {10,13}), which subsumes the
   four endings [], [10], [13;10], [13] asked for. *)
From Coq Require Import List ZArith Lia Bool.
Import ListNotations.
Require Import Base Recog Rec16 Rec17 Rec18 RecBounds.
Open Scope Z_scope.

Definition noEol (body : bytes) : Prop := Forall (fun c => c <> 10 /\ c <> 13) body.
Definition eols : list bytes := [[]; [10]; [13; 10]; [13]].
(* generalised ending: any sequence of CR / LF bytes *)
Definition eolRun (e : bytes) : Prop := Forall (fun c => c = 10 \/ c = 13) e.

Lemma eols_eolRun e : In e eols -> eolRun e.
Proof.
  unfold eols, eolRun. cbn [In]. intros [<-|[<-|[<-|[<-|[]]]]]; repeat (apply Forall_cons; [lia|]); apply Forall_nil.
Qed.

(* ---------- list / index facts ---------- *)
Lemma at_Forall (P : Z -> Prop) (l : bytes) j : Forall P l -> 0 <= j < len l -> P (at_ l j).
Proof.
  intros H Hj. rewrite Forall_forall in H. apply H. unfold at_, len in *.
  destruct (Z.ltb_spec j 0); [lia|]. apply nth_In. lia.
Qed.
Lemma at_eolRun (e : bytes) j : eolRun e -> 0 <= j < len e -> at_ e j = 10 \/ at_ e j = 13.
Proof. intros He Hj. exact (at_Forall (fun c => c = 10 \/ c = 13) e j He Hj). Qed.
Lemma from_app_le (a b : bytes) k : k <= len a -> from_ (a ++ b) k = from_ a k ++ b.
Proof.
  intros H. unfold from_, len in *. rewrite skipn_app.
  replace (Z.to_nat k - length a)%nat with 0%nat by lia. reflexivity.
Qed.
Lemma upto_app_le (a b : bytes) k : k <= len a -> upto (a ++ b) k = upto a k.
Proof.
  intros H. unfold upto, len in *. rewrite firstn_app.
  replace (Z.to_nat k - length a)%nat with 0%nat by lia. cbn [firstn]. apply app_nil_r.
Qed.
Lemma sub_app_le (a b : bytes) i j : 0 <= i <= len a -> j <= len a -> sub (a ++ b) i j = sub a i j.
Proof.
  intros Hi Hj. unfold sub. rewrite from_app_le by lia.
  apply upto_app_le. rewrite len_from by lia. lia.
Qed.

(* what an ending byte looks like to the classifiers *)
Lemma eol_ws c : c = 10 \/ c = 13 -> isSpaceTabOrLineEnding c = true.
Proof. intros [->| ->]; reflexivity. Qed.
Lemma eol_not_sptab c : c = 10 \/ c = 13 -> isSpTab c = false.
Proof. intros [->| ->]; reflexivity. Qed.
Lemma eol_not_digit c : c = 10 \/ c = 13 -> isASCIIDigit c = false.
Proof. intros [->| ->]; reflexivity. Qed.
Lemma eol_is_crlf c : c = 10 \/ c = 13 -> (c =? 13) || (c =? 10) = true.
Proof. intros [->| ->]; reflexivity. Qed.
Lemma eol_neq c v : c = 10 \/ c = 13 -> v <> 10 -> v <> 13 -> (c =? v) = false.
Proof. intros [->| ->] A B; apply Z.eqb_neq; congruence. Qed.

(* a predicate that rejects both ending bytes stops counting at the ending *)
Lemma countWhile_app_eol p (a e : bytes) : p 10 = false -> p 13 = false -> eolRun e ->
  countWhile p (a ++ e) = countWhile p a.
Proof.
  intros P10 P13 He. induction a as [|x a IH]; cbn [app countWhile].
  - destruct He as [|c e [->| ->] _]; cbn [countWhile]; [reflexivity|rewrite P10; reflexivity|rewrite P13; reflexivity].
  - rewrite IH. reflexivity.
Qed.

Lemma htsp_app_eol (r e : bytes) : eolRun e -> hasTabOrSpacePrefixOrEOL (r ++ e) = hasTabOrSpacePrefixOrEOL r.
Proof.
  intros He. destruct r as [|x r]; [|reflexivity]. cbn [app hasTabOrSpacePrefixOrEOL].
  destruct He as [|c e Hc _]; [reflexivity|]. apply eol_ws, Hc.
Qed.

(* ---------- 1. thematic break ---------- *)
Lemma tb_loop_eol : forall e i n want ev, eolRun e -> tb_loop e i n want ev = if n <? 3 then -1 else ev.
Proof.
  induction e as [|c e IH]; intros i n want ev He; [reflexivity|].
  inversion He as [|? ? Hc He']; subst. cbn [tb_loop].
  replace ((c =? 45) || (c =? 95) || (c =? 42)) with false by (destruct Hc as [->| ->]; reflexivity).
  rewrite (eol_ws c Hc). apply IH, He'.
Qed.
Lemma tb_loop_app_eol e : eolRun e -> forall body i n want ev,
  tb_loop (body ++ e) i n want ev = tb_loop body i n want ev.
Proof.
  intros He. induction body as [|b r IH]; intros i n want ev.
  - cbn [app tb_loop]. apply tb_loop_eol, He.
  - cbn [app tb_loop]. rewrite !IH. reflexivity.
Qed.
Theorem thematicBreak_eol body e : eolRun e -> parseThematicBreak (body ++ e) = parseThematicBreak body.
Proof. intros He. unfold parseThematicBreak. apply tb_loop_app_eol, He. Qed.

(* ---------- 2. setext heading underline ---------- *)
Lemma eolRun_blank e : eolRun e -> isBlankLine e = true.
Proof.
  intros He. unfold isBlankLine. apply forallb_forall. intros x Hx. unfold eolRun in He. rewrite Forall_forall in He.
  apply eol_ws, He, Hx.
Qed.
Lemma isBlankLine_app' a b : isBlankLine (a ++ b) = isBlankLine a && isBlankLine b.
Proof. unfold isBlankLine. apply forallb_app. Qed.
Lemma setext_loop_eol c0 level : forall e, eolRun e -> setext_loop e c0 level = level.
Proof.
  induction e as [|c e IH]; intros He; [reflexivity|]. cbn [setext_loop].
  inversion He as [|? ? Hc He']; subst. destruct (c =? c0); [apply IH, He'|]. rewrite (eolRun_blank _ He). reflexivity.
Qed.
Lemma setext_loop_app_eol c0 level e : eolRun e -> forall body,
  setext_loop (body ++ e) c0 level = setext_loop body c0 level.
Proof.
  intros He. induction body as [|c r IH].
  - cbn [app setext_loop]. apply setext_loop_eol, He.
  - cbn [app setext_loop]. rewrite IH. change (c :: r ++ e) with ((c :: r) ++ e).
    rewrite isBlankLine_app', (eolRun_blank _ He), andb_true_r. reflexivity.
Qed.
Theorem setext_eol body e : eolRun e -> parseSetextHeadingUnderline (body ++ e) = parseSetextHeadingUnderline body.
Proof.
  intros He. destruct body as [|c r].
  - cbn [app]. destruct He as [|x e [->| ->] _]; reflexivity.
  - cbn [app parseSetextHeadingUnderline]. rewrite !(setext_loop_app_eol _ _ e He). reflexivity.
Qed.

(* ---------- 5. list marker ---------- *)
Lemma lm_digits_app_eol body e : eolRun e -> forall fuel i n, 0 <= i ->
  lm_digits fuel (body ++ e) i n = lm_digits fuel body i n.
Proof.
  intros He. induction fuel as [|f IH]; intros i n Hi; [reflexivity|]. cbn [lm_digits].
  destruct (10 <=? i); [reflexivity|]. cbn [orb]. rewrite len_app. pose proof (len_nonneg e) as Le.
  destruct (Z.leb_spec (len body) i) as [G|L].
  - (* beyond the body: the right-hand side stops; the left-hand side sees an ending byte or the end *)
    destruct (Z.leb_spec (len body + len e) i) as [G2|L2]; [reflexivity|]. cbv zeta.
    rewrite at_app_r by lia.
    assert (Hc : at_ e (i - len body) = 10 \/ at_ e (i - len body) = 13) by (apply at_eolRun; [exact He|lia]).
    rewrite (eol_not_digit _ Hc).
    replace ((at_ e (i - len body) =? 46) || (at_ e (i - len body) =? 41)) with false by (destruct Hc as [->| ->]; reflexivity).
    reflexivity.
  - destruct (Z.leb_spec (len body + len e) i) as [G2|L2]; [lia|]. cbv zeta.
    rewrite at_app_l by lia. rewrite from_app_le by lia. rewrite htsp_app_eol by exact He.
    rewrite IH by lia. reflexivity.
Qed.
Theorem listMarker_eol body e : eolRun e -> parseListMarker (body ++ e) = parseListMarker body.
Proof.
  intros He. destruct body as [|c r].
  - cbn [app]. destruct He as [|x e [->| ->] _]; reflexivity.
  - change ((c :: r) ++ e) with (c :: (r ++ e)). cbn [parseListMarker]. rewrite htsp_app_eol by exact He.
    change (c :: (r ++ e)) with ((c :: r) ++ e). rewrite lm_digits_app_eol by (exact He || lia). reflexivity.
Qed.

(* ---------- 4. code fence ---------- *)
Lemma firstNonWs_eol : forall e i, eolRun e -> firstNonWs e i = -1.
Proof.
  induction e as [|c e IH]; intros i He; [reflexivity|]. inversion He as [|? ? Hc He']; subst.
  cbn [firstNonWs]. rewrite (eol_ws c Hc). apply IH, He'.
Qed.
Lemma firstNonWs_app_eol e : eolRun e -> forall a i, firstNonWs (a ++ e) i = firstNonWs a i.
Proof.
  intros He. induction a as [|x a IH]; intros i.
  - cbn [app]. rewrite firstNonWs_eol by exact He. reflexivity.
  - cbn [app firstNonWs]. rewrite IH. reflexivity.
Qed.
(* the backward trim first eats the ending ... *)
Lemma trimEndWs_strip body e start : eolRun e -> start <= len body -> forall k fuel, (k <= length e)%nat ->
  trimEndWs (k + fuel) (body ++ e) start (len body + Z.of_nat k) = trimEndWs fuel (body ++ e) start (len body).
Proof.
  intros He Hs. induction k as [|k IH]; intros fuel Hk.
  - cbn [Nat.add]. replace (len body + Z.of_nat 0) with (len body) by lia. reflexivity.
  - cbn [Nat.add trimEndWs]. destruct (Z.leb_spec (len body + Z.of_nat (S k)) start) as [G|L]; [lia|].
    rewrite at_app_r by lia.
    rewrite (eol_ws (at_ e _)) by (apply at_eolRun; [exact He|unfold len; lia]).
    replace (len body + Z.of_nat (S k) - 1) with (len body + Z.of_nat k) by lia. apply IH. lia.
Qed.
(* ... and below the ending it only looks at the body; the two fuels need only be sufficient *)
Lemma trimEndWs_app body e start : 0 <= start -> forall f1 f2 E, E <= len body ->
  E - start < Z.of_nat f1 -> E - start < Z.of_nat f2 ->
  trimEndWs f1 (body ++ e) start E = trimEndWs f2 body start E.
Proof.
  intros Hs. induction f1 as [|f1 IH]; intros f2 E HE H1 H2.
  - destruct f2 as [|f2]; [reflexivity|]. cbn [trimEndWs]. destruct (Z.leb_spec E start); [reflexivity|lia].
  - cbn [trimEndWs]. destruct f2 as [|f2].
    + destruct (Z.leb_spec E start); [reflexivity|lia].
    + cbn [trimEndWs]. destruct (Z.leb_spec E start) as [G|L]; [reflexivity|].
      rewrite at_app_l by lia. destruct (isSpaceTabOrLineEnding (at_ body (E - 1))); [|reflexivity].
      apply IH; lia.
Qed.
Lemma trimEndWs_app_eol body e start : eolRun e -> 0 <= start <= len body ->
  trimEndWs (S (length (body ++ e))) (body ++ e) start (len (body ++ e)) = trimEndWs (S (length body)) body start (len body).
Proof.
  intros He Hs. replace (S (length (body ++ e))) with (length e + S (length body))%nat by (rewrite app_length; lia).
  rewrite len_app. unfold len at 2. rewrite trimEndWs_strip by (exact He || lia).
  apply trimEndWs_app; unfold len in *; lia.
Qed.

Theorem codeFence_eol body e : eolRun e -> parseCodeFence (body ++ e) = parseCodeFence body.
Proof.
  intros He. destruct body as [|c0 r].
  - cbn [app]. destruct He as [|x e Hx _]; [reflexivity|]. unfold parseCodeFence.
    replace ((x =? 96) || (x =? 126)) with false by (destruct Hx as [->| ->]; reflexivity).
    cbn [negb]. rewrite orb_true_r. reflexivity.
  - unfold parseCodeFence. cbn [app]. change (c0 :: r ++ e) with ((c0 :: r) ++ e).
    remember (c0 :: r) as B eqn:EB. clear EB r.
    destruct ((c0 =? 96) || (c0 =? 126)) eqn:Ef; [|cbn [negb]; rewrite !orb_true_r; reflexivity].
    cbn [negb]. rewrite !orb_false_r. cbv zeta.
    assert (Hc0 : c0 = 96 \/ c0 = 126).
    { apply orb_true_iff in Ef. destruct Ef as [E|E]; apply Z.eqb_eq in E; [left|right]; exact E. }
    rewrite (countWhile_app_eol (fun c => c =? c0)) by (exact He || (destruct Hc0 as [->| ->]; reflexivity)).
    destruct (countWhile_spec (fun c => c =? c0) B) as (C1 & _ & _).
    remember (countWhile (fun c => c =? c0) B) as n eqn:En. clear En.
    destruct (Z.ltb_spec n 3) as [Ln|Gn]; [destruct (len (B ++ e) <? 3), (len B <? 3); reflexivity|].
    rewrite len_app. pose proof (len_nonneg e) as Le.
    replace (len B + len e <? 3) with false by (symmetry; apply Z.ltb_ge; lia).
    replace (len B <? 3) with false by (symmetry; apply Z.ltb_ge; lia).
    rewrite from_app_le by lia. rewrite firstNonWs_app_eol by exact He.
    pose proof (firstNonWs_spec (from_ B n) n ltac:(lia)) as FS. rewrite len_from in FS by lia.
    remember (firstNonWs (from_ B n) n) as is_ eqn:Eis. clear Eis.
    destruct (Z.ltb_spec is_ 0) as [Li|Gi]; [reflexivity|].
    assert (His : 0 <= is_ <= len B) by (destruct FS as [(A & _)|(A & _)]; lia).
    rewrite <- len_app. rewrite trimEndWs_app_eol by (exact He || lia).
    pose proof (trimEndWs_spec B is_ (S (length B)) (len B) ltac:(lia) ltac:(unfold len in *; lia)) as (T1 & _ & _).
    remember (trimEndWs (S (length B)) B is_ (len B)) as ie eqn:Eie. clear Eie.
    rewrite sub_app_le by lia. reflexivity.
Qed.

(* ---------- 3. ATX heading ---------- *)
Lemma scanBack_strip body e start : eolRun e -> start <= len body -> forall k fuel, (k <= length e)%nat ->
  atx_scanBack (k + fuel) (body ++ e) start (len body + Z.of_nat k) = atx_scanBack fuel (body ++ e) start (len body).
Proof.
  intros He Hs. induction k as [|k IH]; intros fuel Hk.
  - cbn [Nat.add]. replace (len body + Z.of_nat 0) with (len body) by lia. reflexivity.
  - cbn [Nat.add atx_scanBack]. destruct (Z.leb_spec (len body + Z.of_nat (S k)) start) as [G|L]; [lia|]. cbv zeta.
    rewrite at_app_r by lia.
    rewrite (eol_is_crlf (at_ e _)) by (apply at_eolRun; [exact He|unfold len; lia]).
    replace (len body + Z.of_nat (S k) - 1) with (len body + Z.of_nat k) by lia. apply IH. lia.
Qed.
Lemma scanBack_app body e start : 0 <= start -> forall f1 f2 E, E <= len body ->
  E - start < Z.of_nat f1 -> E - start < Z.of_nat f2 ->
  atx_scanBack f1 (body ++ e) start E = atx_scanBack f2 body start E.
Proof.
  intros Hs. induction f1 as [|f1 IH]; intros f2 E HE H1 H2.
  - destruct f2 as [|f2]; [reflexivity|]. cbn [atx_scanBack]. destruct (Z.leb_spec E start); [reflexivity|lia].
  - cbn [atx_scanBack]. destruct f2 as [|f2].
    + destruct (Z.leb_spec E start); [reflexivity|lia].
    + cbn [atx_scanBack]. destruct (Z.leb_spec E start) as [G|L]; [reflexivity|]. cbv zeta.
      rewrite at_app_l by lia. rewrite upto_app_le by lia.
      rewrite (IH f2 (E - 1)) by lia. reflexivity.
Qed.
Lemma scanBack_app_eol body e start : eolRun e -> 0 <= start <= len body ->
  atx_scanBack (S (length (body ++ e))) (body ++ e) start (len (body ++ e)) = atx_scanBack (S (length body)) body start (len body).
Proof.
  intros He Hs. replace (S (length (body ++ e))) with (length e + S (length body))%nat by (rewrite app_length; lia).
  rewrite len_app. unfold len at 2. rewrite scanBack_strip by (exact He || lia).
  apply scanBack_app; unfold len in *; lia.
Qed.
Lemma trailing_app body e start : 0 <= start -> forall f1 f2 i, i < len body ->
  i - start < Z.of_nat f1 -> i - start < Z.of_nat f2 ->
  atx_trailing f1 (body ++ e) start i = atx_trailing f2 body start i.
Proof.
  intros Hs. induction f1 as [|f1 IH]; intros f2 i Hi H1 H2.
  - destruct f2 as [|f2]; [reflexivity|]. cbn [atx_trailing]. destruct (Z.ltb_spec i start); [reflexivity|lia].
  - cbn [atx_trailing]. destruct f2 as [|f2].
    + destruct (Z.ltb_spec i start); [reflexivity|lia].
    + cbn [atx_trailing]. destruct (Z.ltb_spec i start) as [G|L]; [reflexivity|]. cbv zeta.
      rewrite at_app_l by lia. rewrite (IH f2 (i - 1)) by lia. reflexivity.
Qed.
Lemma trim_app body e start : 0 <= start -> forall f1 f2 E, E <= len body ->
  E - start < Z.of_nat f1 -> E - start < Z.of_nat f2 ->
  atx_trim f1 (body ++ e) start E = atx_trim f2 body start E.
Proof.
  intros Hs. induction f1 as [|f1 IH]; intros f2 E HE H1 H2.
  - destruct f2 as [|f2]; [reflexivity|]. cbn [atx_trim]. destruct (Z.leb_spec E start); [reflexivity|lia].
  - cbn [atx_trim]. destruct f2 as [|f2].
    + destruct (Z.leb_spec E start); [reflexivity|lia].
    + cbn [atx_trim]. destruct (Z.leb_spec E start) as [G|L]; [reflexivity|]. cbv zeta.
      rewrite at_app_l by lia. rewrite upto_app_le by lia.
      rewrite (IH f2 (E - 1)) by lia. reflexivity.
Qed.

Theorem atx_eol body e : eolRun e -> parseATXHeading (body ++ e) = parseATXHeading body.
Proof.
  intros He. unfold parseATXHeading. cbv zeta.
  rewrite (countWhile_app_eol (fun c => c =? 35)) by (reflexivity || exact He).
  destruct (countWhile_spec (fun c => c =? 35) body) as (C1 & _ & _).
  remember (countWhile (fun c => c =? 35) body) as level eqn:Elv. clear Elv.
  destruct ((level =? 0) || (6 <? level)); [reflexivity|].
  pose proof (len_nonneg e) as Le.
  destruct (Z.eq_dec level (len body)) as [Eq|Ne].
  - (* the line is only the opening run: both sides answer (level, level, level) *)
    replace (len body <=? level) with true by (symmetry; apply Z.leb_le; lia). cbn [orb].
    destruct He as [|c e Hc _].
    + rewrite app_nil_r. replace (len body <=? level) with true by (symmetry; apply Z.leb_le; lia). reflexivity.
    + rewrite at_app_r by lia. replace (level - len body) with 0 by lia. rewrite at_cons0.
      replace ((len (body ++ c :: e) <=? level) || (c =? 10) || (c =? 13)) with true; [reflexivity|].
      destruct Hc as [->| ->]; cbn [Z.eqb orb]; rewrite ?orb_true_r; reflexivity.
  - rewrite len_app.
    replace (len body + len e <=? level) with false by (symmetry; apply Z.leb_gt; lia).
    replace (len body <=? level) with false by (symmetry; apply Z.leb_gt; lia).
    rewrite at_app_l by lia. cbn [orb].
    destruct ((at_ body level =? 10) || (at_ body level =? 13)); [reflexivity|].
    destruct (negb (isSpTab (at_ body level))); [reflexivity|].
    rewrite from_app_le by lia. rewrite (countWhile_app_eol isSpTab) by (reflexivity || exact He).
    destruct (countWhile_spec isSpTab (from_ body (level + 1))) as (D1 & _ & _). rewrite len_from in D1 by lia.
    remember (level + 1 + countWhile isSpTab (from_ body (level + 1))) as start eqn:Est.
    assert (Hst : 0 <= start <= len body) by lia. clear Est D1.
    rewrite <- len_app. rewrite scanBack_app_eol by (exact He || lia).
    pose proof (atx_scanBack_bound body start (S (length body)) (len body) ltac:(lia)) as S1.
    destruct (atx_scanBack (S (length body)) body start (len body)) as [e1 hit]. cbn [fst] in S1.
    destruct (negb hit); [reflexivity|].
    rewrite (trailing_app body e start ltac:(lia) (S (length (body ++ e))) (S (length body)) (e1 - 1))
      by (try rewrite app_length; unfold len in *; lia).
    pose proof (atx_trailing_bound body start (S (length body)) (e1 - 1) ltac:(lia)) as T1. cbv zeta in T1.
    destruct (atx_trailing (S (length body)) body start (e1 - 1)) as [e2 mode]. cbn [fst snd] in T1.
    destruct (Z.eqb_spec mode 0) as [Em|Nm]; [reflexivity|].
    assert (He2 : start <= e2 <= e1) by (destruct T1 as [A|[A|A]]; lia).
    rewrite (trim_app body e start ltac:(lia) (S (length (body ++ e))) (S (length body)) e2)
      by (try rewrite app_length; unfold len in *; lia).
    reflexivity.
Qed.

(* ---------- main results ---------- *)
(* Strongest form: ANY run of CR/LF bytes appended to ANY line (the body need not even be free of line-ending bytes)
   leaves the five answers unchanged. *)
Theorem recognizers_eolRun_invariant : forall body e, eolRun e ->
  parseThematicBreak (body ++ e) = parseThematicBreak body /\
  parseSetextHeadingUnderline (body ++ e) = parseSetextHeadingUnderline body /\
  parseATXHeading (body ++ e) = parseATXHeading body /\
  parseCodeFence (body ++ e) = parseCodeFence body /\
  parseListMarker (body ++ e) = parseListMarker body.
Proof.
  intros body e He. repeat split.
  - apply thematicBreak_eol, He.
  - apply setext_eol, He.
  - apply atx_eol, He.
  - apply codeFence_eol, He.
  - apply listMarker_eol, He.
Qed.

(* The theorem exactly as asked (the hypothesis noEol body turns out not to be needed; it is kept in the statement). *)
Theorem recognizers_eol_invariant : forall body e1 e2, noEol body -> In e1 eols -> In e2 eols ->
  parseThematicBreak (body ++ e1) = parseThematicBreak (body ++ e2) /\
  parseSetextHeadingUnderline (body ++ e1) = parseSetextHeadingUnderline (body ++ e2) /\
  parseATXHeading (body ++ e1) = parseATXHeading (body ++ e2) /\
  parseCodeFence (body ++ e1) = parseCodeFence (body ++ e2) /\
  parseListMarker (body ++ e1) = parseListMarker (body ++ e2).
Proof.
  intros body e1 e2 _ H1 H2.
  destruct (recognizers_eolRun_invariant body e1 (eols_eolRun e1 H1)) as (A1 & A2 & A3 & A4 & A5).
  destruct (recognizers_eolRun_invariant body e2 (eols_eolRun e2 H2)) as (B1 & B2 & B3 & B4 & B5).
  rewrite A1, A2, A3, A4, A5, B1, B2, B3, B4, B5. repeat split; reflexivity.
Qed.

(* Same, without the unused hypothesis and for arbitrary CR/LF runs. *)
Corollary recognizers_eol_invariant_strong : forall body e1 e2, eolRun e1 -> eolRun e2 ->
  parseThematicBreak (body ++ e1) = parseThematicBreak (body ++ e2) /\
  parseSetextHeadingUnderline (body ++ e1) = parseSetextHeadingUnderline (body ++ e2) /\
  parseATXHeading (body ++ e1) = parseATXHeading (body ++ e2) /\
  parseCodeFence (body ++ e1) = parseCodeFence (body ++ e2) /\
  parseListMarker (body ++ e1) = parseListMarker (body ++ e2).
Proof.
  intros body e1 e2 H1 H2.
  destruct (recognizers_eolRun_invariant body e1 H1) as (A1 & A2 & A3 & A4 & A5).
  destruct (recognizers_eolRun_invariant body e2 H2) as (B1 & B2 & B3 & B4 & B5).
  rewrite A1, A2, A3, A4, A5, B1, B2, B3, B4, B5. repeat split; reflexivity.
Qed.

(* The hypotheses are satisfiable (non-vacuity), and the statement was tested by computation before it was proved. *)
Example noEol_inhabited : noEol [35; 32; 97; 32; 35].
Proof. repeat (apply Forall_cons; [lia|]). apply Forall_nil. Qed.

Definition all5 (l : bytes) :=
  (parseThematicBreak l, parseSetextHeadingUnderline l, parseATXHeading l, parseCodeFence l, parseListMarker l).
Definition all5_eqb (x y : Z * Z * (Z * Z * Z) * (Z * Z * Z * Z) * (Z * Z * Z)) : bool :=
  let '(t1, s1, (a1, a2, a3), (c1, c2, c3, c4), (m1, m2, m3)) := x in
  let '(t2, s2, (b1, b2, b3), (d1, d2, d3, d4), (n1, n2, n3)) := y in
  (t1 =? t2) && (s1 =? s2) && (a1 =? b1) && (a2 =? b2) && (a3 =? b3) &&
  (c1 =? d1) && (c2 =? d2) && (c3 =? d3) && (c4 =? d4) && (m1 =? n1) && (m2 =? n2) && (m3 =? n3).
Definition sample_bodies : list bytes := [
  [35;32;97;32;35]; [42;42;42]; [45;32;120]; [96;96;96;103;111]; [61;61;61]; [35]; [49;46];
  [35;32;97;32;35;32;32]; [35;32;97;32;35;92;32]; [35;32;35;35]; [35;32]; [35;32;32]; [35;35;32;97;92;32]; [35;32;97;32;32];
  [96;96;96]; [96;96;96;32;32]; [96;96;96;32;103;111;32;32]; [126;126;126;32;96]; [96;96;96;32;97;96]; [96;96];
  [45]; [42]; [43]; [49;41]; [49]; [49;50;51;46;32;120]; [49;50;51;52;53;54;55;56;57;46]; [49;50;51;52;53;54;55;56;57;48;46];
  [45;45;45]; [45;32;45;32;45]; [95;95;95;32;32]; [42;42]; [45;45;45;32;120]; []; [32]; [61;61;32;32]; [61;32;61]; [45;45;32];
  [35;32;92]; [35;9;97;9;35;35;9]; [35;35;35;35;35;35]; [35;35;35;35;35;35;35]; [35;97]
].
Example sample_test :
  forallb (fun b => forallb (fun e1 => forallb (fun e2 => all5_eqb (all5 (b ++ e1)) (all5 (b ++ e2))) eols) eols) sample_bodies = true.
Proof. vm_compute. reflexivity. Qed.

Print Assumptions recognizers_eolRun_invariant.
Print Assumptions recognizers_eol_invariant.
Print Assumptions recognizers_eol_invariant_strong.
