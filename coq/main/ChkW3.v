(* ChkW3.v -- T30, stage 2: the invariant W through the primitives of the line parser: closing, openBlock, endBlock,
   collectInline (also fused with the close that follows it). *)
From Coq Require Import List ZArith Lia Bool.
Import ListNotations.
Require Import Base Tree Rdr Link Collect Html Recog LP Rules Starts Driver L2Kind2 L2CC ShapesBase ShEnv GramDefs GramTree
  Cursor CursorX NoPanic12 BSLine1 ChkW1 ChkW2.
Open Scope Z_scope.

(* the invariant on the tree of a line-parser state, relative to its source *)
Definition WY (y : bool) (p : lp) : Prop := Wb (source p) y (root p) = true.
(* cursor facts *)
Definition CUR (p : lp) : Prop :=
  line p = from_ (source p) (lineStart p) /\ 0 <= lineStart p <= len (source p) /\ 0 <= li p <= len (line p).

Lemma env_src p p' : envOf p' = envOf p -> source p' = source p /\ lineStart p' = lineStart p /\ line p' = line p.
Proof. unfold envOf. intros H. inversion H. tauto. Qed.
Lemma WY_tree y p p' : root p' = root p -> source p' = source p -> WY y p -> WY y p'.
Proof. unfold WY. intros -> ->. tauto. Qed.

(* ---- the cursor ---- *)
Lemma CUR_env p p' : envOf p' = envOf p -> li p' = li p -> CUR p -> CUR p'.
Proof. intros E El (A & B & C). destruct (env_src p p' E) as (E1 & E2 & E3). unfold CUR. rewrite E1, E2, E3, El. tauto. Qed.
Lemma CUR_opened p : CUR p -> CUR (if state p =? stOpening then withState p stOpenMatched else p).
Proof. destruct (_ =? _); tauto. Qed.
Lemma li_advance p n : li (advance p n) = li p \/ (0 < n /\ li p + n <= len (line p) /\ li (advance p n) = li p + n).
Proof.
  unfold advance. destruct (Z.ltb_spec n 0); [left; reflexivity|]. destruct (Z.eqb_spec n 0); [left; reflexivity|]. cbv zeta.
  set (p0 := if state p =? stOpening then withState p stOpenMatched else p).
  assert (E : li p0 = li p /\ line p0 = line p) by (unfold p0; destruct (_ =? _); split; reflexivity). destruct E as [E1 E2].
  rewrite E1, E2. destruct (Z.ltb_spec (len (line p)) (li p + n)); [left; unfold panic; cbn; exact E1|].
  right. cbn. lia.
Qed.
Lemma CUR_advance p n : CUR p -> CUR (advance p n).
Proof.
  intros H. pose proof H as (A & B & C). destruct (env_src p _ (env_advance p n)) as (E1 & E2 & E3).
  unfold CUR. rewrite E1, E2, E3. split; [exact A|]. split; [exact B|]. destruct (li_advance p n) as [E|(P & Q & E)]; rewrite E; lia.
Qed.
Lemma li_consumeLine p : 0 <= li p <= len (line p) -> li (consumeLine p) = len (line p).
Proof.
  intros H. unfold consumeLine. cbv zeta.
  assert (E : li (advance p (len (line p) - li p)) = len (line p)).
  { destruct (li_advance p (len (line p) - li p)) as [E|(P & Q & E)]; [|lia].
    unfold advance in *. destruct (Z.ltb_spec (len (line p) - li p) 0); [lia|].
    destruct (Z.eqb_spec (len (line p) - li p) 0); [cbn; lia|]. cbv zeta in *.
    set (p0 := if state p =? stOpening then withState p stOpenMatched else p) in *.
    assert (E0 : li p0 = li p /\ line p0 = line p) by (unfold p0; destruct (_ =? _); split; reflexivity). destruct E0 as [E1 E2].
    rewrite E1, E2 in *. destruct (Z.ltb_spec (len (line p)) (li p + (len (line p) - li p))); [lia|]. cbn. lia. }
  destruct (_ || _); [exact E|]. destruct (_ =? stDescending); exact E.
Qed.
Lemma CUR_consumeLine p : CUR p -> CUR (consumeLine p).
Proof.
  intros H. pose proof H as (A & B & C). destruct (env_src p _ (env_consumeLine p)) as (E1 & E2 & E3).
  unfold CUR. rewrite E1, E2, E3, (li_consumeLine p C). repeat split; try tauto; lia.
Qed.
Lemma CUR_consumeIndent_loop : forall fuel p n, CUR p -> CUR (consumeIndent_loop fuel p n).
Proof.
  induction fuel as [|f IH]; intros p n H; [exact H|]. cbn [consumeIndent_loop].
  destruct (n <=? 0); [exact H|]. cbv zeta.
  set (p0 := if state p =? stOpening then withState p stOpenMatched else p).
  assert (H0 : CUR p0) by (apply CUR_opened, H). pose proof H0 as (A & B & C).
  destruct (Z.ltb_spec (li p0) (len (line p0))) as [L|L]; cbn [andb].
  - destruct (at_ (line p0) (li p0) =? 32).
    + apply IH. unfold CUR. cbn. repeat split; try tauto; lia.
    + destruct (at_ (line p0) (li p0) =? 9); [|exact H0].
      destruct (n <? tabRem p0); [exact H0|]. apply IH. unfold CUR. cbn. repeat split; try tauto; lia.
  - exact H0.
Qed.
Lemma CUR_consumeIndent p n : CUR p -> CUR (consumeIndent p n). Proof. apply CUR_consumeIndent_loop. Qed.
Lemma CUR_updCont p f : CUR p -> CUR (updCont p f). Proof. tauto. Qed.
Lemma CUR_withCont p c : CUR p -> CUR (withCont p c). Proof. tauto. Qed.
Lemma CUR_withState p c : CUR p -> CUR (withState p c). Proof. tauto. Qed.
Lemma CUR_closeLastChildAt p d e : CUR p -> CUR (closeLastChildAt p d e). Proof. tauto. Qed.
Lemma li_openBlock p kind : li (openBlock p kind) = li p.
Proof.
  unfold openBlock. destruct (_ || _); [reflexivity|]. cbv zeta. cbn [li withCont updCont withRoot closeLastChildAt setLP].
  set (p0 := if state p =? stOpening then withState p stOpenMatched else p).
  destruct (openBlock_up_cur (S (cdepth p0)) p0 kind) as [(E & _) _]. rewrite E. unfold p0. destruct (_ =? _); reflexivity.
Qed.
Lemma CUR_openBlock p kind : CUR p -> CUR (openBlock p kind).
Proof. intros H. apply (CUR_env p); [apply env_openBlock|apply li_openBlock|exact H]. Qed.
Lemma li_endBlock p : li (endBlock p) = li p.
Proof.
  unfold endBlock. destruct (_ || _); [reflexivity|]. cbv zeta. destruct (cdepth _); destruct (state p =? stOpening); reflexivity.
Qed.
Lemma CUR_endBlock p : CUR p -> CUR (endBlock p).
Proof. intros H. apply (CUR_env p); [apply env_endBlock|apply li_endBlock|exact H]. Qed.
Lemma CUR_collectInline p kind n : CUR p -> CUR (collectInline p kind n).
Proof.
  intros H. unfold collectInline. destruct (_ =? stDescendTerminated); [exact H|]. cbv zeta.
  apply CUR_updCont, CUR_advance. destruct (0 <? _); [apply CUR_updCont, CUR_advance|]; apply CUR_opened, H.
Qed.

(* ---- closing ---- *)
Lemma WY_closeLastChildAt y p d e : 0 <= e -> WY y p -> WY y (closeLastChildAt p d e).
Proof.
  intros He H. unfold WY, closeLastChildAt. cbn [root source withRoot setLP]. apply W_updAt; [|exact H].
  intros b Hb. destruct (lastBlock b) as [c|] eqn:El; [|assumption].
  apply W_set_lastBlocks; [assumption|]. apply W_closeBlock; [exact He|]. eapply W_lastBlock; eassumption.
Qed.
Lemma WY_opened y p : WY y p -> WY y (if state p =? stOpening then withState p stOpenMatched else p).
Proof. destruct (_ =? _); tauto. Qed.
Lemma env_openBlock_up' fuel p kind : source (openBlock_up fuel p kind) = source p /\ lineStart (openBlock_up fuel p kind) = lineStart p.
Proof. destruct (env_src p _ (env_openBlock_up fuel p kind)) as (A & B & _). tauto. Qed.
Lemma WY_openBlock_up y : forall fuel p kind, 0 <= lineStart p -> WY y p -> WY y (openBlock_up fuel p kind).
Proof.
  induction fuel as [|f IH]; intros p kind Hl H; [assumption|]. cbn [openBlock_up].
  destruct (canContain _ _); [assumption|]. destruct (cdepth p); [exact H|].
  apply IH; [exact Hl|]. apply (WY_closeLastChildAt y p n (lineStart p) Hl H).
Qed.
Lemma Wb_newBlock src kind pos : kind <> SetextHeadingKind -> Wb src false (newBlock kind pos) = true.
Proof.
  intros Hk. unfold newBlock. apply Wb_mk; [|reflexivity]. unfold loc. cbn [bkind bik ents isOpen bend].
  replace (kind =? SetextHeadingKind) with false by (symmetry; apply Z.eqb_neq; exact Hk). rewrite andb_false_r. reflexivity.
Qed.
Lemma WY_openBlock p kind : kind <> SetextHeadingKind -> 0 <= lineStart p -> WY false p -> WY false (openBlock p kind).
Proof.
  intros Hk Hl H. unfold openBlock. destruct (_ || _); [exact H|]. cbv zeta.
  set (p0 := if state p =? stOpening then withState p stOpenMatched else p).
  assert (H0 : WY false p0) by (apply WY_opened, H).
  assert (L0 : lineStart p0 = lineStart p) by (unfold p0; destruct (_ =? _); reflexivity).
  set (p1 := openBlock_up (S (cdepth p0)) p0 kind).
  assert (H1 : WY false p1) by (apply WY_openBlock_up; [lia|exact H0]).
  assert (L1 : lineStart p1 = lineStart p) by (unfold p1; rewrite (proj2 (env_openBlock_up' _ _ _)); exact L0).
  set (p2 := closeLastChildAt p1 (cdepth p1) (lineStart p1)).
  assert (H2 : WY false p2) by (apply WY_closeLastChildAt; [lia|exact H1]).
  unfold WY in *. cbn [root source withCont updCont withRoot setLP].
  apply W_updAt; [|exact H2]. intros b Hb. apply W_append; [exact Hb|]. apply Wb_newBlock, Hk.
Qed.
Lemma WY_endBlock y p : 0 <= lineStart p + li p -> WY y p -> WY y (endBlock p).
Proof.
  intros He H. unfold endBlock. destruct (_ || _); [exact H|]. cbv zeta.
  set (p0 := if state p =? stOpening then withState p stOpenMatched else p).
  assert (H0 : WY y p0) by (apply WY_opened, H).
  assert (E0 : lineStart p0 + li p0 = lineStart p + li p) by (unfold p0; destruct (_ =? _); reflexivity).
  destruct (cdepth p0) eqn:Ed; [exact H0|].
  apply (WY_tree y (closeLastChildAt p0 n (lineStart p0 + li p0))); [reflexivity|reflexivity|].
  apply WY_closeLastChildAt; [lia|exact H0].
Qed.
Lemma WY_updCont_ext y p f : (forall b, Wb (source p) y (f b) = Wb (source p) y b) -> WY y p -> WY y (updCont p f).
Proof. intros Hf H. unfold WY, updCont. cbn [root source withRoot setLP]. apply W_updAt; [|exact H]. intros b Hb. rewrite Hf. exact Hb. Qed.

(* ---- collectInline: the root afterwards ---- *)
Lemma indentLength_blank : forall l i, 0 <= i < indentLength l -> isSpTab (at_ l i) = true.
Proof.
  induction l as [|c r IH]; intros i Hi; [cbn in Hi; lia|]. cbn [indentLength] in Hi. destruct (isSpTab c) eqn:E; [|lia].
  destruct (Z.eq_dec i 0) as [->|N]; [exact E|]. rewrite at_S' by lia. apply IH. lia.
Qed.

Lemma at_src_line p i : CUR p -> 0 <= i -> at_ (source p) (lineStart p + i) = at_ (line p) i.
Proof. intros (A & B & C) Hi. rewrite A. rewrite at_from by lia. reflexivity. Qed.
Lemma len_line p : CUR p -> len (line p) = len (source p) - lineStart p.
Proof. intros (A & B & C). rewrite A. apply len_from; lia. Qed.

(* a span of the current line that covers blanks only *)
Lemma ib_line p a b ind : CUR p -> 0 <= a -> a <= b -> b <= len (line p) ->
  (forall i, a <= i < b -> isSpTab (at_ (line p) i) = true) ->
  ib (source p) (Inl IndentKind (lineStart p + a) (lineStart p + b) ind [] []) = true.
Proof.
  intros HC Ha Hab Hb Hall. pose proof HC as (A & B & C). pose proof (len_line p HC) as Hl.
  unfold ib. cbn [istart iend]. apply orb_true_iff. right. apply andb_true_iff. split; [apply Z.leb_le; lia|].
  apply forallb_at. intros i Hi. pose proof (len_sub_le (source p) (lineStart p + a) (lineStart p + b)) as Hle.
  rewrite at_sub by lia. replace (lineStart p + a + i) with (lineStart p + (a + i)) by lia.
  rewrite (at_src_line p (a + i) HC) by lia. apply Hall. lia.
Qed.

Definition ciOK (p : lp) (kind : Z) (extra : list inline) (e : Z) : Prop :=
  exists pre node, extra = pre ++ [node] /\
    forallb (fun u => (ikind u =? IndentKind) && ib (source p) u) pre = true /\
    ikind node = kind /\ (kind <> InfoStringKind -> exists s, node = mkI kind s e).

Lemma collectInline_root p kind n : CUR p -> (state p =? stDescendTerminated) = false ->
  exists extra, root (collectInline p kind n) = updAt (cdepth p) (fun c => set_bik c (bik c ++ extra)) (root p) /\
    ciOK p kind extra (lineStart p + li (collectInline p kind n)).
Proof.
  intros HC Hst. unfold collectInline. rewrite Hst. cbv zeta.
  set (p0 := if state p =? stOpening then withState p stOpenMatched else p).
  assert (HC0 : CUR p0) by (apply CUR_opened, HC).
  assert (E0 : root p0 = root p /\ cdepth p0 = cdepth p /\ source p0 = source p /\ lineStart p0 = lineStart p)
    by (unfold p0; destruct (state p =? stOpening); repeat split; reflexivity).
  destruct E0 as (R0 & D0 & S0 & L0).
  set (node := fun q : lp => if kind =? InfoStringKind then parseInfoString (source (advance q n)) (lineStart q + li q) (lineStart (advance q n) + li (advance q n))
                             else mkI kind (lineStart q + li q) (lineStart (advance q n) + li (advance q n))).
  assert (Hnode : forall q, lineStart q = lineStart p -> ikind (node q) = kind /\
             (kind <> InfoStringKind -> exists s, node q = mkI kind s (lineStart p + li (advance q n)))).
  { intros q Hq. unfold node. destruct (env_src q _ (env_advance q n)) as (_ & E2 & _). rewrite E2, Hq.
    destruct (Z.eqb_spec kind InfoStringKind) as [->|N].
    - split; [unfold parseInfoString; destruct (infoString_loop _ _ _ _ _ _); reflexivity|congruence].
    - split; [reflexivity|]. intros _. eexists. reflexivity. }
  destruct (0 <? indent p0) eqn:Ei.
  - set (q := advance p0 (indentLength (rest p0))).
    set (I := Inl IndentKind (lineStart p0 + li p0) (lineStart q + li q) (indent p0) [] []).
    exists [I; node (updCont q (fun b => set_bik b (bik b ++ [I])))]. split.
    + cbn [root updCont withRoot setLP cdepth container].
      assert (Rq : root q = root p) by (unfold q; rewrite (proj1 (same_advance p0 _)); exact R0).
      assert (Dq : cdepth q = cdepth p) by (unfold q, cdepth; rewrite (proj2 (same_advance p0 _)); exact D0).
      assert (Dq2 : cdepth (advance (updCont q (fun b => set_bik b (bik b ++ [I]))) n) = cdepth p).
      { unfold cdepth. rewrite (proj2 (same_advance _ _)). exact Dq. }
      fold (cdepth (advance (updCont q (fun b => set_bik b (bik b ++ [I]))) n)). rewrite Dq2.
      rewrite (proj1 (same_advance _ _)). cbn [root updCont withRoot setLP]. fold (cdepth q). rewrite Dq, Rq.
      rewrite updAt_fuse. apply updAt_ext. intros x. destruct x. cbn [set_bik bik]. rewrite <- app_assoc. reflexivity.
    + exists [I], (node (updCont q (fun b => set_bik b (bik b ++ [I])))). split; [reflexivity|]. split.
      * cbn [forallb]. rewrite andb_true_r. apply andb_true_iff. split; [reflexivity|].
        assert (Eq : lineStart q = lineStart p0 /\ (li q = li p0 \/ li q = li p0 + indentLength (rest p0))).
        { unfold q. destruct (env_src p0 _ (env_advance p0 (indentLength (rest p0)))) as (_ & E2 & _). split; [exact E2|].
          destruct (li_advance p0 (indentLength (rest p0))) as [E|(_ & _ & E)]; [left|right]; exact E. }
        destruct Eq as [Eq1 Eq2]. unfold I. rewrite Eq1. rewrite <- S0.
        pose proof HC0 as (A & B & C). pose proof (indentLength_nonneg (rest p0)) as Hn. pose proof (indentLength_le (rest p0)) as Hle.
        assert (Hr : len (rest p0) = len (line p0) - li p0) by (unfold rest; apply len_from; lia).
        apply ib_line; [exact HC0|lia|destruct Eq2 as [-> | ->]; lia|destruct Eq2 as [-> | ->]; lia|].
        intros i Hi. replace i with (li p0 + (i - li p0)) by lia. rewrite <- at_from by lia. fold (rest p0).
        apply indentLength_blank. destruct Eq2 as [E|E]; rewrite E in Hi; lia.
      * assert (Hl : lineStart (updCont q (fun b => set_bik b (bik b ++ [I]))) = lineStart p).
        { cbn [lineStart updCont withRoot setLP]. unfold q. destruct (env_src p0 _ (env_advance p0 (indentLength (rest p0)))) as (_ & E2 & _). congruence. }
        destruct (Hnode _ Hl) as [N1 N2]. split; [exact N1|]. intros Hk. destruct (N2 Hk) as (s & Es). exists s.
        rewrite Es. reflexivity.
  - exists [node p0]. split.
    + cbn [root updCont withRoot setLP]. rewrite (proj1 (same_advance _ _)).
      assert (Dq2 : cdepth (advance p0 n) = cdepth p) by (unfold cdepth; rewrite (proj2 (same_advance _ _)); exact D0).
      rewrite Dq2, R0. reflexivity.
    + exists [], (node p0). split; [reflexivity|]. split; [reflexivity|]. destruct (Hnode p0 L0) as [N1 N2]. split; [exact N1|].
      intros Hk. destruct (N2 Hk) as (s & Es). exists s. rewrite Es. reflexivity.
Qed.

(* collectInline up to the end of the line *)
Lemma li_collectInline_all p kind : G p -> CUR p -> (state p =? stDescendTerminated) = false ->
  li (collectInline p kind (len (bytesAfterIndent p))) = len (line p).
Proof.
  intros (HI & HL & _) HC Hst. unfold collectInline. rewrite Hst. cbv zeta. cbn [li updCont withRoot setLP].
  set (p0 := if state p =? stOpening then withState p stOpenMatched else p).
  assert (E0 : li p0 = li p /\ line p0 = line p /\ rest p0 = rest p /\ indent p0 = indent p)
    by (unfold p0; destruct (state p =? stOpening); repeat split; reflexivity).
  destruct E0 as (E1 & E2 & E3 & E4). pose proof HC as (A & B & C).
  pose proof (indentLength_nonneg (rest p)) as Hn. pose proof (indentLength_le (rest p)) as Hle.
  assert (Hr : len (rest p) = len (line p) - li p) by (unfold rest; apply len_from; lia).
  assert (Hb : len (bytesAfterIndent p) = len (rest p) - indentLength (rest p)).
  { unfold bytesAfterIndent. rewrite trimLeft_from. apply len_from; lia. }
  set (p1 := if 0 <? indent p0 then updCont (advance p0 (indentLength (rest p0))) _ else p0).
  assert (H1 : li p1 = li p + indentLength (rest p) /\ line p1 = line p).
  { unfold p1. rewrite E4, E3. destruct (Z.ltb_spec 0 (indent p)) as [Li|Li].
    - cbn [li line updCont withRoot setLP]. destruct (env_src p0 _ (env_advance p0 (indentLength (rest p)))) as (_ & _ & E5).
      split; [|congruence]. destruct (li_advance p0 (indentLength (rest p))) as [E|(_ & _ & E)]; [|lia].
      unfold advance in E |- *. destruct (Z.ltb_spec (indentLength (rest p)) 0); [lia|].
      destruct (Z.eqb_spec (indentLength (rest p)) 0) as [Ez|Nz]; [lia|]. cbv zeta.
      set (p00 := if state p0 =? stOpening then withState p0 stOpenMatched else p0).
      assert (E00 : li p00 = li p0 /\ line p00 = line p0) by (unfold p00; destruct (state p0 =? stOpening); split; reflexivity). destruct E00 as [F1 F2].
      rewrite F1, F2, E1, E2. destruct (Z.ltb_spec (len (line p)) (li p + indentLength (rest p))); [lia|]. cbn. lia.
    - split; [|exact E2]. rewrite E1. rewrite (indent_eq p HI) in Li.
      destruct (wsRun p) as [|w ws] eqn:Ew.
      + pose proof (len_wsRun p) as Hw. rewrite Ew in Hw. cbn in Hw. lia.
      + pose proof (wsWidth_pos p ltac:(lia) ltac:(rewrite Ew; discriminate)). lia. }
  destruct H1 as [H1 H1']. destruct (li_advance p1 (len (bytesAfterIndent p))) as [E|(_ & _ & E)].
  - rewrite E. unfold advance in E. destruct (Z.ltb_spec (len (bytesAfterIndent p)) 0); [pose proof (len_nonneg (bytesAfterIndent p)); lia|].
    destruct (Z.eqb_spec (len (bytesAfterIndent p)) 0) as [Ez|Nz]; [lia|]. cbv zeta in E.
    set (p11 := if state p1 =? stOpening then withState p1 stOpenMatched else p1) in E.
    assert (E11 : li p11 = li p1 /\ line p11 = line p1) by (unfold p11; destruct (state p1 =? stOpening); split; reflexivity). destruct E11 as [F1 F2].
    rewrite F1, F2, H1' in E. destruct (Z.ltb_spec (len (line p)) (li p1 + len (bytesAfterIndent p))); [lia|]. cbn in E. lia.
  - rewrite E. lia.
Qed.

(* ---- collectInline fused with the close of the container that follows it ---- *)
Definition CLf (h : nat) (src : bytes) (e : Z) (b : block) : block :=
  match lastBlock b with Some c => set_lastBlocks b (closeBlock h src c e) | None => b end.
Lemma root_closeLastChildAt p d e : root (closeLastChildAt p d e) = updAt d (CLf (bheight (root p)) (source p) e) (root p).
Proof. reflexivity. Qed.
Lemma set_last_twice_l b u l : set_lastBlocks (set_lastBlocks b [u]) l = set_lastBlocks b l.
Proof. destruct b. unfold set_lastBlocks. cbn [set_bkids bkids]. rewrite removelast_last. reflexivity. Qed.
Lemma bheight_S b : exists f, bheight b = S f.
Proof. destruct b. cbn [bheight]. eexists. reflexivity. Qed.

Lemma ents_indents src K xr xu l : forallb (fun u => (ikind u =? IndentKind) && ib src u) l = true -> ents src K xr xu l = true.
Proof.
  induction l as [|u r IH]; intros H; [reflexivity|].
  cbn [forallb ents] in *. apply andb_true_iff in H. destruct H as [A B]. apply andb_true_iff in A. destruct A as [A1 A2].
  rewrite (IH B), andb_true_r. unfold eok. apply Z.eqb_eq in A1. rewrite A1.
  change (IndentKind =? UnparsedKind) with false. change (IndentKind =? RawHTMLKind) with false. change (IndentKind =? IndentKind) with true.
  cbv iota. exact A2.
Qed.

Lemma collect_close p kind n d e K Z (q : lp) :
  CUR p -> (state p =? stDescendTerminated) = false -> cdepth p = S d -> 0 <= e ->
  (forall c, getAt (S d) (root p) = Some c -> isOpen c = true /\ bkind c = K) -> K <> SetextHeadingKind ->
  root q = root (collectInline p kind n) -> source q = source p ->
  (kind = UnparsedKind \/ kind = RawHTMLKind \/ kind = InfoStringKind) ->
  (kind = UnparsedKind -> K <> HTMLBlockKind) ->
  (kind = RawHTMLKind -> K = HTMLBlockKind /\
     (Z = true \/ forall s, gd (source p) (mkI kind s (lineStart p + li (collectInline p kind n))) = true)) ->
  WY false p -> Wb (source p) Z (updAt d (CLf (bheight (root q)) (source q) e) (root q)) = true.
Proof.
  intros HC Hst Hd He Hc HK Hq Hs Hkind HU HR HW.
  destruct (collectInline_root p kind n HC Hst) as (extra & Hroot & (pre & node & Eex & Hpre & Hnk & Hnode)).
  rewrite Hq, Hroot, Hd, Hs. rewrite updAt_S, updAt_fuse.
  apply W_updAt_raise; [exact HW|]. intros b Hb HWb.
  unfold liftLast. destruct (lastBlock b) as [c|] eqn:El.
  - assert (Hgc : getAt (S d) (root p) = Some c) by (rewrite getAt_S_last, Hb; exact El).
    destruct (Hc c Hgc) as [Ho Hkc].
    unfold CLf. rewrite lastBlock_set_last by (eapply lastBlock_nonempty; exact El). rewrite set_last_twice_l.
    apply W_set_lastBlocks; [apply Wb_weaken, HWb|].
    destruct (bheight_S (updAt d (fun x => match lastBlock x with Some c0 => set_lastBlocks x [set_bik c0 (bik c0 ++ extra)] | None => x end) (root p))) as (f & Ef).
    rewrite Ef.
    assert (HWc : Wb (source p) false c = true) by (eapply W_lastBlock; eassumption).
    apply Wb_parts in HWc. destruct HWc as [HLc HKc]. unfold loc in HLc. apply andb_true_iff in HLc. destruct HLc as [HEc _].
    rewrite Ho in HEc. cbn [negb orb] in HEc.
    apply W_closeBlock_closed; [exact He|destruct c; exact Ho|rewrite bkind_set_bik, Hkc; exact HK|].
    apply Wb_closed_entries; [exact He| |apply WL_weaken, HKc].
    rewrite Hkc. rewrite ents_app by (rewrite Eex; destruct pre; discriminate). rewrite Hkc in HEc. rewrite HEc. cbn [andb].
    assert (Hn : eok (source p) K Z true node = true).
    { unfold eok. rewrite Hnk. destruct Hkind as [-> |[-> | ->]].
      - change (UnparsedKind =? UnparsedKind) with true. cbv iota. rewrite orb_true_r, andb_true_r.
        apply negb_true_iff, Z.eqb_neq, HU. reflexivity.
      - change (RawHTMLKind =? UnparsedKind) with false. change (RawHTMLKind =? RawHTMLKind) with true. cbv iota.
        destruct (HR eq_refl) as [-> HZ]. change (HTMLBlockKind =? HTMLBlockKind) with true. cbn [andb].
        destruct HZ as [-> |HZ]; [apply orb_true_r|]. destruct (Hnode ltac:(discriminate)) as (s & ->). rewrite HZ. reflexivity.
      - reflexivity. }
    rewrite Eex. destruct pre as [|i0 pre'].
    + cbn [app ents nilb]. rewrite !andb_true_r. exact Hn.
    + rewrite ents_app by discriminate. rewrite (ents_indents _ _ _ _ _ Hpre). cbn [ents nilb andb]. rewrite !andb_true_r. exact Hn.
  - unfold CLf. rewrite El. apply Wb_weaken, HWb.
Qed.
