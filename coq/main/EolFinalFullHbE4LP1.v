(* T63-F1 (D2).  Copy of En3LP1.v over the invariant EolFinalFullHbE4Tree.en = En3Tree.en plus one clause (lastX): the last entry of a
   PARAGRAPH holds a byte that is not space / tab / line ending, and once the paragraph is closed it ends at the end of the block.
   Changes w.r.t. En3LP1.v: module names; the places that build or use that clause; closing lemmas take "a paragraph is open -> e = lineStart". *)
From Coq Require Import List ZArith Lia Bool.
Import ListNotations.
Require Import Base Tree Rdr Link Collect Html Recog LP Rules Starts Driver L2Kind L2CC BSDef BSRdr BSTree BSOcp BSOrph BSClose BSLine1 BSLine2 BSLine3
  GramTree GramLP GramLP2 Cursor CursorX NoPanic12 ShDef ShRdr ShClose ShEnv ShLine1 ShLine2 ShFresh ShStarts2.
Require Import ShapesBase EntBase EntOcpDefs EntOcp EolFinalFullHbE4Tree EntCur EolFinalFullHbE4Par.
Open Scope Z_scope.

(* En3* (T46): the En2* development over the invariant EolFinalFullHbE4Tree.en.  Differences of this file from En2LP1:
   EP also carries spineOpen (the blocks down to the container are open), every step that may close blocks takes the premise
   TP (when a paragraph is open on the open chain, the byte at the start of the line is not ')'), closing keeps the
   right-spine structure (closed results, closed elder siblings), and obPre leaves the container with closed children. *)

(* ================================================================================================
   T28, part 4: the line machine, primitives.  EP bundles what every step keeps:
   the environment (line of B), cursor inside the line, canContain closure (L2CC), cursor arithmetic (NoPanic12.G)
   and the entry invariant relative to the start of the line.
   ================================================================================================ *)
Definition EP (B : bytes) (p : lp) : Prop :=
  envB B p /\ curP p /\ ccP p /\ (Itab p /\ spineOpen p) /\ en B (lineStart p) (root p).
(* whenever a paragraph is open: the byte at the start of the line is not ')' (premise of every step that may close blocks) *)
Definition TP (B : bytes) (p : lp) : Prop := ppT (root p) -> nb41 B (lineStart p).

Lemma EP_parts B p : EP B p -> envB B p /\ curP p /\ ccP p /\ (Itab p /\ spineOpen p) /\ en B (lineStart p) (root p).
Proof. intros H; exact H. Qed.

Lemma spineOpen_same p p' : root p' = root p -> cdepth p' = cdepth p -> spineOpen p -> spineOpen p'.
Proof. intros R C H. unfold spineOpen. rewrite R, C. exact H. Qed.

(* same tree, same environment, cursor moved to the right inside the line *)
Lemma EP_cstep B p p' : cstep p p' -> Itab p' -> EP B p -> EP B p'.
Proof.
  intros Hc HG (A & A1 & A2 & (_ & ASO) & A4). destruct (cstep_Mc p p' Hc A1) as (C1 & _ & E1 & E2).
  pose proof Hc as ((R1 & R2) & _ & _).
  split; [eapply envB_env; [apply env_of_cstep, Hc|exact A]|]. split; [exact C1|]. split; [eapply ccP_same; [split; eassumption|exact A2]|].
  split; [split; [exact HG|]|rewrite R1, E1; exact A4].
  apply (spineOpen_same p p'); [exact R1| |exact ASO]. unfold cdepth. rewrite R2. reflexivity.
Qed.

(* same cursor and environment, new tree / container *)
Lemma EP_tree B p p' : envOf p' = envOf p -> curS p p' -> ccP p' -> spineOpen p' -> en B (lineStart p) (root p') -> EP B p -> EP B p'.
Proof.
  intros E Hc Hcc Hso Hen (A & A1 & A2 & (A3 & ASO) & A4). destruct (env_parts _ _ E) as (E1 & E2 & E3). pose proof Hc as (C1 & C2 & _).
  split; [eapply envB_env; eassumption|]. split; [unfold curP in *; rewrite E2, E3, C1; exact A1|]. split; [exact Hcc|].
  split; [split; [eapply Itab_curS; eassumption|exact Hso]|]. rewrite E2. exact Hen.
Qed.

Lemma curS_tree p p' : li p' = li p -> line p' = line p -> col p' = col p -> tabRem p' = tabRem p -> curS p p'.
Proof. intros. repeat split; assumption. Qed.

(* ---- closing the last child of the block at depth d ---- *)
Lemma src_of B p : envB B p -> source p = upto B (lineStart p + len (line p)) /\ lineStart p + len (line p) <= len B /\ 0 <= lineStart p.
Proof. intros (A & _ & A2 & A3 & _). tauto. Qed.

Lemma bdy_ls B p : envB B p -> bdy B (lineStart p).
Proof.
  intros (_ & _ & _ & _ & [E|[E|E]] & _); [left; lia|right; right; destruct E as [E|E]; rewrite E; discriminate|right; left; lia].
Qed.
Lemma bdy_H B p : envB B p -> bdy B (lineStart p + len (line p)).
Proof.
  intros He. pose proof He as (_ & _ & _ & _ & _ & (_ & _ & _ & _ & [E|[E1 E2]])); [right; left; lia|].
  right. right. destruct E2 as [E|E]; rewrite E; discriminate.
Qed.

Lemma closeBlock_res B p d e x c : envB B p -> ccP p -> en B (lineStart p) (root p) -> TP B p -> (ppT (root p) -> e = lineStart p) -> lineStart p <= e <= lineStart p + len (line p) -> bdy B e ->
  getAt d (root p) = Some x -> lastBlock x = Some c ->
  allP (en B (lineStart p)) (closeBlock (bheight (root p)) (source p) c e) /\ closedL (closeBlock (bheight (root p)) (source p) c e).
Proof.
  intros He Hcc Hen Htp Hpe Hb Hbd Ex El. destruct (src_of B p He) as (S1 & S2 & S3).
  apply (en_closeBlock B (lineStart p) (lineStart p + len (line p)) (source p) e S1 S2 ltac:(lia) ltac:(lia) Hbd (bdy_H B p He)).
  - pose proof (bheight_getAt d _ x Ex). pose proof (bheight_last x c El). lia.
  - eapply cc_lastBlock; [eapply cc_getAt; [apply Hcc|exact Ex]|exact El].
  - eapply en_lastBlock; [eapply en_getAt; eassumption|exact El].
  - intros Ho. assert (Hpp : ppT (root p)).
    { eapply opara_ppT; [exact Hen|]. eapply opara_getAt; [exact Ex|]. rewrite opara_eq. right. exists c.
      split; [eapply lastBlock_In; exact El|exact Ho]. }
    split; [apply Htp, Hpp|apply Hpe, Hpp].
Qed.

Lemma en_closeAt B p d e : envB B p -> ccP p -> en B (lineStart p) (root p) -> TP B p -> (ppT (root p) -> e = lineStart p) -> lineStart p <= e <= lineStart p + len (line p) -> bdy B e ->
  en B (lineStart p) (updAt d (closeF p e) (root p)).
Proof.
  intros He Hcc Hen Htp Hpe Hb Hbd.
  apply en_updAt; [exact Hen|]. intros x Ex Hx. split; [|rewrite closeF_bend; tauto].
  unfold closeF. destruct (lastBlock x) as [c|] eqn:El; [|exact Hx].
  destruct (closeBlock_res B p d e x c He Hcc Hen Htp Hpe Hb Hbd Ex El) as [G1 G2].
  eapply en_set_lastBlocks; [exact Hx|exact El|exact G1|intros _; exact G2|apply closedL_removelast, G2].
Qed.

Lemma ppT_closeAt B p d e : ccP p -> en B (lineStart p) (root p) -> 0 <= e -> (exists x, getAt d (root p) = Some x) ->
  ppT (updAt d (closeF p e) (root p)) -> ppT (root p).
Proof.
  intros (_ & Hcc & _) Hen He Hd. apply ppT_updAt_cut; [exact Hd|].
  intros x Hx. split; [apply closeF_bend|]. split; [apply closeF_kind|]. intros z Hz. left.
  unfold closeF in Hz. destruct (lastBlock x) as [c|] eqn:El.
  - pose proof (lastBlock_set_lastBlocks x _ z (closeBlock_nonnil (source p) e (bheight (root p)) c) Hz) as Hin.
    destruct (bheight_S (root p)) as (h & Eh).
    assert (Hcl : closedL (closeBlock (bheight (root p)) (source p) c e)).
    { apply (closeBlock_closedL B (lineStart p)); [exact He|rewrite Eh; lia| |].
      - eapply cc_lastBlock; [eapply cc_getAt; eassumption|exact El].
      - eapply en_lastBlock; [eapply en_getAt; eassumption|exact El]. }
    exact (allP_In _ _ _ Hcl Hin).
  - rewrite El in Hz. discriminate.
Qed.

Lemma root_closeAt p d e : root (closeLastChildAt p d e) = updAt d (closeF p e) (root p).
Proof. rewrite closeLastChildAt_eq. reflexivity. Qed.

Lemma EP_closeAt B p d e d' : EP B p -> TP B p -> (ppT (root p) -> e = lineStart p) -> (d' <= d)%nat -> (d <= cdepth p)%nat -> lineStart p <= e <= lineStart p + len (line p) -> bdy B e ->
  EP B (withCont (closeLastChildAt p d e) (Some d')) /\
  (ppT (root (withCont (closeLastChildAt p d e) (Some d'))) -> ppT (root p)).
Proof.
  intros HE Htp Hpe Hd' Hd He Hbd. pose proof HE as (A & A1 & A2 & (A3 & ASO) & A4).
  assert (Hx : exists x, getAt d (root p) = Some x) by (apply wf_le; assumption).
  assert (Hx' : exists x, getAt d' (root p) = Some x) by (apply wf_le; [assumption|lia]).
  split.
  - apply (EP_tree B p); [reflexivity|repeat split|apply ccP_closeAt; assumption| | |exact HE].
    + rewrite closeLastChildAt_eq. apply spineOpen_upd; [intros x; apply closeF_bend|exact ASO|exact Hd'|lia].
    + change (root (withCont (closeLastChildAt p d e) (Some d'))) with (root (closeLastChildAt p d e)). rewrite root_closeAt.
      apply en_closeAt; assumption.
  - change (root (withCont (closeLastChildAt p d e) (Some d'))) with (root (closeLastChildAt p d e)). rewrite root_closeAt.
    apply (ppT_closeAt B); [exact A2|exact A4|destruct A1; lia|exact Hx].
Qed.

Lemma EP_same_cd B p p' : root p' = root p -> cdepth p' = cdepth p -> envOf p' = envOf p -> curS p p' -> EP B p -> EP B p'.
Proof.
  intros R C E Hc HE. pose proof HE as (A & A1 & A2 & (A3 & ASO) & A4).
  apply (EP_tree B p); try assumption; [eapply ccP_same_cd; eassumption|eapply spineOpen_same; eassumption|rewrite R; exact A4].
Qed.

Lemma TP_same B p p' : root p' = root p -> lineStart p' = lineStart p -> TP B p -> TP B p'.
Proof. intros R L H. unfold TP. rewrite R, L. exact H. Qed.

Lemma EP_closeHere B p e : EP B p -> TP B p -> (ppT (root p) -> e = lineStart p) -> lineStart p <= e <= lineStart p + len (line p) -> bdy B e ->
  EP B (closeLastChildAt p (cdepth p) e) /\ (ppT (root (closeLastChildAt p (cdepth p) e)) -> ppT (root p)).
Proof.
  intros HE Htp Hpe He Hbd. destruct (EP_closeAt B p (cdepth p) e (cdepth p) HE Htp Hpe ltac:(lia) ltac:(lia) He Hbd) as [H1 H2]. split; [|exact H2].
  eapply (EP_same_cd B _ _ _ _ _ _ H1).
  Unshelve. all: try reflexivity. repeat split.
Qed.

(* ---- openBlock ---- *)
Lemma EP_opened B p : EP B p -> EP B (if state p =? stOpening then withState p stOpenMatched else p).
Proof. intros H. apply (EP_cstep B p); [apply cstep_opened|apply Itab_opened, H|exact H]. Qed.

Lemma EP_panic B p c : EP B p -> EP B (panic p c).
Proof. intros HE. apply (EP_cstep B p); [apply cstep_panic| |exact HE]. destruct HE as (_ & _ & _ & (G1 & _) & _). exact G1. Qed.

Lemma EP_openBlock_up B : forall fuel p kind, EP B p -> TP B p ->
  EP B (openBlock_up fuel p kind) /\ (ppT (root (openBlock_up fuel p kind)) -> ppT (root p)).
Proof.
  induction fuel as [|f IH]; intros p kind HE Htp; [split; [exact HE|tauto]|]. cbn [openBlock_up].
  destruct (canContain _ _); [split; [exact HE|tauto]|].
  destruct (cdepth p) as [|d] eqn:Ed.
  { split; [|tauto]. apply EP_panic, HE. }
  pose proof HE as (A & A1 & A2 & (A3 & ASO) & A4).
  destruct (EP_closeAt B p d (lineStart p) d HE Htp ltac:(intros; reflexivity) ltac:(lia) ltac:(lia) ltac:(pose proof (len_nonneg (line p)); lia) (bdy_ls B p A)) as [H1 H2].
  destruct (IH (withCont (closeLastChildAt p d (lineStart p)) (Some d)) kind H1) as [H3 H4].
  { intros Hp. apply Htp, H2, Hp. }
  split; [exact H3|]. intros Hp. apply H2, H4, Hp.
Qed.

Lemma lastBlock_None_kids b : lastBlock b = None -> bkids b = [].
Proof.
  unfold lastBlock. destruct (rev (bkids b)) eqn:E; [intros _|discriminate]. apply (f_equal (@rev _)) in E. rewrite rev_involutive in E. exact E.
Qed.

Lemma kidsClosed_closeHere B p e : EP B p -> TP B p -> (ppT (root p) -> e = lineStart p) -> lineStart p <= e <= lineStart p + len (line p) -> bdy B e ->
  kidsClosed (closeLastChildAt p (cdepth p) e).
Proof.
  intros HE Htp Hpe He Hbd x Ex. pose proof HE as (A & A1 & A2 & (A3 & ASO) & A4).
  change (cdepth (closeLastChildAt p (cdepth p) e)) with (cdepth p) in Ex. rewrite root_closeAt, getAt_updAt_same in Ex.
  destruct (getAt (cdepth p) (root p)) as [x0|] eqn:E0; [|discriminate]. cbn [option_map] in Ex. inversion Ex; subst x. clear Ex.
  unfold closeF. destruct (lastBlock x0) as [c|] eqn:El.
  - destruct (closeBlock_res B p (cdepth p) e x0 c A A2 A4 Htp Hpe He Hbd E0 El) as [_ G2].
    unfold set_lastBlocks. rewrite bkids_set_bkids. apply closedL_app. split; [|exact G2].
    eapply en_kids_struct. eapply en_getAt; eassumption.
  - rewrite (lastBlock_None_kids x0 El). exact I.
Qed.

Lemma TP_back B p p' : envOf p' = envOf p -> (ppT (root p') -> ppT (root p)) -> TP B p -> TP B p'.
Proof. intros E H Htp Hp. destruct (env_parts _ _ E) as (_ & L & _). rewrite L. apply Htp, H, Hp. Qed.

Lemma EP_obPre B p K : EP B p -> TP B p -> EP B (obPre p K) /\ (ppT (root (obPre p K)) -> ppT (root p)) /\ kidsClosed (obPre p K).
Proof.
  intros HE Htp. unfold obPre. cbv zeta. pose proof (EP_opened B p HE) as H0.
  set (p0 := if state p =? stOpening then withState p stOpenMatched else p) in *.
  assert (Er : root p0 = root p) by (unfold p0; destruct (_ =? _); reflexivity).
  assert (Htp0 : TP B p0) by (apply (TP_back B p); [apply env_opened|rewrite Er; tauto|exact Htp]).
  destruct (EP_openBlock_up B (S (cdepth p0)) p0 K H0 Htp0) as [H1 H2]. set (p2 := openBlock_up (S (cdepth p0)) p0 K) in *.
  assert (Htp2 : TP B p2) by (apply (TP_back B p0); [apply env_openBlock_up|exact H2|exact Htp0]).
  assert (Hb : lineStart p2 <= lineStart p2 <= lineStart p2 + len (line p2)) by (pose proof (len_nonneg (line p2)); lia).
  destruct (EP_closeHere B p2 (lineStart p2) H1 Htp2 ltac:(intros; reflexivity) Hb (bdy_ls B p2 ltac:(apply H1))) as [H3 H4].
  split; [exact H3|]. split; [intros Hp; rewrite <- Er; apply H2, H4, Hp|].
  apply (kidsClosed_closeHere B); [exact H1|exact Htp2|intros; reflexivity|exact Hb|apply (bdy_ls B p2), H1].
Qed.

Lemma en_newBlock' B M K s : K <> SetextHeadingKind -> K <> ATXHeadingKind -> (K = ParagraphKind -> 0 <= s <= M) -> en B M (newBlock K s).
Proof.
  intros N N2 Hs. unfold newBlock. cbn [en]. split; [|exact I]. split; [|split; [|split; [|split]]].
  - intros [HK|HK]; [|contradiction]. split; [exact I|]. split; [intros u []|intros _; apply Hs, HK].
  - intros E. contradiction.
  - intros _. exact N.
  - intros; lia.
  - split; [intros _ _; apply noU_nil|]. split; [intros _ L X; discriminate|split; [intros; exact I|split; [exact I|apply xk_nil]]].
Qed.

(* the tree of a state whose container is a fresh open block appended to the old container *)
Lemma spineOpen_frs q p Y : frs q p Y -> ccP q -> spineOpen q -> bend Y < 0 -> spineOpen p.
Proof.
  intros (F1 & F2 & _) (_ & _ & (x0 & Hx0)) Ho HY j y Hj Ey. rewrite F1 in Ey. rewrite F2 in Hj.
  destruct (Nat.eq_dec j (S (cdepth q))) as [E|N].
  - subst j. replace (S (cdepth q)) with (cdepth q + 1)%nat in Ey by lia. rewrite (getAt_updAt_ge _ _ 1 _ x0 Hx0) in Ey.
    rewrite getAt_S, lastBlock_appendB in Ey. cbn [getAt] in Ey. inversion Ey; subst y. exact HY.
  - destruct (getAt_updAt_low (appendB Y) (fun x => bend_set_bkids x _) (cdepth q) j (root q) y ltac:(lia) Ey) as (x & A & B & _).
    rewrite B. apply (Ho j x); [lia|exact A].
Qed.
Lemma en_frs B M q Y : en B M (root q) -> ccP q -> spineOpen q -> kidsClosed q -> en B M Y -> en B M (updAt (cdepth q) (appendB Y) (root q)).
Proof.
  intros Hen Hcc Ho Hk HY. apply en_updAt; [exact Hen|]. intros x Ex Hx. split; [|unfold appendB; rewrite bend_set_bkids; tauto].
  apply en_append; [exact Hx|exact HY|apply (Ho (cdepth q) x); [lia|exact Ex]|apply Hk, Ex].
Qed.

Lemma curS_openBlock p K : curS p (openBlock p K).
Proof.
  unfold openBlock. destruct (_ || _); [repeat split|]. cbv zeta.
  set (p0 := if state p =? stOpening then withState p stOpenMatched else p).
  destruct (openBlock_up_cur (S (cdepth p0)) p0 K) as [Hc _]. pose proof (curS_opened p) as H0. fold p0 in H0.
  eapply curS_trans; [exact H0|]. eapply curS_trans; [exact Hc|]. repeat split.
Qed.
Lemma curS_endBlock p : curS p (endBlock p).
Proof.
  unfold endBlock. destruct (_ || _); [repeat split|]. cbv zeta. pose proof (curS_opened p) as H0.
  set (p0 := if state p =? stOpening then withState p stOpenMatched else p) in *. destruct (cdepth p0); (eapply curS_trans; [exact H0|repeat split]).
Qed.

(* Itab through consumeIndent, without any no-panic side condition *)
Lemma Itab_consumeIndent_loop : forall fuel p n, Itab p -> Itab (consumeIndent_loop fuel p n).
Proof.
  induction fuel as [|f IH]; intros p n H; [exact H|]. cbn [consumeIndent_loop].
  destruct (Z.leb_spec n 0) as [Ln|Ln]; [exact H|]. cbv zeta.
  set (p0 := if state p =? stOpening then withState p stOpenMatched else p).
  assert (A : Itab p0) by (apply Itab_opened, H).
  destruct (Z.ltb_spec (li p0) (len (line p0))) as [L|L]; cbn [andb]; [|exact A].
  assert (Hstep : forall cl, Itab (withCursor p0 (li p0 + 1) cl (computeTabRem (line p0) (li p0 + 1) cl))).
  { intros cl. apply Itab_cursor. destruct A; lia. }
  destruct (at_ (line p0) (li p0) =? 32); [apply IH, Hstep|].
  destruct (Z.eqb_spec (at_ (line p0) (li p0)) 9) as [E9|N9]; [|exact A].
  destruct (Z.ltb_spec n (tabRem p0)) as [Lp|Lp]; [|apply IH, Hstep].
  destruct A as [A0 A1]. split; [cbn; exact A0|].
  cbn [li col tabRem line withCursor setLP]. intros _ _. rewrite (A1 L E9) in *. rewrite (ts_same (col p0) (col p0 + n)) by lia. lia.
Qed.
Lemma Itab_consumeIndent p n : Itab p -> Itab (consumeIndent p n). Proof. apply Itab_consumeIndent_loop. Qed.

Lemma EP_openBlock B p K : EP B p -> TP B p -> st_open p -> K <> SetextHeadingKind -> K <> ParagraphKind -> K <> ATXHeadingKind ->
  (K <> ListItemKind \/ canContain (containerKind p) K = true) ->
  EP B (openBlock p K) /\ (ppT (root (openBlock p K)) -> ppT (root p)).
Proof.
  intros HE Htp Hs N1 N2 N3 Hk. destruct (EP_obPre B p K HE Htp) as (H1 & H2 & HKC). pose proof H1 as (A & A1 & A2 & (A3 & ASO) & A4).
  pose proof (frs_openBlock p K Hs) as Hfrs. pose proof Hfrs as (F1 & F2 & F3). pose proof A2 as (_ & _ & (x0 & Hx0)).
  pose proof (curS_openBlock p K) as Hcs.
  split.
  - destruct HE as (B0 & B1 & B2 & (B3 & BSO) & B4).
    split; [eapply envB_env; [apply env_openBlock|exact B0]|]. split.
    { unfold curP. destruct (env_parts _ _ (env_openBlock p K)) as (_ & E2 & E3). rewrite E2, E3, li_openBlock. exact B1. }
    split; [apply ccP_openBlock; assumption|]. split; [split; [eapply Itab_curS; eassumption|]|].
    { apply (spineOpen_frs _ _ _ Hfrs A2 ASO). reflexivity. }
    destruct (env_parts _ _ (env_openBlock p K)) as (_ & E2 & _). destruct (env_parts _ _ (env_obPre p K)) as (_ & E2' & _).
    rewrite E2, F1. rewrite E2' in A4. apply en_frs; [exact A4|exact A2|exact ASO|exact HKC|].
    apply en_newBlock'; [exact N1|exact N3|intros; contradiction].
  - intros Hp. apply H2. rewrite F1 in Hp. revert Hp. apply ppT_updAt_cut; [eauto|].
    intros x _. split; [apply bend_set_bkids|]. split; [apply bkind_set_bkids|]. intros z Hz. rewrite lastBlock_appendB in Hz. inversion Hz; subst z.
    right. split; [exact N2|reflexivity].
Qed.

(* the fresh block is the container: no paragraph is reachable when it is not one itself *)
Lemma noPara_fresh q p Y : ccP p -> frs q p Y -> ccP q -> bkind Y <> ParagraphKind -> bkids Y = [] -> ~ ppT (root p).
Proof.
  intros Hp (F1 & F2 & F3) (_ & _ & (x0 & Hx0)) Hk Hn.
  assert (HY : getAt (cdepth p) (root p) = Some Y).
  { rewrite F1, F2. replace (S (cdepth q)) with (cdepth q + 1)%nat by lia. rewrite (getAt_updAt_ge _ _ 1 _ x0 Hx0).
    rewrite getAt_S, lastBlock_appendB. reflexivity. }
  apply noPara; [exact Hp| |].
  - unfold containerKind, contBlock. rewrite HY. exact Hk.
  - intros c Hc. exfalso. rewrite getAt_S_last, HY in Hc. unfold lastBlock in Hc. rewrite Hn in Hc. discriminate.
Qed.

(* ---- endBlock ---- *)
Lemma EP_endBlock B p : EP B p -> TP B p -> ~ ppT (root p) -> bdy B (lineStart p + li p) -> EP B (endBlock p) /\ (ppT (root (endBlock p)) -> ppT (root p)).
Proof.
  intros HE Htp Hnp Hbd. unfold endBlock. destruct (_ || _).
  { split; [|tauto]. apply EP_panic, HE. }
  cbv zeta. pose proof (EP_opened B p HE) as H0. set (p0 := if state p =? stOpening then withState p stOpenMatched else p) in *.
  assert (Er : root p0 = root p) by (unfold p0; destruct (_ =? _); reflexivity).
  assert (Htp0 : TP B p0) by (apply (TP_back B p); [apply env_opened|rewrite Er; tauto|exact Htp]).
  destruct (cdepth p0) as [|d] eqn:Ed.
  { split; [|cbn [root panic setLP]; rewrite Er; tauto]. apply EP_panic, H0. }
  pose proof H0 as (_ & (C0 & C1) & _).
  assert (Hbd0 : bdy B (lineStart p0 + li p0)) by (unfold p0; destruct (state p =? stOpening); exact Hbd).
  destruct (EP_closeAt B p0 d (lineStart p0 + li p0) d H0 Htp0 ltac:(rewrite Er; intros X; contradiction) ltac:(lia) ltac:(lia) ltac:(lia) Hbd0) as [H1 H2].
  split; [exact H1|]. intros Hp. rewrite <- Er. apply H2, Hp.
Qed.

(* the container after endBlock has a closed last child *)
Lemma endBlock_cont B p : EP B p -> TP B p -> ~ ppT (root p) -> bdy B (lineStart p + li p) -> nd p -> (1 <= cdepth p)%nat ->
  containerKind (endBlock p) <> ParagraphKind /\ ~ ppT (root (endBlock p)).
Proof.
  intros HE Htp Hnp Hbd Hn Hd. destruct (EP_endBlock B p HE Htp Hnp Hbd) as [H1 _]. pose proof H1 as (_ & _ & Hcc & _).
  revert Hcc. unfold endBlock.
  replace ((state p =? stDescending) || (state p =? stDescendTerminated)) with false by (destruct Hn as [-> |[-> | ->]]; reflexivity).
  cbv zeta. pose proof (EP_opened B p HE) as H0. set (p0 := if state p =? stOpening then withState p stOpenMatched else p) in *.
  assert (Ec : cdepth p0 = cdepth p) by (unfold p0; destruct (_ =? _); reflexivity).
  destruct (cdepth p0) as [|d] eqn:Ed; [lia|]. intros Hcc.
  pose proof H0 as (A & (C0 & C1) & A2 & (A3 & ASO) & A4). pose proof A2 as (_ & Hc0 & (x1 & Hx1)). unfold wf in Hx1. rewrite Ed in Hx1.
  destruct (getAt_prefix d (root p0) x1 Hx1) as (x0 & Hx0).
  assert (Hl : lastBlock x0 = Some x1) by (rewrite getAt_S_last, Hx0 in Hx1; exact Hx1).
  assert (Hk : containerKind (withCont (closeLastChildAt p0 d (lineStart p0 + li p0)) (Some d)) <> ParagraphKind).
  { unfold containerKind, contBlock. change (cdepth (withCont (closeLastChildAt p0 d (lineStart p0 + li p0)) (Some d))) with d.
    change (root (withCont (closeLastChildAt p0 d (lineStart p0 + li p0)) (Some d))) with (root (closeLastChildAt p0 d (lineStart p0 + li p0))).
    rewrite root_closeAt, getAt_updAt_same, Hx0. cbn [option_map]. rewrite closeF_kind.
    intros E. pose proof (cc_spine d (root p0) x0 x1 Hc0 Hx0 Hx1) as Hcan. rewrite E, canContain_para in Hcan. discriminate. }
  split; [exact Hk|].
  apply noPara; [exact Hcc|exact Hk|].
  intros c Hc. left. change (cdepth (withCont (closeLastChildAt p0 d (lineStart p0 + li p0)) (Some d))) with d in Hc.
  change (root (withCont (closeLastChildAt p0 d (lineStart p0 + li p0)) (Some d))) with (root (closeLastChildAt p0 d (lineStart p0 + li p0))) in Hc.
  rewrite root_closeAt, getAt_S_updAt, Hx0 in Hc. unfold closeF in Hc. rewrite Hl in Hc.
  pose proof (lastBlock_set_lastBlocks x0 _ c (closeBlock_nonnil (source p0) _ (bheight (root p0)) x1) Hc) as Hin.
  destruct (bheight_S (root p0)) as (h & Eh).
  assert (Hcl : closedL (closeBlock (bheight (root p0)) (source p0) x1 (lineStart p0 + li p0))).
  { apply (closeBlock_closedL B (lineStart p0)); [lia|rewrite Eh; lia| |].
    - eapply cc_getAt; eassumption.
    - eapply en_getAt; eassumption. }
  exact (allP_In _ _ _ Hcl Hin).
Qed.

(* ---- updates of the container that keep span, kind, children ---- *)
Lemma spineOpen_updCont p f : (forall x, bend (f x) = bend x) -> spineOpen p -> spineOpen (updCont p f).
Proof.
  intros Hf Ho j y Hj E. change (cdepth (updCont p f)) with (cdepth p) in Hj. change (root (updCont p f)) with (updAt (cdepth p) f (root p)) in E.
  destruct (getAt_updAt_low f Hf (cdepth p) j (root p) y Hj E) as (x & A & B & _). rewrite B. apply (Ho j x); [lia|exact A].
Qed.

Lemma EP_updCont B p f : EP B p -> keeps f -> (forall M x, en B M x -> en B M (f x)) ->
  EP B (updCont p f) /\ (ppT (root (updCont p f)) -> ppT (root p)).
Proof.
  intros HE Hk Hf. pose proof HE as (A & A1 & A2 & (A3 & ASO) & A4). pose proof A2 as (_ & _ & Hw).
  split.
  - apply (EP_tree B p); [reflexivity|repeat split| | | |exact HE].
    3:{ rewrite root_updCont. apply en_updAt; [exact A4|]. intros x _ Hx. split; [apply Hf, Hx|]. destruct (Hk x) as (_ & K2 & _). rewrite K2. tauto. }
    + apply ccP_updCont; [exact A2|]. intros x _ Hx. destruct (Hk x) as (K1 & K2 & K3 & K4). split; [|exact K4].
      rewrite (cc_ext (f x) x K3 K4). exact Hx.
    + apply spineOpen_updCont; [intros x; apply (Hk x)|exact ASO].
  - rewrite root_updCont. apply ppT_updAt_keep; [exact Hw|]. intros x _. destruct (Hk x) as (K1 & K2 & K3 & K4).
    split; [exact K2|]. split; [exact K3|rewrite K4; tauto].
Qed.

Lemma en_keep_field B f : (forall x, bkind (f x) = bkind x /\ bstart (f x) = bstart x /\ bend (f x) = bend x /\ bik (f x) = bik x /\ bkids (f x) = bkids x) ->
  forall M x, en B M x -> en B M (f x).
Proof. intros Hf M x. rewrite !en_eq. destruct (Hf x) as (E1 & E2 & E3 & E4 & E5). rewrite E1, E2, E3, E4, E5. tauto. Qed.

Lemma EP_set_bn B p v : EP B p -> EP B (updCont p (fun b => set_bn b v)) /\ (ppT (root (updCont p (fun b => set_bn b v))) -> ppT (root p)).
Proof. intros H. apply EP_updCont; [exact H|apply keeps_bn|]. apply en_keep_field. intros x. destruct x; repeat split. Qed.
Lemma EP_set_bchar B p v : EP B p -> EP B (updCont p (fun b => set_bchar b v)) /\ (ppT (root (updCont p (fun b => set_bchar b v))) -> ppT (root p)).
Proof. intros H. apply EP_updCont; [exact H|apply keeps_bchar|]. apply en_keep_field. intros x. destruct x; repeat split. Qed.
Lemma EP_set_bindent B p v : EP B p -> EP B (updCont p (fun b => set_bindent b v)) /\ (ppT (root (updCont p (fun b => set_bindent b v))) -> ppT (root p)).
Proof. intros H. apply EP_updCont; [exact H|apply keeps_bindent|]. apply en_keep_field. intros x. destruct x; repeat split. Qed.
Lemma EP_set_fence B p fc fnn : EP B p -> EP B (updCont p (fun b => set_bn (set_bchar b fc) fnn)) /\ (ppT (root (updCont p (fun b => set_bn (set_bchar b fc) fnn))) -> ppT (root p)).
Proof. intros H. apply EP_updCont; [exact H|apply keeps_fence|]. apply en_keep_field. intros x. destruct x; repeat split. Qed.

(* adding entries to a container whose kind carries no condition *)
Lemma EP_addik_free B p g K : EP B p -> ckind p K -> freeK K -> (forall b, noU (bik b) -> noU (g b)) ->
  (forall b, getAt (cdepth p) (root p) = Some b -> xk B K (bstart b) (bik b) -> xk B K (bstart b) (g b)) ->
  EP B (updCont p (fun b => set_bik b (g b))) /\ (ppT (root (updCont p (fun b => set_bik b (g b)))) -> ppT (root p)).
Proof.
  intros HE Hck HK Hg Hgx. pose proof HE as (A & A1 & A2 & (A3 & ASO) & A4). pose proof A2 as (_ & _ & Hw).
  split.
  - apply (EP_tree B p); [reflexivity|repeat split|apply ccP_updCont_ik, A2| | |exact HE].
    { apply spineOpen_updCont; [intros x; destruct x; reflexivity|exact ASO]. }
    rewrite root_updCont. apply en_updAt; [exact A4|]. intros x Hx Hen. split; [|destruct x; cbn; tauto]. apply en_set_bik_free; [rewrite (Hck x Hx); exact HK| | |exact Hen].
    + intros NL. apply Hg. apply (en_noU B _ x Hen); [rewrite (Hck x Hx); exact HK|exact NL].
    + rewrite (Hck x Hx). apply Hgx; [exact Hx|]. rewrite <- (Hck x Hx). apply (en_xk B _ x Hen).
  - rewrite root_updCont. apply ppT_updAt_keep; [exact Hw|]. intros x _. destruct x; repeat split; tauto.
Qed.
