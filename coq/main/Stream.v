From Coq Require Import List ZArith Lia Bool.
Import ListNotations.
Require Import Base Tree Rdr Link Collect Html Recog LP Rules Starts Driver Inl3e.
Open Scope Z_scope.

(* The streaming entry point (NewBlockParser / NextBlock with an io.Reader) on the concrete block machine of
   Driver.v: readline with chunked reads, one byte of look-ahead after CR, incremental NUL padding and the
   latched error (parse.go:385-447), under a scripted reader.  Definitions only; run by the driver against
   the implementation under the same schedule (C08, C01). *)

(* error codes: 0 = nil, 1 = io.EOF, 2 = injected E1, 3 = injected E2, 4 = "block too large" *)
Record srd := { s_rem : bytes; s_caps : list Z; s_eager : bool; s_final : Z; s_log : list (Z * Z * Z) }.

Definition sread (r : srd) (cap : Z) : bytes * Z * srd :=
  let capN := match s_caps r with c :: _ => Z.min c cap | [] => cap end in
  let n := Z.max 0 (Z.min capN (len (s_rem r))) in
  let chunk := upto (s_rem r) n in
  let rem' := from_ (s_rem r) n in
  let err := if (len rem' =? 0) && (s_eager r || (n =? 0)) then s_final r else 0 in
  (chunk, err, {| s_rem := rem'; s_caps := tl (s_caps r); s_eager := s_eager r; s_final := s_final r;
                  s_log := s_log r ++ [(cap, n, err)] |}).

Definition chunkSize := 8192.
Definition maxBlockSize := 1048576.

Record sst := { sbp : bpst; serr : Z; srdr : srd }.

Definition decideS (b : bytes) (i : Z) (haserr : bool) : option Z :=
  let e := findEol (from_ b i) i in
  if 0 <=? e then
    if at_ b e =? 10 then Some (e + 1)
    else if e + 1 <? len b then Some (if at_ b (e + 1) =? 10 then e + 2 else e + 1)
    else if haserr then Some (len b) else None
  else if haserr then Some (len b) else None.

Definition withBi (s : bpst) (i : Z) : bpst :=
  {| buf := buf s; bi := i; boff := boff s; bline := bline s; pending := pending s |}.
Definition withBuf (s : bpst) (b : bytes) : bpst :=
  {| buf := b; bi := bi s; boff := boff s; bline := bline s; pending := pending s |}.

(* readline: returns the new state and "ok" (the line is non-empty) *)
Fixpoint readlineS (fuel : nat) (s : sst) : sst * bool :=
  match fuel with
  | O => (s, false)
  | S f =>
    let b := buf (sbp s) in
    let i := bi (sbp s) in
    match decideS b i (negb (serr s =? 0)) with
    | Some e => ({| sbp := withBi (sbp s) e; serr := serr s; srdr := srdr s |}, i <? e)
    | None =>
      let newSize := if maxBlockSize <? len b + chunkSize * 3 then len b + (maxBlockSize - len b) / 3 else len b + chunkSize in
      if newSize <=? len b then
        ({| sbp := withBuf (sbp s) (upto b i); serr := 4; srdr := srdr s |}, false)
      else
        let '(chunk, e, r') := sread (srdr s) (newSize - len b) in
        readlineS f {| sbp := withBuf (sbp s) (b ++ pad chunk); serr := e; srdr := r' |}
    end
  end.

Inductive nbS := SBlock (r : rootB) (s : sst) | SEnd (err : Z) (s : sst) | SStuck | SPanic (site : Z).

Definition rfuel (s : sst) : nat := (3 + length (s_rem (srdr s)) + length (s_caps (srdr s)))%nat.

Fixpoint lineLoopS (fuel : nat) (st : Z) (children : list block) (lineStart0 : Z) (s : sst) : nbS :=
  match fuel with
  | O => SStuck
  | S f =>
    let '(children', st', pn) := processLine st children lineStart0 (upto (buf (sbp s)) (bi (sbp s))) in
    if negb (pn =? 0) then SPanic pn else
    match makeRoot children' (sbp s) with
    | Some (r, b') => SBlock r {| sbp := b'; serr := serr s; srdr := srdr s |}
    | None =>
      let ls := bi (sbp s) in
      let '(s', _) := readlineS (rfuel s) s in
      lineLoopS f st' children' ls s'
    end
  end.

Fixpoint skipLoopS (fuel : nat) (s : sst) : nbS :=
  match fuel with
  | O => SStuck
  | S f =>
    let '(s1, ok) := readlineS (rfuel s) s in
    if negb ok then SEnd (serr s1) s1 else
    let b := sbp s1 in
    let ln := upto (buf b) (bi b) in
    if isBlankLine ln then
      skipLoopS f {| sbp := {| buf := from_ (buf b) (bi b); bi := 0; boff := boff b + unpadded ln; bline := bline b + 1; pending := pending b |};
                     serr := serr s1; srdr := srdr s1 |}
    else lineLoopS f 0 [] 0 s1
  end.

Definition nextBlockS (fuel : nat) (s : sst) : nbS :=
  let b := sbp s in
  match makeRoot (pending b) b with
  | Some (r, b') => SBlock r {| sbp := b'; serr := serr s; srdr := srdr s |}
  | None =>
    match pending b with
    | _ :: _ =>
      let ls := bi b in
      let '(s', _) := readlineS (rfuel s) s in
      lineLoopS fuel 0 (pending b) ls s'
    | [] =>
      let pre := upto (buf b) (bi b) in
      skipLoopS fuel {| sbp := {| buf := from_ (buf b) (bi b); bi := 0; boff := boff b + unpadded pre;
                                  bline := bline b + lineCount pre; pending := [] |};
                        serr := serr s; srdr := srdr s |}
    end
  end.

Definition sfuel (s : sst) : nat := (4 + length (buf (sbp s)) + 3 * length (s_rem (srdr s)))%nat.

Fixpoint allBlocksS (fuel : nat) (s : sst) (acc : list rootB) : list rootB * Z * sst * Z :=
  match fuel with
  | O => (acc, 0, s, -1)
  | S f =>
    match nextBlockS (sfuel s) s with
    | SBlock r s' => allBlocksS f s' (acc ++ [r])
    | SEnd e s' => (acc, e, s', 0)
    | SStuck => (acc, 0, s, -2)
    | SPanic site => (acc, 0, s, site)
    end
  end.

Definition extraCall (s : sst) : Z * sst :=
  match nextBlockS (sfuel s) s with
  | SEnd e s' => (e, s')
  | SBlock _ s' => (-1, s')
  | _ => (-2, s)
  end.

(* whole streaming run under a script: blocks (with Extract + Rewrite as in parseFull), the error that ended the
   run, the results of three further calls, the Read-call log (capacity, bytes returned, error), a code *)
Definition parseStream (caps : list Z) (eager : bool) (final : Z) (delivered : bytes)
  : list rootB * Z * list Z * list (Z * Z * Z) * Z :=
  let s0 := {| sbp := {| buf := []; bi := 0; boff := 0; bline := 1; pending := [] |}; serr := 0;
               srdr := {| s_rem := delivered; s_caps := caps; s_eager := eager; s_final := final; s_log := [] |} |} in
  let '(roots, err, s1, code) := allBlocksS (S (S (3 * length delivered))) s0 [] in
  let '(e1, s2) := extraCall s1 in
  let '(e2, s3) := extraCall s2 in
  let '(e3, s4) := extraCall s3 in
  let refs := fold_left (fun a r => extractB (bheight (rb_blk r)) (rb_blk r) a) roots [] in
  (map (fun r => {| rb_line := rb_line r; rb_start := rb_start r; rb_end := rb_end r; rb_src := rb_src r;
                    rb_blk := rewriteB (bheight (rb_blk r)) (rb_src r) refs (rb_blk r) |}) roots,
   err, [e1; e2; e3], s_log (srdr s4), code).
