(* IRender1.v -- T71 (renderer, list item): the two facts about the position map sigmaK K D into item mk N D that IRender2 uses, and
   the block map of the statement (IFullDefs.iB3) as an instance of IRender2.gB3. *)
From Coq Require Import List ZArith Lia Bool.
Import ListNotations.
Require Import Base Tree LP Driver QuoteSimDefs QuoteSimLines QuoteSimSpec QCutsDef QCuts QIRdrBase QInlDefs ItemSimDefs ItemSimLines ItemSimDrv1 IFullDefs
  RenderWalkProof QRender1 IRender2.
Open Scope Z_scope.

Section Item.
  Variables (mk : bytes) (N K : Z) (D : bytes).
  Hypothesis K_eq : K = len mk + N.
  Hypothesis N_pos : 1 <= N.
  Hypothesis D_first : exists c r, D = c :: r /\ c <> 10.
  Notation Q := (item mk N D).
  Notation sg := (sigmaK K D).

  Lemma K_pos : 1 <= K. Proof. pose proof (len_nn mk). lia. Qed.
  Lemma K_eq0 : K + 0 = len mk + N. Proof. lia. Qed.

  Lemma sgK_line a b : 0 <= a -> b <= len D -> noLFin D a (b - 1) -> forall x, a <= x < b -> sg x = sg a + (x - a).
  Proof.
    intros Ha Hb Hno x Hx. assert (G : forall n : nat, a + Z.of_nat n < b -> sg (a + Z.of_nat n) = sg a + Z.of_nat n).
    { induction n as [|n IH]; intros Hn; [rewrite Z.add_0_r; lia|].
      replace (a + Z.of_nat (S n)) with (a + Z.of_nat n + 1) by lia. rewrite sigmaK_succ by lia. rewrite IH by lia.
      destruct (Z.eqb_spec (at_ D (a + Z.of_nat n)) 10) as [E|_]; [exfalso; apply (Hno (a + Z.of_nat n)); [lia|exact E]|lia]. }
    specialize (G (Z.to_nat (x - a))). replace (a + Z.of_nat (Z.to_nat (x - a))) with x in G by lia. rewrite G by lia. lia.
  Qed.
  Lemma sgK_lt_len x : 0 <= x < len D -> sg x < len Q.
  Proof.
    intros Hx. assert (Hne : D <> []) by (intros E; rewrite E in Hx; unfold len in Hx; cbn in Hx; lia).
    rewrite (len_item_epsBK mk N K K_eq0 ltac:(lia) D Hne D_first). unfold epsBK. destruct (Z.leb_spec (len D) 0); [lia|].
    destruct (Z.eq_dec x (len D - 1)) as [->|Ne]; [lia|]. pose proof (sigmaK_mono K D K_pos x (len D - 1) ltac:(lia) ltac:(lia)). lia.
  Qed.
  Lemma sub_sgK a b : 0 <= a -> a < b -> b <= len D -> noLFin D a (b - 1) -> sub Q (sg a) (sg (b - 1) + 1) = sub D a b.
  Proof.
    intros Ha Hab Hb Hno. pose proof (sgK_line a b Ha Hb Hno) as T.
    rewrite (T (b - 1)) by lia. replace (sg a + (b - 1 - a) + 1) with (sg a + (b - a)) by lia.
    replace (sub D a b) with (sub D a (a + (b - a))) by (f_equal; lia).
    apply sub_ext2; try lia.
    - apply (sigmaK_nn K D K_pos), Ha.
    - pose proof (sgK_lt_len (b - 1) ltac:(lia)) as L. rewrite (T (b - 1)) in L by lia. lia.
    - intros i Hi. replace (sg a + i) with (sg (a + i)) by (rewrite (T (a + i)) by lia; lia).
      apply (sigmaK_at mk N K D K_eq0 ltac:(lia) K_pos). lia.
  Qed.

  (* the block map of the statement *)
  Lemma iB3_gB3 : forall n b, (bheight b <= n)%nat -> iB3 K D b = gB3 D sg b.
  Proof.
    induction n as [|n IH]; intros b Hb; [destruct b; cbn [bheight] in Hb; lia|].
    destruct b as [k s e bk ik a nn ch l lb]. cbn [iB3 gB3]. f_equal.
    assert (Hk : forall x, In x bk -> (bheight x <= n)%nat).
    { intros x Hx. pose proof (bheight_kid (Blk k s e bk ik a nn ch l lb) x Hx). lia. }
    apply map_ext_in. intros x Hx. apply IH, Hk, Hx.
  Qed.
End Item.
