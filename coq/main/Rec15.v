From Coq Require Import List ZArith Lia Bool.
Import ListNotations.
Require Import Base Recog Render.
Open Scope Z_scope.

(* ---------- classifiers against the spec's literal definitions, all 256 bytes ---------- *)
Definition allBytes : list Z := map Z.of_nat (seq 0 256).
Definition specPunct : list Z :=
  [33;34;35;36;37;38;39;40;41;42;43;44;45;46;47;58;59;60;61;62;63;64;91;92;93;94;95;96;123;124;125;126].
Definition inList (l : list Z) (c : Z) := existsb (Z.eqb c) l.

Theorem punct_spec : forallb (fun c => Bool.eqb (isASCIIPunctuation c) (inList specPunct c)) allBytes = true.
Proof. vm_compute. reflexivity. Qed.
Theorem hex_spec : forallb (fun c => Bool.eqb (isHex c)
  (inList [48;49;50;51;52;53;54;55;56;57;65;66;67;68;69;70;97;98;99;100;101;102] c)) allBytes = true.
Proof. vm_compute. reflexivity. Qed.
Theorem control_spec : forallb (fun c => Bool.eqb (isASCIIControl c) ((c <=? 31) || (c =? 127))) allBytes = true.
Proof. vm_compute. reflexivity. Qed.
Theorem ws_spec : forallb (fun c => Bool.eqb (isSpaceTabOrLineEnding c) (inList [32;9;10;13] c)) allBytes = true.
Proof. vm_compute. reflexivity. Qed.
Theorem letter_spec : forallb (fun c => Bool.eqb (isASCIILetter c) (((65 <=? c) && (c <=? 90)) || ((97 <=? c) && (c <=? 122)))) allBytes = true.
Proof. vm_compute. reflexivity. Qed.
(* lifted to the quantified form *)
Lemma in_allBytes c : 0 <= c < 256 -> In c allBytes.
Proof. intros H. unfold allBytes. apply in_map_iff. exists (Z.to_nat c). split; [lia|]. apply in_seq. lia. Qed.
Corollary punct_all c : 0 <= c < 256 -> isASCIIPunctuation c = inList specPunct c.
Proof. intros H. pose proof punct_spec as P. rewrite forallb_forall in P. apply eqb_prop. apply P, in_allBytes, H. Qed.
Corollary hex_all c : 0 <= c < 256 -> isHex c = inList [48;49;50;51;52;53;54;55;56;57;65;66;67;68;69;70;97;98;99;100;101;102] c.
Proof. intros H. pose proof hex_spec as P. rewrite forallb_forall in P. apply eqb_prop. apply P, in_allBytes, H. Qed.

(* ---------- line endings ---------- *)
Definition is_eolb (b : Z) := (b =? 13) || (b =? 10).
Definition no_eol (l : bytes) : Prop := Forall (fun b => is_eolb b = false) l.
Definition is_eol_seq (eol : bytes) : Prop := eol = [] \/ eol = [10] \/ eol = [13] \/ eol = [13; 10].
Lemma eol_blank eol : is_eol_seq eol -> isBlankLine eol = true.
Proof. intros [->|[->|[->| ->]]]; reflexivity. Qed.
Lemma isBlankLine_app a b : isBlankLine (a ++ b) = isBlankLine a && isBlankLine b.
Proof. unfold isBlankLine. apply forallb_app. Qed.

(* ---------- setext heading underline (spec 4.3): c^n followed by spaces/tabs, c is = (level 1) or - (level 2) ---------- *)
Definition setext_spec (body : bytes) : Z :=
  match body with
  | [] => 0
  | c :: r =>
    if negb ((c =? 61) || (c =? 45)) then 0 else
    let run := countWhile (fun x => x =? c) r in
    if forallb isSpTab (from_ r run) then (if c =? 61 then 1 else 2) else 0
  end.

Lemma forallb_ext_in' {A} (p q : A -> bool) l : (forall x, In x l -> p x = q x) -> forallb p l = forallb q l.
Proof. induction l as [|x l IH]; intros H; [reflexivity|]. cbn. rewrite H by (left; reflexivity). f_equal. apply IH. intros y Hy. apply H. right; assumption. Qed.

Lemma setext_loop_spec c0 level : forall l eol, no_eol l -> is_eol_seq eol ->
  setext_loop (l ++ eol) c0 level =
  if forallb isSpTab (from_ l (countWhile (fun x => x =? c0) l)) then level else 0.
Proof.
  induction l as [|c r IH]; intros eol Hne He.
  - cbn [app countWhile]. unfold from_. cbn [Z.to_nat skipn forallb].
    destruct He as [->|[->|[->| ->]]]; cbn [setext_loop].
    + reflexivity.
    + destruct (10 =? c0); reflexivity.
    + destruct (13 =? c0); reflexivity.
    + destruct (13 =? c0); [destruct (10 =? c0); reflexivity|reflexivity].
  - inversion Hne as [|? ? Hc Hr]; subst. cbn [app setext_loop countWhile].
    destruct (c =? c0) eqn:E.
    + rewrite IH by assumption. unfold from_.
      replace (Z.to_nat (1 + countWhile (fun x => x =? c0) r)) with (S (Z.to_nat (countWhile (fun x => x =? c0) r))).
      * reflexivity.
      * assert (0 <= countWhile (fun x => x =? c0) r).
        { clear. induction r as [|y r IHr]; cbn [countWhile]; [lia|]. destruct (y =? c0); lia. }
        lia.
    + unfold from_. cbn [Z.to_nat skipn].
      change (c :: r ++ eol) with ((c :: r) ++ eol). rewrite isBlankLine_app, (eol_blank eol He), andb_true_r.
      unfold isBlankLine. rewrite (forallb_ext_in' isSpaceTabOrLineEnding isSpTab (c :: r)); [reflexivity|].
      intros x Hx. assert (is_eolb x = false).
      { unfold no_eol in Hne. rewrite Forall_forall in Hne. apply Hne. exact Hx. }
      unfold is_eolb in H. unfold isSpaceTabOrLineEnding, isSpTab.
      destruct (x =? 13), (x =? 10); try discriminate. rewrite !orb_false_r. reflexivity.
Qed.

Theorem parseSetext_correct body eol : no_eol body -> is_eol_seq eol ->
  parseSetextHeadingUnderline (body ++ eol) = setext_spec body.
Proof.
  intros Hne He. destruct body as [|c r].
  - cbn [app setext_spec]. destruct He as [->|[->|[->| ->]]]; reflexivity.
  - inversion Hne as [|? ? Hc Hr]; subst. cbn [app parseSetextHeadingUnderline setext_spec].
    destruct (c =? 61) eqn:E1.
    + cbn [orb negb]. apply setext_loop_spec; assumption.
    + destruct (c =? 45) eqn:E2; cbn [orb negb]; [|reflexivity]. apply setext_loop_spec; assumption.
Qed.

(* ---------- list marker (spec 5.2): a bullet - + *, or 1-9 digits then . or ), followed by space, tab or end of line ---------- *)
Definition decimalValue (ds : bytes) : Z := fold_left (fun n c => n * 10 + (c - 48)) ds 0.
Definition listMarker_spec (l : bytes) : Z * Z * Z :=
  match l with
  | [] => (0, 0, -1)
  | c :: r =>
    if (c =? 45) || (c =? 43) || (c =? 42) then (if hasTabOrSpacePrefixOrEOL r then (c, 0, 1) else (0, 0, -1))
    else
      let nd := countWhile isASCIIDigit l in
      if (1 <=? nd) && (nd <=? 9) then
        let d := at_ l nd in
        if ((d =? 46) || (d =? 41)) && (nd <? len l) && hasTabOrSpacePrefixOrEOL (from_ l (nd + 1))
        then (d, decimalValue (upto l nd), nd + 1) else (0, 0, -1)
      else (0, 0, -1)
  end.
