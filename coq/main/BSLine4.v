From Coq Require Import List ZArith Lia Bool.
Import ListNotations.
Require Import Base Tree Rdr Link Collect Html Recog LP Rules Starts Driver L2Kind L2CC BSDef BSRdr BSTree BSOcp BSOrph BSClose BSLine1 BSLine2 BSLine3.
Open Scope Z_scope.

Definition cleanR (p : lp) : Prop := sp (lineStart p) (root p).
Definition W (p : lp) : Prop := 0 <= lineStart p /\ sp (lineStart p + len (line p)) (root p).

Lemma BPb_W M p : BPb M p -> M <= lineStart p + len (line p) -> W p.
Proof. intros ((A & _) & B & _) H. split; [exact A|eapply sp_mono; eassumption]. Qed.
Lemma BP_W p : BP p -> W p.
Proof. intros H. eapply BPb_W; [exact H|]. destruct H as ((_ & A) & _). unfold Mc. lia. Qed.

Lemma clean_C1 p : cleanR p -> C1 p.
Proof. intros H c Ec _. eapply sp_getAt; eassumption. Qed.
Lemma clean_LI p : cleanR p -> LI p.
Proof. intros H x Ex. left. eapply sp_getAt; eassumption. Qed.

Lemma BP_withCont_le p d : BP p -> (d <= cdepth p)%nat -> BP (withCont p (Some d)).
Proof.
  intros (A & B & C & D) Hd. split; [exact A|split; [exact B|split]].
  - intros j x Hj Ex. apply (C j x); [|exact Ex]. change (cdepth (withCont p (Some d))) with d in Hj. lia.
  - apply ccP_withCont; [exact D|apply wf_le; assumption].
Qed.

(* ---- match rules ---- *)
Lemma matchRule_cases q :
  cstep q (snd (matchRule q)) \/
  (containerKind q = HTMLBlockKind /\ snd (matchRule q) = consumeLine (collectInline q RawHTMLKind (len (bytesAfterIndent q)))).
Proof.
  unfold matchRule. cbv zeta.
  destruct (_ || _); [left; apply cstep_refl|].
  destruct (_ =? ListItemKind).
  { left. unfold matchListItem. destruct (isRestBlank q); [destruct (negb _); [apply cstep_refl|apply cstep_consumeIndent]|].
    destruct (_ <=? _); [apply cstep_consumeIndent|apply cstep_refl]. }
  destruct (_ =? BlockQuoteKind).
  { left. unfold matchBlockQuote. cbv zeta. destruct (_ <=? _); [apply cstep_refl|]. destruct (negb _); [apply cstep_refl|]. cbn [snd].
    unfold eatQuoteMarker. cbv zeta.
    assert (H : cstep q (advance (consumeIndent q (indent q)) 1)) by (eapply cstep_trans; [apply cstep_consumeIndent|apply cstep_advance]).
    destruct (0 <? _); [eapply cstep_trans; [exact H|apply cstep_consumeIndent]|exact H]. }
  destruct (_ =? FencedCodeBlockKind).
  { left. unfold matchFenced. cbv zeta. destruct (if _ <? _ then _ else false); cbn [snd]; [apply cstep_consumeLine|apply cstep_consumeIndent]. }
  destruct (_ =? IndentedCodeBlockKind).
  { left. unfold matchIndented. cbv zeta. destruct (_ <? _); [destruct (negb _)|]; cbn [snd]; try apply cstep_consumeIndent; apply cstep_refl. }
  destruct (Z.eqb_spec (containerKind q) HTMLBlockKind) as [E|E]; [|left; apply cstep_refl].
  unfold matchHTML. destruct (htmlEnd _ _); [|left; apply cstep_refl]. destruct (isRestBlank _); [left; apply cstep_refl|].
  right. split; [exact E|reflexivity].
Qed.

Lemma OPx_matchRule q : OPx q -> OPx (snd (matchRule q)).
Proof.
  intros H. destruct (matchRule_cases q) as [Hc|[Ek Eq]]; [eapply OPx_cstep; eassumption|]. rewrite Eq.
  eapply OPx_cstep; [apply cstep_consumeLine|]. eapply (OPx_collectInline q _ _ HTMLBlockKind); [exact H| |discriminate].
  rewrite <- Ek. apply ckind_self.
Qed.
Lemma state_consumeLine_desc p : state p = stDescending -> state (consumeLine p) = stDescendTerminated.
Proof.
  intros E. unfold consumeLine. cbv zeta. pose proof (sstep_advance p (len (line p) - li p)) as [Hs|[Hs _]]; [|rewrite E in Hs; discriminate].
  rewrite Hs, E. reflexivity.
Qed.
Lemma matchRule_term q : state q = stDescending ->
  cstep q (snd (matchRule q)) \/ state (snd (matchRule q)) = stDescendTerminated.
Proof.
  intros E. destruct (matchRule_cases q) as [Hc|[_ Eq]]; [left; exact Hc|right]. rewrite Eq. apply state_consumeLine_desc.
  destruct (sstep_collectInline q RawHTMLKind (len (bytesAfterIndent q))) as [Hs|[Hs _]]; [congruence|rewrite E in Hs; discriminate].
Qed.

(* ---- descendOpenBlocks ---- *)
Lemma descend_ok : forall fuel p d, BP p -> cleanR p -> cdepth p = d ->
  (state (snd (descend_loop fuel p d)) = stDescendTerminated /\ W (snd (descend_loop fuel p d))) \/
  (BP (snd (descend_loop fuel p d)) /\ cleanR (snd (descend_loop fuel p d))).
Proof.
  induction fuel as [|f IH]; intros p d HB Hcl Ed.
  { right. cbn [descend_loop snd]. split; [apply BP_withCont_le; [exact HB|lia]|exact Hcl]. }
  assert (Hexit : BP (withCont p (Some d)) /\ cleanR (withCont p (Some d))) by (split; [apply BP_withCont_le; [exact HB|lia]|exact Hcl]).
  cbn [descend_loop]. cbv zeta.
  destruct (getAt (S d) (root p)) as [c|] eqn:Ec; [|right; exact Hexit].
  destruct (isOpen c) eqn:Eo; cbn [negb]; [|right; exact Hexit].
  destruct (negb (hasMatch (bkind c))); [right; exact Hexit|].
  unfold isOpen in Eo. apply Z.ltb_lt in Eo.
  set (q := withState (withCont p (Some (S d))) stDescending).
  assert (HBq : BP q).
  { destruct HB as (A & B & C & D). split; [exact A|split; [exact B|split]].
    - intros j x Hj Ex. change (cdepth q) with (S d) in Hj. destruct (Nat.eq_dec j (S d)) as [->|N].
      + change (root q) with (root p) in Ex. rewrite Ec in Ex. inversion Ex; subst x. exact Eo.
      + apply (C j x); [lia|exact Ex].
    - apply (ccP_withCont p (S d) D). eauto. }
  assert (Hq : OPx q) by (split; [exact HBq|apply clean_C1; exact Hcl]).
  pose proof (OPx_matchRule q Hq) as H2. pose proof (cdepth_matchRule q) as Ecd. pose proof (matchRule_term q eq_refl) as Ht.
  destruct (matchRule q) as [ok p2]. cbn [snd] in H2, Ecd, Ht. change (cdepth q) with (S d) in Ecd.
  destruct (Z.eqb_spec (state p2) stDescendTerminated) as [Et|Et].
  { left. cbn [snd]. split; [exact Et|]. destruct H2 as [HB2 _]. pose proof HB2 as (A2 & B2 & C2 & D2).
    apply (BPb_W (Mc p2)); [|cbn; unfold Mc; destruct A2; lia].
    apply BPb_closeAt; [exact HB2|unfold Mc; lia|lia|lia|].
    intros x c' Ex El _. eapply sp_getAt; [exact B2|]. rewrite getAt_S_last, Ex. exact El. }
  destruct Ht as [Hc|Ht]; [|contradiction].
  assert (Hcl2 : cleanR p2).
  { destruct Hc as ((E1 & _) & (E2 & _) & _). unfold cleanR. rewrite E1, E2. exact Hcl. }
  destruct (negb ok).
  { right. cbn [snd]. split; [apply BP_withCont_le; [apply H2|lia]|exact Hcl2]. }
  apply IH; [apply H2|exact Hcl2|exact Ecd].
Qed.
