From Coq Require Import List ZArith Lia Bool.
Import ListNotations.
Require Import Base Tree Rdr Link Rec17 Rec18 BSRdr TilBase TilDefs TilRdr.
Open Scope Z_scope.

(* ================= the link-reference-definition scanners over the reader ================= *)

Section Scan.
  Variables (s : bytes) (m : Z) (K : list inline).
  Hypothesis Hm0 : 0 <= m.
  Hypothesis Hmg : good s m.
  Notation RI := (RI s m K).

  Lemma next_ok_spans r : RI r -> fst (next r) = true -> r_spans (snd (next r)) <> [].
  Proof. intros HR. apply (next_RI s m K r HR). Qed.

  Lemma RI_pos r : RI r -> 0 <= r_pos r.
  Proof.
    intros (_ & _ & HP & H & He). unfold HD in H. destruct (r_spans r) as [|n t]; [destruct (He eq_refl); lia|].
    apply spanHas_iff in H. lia.
  Qed.
  Lemma RI_zero_exhausted r : RI r -> len s <= r_pos r -> r_spans r = [].
  Proof.
    intros (_ & _ & HP & H & _) L. unfold HD in H. destruct (r_spans r) as [|n t]; [reflexivity|exfalso].
    apply spanHas_iff in H. destruct HP as ((_ & _ & _ & X & _) & _). lia.
  Qed.

  (* one step from a blank position *)
  Lemma step_blank r : RI r -> r_pos r < len s -> blk (at_ s (r_pos r)) = true -> blankR s (r_pos r) (r_pos (snd (next r))).
  Proof.
    intros HR L Hb. destruct (next_RI s m K r HR) as (_ & HS & _).
    assert (H1 : blankR s (r_pos r) (r_pos r + 1)) by (intros i Hi; replace i with (r_pos r) by lia; exact Hb).
    destruct HS as [E|[E|(E1 & E2 & _)]]; rewrite ?E; [apply blankR_empty; lia|exact H1|eapply blankR_app; eassumption].
  Qed.
  Lemma step_good r : RI r -> isSpTab (at_ s (r_pos r)) = true -> good s (r_pos (snd (next r))).
  Proof.
    intros HR Hb. destruct (next_RI s m K r HR) as (_ & HS & _).
    assert (N0 : at_ s (r_pos r) <> 0) by (intros E; rewrite E in Hb; discriminate).
    assert (N10 : at_ s (r_pos r) <> 10) by (intros E; rewrite E in Hb; discriminate).
    assert (N13 : at_ s (r_pos r) <> 13) by (intros E; rewrite E in Hb; discriminate).
    destruct HS as [E|[E|(_ & _ & E3 & _)]]; rewrite ?E.
    - apply (good_cur s _ (at_ s (r_pos r)) eq_refl N0 N10).
    - apply (good_prev s _ (at_ s (r_pos r))); [f_equal; lia|exact N0|exact N13].
    - exact E3.
  Qed.

  (* ---- skipLinkSpace ---- *)
  Lemma sls_loop : forall fuel r, RI r ->
    RI (snd (skipLinkSpace_loop fuel r)) /\ blankR s (r_pos r) (r_pos (snd (skipLinkSpace_loop fuel r))) /\
    r_pos r <= r_pos (snd (skipLinkSpace_loop fuel r)) /\
    (fst (skipLinkSpace_loop fuel r) = false -> r_spans (snd (skipLinkSpace_loop fuel r)) = []).
  Proof.
    induction fuel as [|f IH]; intros r HR; cbn [skipLinkSpace_loop].
    { cbn [fst snd]. split; [exact HR|]. split; [apply blankR_empty; lia|]. split; [lia|discriminate]. }
    pose proof (current_snd s m K r HR) as Es. pose proof (current_blank s m K r HR) as Hb.
    destruct (current r) as [c r1]. cbn [fst snd] in Es, Hb. subst r1.
    destruct (isSpaceTabOrLineEnding c) eqn:Ec.
    - destruct (Hb Ec) as [L Hbl]. destruct (next_RI s m K r HR) as (H1 & _ & H3 & _ & _ & H6 & _).
      pose proof (step_blank r HR L Hbl) as Hsb.
      destruct (next r) as [ok r2]. cbn [fst snd] in *. destruct ok.
      + destruct (IH r2 H1) as (I1 & I2 & I3 & I4). split; [exact I1|]. split; [eapply blankR_app; eassumption|]. split; [lia|exact I4].
      + cbn [fst snd]. split; [exact H1|]. split; [exact Hsb|]. split; [lia|intros _; apply H6; reflexivity].
    - cbn [fst snd]. split; [exact HR|]. split; [apply blankR_empty; lia|]. split; [lia|discriminate].
  Qed.
  Lemma sls_ok fuel r : RI r ->
    RI (snd (skipLinkSpace fuel r)) /\ blankR s (r_pos r) (r_pos (snd (skipLinkSpace fuel r))) /\
    r_pos r <= r_pos (snd (skipLinkSpace fuel r)) /\
    (fst (skipLinkSpace fuel r) = false -> r_spans (snd (skipLinkSpace fuel r)) = []).
  Proof.
    intros HR. unfold skipLinkSpace. pose proof (current_snd s m K r HR) as Es. pose proof (current_zero s m K r HR) as Hz.
    destruct (current r) as [c r1]. cbn [fst snd] in Es, Hz. subst r1.
    destruct (Z.eqb_spec c 0) as [E0|N0]; [|apply sls_loop, HR].
    cbn [fst snd]. split; [exact HR|]. split; [apply blankR_empty; lia|]. split; [lia|]. intros _. apply (RI_zero_exhausted r HR), Hz, E0.
  Qed.
  (* with a visible character in front, skipLinkSpace succeeds *)
  Lemma sls_true fuel r c : RI r -> current r = (c, r) -> c <> 0 -> blk c = false -> fst (skipLinkSpace fuel r) = true.
  Proof.
    intros HR Ec N0 Nb. unfold skipLinkSpace. rewrite Ec. destruct (Z.eqb_spec c 0); [contradiction|].
    destruct fuel as [|f]; [reflexivity|]. cbn [skipLinkSpace_loop]. rewrite Ec. unfold blk in Nb. rewrite Nb. reflexivity.
  Qed.

  (* ---- skipSpacesAndTabs ---- *)
  Lemma sst_ok : forall fuel r, RI r -> (fuel = O -> good s (r_pos r)) ->
    RI (snd (skipSpacesAndTabs fuel r)) /\ r_pos r <= r_pos (snd (skipSpacesAndTabs fuel r)) /\
    (fst (skipSpacesAndTabs fuel r) = false -> good s (r_pos (snd (skipSpacesAndTabs fuel r)))) /\
    (fst (skipSpacesAndTabs fuel r) = true ->
       exists c, current (snd (skipSpacesAndTabs fuel r)) = (c, snd (skipSpacesAndTabs fuel r)) /\ isSpTab c = false /\ c <> 0).
  Proof.
    induction fuel as [|f IH]; intros r HR Hg0; cbn [skipSpacesAndTabs].
    { cbn [fst snd]. split; [exact HR|]. split; [lia|]. split; [intros _; apply Hg0; reflexivity|discriminate]. }
    pose proof (current_snd s m K r HR) as Es. pose proof (current_sptab s m K r HR) as Hb. pose proof (current_zero s m K r HR) as Hz.
    destruct (current r) as [c r1] eqn:Ecur. cbn [fst snd] in Es, Hb, Hz. subst r1.
    destruct (isSpTab c) eqn:Ec.
    - destruct (Hb eq_refl) as [L Hsp]. destruct (next_RI s m K r HR) as (H1 & _ & H3 & _ & He & H6 & _).
      pose proof (step_good r HR Hsp) as Hsg.
      destruct (next r) as [ok r2] eqn:En. cbn [fst snd] in *. destruct ok.
      + destruct (IH r2 H1 (fun _ => Hsg)) as (I1 & I2 & I3 & I4). split; [exact I1|]. split; [lia|]. split; assumption.
      + cbn [fst snd]. split; [exact H1|]. split; [lia|]. split; [intros _; exact Hsg|discriminate].
    - cbn [fst snd]. split; [exact HR|]. split; [lia|]. split.
      + intros E. apply negb_false_iff, Z.eqb_eq in E. right; left. apply Hz, E.
      + intros E. apply negb_true_iff, Z.eqb_neq in E. exists c. split; [exact Ecur|]. split; [exact Ec|exact E].
  Qed.

  (* ---- readEOL ---- *)
  Definition eolPost (r r' : reader) (e : Z) : Prop :=
    RI r' /\ r_pos r <= r_pos r' /\
    (e < 0 -> exists c, current r' = (c, r') /\ blk c = false /\ c <> 0) /\
    (0 <= e -> good s e /\ e <= r_pos r' /\ blankR s e (r_pos r')).

  (* leaving a line ending byte at the position of r *)
  Lemma leave_eol r c : RI r -> r_spans r <> [] -> r_pos r < len s -> at_ s (r_pos r) = c -> c = 10 \/ c = 13 ->
    (forall n t, r_spans r = n :: t -> ikind n <> IndentKind) ->
    r_prev (snd (next r)) = r_pos r /\ r_pos r + 1 <= r_pos (snd (next r)) /\ blankR s (r_pos r + 1) (r_pos (snd (next r))) /\
    (r_pos (snd (next r)) = r_pos r + 1 \/ good s (r_pos r + 1)).
  Proof.
    intros HR Hne L Ec Hc Hni. destruct (next_RI s m K r HR) as (_ & HS & _ & Hp & _ & _ & Hsame & _).
    split; [apply Hp, Hne|].
    destruct HS as [E|[E|(E1 & E2 & E3 & E4)]].
    - exfalso. destruct (Hsame E) as (n & t & [[E1 E2]|E1]); [exact (Hni n t E1 E2)|contradiction].
    - rewrite E. split; [lia|]. split; [apply blankR_empty; lia|left; reflexivity].
    - split; [exact E1|]. split; [exact E2|right; exact E4].
  Qed.

  Lemma readEOL_ok fuel r : RI r -> fuel <> O -> eolPost r (snd (readEOL fuel r)) (fst (readEOL fuel r)).
  Proof.
    intros HR Hf. unfold readEOL.
    destruct (sst_ok fuel r HR ltac:(intros E; contradiction)) as (H1 & P1 & G1 & T1).
    destruct (skipSpacesAndTabs fuel r) as [ok r1]. cbn [fst snd] in *.
    destruct ok; cbn [negb].
    2:{ (* the scan stopped at the end or ran out *)
      cbn [fst snd]. split; [exact H1|]. split; [exact P1|]. pose proof (RI_pos r1 H1) as Hp. split; [intros E; lia|].
      intros _. split; [apply G1; reflexivity|]. split; [lia|apply blankR_empty; lia]. }
    destruct (T1 eq_refl) as (c & Ec & Nsp & N0). rewrite Ec.
    pose proof (RI_pos r1 H1) as Hp1.
    assert (Hc13 : fst (current r1) = c) by (rewrite Ec; reflexivity).
    destruct (Z.eqb_spec c 13) as [E13|N13].
    - (* CR *)
      destruct (r_spans r1) as [|n t] eqn:Esp.
      + (* outside the entries *)
        destruct (next_RI s m K r1 H1) as (_ & _ & _ & _ & He & _). rewrite (He Esp). cbn [negb fst snd].
        pose proof H1 as (_ & _ & _ & _ & Hex). destruct (Hex Esp) as [X1 X2].
        split; [exact H1|]. split; [exact P1|]. split; [intros E; lia|]. intros _. rewrite X2, X1. split; [exact Hmg|]. split; [lia|apply blankR_empty; lia].
      + destruct (current_eol s m K r1 c H1 Hc13 ltac:(left; exact E13)) as (L & Eat & Hni).
        destruct (leave_eol r1 c H1 ltac:(rewrite Esp; discriminate) L Eat ltac:(right; exact E13) Hni) as (Q1 & Q2 & Q3 & Q4).
        destruct (next_RI s m K r1 H1) as (H3 & _ & _ & _ & _ & H6 & _). pose proof (next_ok_spans r1 H1) as Hok.
        destruct (next r1) as [ok2 r3]. cbn [fst snd] in *. destruct ok2; cbn [negb].
        2:{ (* the CR was the last byte of the entries *)
          cbn [fst snd]. pose proof H3 as (_ & _ & _ & _ & Hex). destruct (Hex (H6 eq_refl)) as [X1 X2].
          split; [exact H3|]. split; [lia|]. split; [intros E; lia|]. intros _. rewrite Q1 in *. rewrite X2.
          split; [exact Hmg|]. split; [lia|rewrite X1; apply blankR_empty; lia]. }
        pose proof (current_snd s m K r3 H3) as Es3. pose proof (current_not10 s m K r3 H3) as Hn10.
        destruct (current r3) as [c2 r4] eqn:Ec3. cbn [fst snd] in Es3, Hn10. subst r4.
        destruct (Z.eqb_spec c2 10) as [E10|N10].
        * (* CR LF *)
          assert (Hc10 : fst (current r3) = c2) by (rewrite Ec3; reflexivity).
          destruct (current_eol s m K r3 c2 H3 Hc10 ltac:(right; exact E10)) as (L3 & Eat3 & Hni3).
          destruct (leave_eol r3 c2 H3 (Hok eq_refl) L3 Eat3 ltac:(left; exact E10) Hni3) as (W1 & W2 & W3 & W4).
          destruct (next_RI s m K r3 H3) as (H5 & _ & _).
          destruct (next r3) as [ok3 r5]. cbn [fst snd] in *.
          split; [exact H5|]. split; [lia|]. split; [intros E; lia|]. intros _. rewrite W1.
          split; [apply (good_prev s _ 10); [replace (r_pos r3 + 1 - 1) with (r_pos r3) by lia; congruence|discriminate|discriminate]|].
          split; [lia|exact W3].
        * (* a lone CR *)
          cbn [fst snd]. split; [exact H3|]. split; [lia|]. split; [intros E; lia|]. intros _. rewrite Q1.
          split; [|split; [lia|exact Q3]].
          destruct Q4 as [Q4|Q4]; [|exact Q4]. right; right. replace (r_pos r1 + 1 - 1) with (r_pos r1) by lia. split; [left; congruence|].
          intros [_ X]. rewrite <- Q4 in X. exact (Hn10 N10 X).
    - destruct (Z.eqb_spec c 10) as [E10|N10].
      + (* LF *)
        destruct (r_spans r1) as [|n t] eqn:Esp.
        * destruct (next_RI s m K r1 H1) as (_ & _ & _ & _ & He & _). rewrite (He Esp). cbn [fst snd].
          pose proof H1 as (_ & _ & _ & _ & Hex). destruct (Hex Esp) as [X1 X2].
          split; [exact H1|]. split; [exact P1|]. split; [intros E; lia|]. intros _. rewrite X2, X1. split; [exact Hmg|]. split; [lia|apply blankR_empty; lia].
        * destruct (current_eol s m K r1 c H1 Hc13 ltac:(right; exact E10)) as (L & Eat & Hni).
          destruct (leave_eol r1 c H1 ltac:(rewrite Esp; discriminate) L Eat ltac:(left; exact E10) Hni) as (Q1 & Q2 & Q3 & Q4).
          destruct (next_RI s m K r1 H1) as (H3 & _ & _).
          destruct (next r1) as [ok2 r3]. cbn [fst snd] in *.
          split; [exact H3|]. split; [lia|]. split; [intros E; lia|]. intros _. rewrite Q1.
          split; [apply (good_prev s _ 10); [replace (r_pos r1 + 1 - 1) with (r_pos r1) by lia; congruence|discriminate|discriminate]|].
          split; [lia|exact Q3].
      + (* a visible character *)
        cbn [fst snd]. split; [exact H1|]. split; [exact P1|]. split; [|intros E; lia].
        intros _. exists c. split; [exact Ec|]. split; [|exact N0].
        unfold blk, isSpaceTabOrLineEnding. unfold isSpTab in Nsp. apply orb_false_iff in Nsp. destruct Nsp as [S1 S2]. rewrite S1, S2.
        apply Z.eqb_neq in N10, N13. rewrite N10, N13. reflexivity.
  Qed.
End Scan.
