From Coq Require Import List ZArith Lia Bool.
Import ListNotations.
Require Import Base Tree Rdr Link Collect Html Recog LP Rules Starts Driver L2Kind L2CC BSDef BSRdr BSTree BSOcp BSOrph BSClose BSLine1.
Open Scope Z_scope.

(* transfer between parser states with the same tree, container depth and cursor *)
Lemma BPb_ext M p p' : root p' = root p -> cdepth p' = cdepth p -> li p' = li p -> lineStart p' = lineStart p -> line p' = line p ->
  BPb M p -> BPb M p'.
Proof.
  intros E1 E2 E3 E4 E5 (A & B & C & D). unfold BPb, curP, spineOpen. rewrite E1, E2, E3, E4, E5.
  split; [exact A|split; [exact B|split; [exact C|eapply ccP_same_cd; eassumption]]].
Qed.
Lemma C1_ext p p' : root p' = root p -> cdepth p' = cdepth p -> lineStart p' = lineStart p -> C1 p -> C1 p'.
Proof. intros E1 E2 E3 H. unfold C1. rewrite E1, E2, E3. exact H. Qed.
Lemma LI_ext p p' : root p' = root p -> cdepth p' = cdepth p -> lineStart p' = lineStart p -> LI p -> LI p'.
Proof. intros E1 E2 E3 H. unfold LI. rewrite E1, E2, E3. exact H. Qed.

Lemma wf_le p d : ccP p -> (d <= cdepth p)%nat -> exists x, getAt d (root p) = Some x.
Proof. intros (_ & _ & (x & Hx)) Hd. eapply getAt_le; eassumption. Qed.

Lemma closeLastChildAt_eq p d e : closeLastChildAt p d e = withRoot p (updAt d (closeF p e) (root p)).
Proof. reflexivity. Qed.

Lemma BPb_closeAt M p d e d' : BPb M p -> e <= M -> (d' <= d)%nat -> (d <= cdepth p)%nat ->
  (forall x c, getAt d (root p) = Some x -> lastBlock x = Some c -> bend c < 0 -> sp e c) ->
  BPb M (withCont (closeLastChildAt p d e) (Some d')).
Proof.
  intros (A & B & C & D) He H1 H2 Hc. split; [exact A|]. split; [|split].
  - rewrite closeLastChildAt_eq. cbn [root withCont withRoot setLP]. apply sp_closeAt; [exact B|apply D|exact He|].
    intros x c Ex El. split; [apply (C d x H2 Ex)|apply (Hc x c Ex El)].
  - rewrite closeLastChildAt_eq. apply spineOpen_upd; [intros x; apply closeF_bend|exact C|exact H1|lia].
  - apply ccP_closeAt; [exact D|exact H1|apply wf_le; [exact D|lia]].
Qed.

Lemma closeBlock_closed fuel src c e : 0 <= bend c -> closeBlock fuel src c e = [c].
Proof. intros H. destruct fuel; [reflexivity|]. cbn [closeBlock]. unfold isOpen. destruct (Z.ltb_spec (bend c) 0); [lia|reflexivity]. Qed.

(* after closing at the line start, the new last child lies before the line start when open *)
Lemma C1_closeAt_ls p d : ccP p -> (forall x c, getAt d (root p) = Some x -> lastBlock x = Some c -> bend c < 0 -> sp (lineStart p) c) ->
  C1 (withCont (closeLastChildAt p d (lineStart p)) (Some d)).
Proof.
  intros D Hc y Ey Oy. unfold cdepth in Ey. cbn [container root lineStart withCont closeLastChildAt withRoot setLP] in *.
  fold (closeF p (lineStart p)) in Ey.
  destruct (closeAt_child p d (lineStart p) y Ey) as (x & c & Ex & El & Hin).
  destruct (Z.ltb_spec (bend c) 0) as [L|L].
  - assert (Cc : cc c = true) by (eapply cc_lastBlock; [eapply cc_getAt; [apply D|exact Ex]|exact El]).
    destruct (sp_closeBlock (source p) (lineStart p) (bheight (root p)) c Cc (Hc x c Ex El L) (-1) ltac:(left; lia)) as [A _].
    eapply allP_In; eassumption.
  - rewrite closeBlock_closed in Hin by exact L. destruct Hin as [<-|[]]. lia.
Qed.

Lemma getAt_closeAt p d e : getAt d (updAt d (closeF p e) (root p)) = option_map (closeF p e) (getAt d (root p)).
Proof. apply getAt_updAt_same. Qed.
Lemma closeF_kind p e x : bkind (closeF p e x) = bkind x.
Proof. unfold closeF. destruct (lastBlock x); [apply bkind_set_lastBlocks|reflexivity]. Qed.

(* closing the last child of the container at the line start keeps LI *)
Lemma LI_closeHere p : BP p -> C1 p -> LI p -> LI (closeLastChildAt p (cdepth p) (lineStart p)).
Proof.
  intros (A & B & C & D) H1 HL y Ey. unfold cdepth in Ey. cbn [container root lineStart closeLastChildAt withRoot setLP] in *.
  fold (cdepth p) in Ey. fold (closeF p (lineStart p)) in Ey. rewrite getAt_closeAt in Ey.
  destruct (getAt (cdepth p) (root p)) as [x|] eqn:Ex; [|discriminate]. cbn in Ey. inversion Ey; subst y. clear Ey.
  rewrite closeF_kind. destruct (HL x Ex) as [Hs|Hw]; [left|right; exact Hw].
  unfold closeF. destruct (lastBlock x) as [c|] eqn:El; [|exact Hs].
  assert (Cc : cc c = true) by (eapply cc_lastBlock; [eapply cc_getAt; [apply D|exact Ex]|exact El]).
  pose proof (sp_lastBlock _ x c Hs El) as Sc.
  destruct (sp_closeBlock (source p) (lineStart p) (bheight (root p)) c Cc Sc (bend x) ltac:(left; apply (C (cdepth p) x); [lia|exact Ex])) as [P Q].
  eapply sp_set_lastBlocks; eassumption.
Qed.

(* ---- kind facts ---- *)
Lemma wide_of_child pk ck : canContain pk ck = true -> ck <> ListItemKind -> wide pk.
Proof.
  unfold canContain, wide. intros H N.
  destruct (Z.eqb_spec pk documentKind); [tauto|]. destruct (Z.eqb_spec pk ListKind); [apply Z.eqb_eq in H; contradiction|].
  destruct (Z.eqb_spec pk ListItemKind); [tauto|]. destruct (Z.eqb_spec pk BlockQuoteKind); [tauto|discriminate].
Qed.
Lemma wide_accepts pk k : wide pk -> k <> ListItemKind -> canContain pk k = true.
Proof. intros [E|[E|E]] N; subst pk; unfold canContain; cbn; apply negb_true_iff, Z.eqb_neq; exact N. Qed.
Lemma reject_not_item ck k : canContain ck k = false -> k <> ListItemKind -> ck <> ListItemKind.
Proof. intros H N ->. rewrite (wide_accepts ListItemKind k) in H; [discriminate|right; right; reflexivity|exact N]. Qed.

Lemma containerKind_at p x : getAt (cdepth p) (root p) = Some x -> containerKind p = bkind x.
Proof. intros E. unfold containerKind, contBlock. rewrite E. reflexivity. Qed.

(* ---- openBlock ---- *)
Lemma OPx_openBlock_up : forall fuel p kind, OPx p ->
  (canContain (containerKind p) kind = true \/ (kind <> ListItemKind /\ cleanC p)) ->
  OPx (openBlock_up fuel p kind).
Proof.
  induction fuel as [|f IH]; intros p kind H Pre; [exact H|]. cbn [openBlock_up].
  destruct (canContain (containerKind p) kind) eqn:Ec; [exact H|].
  destruct Pre as [Pre|[Nk Hcl]]; [discriminate|].
  destruct (cdepth p) as [|d] eqn:Ed; [exact H|].
  destruct H as [HB H1]. pose proof HB as (A & B & C & D).
  destruct (wf_le p (S d) D ltac:(lia)) as (x & Ex). destruct (wf_le p d D ltac:(lia)) as (y & Ey).
  assert (Hclean : forall x0 c, getAt d (root p) = Some x0 -> lastBlock x0 = Some c -> bend c < 0 -> sp (lineStart p) c).
  { intros x0 c E0 El _. apply Hcl. rewrite Ed, getAt_S_last, E0. exact El. }
  apply IH.
  - split.
    + change (BPb (Mc p) (withCont (closeLastChildAt p d (lineStart p)) (Some d))).
      apply BPb_closeAt; [exact HB|unfold Mc; destruct A; lia|lia|lia|exact Hclean].
    + apply C1_closeAt_ls; [exact D|exact Hclean].
  - left. pose proof (cc_spine d (root p) y x ltac:(apply D) Ey Ex) as Hyx.
    assert (Kx : containerKind p = bkind x) by (apply containerKind_at; rewrite Ed; exact Ex).
    rewrite Kx in Ec. pose proof (reject_not_item _ _ Ec Nk) as Nx.
    assert (Ky : containerKind (withCont (closeLastChildAt p d (lineStart p)) (Some d)) = bkind y).
    { unfold containerKind, contBlock, cdepth. cbn [container root withCont closeLastChildAt withRoot setLP].
      fold (closeF p (lineStart p)). rewrite getAt_closeAt, Ey. cbn. apply closeF_kind. }
    rewrite Ky. apply wide_accepts; [eapply wide_of_child; eassumption|exact Nk].
Qed.

Lemma sp_newBlock M kind : 0 <= M -> kind <> SetextHeadingKind -> sp M (newBlock kind M).
Proof. intros H N. unfold newBlock. cbn [sp chain allP ascI]. repeat split; try lia; try assumption. Qed.

Lemma OPx_openBlock_ns p kind : OPx p -> kind <> SetextHeadingKind ->
  (canContain (containerKind p) kind = true \/ (kind <> ListItemKind /\ cleanC p)) ->
  OPx (openBlock p kind).
Proof.
  intros H Nk Pre.
  assert (Hcc : ccP (openBlock p kind)).
  { apply ccP_openBlock; [apply H|]. destruct Pre as [Pre|[Pre _]]; [right; exact Pre|left; exact Pre]. }
  revert Hcc. unfold openBlock.
  destruct ((state p =? stDescending) || (state p =? stDescendTerminated)); [intros _; apply (OPx_cstep p); [apply cstep_panic|exact H]|].
  cbv zeta. set (p0 := if state p =? stOpening then withState p stOpenMatched else p).
  pose proof (cstep_opened p) as Hc0. fold p0 in Hc0.
  assert (H0 : OPx p0) by (eapply OPx_cstep; eassumption).
  assert (Pre0 : canContain (containerKind p0) kind = true \/ (kind <> ListItemKind /\ cleanC p0)).
  { destruct Hc0 as ((E1 & E2) & (E3 & _) & _). unfold containerKind, contBlock, cleanC, cdepth. rewrite E1, E2, E3. exact Pre. }
  set (p2 := openBlock_up (S (cdepth p0)) p0 kind).
  assert (H2 : OPx p2) by (apply OPx_openBlock_up; assumption).
  assert (A2 : canContain (containerKind p2) kind = true).
  { apply openBlock_up_accepts; [apply H0|lia|]. destruct Pre0 as [Q|[Q _]]; [right; exact Q|left; exact Q]. }
  set (p3 := closeLastChildAt p2 (cdepth p2) (lineStart p2)).
  destruct H2 as [HB2 H12]. pose proof HB2 as (Acur & _ & _ & D2).
  assert (HB3 : BP p3).
  { change (BPb (Mc p2) p3). apply (BPb_ext (Mc p2) (withCont p3 (Some (cdepth p2)))); try reflexivity.
    apply BPb_closeAt; [exact HB2|unfold Mc; destruct Acur; lia|lia|lia|].
    intros x c Ex El Oc. apply H12; [|exact Oc]. rewrite getAt_S_last, Ex. exact El. }
  assert (K3 : containerKind p3 = containerKind p2) by apply containerKind_closeHere.
  pose proof HB3 as (A3 & B3 & C3 & D3). change (cdepth p3) with (cdepth p2) in *.
  destruct (wf_le p3 (cdepth p2) D3 ltac:(change (cdepth p3) with (cdepth p2); lia)) as (x & Ex).
  set (nb := newBlock kind (lineStart p3 + li p3)).
  set (f := fun b : block => set_bkids b (bkids b ++ [nb])).
  intros Hcc. change (lineStart p3 + li p3) with (Mc p3) in nb.
  assert (Snb : sp (Mc p3) nb) by (apply sp_newBlock; [unfold Mc; destruct A3; lia|exact Nk]).
  assert (Hroot : sp (Mc p3) (updAt (cdepth p2) f (root p3))).
  { apply (sp_updAt_at (Mc p3) f (cdepth p2) (root p3) B3). intros y Ey Sy.
    split; [|split; [apply bstart_set_bkids|apply bend_set_bkids]].
    pose proof Sy as Sy'. rewrite sp_eq in Sy'. destruct Sy' as (Y1 & Y2 & Y3 & Y4 & Y5).
    apply sp_set_bkids; [exact Sy| | |tauto].
    - apply chain_app. split; [exact Y4|]. cbn [chain]. split; [|split; [left; apply (C3 (cdepth p2) y); [change (cdepth p3) with (cdepth p2); lia|exact Ey]|exact I]].
      unfold nb, newBlock. cbn [bstart]. apply run_le; [lia|apply allP_sp_bounds; exact Y5].
    - apply allP_app. split; [exact Y5|split; [exact Snb|exact I]]. }
  split; [split; [exact A3|split; [exact Hroot|split; [|exact Hcc]]]|].
  - intros j y Hj Ey. assert (Hj' : (j <= S (cdepth p2))%nat) by exact Hj. clear Hj. cbn [container root withCont updCont withRoot setLP] in Ey. fold (cdepth p3) in Ey. change (cdepth p3) with (cdepth p2) in Ey.
    destruct (Nat.eq_dec j (S (cdepth p2))) as [->|Nj].
    + unfold f in Ey. rewrite (getAt_S_append_some nb (cdepth p2) (root p3) x Ex) in Ey. inversion Ey; subst y. unfold nb, newBlock. cbn [bend]. lia.
    + destruct (getAt_updAt_low f ltac:(intros; apply bend_set_bkids) (cdepth p2) j (root p3) y ltac:(lia) Ey) as (x0 & E0 & Eb & _).
      rewrite Eb. apply (C3 j x0); [change (cdepth p3) with (cdepth p2); lia|exact E0].
  - intros y Ey _.
    assert (Ey' : getAt (S (S (cdepth p2))) (updAt (cdepth p2) (fun b => set_bkids b (bkids b ++ [nb])) (root p3)) = Some y) by exact Ey.
    rewrite getAt_S_last, (getAt_S_append_some nb (cdepth p2) (root p3) x Ex) in Ey'. discriminate.
Qed.

Lemma OPx_openBlock p kind : OPx p -> st_open p -> kind <> SetextHeadingKind ->
  (canContain (containerKind p) kind = true \/ (kind <> ListItemKind /\ cleanC p)) ->
  OPx (openBlock p kind).
Proof. intros H _. apply OPx_openBlock_ns, H. Qed.
