(* EmphSlice.v -- property C11 (vertical slice): in a one-line paragraph made of '*' / '_' delimiter runs, ASCII letters,
   single spaces and the punctuation  . , ; : ( ) double-quote single-quote  (any length, first byte a letter), the emphasis /
   strong-emphasis structure produced by the model of zombiezen.com/go/commonmark is EXACTLY the one that CommonMark 0.30's
   delimiter-run rules produce.

   SPEC (EmphSpec.v, written from the spec text, independent of the model):
     segment t       maximal delimiter runs / text stretches of the line t;
     canOpen, canClose (from leftFlanking / rightFlanking, rules 1-8 of section 6.2; line start / end = whitespace);
     delimsOf        the delimiter stack (one entry per run: token index, '*' or '_', length, can-open, can-close);
     specRun t       = Emph.run false 0 ..  : the procedure "process emphasis" of the spec WITHOUT openers_bottom
                       (Emph.v: closers left to right, nearest matching opener, multiple-of-3 rule in Emph.matches, strong iff both
                       runs still have >= 2 delimiters, delimiters between opener and closer dropped, used-up runs removed);
     specEvents t    the list of matches (opener token, closer token, strong?) in the order in which they are performed;
     specForest t    the inline forest denoted by these events (applyEv: wrap the nodes between the two text nodes in an
                     Emphasis / Strong node, shorten the two text nodes by 1 / 2, drop them when empty).

   THEOREMS (all closed under the global context):
     C11_parseInlines   okEmph t -> the spec run terminates within its fuel, and
                        parseInlines (t ++ [LF]) [] paragraph = specForest t                       (layers b + c + d)
     C11_emphasis_slice okEmph t -> parseFull (t ++ [LF]) = one root, one closed paragraph [0,len) whose inline children are
                        specForest t, status 0                                                      (whole pipeline: blocks + inlines)
     C11_opt            the same forest is denoted by the events of the procedure WITH openers_bottom (Emph.run true),
                        via EmphProof.process_emphasis_opt_sound
   with, on the way,
     EmphFlags.emphasisFlags_spec   (layer a) emphasisFlags on ASCII neighbours = canOpen / canClose of the spec,
     EmphTok.tok_pend / parseInlines_tok (layer b) one text node per token, one stack entry per run with those flags and its length,
     EmphSim5.step_sim / run_sim    (layers c, d) step-by-step simulation of processEmphasis-without-bounds (= the model's
                                    processEmphasis by PEProof.processEmphasis_opt_sound) by Emph.step false 0, tree surgery included. *)
From Coq Require Import List ZArith Lia Bool.
Import ListNotations.
Require Import Base Tables Utf8 Tree Rdr Link Collect Html Recog LP Rules Starts Driver Inl3a Inl3b Inl3c Inl3d Inl3e Render
  PE PEProof SliceBase SlicePara SliceText.
Require Import EmphSpec EmphFlags EmphTok EmphTree EmphSim1 EmphSim2 EmphSim4 EmphSim5.
Require Emph EmphProof EmphSim3.
Open Scope Z_scope.

Theorem C11_parseInlines t : okEmph t = true ->
  let L := t ++ [10] in
  (exists rest, specRun t = Some (rest, specEvents t)) /\
  parseInlines L [] (paraClosed 0 (len L) (len L)) = specForest t.
Proof.
  intros Hok L. destruct (okEmph_parts t Hok) as (c & r & Et & Hc & Ha & Hd).
  pose proof (segment_wf t Ha Hd) as Hw.
  destruct (parseInlines_tok t Hok) as (st' & Hpi & Hsrc & Hrk & Hstk & Hnid). fold L in Hpi, Hsrc.
  destruct (Inv_init t st' Hw Hrk Hstk Hnid) as (R & HI).
  (* processEmphasis = the loop without bounds *)
  assert (Hpe : rk (processEmphasis st' 0) = rk (pe_loopY 0 (4 * (length (stk st') + length (isrc st')) + 8) st' 0)).
  { unfold processEmphasis. cbv zeta. rewrite rk_setStk. rewrite (processEmphasis_opt_sound st' 0 _ ltac:(lia)).
    rewrite pe_loopX_false. reflexivity. }
  pose proof (sumcur_delims (segment t) 0%nat None Hw) as [Hs1 Hs2]. rewrite segment_flat in Hs1.
  assert (Hmu : (EmphSim3.mu (specInit t) <= 2 * length t)%nat).
  { unfold EmphSim3.mu. cbn [Emph.st Emph.cp specInit]. lia. }
  destruct (run_sim (leavesOf (segment t) 0 0) (4 * (length (stk st') + length (isrc st')) + 8) (specFuel t) st' (specInit t) R HI)
    as (rest & evs & Hrun & Hfin).
  { rewrite Hsrc. unfold L. rewrite app_length. cbn [length]. lia. }
  { unfold specFuel. lia. }
  change (Z.of_nat (Emph.cp (specInit t))) with 0 in Hfin.
  assert (Hev : specEvents t = evs) by (unfold specEvents, specRun; rewrite Hrun; reflexivity).
  split.
  - exists rest. unfold specRun. rewrite Hev. exact Hrun.
  - rewrite Hpi, Hpe, Hfin. unfold specForest, specNodes. rewrite Hev. reflexivity.
Qed.
Print Assumptions C11_parseInlines.

(* ---- the whole pipeline ---- *)
Lemma letter_plainCh c : isLetterB c = true -> plainCh c = true.
Proof. intros H. unfold plainCh. change (isASCIILetter c) with (isLetterB c). rewrite H. reflexivity. Qed.
Lemma inA_range c : inA c = true -> 32 <= c < 128.
Proof.
  unfold inA. intros H. apply orb_true_iff in H. destruct H as [H|H].
  - apply isDelimB_cases in H. lia.
  - apply textA_range in H. lia.
Qed.

Theorem C11_emphasis_slice t : okEmph t = true ->
  let L := t ++ [10] in
  parseFull L = ([oneRoot L (Blk ParagraphKind 0 (len L) [] (specForest t) 0 0 0 false false)], 0).
Proof.
  intros Hok L. destruct (okEmph_parts t Hok) as (c & r & Et & Hc & Ha & Hd).
  destruct (C11_parseInlines t Hok) as [_ Hpi]. fold L in Hpi.
  assert (Hrange : Forall (fun x => 32 <= x < 128) t).
  { apply Forall_forall. intros x Hx. rewrite forallb_forall in Ha. apply inA_range. apply Ha. exact Hx. }
  assert (Hpb : parseBlocks L = ([oneRoot L (paraClosed 0 (len L) (len L))], 0)).
  { unfold L. rewrite Et in *. apply parseBlocks_one_para.
    - eapply Forall_impl; [|exact Hrange]. cbv beta. intros; lia.
    - eapply Forall_impl; [|exact Hrange]. cbv beta. intros; lia.
    - apply plain_paraStart. apply letter_plainCh. exact Hc.
    - apply letter_range in Hc. lia.
    - cbn [app]. unfold parseListMarker. pose proof (letter_range c Hc) as Hr.
      assert (E1 : (c =? 45) || (c =? 43) || (c =? 42) = false).
      { repeat match goal with |- context [c =? ?k] => destruct (Z.eqb_spec c k); [exfalso; lia|] end. reflexivity. }
      rewrite E1. assert (E2 : isASCIIDigit c = false).
      { unfold isASCIIDigit. destruct (Z.leb_spec 48 c), (Z.leb_spec c 57); try reflexivity. lia. }
      rewrite E2. cbn; lia. }
  unfold parseFull. rewrite Hpb.
  cbn [fold_left map oneRoot rb_blk rb_src rb_line rb_start rb_end].
  change (bheight (paraClosed 0 (len L) (len L))) with 1%nat.
  change (extractB 1 (paraClosed 0 (len L) (len L)) []) with (@nil bytes).
  assert (Hrw : rewriteB 1 L [] (paraClosed 0 (len L) (len L)) = set_bik (paraClosed 0 (len L) (len L)) (specForest t)).
  { cbn [rewriteB]. change ((0 <? len (bik (paraClosed 0 (len L) (len L)))) && hasUnparsed (paraClosed 0 (len L) (len L))) with true.
    cbv iota. rewrite Hpi. reflexivity. }
  rewrite Hrw. reflexivity.
Qed.
Print Assumptions C11_emphasis_slice.

(* ---- the same events are produced by the procedure WITH openers_bottom (the spec's optimisation is sound) ---- *)
Theorem C11_opt t : okEmph t = true ->
  Emph.run true 0 (specFuel t) (specInit t) = specRun t.
Proof. intros _. unfold specRun. apply (EmphProof.process_emphasis_opt_sound 0 (specFuel t) (delimsOf (segment t) 0 None)). Qed.
Print Assumptions C11_opt.

(* the hypothesis is satisfiable:  a***b** c* _d__e_ (*f*) g_h_ ,_i_. ****a***__*b_****** *)
Example okEmph_example :
  okEmph [97;42;42;42;98;42;42;32;99;42;32;95;100;95;95;101;95;32;40;42;102;42;41;32;103;95;104;95;32;44;95;105;95;46;32;42;42;42;42;97;42;42;42;95;95;42;98;95;42;42;42;42;42;42] = true.
Proof. reflexivity. Qed.

(* ---- the same statement through an abstraction function: nested emphasis structure of a forest ---- *)
Inductive em := ETxt (s e : Z) | EEm (strong : bool) (kids : list em).
(* of an inline forest of the model *)
Fixpoint emOf (i : inline) : em :=
  match i with Inl k s e _ _ ks => if k =? TextKind then ETxt s e else EEm (k =? StrongKind) (map emOf ks) end.
(* of the node list denoted by the events of the spec *)
Fixpoint emOfSpec (n : enode) : em :=
  match n with Leaf _ s e => ETxt s e | Emp b _ _ ks => EEm b (map emOfSpec ks) end.

Section EnodeInd.
  Variable P : enode -> Prop.
  Hypothesis HL : forall t s e, P (Leaf t s e).
  Hypothesis HE : forall b s e ks, Forall P ks -> P (Emp b s e ks).
  Fixpoint enode_ind2 (n : enode) : P n :=
    match n with
    | Leaf t s e => HL t s e
    | Emp b s e ks => HE b s e ks ((fix go (l : list enode) : Forall P l :=
                        match l with [] => Forall_nil P | x :: r => Forall_cons x (enode_ind2 x) (go r) end) ks)
    end.
End EnodeInd.
Lemma emOf_toI : forall n, emOf (toI n) = emOfSpec n.
Proof.
  apply enode_ind2; [reflexivity|]. intros b s e ks IH. cbn [toI emOf emOfSpec].
  replace ((if b then StrongKind else EmphasisKind) =? TextKind) with false by (destruct b; reflexivity).
  replace ((if b then StrongKind else EmphasisKind) =? StrongKind) with b by (destruct b; reflexivity).
  f_equal. rewrite map_map. induction IH as [|x r Hx Hr IHr]; [reflexivity|]. cbn [map]. rewrite Hx, IHr. reflexivity.
Qed.
Corollary C11_structure t : okEmph t = true ->
  let L := t ++ [10] in
  map emOf (parseInlines L [] (paraClosed 0 (len L) (len L))) = map emOfSpec (specNodes t).
Proof.
  intros Hok L. destruct (C11_parseInlines t Hok) as [_ H]. fold L in H. rewrite H. unfold specForest. rewrite map_map.
  apply map_ext. intros n. apply emOf_toI.
Qed.
Print Assumptions C11_structure.

(* the layers, once more, for the record *)
Print Assumptions emphasisFlags_spec.
Print Assumptions parseInlines_tok.
Print Assumptions step_sim.
Print Assumptions run_sim.

(* ---- the statement of the slice as one proposition ---- *)
Definition C11_slice_statement : Prop := forall t, okEmph t = true ->
  let L := t ++ [10] in
  (exists rest, specRun t = Some (rest, specEvents t)) /\
  parseInlines L [] (paraClosed 0 (len L) (len L)) = specForest t /\
  parseFull L = ([oneRoot L (Blk ParagraphKind 0 (len L) [] (specForest t) 0 0 0 false false)], 0) /\
  Emph.run true 0 (specFuel t) (specInit t) = specRun t.
Theorem C11_slice : C11_slice_statement.
Proof.
  intros t Hok L. destruct (C11_parseInlines t Hok) as [H1 H2]. split; [exact H1|]. split; [exact H2|].
  split; [apply C11_emphasis_slice; exact Hok|apply C11_opt; exact Hok].
Qed.
Print Assumptions C11_slice.
