From Coq Require Import List ZArith Lia Bool.
Import ListNotations.
Require Import Base Tables Utf8 Tree Rdr Link Collect Html Recog Inl3a Inl3b Inl3c Inl3d Inl3e Render Safe Leaf3a Leaf3b Leaf3c Leaf3d Leaf3e Leaf3f.
Open Scope Z_scope.

Lemma gokK_back b kind src : forall n, gokK b kind src n = true -> gok (b + 1) src n = true.
Proof.
  fix IH 1. intros [id k s e ind r ks] H. cbn [gok gokK] in *.
  apply andb_true_iff in H. destruct H as [H Hk]. apply andb_true_iff in H. destruct H as [H Hl].
  apply andb_true_iff in H. destruct H as [Hi _]. rewrite Hi, Hl. cbn [andb].
  destruct (skipKind k); [reflexivity|].
  induction ks as [|x l IHl]; [reflexivity|]. cbn [forallb] in *. apply andb_true_iff in Hk. destruct Hk as [Hx Hl'].
  rewrite (IH x Hx). apply IHl. assumption.
Qed.
Lemma gokKF_back b kind src l : gokKF b kind src l = true -> gokF (b + 1) src l = true.
Proof. unfold gokF, gokKF. intros H. rewrite forallb_forall in *. intros x Hx. apply (gokK_back b kind), H, Hx. Qed.

(* updates of the wrapper that keep identity and kind and only append acceptable children keep gokK *)
Definition goodG (b kind : Z) (src : bytes) (g : pn -> pn) : Prop :=
  forall n, pid (g n) = pid n /\ pkind (g n) = pkind n /\
            exists extra, pkids (g n) = pkids n ++ extra /\ gokKF b kind src extra = true.

Lemma updNode_gokK_K b kind src g : trivKind kind = true -> goodG b kind src g ->
  forall fuel l, gokKF b kind src l = true -> gokKF b kind src (updNode fuel b g l) = true.
Proof.
  intros Ht Hg. induction fuel as [|f IH]; intros l H; [assumption|].
  cbn [updNode]. unfold gokKF in *. rewrite forallb_forall in *. intros x Hx.
  apply in_map_iff in Hx. destruct Hx as (n & <- & Hn). specialize (H n Hn).
  destruct (Z.eqb_spec (pid n) b) as [Eb|Eb].
  - destruct (Hg n) as (G1 & G2 & extra & G3 & G4).
    destruct n as [i k s e ind r ks]. destruct (g (PN i k s e ind r ks)) as [i' k' s' e' ind' r' ks'] eqn:Eg.
    cbn [pid pkind pkids] in *. subst i' k' ks' i.
    cbn [gokK] in *.
    apply andb_true_iff in H. destruct H as [H Hk]. apply andb_true_iff in H. destruct H as [H Hl].
    apply andb_true_iff in H. destruct H as [Hi Hor].
    rewrite Z.ltb_irrefl in Hor. cbn [orb] in Hor. pose proof Hor as Hor'. apply Z.eqb_eq in Hor'. subst k.
    rewrite Hi, Z.eqb_refl, orb_true_r, (localok_triv src kind _ _ Ht). cbn [andb].
    destruct (skipKind kind); [reflexivity|].
    rewrite forallb_app. rewrite Hk. exact G4.
  - destruct n as [i k s e ind r ks]. cbn [setKids gokK pkids pid] in *.
    apply andb_true_iff in H. destruct H as [H Hk]. rewrite H. cbn [andb].
    destruct (skipKind k); [reflexivity|]. apply IH. exact Hk.
Qed.

Section L3g.
  Variable src : bytes.
  Variable U : list inline.
  Hypothesis HU : Forall (fun u => gok 1 src (ofInline u) = true) U.
  Notation InvS := (InvS src U).

  Definition InvK (kind : Z) (st : ist) : Prop :=
    isrc st = src /\ unp st = U /\ 2 <= nid st /\ gokKF (nid st - 1) kind src (rk st) = true.

  Lemma K_wrap st kind a b : InvS st -> trivKind kind = true -> skipKind kind = false ->
    InvK kind (fst (wrap st kind a b)) /\ snd (wrap st kind a b) = nid (fst (wrap st kind a b)) - 1.
  Proof.
    intros (E1 & E2 & Hn & Hg) Ht Hs. unfold wrap. cbn [fst snd]. unfold InvK, bumpId, setRk. cbn [nid isrc rk unp].
    replace (nid st + 1 - 1) with (nid st) by lia. repeat split; try assumption; try lia.
    apply wrapIn_gokK; [assumption|assumption|]. apply gokF_gokKF. assumption.
  Qed.
  Lemma K_upd st kind g : InvK kind st -> trivKind kind = true -> goodG (nid st - 1) kind src g ->
    InvK kind (updN st (nid st - 1) g).
  Proof.
    intros (E1 & E2 & Hn & Hg) Ht HG. unfold InvK, updN, setRk. cbn [nid isrc rk unp]. repeat split; try assumption.
    apply updNode_gokK_K; assumption.
  Qed.
  Lemma K_back st kind : InvK kind st -> InvS st.
  Proof.
    intros (E1 & E2 & Hn & Hg). repeat split; try assumption; try lia.
    replace (nid st) with (nid st - 1 + 1) at 1 by lia. apply (gokKF_back _ kind). assumption.
  Qed.
  Lemma K_advanceTo st kind p : InvK kind st -> InvK kind (advanceTo st p).
  Proof. intros H. unfold advanceTo. destruct (0 <=? _); exact H. Qed.

  Lemma goodG_span b kind s e : goodG b kind src (fun n => setSpan n s e).
  Proof. intros [i k s0 e0 ind r ks]. cbn. repeat split. exists []. rewrite app_nil_r. split; reflexivity. Qed.
  Lemma goodG_spanRef b kind s e r : goodG b kind src (fun n => setRef (setSpan n s e) r).
  Proof. intros [i k s0 e0 ind r0 ks]. cbn. repeat split. exists []. rewrite app_nil_r. split; reflexivity. Qed.
  Lemma goodG_appendSkip b kind k s e r kids : 0 < b -> skipKind k = true -> trivKind k = true ->
    goodG b kind src (fun n => setKids n (pkids n ++ [PN 0 k s e 0 r kids])).
  Proof.
    intros Hb Hk Ht [i k0 s0 e0 ind r0 ks]. cbn [pid pkind pkids setKids]. repeat split.
    exists [PN 0 k s e 0 r kids]. split; [reflexivity|]. unfold gokKF. cbn [forallb gokK].
    rewrite Hk, (localok_triv src k _ _ Ht).
    replace (0 <? b + 1) with true by (symmetry; apply Z.ltb_lt; lia).
    replace (0 <? b) with true by (symmetry; apply Z.ltb_lt; lia). reflexivity.
  Qed.

  (* ---- code spans ---- *)
  Definition flatT (n : pn) : Prop := pid n = 0 /\ trivKind (pkind n) = true /\ pkids n = [].
  Lemma flat_gok b n : 1 <= b -> flatT n -> gok b src n = true.
  Proof.
    intros Hb (H1 & H2 & H3). destruct n as [i k s e ind r ks]. cbn [pid pkind pkids] in *. subst i ks. cbn [gok].
    rewrite (localok_triv src k _ _ H2). replace (0 <? b) with true by (symmetry; apply Z.ltb_lt; lia).
    cbn [andb forallb]. destruct (skipKind k); reflexivity.
  Qed.
  Lemma flatF_gokF b l : 1 <= b -> Forall flatT l -> gokF b src l = true.
  Proof. intros Hb H. unfold gokF. apply forallb_forall. intros x Hx. rewrite Forall_forall in H. apply flat_gok; auto. Qed.

  Lemma cs_addSpan_flat acc s e : Forall flatT acc -> Forall flatT (cs_addSpan src acc s e).
  Proof.
    intros H. unfold cs_addSpan. cbv zeta.
    repeat match goal with |- context [if ?c then _ else _] => destruct c end;
      repeat (apply Forall_app; split); try assumption; repeat constructor.
  Qed.
  Lemma flat_setInd n v : flatT n -> flatT (setInd n v). Proof. destruct n; cbn; tauto. Qed.
  Lemma flat_setSpan n s e : flatT n -> flatT (setSpan n s e). Proof. destruct n; cbn; tauto. Qed.
  Lemma Forall_rev' {A} (P : A -> Prop) l : Forall P l -> Forall P (rev l).
  Proof. intros H. rewrite Forall_forall in *. intros x Hx. apply H. apply in_rev. assumption. Qed.
  Lemma Forall_rev_inv {A} (P : A -> Prop) l : Forall P (rev l) -> Forall P l.
  Proof. intros H. rewrite <- (rev_involutive l). apply Forall_rev'. assumption. Qed.

  Lemma strip_flat sl : Forall flatT sl -> Forall flatT (stripCodeSpanSpace src sl).
  Proof.
    intros H. unfold stripCodeSpanSpace.
    destruct (negb (existsb _ sl)); [assumption|].
    destruct sl as [|f r]; [assumption|].
    destruct (rev (f :: r)) as [|lst rr] eqn:Er; [assumption|].
    destruct (negb _ || negb _); [assumption|].
    cbv zeta.
    assert (H1 : Forall flatT (if pkind f =? IndentKind
                               then if pind (setInd f (pind f - 1)) =? 0 then r else setInd f (pind f - 1) :: r
                               else if plen (setSpan f (ps f + 1) (pe f)) =? 0 then r else setSpan f (ps f + 1) (pe f) :: r)).
    { inversion H as [|? ? Hf Hr]; subst.
      destruct (pkind f =? IndentKind); [destruct (pind _ =? 0)|destruct (plen _ =? 0)]; try assumption;
        constructor; try assumption; [apply flat_setInd|apply flat_setSpan]; assumption. }
    set (sl1 := if pkind f =? IndentKind then _ else _) in *.
    destruct (rev sl1) as [|l rr'] eqn:Er1; [assumption|].
    assert (H2 : Forall flatT (l :: rr')) by (rewrite <- Er1; apply Forall_rev'; assumption).
    inversion H2 as [|? ? Hl Hrr]; subst.
    destruct (pkind l =? IndentKind); match goal with |- context [if ?c then _ else _] => destruct c end;
      try (apply Forall_rev'; assumption);
      apply (Forall_rev' flatT (_ :: rr')); constructor; try assumption; [apply flat_setInd|apply flat_setSpan]; assumption.
  Qed.

  Lemma S_collectCodeSpan st a b c d : InvS st -> InvS (collectCodeSpan st a b c d).
  Proof.
    intros H. unfold collectCodeSpan. cbv zeta. rewrite (proj1 H).
    destruct (nodeIndexForPosition (unpFrom st) d =? 0).
    - apply S_addNode; [assumption|reflexivity|right]. apply flatF_gokF; [destruct H as (_&_&?&_); lia|].
      apply strip_flat, cs_addSpan_flat. constructor.
    - match goal with |- context [?F (Z.to_nat _) (cs_addSpan src [] ?x ?y) (upos st)] =>
        assert (HM : forall k acc up, Forall flatT acc -> Forall flatT (fst (F k acc up))) end.
      { induction k as [|k IHk]; intros acc up Ha; [exact Ha|]. cbn [fst]. apply IHk.
        destruct (ikind _ =? UnparsedKind); [apply cs_addSpan_flat|]; assumption. }
      match goal with |- context [?F (Z.to_nat ?n) (cs_addSpan src [] ?x ?y) (upos st)] =>
        specialize (HM (Z.to_nat n) (cs_addSpan src [] x y) (upos st) (cs_addSpan_flat _ _ _ (Forall_nil _)));
        destruct (F (Z.to_nat n) (cs_addSpan src [] x y) (upos st)) as [acc up] end.
      cbn [fst] in HM.
      apply S_addNode; [apply S_setUpos; assumption|reflexivity|right].
      apply flatF_gokF; [destruct H as (_&_&?&_); cbn; lia|]. apply strip_flat, cs_addSpan_flat. assumption.
  Qed.
End L3g.
