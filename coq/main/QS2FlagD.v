(* QS2FlagD.v -- T58b part D: descendOpenBlocks, deferredClose, addLineText, openNewBlocks (a line of the document, not the
   end of input). *)
From Coq Require Import List ZArith Lia Bool.
Import ListNotations.
Require Import Base Tree Rdr Link Collect Html Recog LP Rules Starts Driver L2Kind2 L2CC TDefs TOcp TInv TDesc TStarts TLine NoPanic47 BSOrph QS2FlagA QS2FlagB QS2FlagC.
Open Scope Z_scope.

Lemma lastBlock_set_lastBlocks_one r x : lastBlock (set_lastBlocks r [x]) = Some x.
Proof. exact (lastBlock_set_lastBlocks_snoc r [] x). Qed.

(* ---- PO through the operations that leave the tree alone or only add inline entries ---- *)
Lemma PO_same p p' : same_tree p p' -> PO p -> PO p'.
Proof. intros [E1 E2]. unfold PO, cdepth. rewrite E1, E2. tauto. Qed.
Lemma PO_updCont p f : bp f -> PO p -> PO (updCont p f).
Proof.
  intros Hb A. change (PO (updCont p f)) with (POr (cdepth p) (updAt (cdepth p) f (root p))). apply POr_updAt_bp; [exact Hb|lia|exact A].
Qed.
Lemma PO_collectInline p kind n : PO p -> PO (collectInline p kind n).
Proof.
  intros H. unfold collectInline. destruct (_ =? stDescendTerminated); [exact H|]. cbv zeta.
  apply (PO_updCont _ (fun b => set_bik b (bik b ++ [_]))); [apply (bp_set_bik (fun b => bik b ++ [_]))|].
  apply (PO_same _ _ (same_advance _ _)).
  destruct (0 <? _); [|apply (PO_same _ _ (same_opened _)), H].
  apply (PO_updCont _ (fun b => set_bik b (bik b ++ [_]))); [apply (bp_set_bik (fun b => bik b ++ [_]))|].
  apply (PO_same _ _ (same_advance _ _)). apply (PO_same _ _ (same_opened _)), H.
Qed.
Lemma PO_matchRule p : PO p -> PO (snd (matchRule p)).
Proof.
  intros H. unfold matchRule. cbv zeta.
  destruct (_ || _); [exact H|].
  destruct (_ =? ListItemKind).
  { unfold matchListItem. destruct (isRestBlank p); [destruct (negb _); [exact H|apply (PO_same _ _ (same_consumeIndent _ _)), H]|].
    destruct (_ <=? _); [apply (PO_same _ _ (same_consumeIndent _ _)), H|exact H]. }
  destruct (_ =? BlockQuoteKind).
  { unfold matchBlockQuote. cbv zeta. destruct (_ <=? _); [exact H|]. destruct (negb _); [exact H|]. cbn [snd].
    unfold eatQuoteMarker. cbv zeta.
    destruct (0 <? _); [apply (PO_same _ _ (same_consumeIndent _ _))|]; apply (PO_same _ _ (same_advance _ _)), (PO_same _ _ (same_consumeIndent _ _)), H. }
  destruct (_ =? FencedCodeBlockKind).
  { unfold matchFenced. cbv zeta. destruct (if _ <? _ then _ else false); cbn [snd];
      [apply (PO_same _ _ (same_consumeLine _))|apply (PO_same _ _ (same_consumeIndent _ _))]; exact H. }
  destruct (_ =? IndentedCodeBlockKind).
  { unfold matchIndented. cbv zeta. destruct (_ <? _); [destruct (negb _)|]; cbn [snd]; try apply (PO_same _ _ (same_consumeIndent _ _)); exact H. }
  destruct (_ =? HTMLBlockKind).
  { unfold matchHTML. destruct (htmlEnd _ _); [|exact H]. destruct (isRestBlank _); [exact H|]. cbn [snd].
    apply (PO_same _ _ (same_consumeLine _)). apply PO_collectInline; exact H. }
  exact H.
Qed.

(* a paragraph never terminates the descent *)
Lemma matchRule_para p : containerKind p = ParagraphKind -> matchRule p = (negb (isRestBlank p), p).
Proof. intros E. unfold matchRule. cbv zeta. rewrite E. reflexivity. Qed.

Lemma Mp_F_descend_exit M p d : F p -> CU p -> POr d (root p) -> Mp p = M -> (exists x, getAt d (root p) = Some x) ->
  state p <> stDescendTerminated ->
  let p' := withCont p (Some d) in
  F p' /\ CU p' /\ Mp p' = M /\ ((state p' <> stDescendTerminated /\ PO p') \/ (state p' = stDescendTerminated /\ topOK M (root p'))).
Proof.
  intros HF HC HP HM Hw Hs. cbv zeta. split; [apply F_withCont; assumption|]. split; [exact HC|]. split; [exact HM|]. left. split; [exact Hs|exact HP].
Qed.

Lemma W_descend_loop : forall fuel M p d, F p -> CU p -> POr d (root p) -> Mp p = M -> (exists x, getAt d (root p) = Some x) ->
  (state p = stDescendTerminated -> d = O /\ HM (ks p) /\ fuel <> O) ->
  let p' := snd (descend_loop fuel p d) in
  F p' /\ CU p' /\ Mp p' = M /\ ((state p' <> stDescendTerminated /\ PO p') \/ (state p' = stDescendTerminated /\ topOK M (root p'))).
Proof.
  induction fuel as [|f IH]; intros M p d HF HC HP HM Hw Hst.
  { cbn [descend_loop snd]. apply Mp_F_descend_exit; try assumption. intros E0. destruct (Hst E0) as (_ & _ & N). congruence. }
  assert (Hstale : state p = stDescendTerminated -> exists c, getAt (S d) (root p) = Some c /\ isOpen c = true /\ hasMatch (bkind c) = true).
  { intros E0. destruct (Hst E0) as (-> & (pre & c & Ek & Ho & Hh) & _). exists c. split; [|tauto].
    cbn [getAt]. unfold ks in Ek. rewrite (lastBlock_snoc _ _ _ Ek). reflexivity. }
  cbn [descend_loop]. cbv zeta.
  destruct (getAt (S d) (root p)) as [c|] eqn:Eg.
  2:{ apply Mp_F_descend_exit; try assumption. intros E0. destruct (Hstale E0) as (c & A & _). discriminate. }
  destruct (isOpen c) eqn:Eo; cbn [negb].
  2:{ apply Mp_F_descend_exit; try assumption. intros E0. destruct (Hstale E0) as (c' & A & B & _). congruence. }
  destruct (hasMatch (bkind c)) eqn:Eh; cbn [negb].
  2:{ apply (Mp_F_descend_exit M (withCont p (Some (S d))) d); try assumption.
      - apply F_withCont; [exact HF|eauto].
      - intros E0. destruct (Hstale E0) as (c' & A & _ & B). congruence. }
  set (p1 := withState (withCont p (Some (S d))) stDescending).
  assert (HF1 : F p1) by (apply (F_withCont p (S d) HF); eauto).
  assert (HC1 : CU p1) by exact HC.
  assert (HP1 : PO p1).
  { change (PO p1) with (POr (S d) (root p)). apply POr_S; [exact HP|]. intros x Hx. rewrite Eg in Hx. inversion Hx; subst x. exact Eo. }
  assert (Ck1 : containerKind p1 = bkind c).
  { unfold containerKind, contBlock. change (cdepth p1) with (S d). change (root p1) with (root p). rewrite Eg. reflexivity. }
  pose proof (matchRule_spec p1 eq_refl HC1) as (M1 & M2 & M3 & M4).
  pose proof (F_matchRule p1 HF1) as HF2. pose proof (PO_matchRule p1 HP1) as HP2. pose proof (cdepth_matchRule p1) as Ecd.
  pose proof (matchRule_para p1) as Hpara.
  destruct (matchRule p1) as [ok p2]. cbn [snd] in *. change (cdepth p1) with (S d) in Ecd. change (ks p1) with (ks p) in M1.
  assert (HM2 : Mp p2 = M) by (rewrite (Mp_envS p1 p2 M2); exact HM).
  pose proof (proj1 HF2) as (_ & _ & (x2 & Hx2)). rewrite Ecd in Hx2.
  assert (Hd2 : exists y, getAt d (root p2) = Some y) by (eapply getAt_prefix; exact Hx2).
  unfold PO in HP2. rewrite Ecd in HP2.
  destruct M4 as [S3|(S4 & L4 & Ln)].
  - replace (state p2 =? stDescendTerminated) with false by (rewrite S3; reflexivity).
    destruct ok; cbn [negb].
    + apply IH; try assumption; [eauto|]. intros E0. rewrite S3 in E0. discriminate.
    + cbn [snd]. apply Mp_F_descend_exit; try assumption; [eapply POr_le; [|exact HP2]; lia|rewrite S3; discriminate].
  - replace (state p2 =? stDescendTerminated) with true by (rewrite S4; reflexivity). cbn [snd].
    split; [apply F_closeAt; [exact HF2|lia|exact Hd2]|]. split; [exact M3|]. split; [exact HM2|]. right. split; [exact S4|].
    destruct d as [|d].
    + (* a child of the document is closed at the end of the line *)
      rewrite closeLastChildAt_eq. cbn [root withCont withRoot setLP updAt]. intros b Hb. unfold TInv.closeF in Hb.
      rewrite getAt_1 in Hx2. rewrite Hx2 in Hb.
      assert (Ho2 : isOpen x2 = true) by (apply (HP2 1%nat x2); [lia|rewrite getAt_1; exact Hx2]).
      assert (Hk2 : bkind x2 = bkind c).
      { rewrite getAt_1 in Eg. destruct M1 as [[A1 A2]|(pre & c0 & c' & A1 & A2 & A3)].
        - exfalso. unfold ks in A1. apply lastBlock_ne in Eg. contradiction.
        - unfold ks in A1, A2. rewrite (lastBlock_snoc _ _ _ A1) in Eg. rewrite (lastBlock_snoc _ _ _ A2) in Hx2. inversion Eg; inversion Hx2; subst.
          destruct A3 as (_ & Hk & _). exact Hk. }
      assert (N1 : bkind x2 <> ParagraphKind).
      { intros E0. rewrite Hk2 in E0. rewrite <- Ck1 in E0. specialize (Hpara E0). inversion Hpara; subst p2. cbn in S4. discriminate. }
      assert (N2 : bkind x2 <> SetextHeadingKind) by (intros E0; rewrite Hk2 in E0; rewrite E0 in Eh; discriminate).
      destruct (bheight_S (root p2)) as [f0 Ef0]. rewrite Ef0 in Hb.
      destruct (closeBlock_keep_end f0 (source p2) x2 (lineStart p2 + li p2) Ho2 N1 N2) as (x & E1 & E2 & _).
      rewrite E1 in Hb. rewrite (lastBlock_set_lastBlocks_one (root p2) x) in Hb. inversion Hb; subst b.
      right; left. rewrite E2, L4. unfold Mp in HM2. destruct M2 as (_ & El & _). rewrite El in HM2. lia.
    + apply topOK_POr. pose proof (PO_closeAt p2 (S d) (lineStart p2 + li p2) (S d)) as Hq.
      unfold PO in Hq at 1. rewrite Ecd in Hq. specialize (Hq ltac:(eapply POr_le; [|exact HP2]; lia) ltac:(lia) ltac:(lia)).
      eapply POr_le; [|exact Hq]. cbn. lia.
Qed.

(* ---- deferredClose ---- *)
Lemma tipDepth_open : forall fuel r, POr (tipDepth fuel r) r.
Proof.
  induction fuel as [|f IH]; intros r; [apply POr_0|]. cbn [tipDepth].
  destruct (lastBlock r) as [c|] eqn:El; [|apply POr_0]. destruct (isOpen c) eqn:Eo; [|apply POr_0].
  intros d x Hd Hx. destruct d as [|d]; [lia|]. rewrite getAt_S, El in Hx.
  destruct d as [|d]; [cbn [getAt] in Hx; inversion Hx; subst; exact Eo|]. apply (IH c (S d) x); [lia|exact Hx].
Qed.

Lemma PO_closeHere p e : PO p -> PO (closeLastChildAt p (cdepth p) e).
Proof.
  intros H. rewrite closeLastChildAt_eq.
  change (PO (withRoot p (updAt (cdepth p) (TInv.closeF p e) (root p)))) with (POr (cdepth p) (updAt (cdepth p) (TInv.closeF p e) (root p))).
  apply POr_updAt_bp; [apply bp_closeF|lia|exact H].
Qed.

Lemma PO_deferredClose p : PO p -> PO (deferredClose p).
Proof.
  intros H. unfold deferredClose. cbv zeta. destruct (_ && _); [|apply PO_closeHere, H].
  change (PO (withCont p (Some (tipDepth (bheight (root p)) (root p))))) with (POr (tipDepth (bheight (root p)) (root p)) (root p)).
  apply tipDepth_open.
Qed.

Lemma topOK_K M p : K M p -> state p = stLineConsumed -> topOK M (root p).
Proof.
  intros [A B] S2. destruct (cdepth p) as [|d] eqn:Ed; [apply topOK_done, B; [exact S2|reflexivity]|].
  apply topOK_POr. eapply POr_le; [|exact A]. rewrite Ed. lia.
Qed.

Lemma topOK_deferredClose_done M p : K M p -> state p = stLineConsumed -> topOK M (root (deferredClose p)).
Proof.
  intros HK S2. unfold deferredClose. cbv zeta. destruct (_ && _); [apply (topOK_K M p HK S2)|].
  destruct HK as [A B]. destruct (cdepth p) as [|d] eqn:Ed.
  - specialize (B S2 eq_refl). rewrite closeLastChildAt_eq. cbn [root withRoot setLP updAt]. unfold TInv.closeF.
    destruct (lastBlock (root p)) as [c|] eqn:El; [|apply topOK_done; intros b Hb; rewrite El in Hb; discriminate].
    destruct (B c El) as [Hc Hf]. rewrite (closeBlock_closed _ _ c _ Hc).
    intros b Hb. rewrite (lastBlock_set_lastBlocks_one (root p) c) in Hb. inversion Hb; subst b.
    destruct Hf as [Hf|Hf]; [right; left; exact Hf|right; right; exact Hf].
  - apply topOK_POr. pose proof (PO_closeHere p (lineStart p) A) as Hq. rewrite Ed in Hq. unfold PO in Hq.
    change (cdepth (closeLastChildAt p (S d) (lineStart p))) with (cdepth p) in Hq. rewrite Ed in Hq. eapply POr_le; [|exact Hq]. lia.
Qed.

(* ---- addLineText ---- *)
(* the last child of the root keeps end and flag *)
Definition shT (r r' : block) : Prop :=
  forall b', lastBlock r' = Some b' -> exists b, lastBlock r = Some b /\ bend b' = bend b /\ blastBlank b' = blastBlank b.
Lemma shT_refl r : shT r r. Proof. intros b Hb. exists b. tauto. Qed.
Lemma shT_trans a b c : shT a b -> shT b c -> shT a c.
Proof. intros H1 H2 x Hx. destruct (H2 x Hx) as (y & Hy & A1 & A2). destruct (H1 y Hy) as (z & Hz & B1 & B2). exists z. split; [exact Hz|split; congruence]. Qed.
Lemma topOK_shT M r r' : shT r r' -> topOK M r -> topOK M r'.
Proof.
  intros Hs H b' Hb'. destruct (Hs b' Hb') as (b & Hb & E1 & E2). rewrite E1, E2, (isOpen_bend b b' E1). apply H, Hb.
Qed.
Lemma shT_updAt g d r : (forall x, bend (g x) = bend x /\ blastBlank (g x) = blastBlank x) -> (forall x, bkids (g x) = bkids x) -> shT r (updAt d g r).
Proof.
  intros Hg Hk b' Hb'. destruct d as [|d].
  - cbn [updAt] in Hb'. rewrite (lastBlock_kids r (g r) (Hk r)) in Hb'. exists b'. tauto.
  - cbn [updAt] in Hb'. destruct (lastBlock r) as [c|] eqn:El; [|rewrite El in Hb'; discriminate].
    rewrite (lastBlock_set_lastBlocks_one r (updAt d g c)) in Hb'. inversion Hb'; subst b'. exists c. split; [reflexivity|].
    destruct d as [|d]; [cbn [updAt]; apply Hg|]. cbn [updAt]. destruct (lastBlock c); [split; [apply bend_set_lastBlocks|apply blast_set_lastBlocks]|tauto].
Qed.
Lemma shT_set_bik p g : shT (root p) (root (updCont p (fun b => set_bik b (g b)))).
Proof. unfold updCont. cbn [root withRoot setLP]. apply shT_updAt; intros x; destruct x; [split|]; reflexivity. Qed.

Lemma shT_append q u : shT (root q) (root (updCont q (fun b => set_bik b (bik b ++ [u])))).
Proof. apply (shT_set_bik q (fun b => bik b ++ [u])). Qed.
Lemma PO_append q u : PO q -> PO (updCont q (fun b => set_bik b (bik b ++ [u]))).
Proof. apply PO_updCont. apply (bp_set_bik (fun b => bik b ++ [u])). Qed.
Lemma shT_goF q : shT (root q) (root (goF q)).
Proof.
  unfold goF. cbv zeta. destruct (_ && _).
  - eapply shT_trans; [apply shT_append|apply shT_append].
  - apply shT_append.
Qed.
Lemma PO_goF q : PO q -> PO (goF q).
Proof.
  intros H. unfold goF. cbv zeta. destruct (_ && _).
  - apply PO_append, PO_append, H.
  - apply PO_append, H.
Qed.
Lemma cdepth_goF q : cdepth (goF q) = cdepth q.
Proof. unfold goF. cbv zeta. destruct (_ && _); reflexivity. Qed.

(* setLastBlankUpTo keeps every end on the spine *)
Lemma POr_updAt_any g n d r : bp g -> (forall x, bkids (g x) = bkids x) -> POr n r -> POr n (updAt d g r).
Proof.
  intros Hb Hk H d0 y Hd0 Hy. destruct (Nat.le_gt_cases d0 d) as [L|L].
  - destruct (getAt_updAt_bp g Hb d d0 r y L Hy) as (x & Hx & E). rewrite (isOpen_bend x y E). apply (H d0 x Hd0 Hx).
  - rewrite (getAt_updAt_above g Hk d d0 r L) in Hy. apply (H d0 y Hd0 Hy).
Qed.
Lemma POr_setLB v n : forall d r, POr n r -> POr n (setLastBlankUpTo d v r).
Proof.
  assert (St : forall d r, POr n r -> POr n (updAt d (fun b => set_blast b v) r)).
  { intros d r. apply POr_updAt_any; intros x; destruct x; reflexivity. }
  induction d as [|d IH]; intros r H; cbn [setLastBlankUpTo]; [apply St, H|]. apply IH, St, H.
Qed.
Lemma bp_blankF : bp blankF. Proof. intros x. unfold blankF. destruct (lastBlock x); [apply bend_set_lastBlocks|reflexivity]. Qed.

Lemma cdepth_ge1_POr1 p : PO p -> (1 <= cdepth p)%nat -> POr 1 (root p).
Proof. intros H Hd. eapply POr_le; [exact Hd|exact H]. Qed.

Lemma topOK_addLineText M p : bkind (root p) = documentKind -> PO p -> goodSt p -> topOK M (root (addLineText p)).
Proof.
  intros Hdoc HP HG.
  unfold addLineText. cbv zeta.
  change (fun b : block => match lastBlock b with Some c => set_lastBlocks b [set_blast c true] | None => b end) with blankF.
  set (pa := if isRestBlank p then updCont p blankF else p).
  assert (Ea : cdepth pa = cdepth p /\ state pa = state p) by (unfold pa; destruct (isRestBlank p); split; reflexivity).
  destruct Ea as [Ea1 Ea2].
  assert (Ka : containerKind pa = containerKind p) by (unfold pa; destruct (isRestBlank p); [apply containerKind_updCont, bkind_blankF|reflexivity]).
  assert (Pa : PO pa) by (unfold pa; destruct (isRestBlank p); [apply PO_updCont; [apply bp_blankF|exact HP]|exact HP]).
  fold (containerKind pa). rewrite Ka.
  match goal with |- context [setLastBlankUpTo (cdepth pa) ?v (root pa)] => set (llb := v) end.
  set (pb := withRoot pa (setLastBlankUpTo (cdepth pa) llb (root pa))).
  assert (Eb : cdepth pb = cdepth p /\ state pb = state p).
  { unfold pb. cbn [cdepth container state withRoot setLP]. fold (cdepth pa). tauto. }
  destruct Eb as [Eb1 Eb2].
  assert (Kb : containerKind pb = containerKind p).
  { rewrite <- Ka. rewrite !containerKind_kindAt. unfold pb. cbn [root cdepth container withRoot setLP]. fold (cdepth pa). rewrite kindAt_setLB. reflexivity. }
  assert (Pb : PO pb).
  { change (PO pb) with (POr (cdepth pa) (setLastBlankUpTo (cdepth pa) llb (root pa))). apply POr_setLB. exact Pa. }
  (* the new paragraph *)
  assert (Hnew : st_open pb -> topOK M (root (goF (consumeIndent (openBlock pb ParagraphKind) (indent (openBlock pb ParagraphKind)))))).
  { intros Sb. set (po := openBlock pb ParagraphKind).
    assert (Po : PO po) by (apply PO_openBlock, Pb).
    assert (Do : (1 <= cdepth po)%nat) by (apply cdepth_openBlock; apply st_open_notdesc, Sb).
    set (pq := consumeIndent po (indent po)).
    assert (Pq : PO pq) by (apply (PO_same _ _ (same_consumeIndent _ _)), Po).
    assert (Dq : cdepth pq = cdepth po) by apply cd_consumeIndent.
    apply topOK_POr. apply cdepth_ge1_POr1; [apply PO_goF, Pq|rewrite cdepth_goF; lia]. }
  (* the top of pb *)
  assert (Tb : (1 <= cdepth p)%nat \/ isRestBlank p = true -> topOK M (root pb)).
  { intros [Hd|Hbl].
    - apply topOK_POr. apply cdepth_ge1_POr1; [exact Pb|lia].
    - destruct (cdepth p) as [|d] eqn:Ed.
      + unfold pb. rewrite Ea1. cbn [setLastBlankUpTo updAt root withRoot setLP].
        apply (topOK_lastBlock M (root pa)); [apply lastBlock_kids, bkids_set_blast|].
        unfold pa. rewrite Hbl. unfold updCont. cbn [root withRoot setLP]. rewrite Ed. cbn [updAt]. unfold blankF.
        destruct (lastBlock (root p)) as [c|] eqn:El; [|intros b Hb; rewrite El in Hb; discriminate].
        intros b Hb. rewrite (lastBlock_set_lastBlocks_one (root p) (set_blast c true)) in Hb. inversion Hb; subst b.
        right; right. destruct c; reflexivity.
      + apply topOK_POr. apply cdepth_ge1_POr1; [exact Pb|lia]. }
  destruct (acceptsLines (containerKind p)) eqn:Eacc.
  - (* the container takes the line: it is not the document *)
    assert (Hd : (1 <= cdepth p)%nat).
    { destruct (cdepth p) eqn:Ed; [|lia]. exfalso. rewrite (containerKind_root p Ed), Hdoc in Eacc. discriminate. }
    fold (goF pb).
    match goal with |- context [if ?c then consumeIndent ?x ?n else pb] => set (cnd := c); set (pi := x) end.
    set (pc := if cnd then consumeIndent pi (tabRem pi) else pb).
    fold (goF pc).
    eapply topOK_shT; [|apply Tb; left; exact Hd].
    eapply shT_trans; [|apply shT_goF].
    unfold pc. destruct cnd; [|apply shT_refl].
    destruct (same_consumeIndent pi (tabRem pi)) as [Er _]. rewrite Er. unfold pi. apply shT_append.
  - destruct (negb (isRestBlank p)) eqn:Ebl.
    + fold (goF (consumeIndent (openBlock pb ParagraphKind) (indent (openBlock pb ParagraphKind)))).
      apply Hnew. destruct (HG Eacc) as [E0|E0]; [left|right]; rewrite Eb2; exact E0.
    + apply Tb. right. apply negb_false_iff in Ebl. exact Ebl.
Qed.

(* ---- openNewBlocks on a line of the document ---- *)
Lemma topOK_openNewBlocks M p am : V M p -> len (line p) <> 0 ->
  (fst (openNewBlocks p am) = true -> PO (snd (openNewBlocks p am))) /\
  (fst (openNewBlocks p am) = false -> topOK M (root (snd (openNewBlocks p am)))).
Proof.
  intros HV Hl. unfold openNewBlocks. replace (len (line p) =? 0) with false by (symmetry; apply Z.eqb_neq; exact Hl).
  pose proof (W_opening_loop (S (length (line p))) M p HV) as [H1 H2].
  destruct (opening_loop (S (length (line p))) p) as [ht p1]. cbn [fst snd] in *.
  destruct H1 as (_ & _ & HP1 & _).
  destruct am; cbn [fst snd].
  - split; [intros _; exact HP1|]. intros E0. destruct (H2 E0) as [S2 HK]. apply (topOK_K M p1 HK S2).
  - split; [intros _; apply PO_deferredClose, HP1|]. intros E0. destruct (H2 E0) as [S2 HK]. apply (topOK_deferredClose_done M p1 HK S2).
Qed.
