From Coq Require Import List ZArith Lia Bool.
Import ListNotations.
Require Import Base Tables Utf8 Tree Rdr Link Collect Html Recog Inl3a Inl3b ShapesBase ShapesR IFBase IFLink IFCode
  EolCRLFDefs EolCRLFSimBytes EolCRLFSimStream
  EolGenCrlfRdrDefs EolGenCrlfRdrStep EolGenCrlfRdrNext EolGenCrlfRdrLink EolGenCrlfRdrLink2.
Open Scope Z_scope.

(* C14 (ii), CRLF clause, inline layer (S1): parseCodeSpan on R and on crlf R.
   Two fuels; each only has to exceed the potential of its own reader. *)

Section CodeSim.
  Variable R : bytes.
  Variable Eb : Z.
  Hypothesis R13 : ~ In 13 R.
  Notation P := (phiP R).
  Notation R' := (crlf R).
  Notation F := (phiI R).
  Notation RR := (RR R Eb).
  Notation RM := (RM R Eb).
  Notation PVc := (PVc R).
  Notation SPI := (SPI R Eb).
  Notation W := (W R Eb).

  Ltac f0 HW := exfalso; destruct (W_PL R Eb _ _ HW) as [?P1 ?P2]; first [eapply (fuel0 R); eassumption|eapply (fuel0 R'); eassumption].

  Lemma P_m1 : P (-1) = -1. Proof. reflexivity. Qed.

  (* ---------------------------------------------------------------- cs_open: the run of opening backticks *)
  Definition CsO (x y : option (reader * Z * Z) * Z) : Prop :=
    match x, y with
    | (Some (r1, n, c), d), (Some (r1', n', c'), d') => n' = n /\ c' = P c /\ d' = P d /\ RR r1 r1'
    | (None, d), (None, d') => d' = P d
    | _, _ => False
    end.
  Lemma cs_open_sim : forall f' f r r' n c, RR r r' -> nu R r < Z.of_nat f -> nu R' r' < Z.of_nat f' ->
    CsO (cs_open f r n c) (cs_open f' r' n (P c)).
  Proof.
    induction f' as [|f' IH]; intros f r r' n c H Hn Hn'; [f0 (or_introl H : W r r')|]. destruct f as [|f]; [f0 (or_introl H : W r r')|].
    cbn [cs_open]. unfold cur. destruct (current r) as [c0 r0] eqn:Ec. destruct (current r') as [c0' r0'] eqn:Ec'. cbn [fst snd].
    destruct (currentE_RR R Eb R13 _ _ _ _ _ _ H Ec Ec') as (-> & H0 & Hc & N0 & N0' & _).
    rewrite m13_eqb by discriminate. destruct (Z.eqb_spec c0 96) as [->|N96].
    - destruct (next r0) as [ok r1] eqn:En. destruct (next r0') as [ok' r1'] eqn:En'.
      destruct (nextE_RR R Eb _ _ _ _ _ _ H0 ltac:(rewrite Hc; discriminate) En En') as (-> & H1 & _ & [U1 U2] & [U1' U2']).
      rewrite (RR_pos R Eb _ _ H1). destruct ok; cbn [negb]; [|reflexivity].
      apply IH; [exact H1|specialize (U2 eq_refl); lia|specialize (U2' eq_refl); lia].
    - cbn [CsO]. split; [reflexivity|]. split; [reflexivity|]. split; [reflexivity|exact H].
  Qed.

  (* ---------------------------------------------------------------- cs_run: a run of backticks inside the span *)
  Lemma cs_run_sim : forall f' f r r' k, RR r r' -> cur r <> 10 -> nu R r < Z.of_nat f -> nu R' r' < Z.of_nat f' ->
    RR (fst (fst (cs_run f r k))) (fst (fst (cs_run f' r' k))) /\ snd (fst (cs_run f' r' k)) = snd (fst (cs_run f r k)) /\
    snd (cs_run f' r' k) = snd (cs_run f r k).
  Proof.
    induction f' as [|f' IH]; intros f r r' k H N10 Hn Hn'; [f0 (or_introl H : W r r')|]. destruct f as [|f]; [f0 (or_introl H : W r r')|].
    cbn [cs_run]. destruct (next r) as [ok r1] eqn:En. destruct (next r') as [ok' r1'] eqn:En'.
    destruct (nextE_RR R Eb _ _ _ _ _ _ H N10 En En') as (-> & H1 & _ & [U1 U2] & [U1' U2']).
    destruct ok; cbn [negb]; [|cbn [fst snd]; split; [exact H1|split; reflexivity]].
    specialize (U2 eq_refl). specialize (U2' eq_refl).
    unfold cur. destruct (current r1) as [c r2] eqn:Ec. destruct (current r1') as [c' r2'] eqn:Ec'. cbn [fst snd].
    destruct (currentE_RR R Eb R13 _ _ _ _ _ _ H1 Ec Ec') as (-> & H2 & Hc & N2 & N2' & _).
    rewrite m13_eqb by discriminate. destruct (Z.eqb_spec c 96) as [->|N96].
    - apply IH; [exact H2|rewrite Hc; discriminate|lia|lia].
    - cbn [fst snd]. split; [exact H2|split; reflexivity].
  Qed.

  (* ---------------------------------------------------------------- cs_close: the search for the closing run *)
  Lemma cs_close_at10 f r blen : cur r = 10 ->
    cs_close (S f) r blen = (let '(ok, r2) := next r in if negb ok then (-1, -1) else cs_close f r2 blen).
  Proof. intros E. cbn [cs_close]. rewrite E. cbn [Z.eqb Pos.eqb negb]. rewrite next_current. reflexivity. Qed.

  Definition mapP2 (x : Z * Z) : Z * Z := (P (fst x), P (snd x)).

  Lemma cs_close_sim : forall f' f r r' blen, W r r' -> nu R r < Z.of_nat f -> nu R' r' < Z.of_nat f' ->
    cs_close f' r' blen = mapP2 (cs_close f r blen).
  Proof.
    induction f' as [|f' IH]; intros f r r' blen HW Hn Hn'; [f0 HW|]. destruct f as [|f]; [f0 HW|].
    destruct HW as [H|H].
    - destruct (current r) as [c r0] eqn:Ec. destruct (current r') as [c' r0'] eqn:Ec'.
      destruct (currentE_RR R Eb R13 _ _ _ _ _ _ H Ec Ec') as (-> & H0 & Hc & N0 & N0' & _).
      assert (Ecur : cur r = c) by (unfold cur; rewrite Ec; reflexivity).
      assert (Ecur' : cur r' = m13 c) by (unfold cur; rewrite Ec'; reflexivity).
      destruct (Z.eq_dec c 96) as [->|N96].
      + (* a backtick: a candidate closing run *)
        cbn [cs_close]. rewrite Ecur, Ecur', Ec, Ec'. cbn [m13 Z.eqb Pos.eqb negb snd].
        destruct (RR_PL R Eb _ _ H0) as [Q0 Q0'].
        pose proof (cs_run_sim (S f') (S f) r0 r0' 1 H0 ltac:(rewrite Hc; discriminate) ltac:(lia) ltac:(lia)) as (A & B & C).
        pose proof (cs_run_prog R (S f) r0 1 Q0) as (_ & _ & G1 & _). pose proof (cs_run_prog R' (S f') r0' 1 Q0') as (_ & _ & G1' & _).
        destruct (cs_run (S f) r0 1) as [[r1 k] al]. destruct (cs_run (S f') r0' 1) as [[r1' k'] al']. cbn [fst snd] in A, B, C, G1, G1'. subst k' al'.
        destruct (k =? blen).
        { unfold mapP2. cbn [fst snd]. f_equal; [apply (RR_pos R Eb), H|apply A]. }
        destruct (next r1) as [ok r2] eqn:En. destruct (next r1') as [ok' r2'] eqn:En'.
        destruct (Z.eq_dec (cur r1) 10) as [E10|N10].
        * destruct (nextE_RR10 R Eb _ _ _ _ _ _ A E10 En En') as [(-> & -> & H2 & _)|(-> & HM & Hlt)]; [reflexivity|]. cbn [negb].
          assert (Es : (if negb ok then (-1, -1) else cs_close f r2 blen) = cs_close (S f) r1 blen).
          { rewrite (cs_close_at10 f r1 blen E10), En. reflexivity. }
          rewrite Es. apply IH; [right; exact HM|lia|lia].
        * destruct (nextE_RR R Eb _ _ _ _ _ _ A N10 En En') as (-> & H2 & _ & [U1 U2] & [U1' U2']).
          destruct ok; cbn [negb]; [|reflexivity]. apply IH; [left; exact H2|specialize (U2 eq_refl); lia|specialize (U2' eq_refl); lia].
      + destruct (next r0) as [ok r2] eqn:En. destruct (next r0') as [ok' r2'] eqn:En'.
        assert (N96' : (m13 c =? 96) = false) by (rewrite m13_eqb by discriminate; apply Z.eqb_neq; exact N96).
        destruct (Z.eq_dec c 10) as [->|N10].
        * destruct (nextE_RR10 R Eb _ _ _ _ _ _ H0 Hc En En') as [(-> & -> & H2 & _)|(-> & HM & Hlt)].
          -- cbn [cs_close]. rewrite Ecur, Ecur', Ec, Ec'. cbn [m13 Z.eqb Pos.eqb negb snd]. rewrite En, En'. reflexivity.
          -- assert (E' : cs_close (S f') r' blen = cs_close f' r2' blen).
             { cbn [cs_close]. rewrite Ecur', Ec'. cbn [m13 Z.eqb Pos.eqb negb snd]. rewrite En'. reflexivity. }
             rewrite E'. apply IH; [right; apply (RM_uncur R Eb r 10 r0); [apply (RR_SPI R Eb _ _ H)|exact Ec|exact HM]|lia|lia].
        * destruct (nextE_RR R Eb _ _ _ _ _ _ H0 ltac:(rewrite Hc; exact N10) En En') as (-> & H2 & _ & [U1 U2] & [U1' U2']).
          cbn [cs_close]. rewrite Ecur, Ecur', Ec, Ec', N96'. replace (c =? 96) with false by (symmetry; apply Z.eqb_neq; exact N96).
          cbn [negb snd]. rewrite En, En'. destruct ok; cbn [negb]; [|reflexivity].
          apply IH; [left; exact H2|specialize (U2 eq_refl); lia|specialize (U2' eq_refl); lia].
    - destruct (current r) as [c r0] eqn:Ec. destruct (current r') as [c' r0'] eqn:Ec'.
      destruct (currentE_RM R Eb _ _ _ _ _ _ H Ec Ec') as (-> & -> & H1 & N1 & N1' & _).
      assert (Ecur : cur r = 10) by (unfold cur; rewrite Ec; reflexivity).
      assert (Ecur' : cur r' = 10) by (unfold cur; rewrite Ec'; reflexivity).
      destruct (next r0) as [ok r2] eqn:En. destruct (next r0') as [ok' r2'] eqn:En'.
      destruct (nextE_RM R Eb _ _ _ _ _ _ H1 En En') as (-> & H2 & _ & [U1 U2] & [U1' U2']).
      cbn [cs_close]. rewrite Ecur, Ecur', Ec, Ec'. cbn [Z.eqb Pos.eqb negb snd]. rewrite En, En'.
      destruct ok; cbn [negb]; [|reflexivity].
      apply IH; [left; exact H2|specialize (U2 eq_refl); lia|specialize (U2' eq_refl); lia].
  Qed.

  (* ---------------------------------------------------------------- parseCodeSpan *)
  Theorem parseCodeSpan_sim f f' (st st' : ist) start : isrc st = R -> isrc st' = R' -> unpFrom st' = map F (unpFrom st) -> SPI (unpFrom st) ->
    len R + ibudget (unpFrom st) < Z.of_nat f -> len R' + ibudget (unpFrom st) < Z.of_nat f' ->
    parseCodeSpan f' st' (P start) = (let '(a, b, c) := parseCodeSpan f st start in (P a, P b, P c)).
  Proof.
    intros Es Es' Eu G Hf Hf'. unfold parseCodeSpan. rewrite Es, Es', Eu.
    pose proof (RR_new R Eb (unpFrom st) start G) as H. destruct (RR_PL R Eb _ _ H) as [Q Q'].
    pose proof (nu_new R (unpFrom st) start (proj1 G)) as M.
    pose proof (nu_new R' (map F (unpFrom st)) (P start) ltac:(apply (spW_F R), G)) as M'. rewrite ibudget_F in M'.
    set (r := newReader R (unpFrom st) start) in *. set (r' := newReader R' (map F (unpFrom st)) (P start)) in *.
    pose proof (cs_open_sim f' f r r' 0 start H ltac:(lia) ltac:(lia)) as Ho.
    destruct (cs_open f r 0 start) as [[[[r1 n] c]|] d] eqn:Eo; destruct (cs_open f' r' 0 (P start)) as [[[[r1' n'] c']|] d'] eqn:Eo'; cbn [CsO] in Ho; try contradiction.
    - destruct Ho as (-> & -> & -> & H1).
      pose proof (cs_open_prog R _ _ _ _ _ _ _ _ Q Eo) as (_ & _ & G1 & _). pose proof (cs_open_prog R' _ _ _ _ _ _ _ _ Q' Eo') as (_ & _ & G1' & _).
      rewrite (cs_close_sim f' f r1 r1' n (or_introl H1) ltac:(lia) ltac:(lia)).
      destruct (cs_close f r1 n) as [ce se]. reflexivity.
    - subst d'. reflexivity.
  Qed.
End CodeSim.
Print Assumptions parseCodeSpan_sim.
