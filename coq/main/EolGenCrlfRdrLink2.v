From Coq Require Import List ZArith Lia Bool.
Import ListNotations.
Require Import Base Tree Rdr Link Collect ShapesBase ShapesR IFBase IFLink EolCRLFDefs EolCRLFSimBytes EolCRLFSimStream
  EolGenCrlfRdrDefs EolGenCrlfRdrStep EolGenCrlfRdrNext EolGenCrlfRdrLink.
Open Scope Z_scope.

Section LinkSim2.
  Variable R : bytes.
  Variable Eb : Z.
  Hypothesis R13 : ~ In 13 R.
  Notation P := (phiP R).
  Notation R' := (crlf R).
  Notation F := (phiI R).
  Notation RR := (RR R Eb).
  Notation RM := (RM R Eb).
  Notation PVc := (PVc R).
  Notation SPI := (SPI R Eb).
  Notation W := (W R Eb).

  Ltac f0 HW := exfalso; destruct (W_PL R Eb _ _ HW) as [?P1 ?P2]; first [eapply (fuel0 R); eassumption|eapply (fuel0 R'); eassumption].
  Ltac done2 H := cbn [fst snd]; split; [reflexivity|exact H].

  (* ---------------------------------------------------------------- skipLinkSpace *)
  Lemma sls_loop_sim : forall f' f r r', W r r' -> nu R r < Z.of_nat f -> nu R' r' < Z.of_nat f' ->
    fst (skipLinkSpace_loop f' r') = fst (skipLinkSpace_loop f r) /\ RR (snd (skipLinkSpace_loop f r)) (snd (skipLinkSpace_loop f' r')).
  Proof.
    induction f' as [|f' IH]; intros f r r' HW Hn Hn'; [f0 HW|]. destruct f as [|f]; [f0 HW|].
    destruct (current r) as [c r1] eqn:Ec. destruct (current r') as [c' r1'] eqn:Ec'.
    destruct (next r1) as [ok r2] eqn:En. destruct (next r1') as [ok' r2'] eqn:En'.
    destruct HW as [H|H].
    - destruct (currentE_RR R Eb R13 _ _ _ _ _ _ H Ec Ec') as (-> & H1 & Hc & N1 & N1' & _).
      destruct (Z.eq_dec c 10) as [->|N10].
      + destruct (nextE_RR10 R Eb _ _ _ _ _ _ H1 Hc En En') as [(-> & -> & H2 & _)|(-> & HM & Hlt)].
        * cbn [skipLinkSpace_loop]. rewrite Ec, Ec'. cbn [m13 Z.eqb Pos.eqb isSpaceTabOrLineEnding orb]. rewrite En, En'. done2 H2.
        * assert (E' : skipLinkSpace_loop (S f') r' = skipLinkSpace_loop f' r2').
          { cbn [skipLinkSpace_loop]. rewrite Ec'. cbn [m13 Z.eqb Pos.eqb isSpaceTabOrLineEnding orb]. rewrite En'. reflexivity. }
          rewrite E'. apply IH; [right; apply (RM_uncur R Eb r 10 r1); [apply (RR_SPI R Eb _ _ H)|exact Ec|exact HM]|lia|lia].
      + destruct (nextE_RR R Eb _ _ _ _ _ _ H1 ltac:(rewrite Hc; exact N10) En En') as (-> & H2 & _ & [U1 U2] & [U1' U2']).
        cbn [skipLinkSpace_loop]. rewrite Ec, Ec', m13_stle. destruct (isSpaceTabOrLineEnding c); [|done2 H1]. rewrite En, En'.
        destruct ok; [|done2 H2]. apply IH; [left; exact H2|specialize (U2 eq_refl); lia|specialize (U2' eq_refl); lia].
    - destruct (currentE_RM R Eb _ _ _ _ _ _ H Ec Ec') as (-> & -> & H1 & N1 & N1' & _).
      destruct (nextE_RM R Eb _ _ _ _ _ _ H1 En En') as (-> & H2 & _ & [U1 U2] & [U1' U2']).
      cbn [skipLinkSpace_loop]. rewrite Ec, Ec'. cbn [isSpaceTabOrLineEnding Z.eqb Pos.eqb orb]. rewrite En, En'.
      destruct ok; [|done2 H2]. apply IH; [left; exact H2|specialize (U2 eq_refl); lia|specialize (U2' eq_refl); lia].
  Qed.
  Lemma skipLinkSpace_sim f f' r r' : RR r r' -> nu R r < Z.of_nat f -> nu R' r' < Z.of_nat f' ->
    fst (skipLinkSpace f' r') = fst (skipLinkSpace f r) /\ RR (snd (skipLinkSpace f r)) (snd (skipLinkSpace f' r')).
  Proof.
    intros H Hn Hn'. unfold skipLinkSpace. destruct (current r) as [c r1] eqn:Ec. destruct (current r') as [c' r1'] eqn:Ec'.
    destruct (currentE_RR R Eb R13 _ _ _ _ _ _ H Ec Ec') as (-> & H1 & Hc & N1 & N1' & _).
    rewrite m13_eqb by discriminate. destruct (c =? 0); [done2 H1|]. apply sls_loop_sim; [left; exact H1|lia|lia].
  Qed.

  (* ---------------------------------------------------------------- skipSpacesAndTabs, readEOL *)
  Lemma sst_sim : forall f' f r r', RR r r' -> nu R r < Z.of_nat f -> nu R' r' < Z.of_nat f' ->
    fst (skipSpacesAndTabs f' r') = fst (skipSpacesAndTabs f r) /\ RR (snd (skipSpacesAndTabs f r)) (snd (skipSpacesAndTabs f' r')).
  Proof.
    induction f' as [|f' IH]; intros f r r' H Hn Hn'; [f0 (or_introl H : W r r')|]. destruct f as [|f]; [f0 (or_introl H : W r r')|].
    cbn [skipSpacesAndTabs]. destruct (current r) as [c r1] eqn:Ec. destruct (current r') as [c' r1'] eqn:Ec'.
    destruct (currentE_RR R Eb R13 _ _ _ _ _ _ H Ec Ec') as (-> & H1 & Hc & N1 & N1' & _).
    rewrite m13_sptab. destruct (isSpTab c) eqn:Es; [|rewrite m13_eqb by discriminate; done2 H1].
    assert (N10 : c <> 10) by (intros ->; discriminate Es).
    destruct (next r1) as [ok r2] eqn:En. destruct (next r1') as [ok' r2'] eqn:En'.
    destruct (nextE_RR R Eb _ _ _ _ _ _ H1 ltac:(rewrite Hc; exact N10) En En') as (-> & H2 & _ & [U1 U2] & [U1' U2']).
    destruct ok; [|done2 H2]. apply IH; [exact H2|specialize (U2 eq_refl); lia|specialize (U2' eq_refl); lia].
  Qed.

  Lemma readEOL_sim f f' r r' : RR r r' -> nu R r < Z.of_nat f -> nu R' r' < Z.of_nat f' ->
    fst (readEOL f' r') = P (fst (readEOL f r)) /\ RR (snd (readEOL f r)) (snd (readEOL f' r')).
  Proof.
    intros H Hn Hn'. unfold readEOL. destruct (sst_sim f' f r r' H Hn Hn') as [Eo H1].
    destruct (skipSpacesAndTabs f r) as [ok r1]. destruct (skipSpacesAndTabs f' r') as [ok' r1']. cbn [fst snd] in Eo, H1. subst ok'.
    destruct (negb ok); [cbn [fst snd]; split; [apply (RR_pos R Eb), H1|exact H1]|].
    destruct (current r1) as [c r2] eqn:Ec. destruct (current r1') as [c' r2'] eqn:Ec'.
    destruct (currentE_RR R Eb R13 _ _ _ _ _ _ H1 Ec Ec') as (-> & H2 & Hc & _ & _ & _ & _ & C13).
    rewrite (m13_13 c C13), (m13_10 c C13). replace (c =? 13) with false by (symmetry; apply Z.eqb_neq; exact C13).
    destruct (Z.eqb_spec c 10) as [->|N10]; [|cbn [fst snd]; split; [reflexivity|exact H2]].
    destruct (next r2) as [ok2 r3] eqn:En. destruct (next r2') as [ok2' r3'] eqn:En'.
    destruct (nextE_RR10 R Eb _ _ _ _ _ _ H2 Hc En En') as [(-> & -> & H3 & Hpv)|(-> & HM & Hlt)].
    - cbn [negb fst snd]. split; [exact Hpv|exact H3].
    - cbn [negb]. destruct (current r3') as [c2 r4'] eqn:Ec2.
      destruct (current r2) as [d r2b] eqn:Ecb.
      destruct (currentE_RM R Eb _ _ _ _ _ _ HM Ecb Ec2) as (_ & -> & HM2 & _).
      change (10 =? 10) with true. cbv iota.
      assert (Enb : next r2b = next r2) by (replace r2b with (snd (current r2)) by (rewrite Ecb; reflexivity); apply next_current).
      rewrite <- Enb in En. destruct (next r4') as [ok5 r5'] eqn:En5.
      destruct (nextE_RM R Eb _ _ _ _ _ _ HM2 En En5) as (_ & H5 & Hpv & _). cbn [fst snd]. split; [exact Hpv|exact H5].
  Qed.

  (* ---------------------------------------------------------------- parseLinkLabel *)
  Definition SimL (x y : option (reader * Z)) : Prop :=
    match x, y with
    | Some (r1, c1), Some (r1', c1') =>
        RR r1 r1' /\ c1 + nu R r1 < 999 /\ c1' + nu R' r1' < 999 /\ 0 <= c1 /\ 0 <= c1' /\ isSpaceTabOrLineEnding (cur r1) = false
    | None, None => True
    | _, _ => False
    end.
  Lemma nostle_ne c : isSpaceTabOrLineEnding c = false -> c <> 10 /\ c <> 32.
  Proof. intros H. split; intros ->; discriminate H. Qed.

  Lemma ll_skip_sim : forall f' f r r' ch ch', W r r' -> nu R r < Z.of_nat f -> nu R' r' < Z.of_nat f' ->
    ch + nu R r < 999 -> ch' + nu R' r' < 999 -> 0 <= ch -> 0 <= ch' -> SimL (ll_skip f r ch) (ll_skip f' r' ch').
  Proof.
    induction f' as [|f' IH]; intros f r r' ch ch' HW Hn Hn' Hb Hb' H0 H0'; [f0 HW|]. destruct f as [|f]; [f0 HW|].
    (* the common tail: after a step taken by both readers *)
    assert (T : forall r1 r1' : reader, RR r1 r1' -> nu R r1 < nu R r -> nu R' r1' < nu R' r' ->
       SimL (let chars := ch + 1 in let '(c, r2) := current r1 in
             if (maxChars <=? chars) || (c =? 91) || (c =? 93) then None
             else if negb (isSpaceTabOrLineEnding c) then Some (r2, chars) else ll_skip f r2 chars)
            (let chars := ch' + 1 in let '(c, r2) := current r1' in
             if (maxChars <=? chars) || (c =? 91) || (c =? 93) then None
             else if negb (isSpaceTabOrLineEnding c) then Some (r2, chars) else ll_skip f' r2 chars)).
    { intros r1 r1' H1 L1 L1'. cbv zeta. destruct (current r1) as [c r2] eqn:Ec. destruct (current r1') as [c' r2'] eqn:Ec'.
      destruct (currentE_RR R Eb R13 _ _ _ _ _ _ H1 Ec Ec') as (-> & H2 & Hc & N2 & N2' & _).
      destruct (RR_PL R Eb _ _ H2) as [Q2 Q2']. pose proof (nu_nonneg _ _ Q2) as Z2. pose proof (nu_nonneg _ _ Q2') as Z2'.
      replace (maxChars <=? ch + 1) with false by (symmetry; apply Z.leb_gt; unfold maxChars; lia).
      replace (maxChars <=? ch' + 1) with false by (symmetry; apply Z.leb_gt; unfold maxChars; lia).
      rewrite !m13_eqb by discriminate. cbn [orb]. destruct ((c =? 91) || (c =? 93)); [exact I|]. rewrite m13_stle.
      destruct (isSpaceTabOrLineEnding c) eqn:Es; cbn [negb].
      - apply IH; [left; exact H2|lia|lia|lia|lia|lia|lia].
      - cbn [SimL]. rewrite Hc. split; [exact H2|]. split; [lia|]. split; [lia|]. split; [lia|]. split; [lia|exact Es]. }
    destruct (next r) as [ok r1] eqn:En. destruct (next r') as [ok' r1'] eqn:En'.
    destruct HW as [H|H].
    - destruct (Z.eq_dec (cur r) 10) as [E10|N10].
      + destruct (nextE_RR10 R Eb _ _ _ _ _ _ H E10 En En') as [(-> & -> & H2 & _)|(-> & HM & Hlt)].
        * cbn [ll_skip]. rewrite En, En'. exact I.
        * destruct (current r) as [c0 r0] eqn:Ec0. destruct (current r1') as [c' r2'] eqn:Ec'.
          destruct (currentE_RM R Eb _ _ _ _ _ _ HM Ec0 Ec') as (_ & -> & HM2 & _ & N2' & _).
          destruct (RM_PL R Eb _ _ HM) as [Q Q']. pose proof (nu_nonneg _ _ Q') as ZQ'.
          assert (E' : ll_skip (S f') r' ch' = ll_skip f' r2' (ch' + 1)).
          { cbn [ll_skip]. rewrite En'. cbn [negb]. rewrite Ec'.
            replace (maxChars <=? ch' + 1) with false by (symmetry; apply Z.leb_gt; unfold maxChars; lia). reflexivity. }
          rewrite E'. apply IH; [right; apply (RM_uncur R Eb r c0 r0); [apply (RR_SPI R Eb _ _ H)|exact Ec0|exact HM2]|lia|lia|lia|lia|lia|lia].
      + destruct (nextE_RR R Eb _ _ _ _ _ _ H N10 En En') as (-> & H2 & _ & [U1 U2] & [U1' U2']).
        cbn [ll_skip]. rewrite En, En'. destruct ok; cbn [negb]; [|exact I]. apply T; [exact H2|apply U2; reflexivity|apply U2'; reflexivity].
    - destruct (nextE_RM R Eb _ _ _ _ _ _ H En En') as (-> & H2 & _ & [U1 U2] & [U1' U2']).
      cbn [ll_skip]. rewrite En, En'. destruct ok; cbn [negb]; [|exact I]. apply T; [exact H2|apply U2; reflexivity|apply U2'; reflexivity].
  Qed.

  Definition SimB (x y : option (reader * Z)) : Prop :=
    match x, y with
    | Some (r1, e1), Some (r1', e1') => RR r1 r1' /\ e1' = P e1 /\ nu R r1 < 999 /\ nu R' r1' < 999
    | None, None => True
    | _, _ => False
    end.
  Lemma ll_body_at10 f r ch ie : cur r = 10 -> ch < 999 ->
    ll_body (S f) r ch ie = (let '(ok, r2) := next r in if negb ok then None else ll_body f r2 (ch + 1) ie).
  Proof.
    intros E L. cbn [ll_body]. unfold cur in E. destruct (current r) as [c r1] eqn:Ec. cbn [fst] in E. subst c.
    replace (ch <? maxChars) with true by (symmetry; apply Z.ltb_lt; unfold maxChars; lia).
    cbn [Z.eqb Pos.eqb negb andb isSpaceTabOrLineEnding orb].
    replace r1 with (snd (current r)) by (rewrite Ec; reflexivity). rewrite next_current. reflexivity.
  Qed.

  Lemma ll_body_sim : forall f' f r r' ch ch' ie, W r r' -> nu R r < Z.of_nat f -> nu R' r' < Z.of_nat f' ->
    ch + nu R r < 999 -> ch' + nu R' r' < 999 -> 0 <= ch -> 0 <= ch' -> SimB (ll_body f r ch ie) (ll_body f' r' ch' (P ie)).
  Proof.
    induction f' as [|f' IH]; intros f r r' ch ch' ie HW Hn Hn' Hb Hb' H0 H0'; [f0 HW|]. destruct f as [|f]; [f0 HW|].
    destruct (W_PL R Eb _ _ HW) as [Q Q']. pose proof (nu_nonneg _ _ Q) as Z1. pose proof (nu_nonneg _ _ Q') as Z1'.
    destruct (current r) as [c r1] eqn:Ec. destruct (current r') as [c' r1'] eqn:Ec'.
    destruct (next r1) as [ok r2] eqn:En. destruct (next r1') as [ok' r2'] eqn:En'.
    assert (Lc : (ch <? maxChars) = true) by (apply Z.ltb_lt; unfold maxChars; lia).
    assert (Lc' : (ch' <? maxChars) = true) by (apply Z.ltb_lt; unfold maxChars; lia).
    destruct HW as [H|H].
    - destruct (currentE_RR R Eb R13 _ _ _ _ _ _ H Ec Ec') as (-> & H1 & Hc & N1 & N1' & Hp1 & Hp1' & _).
      destruct (Z.eq_dec c 10) as [->|N10].
      + destruct (nextE_RR10 R Eb _ _ _ _ _ _ H1 Hc En En') as [(-> & -> & H2 & _)|(-> & HM & Hlt)].
        * cbn [ll_body]. rewrite Ec, Ec', Lc, Lc'. cbn [m13 Z.eqb Pos.eqb negb andb isSpaceTabOrLineEnding orb]. rewrite En, En'. exact I.
        * assert (E' : ll_body (S f') r' ch' (P ie) = ll_body f' r2' (ch' + 1) (P ie)).
          { cbn [ll_body]. rewrite Ec', Lc'. cbn [m13 Z.eqb Pos.eqb negb andb isSpaceTabOrLineEnding orb]. rewrite En'. reflexivity. }
          rewrite E'. apply IH; [right; apply (RM_uncur R Eb r 10 r1); [apply (RR_SPI R Eb _ _ H)|exact Ec|exact HM]|lia|lia|lia|lia|lia|lia].
      + destruct (nextE_RR R Eb _ _ _ _ _ _ H1 ltac:(rewrite Hc; exact N10) En En') as (-> & H2 & _ & [U1 U2] & [U1' U2']).
        cbn [ll_body]. rewrite Ec, Ec', Lc, Lc', !m13_eqb by discriminate.
        destruct (negb (true && negb (c =? 91) && negb (c =? 93))).
        { cbn [SimB]. split; [exact H1|]. split; [reflexivity|]. split; lia. }
        destruct (Z.eqb_spec c 92) as [->|N92].
        * (* a backslash *)
          rewrite En, En'. destruct ok; cbn [negb]; [|exact I]. specialize (U2 eq_refl). specialize (U2' eq_refl).
          destruct (current r2) as [c2 r3] eqn:Ec2. destruct (current r2') as [c2' r3'] eqn:Ec2'.
          destruct (currentE_RR R Eb R13 _ _ _ _ _ _ H2 Ec2 Ec2') as (-> & H3 & Hc3 & N3 & N3' & Hp3 & Hp3' & _).
          rewrite m13_stle.
          assert (Ei1 : r_pos r1' + 1 = P (r_pos r1 + 1)) by (apply (pos_succ R Eb); [exact H1|rewrite Hc; discriminate|rewrite Hc; discriminate]).
          assert (Ei : (if negb (isSpaceTabOrLineEnding c2) then r_pos r3' + 1 else r_pos r1' + 1) =
                       P (if negb (isSpaceTabOrLineEnding c2) then r_pos r3 + 1 else r_pos r1 + 1)).
          { destruct (isSpaceTabOrLineEnding c2) eqn:Es; cbn [negb]; [exact Ei1|].
            destruct (nostle_ne _ Es) as [A B]. apply (pos_succ R Eb); [exact H3|rewrite Hc3; exact A|rewrite Hc3; exact B]. }
          rewrite Ei. set (ie2 := if negb (isSpaceTabOrLineEnding c2) then r_pos r3 + 1 else r_pos r1 + 1).
          destruct (RR_PL R Eb _ _ H3) as [Q3 Q3']. pose proof (nu_nonneg _ _ Q3) as Z3. pose proof (nu_nonneg _ _ Q3') as Z3'.
          destruct (next r3) as [ok2 r4] eqn:En3. destruct (next r3') as [ok2' r4'] eqn:En3'.
          destruct (Z.eq_dec c2 10) as [->|N210].
          -- destruct (nextE_RR10 R Eb _ _ _ _ _ _ H3 Hc3 En3 En3') as [(-> & -> & H4 & _)|(-> & HM & Hlt)]; [exact I|]. cbn [negb].
             assert (Es : (if negb ok2 then None else ll_body f r4 (ch + 1 + 1) ie2) = ll_body (S f) r3 (ch + 1) ie2).
             { rewrite (ll_body_at10 f r3 (ch + 1) ie2 Hc3 ltac:(lia)). rewrite En3. reflexivity. }
             rewrite Es. apply IH; [right; exact HM|lia|lia|lia|lia|lia|lia].
          -- destruct (nextE_RR R Eb _ _ _ _ _ _ H3 ltac:(rewrite Hc3; exact N210) En3 En3') as (-> & H4 & _ & [V1 V2] & [V1' V2']).
             destruct ok2; cbn [negb]; [|exact I]. apply IH; [left; exact H4|specialize (V2 eq_refl); lia|specialize (V2' eq_refl); lia|specialize (V2 eq_refl); lia|specialize (V2' eq_refl); lia|lia|lia].
        * rewrite m13_stle.
          assert (Ei : (if negb (isSpaceTabOrLineEnding c) then r_pos r1' + 1 else P ie) = P (if negb (isSpaceTabOrLineEnding c) then r_pos r1 + 1 else ie)).
          { destruct (isSpaceTabOrLineEnding c) eqn:Es; cbn [negb]; [reflexivity|].
            destruct (nostle_ne _ Es) as [A B]. apply (pos_succ R Eb); [exact H1|rewrite Hc; exact A|rewrite Hc; exact B]. }
          rewrite Ei, En, En'. destruct ok; cbn [negb]; [|exact I].
          apply IH; [left; exact H2|specialize (U2 eq_refl); lia|specialize (U2' eq_refl); lia|specialize (U2 eq_refl); lia|specialize (U2' eq_refl); lia|lia|lia].
    - destruct (currentE_RM R Eb _ _ _ _ _ _ H Ec Ec') as (-> & -> & H1 & N1 & N1' & _).
      destruct (nextE_RM R Eb _ _ _ _ _ _ H1 En En') as (-> & H2 & _ & [U1 U2] & [U1' U2']).
      cbn [ll_body]. rewrite Ec, Ec', Lc, Lc'. cbn [Z.eqb Pos.eqb negb andb isSpaceTabOrLineEnding orb]. rewrite En, En'.
      destruct ok; cbn [negb]; [|exact I].
      apply IH; [left; exact H2|specialize (U2 eq_refl); lia|specialize (U2' eq_refl); lia|specialize (U2 eq_refl); lia|specialize (U2' eq_refl); lia|lia|lia].
  Qed.
End LinkSim2.
