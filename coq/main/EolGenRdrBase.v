(* C14 (i), final newline, the link-reference-definition reader: two runs of the multi-span reader, one over src with the
   entries U of a paragraph, one over src ++ [10] with the entries map (bumpI (len src)) U (the last entry one byte longer when
   it ends at len src).  EolGenRdrBase: the state relations and the primitive steps (curNode, current, next, ...).

   Rin r1 r2 : same position p < len src, same virtual / previous position, spans of run 2 = map bumpI (spans of run 1);
   T0  r1 r2 : run 1 exhausted at L = len src (no spans left); run 2 at L inside the last span, current byte = LF;
   T1  r1 r2 : run 1 exhausted at L; run 2 exhausted at L + 1. *)
From Coq Require Import List ZArith Lia Bool.
Import ListNotations.
Require Import Base Tree Rdr Link Collect LP ShapesBase ShapesR IFBase EolFinalDefs LADef.
Open Scope Z_scope.

Lemma bumpI_kind L u : ikind (bumpI L u) = ikind u.
Proof. destruct u as [k s e i r ks]. cbn [bumpI]. destruct (k =? IndentKind); reflexivity. Qed.
Lemma bumpI_start L u : istart (bumpI L u) = istart u.
Proof. destruct u as [k s e i r ks]. cbn [bumpI]. destruct (k =? IndentKind); reflexivity. Qed.
Lemma bumpI_indent L u : iindent (bumpI L u) = iindent u.
Proof. destruct u as [k s e i r ks]. cbn [bumpI]. destruct (k =? IndentKind); reflexivity. Qed.
Lemma bumpI_end L u : iend (bumpI L u) = if ikind u =? IndentKind then iend u else bump L (iend u).
Proof. destruct u as [k s e i r ks]. cbn [bumpI ikind iend]. destruct (k =? IndentKind); reflexivity. Qed.
Lemma bumpI_same L u : iend u <> L -> bumpI L u = u.
Proof.
  destruct u as [k s e i r ks]. cbn [bumpI iend]. intros H. destruct (k =? IndentKind); [reflexivity|].
  unfold bump. destruct (Z.eqb_spec e L); [contradiction|reflexivity].
Qed.
Lemma bumpI_indentK L u : ikind u = IndentKind -> bumpI L u = u.
Proof. destruct u as [k s e i r ks]. cbn [bumpI ikind]. intros ->. reflexivity. Qed.

Lemma skipn_map' {A B} (f : A -> B) : forall n l, skipn n (map f l) = map f (skipn n l).
Proof. induction n as [|n IH]; intros [|x l]; cbn [skipn map]; try reflexivity. apply IH. Qed.
Lemma from_map {A B} (f : A -> B) l a : from_ (map f l) a = map f (from_ l a).
Proof. unfold from_. apply skipn_map'. Qed.
Lemma hd_error_map {A B} (f : A -> B) l : hd_error (map f l) = option_map f (hd_error l).
Proof. destruct l; reflexivity. Qed.

Section G.
Variable src : bytes.
Local Notation L := (len src).
Local Notation src2 := (src ++ [10]).
Hypothesis HL : 0 < L.
Hypothesis Hlast : isEOLz (at_ src (L - 1)) = false.
Set Default Proof Using "All".

Lemma len2 : len src2 = L + 1.
Proof. rewrite len_app. reflexivity. Qed.
Lemma at2_in p : p < L -> at_ src2 p = at_ src p.
Proof. intros H. apply at_app_l. exact H. Qed.
Lemma at2_L : at_ src2 L = 10.
Proof. rewrite at_app_r by lia. replace (L - L) with 0 by lia. reflexivity. Qed.

(* ---------- good span lists of run 1 ---------- *)
Definition gE (u : inline) : Prop :=
  0 <= istart u /\ istart u < iend u /\ iend u <= L /\ (ikind u = IndentKind -> iend u < L).
Fixpoint GS (sp : list inline) : Prop :=
  match sp with [] => True | u :: r => gE u /\ (forall j, In j r -> iend u <= istart j) /\ GS r end.
Lemma GS_app_r : forall pre l, GS (pre ++ l) -> GS l.
Proof. induction pre as [|x pre IH]; intros l H; [exact H|]. apply IH. cbn [app GS] in H. tauto. Qed.
Lemma GS_skipn n l : GS l -> GS (skipn n l).
Proof. intros H. rewrite <- (firstn_skipn n l) in H. apply GS_app_r in H. exact H. Qed.
Lemma GS_from l a : GS l -> GS (from_ l a).
Proof. apply GS_skipn. Qed.
Lemma GS_In : forall l u, GS l -> In u l -> gE u.
Proof. induction l as [|x l IH]; intros u H Hu; [destruct Hu|]. cbn [GS] in H. destruct Hu as [E|Hu]; [subst; tauto|apply IH; tauto]. Qed.
(* a span that ends at L is the last one *)
Lemma GS_last u r : GS (u :: r) -> iend u = L -> r = [].
Proof.
  intros (Hu & Hs & Hr) E. destruct r as [|j r]; [reflexivity|]. exfalso.
  specialize (Hs j (or_introl eq_refl)). cbn [GS] in Hr. destruct Hr as ((A & B & C & _) & _). lia.
Qed.

Definition bsp (sp : list inline) : list inline := map (bumpI L) sp.

Lemma spanHas_bump u p : gE u -> p < L -> spanHas (bumpI L u) p = spanHas u p.
Proof.
  intros (A & B & C & D) Hp. unfold spanHas. rewrite bumpI_start, bumpI_end.
  destruct (ikind u =? IndentKind); [reflexivity|]. unfold bump. destruct (Z.eqb_spec (iend u) L) as [E|E]; [|reflexivity].
  rewrite E. replace (0 <=? L + 1) with true by (symmetry; apply Z.leb_le; lia). replace (0 <=? L) with true by (symmetry; apply Z.leb_le; lia).
  replace (istart u <=? L + 1) with true by (symmetry; apply Z.leb_le; lia). replace (istart u <=? L) with true by (symmetry; apply Z.leb_le; lia).
  replace (p <? L + 1) with true by (symmetry; apply Z.ltb_lt; lia). replace (p <? L) with true by (symmetry; apply Z.ltb_lt; lia). reflexivity.
Qed.
Lemma nodeIdx_bump : forall sp p k, GS sp -> p < L -> nodeIdx (bsp sp) p k = nodeIdx sp p k.
Proof.
  induction sp as [|u r IH]; intros p k H Hp; [reflexivity|]. cbn [GS] in H. destruct H as (Hu & _ & Hr).
  unfold bsp. cbn [map nodeIdx]. rewrite bumpI_start, (spanHas_bump u p Hu Hp). fold (bsp r). rewrite (IH p (k + 1) Hr Hp). reflexivity.
Qed.
(* beyond every span: no node *)
Lemma nodeIdx_beyond : forall sp p k, (forall u, In u sp -> iend u <= p) -> nodeIdx sp p k = -1.
Proof.
  induction sp as [|u r IH]; intros p k H; [reflexivity|]. cbn [nodeIdx]. destruct (p <? istart u); [reflexivity|].
  replace (spanHas u p) with false.
  2:{ symmetry. unfold spanHas. apply andb_false_iff. right. apply Z.ltb_ge. apply H. left. reflexivity. }
  apply IH. intros v Hv. apply H. right. exact Hv.
Qed.
Lemma nodeIdx_L sp : GS sp -> nodeIndexForPosition sp L = -1.
Proof. intros H. apply nodeIdx_beyond. intros u Hu. apply (GS_In sp u H Hu). Qed.
Lemma nodeIdx_L2 sp : GS sp -> nodeIndexForPosition (bsp sp) (L + 1) = -1.
Proof.
  intros H. apply nodeIdx_beyond. intros u Hu. unfold bsp in Hu. apply in_map_iff in Hu. destruct Hu as (v & <- & Hv).
  destruct (GS_In sp v H Hv) as (A & B & C & D). rewrite bumpI_end. destruct (ikind v =? IndentKind); [lia|]. unfold bump. destruct (iend v =? L); lia.
Qed.

(* spW for both runs (the fuel lemmas of IFBase need it) *)
Lemma GS_spW1 : forall sp, GS sp -> spW src sp = true.
Proof.
  induction sp as [|u r IH]; intros H; [reflexivity|]. cbn [GS] in H. destruct H as ((A & B & C & D) & Hs & Hr). cbn [spW].
  rewrite (IH Hr), andb_true_r. apply andb_true_iff. split.
  - rewrite !andb_true_iff, !Z.leb_le. lia.
  - apply forallb_forall. intros j Hj. apply Z.leb_le. apply Hs, Hj.
Qed.
Lemma GS_spW2 : forall sp, GS sp -> spW src2 (bsp sp) = true.
Proof.
  induction sp as [|u r IH]; intros H; [reflexivity|]. pose proof H as H0. cbn [GS] in H. destruct H as ((A & B & C & D) & Hs & Hr).
  unfold bsp. cbn [map spW]. fold (bsp r). rewrite (IH Hr), andb_true_r. rewrite bumpI_start, bumpI_end, len2. apply andb_true_iff. split.
  - rewrite !andb_true_iff, !Z.leb_le. destruct (ikind u =? IndentKind); [lia|]. unfold bump. destruct (iend u =? L); lia.
  - apply forallb_forall. intros j Hj. apply Z.leb_le. unfold bsp in Hj. apply in_map_iff in Hj. destruct Hj as (v & <- & Hv). rewrite bumpI_start.
    destruct (ikind u =? IndentKind); [apply Hs, Hv|]. unfold bump. destruct (Z.eqb_spec (iend u) L) as [E|E]; [|apply Hs, Hv].
    rewrite (GS_last u r H0 E) in Hv. destruct Hv.
Qed.
Lemma ibudget_bsp : forall sp, ibudget (bsp sp) = ibudget sp.
Proof. induction sp as [|u r IH]; [reflexivity|]. unfold bsp. cbn [map ibudget]. fold (bsp r). rewrite IH, bumpI_kind, bumpI_indent. reflexivity. Qed.

(* ---------- the relations ---------- *)
Definition Rin (r1 r2 : reader) : Prop :=
  r_src r1 = src /\ r_src r2 = src2 /\ r_pos r2 = r_pos r1 /\ r_vpos r2 = r_vpos r1 /\ r_prev r2 = r_prev r1 /\
  r_spans r2 = bsp (r_spans r1) /\ GS (r_spans r1) /\ r_pos r1 < L /\ r_prev r1 < L - 1.
Definition E1 (r : reader) : Prop := r_src r = src /\ r_pos r = L /\ r_spans r = [].
Definition E2 (r : reader) : Prop := r_src r = src2 /\ r_pos r = L + 1 /\ r_spans r = [].
Definition A2 (r : reader) : Prop :=
  r_src r = src2 /\ r_pos r = L /\
  exists n, r_spans r = [n] /\ (ikind n =? IndentKind) = false /\ 0 <= istart n /\ istart n <= L /\ iend n = L + 1.
Definition T0 (r1 r2 : reader) : Prop := E1 r1 /\ A2 r2 /\ r_prev r2 = r_prev r1 /\ r_prev r1 < L.
Definition T1 (r1 r2 : reader) : Prop := E1 r1 /\ E2 r2.
Definition Rel0 r1 r2 := Rin r1 r2 \/ T0 r1 r2.
Definition Rel r1 r2 := Rin r1 r2 \/ T0 r1 r2 \/ T1 r1 r2.

Lemma Rin_mk sp p v pv : GS sp -> p < L -> pv < L - 1 ->
  Rin {| r_src := src; r_spans := sp; r_pos := p; r_vpos := v; r_prev := pv |}
      {| r_src := src2; r_spans := bsp sp; r_pos := p; r_vpos := v; r_prev := pv |}.
Proof. intros H1 H2 H3. unfold Rin. cbn [r_src r_spans r_pos r_vpos r_prev]. repeat split; assumption. Qed.
Lemma Rin_new sp p : GS sp -> p < L -> Rin (newReader src sp p) (newReader src2 (bsp sp) p).
Proof. intros. unfold newReader. apply Rin_mk; try assumption. lia. Qed.

Ltac rsplit H :=
  match type of H with Rin ?r ?r' =>
    let sp := fresh "sp" in let sp' := fresh "sp'" in let p := fresh "p" in let HG := fresh "HG" in let Hp := fresh "Hp" in let Hpv := fresh "Hpv" in
    destruct r as [?s sp p ?v ?pv]; destruct r' as [?s' sp' ?p' ?v' ?pv'];
    unfold Rin in H; cbn [r_src r_spans r_pos r_vpos r_prev] in H; destruct H as (-> & -> & -> & -> & -> & -> & HG & Hp & Hpv) end.

(* ---------- tail states: single-run facts ---------- *)
Lemma E1_current r : E1 r -> current r = (0, r).
Proof. intros (A & B & C). unfold current. rewrite A, B. rewrite Z.leb_refl. reflexivity. Qed.
Lemma E1_next r : E1 r -> next r = (false, r).
Proof. intros (A & B & C). unfold next. rewrite (curNode_nil r C). reflexivity. Qed.
Lemma E2_current r : E2 r -> current r = (0, r).
Proof. intros (A & B & C). unfold current. rewrite A, B, len2. rewrite Z.leb_refl. reflexivity. Qed.
Lemma E2_next r : E2 r -> next r = (false, r).
Proof. intros (A & B & C). unfold next. rewrite (curNode_nil r C). reflexivity. Qed.
Lemma A2_curNode r : A2 r -> exists n, curNode r = (Some n, r) /\ (ikind n =? IndentKind) = false /\ iend n = L + 1 /\ r_spans r = [n].
Proof.
  intros (A & B & n & C & D & E & F & G). exists n. split; [|tauto]. apply (curNode_head n []); [exact C|].
  rewrite B. apply spanHas_intro; lia.
Qed.
Lemma A2_current r : A2 r -> current r = (10, r).
Proof.
  intros H. destruct (A2_curNode r H) as (n & Ec & Ek & Ee & Es). destruct H as (A & B & _).
  unfold current. rewrite A, B, len2. destruct (Z.leb_spec (L + 1) L); [lia|]. rewrite Ec. cbn [okind]. rewrite Ek, at2_L. reflexivity.
Qed.
Lemma A2_next r : A2 r -> exists r', next r = (false, r') /\ E2 r' /\ r_prev r' = L.
Proof.
  intros H. destruct (A2_curNode r H) as (n & Ec & Ek & Ee & Es). destruct H as (A & B & _).
  unfold next. rewrite Ec, Ek, Ee, Es, A, B. cbn [andb negb tl nextSpan]. destruct (Z.ltb_spec (L + 1) (L + 1)); [lia|].
  eexists. split; [reflexivity|]. split; [|reflexivity]. unfold E2. cbn [r_src r_pos r_spans]. tauto.
Qed.
Lemma T0_pos r1 r2 : T0 r1 r2 -> r_pos r1 = L /\ r_pos r2 = L.
Proof. intros ((_ & A & _) & (_ & B & _) & _). tauto. Qed.
Lemma T0_prev r1 r2 : T0 r1 r2 -> r_prev r2 = r_prev r1 /\ r_prev r1 < L.
Proof. intros (_ & _ & A & B). tauto. Qed.

(* PL for run 2 *)
Lemma Rin_PL2 r1 r2 : Rin r1 r2 -> PL src2 r2.
Proof. intros (A & B & C & D & E & F & G & H). split; [exact B|]. rewrite F. apply GS_spW2, G. Qed.
Lemma Rin_pos r1 r2 : Rin r1 r2 -> r_pos r2 = r_pos r1 /\ r_pos r1 < L.
Proof. intros (A & B & C & D & E & F & G & H & K). tauto. Qed.
Lemma Rin_prev r1 r2 : Rin r1 r2 -> r_prev r2 = r_prev r1 /\ r_prev r1 < L - 1.
Proof. intros (A & B & C & D & E & F & G & H & K). tauto. Qed.
Lemma Rin_PL1 r1 r2 : Rin r1 r2 -> PL src r1.
Proof. intros (A & B & C & D & E & F & G & H). split; [exact A|]. apply GS_spW1, G. Qed.
Lemma A2_PL r : A2 r -> PL src2 r.
Proof.
  intros (A & B & n & C & D & E & F & G). split; [exact A|]. rewrite C. cbn [spW forallb]. rewrite len2, G.
  rewrite !andb_true_iff, !Z.leb_le. repeat split; lia.
Qed.
Lemma A2_nu r : A2 r -> 1 <= nu src2 r.
Proof.
  intros H. destruct (A2_curNode r H) as (n & Ec & _). assert (En : fst (curNode r) = Some n) by (rewrite Ec; reflexivity).
  rewrite (nu_in src2 r n En). apply (mu_pos_in src2 r n (A2_PL r H) En).
Qed.

(* ---------- Rin: curNode ---------- *)
Lemma Rin_curNode r1 r2 : Rin r1 r2 ->
  fst (curNode r2) = option_map (bumpI L) (fst (curNode r1)) /\ Rin (snd (curNode r1)) (snd (curNode r2)) /\
  (forall n, fst (curNode r1) = Some n -> gE n /\ istart n <= r_pos r1 < iend n /\ exists rest, r_spans (snd (curNode r1)) = n :: rest).
Proof.
  intros H. rsplit H. unfold curNode. cbn [r_src r_spans r_pos r_vpos r_prev]. cbv zeta. unfold nodeIndexForPosition.
  rewrite (nodeIdx_bump sp p 0 HG Hp).
  destruct (Z.ltb_spec (nodeIdx sp p 0) 0) as [Hlt|Hge].
  - cbn [fst snd option_map]. split; [reflexivity|]. split; [apply (Rin_mk [] p v pv I Hp Hpv)|]. intros n Hn. discriminate Hn.
  - cbn [fst snd]. unfold bsp. rewrite from_map, hd_error_map. split; [reflexivity|]. split; [apply (Rin_mk (from_ sp (nodeIdx sp p 0))); [apply GS_from, HG|exact Hp|exact Hpv]|].
    intros n Hn. cbn [r_spans].
    destruct (nodeIdx_split sp p 0 ltac:(lia)) as [Hc|(_ & pre & m & rest & Ea & Eb & Ec)]; [lia|].
    replace (nodeIdx sp p 0 - 0) with (nodeIdx sp p 0) in Eb by lia. unfold from_ in *. rewrite Eb in *. cbn [hd_error] in Hn. inversion Hn; subst m.
    assert (HG' : GS (n :: rest)) by (rewrite Ea in HG; apply GS_app_r in HG; exact HG).
    split; [apply HG'|]. apply spanHas_range in Ec. split; [lia|]. exists rest. reflexivity.
Qed.

(* ---------- Rin: current ---------- *)
Lemma nullRepl_ne0 v : nullRepl v <> 0.
Proof. unfold nullRepl. destruct (v =? 0); [discriminate|]. destruct (v =? 1); discriminate. Qed.
Lemma nullRepl_notEol v : isEOLz (nullRepl v) = false.
Proof. unfold nullRepl. destruct (v =? 0); [reflexivity|]. destruct (v =? 1); reflexivity. Qed.

Lemma Rin_current r1 r2 : Rin r1 r2 ->
  fst (current r2) = fst (current r1) /\ Rin (snd (current r1)) (snd (current r2)) /\ fst (current r1) <> 0 /\
  (isEOLz (fst (current r1)) = true -> r_pos r1 < L - 1).
Proof.
  intros H. pose proof (Rin_curNode r1 r2 H) as (Hn & Hr & _). unfold current.
  destruct (curNode r1) as [n r1']. destruct (curNode r2) as [n' r2']. cbn [fst snd] in Hn, Hr. subst n'.
  pose proof H as H0. rsplit H. cbn [r_src r_spans r_pos r_vpos r_prev]. rewrite len2.
  destruct (Z.leb_spec L p); [lia|]. destruct (Z.leb_spec (L + 1) p); [lia|].
  replace (okind (option_map (bumpI L) n)) with (okind n) by (destruct n as [m|]; cbn [option_map okind]; [rewrite bumpI_kind|]; reflexivity).
  destruct (okind n =? IndentKind); [cbn [fst snd]; split; [reflexivity|split; [exact Hr|split; [discriminate|intros E; discriminate E]]]|].
  rewrite (at2_in p Hp). destruct (Z.eqb_spec (at_ src p) 0) as [E0|E0]; cbn [fst snd]; (split; [reflexivity|split; [exact Hr|]]).
  - split; [apply nullRepl_ne0|]. rewrite nullRepl_notEol. discriminate.
  - split; [exact E0|]. intros He. destruct (Z.eq_dec p (L - 1)) as [->|Hne]; [rewrite Hlast in He; discriminate|lia].
Qed.

(* ---------- computeNullVirtualPosition ---------- *)
Lemma nulRunBack_two : forall f1 f2 start, 0 <= start <= L -> start <= Z.of_nat f1 -> start <= Z.of_nat f2 ->
  nulRunBack src2 start f2 = nulRunBack src start f1.
Proof.
  induction f1 as [|f1 IH]; intros f2 start Hs H1 H2.
  - assert (start = 0) by lia. subst start. destruct f2; reflexivity.
  - destruct (Z.eq_dec start 0) as [->|Hne]; [destruct f2; reflexivity|].
    destruct f2 as [|f2]; [lia|]. cbn [nulRunBack]. rewrite (at2_in (start - 1)) by lia.
    destruct ((0 <? start) && (at_ src (start - 1) =? 0)); [|reflexivity]. apply IH; lia.
Qed.
Lemma cnvp_two q : 0 <= q < L -> computeNullVirtualPosition src2 q = computeNullVirtualPosition src q.
Proof.
  intros Hq. unfold computeNullVirtualPosition. rewrite len2, (at2_in q) by lia.
  destruct (Z.leb_spec L q); [lia|]. destruct (Z.leb_spec (L + 1) q); [lia|]. cbn [orb].
  destruct (negb (at_ src q =? 0)); [reflexivity|]. rewrite (nulRunBack_two (length src) (length src2) q); [reflexivity|lia| |].
  - unfold len in Hq. lia.
  - rewrite app_length. unfold len in Hq. cbn [length]. lia.
Qed.

(* ---------- nextSpan ---------- *)
Lemma nextSpan_bsp : forall sp, nextSpan (bsp sp) = match nextSpan sp with Some (i, s) => Some (bumpI L i, bsp s) | None => None end.
Proof.
  induction sp as [|u r IH]; [reflexivity|]. unfold bsp. cbn [map nextSpan]. fold (bsp r). rewrite bumpI_kind.
  destruct (_ || _ || _); [reflexivity|exact IH].
Qed.
Lemma nextSpan_suffix : forall sp i s, nextSpan sp = Some (i, s) -> exists pre t, sp = pre ++ s /\ s = i :: t.
Proof.
  induction sp as [|u r IH]; intros i s H; [discriminate|]. cbn [nextSpan] in H. destruct (_ || _ || _).
  - inversion H; subst. exists [], r. split; reflexivity.
  - destruct (IH i s H) as (pre & t & A & B). exists (u :: pre), t. split; [cbn [app]; f_equal; exact A|exact B].
Qed.

(* ---------- Rin: next ---------- *)
Lemma Rin_next r1 r2 : Rin r1 r2 ->
  (fst (next r2) = fst (next r1) /\ Rin (snd (next r1)) (snd (next r2)) /\ (fst (next r1) = true -> r_prev (snd (next r1)) = r_pos r1)) \/
  (fst (next r1) = false /\ fst (next r2) = true /\ T0 (snd (next r1)) (snd (next r2)) /\ r_pos r1 = L - 1 /\ r_prev (snd (next r1)) = L - 1).
Proof.
  intros H. pose proof (Rin_curNode r1 r2 H) as (Hn & Hr & Hin). unfold next.
  pose proof (curNode_fields r1) as F1. cbv zeta in F1.
  destruct (curNode r1) as [n r1']. destruct (curNode r2) as [n' r2']. cbn [fst snd] in Hn, Hr, Hin, F1. subst n'.
  destruct n as [node|]; cbn [option_map]; [|left; cbn [fst snd]; split; [reflexivity|split; [exact Hr|discriminate]]].
  destruct (Hin node eq_refl) as ((G1 & G2 & G3 & G4) & Hpos & rest & Hsp).
  assert (Ep1 : r_pos r1' = r_pos r1) by tauto. clear F1.
  clear Hin. rsplit Hr. cbn [r_src r_spans r_pos r_vpos r_prev] in *. subst sp. rewrite bumpI_kind, bumpI_indent, bumpI_end. subst p.
  destruct ((ikind node =? IndentKind) && (v <? iindent node)) eqn:Eiv.
  { apply andb_true_iff in Eiv. destruct Eiv as [Ek _]. apply Z.eqb_eq in Ek. specialize (G4 Ek).
    left. cbn [fst snd r_prev r_pos]. split; [reflexivity|]. split; [apply (Rin_mk (node :: rest)); [assumption|assumption|lia]|reflexivity]. }
  destruct (ikind node =? IndentKind) eqn:Ek; cbn [negb andb].
  - (* Indent node, virtual positions used up: on to the next span *)
    apply Z.eqb_eq in Ek. specialize (G4 Ek). unfold bsp. cbn [map tl]. fold (bsp rest). rewrite nextSpan_bsp.
    destruct (nextSpan rest) as [[i s1]|] eqn:En.
    + destruct (nextSpan_suffix rest i s1 En) as (pre & t & A & B). left. cbn [fst snd r_prev r_pos]. split; [reflexivity|]. split; [|reflexivity].
      assert (Gs : GS s1) by (cbn [GS] in HG; destruct HG as (_ & _ & HG); rewrite A in HG; apply GS_app_r in HG; exact HG).
      assert (Gi : gE i) by (rewrite B in Gs; apply Gs). rewrite bumpI_start. rewrite (cnvp_two (istart i)) by (destruct Gi; lia).
      apply Rin_mk; [exact Gs|destruct Gi; lia|lia].
    + left. cbn [fst snd r_prev r_pos]. split; [reflexivity|]. split; [apply (Rin_mk []); [exact I|lia|lia]|discriminate].
  - unfold bump. destruct (Z.eqb_spec (iend node) L) as [Ee|Ee].
    + (* the last span, which ends at L *)
      assert (Er : rest = []) by (apply (GS_last node rest HG Ee)). subst rest. rewrite Ee.
      destruct (Z.ltb_spec (r_pos r1 + 1) L) as [Lt|Ge].
      * destruct (Z.ltb_spec (r_pos r1 + 1) (L + 1)); [|lia]. left. cbn [fst snd r_prev r_pos]. split; [reflexivity|]. split; [|reflexivity].
        rewrite !(at2_in) by lia. apply (Rin_mk [node]); [exact HG|exact Lt|lia].
      * destruct (Z.ltb_spec (r_pos r1 + 1) (L + 1)); [|lia]. right. cbn [tl nextSpan fst snd r_prev r_pos].
        split; [reflexivity|]. split; [reflexivity|]. assert (Ep : r_pos r1 + 1 = L) by lia. rewrite Ep. split; [|split; lia].
        unfold T0, E1, A2. cbn [r_src r_pos r_spans r_prev]. split; [tauto|]. split; [|split; [reflexivity|lia]]. split; [reflexivity|]. split; [reflexivity|].
        exists (bumpI L node). unfold bsp. cbn [map]. split; [reflexivity|]. rewrite bumpI_kind, bumpI_start, bumpI_end, Ek. unfold bump. rewrite Ee, Z.eqb_refl.
        split; [reflexivity|]. split; [lia|]. split; [lia|reflexivity].
    + assert (Hlt : iend node < L) by lia.
      destruct (Z.ltb_spec (r_pos r1 + 1) (iend node)) as [Lt|Ge].
      * left. cbn [fst snd r_prev r_pos]. split; [reflexivity|]. split; [|reflexivity]. rewrite !(at2_in) by lia.
        apply (Rin_mk (node :: rest)); [exact HG|lia|lia].
      * unfold bsp. cbn [map tl]. fold (bsp rest). rewrite nextSpan_bsp. destruct (nextSpan rest) as [[i s1]|] eqn:En.
        -- destruct (nextSpan_suffix rest i s1 En) as (pre & t & A & B). left. cbn [fst snd r_prev r_pos]. split; [reflexivity|]. split; [|reflexivity].
           assert (Gs : GS s1) by (cbn [GS] in HG; destruct HG as (_ & _ & HG); rewrite A in HG; apply GS_app_r in HG; exact HG).
           assert (Gi : gE i) by (rewrite B in Gs; apply Gs). rewrite bumpI_start. rewrite (cnvp_two (istart i)) by (destruct Gi; lia).
           apply Rin_mk; [exact Gs|destruct Gi; lia|lia].
        -- left. cbn [fst snd r_prev r_pos]. split; [reflexivity|]. split; [apply (Rin_mk []); [exact I|lia|lia]|discriminate].
Qed.
End G.
Print Assumptions Rin_next. Print Assumptions Rin_current.
