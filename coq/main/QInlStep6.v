(* QInlStep6.v -- T64 (asm): Inl3d.parseInlineLink on the two sides.
   New with respect to QIRdrLink.v: what the readers are when a destination / a title is NOT found (the scan goes on with them):
   after a failed destination the two readers are still related; after a failed title they are related or exhausted behind the
   last line feed (QIRdrBase.RX), where the closing ')' cannot follow on either side (tailOKX on the plain side, GapNoParen on the
   quoted side). *)
From Coq Require Import List ZArith Lia Bool.
Import ListNotations.
Require Import Base Tables Utf8 Tree Rdr Link Collect Html Recog Inl3a Inl3b Inl3c Inl3d Driver Inl3e.
Require Import ShapesBase ShapesR IFBase IFLink IFCollect GI4 GI6 IS0 IS3 IS5b IS6a IS6b IS6 IFTokDef IFTokAux IFTokUm IFFrame IFTokLoop IFTk1 IFTk2 IFTk3 IFTk4.
Require Import SpanSmall SpanHypDef.
Require Import QCutsDef QCuts QIRdrBase QIRdrLink QIRdrCollect QInlDefs QInlBytes QInlBytesEmph QInlHtml QInlTree1 QInlTree2 QInlTree3 QInlTree.
Require Import QInlStep0 QInlStep1 QInlStep2 QInlStep3 QInlStep4 QInlStepF QInlStep5.
Open Scope Z_scope.

(* the first gap byte behind a line feed of sD is not ')' (in quote D it is '>', or lies behind the end of quote D) *)
Definition GapNoParen (sD sQ : bytes) (sg : Z -> Z) : Prop := forall x, 0 <= x < len sD -> at_ sD x = 10 -> at_ sQ (sg x + 1) <> 41.

Section Step6.
  Variables (sD sQ : bytes) (sg : Z -> Z) (U : list inline).
  Hypothesis SG : SGood sD sQ sg.
  Hypothesis GP : GapSp sD sQ sg.
  Hypothesis HG : Forall (gsp sD sg U) U.
  Hypothesis HOK : spOK sD U = true.
  Hypothesis HKl : forall u, In u U -> ikids u = [].
  Hypothesis HLn : IS6b.linesOK sD U = true.
  Hypothesis HNG : NoGtBehindLast sD U.
  Hypothesis HTl : tailOKX sD U = true.
  Hypothesis HGN : GapNoParen sD sQ sg.
  Set Default Proof Using "All".
  Local Notation Hy l := (l sD sQ sg U SG GP HG HOK HKl HLn HNG) (only parsing).
  Notation tr := (QInlBytes.tr sg).
  Notation IR := (QInlDefs.IR sD sQ sg).
  Notation SL := (QInlTree1.SL sD).
  Notation curU := QInlTree3.curU.
  Notation Ctx := (Ctx sD sQ sg U).
  Notation RR := (QIRdrBase.RR sD sQ sg U true).
  Notation RX := (QIRdrBase.RX sD sQ sg U).
  Notation InIK := (QIRdrBase.InIK U).
  Notation sgE := (QIRdrBase.sgE sD sg).
  Notation ExhMid := (QIRdrBase.ExhMid sD U).
  Notation HWU := (Hy HW).
  Local Notation cur_pos' := QIRdrLink.cur_pos (only parsing).
  Local Notation cur_byte' := (QIRdrLink.cur_byte sD sQ sg U SG) (only parsing).
  Local Notation pos_at_end' := (QIRdrLink.pos_at_end sD sQ sg U SG) (only parsing).
  Local Notation RR_mid' := (QIRdrLink.RR_mid sD sQ sg U SG) (only parsing).
  Local Notation InNode_InIK' := (QIRdrLink.InNode_InIK sD sQ sg U SG) (only parsing).
  Local Notation InNode_lt' := (QIRdrLink.InNode_lt sD sQ sg U SG) (only parsing).
  Local Notation ExhMid_step' := (QIRdrLink.ExhMid_step sD sQ sg U SG) (only parsing).
  Local Notation RR_pos' := (QIRdrLink.RR_pos sD sQ sg U) (only parsing).
  Local Notation RR_pos_in' := (QIRdrLink.RR_pos_in sD sQ sg U SG) (only parsing).

  Ltac cpair H r r' c r1 r1' Hn E E' :=
    let Ec := fresh "Ec" in let c' := fresh "c'" in
    pose proof (bRR_current sD sQ sg U true SG r r' H) as [Ec Hn];
    destruct (current r) as [c r1] eqn:E; destruct (current r') as [c' r1'] eqn:E'; cbn [fst snd] in Ec, Hn; subst c'.
  Ltac npair H r r' ok r1 r1' Hn E E' :=
    let Ec := fresh "Eo" in let ok' := fresh "ok'" in
    pose proof (bRR_next sD sQ sg U true SG HWU r r' H) as (Ec & Hn);
    destruct (next r) as [ok r1] eqn:E; destruct (next r') as [ok' r1'] eqn:E'; cbn [fst snd] in Ec, Hn; subst ok'.

  (* related, or exhausted behind a line feed that lies inside an entry *)
  Definition RD (x x' : reader) : Prop := RR x x' \/ (RX x x' /\ InIK (r_prev x)).

  Lemma at_out (l : bytes) i : len l <= i -> at_ l i = 0.
  Proof. intros H. unfold at_. destruct (Z.ltb_spec i 0); [reflexivity|]. apply nth_overflow. unfold len in H. lia. Qed.
  (* the byte under a reader whose `current` did not return a line feed *)
  Lemma cur_not10 r r' c r1 : RR r r' -> current r = (c, r1) -> c <> 10 -> at_ sD (r_pos r1) <> 10.
  Proof.
    intros H E N. destruct (cur_pos' r c r1 E) as [Q _]. rewrite Q. destruct (Z.eq_dec c 0) as [E0|N0].
    - rewrite (pos_at_end' r r' c r1 H E E0). rewrite at_out by lia. discriminate.
    - destruct (cur_byte' r r' c r1 H E N0) as [_ A]. rewrite A. exact N.
  Qed.

  (* a failing step *)
  Lemma next_fail_RD r r' : RR r r' -> fst (next r) = false -> RD (snd (next r)) (snd (next r')).
  Proof.
    intros H Hf. pose proof (bRR_next sD sQ sg U true SG HWU r r' H) as (_ & D & N3 & _).
    destruct (Z.eq_dec (at_ sD (r_pos r)) 10) as [E10|N10]; [|left; apply N3, N10].
    assert (L : r_pos r < len sD). { destruct (Z.lt_ge_cases (r_pos r) (len sD)) as [L|L]; [exact L|]. rewrite at_out in E10 by lia. discriminate. }
    destruct (RR_mid' r r' H L) as [HN|HX].
    - destruct (bRR_next_fail sD sQ sg U true SG r r' H HN Hf L) as (_ & _ & Pv & _).
      destruct D as [D|[_ D]]; [left; exact D|right; split; [exact D|]]. rewrite Pv. apply (InNode_InIK' r r' H HN).
    - left. apply (ExhMid_step' r r' H HX).
  Qed.

  (* ---------------------------------------------------------------- a destination that is not found *)
  Lemma ld_angle_null : forall f r r' st st', RR r r' -> at_ sD (r_pos r) <> 10 -> 0 <= st ->
    fst (fst (ld_angle f r st)) = nullSpan -> RR (snd (ld_angle f r st)) (snd (ld_angle f r' st')).
  Proof.
    induction f as [|f IH]; intros r r' st st' H N Hst; [intros _; exact H|]. cbn [ld_angle].
    npair H r r' ok r1 r1' H1 En1 En1'. destruct H1 as (H1 & N3 & _). destruct ok; cbn [negb]; [|intros _; apply N3, N].
    destruct H1 as [H1|[X _]]; [|discriminate X].
    cpair H1 r1 r1' c r2 r2' H2 Ec2 Ec2'.
    destruct ((c =? 13) || (c =? 10)) eqn:Eeol; [intros _; exact H2|].
    assert (Nc : c <> 10) by (intros ->; discriminate Eeol).
    destruct (Z.eqb_spec c 92) as [E92|N92].
    - npair H2 r2 r2' ok2 r3 r3' H3 En3 En3'. destruct H3 as (H3 & N33 & _).
      pose proof (cur_not10 r1 r1' c r2 H1 Ec2 Nc) as N2.
      destruct ok2; cbn [negb]; [|intros _; apply N33, N2].
      destruct H3 as [H3|[X _]]; [|discriminate X]. cpair H3 r3 r3' c3 r4 r4' H4 Ec4 Ec4'.
      destruct ((c3 =? 10) || (c3 =? 13)) eqn:Eeol3; [intros _; exact H4|].
      apply IH; [exact H4|apply (cur_not10 r3 r3' c3 r4 H3 Ec4); intros ->; discriminate Eeol3|exact Hst].
    - destruct (Z.eqb_spec c 62) as [E62|N62].
      + destruct (next r2) as [ok3 r3]. destruct (next r2') as [ok3' r3']. cbn [fst snd]. intros E. exfalso. inversion E. lia.
      + apply IH; [exact H2|apply (cur_not10 r1 r1' c r2 H1 Ec2 Nc)|exact Hst].
  Qed.
  Lemma q_dest_null f r r' : RR r r' -> fst (fst (parseLinkDestination f r)) = nullSpan ->
    RR (snd (parseLinkDestination f r)) (snd (parseLinkDestination f r')).
  Proof.
    intros H. unfold parseLinkDestination. cpair H r r' c r0 r0' H0 Ec0 Ec0'. destruct (cur_pos' r c r0 Ec0) as [Q0 _].
    pose proof (RR_pos' r0 r0' H0) as [Pz _].
    destruct (Z.eqb_spec c 60) as [E60|N60].
    - apply ld_angle_null; [exact H0|apply (cur_not10 r r' c r0 H Ec0); lia|lia].
    - destruct (_ && _ && _); [|intros _; exact H0]. cbn [fst snd]. intros E. exfalso. inversion E. lia.
  Qed.

  (* ---------------------------------------------------------------- a title that is not found *)
  Lemma lt_loop_null : forall f r r' st st' term, RR r r' -> 0 <= st ->
    fst (fst (lt_loop f r st term)) = nullSpan -> RD (snd (lt_loop f r st term)) (snd (lt_loop f r' st' term)).
  Proof.
    induction f as [|f IH]; intros r r' st st' term H Hst; [intros _; left; exact H|]. cbn [lt_loop].
    pose proof (next_fail_RD r r' H) as HF.
    npair H r r' ok r1 r1' H1 En1 En1'. cbn [fst snd] in HF. destruct H1 as (H1 & _ & _). destruct ok; cbn [negb]; [|intros _; apply HF; reflexivity].
    destruct H1 as [H1|[X _]]; [|discriminate X]. clear HF.
    cpair H1 r1 r1' c r2 r2' H2 Ec2 Ec2'.
    destruct (Z.eqb_spec c 92) as [E92|N92].
    - pose proof (next_fail_RD r2 r2' H2) as HF.
      npair H2 r2 r2' ok2 r3 r3' H3 En3 En3'. cbn [fst snd] in HF. destruct H3 as (H3 & _ & _). destruct ok2; cbn [negb]; [|intros _; apply HF; reflexivity].
      destruct H3 as [H3|[X _]]; [|discriminate X]. apply IH; [exact H3|exact Hst].
    - destruct (Z.eqb_spec c term) as [Et|Nt]; [|apply IH; [exact H2|exact Hst]].
      destruct (next r2) as [ok3 r3]. destruct (next r2') as [ok3' r3']. cbn [fst snd]. intros E. exfalso. inversion E. lia.
  Qed.
  Lemma q_title_null f r r' : RR r r' -> fst (fst (parseLinkTitle f r)) = nullSpan ->
    RD (snd (parseLinkTitle f r)) (snd (parseLinkTitle f r')).
  Proof.
    intros H. unfold parseLinkTitle. cpair H r r' c r0 r0' H0 Ec0 Ec0'.
    pose proof (RR_pos' r0 r0' H0) as [Pz _].
    destruct (negb _); [intros _; left; exact H0|]. apply lt_loop_null; [exact H0|lia].
  Qed.

  (* ---------------------------------------------------------------- the byte under a reader that is exhausted behind a line feed *)
  Lemma cur_nospans src r : r_src r = src -> r_spans r = [] ->
    cur r = if len src <=? r_pos r then 0 else if at_ src (r_pos r) =? 0 then nullRepl (r_vpos r) else at_ src (r_pos r).
  Proof.
    intros Es En. unfold cur, current. rewrite Es. destruct (len src <=? r_pos r); [reflexivity|]. rewrite (curNode_nil r En). cbn [okind].
    change (0 =? IndentKind) with false. cbv iota. destruct (at_ src (r_pos r) =? 0); reflexivity.
  Qed.
  Lemma nullRepl_not41 v : nullRepl v <> 41.
  Proof. unfold nullRepl. destruct (v =? 0); [discriminate|]. destruct (v =? 1); discriminate. Qed.
  Lemma RX_cur_plain x x' : RX x x' -> InIK (r_prev x) -> cur x <> 41.
  Proof.
    intros (Es & _ & En & _ & _ & P0 & P1 & P10 & _ & Pp & _ & Pall) (w & Hw & Hin).
    rewrite (cur_nospans sD x Es En). destruct (Z.leb_spec (len sD) (r_pos x)) as [L|L]; [discriminate|].
    destruct (Z.eqb_spec (at_ sD (r_pos x)) 0) as [E0|N0]; [apply nullRepl_not41|].
    assert (Eiw : iend w = r_pos x) by (specialize (Pall w Hw); lia).
    assert (Hmax : forall v, In v U -> iend v <= iend w) by (intros v Hv; rewrite Eiw; apply Pall, Hv).
    destruct ((Hy last_of_U) w Hw Hmax) as (pre & EU). pose proof ((Hy U_gsp) w Hw) as (Wa & Wb & _).
    pose proof HTl as HT. unfold tailOKX in HT. rewrite EU, rev_app_distr in HT. cbn [rev app] in HT. rewrite Eiw in HT.
    intros E41. rewrite E41 in HT. change (isSpaceTabOrLineEnding 41) with false in HT. change (41 =? 41) with true in HT. cbn [negb] in HT.
    rewrite !andb_false_r, !orb_false_r in HT. cbn [orb] in HT.
    apply orb_true_iff in HT. destruct HT as [HT|HT]; [apply Z.leb_le in HT; lia|].
    destruct (rev pre); [apply Z.eqb_eq in HT; lia|discriminate HT].
  Qed.
  Lemma RX_cur_quoted x x' : RX x x' -> cur x' <> 41.
  Proof.
    intros (_ & Es' & _ & En' & _ & P0 & P1 & P10 & Pv' & _ & Pp' & _).
    rewrite (cur_nospans sQ x' Es' En'). destruct (len sQ <=? r_pos x'); [discriminate|].
    destruct (at_ sQ (r_pos x') =? 0); [apply nullRepl_not41|]. rewrite Pp', Pv'. apply HGN; [lia|exact P10].
  Qed.

  (* ---------------------------------------------------------------- parseInlineLink: the part behind the creation of the reader *)
  Definition pilB (fuel : nat) (r : reader) (start : Z) : (Z * Z) * ((Z * Z) * (Z * Z)) * ((Z * Z) * (Z * Z)) :=
    let none := (nullSpan, (nullSpan, nullSpan), (nullSpan, nullSpan)) in
    let '(ok, r1) := skipLinkSpace fuel r in
    if negb ok then none else
    let '(dspan, dtext, r2) := parseLinkDestination fuel r1 in
    let '(ok2, r3) := if spanValid dspan then skipLinkSpace fuel r2 else (true, r2) in
    if negb ok2 then none else
    let '(tspan, ttext, r4) := parseLinkTitle fuel r3 in
    let '(ok3, r5) := if spanValid tspan then skipLinkSpace fuel r4 else (true, r4) in
    if negb ok3 then none else
    if negb (cur r5 =? 41) then none else
    ((start, r_pos r5 + 1), (dspan, dtext), (tspan, ttext)).
  Lemma pilB_eq fuel st start : parseInlineLink fuel st start = pilB fuel (newReader (isrc st) (unpFrom st) (start + 1)) start.
  Proof. reflexivity. Qed.

  Definition pnone : (Z * Z) * ((Z * Z) * (Z * Z)) * ((Z * Z) * (Z * Z)) := (nullSpan, (nullSpan, nullSpan), (nullSpan, nullSpan)).
  Notation SpTxR := (QIRdrLink.SpTxR sD sQ sg U).
  Definition PilOK (start start' : Z) (res res' : (Z * Z) * ((Z * Z) * (Z * Z)) * ((Z * Z) * (Z * Z))) : Prop :=
    (res = pnone /\ res' = pnone) \/
    (exists q xd xd' xt xt', 0 <= q < len sD /\ at_ sD q = 41 /\ (InIK q \/ forall u, In u U -> iend u <= q) /\
       fst (fst res) = (start, q + 1) /\ fst (fst res') = (start', sg q + 1) /\
       SpTxR (fst (snd (fst res))) (snd (snd (fst res))) xd (fst (snd (fst res'))) (snd (snd (fst res'))) xd' /\
       SpTxR (fst (snd res)) (snd (snd res)) xt (fst (snd res')) (snd (snd res')) xt').

  (* validity of the spans on the two sides *)
  Lemma SpTxR_valid sp tx x sp' tx' x' : SpTxR sp tx x sp' tx' x' -> spanValid sp' = spanValid sp.
  Proof.
    intros [[-> ->]|[(Hx & A & B & C & (q & Hq & Eq & Eq') & _)|(Hx & _ & -> & _ & -> & _)]]; [reflexivity| |].
    - destruct sp as [a b]. destruct sp' as [a' b']. cbn [fst snd] in *. subst. rewrite ((Hy spanValid_in) a (q + 1)) by lia.
      apply (Hy spanValid_in); [apply (SG_nn _ _ _ SG); lia|]. pose proof ((Hy sg_le') a q ltac:(lia) ltac:(lia)). lia.
    - pose proof (RR_pos' x x' Hx) as [Pz Pz']. rewrite ((Hy spanValid_in) (r_pos x) (r_pos x)) by lia. apply (Hy spanValid_in); [|lia]. rewrite Pz'. apply (bsgE_nn sD sQ sg SG). lia.
  Qed.
  Lemma SpTxR_null_l sp tx x sp' tx' x' : SpTxR sp tx x sp' tx' x' -> spanValid sp = false -> sp = nullSpan.
  Proof.
    intros [[-> _]|[(Hx & A & B & C & _)|(Hx & _ & -> & _)]] Hv; [reflexivity| |].
    - exfalso. destruct sp as [a b]. cbn [fst snd] in *. rewrite ((Hy spanValid_in) a b) in Hv by lia. discriminate.
    - exfalso. pose proof (RR_pos' x x' Hx) as [Pz _]. rewrite ((Hy spanValid_in) (r_pos x) (r_pos x)) in Hv by lia. discriminate.
  Qed.
  Lemma SpTxR_RR sp tx x sp' tx' x' : SpTxR sp tx x sp' tx' x' -> spanValid sp = true -> RR x x'.
  Proof. intros [[-> _]|[(Hx & _)|(Hx & _)]] Hv; [discriminate Hv|exact Hx|exact Hx]. Qed.

  Lemma q_pilB f r r' start start' : RR r r' -> f <> O -> PilOK start start' (pilB f r start) (pilB f r' start').
  Proof.
    intros H Hf. unfold pilB. cbv zeta. fold pnone.
    destruct (q_skipLinkSpace sD sQ sg U SG HWU f r r' H) as [E1 T1].
    destruct (skipLinkSpace f r) as [ok r1]. destruct (skipLinkSpace f r') as [ok' r1']. cbn [fst snd] in E1, T1. subst ok'.
    destruct ok; cbn [negb]; [|left; split; reflexivity]. specialize (T1 eq_refl).
    pose proof (q_parseLinkDestination sD sQ sg U SG HWU HG f r1 r1' T1 Hf) as HD. pose proof (q_dest_null f r1 r1' T1) as HDn.
    destruct (parseLinkDestination f r1) as [[dspan dtext] r2]. destruct (parseLinkDestination f r1') as [[dspan' dtext'] r2']. cbn [fst snd] in HD, HDn.
    pose proof (SpTxR_valid _ _ _ _ _ _ HD) as Vd.
    assert (HR2 : RR r2 r2').
    { destruct (spanValid dspan) eqn:Ev; [apply (SpTxR_RR _ _ _ _ _ _ HD Ev)|apply HDn, (SpTxR_null_l _ _ _ _ _ _ HD Ev)]. }
    rewrite Vd.
    assert (K3 : fst (if spanValid dspan then skipLinkSpace f r2' else (true, r2')) = fst (if spanValid dspan then skipLinkSpace f r2 else (true, r2)) /\
                 (fst (if spanValid dspan then skipLinkSpace f r2 else (true, r2)) = true ->
                  RR (snd (if spanValid dspan then skipLinkSpace f r2 else (true, r2))) (snd (if spanValid dspan then skipLinkSpace f r2' else (true, r2'))))).
    { destruct (spanValid dspan); [apply (q_skipLinkSpace sD sQ sg U SG HWU), HR2|split; [reflexivity|intros _; exact HR2]]. }
    destruct (if spanValid dspan then skipLinkSpace f r2 else (true, r2)) as [ok2 r3].
    destruct (if spanValid dspan then skipLinkSpace f r2' else (true, r2')) as [ok2' r3']. cbn [fst snd] in K3. destruct K3 as [-> T3].
    destruct ok2; cbn [negb]; [|left; split; reflexivity]. specialize (T3 eq_refl).
    pose proof (q_parseLinkTitle sD sQ sg U SG HWU HG f r3 r3' T3) as HT. pose proof (q_title_null f r3 r3' T3) as HTn.
    destruct (parseLinkTitle f r3) as [[tspan ttext] r4]. destruct (parseLinkTitle f r3') as [[tspan' ttext'] r4']. cbn [fst snd] in HT, HTn.
    pose proof (SpTxR_valid _ _ _ _ _ _ HT) as Vt. rewrite Vt.
    assert (K5 : fst (if spanValid tspan then skipLinkSpace f r4' else (true, r4')) = fst (if spanValid tspan then skipLinkSpace f r4 else (true, r4)) /\
                 (fst (if spanValid tspan then skipLinkSpace f r4 else (true, r4)) = true ->
                  RD (snd (if spanValid tspan then skipLinkSpace f r4 else (true, r4))) (snd (if spanValid tspan then skipLinkSpace f r4' else (true, r4'))))).
    { destruct (spanValid tspan) eqn:Ev.
      - destruct (q_skipLinkSpace sD sQ sg U SG HWU f r4 r4' (SpTxR_RR _ _ _ _ _ _ HT Ev)) as [A B]. split; [exact A|]. intros X. left. apply B, X.
      - split; [reflexivity|]. intros _. apply HTn, (SpTxR_null_l _ _ _ _ _ _ HT Ev). }
    destruct (if spanValid tspan then skipLinkSpace f r4 else (true, r4)) as [ok3 r5].
    destruct (if spanValid tspan then skipLinkSpace f r4' else (true, r4')) as [ok3' r5']. cbn [fst snd] in K5. destruct K5 as [-> T5].
    destruct ok3; cbn [negb]; [|left; split; reflexivity]. specialize (T5 eq_refl).
    destruct T5 as [T5|[T5 Hi5]].
    - rewrite (bRR_cur sD sQ sg U true SG r5 r5' T5). destruct (Z.eqb_spec (cur r5) 41) as [E41|N41]; cbn [negb]; [|left; split; reflexivity].
      right. destruct (bRR_current_nz sD sQ sg U true SG r5 r5' T5 ltac:(unfold cur in E41; rewrite E41; discriminate)) as [L5 A5].
      unfold cur in E41. rewrite E41 in A5. pose proof (RR_pos' r5 r5' T5) as [Pz _].
      exists (r_pos r5), r2, r2', r4, r4'. cbn [fst snd]. split; [lia|]. split; [symmetry; exact A5|]. split.
      + destruct (RR_mid' r5 r5' T5 L5) as [HN|(_ & _ & _ & HX)]; [left; apply (InNode_InIK' r5 r5' T5 HN)|right; exact HX].
      + split; [reflexivity|]. split; [rewrite (RR_pos_in' r5 r5' T5 L5); reflexivity|]. split; [exact HD|exact HT].
    - pose proof (RX_cur_plain r5 r5' T5 Hi5) as N1. pose proof (RX_cur_quoted r5 r5' T5) as N2.
      destruct (Z.eqb_spec (cur r5) 41); [contradiction|]. destruct (Z.eqb_spec (cur r5') 41); [contradiction|]. cbn [negb]. left. split; reflexivity.
  Qed.

  (* ---------------------------------------------------------------- parseInlineLink on the two states *)
  Lemma q_parseInlineLink f st st' s1 : IR st st' -> unp st = U -> 0 <= upos st < len U ->
    istart (curU st) <= s1 < iend (curU st) -> at_ sD s1 <> 10 -> f <> O ->
    PilOK s1 (tr (curU st) s1) (parseInlineLink f st s1) (parseInlineLink f st' (tr (curU st) s1)).
  Proof.
    intros HI Eu Hu Hs N Hf. set (u := curU st) in *. rewrite !pilB_eq. pose proof HI as (Es & Es' & _). rewrite Es, Es', (unpFrom_q sD sQ sg st st' HI).
    assert (Hin : In u U) by (unfold u, QInlTree3.curU; rewrite Eu; apply nth_In_Z; exact Hu).
    pose proof ((Hy U_gsp) u Hin) as Gu. pose proof Gu as (Ua & Ub & Uc & _).
    assert (Etr : tr u s1 + 1 = sgE (s1 + 1)).
    { rewrite ((Hy tr_in) u s1 Gu) by lia. symmetry. apply (sgE_after sD sQ sg SG); [lia|exact N]. }
    rewrite Etr.
    destruct (Z.eq_dec (s1 + 1) (iend u)) as [Ee|Ne].
    2:{ apply q_pilB; [|exact Hf]. apply (bRR_new sD sQ sg U true SG); [apply (Hy unpFrom_gsp), Eu|apply (Hy unpFrom_spW), Eu|lia|intros; lia| |apply (Hy unpFrom_suffix), Eu].
        intros _. right. left. exists u. split; [apply (Hy curU_in_from); assumption|lia]. }
    assert (Hmax : forall v, In v U -> iend v <= s1 + 1).
    { rewrite Ee. apply ((Hy last_entry) u Hin). replace (iend u - 1) with s1 by lia. exact N. }
    destruct (Z.eq_dec (s1 + 1) (len sD)) as [El|Nl].
    - apply q_pilB; [|exact Hf]. apply (bRR_new sD sQ sg U true SG); [apply (Hy unpFrom_gsp), Eu|apply (Hy unpFrom_spW), Eu|lia| | |apply (Hy unpFrom_suffix), Eu].
      + intros _. unfold QIRdrBase.sgEnd. apply (SG_last _ _ _ SG); [lia|]. replace (len sD - 1) with s1 by lia. exact N.
      + intros _. left. split; [exact El|]. unfold QIRdrBase.sgEnd. apply (SG_last _ _ _ SG); [lia|]. replace (len sD - 1) with s1 by lia. exact N.
    - (* the reader is created behind all the entries, inside the last line: it behaves like the reader without entries *)
      assert (B : Behind (newReader sD (unpFrom st) (s1 + 1))).
      { intros v Hv. cbn [newReader r_spans r_pos] in *. apply Hmax. destruct ((Hy unpFrom_suffix) st Eu) as (pre & Ep). rewrite Ep. apply in_or_app. right. exact Hv. }
      assert (B' : Behind (newReader sQ (map (mvS sg) (unpFrom st)) (sgE (s1 + 1)))).
      { intros v Hv. cbn [newReader r_spans r_pos] in *. apply (behind_mvS sD sQ sg U SG (unpFrom st) (s1 + 1) ((Hy unpFrom_gsp) st Eu) ltac:(lia)); [|exact Hv].
        intros w Hw. apply Hmax. destruct ((Hy unpFrom_suffix) st Eu) as (pre & Ep). rewrite Ep. apply in_or_app. right. exact Hw. }
      assert (L' : sgE (s1 + 1) < len sQ) by (rewrite (bsgE_in sD sQ sg SG) by lia; apply (SG_lt _ _ _ SG); lia).
      unfold pilB. rewrite (skipLinkSpace_trim f _ B ltac:(cbn; lia)), (skipLinkSpace_trim f _ B' ltac:(cbn; lia)). rewrite !withSpans_new.
      fold (pilB f (newReader sD [] (s1 + 1)) s1). fold (pilB f (newReader sQ [] (sgE (s1 + 1))) (tr u s1)).
      apply q_pilB; [|exact Hf]. apply (RR_new_mid sD sQ sg U SG (s1 + 1)); [lia|replace (s1 + 1 - 1) with s1 by lia; exact N|exact Hmax].
  Qed.
End Step6.
