(* SliceBase.v -- shared bookkeeping for the two vertical slices of C06 (SliceText.v, SliceCode.v).
   Only new lemmas; the model files are not modified. *)
From Coq Require Import List ZArith Lia Bool.
Import ListNotations.
Require Import Base Tables Utf8 Tree Rdr Link Collect Html Recog LP Rules Starts Driver Inl3a Inl3b Inl3e Render.
Open Scope Z_scope.

(* ---------------------------------------------------------------------------------------------- *)
(* 1. lists                                                                                       *)
(* ---------------------------------------------------------------------------------------------- *)
Lemma sl_len_nonneg {A} (l : list A) : 0 <= len l. Proof. unfold len. lia. Qed.
Lemma sl_len_nil {A} : len (@nil A) = 0. Proof. reflexivity. Qed.
Lemma sl_len_cons {A} (x : A) l : len (x :: l) = len l + 1. Proof. unfold len. cbn [length]. lia. Qed.
Lemma sl_len_app {A} (a b : list A) : len (a ++ b) = len a + len b. Proof. unfold len. rewrite app_length. lia. Qed.
Lemma sl_len_length {A} (l : list A) : Z.to_nat (len l) = length l. Proof. unfold len. apply Nat2Z.id. Qed.

Lemma sl_from_0 {A} (l : list A) : from_ l 0 = l. Proof. reflexivity. Qed.
Lemma sl_from_app_len {A} (a b : list A) : from_ (a ++ b) (len a) = b.
Proof. unfold from_. rewrite sl_len_length. rewrite skipn_app, Nat.sub_diag, skipn_all. reflexivity. Qed.
Lemma sl_upto_app_len {A} (a b : list A) : upto (a ++ b) (len a) = a.
Proof. unfold upto. rewrite sl_len_length. rewrite firstn_app, Nat.sub_diag, firstn_all. cbn [firstn]. apply app_nil_r. Qed.
Lemma sl_upto_all {A} (l : list A) : upto l (len l) = l.
Proof. unfold upto. rewrite sl_len_length. apply firstn_all. Qed.
Lemma sl_from_all {A} (l : list A) : from_ l (len l) = [].
Proof. unfold from_. rewrite sl_len_length. apply skipn_all. Qed.
Lemma sl_at_app_len (a : bytes) x (b : bytes) : at_ (a ++ x :: b) (len a) = x.
Proof.
  unfold at_. pose proof (sl_len_nonneg a). destruct (Z.ltb_spec (len a) 0); [lia|].
  rewrite sl_len_length. rewrite app_nth2 by lia. rewrite Nat.sub_diag. reflexivity.
Qed.
Lemma sl_sub_app {A} (a m b : list A) : sub (a ++ m ++ b) (len a) (len a + len m) = m.
Proof.
  unfold sub. rewrite sl_from_app_len. replace (len a + len m - len a) with (len m) by lia. apply sl_upto_app_len.
Qed.
Lemma sl_sub_app' {A} (a m b : list A) i j : i = len a -> j = len a + len m -> sub (a ++ m ++ b) i j = m.
Proof. intros -> ->. apply sl_sub_app. Qed.
Lemma sl_sub_nil {A} (l : list A) a b : b <= a -> sub l a b = [].
Proof. intros H. unfold sub, upto. replace (Z.to_nat (b - a)) with O by lia. reflexivity. Qed.
Lemma sl_sub_prefix {A} (m b : list A) : sub (m ++ b) 0 (len m) = m.
Proof. unfold sub. rewrite sl_from_0. replace (len m - 0) with (len m) by lia. apply sl_upto_app_len. Qed.

(* ---------------------------------------------------------------------------------------------- *)
(* 2. inputs without NUL: padding is the identity                                                 *)
(* ---------------------------------------------------------------------------------------------- *)
Definition noNul (l : bytes) : Prop := Forall (fun c => c <> 0) l.

Lemma noNul_app a b : noNul a -> noNul b -> noNul (a ++ b).
Proof. intros. apply Forall_app. split; assumption. Qed.
Lemma pad_noNul l : noNul l -> pad l = l.
Proof.
  induction 1 as [|x l Hx Hl IH]; [reflexivity|]. change (pad (x :: l)) with ((if x =? 0 then [0;0;0] else [x]) ++ pad l).
  rewrite IH. destruct (Z.eqb_spec x 0); [contradiction|reflexivity].
Qed.
Lemma nullCount_noNul l : noNul l -> nullCount l = 0.
Proof. induction 1 as [|x l Hx Hl IH]; [reflexivity|]. cbn [nullCount]. rewrite IH. destruct (Z.eqb_spec x 0); [contradiction|reflexivity]. Qed.
Lemma unpadded_noNul l : noNul l -> unpadded l = len l.
Proof. intros H. unfold unpadded. rewrite (nullCount_noNul l H). change (0 / 3 * 2) with 0. lia. Qed.
Lemma fillNulls_noNul l : noNul l -> fillNulls l = l.
Proof.
  unfold fillNulls. induction 1 as [|x l Hx Hl IH]; [reflexivity|]. cbn [fill_aux]. rewrite IH.
  destruct (Z.eqb_spec x 0); [contradiction|reflexivity].
Qed.

(* ---------------------------------------------------------------------------------------------- *)
(* 3. line ends                                                                                   *)
(* ---------------------------------------------------------------------------------------------- *)
Definition noEolB (l : bytes) : Prop := Forall (fun c => c <> 10 /\ c <> 13) l.

Lemma findEol_noEolB : forall a r i, noEolB a -> findEol (a ++ r) i = findEol r (i + len a).
Proof.
  induction a as [|x a IH]; intros r i Ha.
  - cbn [app]. rewrite sl_len_nil. f_equal. lia.
  - inversion Ha as [|? ? [H10 H13] Ha']; subst. cbn [app findEol].
    destruct (Z.eqb_spec x 10); [contradiction|]. destruct (Z.eqb_spec x 13); [contradiction|]. cbn [orb].
    rewrite (IH r (i + 1) Ha'). rewrite sl_len_cons. f_equal. lia.
Qed.

(* the line that starts at offset [len pre] and is terminated by LF *)
Lemma lineEnd_lf pre body rest : noEolB body ->
  lineEnd (pre ++ body ++ 10 :: rest) (len pre) = len pre + len body + 1.
Proof.
  intros Hb. unfold lineEnd. rewrite sl_from_app_len. rewrite (findEol_noEolB body (10 :: rest) (len pre) Hb).
  cbn [findEol]. change ((10 =? 10) || (10 =? 13)) with true. cbv iota.
  pose proof (sl_len_nonneg pre). pose proof (sl_len_nonneg body).
  destruct (Z.ltb_spec (len pre + len body) 0); [lia|].
  replace (pre ++ body ++ 10 :: rest) with ((pre ++ body) ++ 10 :: rest) by (rewrite <- app_assoc; reflexivity).
  rewrite <- sl_len_app. rewrite sl_at_app_len. reflexivity.
Qed.
Lemma lineEnd_end buf : lineEnd buf (len buf) = len buf.
Proof. unfold lineEnd. rewrite sl_from_all. reflexivity. Qed.

(* ---------------------------------------------------------------------------------------------- *)
(* 4. the default configuration and tags                                                          *)
(* ---------------------------------------------------------------------------------------------- *)
Definition c0 : cfg := {| softBreak := 0; ignoreRaw := false; filterOn := false; filterP := fun _ => false |}.

Lemma openTag_c0 name : openTag c0 name = [60] ++ name ++ [62].
Proof. unfold openTag, openTagAttr, reject. cbn [filterOn c0 andb]. rewrite <- app_assoc. reflexivity. Qed.
Lemma openTagAttr_c0 name : openTagAttr c0 name = [60] ++ name.
Proof. reflexivity. Qed.
Lemma closeTag_c0 name : closeTag c0 name = [60;47] ++ name ++ [62].
Proof. reflexivity. Qed.

(* the same for every configuration whose tag filter is off *)
Lemma openTag_nf c name : filterOn c = false -> openTag c name = [60] ++ name ++ [62].
Proof. intros H. unfold openTag, openTagAttr, reject. rewrite H. cbn [andb]. rewrite <- app_assoc. reflexivity. Qed.
Lemma openTagAttr_nf c name : filterOn c = false -> openTagAttr c name = [60] ++ name.
Proof. intros H. unfold openTagAttr, reject. rewrite H. reflexivity. Qed.
Lemma closeTag_nf c name : filterOn c = false -> closeTag c name = [60;47] ++ name ++ [62].
Proof. intros H. unfold closeTag, reject. rewrite H. reflexivity. Qed.

Lemma escapeHTML_app a b : escapeHTML (a ++ b) = escapeHTML a ++ escapeHTML b.
Proof. unfold escapeHTML. apply flat_map_app. Qed.

(* ---------------------------------------------------------------------------------------------- *)
(* 5. the end of the input: nothing is left after the only root block                             *)
(* ---------------------------------------------------------------------------------------------- *)
Lemma nextBlock_eof f bo bl : nextBlock (S f) {| buf := []; bi := 0; boff := bo; bline := bl; pending := [] |} =
  NBEof {| buf := []; bi := 0; boff := bo + 0; bline := bl + 0; pending := [] |}.
Proof. reflexivity. Qed.
