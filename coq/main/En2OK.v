From Coq Require Import List ZArith Lia Bool.
Import ListNotations.
Require Import Base Tables Utf8 Tree Rdr Link Collect Html Recog Inl3a Inl3b Inl3c Inl3d Inl3e LP Rules Starts Driver Props.
Require L2Kind2.
Require Import BSDef BSTree BlockSpans BShDef BlockShapes BlockShapesNul.
Require Import ShapesBase ShapesR ShapesCS ShapesComp ShapesComp2 ShapesComp3.
Require Import EntBase EntRdr1 EntOcpDefs En2Tree En2Drv EntDefs.
Open Scope Z_scope.

(* ================================================================================================
   T28: the entry lists the block layer hands to the inline parser are well formed, for every input.

   MAIN RESULTS (all closed under the global context, no hypothesis on the input)
     EntDefs.parseBlocks_entries_ok_statement_false
         the statement as asked (EntDefs.parseBlocks_entries_ok_statement: bikOK on every block at any depth with
         hasUnparsed b = true) is FALSE.  The failing clause of ShapesR.spOK is the non-emptiness of spans
         (istart i <? iend i): an ATX heading without content ("#\n", "# #\n", "> ## \t\n", "#" at the end of input)
         gets the single entry Unparsed [s, s).  Every other clause of bikOK holds for every input.
     parseBlocks_entries_ok_partial
         for EVERY input, every block b at any depth of every root block r with hasUnparsed b = true satisfies
         bikOK (rb_src r) b = true, or b is an ATX heading whose only entry is one empty, childless Unparsed span
         (checker EntDefs.entriesOKw = bikOK || emptyATX).  All clauses: spans non-empty, inside [0, len src], sorted,
         the byte before a later span is not a backtick, Indent spans cover only space/tab (in the NUL-filled source
         rb_src, see `tri` below), a non-last span does not end in a backtick, ibudget <= len src + 9, no CodeSpan node.
     parseBlocks_entries_ok_nonempty
         the statement exactly as asked for every block with emptyATX b = false.
     parseInlines_codespan_shapes_w, parseBlocks_codespan_shapes, parseFull_codespan_shapes
         the conditional theorem ShapesComp3.parseInlines_codespan_shapes_partial re-proved under the weaker condition
         bikOKw, and made unconditional: for every input and matcher, every CodeSpan node produced by parseInlines on a
         block of the block layer has the shape of a code span; after parseFull, every CodeSpan node at any depth in
         every paragraph / heading of every root block has the shape of a code span.
     parseBlocks_entries_basic
         the hypothesis of T13/InlineSpans (entriesBasic: entries ordered, disjoint, inside [bstart, bend] and [0, len src])
         holds for every such block, every input.
     En2Drv.parseBlocks_okRE
         the whole-run invariant itself; it also gives, for every root block, that its source text is cut at NUL-triple
         boundaries (`tri (upto B (bend b))`): the alignment fact BlockShapes.v lists as missing.

   HOW (files, in dependency order)
     EntDefs      statement, refutation, the exception emptyATX, parseInlines on it returns []
     EntBase      `lines`: entries of a paragraph (each Unparsed entry is the tail of ONE line of the buffer, first byte not a
                  line ending, ends with a line ending unless at the end of the buffer; Indent entries are one tab byte with
                  indent <= 3, immediately followed by an Unparsed entry; sorted; byte before a later entry is space/tab/'>'/EOL)
     EntRdr1-3, EntOcpDefs, EntOcp   reader theory for onCloseParagraph: lines -> spOK, ibudget; every cut made by the link
                  reference definition loop is at the START of an entry and every definition ends at a boundary
                  (fuel adequacy of skipSpacesAndTabs via ShapesR.mu)
     En2Tree      the tree invariant `en` (entries of Paragraph/Setext are `lines` above the block start; ATX blocks are closed
                  with at most one Unparsed entry inside the block; every closed block ends at a boundary `bdy`; other kinds
                  except definitions hold no Unparsed entry), closing, shifting (makeRoot)
     EntCur       line environment, `clean` (only prefix bytes consumed), reachable open paragraphs ppT
     EntLP1-8     one lemma per function of the line machine (openBlock, endBlock, collectInline, match rules,
                  descendOpenBlocks, the eight block starts, openNewBlocks, addLineText, processLine)
     En2Drv       lines of the buffer, makeRoot, lineLoop, skipLoop, nextBlock, allBlocks; NUL-triple alignment
     EntriesOK    this file: from the invariant to the checkers;  EntTest: the checkers evaluated on 16 sample inputs
   ================================================================================================ *)

(* ---- filling NULs keeps the checks ---- *)
Lemma len_fill_aux : forall l k, length (fill_aux k l) = length l.
Proof.
  induction l as [|b r IH]; intros k; [reflexivity|]. cbn [fill_aux]. destruct k as [|[|[|k]]]; try (destruct (b =? 0)); cbn [length]; rewrite IH; reflexivity.
Qed.
Lemma len_fillNulls l : len (fillNulls l) = len l.
Proof. unfold len, fillNulls. rewrite len_fill_aux. reflexivity. Qed.

Lemma simz_not_tick a b : simz a b -> a <> 96 -> b <> 96.
Proof. intros [[[_ ->]|[_ [->|[->| ->]]]]|[_ ->]] H; try assumption; discriminate. Qed.
Lemma F2_forallb_sptab u u' : Forall2 sim u u' -> forallb isSpTab u' = forallb isSpTab u.
Proof. induction 1 as [|a b u u' Hab H IH]; [reflexivity|]. cbn [forallb]. rewrite (sim_sptab a b Hab), IH. reflexivity. Qed.

Lemma spOK_sim pre src : Forall2 sim pre src -> forall sp, spOK pre sp = true -> spOK src sp = true.
Proof.
  intros HS. pose proof (F2_len _ _ HS) as Hl. induction sp as [|i r IH]; [reflexivity|]. cbn [spOK]. rewrite Hl. intros H.
  apply andb_true_iff in H. destruct H as [H H5]. apply andb_true_iff in H. destruct H as [H H4]. apply andb_true_iff in H. destruct H as [H H3].
  rewrite H, (IH H5). cbn [andb]. rewrite andb_true_r. apply andb_true_iff. split.
  - rewrite forallb_forall in *. intros j Hj. specialize (H3 j Hj). apply andb_true_iff in H3. destruct H3 as [A Bq]. rewrite A. cbn [andb].
    apply negb_true_iff, Z.eqb_neq in Bq. apply negb_true_iff, Z.eqb_neq. eapply simz_not_tick; [apply F2_at, HS|exact Bq].
  - destruct (ikind i =? IndentKind).
    + rewrite (F2_forallb_sptab _ _ (F2_sub pre src (istart i) (iend i) HS)). exact H4.
    + destruct r; [reflexivity|]. apply negb_true_iff, Z.eqb_neq in H4. apply negb_true_iff, Z.eqb_neq. eapply simz_not_tick; [apply F2_at, HS|exact H4].
Qed.

(* ---- entries of a paragraph ---- *)
Lemma lines_noCSI B M : forall ik, lines B M ik -> forallb noCSI ik = true.
Proof.
  intros ik H. apply forallb_forall. intros u Hu. destruct (lines_entry B M ik u H Hu) as (_ & _ & _ & Hk & Hkind).
  destruct u as [k s e ind rf ks]. cbn [ikids ikind noCSI] in *. subst ks. cbn [forallb]. rewrite andb_true_r.
  destruct Hkind as [-> | ->]; reflexivity.
Qed.

(* all blocks of a tree with valid spans are closed and end inside the source *)
Lemma bshapes_bounds pre b : bshapes pre b = true -> 0 <= bstart b /\ bstart b <= bend b /\ bend b <= len pre.
Proof.
  destruct b as [K s e bk ik a n c l lb]. cbn [bshapes bstart bend]. intros H. apply andb_true_iff in H. destruct H as [H _]. apply andb_true_iff in H. destruct H as [H _].
  unfold span_valid in H. apply andb_true_iff in H. destruct H as [H H3]. apply andb_true_iff in H. destruct H as [H1 H2].
  apply Z.leb_le in H1, H2, H3. lia.
Qed.

Section Root.
  Variables (B pre src : bytes) (M n : Z).
  Hypothesis Hn : 0 <= n <= len B.
  Hypothesis Epre : pre = upto B n.
  Hypothesis Esrc : src = fillNulls pre.
  Hypothesis Htri : tri pre.

  Lemma len_pre : len pre = n. Proof. rewrite Epre, ShapesBase.len_upto. lia. Qed.
  Lemma len_src : len src = n. Proof. rewrite Esrc, len_fillNulls. apply len_pre. Qed.
  Lemma sim_src : Forall2 sim pre src. Proof. rewrite Esrc. apply fill_tri, Htri. Qed.

  Lemma para_bikOK b e : lines B e (bik b) -> 0 <= e <= n -> bikOK src b = true.
  Proof.
    intros HL He. pose proof len_pre as Lp. pose proof len_src as Ls.
    assert (HLp : lines pre e (bik b)).
    { apply (lines_agree B pre n e); [rewrite Epre; apply agreeTo_upto; lia|lia|exact Lp|lia|exact HL]. }
    unfold bikOK. rewrite (spOK_sim pre src sim_src _ (lines_spOK pre e (bik b) HLp ltac:(lia))).
    rewrite (lines_noCSI pre e _ HLp). pose proof (lines_ibudget pre e (bik b) HLp ltac:(lia)) as Hb.
    replace (ibudget (bik b) <=? len src + 9) with true by (symmetry; apply Z.leb_le; lia). reflexivity.
  Qed.

  Lemma atx_bikOKw b : bkind b = ATXHeadingKind -> atxE B (bstart b) (bend b) (bik b) -> 0 <= bend b <= n -> hasUnparsed b = true -> bikOKw src b = true.
  Proof.
    intros HK Ha He Hu. pose proof len_src as Ls. unfold bikOKw. destruct Ha as [E|(a & t & E & A1 & A2 & A3 & A4)].
    - unfold hasUnparsed in Hu. rewrite E in Hu. discriminate.
    - destruct (Z.eq_dec a t) as [->|N].
      + apply orb_true_iff. right. unfold emptyATX, emptyOne. rewrite HK, E. cbn. rewrite Z.eqb_refl. reflexivity.
      + apply orb_true_iff. left. unfold bikOK. rewrite E. cbn [spOK ibudget forallb noCSI mkI ikind istart iend ikids].
        replace (0 <=? a) with true by (symmetry; apply Z.leb_le; lia). replace (a <? t) with true by (symmetry; apply Z.ltb_lt; lia).
        replace (t <=? len src) with true by (symmetry; apply Z.leb_le; lia). cbn.
        replace (0 <=? len src + 9) with true by (symmetry; apply Z.leb_le; lia). reflexivity.
  Qed.

  Lemma root_entries pre' : len pre' = n -> forall b, en B M b -> bshapes pre' b = true -> L2Kind2.inv b = true -> entriesOKw src b = true.
  Proof.
    intros Lp'. fix IH 1. intros [K s e bk ik a nn c l lb] He Hs Hi.
    pose proof (bshapes_bounds pre' _ Hs) as (S1 & S2 & S3). cbn [bstart bend] in S1, S2, S3. rewrite Lp' in S3.
    change (entriesOKw src (Blk K s e bk ik a nn c l lb)) with
      ((if hasUnparsed (Blk K s e bk ik a nn c l lb) then bikOKw src (Blk K s e bk ik a nn c l lb) else true) && forallb (entriesOKw src) bk).
    cbn [en] in He. destruct He as ((A & A1 & A2 & A3 & A4) & C).
    apply andb_true_iff. split.
    - destruct (hasUnparsed (Blk K s e bk ik a nn c l lb)) eqn:Hu; [|reflexivity].
      destruct (Z.eq_dec K ParagraphKind) as [EK|NP]; [|destruct (Z.eq_dec K SetextHeadingKind) as [EK|NS]].
      + destruct (A (or_introl EK)) as (L1 & _). rewrite bound_closed in L1 by lia. unfold bikOKw. rewrite (para_bikOK (Blk K s e bk ik a nn c l lb) e L1 ltac:(lia)). reflexivity.
      + destruct (A (or_intror EK)) as (L1 & _). rewrite bound_closed in L1 by lia. unfold bikOKw. rewrite (para_bikOK (Blk K s e bk ik a nn c l lb) e L1 ltac:(lia)). reflexivity.
      + destruct (Z.eq_dec K ATXHeadingKind) as [EA|NA].
        * destruct (A1 EA) as [_ X]. apply atx_bikOKw; [exact EA|exact X|cbn [bend]; lia|exact Hu].
        * exfalso. unfold hasUnparsed in Hu. cbn [bik] in Hu. apply existsb_exists in Hu. destruct Hu as (u & Hin & Eu). apply Z.eqb_eq in Eu.
          destruct (Z.eq_dec K LinkReferenceDefinitionKind) as [EL|NL].
          -- cbn [L2Kind2.inv] in Hi. apply andb_true_iff in Hi. destruct Hi as [Hi _]. rewrite forallb_forall in Hi. specialize (Hi u Hin).
             unfold L2Kind2.ek in Hi. cbv zeta in Hi. rewrite Eu in Hi. change (UnparsedKind =? UnparsedKind) with true in Hi. cbv iota in Hi.
             rewrite EL in Hi. rewrite andb_false_r in Hi. discriminate.
          -- apply (A4 ltac:(repeat split; assumption) NL u Hin Eu).
    - cbn [bshapes bkids] in Hs. apply andb_true_iff in Hs. destruct Hs as [_ Hk]. cbn [L2Kind2.inv] in Hi. apply andb_true_iff in Hi. destruct Hi as [_ Hik].
      clear A A1 A2 A3 A4. induction bk as [|x r IHr]; [reflexivity|]. destruct C as [C1 C2]. cbn [forallb] in *.
      apply andb_true_iff in Hk. destruct Hk as [K1 K2]. apply andb_true_iff in Hik. destruct Hik as [I1 I2].
      rewrite (IH x C1 K1 I1). apply IHr; assumption.
  Qed.

  Lemma parseInlines_codespan_shapes_w' matcher b : bikOKw src b = true -> forallb (csI src) (parseInlines src matcher b) = true.
  Proof.
    unfold bikOKw. intros H. apply orb_true_iff in H. destruct H as [H|H]; [apply parseInlines_codespan_shapes_partial, H|].
    unfold emptyATX in H. apply andb_true_iff in H. destruct H as [_ H]. rewrite (parseInlines_emptyOne src matcher b H). reflexivity.
  Qed.

  (* ---- the inline pass: code spans of every paragraph and heading ---- *)
  Definition isPH (K : Z) : bool := (K =? ParagraphKind) || (K =? SetextHeadingKind) || (K =? ATXHeadingKind).
  Fixpoint csPH (b : block) : bool :=
    match b with Blk K s e bk ik a nn c l lb => (if isPH K then forallb (csI src) ik else true) && forallb csPH bk end.

  Lemma plain_csI u : ikids u = [] -> ikind u <> CodeSpanKind -> csI src u = true.
  Proof. destruct u as [k s e i r ks]. cbn [ikids ikind csI]. intros -> Hk. apply Z.eqb_neq in Hk. rewrite Hk. reflexivity. Qed.
  Lemma lines_csI E : forall ik, lines B E ik -> forallb (csI src) ik = true.
  Proof.
    intros ik H. apply forallb_forall. intros u Hu. destruct (lines_entry B E ik u H Hu) as (_ & _ & _ & Hk & Hkind).
    apply plain_csI; [exact Hk|destruct Hkind as [-> | ->]; discriminate].
  Qed.
  Lemma hasUnparsed_nonempty b : hasUnparsed b = true -> (0 <? len (bik b)) = true.
  Proof. unfold hasUnparsed. destruct (bik b) as [|u r]; [discriminate|]. intros _. rewrite ShapesBase.len_cons. pose proof (ShapesBase.len_nonneg r). apply Z.ltb_lt. lia. Qed.

  (* a tree of the block layer: no code span at all in its paragraphs and headings *)
  Lemma en_csPH : forall b, en B M b -> csPH b = true.
  Proof.
    fix IH 1. intros [K s e bk ik a nn c l lb] He. cbn [en] in He. destruct He as ((A & A1 & _) & C). cbn [csPH].
    apply andb_true_iff. split.
    - unfold isPH. destruct (Z.eqb_spec K ParagraphKind) as [EK|NP]; cbn [orb].
      { destruct (A (or_introl EK)) as (L1 & _). eapply lines_csI; exact L1. }
      destruct (Z.eqb_spec K SetextHeadingKind) as [EK|NS]; cbn [orb].
      { destruct (A (or_intror EK)) as (L1 & _). eapply lines_csI; exact L1. }
      destruct (Z.eqb_spec K ATXHeadingKind) as [EA|NA]; [|reflexivity].
      destruct (A1 EA) as [_ [->|(a0 & t & -> & _)]]; reflexivity.
    - clear A A1. induction bk as [|x r IHr]; [reflexivity|]. destruct C as [C1 C2]. cbn [forallb]. rewrite (IH x C1). apply IHr, C2.
  Qed.

  Lemma root_csPH m pre' : len pre' = n -> forall fuel b, en B M b -> bshapes pre' b = true -> L2Kind2.inv b = true ->
    csPH (rewriteB fuel src m b) = true.
  Proof.
    intros Lp'. induction fuel as [|f IHf]; intros b He Hs Hi; [apply en_csPH, He|].
    pose proof (root_entries pre' Lp' b He Hs Hi) as Hok. rewrite entriesOKw_eq in Hok. apply andb_true_iff in Hok. destruct Hok as [Hok _].
    cbn [rewriteB]. destruct (hasUnparsed b) eqn:Hu.
    - rewrite (hasUnparsed_nonempty b Hu). cbn [andb]. pose proof (parseInlines_codespan_shapes_w' m b Hok) as Hc.
      pose proof (en_csPH b He) as Hb. destruct b as [K s e bk ik a nn c l lb]. cbn [set_bik csPH] in *. rewrite Hc.
      apply andb_true_iff in Hb. destruct Hb as [_ Hb]. rewrite Hb. destruct (isPH K); reflexivity.
    - rewrite andb_false_r. pose proof (en_csPH b He) as Hb. destruct b as [K s e bk ik a nn c l lb]. cbn [set_bkids csPH bkids] in *.
      apply andb_true_iff in Hb. destruct Hb as [Hb _]. rewrite Hb. cbn [andb].
      cbn [en] in He. destruct He as (_ & C).
      cbn [bshapes bkids] in Hs. apply andb_true_iff in Hs. destruct Hs as [_ Hk]. cbn [L2Kind2.inv] in Hi. apply andb_true_iff in Hi. destruct Hi as [_ Hik].
      clear Hok Hu Hb. induction bk as [|x r IHr]; [reflexivity|]. destruct C as [C1 C2]. cbn [map forallb] in *.
      apply andb_true_iff in Hk. destruct Hk as [K1 K2]. apply andb_true_iff in Hik. destruct Hik as [I1 I2].
      apply andb_true_iff. split; [apply IHf; assumption|apply IHr; assumption].
  Qed.
End Root.

(* ================================================================ the main theorem *)
Theorem parseBlocks_entries_ok_partial : forall input,
  Forall (fun r => entriesOKw (rb_src r) (rb_blk r) = true) (fst (parseBlocks input)).
Proof.
  intros input. pose proof (parseBlocks_okRE input) as H1. pose proof (parseBlocks_block_shapes_prefill_partial input) as H2.
  pose proof (L2Kind2.parseBlocks_kinds input) as H3.
  rewrite Forall_forall in *. intros r Hr. destruct (H1 r Hr) as (B & M & Hn & Es & He & Ht). destruct (H2 r Hr) as (pre' & _ & Es' & Hs).
  apply (root_entries B (upto B (bend (rb_blk r))) (rb_src r) M (bend (rb_blk r)) Hn eq_refl Es Ht pre'); [|exact He|exact Hs|exact (H3 r Hr)].
  rewrite <- (len_fillNulls pre'), <- Es', Es, len_fillNulls, ShapesBase.len_upto. lia.
Qed.
Print Assumptions parseBlocks_entries_ok_partial.

(* the statement exactly as asked, for every block that is not an ATX heading without content *)
Fixpoint entriesOKne (src : bytes) (b : block) : bool :=
  match b with Blk K s e bk ik a n c l lb =>
    (if hasUnparsed (Blk K s e bk ik a n c l lb) && negb (emptyATX (Blk K s e bk ik a n c l lb)) then bikOK src (Blk K s e bk ik a n c l lb) else true) &&
    forallb (entriesOKne src) bk
  end.
Lemma entriesOKw_ne src : forall b, entriesOKw src b = true -> entriesOKne src b = true.
Proof.
  fix IH 1. intros [K s e bk ik a n c l lb] H.
  change (entriesOKw src (Blk K s e bk ik a n c l lb)) with
    ((if hasUnparsed (Blk K s e bk ik a n c l lb) then bikOKw src (Blk K s e bk ik a n c l lb) else true) && forallb (entriesOKw src) bk) in H.
  change (entriesOKne src (Blk K s e bk ik a n c l lb)) with
    ((if hasUnparsed (Blk K s e bk ik a n c l lb) && negb (emptyATX (Blk K s e bk ik a n c l lb)) then bikOK src (Blk K s e bk ik a n c l lb) else true) &&
     forallb (entriesOKne src) bk).
  apply andb_true_iff in H. destruct H as [H1 H2]. apply andb_true_iff. split.
  - clear H2 IH. set (X := Blk K s e bk ik a n c l lb) in *. unfold bikOKw in H1.
    destruct (hasUnparsed X); [|reflexivity]. cbn [andb]. destruct (emptyATX X); cbn [negb]; [reflexivity|]. rewrite orb_false_r in H1. exact H1.
  - clear H1. induction bk as [|x r IHr]; [reflexivity|]. cbn [forallb] in *. apply andb_true_iff in H2. destruct H2 as [A B]. rewrite (IH x A). apply IHr, B.
Qed.
Theorem parseBlocks_entries_ok_nonempty : forall input,
  Forall (fun r => entriesOKne (rb_src r) (rb_blk r) = true) (fst (parseBlocks input)).
Proof. intros input. eapply Forall_impl; [|apply parseBlocks_entries_ok_partial]. intros r. apply entriesOKw_ne. Qed.
Print Assumptions parseBlocks_entries_ok_nonempty.

(* ================================================================ the conditional theorem of ShapesComp3.v, for every input *)
Lemma parseInlines_codespan_shapes_w src matcher b : bikOKw src b = true -> forallb (csI src) (parseInlines src matcher b) = true.
Proof.
  unfold bikOKw. intros H. apply orb_true_iff in H. destruct H as [H|H]; [apply parseInlines_codespan_shapes_partial, H|].
  unfold emptyATX in H. apply andb_true_iff in H. destruct H as [_ H]. rewrite (parseInlines_emptyOne src matcher b H). reflexivity.
Qed.

Fixpoint csAll (src : bytes) (m : list bytes) (b : block) : bool :=
  match b with Blk K s e bk ik a n c l lb =>
    (if hasUnparsed (Blk K s e bk ik a n c l lb) then forallb (csI src) (parseInlines src m (Blk K s e bk ik a n c l lb)) else true) &&
    forallb (csAll src m) bk
  end.
Lemma entriesOKw_csAll src m : forall b, entriesOKw src b = true -> csAll src m b = true.
Proof.
  fix IH 1. intros [K s e bk ik a n c l lb] H.
  change (entriesOKw src (Blk K s e bk ik a n c l lb)) with
    ((if hasUnparsed (Blk K s e bk ik a n c l lb) then bikOKw src (Blk K s e bk ik a n c l lb) else true) && forallb (entriesOKw src) bk) in H.
  change (csAll src m (Blk K s e bk ik a n c l lb)) with
    ((if hasUnparsed (Blk K s e bk ik a n c l lb) then forallb (csI src) (parseInlines src m (Blk K s e bk ik a n c l lb)) else true) && forallb (csAll src m) bk).
  apply andb_true_iff in H. destruct H as [H1 H2]. apply andb_true_iff. split.
  - destruct (hasUnparsed _); [|reflexivity]. apply parseInlines_codespan_shapes_w, H1.
  - clear H1. induction bk as [|x r IHr]; [reflexivity|]. cbn [forallb] in *. apply andb_true_iff in H2. destruct H2 as [A B]. rewrite (IH x A). apply IHr, B.
Qed.

Theorem parseBlocks_codespan_shapes : forall input matcher,
  Forall (fun r => csAll (rb_src r) matcher (rb_blk r) = true) (fst (parseBlocks input)).
Proof. intros input m. eapply Forall_impl; [|apply parseBlocks_entries_ok_partial]. intros r. apply entriesOKw_csAll. Qed.
Print Assumptions parseBlocks_codespan_shapes.

(* ================================================================ after the inline pass *)
Theorem parseFull_codespan_shapes : forall input,
  Forall (fun r => csPH (rb_src r) (rb_blk r) = true) (fst (parseFull input)).
Proof.
  intros input. unfold parseFull.
  pose proof (parseBlocks_okRE input) as H1. pose proof (parseBlocks_block_shapes_prefill_partial input) as H2.
  pose proof (L2Kind2.parseBlocks_kinds input) as H3.
  destruct (parseBlocks input) as [roots code]. cbn [fst] in *.
  apply Forall_forall. intros r' Hr'. apply in_map_iff in Hr'. destruct Hr' as (r & <- & Hr). cbn [rb_src rb_blk].
  rewrite Forall_forall in *. destruct (H1 r Hr) as (B & M & Hn & Es & He & Ht). destruct (H2 r Hr) as (pre' & _ & Es' & Hs).
  apply (root_csPH B (upto B (bend (rb_blk r))) (rb_src r) M (bend (rb_blk r)) Hn eq_refl Es Ht _ pre'); [|exact He|exact Hs|exact (H3 r Hr)].
  rewrite <- (len_fillNulls pre'), <- Es', Es, len_fillNulls, ShapesBase.len_upto. lia.
Qed.
Print Assumptions parseFull_codespan_shapes.

(* ================================================================ the hypothesis of T13 / InlineSpans *)
Fixpoint ordered_in (lo hi : Z) (ks : list inline) : bool :=
  match ks with [] => true | k :: r => (lo <=? istart k) && (iend k <=? hi) && ordered_in (iend k) hi r end.
Definition entriesBasic (src : bytes) (b : block) : bool :=
  ordered_in (bstart b) (bend b) (bik b) && forallb (spansI false src (bstart b) (bend b)) (bik b).
Fixpoint entriesBasicAll (src : bytes) (b : block) : bool :=
  match b with Blk K s e bk ik a n c l lb =>
    (if hasUnparsed (Blk K s e bk ik a n c l lb) then entriesBasic src (Blk K s e bk ik a n c l lb) else true) && forallb (entriesBasicAll src) bk
  end.

Lemma spansI_leaf src ps pe u : ikids u = [] -> 0 <= istart u -> istart u <= iend u -> iend u <= len src -> ps <= istart u -> iend u <= pe ->
  spansI false src ps pe u = true.
Proof.
  destruct u as [k s e i r ks]. cbn [ikids istart iend]. intros -> H1 H2 H3 H4 H5. cbn [spansI]. unfold span_valid.
  replace (0 <=? s) with true by (symmetry; apply Z.leb_le; lia). replace (s <=? e) with true by (symmetry; apply Z.leb_le; lia).
  replace (e <=? len src) with true by (symmetry; apply Z.leb_le; lia). replace (ps <=? s) with true by (symmetry; apply Z.leb_le; lia).
  replace (e <=? pe) with true by (symmetry; apply Z.leb_le; lia). reflexivity.
Qed.

Lemma lines_basic B src e : e <= len src -> forall ik lo, lines B e ik -> (forall u, In u ik -> lo <= istart u) ->
  ordered_in lo e ik = true /\ forall ps, ps <= lo -> forallb (spansI false src ps e) ik = true.
Proof.
  intros He. induction ik as [|u r IH]; intros lo Hl Hlo; [split; [reflexivity|intros; reflexivity]|].
  destruct (lines_entry B e (u :: r) u Hl (or_introl eq_refl)) as (A1 & A2 & A3 & A4 & _).
  pose proof (Hlo u (or_introl eq_refl)) as Hu.
  destruct (IH (iend u) (lines_tail _ _ _ _ Hl)) as [I1 I2].
  { intros j Hj. eapply lines_sorted; [exact Hl|exact Hj]. }
  split.
  - cbn [ordered_in]. rewrite I1. replace (lo <=? istart u) with true by (symmetry; apply Z.leb_le; lia).
    replace (iend u <=? e) with true by (symmetry; apply Z.leb_le; lia). reflexivity.
  - intros ps Hps. cbn [forallb]. rewrite (spansI_leaf src ps e u A4 A1 ltac:(lia) ltac:(lia) ltac:(lia) A3). apply I2. lia.
Qed.

Section Root2.
  Variables (B src : bytes) (M n : Z).
  Hypothesis Hlen : len src = n.

  Lemma root_basic pre' : len pre' = n -> forall b, en B M b -> bshapes pre' b = true -> L2Kind2.inv b = true -> entriesBasicAll src b = true.
  Proof.
    intros Lp'. fix IH 1. intros [K s e bk ik a nn c l lb] He Hs Hi.
    pose proof (bshapes_bounds pre' _ Hs) as (S1 & S2 & S3). cbn [bstart bend] in S1, S2, S3. rewrite Lp' in S3.
    change (entriesBasicAll src (Blk K s e bk ik a nn c l lb)) with
      ((if hasUnparsed (Blk K s e bk ik a nn c l lb) then entriesBasic src (Blk K s e bk ik a nn c l lb) else true) && forallb (entriesBasicAll src) bk).
    cbn [en] in He. destruct He as ((A & A1 & A2 & A3 & A4) & C).
    apply andb_true_iff. split.
    - destruct (hasUnparsed (Blk K s e bk ik a nn c l lb)) eqn:Hu; [|reflexivity]. unfold entriesBasic. cbn [bstart bend bik].
      assert (HPS : isPS K -> ordered_in s e ik && forallb (spansI false src s e) ik = true).
      { intros HK. destruct (A HK) as (L1 & L2 & _). rewrite bound_closed in L1 by lia.
        destruct (lines_basic B src e ltac:(lia) ik s L1 L2) as [X1 X2]. rewrite X1, (X2 s ltac:(lia)). reflexivity. }
      destruct (Z.eq_dec K ParagraphKind) as [EK|NP]; [apply HPS; left; exact EK|].
      destruct (Z.eq_dec K SetextHeadingKind) as [EK|NS]; [apply HPS; right; exact EK|].
      destruct (Z.eq_dec K ATXHeadingKind) as [EA|NA].
      + destruct (A1 EA) as [_ [->|(a0 & t & -> & D1 & D2 & D3 & D4)]]; [reflexivity|]. cbn [ordered_in forallb].
        rewrite (spansI_leaf src s e (mkI UnparsedKind a0 t) eq_refl) by (cbn [istart iend mkI]; lia). cbn [istart iend mkI].
        replace (s <=? a0) with true by (symmetry; apply Z.leb_le; lia). replace (t <=? e) with true by (symmetry; apply Z.leb_le; lia). reflexivity.
      + exfalso. unfold hasUnparsed in Hu. cbn [bik] in Hu. apply existsb_exists in Hu. destruct Hu as (u & Hin & Eu). apply Z.eqb_eq in Eu.
        destruct (Z.eq_dec K LinkReferenceDefinitionKind) as [EL|NL].
        * cbn [L2Kind2.inv] in Hi. apply andb_true_iff in Hi. destruct Hi as [Hi _]. rewrite forallb_forall in Hi. specialize (Hi u Hin).
          unfold L2Kind2.ek in Hi. cbv zeta in Hi. rewrite Eu in Hi. change (UnparsedKind =? UnparsedKind) with true in Hi. cbv iota in Hi.
          rewrite EL in Hi. rewrite andb_false_r in Hi. discriminate.
        * apply (A4 ltac:(repeat split; assumption) NL u Hin Eu).
    - cbn [bshapes bkids] in Hs. apply andb_true_iff in Hs. destruct Hs as [_ Hk]. cbn [L2Kind2.inv] in Hi. apply andb_true_iff in Hi. destruct Hi as [_ Hik].
      clear A A1 A2 A3 A4. induction bk as [|x r IHr]; [reflexivity|]. destruct C as [C1 C2]. cbn [forallb] in *.
      apply andb_true_iff in Hk. destruct Hk as [K1 K2]. apply andb_true_iff in Hik. destruct Hik as [I1 I2].
      rewrite (IH x C1 K1 I1). apply IHr; assumption.
  Qed.
End Root2.

Theorem parseBlocks_entries_basic : forall input,
  Forall (fun r => entriesBasicAll (rb_src r) (rb_blk r) = true) (fst (parseBlocks input)).
Proof.
  intros input. pose proof (parseBlocks_okRE input) as H1. pose proof (parseBlocks_block_shapes_prefill_partial input) as H2.
  pose proof (L2Kind2.parseBlocks_kinds input) as H3.
  rewrite Forall_forall in *. intros r Hr. destruct (H1 r Hr) as (B & M & Hn & Es & He & Ht). destruct (H2 r Hr) as (pre' & _ & Es' & Hs).
  assert (Hl : len (rb_src r) = bend (rb_blk r)) by (rewrite Es, len_fillNulls, ShapesBase.len_upto; lia).
  apply (root_basic B (rb_src r) M (bend (rb_blk r)) Hl pre'); [|exact He|exact Hs|exact (H3 r Hr)].
  rewrite <- (len_fillNulls pre'), <- Es'. exact Hl.
Qed.
Print Assumptions parseBlocks_entries_basic.
