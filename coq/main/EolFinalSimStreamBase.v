From Coq Require Import List ZArith Lia Bool.
Import ListNotations.
Require Import Base Tree Rdr Link Collect Html Recog LP Rules Starts Driver Rec16 Rec17 Rec18 L2Kind L2CC L2Bnd L2BndS
  BSDef BSTree ShDef StreamFuel EolInv EolCRBytes EolCRLFSimStream EolFinalDefs EolFinalSimBytes EolFinalSimTree.
Open Scope Z_scope.

(* C14 (i), final newline, stream level: basic facts. *)

(* ---- line ends of a buffer and of the buffer with a final LF ---- *)
Lemma findEol_app_found : forall (l r : bytes) i, 0 <= findEol l i -> findEol (l ++ r) i = findEol l i.
Proof.
  induction l as [|b l IH]; intros r i H; [cbn in H; lia|]. cbn [app findEol] in *. destruct ((b =? 10) || (b =? 13)); [reflexivity|apply IH, H].
Qed.
Lemma findEol_neg_noEol : forall (l : bytes) i, findEol l i < 0 -> 0 <= i -> noEolB l.
Proof.
  induction l as [|b l IH]; intros i H Hi; [constructor|]. cbn [findEol] in H. destruct ((b =? 10) || (b =? 13)) eqn:E; [lia|].
  apply orb_false_iff in E. destruct E as [E1 E2]. apply Z.eqb_neq in E1, E2. constructor; [split; assumption|apply (IH (i + 1)); [exact H|lia]].
Qed.
Lemma findEol_nonneg : forall (l : bytes) i, 0 <= i -> findEol l i < 0 \/ i <= findEol l i.
Proof.
  induction l as [|b l IH]; intros i Hi; [left; cbn; lia|]. cbn [findEol]. destruct ((b =? 10) || (b =? 13)); [right; lia|].
  destruct (IH (i + 1) ltac:(lia)); [left; assumption|right; lia].
Qed.

Definition endsPlain (b : bytes) : Prop := exists w c, b = w ++ [c] /\ c <> 10 /\ c <> 13.
Lemma at_last_snoc (w : bytes) c : at_ (w ++ [c]) (len (w ++ [c]) - 1) = c.
Proof. rewrite fs_len_app, fs_len1. replace (len w + 1 - 1) with (len w) by lia. rewrite at_app_r by lia. replace (len w - len w) with 0 by lia. reflexivity. Qed.

Lemma lineEnd_app10_lt b i : 0 <= i <= len b -> lineEnd b i < len b -> lineEnd (b ++ [10]) i = lineEnd b i.
Proof.
  intros Hi Hlt. unfold lineEnd in *. cbv zeta in *. rewrite from_app10 by lia.
  destruct (Z.ltb_spec (findEol (from_ b i) i) 0) as [L|L]; [lia|].
  rewrite (findEol_app_found _ [10] i L). destruct (Z.ltb_spec (findEol (from_ b i) i) 0); [lia|].
  destruct (L2BndS.findEol_spec (from_ b i) i L ltac:(lia)) as [A _]. rewrite len_from in A by lia.
  set (e := findEol (from_ b i) i) in *. rewrite at_app10_lt by lia. destruct (at_ b e =? 10); [reflexivity|].
  rewrite fs_len_app, fs_len1. destruct (Z.ltb_spec (e + 1) (len b)) as [L2|L2]; [|lia].
  replace (e + 1 <? len b + 1) with true by (symmetry; apply Z.ltb_lt; lia). rewrite at_app10_lt by lia. reflexivity.
Qed.
Lemma lineEnd_last_noEol b i : 0 <= i <= len b -> endsPlain b -> lineEnd b i = len b -> noEolB (from_ b i).
Proof.
  intros Hi (w & c & -> & C1 & C2) He. unfold lineEnd in He. cbv zeta in He.
  destruct (Z.ltb_spec (findEol (from_ (w ++ [c]) i) i) 0) as [L|L]; [eapply findEol_neg_noEol; [exact L|lia]|]. exfalso.
  destruct (L2BndS.findEol_spec (from_ (w ++ [c]) i) i L ltac:(lia)) as [A B]. rewrite len_from in A by lia. rewrite at_from in B by lia.
  replace (i + (findEol (from_ (w ++ [c]) i) i - i)) with (findEol (from_ (w ++ [c]) i) i) in B by lia.
  set (e := findEol (from_ (w ++ [c]) i) i) in *. pose proof (at_last_snoc w c) as Hl.
  destruct (at_ (w ++ [c]) e =? 10) eqn:E10.
  - assert (e = len (w ++ [c]) - 1) by lia. subst e. rewrite H, Hl in E10. apply Z.eqb_eq in E10. contradiction.
  - destruct (Z.ltb_spec (e + 1) (len (w ++ [c]))) as [L2|L2].
    + destruct (at_ (w ++ [c]) (e + 1) =? 10) eqn:E2; [|lia]. assert (e + 1 = len (w ++ [c]) - 1) by lia. rewrite H, Hl in E2. apply Z.eqb_eq in E2. contradiction.
    + assert (e = len (w ++ [c]) - 1) by lia. rewrite H, Hl in B. unfold isEOLb in B. apply orb_true_iff in B. destruct B as [B|B]; apply Z.eqb_eq in B; contradiction.
Qed.
Lemma lineEnd_app10_last b i : 0 <= i <= len b -> noEolB (from_ b i) -> lineEnd (b ++ [10]) i = len b + 1.
Proof.
  intros Hi Hn. rewrite (lineEnd_lf_at (b ++ [10]) i (from_ b i) []); [rewrite len_from by lia; lia|lia|apply from_app10; lia|exact Hn].
Qed.
Lemma lineEnd_app10_end b : lineEnd (b ++ [10]) (len b + 1) = len b + 1.
Proof. replace (len b + 1) with (len (b ++ [10])) by (rewrite fs_len_app, fs_len1; reflexivity). apply StreamFuel.lineEnd_all. Qed.

Lemma endsPlain_from b n : endsPlain b -> n < len b -> endsPlain (from_ b n).
Proof.
  intros (w & c & -> & C) Hn. rewrite fs_len_app, fs_len1 in Hn. exists (from_ w n), c. split; [apply from_app_le; lia|exact C].
Qed.
Lemma noEol_lastOK (l : bytes) : noEolB l -> l <> [] -> last l 0 <> 62 -> lastOK l.
Proof.
  intros Hn Hne Hl. destruct (@exists_last _ l Hne) as (w & c & ->). rewrite last_last in Hl. exists w, c. split; [reflexivity|].
  apply Forall_app in Hn. destruct Hn as [_ Hn]. apply Forall_inv in Hn. tauto.
Qed.

(* ---- unpadded / fillNulls / lineCount of a prefix that does not reach the final LF ---- *)
Lemma upto_app10 (b : bytes) k : k <= len b -> upto (b ++ [10]) k = upto b k.
Proof. apply upto_app_le. Qed.
Lemma nullCount_app a b : nullCount (a ++ b) = nullCount a + nullCount b.
Proof. induction a as [|x a IH]; [reflexivity|]. cbn [app nullCount]. rewrite IH. lia. Qed.
Lemma unpadded_app10 b : unpadded (b ++ [10]) = unpadded b + 1.
Proof. unfold unpadded. rewrite fs_len_app, fs_len1, nullCount_app. cbn [nullCount]. change (10 =? 0) with false. cbv iota. rewrite Z.add_0_r. lia. Qed.
Lemma lineCount_snoc10 : forall b, endsPlain b \/ b = [] -> lineCount (b ++ [10]) = lineCount b + 1.
Proof.
  induction b as [|x b IH]; intros H; [reflexivity|]. cbn [app lineCount].
  assert (Hb : endsPlain b \/ b = []).
  { destruct H as [(w & c & E & C)|E]; [|discriminate]. destruct w as [|y w]; [right; inversion E; reflexivity|left; exists w, c; inversion E; tauto]. }
  rewrite (IH Hb). destruct (x =? 10); [lia|]. destruct (x =? 13) eqn:E13; [|lia].
  destruct b as [|c b']; cbn [app]; [|lia].
  exfalso. destruct H as [(w & c & E & C1 & C2)|E]; [|discriminate]. destruct w as [|y w]; [inversion E; subst; apply Z.eqb_eq in E13; contradiction|].
  inversion E. destruct w; discriminate.
Qed.

(* ---- the tree map on trees bounded before L ---- *)
Lemma entOK_fix H L u : H < L -> entOK H true u = true -> bumpI L u = u /\ ikind u <> SoftLineBreakKind.
Proof.
  intros HL He. unfold entOK in He. apply andb_true_iff in He. destruct He as [He Hs]. apply andb_true_iff in He. destruct He as [_ He]. apply Z.leb_le in He.
  split.
  - destruct u as [k s e i r ks]. cbn [iend] in He. unfold bumpI. destruct (k =? IndentKind); [reflexivity|]. rewrite (bump_ne L e) by lia. reflexivity.
  - intros E. rewrite E in Hs. change (SoftLineBreakKind =? SoftLineBreakKind) with true in Hs. cbv iota in Hs. rewrite andb_false_r in Hs. discriminate.
Qed.
Lemma entOK_fixI H L u : H < L -> entOK H true u = true -> fixI L u = true.
Proof.
  intros HL He. unfold entOK in He. apply andb_true_iff in He. destruct He as [He _]. apply andb_true_iff in He. destruct He as [_ He]. apply Z.leb_le in He.
  unfold fixI. replace (iend u =? L) with false by (symmetry; apply Z.eqb_neq; lia). apply orb_true_r.
Qed.
Lemma bnd_fix H L : 0 <= H -> H < L -> forall b, bnd H true b = true -> finB L b = b /\ qB L b = true.
Proof.
  intros H0 HL. fix IH 1. intros [K s e bk ik a n c l lb] Hb. cbn [bnd] in Hb.
  apply andb_true_iff in Hb. destruct Hb as [Hb Hk]. apply andb_true_iff in Hb. destruct Hb as [He Hi].
  assert (Hkids : map (finB L) bk = bk /\ forallb (qB L) bk = true).
  { clear He Hi. induction bk as [|x r IHr]; [split; reflexivity|]. cbn [forallb] in Hk. apply andb_true_iff in Hk. destruct Hk as [Hx Hr].
    destruct (IH x Hx) as [A B]. destruct (IHr Hr) as [C D]. cbn [map forallb]. rewrite A, B, C, D. split; reflexivity. }
  destruct Hkids as [Hm Hq].
  assert (Hent : K <> LinkReferenceDefinitionKind -> map (bumpI L) ik = ik /\ nslbL ik = true /\ forallb (fixI L) ik = true).
  { intros NK. replace (K =? LinkReferenceDefinitionKind) with false in Hi by (symmetry; apply Z.eqb_neq; exact NK). cbn [orb] in Hi.
    clear - Hi HL. induction ik as [|u r IHr]; [repeat split|]. cbn [forallb] in Hi. apply andb_true_iff in Hi. destruct Hi as [Hu Hr].
    destruct (entOK_fix H L u HL Hu) as [A B]. destruct (IHr Hr) as (C & D & E). cbn [map]. rewrite A, C.
    split; [reflexivity|]. split.
    - unfold nslbL in *. cbn [forallb]. rewrite D. replace (ikind u =? SoftLineBreakKind) with false by (symmetry; apply Z.eqb_neq; exact B). reflexivity.
    - cbn [forallb]. rewrite E, (entOK_fixI H L u HL Hu). reflexivity. }
  assert (Eb : bump L e = e).
  { apply orb_true_iff in He. destruct He as [He|He]; [apply Z.ltb_lt in He; apply bump_ne; lia|apply Z.leb_le in He; apply bump_ne; lia]. }
  split.
  - cbn [finB]. destruct (K =? ListMarkerKind); [reflexivity|]. rewrite Eb, Hm. f_equal. unfold finI.
    destruct (Z.eq_dec K LinkReferenceDefinitionKind) as [->|NK]; [reflexivity|]. destruct (Hent NK) as (A & B & _).
    destruct ((K =? ParagraphKind) || (K =? HTMLBlockKind)); [exact A|]. destruct ((K =? IndentedCodeBlockKind) || (K =? FencedCodeBlockKind)); [apply finCode_nslb, B|reflexivity].
  - unfold qB. cbn [allB]. fold (qB L). rewrite Hq, andb_true_r. unfold qP. cbn [bkind bik].
    destruct (Z.eq_dec K LinkReferenceDefinitionKind) as [->|NK]; [reflexivity|]. destruct (Hent NK) as (_ & B & C). rewrite B, C, !orb_true_r. reflexivity.
Qed.
Lemma bndL_fix H L K : 0 <= H -> H < L -> bndL H true K = true -> map (finB L) K = K /\ forallb (qB L) K = true.
Proof.
  intros H0 HL. induction K as [|x r IH]; intros Hb; [split; reflexivity|]. unfold bndL in Hb. cbn [forallb] in Hb. apply andb_true_iff in Hb. destruct Hb as [Hx Hr].
  destruct (bnd_fix H L H0 HL x Hx) as [A B]. destruct (IH Hr) as [C D]. cbn [map forallb]. rewrite A, B, C, D. split; reflexivity.
Qed.

(* ---- open blocks are never list markers (shape invariant) ---- *)
Lemma sh_lmB src M : forall b, sh src M b -> lmB b = true.
Proof.
  fix IH 1. intros [K s e bk ik a n c l lb]. cbn [sh]. intros (A & B & C). unfold lmB. cbn [allB]. fold lmB. apply andb_true_iff. split.
  - unfold lmP. cbn [bkind bend]. destruct (Z.eqb_spec K ListMarkerKind) as [EK|NK]; [|reflexivity]. cbn [negb orb]. apply Z.leb_le.
    destruct (Z.lt_ge_cases e 0) as [Lt|Ge]; [|exact Ge]. exfalso. destruct (B Lt) as [(_ & _ & _ & N & _) _]. contradiction.
  - clear A B. induction bk as [|x r IHr]; [reflexivity|]. destruct C as [C1 C2]. cbn [forallb]. rewrite (IH x C1). apply IHr, C2.
Qed.
Lemma shKids_lmB src M K : allP (sh src M) K -> forallb lmB K = true.
Proof. induction K as [|x r IH]; [reflexivity|]. intros [A B]. cbn [forallb]. rewrite (sh_lmB src M x A). apply IH, B. Qed.

(* ---- shifting after a root has been cut off ---- *)
Lemma bump_shift L n e : 0 <= n <= L -> (if 0 <=? bump L e then bump L e + - n else bump L e) = bump (L - n) (if 0 <=? e then e + - n else e).
Proof.
  intros Hn. unfold bump. destruct (Z.eqb_spec e L) as [->|N].
  - replace (0 <=? L + 1) with true by (symmetry; apply Z.leb_le; lia). replace (0 <=? L) with true by (symmetry; apply Z.leb_le; lia).
    replace (L + - n =? L - n) with true by (symmetry; apply Z.eqb_eq; lia). lia.
  - destruct (Z.leb_spec 0 e) as [P|P].
    + replace (e + - n =? L - n) with false by (symmetry; apply Z.eqb_neq; lia). reflexivity.
    + replace (e =? L - n) with false by (symmetry; apply Z.eqb_neq; lia). reflexivity.
Qed.
Lemma bumpI_shift L n u : 0 <= n <= L -> shiftI (- n) (bumpI L u) = bumpI (L - n) (shiftI (- n) u).
Proof.
  intros Hn. destruct u as [k s e i r ks]. unfold bumpI. cbn [shiftI]. destruct (k =? IndentKind); [reflexivity|]. cbn [shiftI]. rewrite (bump_shift L n e Hn). reflexivity.
Qed.
Lemma finCode_shift L n ik : 0 <= n <= L -> map (shiftI (- n)) (finCode L ik) = finCode (L - n) (map (shiftI (- n)) ik).
Proof.
  intros Hn. rewrite <- (rev_involutive ik). set (l := rev ik). clearbody l. unfold finCode. rewrite <- map_rev, !rev_involutive.
  destruct l as [|[k2 s2 e2 i2 r2 ks2] [|[k1 s1 e1 i1 r1 ks1] pre]]; try reflexivity.
  cbn [map shiftI].
  assert (E2 : ((if 0 <=? e2 then e2 + - n else e2) =? L - n) = (e2 =? L)).
  { destruct (Z.leb_spec 0 e2), (Z.eqb_spec e2 L); [apply Z.eqb_eq; lia|apply Z.eqb_neq; lia|lia|apply Z.eqb_neq; lia]. }
  assert (E1 : ((if 0 <=? e1 then e1 + - n else e1) =? L - n) = (e1 =? L)).
  { destruct (Z.leb_spec 0 e1), (Z.eqb_spec e1 L); [apply Z.eqb_eq; lia|apply Z.eqb_neq; lia|lia|apply Z.eqb_neq; lia]. }
  assert (Es : (s2 + - n =? L - n) = (s2 =? L)) by (destruct (Z.eqb_spec s2 L); [apply Z.eqb_eq; lia|apply Z.eqb_neq; lia]).
  rewrite E2, E1, Es. destruct ((k2 =? SoftLineBreakKind) && (s2 =? L) && (e2 =? L) && (k1 =? TextKind) && (e1 =? L)) eqn:Ec; [|reflexivity].
  rewrite map_app, map_rev. cbn [map shiftI]. replace (0 <=? L + 1) with true by (symmetry; apply Z.leb_le; lia).
  f_equal. f_equal. f_equal. lia.
Qed.
Lemma finI_shift K L n ik : 0 <= n <= L -> map (shiftI (- n)) (finI K L ik) = finI K (L - n) (map (shiftI (- n)) ik).
Proof.
  intros Hn. unfold finI. destruct (_ || _); [rewrite !map_map; apply map_ext; intros u; apply bumpI_shift, Hn|].
  destruct (_ || _); [apply finCode_shift, Hn|reflexivity].
Qed.
Lemma F_shift L n : 0 <= n <= L -> forall b, shiftB (- n) (finB L b) = finB (L - n) (shiftB (- n) b).
Proof.
  intros Hn. fix IH 1. intros [K s e bk ik a nn c l lb]. cbn [finB shiftB]. destruct (K =? ListMarkerKind); [reflexivity|]. cbn [shiftB].
  rewrite (bump_shift L n e Hn), (finI_shift K L n ik Hn). f_equal. rewrite !map_map.
  induction bk as [|x r IHr]; [reflexivity|]. cbn [map]. rewrite (IH x), IHr. reflexivity.
Qed.
Lemma map_F_shift L n K : 0 <= n <= L -> map (shiftB (- n)) (map (finB L) K) = map (finB (L - n)) (map (shiftB (- n)) K).
Proof. intros Hn. rewrite !map_map. apply map_ext. intros b. apply F_shift, Hn. Qed.

(* the single-run side conditions of the phase after the last line, under the shift *)
Definition topNoLM (K : list block) : bool := forallb (fun c => negb (bkind c =? ListMarkerKind)) K.
Definition RBinv (L : Z) (K : list block) : Prop :=
  (forall x, In x K -> 0 <= bend x < L -> finB L x = x) /\ forallb (scB L) K = true /\ topNoLM K = true.

Lemma fb_map {A B} (f : A -> B) (p : B -> bool) l : forallb p (map f l) = forallb (fun x => p (f x)) l.
Proof. induction l as [|x l IH]; [reflexivity|]. cbn [map forallb]. rewrite IH. reflexivity. Qed.
Lemma fb_ext {A} (p q : A -> bool) l : (forall x, p x = q x) -> forallb p l = forallb q l.
Proof. intros H. induction l as [|x l IH]; [reflexivity|]. cbn [forallb]. rewrite H, IH. reflexivity. Qed.
Lemma nslbL_shift n ik : nslbL (map (shiftI (- n)) ik) = nslbL ik.
Proof. unfold nslbL. rewrite fb_map. apply fb_ext. intros [k s e i r ks]. reflexivity. Qed.
Lemma tailShape_shift L n ik : 0 <= n <= L -> tailShape L ik = true -> tailShape (L - n) (map (shiftI (- n)) ik) = true.
Proof.
  intros Hn. unfold tailShape. rewrite <- map_rev. destruct (rev ik) as [|[k2 s2 e2 i2 r2 ks2] [|[k1 s1 e1 i1 r1 ks1] pre]]; try discriminate.
  cbn [map shiftI]. intros H. repeat (apply andb_true_iff in H; destruct H as [H ?]).
  match goal with X : (s2 =? L) = true |- _ => apply Z.eqb_eq in X; subst s2 end.
  match goal with X : (e2 =? L) = true |- _ => apply Z.eqb_eq in X; subst e2 end.
  match goal with X : (e1 =? L) = true |- _ => apply Z.eqb_eq in X; subst e1 end.
  replace (0 <=? L) with true by (symmetry; apply Z.leb_le; lia).
  rewrite H. match goal with X : (k1 =? TextKind) = true |- _ => rewrite X end.
  replace (L + - n =? L - n) with true by (symmetry; apply Z.eqb_eq; lia). cbn [andb].
  rewrite <- map_rev, nslbL_shift. assumption.
Qed.
Lemma scB_shift L n : 0 <= n <= L -> forall b, scB L b = true -> scB (L - n) (shiftB (- n) b) = true.
Proof.
  intros Hn. fix IH 1. intros [K s e bk ik a nn c l lb] H. unfold scB in *. cbn [allB shiftB] in *. apply andb_true_iff in H. destruct H as [H1 H2].
  apply andb_true_iff. split.
  - unfold scP in *. cbn [bkind bik] in *. destruct (negb (K =? IndentedCodeBlockKind)); [reflexivity|]. cbn [orb] in *.
    apply orb_true_iff in H1. destruct H1 as [H1|H1]; [rewrite nslbL_shift, H1; reflexivity|rewrite (tailShape_shift L n ik Hn H1); apply orb_true_r].
  - clear H1. induction bk as [|x r IHr]; [reflexivity|]. cbn [map forallb] in *. apply andb_true_iff in H2. destruct H2 as [Hx Hr]. rewrite (IH x Hx). apply IHr, Hr.
Qed.
Lemma bend_shiftB' n b : bend (shiftB n b) = if 0 <=? bend b then bend b + n else bend b. Proof. destruct b; reflexivity. Qed.
Lemma bkind_shiftB' n b : bkind (shiftB n b) = bkind b. Proof. destruct b; reflexivity. Qed.
Lemma RBinv_shift L n K : 0 <= n <= L -> RBinv L K -> RBinv (L - n) (map (shiftB (- n)) K).
Proof.
  intros Hn (A & B & C). split; [|split].
  - intros y Hy Hb. apply in_map_iff in Hy. destruct Hy as (x & <- & Hx). rewrite bend_shiftB' in Hb.
    rewrite <- (F_shift L n Hn x). rewrite A; [reflexivity|exact Hx|]. destruct (Z.leb_spec 0 (bend x)); lia.
  - rewrite fb_map. rewrite forallb_forall in *. intros x Hx. apply scB_shift; [exact Hn|apply B, Hx].
  - unfold topNoLM in *. rewrite fb_map. erewrite fb_ext; [exact C|]. intros x. rewrite bkind_shiftB'. reflexivity.
Qed.
