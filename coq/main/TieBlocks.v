From Coq Require Import List ZArith Lia Bool.
Import ListNotations.
Require Import Base Tree Html LP Rules Link Inl3a Render.
Require GenConsts GenClassify.
Open Scope Z_scope.

(* Tie: constants of the block layer and of the line recognizers. *)
Lemma tie_blocks :
  GenConsts.c_codeBlockIndentLimit = codeBlockIndentLimit /\ GenConsts.c_tabStopSize = 4 /\
  GenConsts.c_parseListMarker_maxDigits = 9 /\ GenConsts.c_parseCodeFence_minConsecutive = 3 /\
  GenConsts.c_nullReplacementString = [239; 191; 189] /\ GenConsts.c_blockQuotePrefix = [62] /\
  GenConsts.c_cdataPrefix = cdataPrefix /\ GenConsts.c_cdataSuffix = cdataSuffix /\
  GenConsts.c_htmlCommentPrefix = commentPrefix /\ GenConsts.c_htmlCommentSuffix = commentSuffix /\
  GenConsts.c_htmlBlockStarters1 = starters1 /\ GenConsts.c_htmlBlockEnders1 = enders1.
Proof. repeat split; reflexivity. Qed.
Print Assumptions tie_blocks.
