(* T63-F1, direction D1: the byte '>' that ends an inline HTML tag is read inside an entry (SpanHtml.v with the stronger conclusion). *)
From Coq Require Import List ZArith Lia Bool.
Import ListNotations.
Require Import Base Tables Utf8 Tree Rdr Link Collect Html Recog Inl3a Inl3b Inl3c Inl3d Inl3e Leaf3a Leaf3e RdrBound.
Require Import SpanForest SpanIds SpanStack SpanEmph SpanSmall SpanTok SpanRdr SpanCollect SpanScan SpanHtml.
Open Scope Z_scope.

Section HtmlIn.
  Variables (src : bytes) (U : list inline) (lo hi : Z).
  Hypothesis HEC : EC src U lo hi.
  Notation nU := (nthU U).
  Notation P := (SpanRdr.P src U).
  Notation AliveAt := (SpanRdr.AliveAt src U).
  Notation RS := (SpanRdr.RS src U).

  Ltac stepc :=
    match goal with
    | H : SpanRdr.RS src U ?s ?r |- context [current ?r] =>
      let Hc := fresh "Hc" in let Hp := fresh "Hp" in let Hv := fresh "Hv" in let H41 := fresh "H41" in let Hs := fresh "Hs" in let Hcc := fresh "Hcc" in
      destruct (RS_current src U lo hi HEC s r H) as (Hc & Hp & Hv & H41 & Hs & Hcc);
      let c := fresh "c" in let r' := fresh "r" in
      destruct (current r) as [c r']; cbn [fst snd] in Hc, Hp, Hv, H41, Hs, Hcc; cbn [fst snd]
    end.
  Ltac stepn :=
    match goal with
    | H : SpanRdr.RS src U ?s ?r |- context [next ?r] =>
      let Hn := fresh "Hn" in let Hm := fresh "Hm" in let Hok := fresh "Hok" in let Hfl := fresh "Hfl" in
      destruct (RS_next src U lo hi HEC s r H) as (Hn & Hm & Hok & Hfl);
      let ok := fresh "ok" in let r' := fresh "r" in
      destruct (next r) as [ok r']; cbn [fst snd] in Hn, Hm, Hok, Hfl; cbn [fst snd]
    end.

  (* x is a byte of an entry that is not an Indent entry *)
  Definition InE (x : Z) : Prop := exists k, 0 <= k < len U /\ istart (nU k) <= x < iend (nU k) /\ ikind (nU k) <> IndentKind.

  Lemma cur62_in r : RS true r -> fst (current r) = 62 -> InE (r_pos r).
  Proof.
    intros HR E. destruct (RS_current src U lo hi HEC true r HR) as (_ & Ep & _ & _ & Hs & Hcc).
    destruct (Hs eq_refl ltac:(rewrite E; discriminate) ltac:(rewrite E; reflexivity)) as (k & A).
    pose proof (alive_pos src U lo hi HEC _ _ A) as (A1 & A2 & _). rewrite Ep in A1.
    destruct (cur_src src U lo hi HEC _ k 62 A ltac:(rewrite Hcc; exact E) ltac:(lia) ltac:(lia)) as (_ & Ni).
    exists k. split; [exact A2|]. split; [exact A1|exact Ni].
  Qed.
  Lemma InE_eq x y : InE x -> x = y -> InE y. Proof. intros H <-. exact H. Qed.

  Lemma openTag_loop_in : forall fuel r, RS true r -> 0 <= fst (openTag_loop fuel r) -> InE (fst (openTag_loop fuel r) - 1).
  Proof.
    induction fuel as [|f IH]; intros r HR; cbn [openTag_loop]; [cbn; lia|].
    destruct (skipLinkSpace_spec src U lo hi HEC (S f) true r HR) as (K1 & K2 & K3). destruct (skipLinkSpace (S f) r) as [ok r1]. cbn [fst snd] in *.
    destruct ok; cbn [negb]; [|cbn; lia]. specialize (K3 eq_refl).
    pose proof (cur62_in r1 K3) as H62. stepc.
    destruct (c =? 47).
    - stepn. destruct ok; cbn [negb orb]; [|cbn; lia]. destruct (Hok eq_refl) as (Hr3 & _). destruct (jumped r2); [cbn; lia|].
      pose proof (cur62_in r2 Hr3) as H62b. stepc. destruct (Z.eqb_spec c0 62) as [E|N]; cbn [negb]; [|cbn; lia].
      intros _. cbn [fst]. apply (InE_eq _ _ (H62b E)). lia.
    - destruct (Z.eqb_spec c 62) as [E|N].
      + intros _. cbn [fst]. apply (InE_eq _ _ (H62 E)). lia.
      + match goal with |- context [if ?b then _ else _] => destruct b end; [cbn; lia|].
        pose proof (parseHTMLAttribute_spec src U lo hi HEC (S f) r0 Hc) as HA. destruct (parseHTMLAttribute (S f) r0) as [ok3 r3]. cbn [fst snd] in HA.
        destruct ok3; cbn [negb]; [|cbn; lia]. destruct (HA eq_refl) as (A1 & A2). intros E. exact (IH r3 A1 E).
  Qed.
  Lemma parseHTMLOpenTag_in fuel r : RS true r -> 0 <= fst (parseHTMLOpenTag fuel r) -> InE (fst (parseHTMLOpenTag fuel r) - 1).
  Proof.
    intros HR. unfold parseHTMLOpenTag. destruct (parseHTMLTagName_spec src U lo hi HEC fuel r HR) as (A1 & A2). destruct (parseHTMLTagName fuel r) as [ok r1]. cbn [snd] in *.
    destruct ok; cbn [negb]; [|cbn; lia]. intros E. exact (openTag_loop_in fuel r1 A1 E).
  Qed.
  Lemma parseHTMLClosingTag_in fuel r : RS true r -> 0 <= fst (parseHTMLClosingTag fuel r) -> InE (fst (parseHTMLClosingTag fuel r) - 1).
  Proof.
    intros HR. unfold parseHTMLClosingTag. stepc. destruct (c =? 47); cbn [negb]; [|cbn; lia].
    stepn. destruct ok; cbn [negb orb]; [|cbn; lia]. destruct (Hok eq_refl) as (Hr2 & _). destruct (jumped r1); [cbn; lia|].
    destruct (parseHTMLTagName_spec src U lo hi HEC fuel r1 Hr2) as (A1 & A2). destruct (parseHTMLTagName fuel r1) as [ok2 r3]. cbn [snd] in *.
    destruct ok2; cbn [negb]; [|cbn; lia].
    destruct (skipLinkSpace_spec src U lo hi HEC fuel true r3 A1) as (K1 & K2 & K3). destruct (skipLinkSpace fuel r3) as [ok3 r4]. cbn [fst snd] in *.
    destruct ok3; cbn [negb]; [|cbn; lia]. specialize (K3 eq_refl). pose proof (cur62_in r4 K3) as H62. stepc.
    destruct (Z.eqb_spec c0 62) as [E|N]; cbn [negb]; [|cbn; lia]. intros _. cbn [fst]. apply (InE_eq _ _ (H62 E)). lia.
  Qed.
  Lemma ht_pi_in : forall fuel r start, RS true r -> spanValid (ht_pi fuel r start) = true -> InE (snd (ht_pi fuel r start) - 1).
  Proof.
    induction fuel as [|f IH]; intros r start HR; cbn [ht_pi]; [cbn; discriminate|]. unfold cur.
    stepc. destruct (negb (c =? 63)).
    - stepn. destruct ok; cbn [negb]; [|cbn; discriminate]. destruct (Hok eq_refl) as (Hr1 & _). intros E. exact (IH _ start Hr1 E).
    - stepn. destruct ok; cbn [negb orb]; [|cbn; discriminate]. destruct (Hok eq_refl) as (Hr1 & _). destruct (jumped r1); [cbn; discriminate|].
      pose proof (cur62_in r1 Hr1) as H62. destruct (Z.eqb_spec (fst (current r1)) 62) as [E|N].
      + intros _. cbn [fst snd]. apply (InE_eq _ _ (H62 E)). lia.
      + intros E. exact (IH _ start Hr1 E).
  Qed.
  Lemma ht_until_in : forall fuel r r5, RS true r -> ht_until fuel r 62 = Some r5 -> InE (r_pos r5).
  Proof.
    induction fuel as [|f IH]; intros r r5 HR; cbn [ht_until]; [discriminate|]. unfold cur.
    pose proof (cur62_in r HR) as H62. stepc. destruct (Z.eqb_spec c 62) as [E|N].
    - intros X. inversion X; subst. apply (InE_eq _ _ (H62 E)). lia.
    - stepn. destruct ok; cbn [negb]; [|discriminate]. destruct (Hok eq_refl) as (Hr1 & _). intros X. exact (IH _ _ Hr1 X).
  Qed.
  (* after a prefix of three bytes has been seen in the current entry, two steps stay inside it *)
  Lemma two_steps_in r p3 : RS true r -> len p3 = 3 -> hasBytePrefix (fst (remainingNodeBytes r)) p3 = true ->
    InE (r_pos (snd (next (snd (next (snd (remainingNodeBytes r))))))).
  Proof.
    intros HR H3 Hpre. destruct (RS_remaining src U lo hi HEC true r HR) as (R1 & R2 & R3). pose proof (prefix_len _ _ Hpre) as Hl.
    destruct (R3 ltac:(intros X; rewrite X in Hl; cbn in Hl; lia)) as (k & A & Er).
    pose proof (alive_pos src U lo hi HEC _ _ A) as (A1 & A2 & _). destruct (eb src U lo hi HEC k A2) as (B1 & B2 & B3). pose proof (ec_hi _ _ _ _ HEC).
    pose proof (ec_lo _ _ _ _ HEC). rewrite Er in Hl. rewrite len_sub in Hl; [|lia|lia].
    assert (Ni : ikind (nU k) <> IndentKind) by (intros Ei; pose proof (ec_width _ _ _ _ HEC k A2 Ei); lia).
    destruct (nextN_pos src U lo hi HEC 2 _ k A Ni ltac:(lia)) as (N1 & N2). cbn [nextN] in N1, N2.
    pose proof (alive_pos src U lo hi HEC _ _ N1) as (AP1 & _). exists k. split; [exact A2|]. split; [exact AP1|exact Ni].
  Qed.
  Lemma ht_comment_in : forall fuel r start, RS true r -> spanValid (ht_comment fuel r start) = true -> InE (snd (ht_comment fuel r start) - 1).
  Proof.
    induction fuel as [|f IH]; intros r start HR; cbn [ht_comment]; [cbn; discriminate|].
    pose proof (two_steps_in r [45; 45; 62] HR eq_refl) as H2. destruct (RS_remaining src U lo hi HEC true r HR) as (R1 & R2 & _).
    destruct (remainingNodeBytes r) as [rem r0]. cbn [fst snd] in *.
    destruct (hasBytePrefix rem [45; 45; 62]); [intros _; cbn [fst snd]; apply (InE_eq _ _ (H2 eq_refl)); lia|].
    destruct (hasBytePrefix rem [45; 45]); [cbn; discriminate|].
    stepn. destruct ok; cbn [negb]; [|cbn; discriminate]. destruct (Hok eq_refl) as (Hr1 & _). intros E. exact (IH _ start Hr1 E).
  Qed.
  Lemma ht_cdata_in : forall fuel r start, RS true r -> spanValid (ht_cdata fuel r start) = true -> InE (snd (ht_cdata fuel r start) - 1).
  Proof.
    induction fuel as [|f IH]; intros r start HR; cbn [ht_cdata]; [cbn; discriminate|].
    pose proof (two_steps_in r [93; 93; 62] HR eq_refl) as H2. destruct (RS_remaining src U lo hi HEC true r HR) as (R1 & R2 & _).
    destruct (remainingNodeBytes r) as [rem r0]. cbn [fst snd] in *.
    destruct (hasBytePrefix rem [93; 93; 62]); [intros _; cbn [fst snd]; apply (InE_eq _ _ (H2 eq_refl)); lia|].
    stepn. destruct ok; cbn [negb]; [|cbn; discriminate]. destruct (Hok eq_refl) as (Hr1 & _). intros E. exact (IH _ start Hr1 E).
  Qed.

  Lemma parseHTMLTag_in fuel r : RS true r -> spanValid (parseHTMLTag fuel r) = true -> InE (snd (parseHTMLTag fuel r) - 1).
  Proof.
    intros HR. unfold parseHTMLTag, cur. stepc. destruct (negb (c =? 60)); [cbn; discriminate|].
    stepn. destruct ok; cbn [negb orb]; [|cbn; discriminate]. destruct (Hok eq_refl) as (Hr1 & _).
    destruct (jumped r1); [cbn; discriminate|]. stepc.
    destruct (c0 =? 63).
    { stepn. destruct ok; cbn [negb]; [|cbn; discriminate]. destruct (Hok0 eq_refl) as (Hr3 & _).
      intros E. exact (ht_pi_in fuel _ (r_pos r) Hr3 E). }
    destruct (c0 =? 33).
    { stepn. destruct ok; cbn [negb orb]; [|cbn; discriminate]. destruct (Hok0 eq_refl) as (Hr3 & _). destruct (jumped r3); [cbn; discriminate|].
      destruct (RS_remaining src U lo hi HEC true r3 Hr3) as (R1 & R2 & R3). destruct (remainingNodeBytes r3) as [rem r4]. cbn [fst snd] in *.
      destruct ((0 <? len rem) && isASCIILetter (at_ rem 0)) eqn:El.
      - apply andb_true_iff in El. destruct El as [El1 El2]. apply Z.ltb_lt in El1.
        destruct (R3 ltac:(intros X; rewrite X in El1; cbn in El1; lia)) as (k & A & Er).
        pose proof (alive_pos src U lo hi HEC _ _ A) as (A1 & A2 & _). destruct (eb src U lo hi HEC k A2) as (B1 & B2 & B3).
        pose proof (ec_hi _ _ _ _ HEC). pose proof (ec_lo _ _ _ _ HEC).
        rewrite Er, (at_sub0 src) in El2 by lia. destruct (letter_notws _ El2) as (Nw & _).
        assert (HR5 : RS true (snd (next r4))).
        { destruct (RS_next src U lo hi HEC true r4 R1) as (_ & _ & Hok5 & _). destruct (fst (next r4)) eqn:Eo; [apply Hok5; reflexivity|].
          apply (next_fail_true src U lo hi HEC r4 k A Eo). rewrite R2. exact Nw. }
        destruct (ht_until fuel (snd (next r4)) 62) as [r5|] eqn:Eu; [|cbn; discriminate].
        pose proof (ht_until_in fuel _ _ HR5 Eu) as I. intros _. cbn [fst snd]. apply (InE_eq _ _ I). lia.
      - destruct (hasBytePrefix rem [45; 45]).
        + stepn. stepn. destruct ok0; cbn [negb orb]; [|cbn; discriminate]. destruct (Hok2 eq_refl) as (Hr6 & _). destruct (jumped r6); [cbn; discriminate|].
          destruct (RS_remaining src U lo hi HEC true r6 Hr6) as (Q1 & Q2 & _). destruct (remainingNodeBytes r6) as [ts r7]. cbn [fst snd] in *.
          destruct (_ || _); [cbn; discriminate|]. intros E. exact (ht_comment_in fuel _ (r_pos r) Q1 E).
        + destruct (hasBytePrefix rem [91; 67; 68; 65; 84; 65; 91]); [|cbn; discriminate].
          destruct (nextNok 7 r4) as [r5|] eqn:En; [|cbn; discriminate]. destruct (nextNok_spec src U lo hi HEC _ _ _ R1 En) as (N1 & N2).
          intros E. exact (ht_cdata_in fuel _ (r_pos r) N1 E). }
    destruct (c0 =? 47).
    { pose proof (parseHTMLClosingTag_in fuel _ Hc0) as H. destruct (parseHTMLClosingTag fuel r2) as [e r']. cbn [fst] in H.
      destruct (Z.ltb_spec e 0); [cbn; discriminate|]. intros _. cbn [fst snd]. apply H. lia. }
    pose proof (parseHTMLOpenTag_in fuel _ Hc0) as H. destruct (parseHTMLOpenTag fuel r2) as [e r']. cbn [fst] in H.
    destruct (Z.ltb_spec e 0); [cbn; discriminate|]. intros _. cbn [fst snd]. apply H. lia.
  Qed.
End HtmlIn.
