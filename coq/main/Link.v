From Coq Require Import List ZArith Lia Bool.
Import ListNotations.
Require Import Base Tree Rdr.
Open Scope Z_scope.

Definition nullSpan : Z * Z := (-1, -1).
Definition spanValid (s : Z * Z) : bool := (0 <=? fst s) && (0 <=? snd s) && (fst s <=? snd s).

(* skipLinkSpace (inlines.go:1177) *)
Fixpoint skipLinkSpace_loop (fuel : nat) (r : reader) : bool * reader :=
  match fuel with
  | O => (true, r)
  | S f =>
    let '(c, r1) := current r in
    if isSpaceTabOrLineEnding c then
      let '(ok, r2) := next r1 in if ok then skipLinkSpace_loop f r2 else (false, r2)
    else (true, r1)
  end.
Definition skipLinkSpace (fuel : nat) (r : reader) : bool * reader :=
  let '(c, r1) := current r in
  if c =? 0 then (false, r1) else skipLinkSpace_loop fuel r1.

(* skipSpacesAndTabs (blocks.go:1403) *)
Fixpoint skipSpacesAndTabs (fuel : nat) (r : reader) : bool * reader :=
  match fuel with
  | O => (false, r)
  | S f =>
    let '(c, r1) := current r in
    if isSpTab c then
      let '(ok, r2) := next r1 in if ok then skipSpacesAndTabs f r2 else (false, r2)
    else (negb (c =? 0), r1)
  end.

(* readEOL (blocks.go:1417): end position or -1 *)
Definition readEOL (fuel : nat) (r : reader) : Z * reader :=
  let '(ok, r1) := skipSpacesAndTabs fuel r in
  if negb ok then (r_pos r1, r1) else
  let '(c, r2) := current r1 in
  if c =? 13 then
    let '(ok2, r3) := next r2 in
    if negb ok2 then (r_prev r3 + 1, r3) else
    let '(c2, r4) := current r3 in
    if c2 =? 10 then let '(_, r5) := next r4 in (r_prev r5 + 1, r5) else (r_prev r4 + 1, r4)
  else if c =? 10 then let '(_, r3) := next r2 in (r_prev r3 + 1, r3)
  else (-1, r2).

(* parseLinkLabel (inlines.go:1118): (span, inner) *)
Definition maxChars := 999.
Fixpoint ll_skip (fuel : nat) (r : reader) (chars : Z) : option (reader * Z) :=
  match fuel with
  | O => None
  | S f =>
    let '(ok, r1) := next r in
    if negb ok then None else
    let chars := chars + 1 in
    let '(c, r2) := current r1 in
    if (maxChars <=? chars) || (c =? 91) || (c =? 93) then None
    else if negb (isSpaceTabOrLineEnding c) then Some (r2, chars) else ll_skip f r2 chars
  end.
Fixpoint ll_body (fuel : nat) (r : reader) (chars innerEnd : Z) : option (reader * Z) :=
  match fuel with
  | O => None
  | S f =>
    let '(c, r1) := current r in
    if negb ((chars <? maxChars) && negb (c =? 91) && negb (c =? 93)) then Some (r1, innerEnd) else
    if c =? 92 then
      let innerEnd := r_pos r1 + 1 in
      let chars := chars + 1 in
      let '(ok, r2) := next r1 in
      if negb ok then None else
      let '(c2, r3) := current r2 in
      let innerEnd := if negb (isSpaceTabOrLineEnding c2) then r_pos r3 + 1 else innerEnd in
      let '(ok2, r4) := next r3 in
      if negb ok2 then None else ll_body f r4 (chars + 1) innerEnd
    else
      let innerEnd := if negb (isSpaceTabOrLineEnding c) then r_pos r1 + 1 else innerEnd in
      let '(ok, r2) := next r1 in
      if negb ok then None else ll_body f r2 (chars + 1) innerEnd
  end.
(* result: ((spanStart, spanEnd), (innerStart, innerEnd)), reader *)
Definition parseLinkLabel (fuel : nat) (r : reader) : (Z * Z) * (Z * Z) * reader :=
  let '(c, r0) := current r in
  if negb (c =? 91) then (nullSpan, nullSpan, r0) else
  let start := r_pos r0 in
  match ll_skip fuel r0 0 with
  | None => (nullSpan, nullSpan, r0)
  | Some (r1, chars) =>
    let innerStart := r_pos r1 in
    match ll_body fuel r1 chars (-1) with
    | None => (nullSpan, nullSpan, r1)
    | Some (r2, innerEnd) =>
      let '(c2, r3) := current r2 in
      if negb (c2 =? 93) then (nullSpan, nullSpan, r3) else
      let spanEnd := r_pos r3 + 1 in
      let '(_, r4) := next r3 in
      ((start, spanEnd), (innerStart, innerEnd), r4)
    end
  end.

(* parseLinkDestination (inlines.go:1007): (span, text) *)
Fixpoint ld_angle (fuel : nat) (r : reader) (start : Z) : (Z * Z) * (Z * Z) * reader :=
  match fuel with
  | O => (nullSpan, nullSpan, r)
  | S f =>
    let '(ok, r1) := next r in
    if negb ok then (nullSpan, nullSpan, r1) else
    let '(c, r2) := current r1 in
    if (c =? 13) || (c =? 10) then (nullSpan, nullSpan, r2)
    else if c =? 92 then
      let '(ok2, r3) := next r2 in
      if negb ok2 then (nullSpan, nullSpan, r3) else
      let '(c2, r4) := current r3 in
      if (c2 =? 10) || (c2 =? 13) then (nullSpan, nullSpan, r4) else ld_angle f r4 start
    else if c =? 62 then
      let '(_, r3) := next r2 in
      ((start, r_prev r3 + 1), (start + 1, r_prev r3), r3)
    else ld_angle f r2 start
  end.
Fixpoint ld_bare (fuel : nat) (r : reader) (paren : Z) : reader :=
  match fuel with
  | O => r
  | S f =>
    let '(c, r1) := current r in
    if isASCIIControl c || (c =? 32) then r1
    else if c =? 92 then
      let '(ok, r2) := next r1 in
      if negb ok then r2 else
      let '(c2, r3) := current r2 in
      if isASCIIControl c2 || (c2 =? 32) then r3 else
      let '(ok2, r4) := next r3 in if ok2 then ld_bare f r4 paren else r4
    else if c =? 40 then
      let '(ok, r2) := next r1 in if ok then ld_bare f r2 (paren + 1) else r2
    else if c =? 41 then
      if paren - 1 <? 0 then r1 else
      let '(ok, r2) := next r1 in if ok then ld_bare f r2 (paren - 1) else r2
    else
      let '(ok, r2) := next r1 in if ok then ld_bare f r2 paren else r2
  end.
Definition parseLinkDestination (fuel : nat) (r : reader) : (Z * Z) * (Z * Z) * reader :=
  let '(c, r0) := current r in
  if c =? 60 then ld_angle fuel r0 (r_pos r0)
  else if negb (isASCIIControl c) && negb (c =? 32) && negb (c =? 41) then
    let start := r_pos r0 in
    let r1 := ld_bare fuel r0 0 in
    ((start, r_pos r1), (start, r_pos r1), r1)
  else (nullSpan, nullSpan, r0).

(* parseLinkTitle (inlines.go:1076) *)
Fixpoint lt_loop (fuel : nat) (r : reader) (start term : Z) : (Z * Z) * (Z * Z) * reader :=
  match fuel with
  | O => (nullSpan, nullSpan, r)
  | S f =>
    let '(ok, r1) := next r in
    if negb ok then (nullSpan, nullSpan, r1) else
    let '(c, r2) := current r1 in
    if c =? 92 then
      let '(ok2, r3) := next r2 in
      if negb ok2 then (nullSpan, nullSpan, r3) else lt_loop f r3 start term
    else if c =? term then
      let '(_, r3) := next r2 in
      ((start, r_prev r3 + 1), (start + 1, r_prev r3), r3)
    else lt_loop f r2 start term
  end.
Definition parseLinkTitle (fuel : nat) (r : reader) : (Z * Z) * (Z * Z) * reader :=
  let '(c, r0) := current r in
  if negb ((c =? 39) || (c =? 34) || (c =? 40)) then (nullSpan, nullSpan, r0) else
  lt_loop fuel r0 (r_pos r0) (if c =? 40 then 41 else c).
