From Coq Require Import List ZArith Lia Bool.
Import ListNotations.
Require Import Base Tables Utf8 Tree Rdr Link Collect Html Recog Inl3a Inl3b Inl3c Inl3d Inl3e LP Rules Starts Driver Leaf3e RdrBound
  L2Kind L2CC L2CCfull L2Bnd L2BndS Rec16 Rec17 Rec18
  BSDef BSRdr BSTree BSOcp BSOrph BSClose BSLine1 BSLine2 BSLine3 BSLine4 BSLine5 BSLine6 BSLine7 BSLine8 BSErase BSLine9 BSLine10 BSShift BlockSpans.
Require Import BlockShapesNul.
Require Import ShapesBase EntBase EntRdr1 EntOcpDefs EntOcp En2Tree EntCur En2LP1 En2LP8 En2Drv.
Require Import ExRdr ExOcp EolCRRenderBlkRdr EolCRRenderBlkOcp EolCRRenderBlkWalk.
Require ShDef.
Open Scope Z_scope.

(* ================================================================================================
   T61 (block half), part 4: the invariant invN through the stream layer, next to the invariants of En2Drv (ExDrv.v with
   invN in the place of ExInv1.inv / invX): at the start of every line the tree invariant `en` says that the entries of
   the open paragraphs are `lines` of the buffer, hence gL in the source of the line.
   ================================================================================================ *)

(* ---- lines -> gL ---- *)
Lemma lines_gL src E : forall ik, lines src E ik -> E <= len src -> gL src ik = true.
Proof.
  induction ik as [|u r IH]; intros H HE; [reflexivity|].
  pose proof (lines_entry src E (u :: r) u H (or_introl eq_refl)) as (E1 & E2 & E3 & _ & Hk).
  pose proof H as (A & A1 & A2). cbn [gL]. rewrite (IH A2 HE), andb_true_r.
  replace (0 <=? istart u) with true by (symmetry; apply Z.leb_le; lia).
  replace (istart u <? iend u) with true by (symmetry; apply Z.ltb_lt; lia).
  replace (iend u <=? len src) with true by (symmetry; apply Z.leb_le; lia).
  cbn [andb].
  assert (Hu : ukind u = true) by (unfold ukind; destruct Hk as [-> | ->]; reflexivity). rewrite Hu. cbn [andb].
  destruct (Z.eqb_spec (ikind u) IndentKind) as [Ek|Ek].
  - destruct A as [(B1 & _)|[(B1 & B2 & B3 & B4 & B5 & B6) Hn]]; [rewrite B1 in Ek; discriminate|].
    replace (iend u =? istart u + 1) with true by (symmetry; apply Z.eqb_eq; exact B4). rewrite B5. cbn [andb negb eolb Z.eqb orb].
    unfold nextIs in Hn. destruct r as [|v r']; [contradiction|]. destruct Hn as [_ N2]. apply Z.eqb_eq. exact N2.
  - destruct r as [|w r']; [reflexivity|].
    destruct A as [A|[(B1 & _) _]]; [|congruence].
    pose proof (lines_notlast_lt _ _ _ _ _ H HE) as Hlt.
    pose proof (lines_unp_last _ _ _ A Hlt) as He. unfold isEOLz in He. unfold eolb.
    destruct He as [-> | ->]; reflexivity.
Qed.

(* ---- the paragraph facts needed at the start of a line, from the invariant en ---- *)
Lemma en_inv4 src B H M : agreeTo B src H -> M <= H -> len src = H -> H <= len B ->
  forall b, en B M b -> invN B b = true -> inv4 src B b = true.
Proof.
  intros Ag HM HL HB. fix IH 1. intros [K s e bk ik a n c l lb] He Hx. cbn [en] in He. destruct He as [Hik Hk].
  cbn [invN] in Hx. apply andb_true_iff in Hx. destruct Hx as [Hx Hxk]. cbn [inv4]. rewrite Hx, andb_true_r.
  apply andb_true_iff. split.
  - unfold locQ4. cbn [bend bkind bik]. destruct (Z.ltb_spec e 0) as [L|L]; [|reflexivity]. destruct (isPSb K) eqn:Ep; [|reflexivity]. cbn [andb negb orb].
    destruct Hik as (P1 & _ & P3 & _).
    assert (HP : isPS K) by (unfold isPSb in Ep; apply orb_true_iff in Ep; destruct Ep as [Ep|Ep]; apply Z.eqb_eq in Ep; [left|right]; exact Ep).
    destruct (P1 HP) as (Hl & _). rewrite (bound_open M e L) in Hl.
    pose proof (lines_agree B src H M Ag HM HL HB ik Hl) as Hl'.
    rewrite (lines_gL src M ik Hl' ltac:(lia)). cbn [andb].
    pose proof (P3 L) as N. apply Z.eqb_neq in N. rewrite N. reflexivity.
  - clear Hik Hx. induction bk as [|x r IHr]; [reflexivity|]. cbn [forallb allP] in *. destruct Hk as [A B']. apply andb_true_iff in Hxk. destruct Hxk as [C D].
    rewrite (IH x A C), (IHr B' D). reflexivity.
Qed.
Lemma en_inv4L src B H M l : agreeTo B src H -> M <= H -> len src = H -> H <= len B ->
  allP (en B M) l -> invNL B l = true -> inv4L src B l = true.
Proof.
  intros Ag HM HL HB. induction l as [|x r IH]; [reflexivity|]. cbn [allP]. intros [A B'] Hx. unfold invNL in Hx. cbn [forallb] in Hx. apply andb_true_iff in Hx. destruct Hx as [C D].
  unfold inv4L. cbn [forallb]. rewrite (en_inv4 src B H M Ag HM HL HB x A C). apply IH; assumption.
Qed.

(* ---- the shift of the pending blocks ---- *)
Lemma spanOKb_shift B n u : 0 <= n -> spanOKb B u = true -> spanOKb (from_ B n) (shiftI (- n) u) = true.
Proof.
  intros Hn H. apply spanOKb_intro. destruct u as [kd s e ind rf ks]. cbn [shiftI istart iend] in *. intros A C.
  destruct (Z.leb_spec 0 e) as [L|L]; [|lia].
  destruct (spanOKb_elim B _ H ltac:(cbn [istart]; lia) ltac:(cbn [istart iend]; lia)) as (P1 & P2). cbn [istart iend] in *.
  split.
  - rewrite ShapesBase.len_from_gen by lia. lia.
  - replace (s + - n) with (s - n) by lia. replace (e + - n) with (e - n) by lia. rewrite ShDef.sub_from by lia. exact P2.
Qed.
Lemma EN_shift B n u : 0 <= n -> EN B u = true -> EN (from_ B n) (shiftI (- n) u) = true.
Proof.
  intros Hn H. unfold EN in *. replace (ikind (shiftI (- n) u)) with (ikind u) by (destruct u; reflexivity).
  destruct (ikind u =? LinkDestinationKind); [|reflexivity]. cbn [negb orb] in *. apply spanOKb_shift; assumption.
Qed.
Lemma invN_shift B n : 0 <= n -> forall b, invN B b = true -> invN (from_ B n) (shiftB (- n) b) = true.
Proof.
  intros Hn. fix IH 1. intros [k s e bk ik a nn c l lb] H. cbn [invN] in H. apply andb_true_iff in H. destruct H as [Hx Hk].
  cbn [shiftB invN]. apply andb_true_iff. split.
  - clear Hk. unfold locN in *. cbn [bkind bik] in *. destruct (k =? LinkReferenceDefinitionKind); [|reflexivity]. cbn [negb orb] in *.
    rewrite forallb_forall in *. intros x Hxi. apply in_map_iff in Hxi. destruct Hxi as (y & <- & Hy). apply EN_shift; [exact Hn|apply Hx, Hy].
  - clear Hx. induction bk as [|x r IHr]; [reflexivity|]. cbn [map forallb] in *. apply andb_true_iff in Hk. destruct Hk as [A B']. rewrite (IH x A), (IHr B'). reflexivity.
Qed.

(* the source of a line is a prefix of the buffer *)
Lemma sub_prefix (B : bytes) k : 0 <= k <= len B -> forall s e, 0 <= s -> e <= len (upto B k) -> e <= len B /\ sub B s e = sub (upto B k) s e.
Proof.
  intros Hk s e Hs He. rewrite ShapesBase.len_upto in He. split; [lia|]. symmetry. apply ShDef.sub_upto; lia.
Qed.

(* ---- the stream state ---- *)
Definition NJ (s : bpst) (ch : list block) : Prop := invNL (buf s) ch = true.
Definition okRN (r : rootB) : Prop :=
  exists B, 0 <= bend (rb_blk r) <= len B /\ rb_src r = fillNulls (upto B (bend (rb_blk r))) /\
            tri (upto B (bend (rb_blk r))) /\ invN B (rb_blk r) = true.
Definition okNN (x : nb) : Prop :=
  match x with NBBlock r s' => okRN r /\ (exists ns, SJ s' (pending s') ns) /\ EJ s' (pending s') /\ NJ s' (pending s') | _ => True end.

Lemma NJ_makeRoot s children ns r s' : SJ s children ns -> EJ s children -> NJ s children -> makeRoot children s = Some (r, s') ->
  okRN r /\ EJ s' (pending s') /\ NJ s' (pending s').
Proof.
  intros HS HE X1 Hm. destruct (EJ_makeRoot _ _ _ _ _ HS HE Hm) as [_ He'].
  destruct HS as ((Hb & Hc & Hn) & Hcc & Ha & Hch). destruct HE as (He & Hp & Ht).
  unfold makeRoot in Hm. destruct children as [|b rest]; [discriminate|].
  destruct (isOpen b) eqn:Eo; [discriminate|]. inversion Hm; subst. clear Hm.
  unfold isOpen in Eo. apply Z.ltb_ge in Eo. cbn [rb_blk rb_src buf pending] in *.
  unfold NJ, invNL in X1. cbn [forallb] in X1. apply andb_true_iff in X1. destruct X1 as [A1 A2].
  destruct Ha as [Sb Sr]. destruct He as [Eb Er]. pose proof (sp_bounds _ _ Sb) as Hbb.
  destruct (tri_cut (buf s) Ht (bend b) (en_end_bdy _ _ _ Eb Eo)) as [T1 T2].
  split; [|split; [exact He'|]].
  - exists (buf s). cbn [rb_blk rb_src]. split; [lia|]. split; [reflexivity|]. split; [exact T1|exact A1].
  - unfold NJ, invNL. cbn [buf pending]. rewrite forallb_forall in *. intros x Hx. apply in_map_iff in Hx. destruct Hx as (y & <- & Hy). apply invN_shift; [exact Eo|apply A2, Hy].
Qed.

Lemma NJ_lineLoop : forall fuel st children ls s ns, 0 <= ls <= len (buf s) -> bi s = lineEnd (buf s) ls ->
  bndL ls ns children = true -> (ns = false -> ls = len (buf s)) -> ccF children = true -> kidsOK ls children ->
  allP (en (buf s) ls) children -> prevOK (buf s) ls -> tri (buf s) ->
  invNL (buf s) children = true ->
  okNN (lineLoop fuel st children ls s).
Proof.
  induction fuel as [|f IH]; intros st children ls s ns Hls Hbi Hc Hn Hcc Hk He Hp Ht X1; [exact I|]. cbn [lineLoop].
  destruct (lineEnd_spec (buf s) ls Hls) as [A B]. rewrite <- Hbi in A, B.
  set (ln := from_ (upto (buf s) (bi s)) ls).
  destruct (line_of (buf s) ls (bi s) ltac:(lia) ltac:(lia)) as [Ll _]. fold ln in Ll.
  set (ns' := if ns then hasByteSuffixEOL ln else false).
  assert (Hc' : bndL (bi s) ns' children = true).
  { unfold ns'. destruct ns.
    - pose proof (bndL_mono ls (bi s) children ltac:(lia) Hc) as Hm. destruct (hasByteSuffixEOL ln); [exact Hm|apply bndL_weaken, Hm].
    - rewrite (Hn eq_refl) in *. replace (bi s) with (len (buf s)) by lia. exact Hc. }
  assert (Hn' : ns' = false -> bi s = len (buf s)).
  { unfold ns'. destruct ns; [|intros _; rewrite (Hn eq_refl) in *; lia].
    intros Ee. destruct (Z.lt_ge_cases (bi s) (len (buf s))) as [Lt|Ge]; [|lia].
    exfalso. rewrite Hbi in Lt. pose proof (line_hasEOL (buf s) ls Hls Lt) as Hh. rewrite <- Hbi in Hh. fold ln in Hh. congruence. }
  pose proof (bnd_processLine (bi s) ns' st children ls (upto (buf s) (bi s)) ltac:(lia) ltac:(lia) ltac:(fold ln; lia)
                ltac:(rewrite L2BndS.len_upto by lia; lia) ltac:(unfold ns'; fold ln; destruct ns; [tauto|discriminate]) Hc') as H1.
  pose proof (sp_processLine (bi s) ns' st children ls (upto (buf s) (bi s)) ltac:(lia) ltac:(lia) ltac:(fold ln; lia)
                ltac:(rewrite L2BndS.len_upto by lia; lia) ltac:(unfold ns'; fold ln; destruct ns; [tauto|discriminate]) Hc' Hcc Hk) as H2.
  pose proof (cc_processLine st children ls (upto (buf s) (bi s)) Hcc) as H3.
  pose proof (ent_processLine (buf s) (bi s) st children ls ltac:(lia) ltac:(lia) ltac:(lia) Hp
                ltac:(rewrite Hbi; apply lineEnd_lineOK, Hls) Hcc Hk He) as H4.
  assert (Hi4 : inv4L (upto (buf s) (bi s)) (buf s) children = true).
  { apply (en_inv4L _ (buf s) (bi s) ls); [apply agreeTo_upto; lia|lia|rewrite L2BndS.len_upto by lia; reflexivity|lia|exact He|exact X1]. }
  pose proof (N_processLine (upto (buf s) (bi s)) (buf s) (sub_prefix (buf s) (bi s) ltac:(lia)) (bi s) ltac:(lia) ns' st children ls ltac:(lia) ltac:(fold ln; lia)
                ltac:(rewrite L2BndS.len_upto by lia; lia) ltac:(unfold ns'; fold ln; destruct ns; [tauto|discriminate]) Hc' Hi4) as H6.
  destruct (processLine st children ls (upto (buf s) (bi s))) as [[children' st'] pn]. cbn [fst] in H1, H2, H3, H4, H6.
  destruct (negb (pn =? 0)); [exact I|].
  assert (HS : SJ s children' ns') by (split; [repeat split; try lia; assumption|split; assumption]).
  assert (Hp' : prevOK (buf s) (bi s)).
  { destruct (Z.lt_ge_cases (bi s) (len (buf s))) as [Lt|Ge]; [|right; right; lia]. destruct (B Lt) as [_ D]. right. left. apply isEOLb_z, D. }
  assert (HE : EJ s children') by (split; [assumption|split; assumption]).
  assert (HX : NJ s children') by exact H6.
  destruct (makeRoot children' s) as [[r s']|] eqn:Em.
  - cbn [okNN]. destruct (SJ_makeRoot _ _ _ _ _ HS Em) as [_ Hs']. destruct (NJ_makeRoot _ _ _ _ _ HS HE HX Em) as (Hr & He' & Hx').
    split; [exact Hr|split; [eauto|split; assumption]].
  - apply (IH st' children' (bi s) _ ns'); cbn [buf bi]; try assumption; try lia; reflexivity.
Qed.

Lemma NJ_skipLoop : forall fuel s, bi s = 0 -> tri (buf s) -> okNN (skipLoop fuel s).
Proof.
  induction fuel as [|f IH]; intros s Hb Ht; [exact I|]. cbn [skipLoop]. cbv zeta.
  destruct (negb _); [exact I|].
  assert (Hls : 0 <= bi s <= len (buf s)) by (pose proof (len_nonneg (buf s)); lia).
  destruct (isBlankLine _).
  - apply IH; [reflexivity|]. cbn [buf]. apply tri_cut; [exact Ht|]. apply prevOK_bdy.
    destruct (lineEnd_spec (buf s) (bi s) Hls) as [A B]. destruct (Z.lt_ge_cases (lineEnd (buf s) (bi s)) (len (buf s))) as [Lt|Ge]; [|right; right; lia].
    destruct (B Lt) as [_ D]. right. left. apply isEOLb_z, D.
  - apply (NJ_lineLoop f 0 [] 0 _ true); cbn [buf bi];
      [lia|rewrite Hb; reflexivity|reflexivity|discriminate|reflexivity|split; exact I|exact I|left; reflexivity|exact Ht|reflexivity].
Qed.

Lemma NJ_nextBlock fuel s ns : SJ s (pending s) ns -> EJ s (pending s) -> NJ s (pending s) -> okNN (nextBlock fuel s).
Proof.
  intros HS HE HX. unfold nextBlock. destruct (makeRoot (pending s) s) as [[r s']|] eqn:Em.
  - cbn [okNN]. destruct (SJ_makeRoot _ _ _ _ _ HS Em) as [_ Hs']. destruct (NJ_makeRoot _ _ _ _ _ HS HE HX Em) as (Hr & He' & Hx').
    split; [exact Hr|split; [eauto|split; assumption]].
  - destruct HS as ((Hb & Hc & Hn) & Hcc & Hk). destruct HE as (He & Hp & Ht). unfold NJ in HX. destruct (pending s) as [|b0 rest] eqn:Ep.
    + apply NJ_skipLoop; [reflexivity|]. cbn [buf]. apply tri_cut; [exact Ht|apply prevOK_bdy, Hp].
    + apply (NJ_lineLoop fuel 0 (b0 :: rest) (bi s) _ ns); cbn [buf bi]; try assumption; try lia; reflexivity.
Qed.

Lemma NJ_allBlocks : forall fuel s acc ns, SJ s (pending s) ns -> EJ s (pending s) -> NJ s (pending s) -> Forall okRN acc ->
  Forall okRN (fst (allBlocks fuel s acc)).
Proof.
  induction fuel as [|f IH]; intros s acc ns HS HE HX Ha; [exact Ha|]. cbn [allBlocks].
  pose proof (NJ_nextBlock (3 + length (buf s)) s ns HS HE HX) as Hn.
  destruct (nextBlock _ s) as [r s'| | |]; try exact Ha.
  destruct Hn as (Hr & (ns' & Hs') & He' & Hx'). apply (IH s' _ ns'); [exact Hs'|exact He'|exact Hx'|].
  apply Forall_app. split; [exact Ha|]. constructor; [exact Hr|constructor].
Qed.

Theorem parseBlocks_okRN : forall input, Forall okRN (fst (parseBlocks input)).
Proof.
  intros input. unfold parseBlocks. apply (NJ_allBlocks _ _ _ true); [| | |constructor].
  - split; [|split; [reflexivity|split; exact I]].
    unfold SI. cbn [buf bi pending]. pose proof (len_nonneg (pad input)). repeat split; try lia.
  - split; [exact I|split; [left; reflexivity|apply tri_pad]].
  - reflexivity.
Qed.
Print Assumptions parseBlocks_okRN.
