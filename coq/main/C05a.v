From Coq Require Import List ZArith Lia Bool.
Import ListNotations.
Require Import Base Tree Rdr Link Collect Html Recog LP Rules Starts Driver Render L2Kind2 GramDefs GramTree.
Require BSLine1.
Open Scope Z_scope.

(* ================================================================== *)
(* C05a: one more whole-run invariant of the block layer (skeleton of  *)
(* GIB.v / L2Kind2.v), for the clauses of Props.gramB not covered yet: *)
(*   - the kind of every block child is one of the twelve block kinds; *)
(*   - a list has at least one child;                                  *)
(*   - a list marker only occurs as a child of a list item;            *)
(*   - the entries of a code block are Text / Indent / SoftLineBreak,  *)
(*     except that the first one may be the InfoString (fenced only).  *)
(* Tree level.                                                         *)
(* ================================================================== *)

Definition k12 (K : Z) : bool :=
  (K =? ListKind) || (K =? ListItemKind) || (K =? ListMarkerKind) || (K =? BlockQuoteKind) || (K =? LinkReferenceDefinitionKind) ||
  (K =? ParagraphKind) || isHeading K || isCode K || (K =? HTMLBlockKind) || (K =? ThematicBreakKind).
Definition isMk (b : block) : bool := bkind b =? ListMarkerKind.
Definition tis (u : inline) : bool := (ikind u =? TextKind) || (ikind u =? IndentKind) || (ikind u =? SoftLineBreakKind).
Definition codeIk (K : Z) (ik : list inline) : bool :=
  match ik with
  | [] => true
  | c0 :: rest => (if ikind c0 =? InfoStringKind then K =? FencedCodeBlockKind else tis c0) && forallb tis rest
  end.
Definition ikK (K : Z) (ik : list inline) : bool := if isCode K then codeIk K ik else true.
Definition kidsK (K : Z) (bk : list block) : bool :=
  forallb (fun c => k12 (bkind c)) bk && (if K =? ListKind then negb (nilb bk) else true) &&
  (if K =? ListItemKind then true else forallb (fun c => negb (isMk c)) bk).
Fixpoint np (b : block) : bool :=
  match b with Blk K _ _ bk ik _ _ _ _ _ => kidsK K bk && ikK K ik && forallb np bk end.
Definition npL (l : list block) : bool := forallb np l.

Lemma np_eq b : np b = kidsK (bkind b) (bkids b) && ikK (bkind b) (bik b) && npL (bkids b).
Proof. destruct b; reflexivity. Qed.
Lemma np_parts b : np b = true -> kidsK (bkind b) (bkids b) = true /\ ikK (bkind b) (bik b) = true /\ npL (bkids b) = true.
Proof. rewrite np_eq. intros H. apply andb_true_iff in H. destruct H as [H H3]. apply andb_true_iff in H. tauto. Qed.
Lemma np_mk b : kidsK (bkind b) (bkids b) = true -> ikK (bkind b) (bik b) = true -> npL (bkids b) = true -> np b = true.
Proof. intros A B C. rewrite np_eq, A, B, C. reflexivity. Qed.

Lemma kidsK_parts K bk : kidsK K bk = true ->
  forallb (fun c => k12 (bkind c)) bk = true /\ (K = ListKind -> bk <> []) /\ (K <> ListItemKind -> forallb (fun c => negb (isMk c)) bk = true).
Proof.
  unfold kidsK. intros H. apply andb_true_iff in H. destruct H as [H H3]. apply andb_true_iff in H. destruct H as [H1 H2].
  split; [exact H1|]. split.
  - intros E. rewrite E in H2. change (ListKind =? ListKind) with true in H2. cbv iota in H2. intros E2. rewrite E2 in H2. discriminate.
  - intros N. destruct (Z.eqb_spec K ListItemKind); [contradiction|exact H3].
Qed.
Lemma kidsK_mk K bk : forallb (fun c => k12 (bkind c)) bk = true -> (K = ListKind -> bk <> []) ->
  (K <> ListItemKind -> forallb (fun c => negb (isMk c)) bk = true) -> kidsK K bk = true.
Proof.
  intros A B C. unfold kidsK. rewrite A. cbn [andb]. apply andb_true_iff. split.
  - destruct (Z.eqb_spec K ListKind) as [E|N]; [|reflexivity]. destruct bk; [exfalso; apply (B E); reflexivity|reflexivity].
  - destruct (Z.eqb_spec K ListItemKind) as [E|N]; [reflexivity|apply C, N].
Qed.

(* ---- setters ---- *)
Lemma np_set_bend b v : np (set_bend b v) = np b. Proof. destruct b; reflexivity. Qed.
Lemma np_set_bstart b v : np (set_bstart b v) = np b. Proof. destruct b; reflexivity. Qed.
Lemma np_set_bn b v : np (set_bn b v) = np b. Proof. destruct b; reflexivity. Qed.
Lemma np_set_bchar b v : np (set_bchar b v) = np b. Proof. destruct b; reflexivity. Qed.
Lemma np_set_bindent b v : np (set_bindent b v) = np b. Proof. destruct b; reflexivity. Qed.
Lemma np_set_bloose b v : np (set_bloose b v) = np b. Proof. destruct b; reflexivity. Qed.
Lemma np_set_blast b v : np (set_blast b v) = np b. Proof. destruct b; reflexivity. Qed.
Lemma np_set_bik b ik : np b = true -> ikK (bkind b) ik = true -> np (set_bik b ik) = true.
Proof. intros H Hk. destruct (np_parts b H) as (A & _ & C). destruct b. unfold npL in *. cbn in *. rewrite A, Hk, C. reflexivity. Qed.
Lemma np_set_bkids b ks : np b = true -> kidsK (bkind b) ks = true -> npL ks = true -> np (set_bkids b ks) = true.
Proof. intros H Hk Hn. destruct (np_parts b H) as (_ & B & _). destruct b. unfold npL in *. cbn in *. rewrite Hk, B, Hn. reflexivity. Qed.
(* paragraph to setext heading *)
Lemma np_set_bkind b K' : bkind b = ParagraphKind -> K' = SetextHeadingKind -> np b = true -> np (set_bkind b K') = true.
Proof.
  intros E -> H. destruct (np_parts b H) as (A & _ & C). destruct b as [K s e bk ik a n c l lb]. cbn in E. subst K.
  unfold npL in *. cbn [np set_bkind bkind bkids bik] in *. rewrite C. change (ikK SetextHeadingKind ik) with true. rewrite !andb_true_r. exact A.
Qed.

(* ---- entries ---- *)
Lemma forallb_snoc {A} (p : A -> bool) l x : forallb p (l ++ [x]) = forallb p l && p x.
Proof. rewrite forallb_app. cbn. rewrite andb_true_r. reflexivity. Qed.
Lemma ikK_add_tis K ik u : ikK K ik = true -> (isCode K = true -> tis u = true) -> ikK K (ik ++ [u]) = true.
Proof.
  unfold ikK. destruct (isCode K); [|reflexivity]. intros H Hu. specialize (Hu eq_refl).
  destruct ik as [|c0 rest]; cbn [app codeIk] in *.
  - cbn [forallb]. rewrite andb_true_r. unfold tis in Hu.
    destruct (Z.eqb_spec (ikind u) InfoStringKind) as [E|N]; [rewrite E in Hu; discriminate|exact Hu].
  - apply andb_true_iff in H. destruct H as [H1 H2]. rewrite H1, forallb_snoc, H2, Hu. reflexivity.
Qed.
Lemma ikK_info ik u : ik = [] -> ikind u = InfoStringKind -> ikK FencedCodeBlockKind (ik ++ [u]) = true.
Proof. intros -> E. unfold ikK. cbn. rewrite E. reflexivity. Qed.
Lemma ikK_noncode K ik : isCode K = false -> ikK K ik = true.
Proof. unfold ikK. intros ->. reflexivity. Qed.
Lemma ikK_indented_sub ik ik' : (forall x, In x ik' -> In x ik) -> ikK IndentedCodeBlockKind ik = true -> ikK IndentedCodeBlockKind ik' = true.
Proof.
  unfold ikK. cbn [isCode]. change (isCode IndentedCodeBlockKind) with true. cbv iota.
  assert (Hall : forall l, codeIk IndentedCodeBlockKind l = forallb tis l).
  { intros [|c0 r]; [reflexivity|]. cbn [codeIk forallb]. destruct (Z.eqb_spec (ikind c0) InfoStringKind) as [E|N]; [|reflexivity].
    unfold tis. rewrite E. reflexivity. }
  rewrite !Hall. intros Hs H. eapply forallb_sub; eassumption.
Qed.

(* ---- block children ---- *)
Definition okR (x y : block) : Prop := (k12 (bkind x) = true -> k12 (bkind y) = true) /\ (isMk y = true -> isMk x = true).
Lemma okR_refl x : okR x x. Proof. split; tauto. Qed.
Lemma okR_kind x y : bkind y = bkind x -> okR x y.
Proof. intros E. unfold okR, isMk. rewrite E. tauto. Qed.
Lemma okR_trans x y z : okR x y -> okR y z -> okR x z.
Proof. intros [A B] [C D]. split; tauto. Qed.

Lemma npL_app a b : npL (a ++ b) = npL a && npL b. Proof. apply forallb_app. Qed.
Lemma npL_removelast l : npL l = true -> npL (removelast l) = true.
Proof. apply forallb_sub. intros x. apply removelast_In. Qed.
Lemma np_lastBlock b c : np b = true -> lastBlock b = Some c -> np c = true.
Proof.
  intros H Hl. destruct (np_parts b H) as (_ & _ & C). unfold npL in C. rewrite forallb_forall in C. apply C. eapply lastBlock_In. exact Hl.
Qed.
Lemma lastBlock_split b c : lastBlock b = Some c -> bkids b = removelast (bkids b) ++ [c].
Proof.
  unfold lastBlock. intros H. destruct (rev (bkids b)) as [|x r] eqn:Er; [discriminate|]. inversion H; subst x.
  assert (E : bkids b = rev r ++ [c]) by (rewrite <- (rev_involutive (bkids b)), Er; reflexivity).
  rewrite E at 2. rewrite removelast_last. exact E.
Qed.
Lemma np_kid_k12 b c : np b = true -> In c (bkids b) -> k12 (bkind c) = true.
Proof. intros H Hc. destruct (np_parts b H) as (A & _). destruct (kidsK_parts _ _ A) as (A1 & _). rewrite forallb_forall in A1. apply A1, Hc. Qed.

(* replace the last child c by a non-empty list of blocks that are admissible in its place *)
Lemma np_set_lastBlocks b c repl : np b = true -> lastBlock b = Some c -> repl <> [] -> npL repl = true ->
  (forall y, In y repl -> okR c y) -> np (set_lastBlocks b repl) = true.
Proof.
  intros H Hl Hne Hr Hok. destruct (np_parts b H) as (A & B & C). destruct (kidsK_parts _ _ A) as (A1 & A2 & A3).
  pose proof (lastBlock_In b c Hl) as Hin.
  unfold set_lastBlocks. apply np_set_bkids; [exact H| |rewrite npL_app, Hr, andb_true_r; apply npL_removelast, C].
  apply kidsK_mk.
  - rewrite forallb_app. apply andb_true_iff. split; [eapply forallb_sub; [|exact A1]; intros x; apply removelast_In|].
    apply forallb_forall. intros y Hy. apply (Hok y Hy). rewrite forallb_forall in A1. apply A1, Hin.
  - intros _ E. apply app_eq_nil in E. destruct E as [_ E]. contradiction.
  - intros N. specialize (A3 N). rewrite forallb_app. apply andb_true_iff. split; [eapply forallb_sub; [|exact A3]; intros x; apply removelast_In|].
    apply forallb_forall. intros y Hy. rewrite forallb_forall in A3. specialize (A3 c Hin).
    destruct (isMk y) eqn:Ey; [|reflexivity]. rewrite (proj2 (Hok y Hy) Ey) in A3. discriminate.
Qed.

Lemma bkind_set_lastBlocks' b l : bkind (set_lastBlocks b l) = bkind b. Proof. destruct b; reflexivity. Qed.

Lemma np_updAt_at f : forall d b, np b = true ->
  (forall x, getAt d b = Some x -> np x = true -> np (f x) = true /\ okR x (f x)) ->
  np (updAt d f b) = true /\ okR b (updAt d f b).
Proof.
  induction d as [|d IH]; intros b H Hf; [apply Hf; [reflexivity|exact H]|]. cbn [updAt].
  destruct (lastBlock b) as [c|] eqn:El; [|split; [exact H|apply okR_refl]].
  destruct (IH c (np_lastBlock b c H El)) as [I1 I2].
  { intros x Hx. apply Hf. cbn [getAt]. rewrite El. exact Hx. }
  split; [|apply okR_kind, bkind_set_lastBlocks'].
  apply (np_set_lastBlocks b c); [exact H|exact El|discriminate|unfold npL; cbn [forallb]; rewrite I1; reflexivity|].
  intros y [<-|[]]. exact I2.
Qed.
Lemma np_updAt f d b : np b = true -> (forall x, np x = true -> np (f x) = true /\ okR x (f x)) -> np (updAt d f b) = true.
Proof. intros H Hf. apply (np_updAt_at f d b H). intros x _. apply Hf. Qed.

Lemma np_append x y : np x = true -> np y = true -> k12 (bkind y) = true -> (bkind x <> ListItemKind -> isMk y = false) ->
  np (appendB y x) = true.
Proof.
  intros Hx Hy Hk Hm. destruct (np_parts x Hx) as (A & B & C). destruct (kidsK_parts _ _ A) as (A1 & A2 & A3).
  unfold appendB. apply np_set_bkids; [exact Hx| |rewrite npL_app, C; unfold npL; cbn [forallb]; rewrite Hy; reflexivity].
  apply kidsK_mk.
  - rewrite forallb_snoc, A1, Hk. reflexivity.
  - intros _ E. apply app_eq_nil in E. destruct E as [_ E]. discriminate.
  - intros N. rewrite forallb_snoc, (A3 N), (Hm N). reflexivity.
Qed.
Lemma np_newBlock K s : K <> ListKind -> np (newBlock K s) = true.
Proof.
  intros N. unfold newBlock. cbn [np forallb]. unfold kidsK, ikK. cbn [forallb nilb]. destruct (Z.eqb_spec K ListKind); [contradiction|].
  destruct (K =? ListItemKind); destruct (isCode K); reflexivity.
Qed.

(* ---- onClose handlers ---- *)
Lemma np_onCloseIndented src b : bkind b = IndentedCodeBlockKind -> np b = true -> np (onCloseIndented src b) = true.
Proof.
  intros Ek H. unfold onCloseIndented. apply np_set_bik; [exact H|]. rewrite Ek. destruct (np_parts b H) as (_ & B & _). rewrite Ek in B.
  eapply ikK_indented_sub; [|exact B]. intros x Hx.
  apply in_rev in Hx. apply trimBlankTail_sub in Hx. apply in_rev in Hx.
  destruct (rev (bik b)) as [|lst [|prev r]] eqn:Er; try exact Hx.
  destruct (_ && _ && _ && _); [|exact Hx].
  apply in_rev in Hx. apply in_rev. rewrite Er. right. exact Hx.
Qed.
Lemma kidsK_map K (g : block -> block) bk : (forall x, bkind (g x) = bkind x) -> kidsK K (map g bk) = kidsK K bk.
Proof.
  intros Hg. unfold kidsK. rewrite !forallb_map.
  replace (forallb (fun x => k12 (bkind (g x))) bk) with (forallb (fun c => k12 (bkind c)) bk) by (apply forallb_ext_in; intros x _; rewrite Hg; reflexivity).
  replace (forallb (fun x => negb (isMk (g x))) bk) with (forallb (fun c => negb (isMk c)) bk) by (apply forallb_ext_in; intros x _; unfold isMk; rewrite Hg; reflexivity).
  replace (nilb (map g bk)) with (nilb bk) by (destruct bk; reflexivity). reflexivity.
Qed.
Lemma np_onCloseList b : np b = true -> np (onCloseList b) = true.
Proof.
  intros H. unfold onCloseList. cbv zeta. destruct (bloose b || _); [|exact H].
  destruct (np_parts b H) as (A & B & C).
  apply np_set_bkids; [rewrite np_set_bloose; exact H| |].
  - replace (bkind (set_bloose b true)) with (bkind b) by (destruct b; reflexivity).
    rewrite kidsK_map; [exact A|intros x; destruct x; reflexivity].
  - unfold npL in *. rewrite forallb_forall in *. intros x Hx. apply in_map_iff in Hx. destruct Hx as (y & <- & Hy). rewrite np_set_bloose. apply C, Hy.
Qed.
Lemma bkind_onCloseList b : bkind (onCloseList b) = bkind b.
Proof. unfold onCloseList. cbv zeta. destruct (bloose b || _); [|reflexivity]. destruct b; reflexivity. Qed.
Lemma bkind_onCloseIndented src b : bkind (onCloseIndented src b) = bkind b.
Proof. unfold onCloseIndented. destruct b; reflexivity. Qed.

Lemma np_refDef s e kids : np (refDefBlock s e kids) = true. Proof. reflexivity. Qed.

(* the blocks the extraction of definitions puts in the place of a paragraph / setext heading *)
Definition psK (b : block) : Prop := bkind b = ParagraphKind \/ bkind b = SetextHeadingKind.
Definition okP (y : block) : Prop := np y = true /\ (bkind y = LinkReferenceDefinitionKind \/ psK y).
Definition okPL (l : list block) : Prop := forall y, In y l -> okP y.
Lemma okPL_snoc l y : okPL l -> okP y -> okPL (l ++ [y]).
Proof. intros A B z Hz. apply in_app_or in Hz. destruct Hz as [Hz|[<-|[]]]; [apply A, Hz|exact B]. Qed.
Lemma okP_refDef s e kids : okP (refDefBlock s e kids).
Proof. split; [reflexivity|left; reflexivity]. Qed.

Lemma np_ocp : forall fuel rfuel src orig orphan r result,
  okP orig -> psK orig -> (match orphan with Some o => okP o | None => True end) -> okPL result ->
  okPL (ocp_loop fuel rfuel src orig orphan r result).
Proof.
  induction fuel as [|f IH]; intros rfuel src orig orphan r result Ho Hps Hor Hr.
  { cbn [ocp_loop]. apply okPL_snoc; assumption. }
  assert (Hkeep : okPL (result ++ [orig])) by (apply okPL_snoc; assumption).
  assert (Hwo : forall res, okPL res -> okPL (match orphan with Some o => res ++ [o] | None => res end)).
  { intros res Hres. destruct orphan as [o|]; [apply okPL_snoc; assumption|assumption]. }
  assert (Hcut : forall pos, okP (set_bik (set_bstart orig pos) (from_ (bik orig) (nodeIndexForPosition (bik orig) pos))) /\
                             psK (set_bik (set_bstart orig pos) (from_ (bik orig) (nodeIndexForPosition (bik orig) pos)))).
  { intros pos. assert (Ek : bkind (set_bik (set_bstart orig pos) (from_ (bik orig) (nodeIndexForPosition (bik orig) pos))) = bkind orig) by (destruct orig; reflexivity).
    assert (Hp : psK (set_bik (set_bstart orig pos) (from_ (bik orig) (nodeIndexForPosition (bik orig) pos)))) by (unfold psK; rewrite Ek; exact Hps).
    split; [|exact Hp]. split; [|right; exact Hp].
    apply np_set_bik; [rewrite np_set_bstart; apply Ho|]. replace (bkind (set_bstart orig pos)) with (bkind orig) by (destruct orig; reflexivity).
    apply ikK_noncode. destruct Hps as [E|E]; rewrite E; reflexivity. }
  cbn [ocp_loop]. cbv zeta.
  destruct (parseLinkLabel rfuel r) as [[lspan linner] r1].
  destruct (negb (spanValid lspan)); [assumption|].
  destruct (current r1) as [c r2]. destruct (negb (c =? 58)); [assumption|].
  destruct (next r2) as [? r3]. destruct (skipLinkSpace rfuel r3) as [ok r4]. destruct (negb ok); [assumption|].
  destruct (parseLinkDestination rfuel r4) as [[dspan dtext] r5]. destruct (negb (spanValid dspan)); [assumption|].
  destruct (readEOL rfuel r5) as [destEOL r6]. destruct (current r6) as [c6 r7].
  destruct (_ && _ && _); [assumption|].
  set (labelInline := Inl LinkLabelKind _ _ 0 _ _). set (destInline := Inl LinkDestinationKind _ _ 0 [] _).
  assert (H2 : okPL (result ++ [refDefBlock (fst lspan) destEOL [labelInline; destInline]])) by (apply okPL_snoc; [assumption|apply okP_refDef]).
  destruct (skipLinkSpace rfuel r7) as [ok2 r8]. destruct (negb ok2); [apply Hwo; assumption|].
  destruct (parseLinkTitle rfuel r8) as [[tspan ttext] r9].
  destruct (negb (spanValid tspan)).
  { destruct (destEOL <? 0); [assumption|]. destruct (_ <? 0); [apply Hwo; assumption|].
    apply IH; [apply Hcut|apply Hcut|assumption|assumption]. }
  destruct (readEOL rfuel r9) as [titleEOL r10].
  destruct (titleEOL <? 0).
  { destruct (destEOL <? 0); [assumption|]. destruct (_ <? 0); [apply Hwo; assumption|].
    rewrite app_assoc. apply okPL_snoc; [exact H2|apply Hcut]. }
  set (titleInline := Inl LinkTitleKind _ _ 0 [] _).
  assert (H3 : okPL (result ++ [refDefBlock (fst lspan) titleEOL [labelInline; destInline; titleInline]])) by (apply okPL_snoc; [assumption|apply okP_refDef]).
  destruct (_ <? 0); [apply Hwo; assumption|]. apply IH; [apply Hcut|apply Hcut|assumption|assumption].
Qed.

Lemma np_onCloseParagraph src orig : np orig = true -> psK orig -> okPL (onCloseParagraph src orig).
Proof.
  intros H Hp. assert (Ho : okP orig) by (split; [exact H|right; exact Hp]).
  unfold onCloseParagraph. destruct (bik orig) as [|first rest] eqn:Eb; [intros y [<-|[]]; exact Ho|].
  cbv zeta. rewrite <- Eb. apply np_ocp; [exact Ho|exact Hp| |intros y []].
  destruct (bkind orig =? SetextHeadingKind); [|exact I]. split; [reflexivity|right; left; reflexivity].
Qed.

Lemma okR_ps c y : psK c -> (bkind y = LinkReferenceDefinitionKind \/ psK y) -> okR c y.
Proof.
  intros Hc Hy. split.
  - intros _. destruct Hy as [E|[E|E]]; rewrite E; reflexivity.
  - unfold isMk. intros E. destruct Hy as [E2|[E2|E2]]; rewrite E2 in E; discriminate.
Qed.

Lemma np_closeBlock src e : forall fuel b, np b = true ->
  npL (closeBlock fuel src b e) = true /\ (forall y, In y (closeBlock fuel src b e) -> okR b y).
Proof.
  induction fuel as [|f IH]; intros b H; [cbn; rewrite H; split; [reflexivity|intros y [<-|[]]; apply okR_refl]|]. cbn [closeBlock].
  destruct (negb (isOpen b)); [cbn; rewrite H; split; [reflexivity|intros y [<-|[]]; apply okR_refl]|]. cbv zeta.
  assert (Hcl : forall x, np x = true ->
            np (match lastBlock x with Some c => set_lastBlocks x (closeBlock f src c e) | None => x end) = true /\
            bkind (match lastBlock x with Some c => set_lastBlocks x (closeBlock f src c e) | None => x end) = bkind x).
  { intros x Hx. destruct (lastBlock x) as [c|] eqn:El; [|tauto]. split; [|apply bkind_set_lastBlocks'].
    destruct (IH c (np_lastBlock x c Hx El)) as [I1 I2].
    apply (np_set_lastBlocks x c); [exact Hx|exact El|apply BSLine1.closeBlock_nonnil|exact I1|exact I2]. }
  assert (H1 : np (set_bend b e) = true) by (rewrite np_set_bend; exact H).
  assert (Ek : bkind (set_bend b e) = bkind b) by (destruct b; reflexivity).
  destruct (Z.eqb_spec (bkind (set_bend b e)) ListKind) as [EL|NL].
  { destruct (Hcl _ (np_onCloseList _ H1)) as [C1 C2]. unfold npL. cbn [forallb]. rewrite C1. split; [reflexivity|].
    intros y [<-|[]]. apply okR_kind. rewrite C2, bkind_onCloseList. exact Ek. }
  destruct (Z.eqb_spec (bkind (set_bend b e)) IndentedCodeBlockKind) as [EI|NI].
  { destruct (Hcl _ (np_onCloseIndented src _ EI H1)) as [C1 C2]. unfold npL. cbn [forallb]. rewrite C1. split; [reflexivity|].
    intros y [<-|[]]. apply okR_kind. rewrite C2, bkind_onCloseIndented. exact Ek. }
  destruct ((bkind (set_bend b e) =? ParagraphKind) || (bkind (set_bend b e) =? SetextHeadingKind)) eqn:Ep.
  - assert (Hps : psK (set_bend b e)).
    { apply orb_true_iff in Ep. destruct Ep as [Ep|Ep]; apply Z.eqb_eq in Ep; [left|right]; exact Ep. }
    pose proof (np_onCloseParagraph src _ H1 Hps) as Hok. split.
    + unfold npL. apply forallb_forall. intros y Hy. apply (Hok y Hy).
    + intros y Hy. apply okR_ps; [unfold psK in *; rewrite <- Ek; exact Hps|apply (Hok y Hy)].
  - destruct (Hcl _ H1) as [C1 C2]. unfold npL. cbn [forallb]. rewrite C1. split; [reflexivity|].
    intros y [<-|[]]. apply okR_kind. rewrite C2. exact Ek.
Qed.

(* ---- shift ---- *)
Lemma ikind_shiftI n u : ikind (shiftI n u) = ikind u. Proof. destruct u; reflexivity. Qed.
Lemma np_shiftB n : forall b, np (shiftB n b) = np b.
Proof.
  fix IH 1. intros [K s e bk ik a nn c l lb]. cbn [shiftB np].
  assert (H3 : forallb np (map (shiftB n) bk) = forallb np bk).
  { induction bk as [|x r IHr]; [reflexivity|]. cbn [map forallb]. rewrite (IH x), IHr. reflexivity. }
  assert (H1 : kidsK K (map (shiftB n) bk) = kidsK K bk) by (apply kidsK_map; intros x; destruct x; reflexivity).
  assert (H2 : ikK K (map (shiftI n) ik) = ikK K ik).
  { assert (Ht : forall x, tis (shiftI n x) = tis x) by (intros x; unfold tis; rewrite ikind_shiftI; reflexivity).
    unfold ikK. destruct (isCode K); [|reflexivity]. destruct ik as [|c0 rest]; [reflexivity|]. cbn [map codeIk]. rewrite ikind_shiftI, Ht, forallb_map.
    replace (forallb (fun x => tis (shiftI n x)) rest) with (forallb tis rest) by (apply forallb_ext_in; intros x _; rewrite Ht; reflexivity). reflexivity. }
  rewrite H1, H2, H3. reflexivity.
Qed.
