From Coq Require Import List ZArith Lia Bool.
Import ListNotations.
Require Import Base Tree Inl3a PEProof GI0 GI1 GI2 GI3 ShapesBase.
Open Scope Z_scope.

(* ================================================================== *)
(* IS0: occurrences of an identity in a parse-time forest, at any     *)
(* depth, as a list of signatures (kind, start, end, childless?), and *)
(* how the forest operations act on it.  Fuel adequacy of findNode /  *)
(* updNode for the fuel the parser uses (fsize).                       *)
(* ================================================================== *)

Definition sg := (Z * Z * Z * bool)%type.
Definition sig (n : pn) : sg := (pkind n, ps n, pe n, nilb (pkids n)).
Definition sgK (q : sg) : Z := fst (fst (fst q)).
Definition sgS (q : sg) : Z := snd (fst (fst q)).
Definition sgE (q : sg) : Z := snd (fst q).
Definition sgL (q : sg) : bool := snd q.

Fixpoint occS (id : Z) (n : pn) : list sg :=
  match n with PN i k s e _ _ ks => (if i =? id then [(k, s, e, nilb ks)] else []) ++ flat_map (occS id) ks end.
Definition occF (id : Z) (l : list pn) : list sg := flat_map (occS id) l.

Lemma occS_eq id n : occS id n = (if pid n =? id then [sig n] else []) ++ occF id (pkids n).
Proof. destruct n; reflexivity. Qed.
Lemma occF_nil id : occF id [] = []. Proof. reflexivity. Qed.
Lemma occF_cons id n l : occF id (n :: l) = occS id n ++ occF id l. Proof. reflexivity. Qed.
Lemma occF_app id a b : occF id (a ++ b) = occF id a ++ occF id b.
Proof. unfold occF. apply flat_map_app. Qed.

(* ---------------------------------------------------------------- sizes *)
Definition sF (l : list pn) : nat := fold_right (fun c a => (psize c + a)%nat) O l.
Lemma fsize_sF l : fsize l = S (sF l). Proof. reflexivity. Qed.
Lemma psize_sF n : psize n = S (sF (pkids n)). Proof. destruct n; reflexivity. Qed.
Lemma sF_cons n l : sF (n :: l) = (psize n + sF l)%nat. Proof. reflexivity. Qed.
Lemma sF_in n l : In n l -> (psize n <= sF l)%nat.
Proof.
  induction l as [|x l IH]; intros H; [contradiction|]. rewrite sF_cons. destruct H as [->|H]; [lia|]. specialize (IH H). lia.
Qed.

(* ---------------------------------------------------------------- findNode *)
Lemma findNode_occ id : forall fuel l, (sF l <= fuel)%nat ->
  match occF id l with
  | [] => findNode fuel id l = None
  | q :: _ => exists n, findNode fuel id l = Some n /\ sig n = q /\ pid n = id
  end.
Proof.
  induction fuel as [|f IH]; intros l Hf.
  - destruct l as [|n r]; [reflexivity|]. rewrite sF_cons, psize_sF in Hf. lia.
  - destruct l as [|n r]; [reflexivity|]. rewrite sF_cons, psize_sF in Hf. cbn [findNode].
    rewrite occF_cons, occS_eq. destruct (Z.eqb_spec (pid n) id) as [E|E].
    + cbn [app]. exists n. repeat split. exact E.
    + cbn [app]. pose proof (IH (pkids n) ltac:(lia)) as Hk. pose proof (IH r ltac:(lia)) as Hr.
      destruct (occF id (pkids n)) as [|q qs].
      * rewrite Hk. cbn [app]. exact Hr.
      * destruct Hk as (m & Em & Hm). rewrite Em. cbn [app]. exists m. split; [reflexivity|exact Hm].
Qed.

Lemma nodeOf_occ st id q : occF id (rk st) = [q] -> sig (nodeOf st id) = q.
Proof.
  intros H. unfold nodeOf. pose proof (findNode_occ id (fsize (rk st)) (rk st) ltac:(rewrite fsize_sF; lia)) as Hf.
  rewrite H in Hf. destruct Hf as (n & -> & Hn & _). exact Hn.
Qed.


(* ---------------------------------------------------------------- emptiness of a child list under the operations *)
Lemma nilb_map {A B} (f : A -> B) l : nilb (map f l) = nilb l. Proof. destruct l; reflexivity. Qed.
Lemma nilb_app_cons {A} (a : list A) x b : nilb (a ++ x :: b) = false. Proof. destruct a; reflexivity. Qed.
Lemma nilb_updNode fuel id g l : nilb (updNode fuel id g l) = nilb l.
Proof. destruct fuel; [reflexivity|]. cbn [updNode]. apply nilb_map. Qed.
Lemma nilb_wrapIn fuel newId kind sId eId es pEnd l : nilb (wrapIn fuel newId kind sId eId es pEnd l) = nilb l.
Proof.
  destruct fuel; [reflexivity|]. cbn [wrapIn]. destruct (hasId sId l) eqn:Eh; [|apply nilb_map].
  unfold wrapLevel. destruct (splitAtId sId l) as [pre post]. destruct (splitBeforeId eId post) as [mid rest].
  cbn [app]. rewrite nilb_app_cons. destruct l; [discriminate|reflexivity].
Qed.

(* ---------------------------------------------------------------- updNode *)
Lemma occF_updNode_other id id' g : id <> id' -> (forall n, pid (g n) = pid n) ->
  (forall n, pid n = id' -> occF id (pkids (g n)) = occF id (pkids n)) ->
  forall fuel l, occF id (updNode fuel id' g l) = occF id l.
Proof.
  intros Hne Hp Hk. induction fuel as [|f IH]; intros l; [reflexivity|]. cbn [updNode].
  induction l as [|n r IHr]; [reflexivity|]. cbn [map]. rewrite !occF_cons, IHr. f_equal.
  destruct (Z.eqb_spec (pid n) id') as [E|E].
  - rewrite !occS_eq, Hp, E. destruct (Z.eqb_spec id' id) as [E2|_]; [congruence|]. cbn [app]. apply Hk, E.
  - rewrite !occS_eq, pid_setKids, pkids_setKids, IH. f_equal. destruct (pid n =? id); [|reflexivity].
    unfold sig. destruct n as [i k s e ind rf ks]. cbn [setKids pkind ps pe pkids]. rewrite nilb_updNode. reflexivity.
Qed.

Lemma updNode_nil fuel id g : updNode fuel id g [] = []. Proof. destruct fuel; reflexivity. Qed.

Lemma occF_updNode_same id g (G : sg -> sg) :
  (forall n, pid n = id -> pkids n = [] -> pid (g n) = id /\ pkids (g n) = [] /\ sig (g n) = G (sig n)) ->
  forall fuel l, (sF l <= fuel)%nat -> Forall (fun q => sgL q = true) (occF id l) ->
  occF id (updNode fuel id g l) = map G (occF id l).
Proof.
  intros Hg. induction fuel as [|f IH]; intros l Hf Hl.
  - destruct l as [|n r]; [reflexivity|]. rewrite sF_cons, psize_sF in Hf. lia.
  - cbn [updNode]. induction l as [|n r IHr]; [reflexivity|]. rewrite sF_cons, psize_sF in Hf.
    rewrite occF_cons in Hl. apply Forall_app in Hl. destruct Hl as [Hn Hr].
    cbn [map]. rewrite !occF_cons, map_app, IHr by (assumption || lia). f_equal.
    rewrite occS_eq in Hn. destruct (Z.eqb_spec (pid n) id) as [E|E].
    + apply Forall_app in Hn. destruct Hn as [Hn _]. pose proof (Forall_inv Hn) as Hq. unfold sgL, sig in Hq. cbn [snd] in Hq.
      apply nilb_true in Hq. destruct (Hg n E Hq) as (G1 & G2 & G3).
      rewrite !occS_eq, G1, G2, Hq, E, Z.eqb_refl. cbn [occF flat_map app map]. rewrite G3. reflexivity.
    + cbn [app] in Hn. rewrite !occS_eq, pid_setKids, pkids_setKids. destruct (Z.eqb_spec (pid n) id) as [E'|_]; [contradiction|].
      cbn [app]. apply IH; [lia|exact Hn].
Qed.

(* ---------------------------------------------------------------- wrapIn *)
Lemma occF_wrapLevel id newId kind sId eId es pEnd l : id <> newId ->
  occF id (wrapLevel newId kind sId eId es pEnd l) = occF id l.
Proof.
  intros Hne. unfold wrapLevel.
  pose proof (sAt_app sId l) as E1. destruct (splitAtId sId l) as [pre post].
  pose proof (sBefore_app eId post) as E2. destruct (splitBeforeId eId post) as [mid rest].
  subst l post. rewrite !occF_app. f_equal. f_equal. cbn [occF flat_map occS].
  destruct (Z.eqb_spec newId id) as [E|_]; [congruence|]. cbn [app]. apply app_nil_r.
Qed.
Lemma occF_wrapIn id newId kind sId eId es : id <> newId ->
  forall fuel pEnd l, occF id (wrapIn fuel newId kind sId eId es pEnd l) = occF id l.
Proof.
  intros Hne. induction fuel as [|f IH]; intros pEnd l; [reflexivity|]. cbn [wrapIn].
  destruct (hasId sId l); [apply occF_wrapLevel, Hne|].
  induction l as [|n r IHr]; [reflexivity|]. cbn [map]. rewrite !occF_cons, IHr. f_equal.
  rewrite !occS_eq, pid_setKids, pkids_setKids, IH. f_equal. destruct (pid n =? id); [|reflexivity].
  unfold sig. destruct n as [i k s e ind rf ks]. cbn [setKids pkind ps pe pkids]. rewrite nilb_wrapIn. reflexivity.
Qed.

(* ---------------------------------------------------------------- removeId *)
Lemma occF_filter_other id o l : id <> o -> Forall (fun q => sgL q = true) (occF o l) ->
  occF id (filter (fun n => negb (pid n =? o)) l) = occF id l.
Proof.
  intros Hne. induction l as [|n r IH]; intros H; [reflexivity|]. rewrite occF_cons in H. apply Forall_app in H. destruct H as [Hn Hr].
  cbn [filter]. destruct (Z.eqb_spec (pid n) o) as [E|E]; cbn [negb].
  - rewrite occF_cons, IH by exact Hr. rewrite occS_eq in Hn. rewrite E, Z.eqb_refl in Hn. apply Forall_app in Hn. destruct Hn as [Hn _].
    pose proof (Forall_inv Hn) as Hq. unfold sgL, sig in Hq. cbn [snd] in Hq. apply nilb_true in Hq.
    rewrite occS_eq, Hq, E. destruct (Z.eqb_spec o id) as [E2|_]; [congruence|]. reflexivity.
  - rewrite !occF_cons, IH by exact Hr. reflexivity.
Qed.
Lemma Forall_flat_in {A B} (P : B -> Prop) (f : A -> list B) l x : Forall P (flat_map f l) -> In x l -> Forall P (f x).
Proof.
  intros H Hx. rewrite Forall_forall in *. intros y Hy. apply H. apply in_flat_map. exists x. split; assumption.
Qed.
Lemma removeId_nil fuel o : removeId fuel o [] = []. Proof. destruct fuel; reflexivity. Qed.
Lemma occF_removeId id o : id <> o -> forall fuel l, Forall (fun q => sgL q = true) (occF o l) ->
  Forall (fun q => sgL q = true) (occF id l) ->
  occF id (removeId fuel o l) = occF id l.
Proof.
  intros Hne. induction fuel as [|f IH]; intros l H Hi; [reflexivity|]. cbn [removeId].
  destruct (hasId o l); [apply occF_filter_other; assumption|].
  induction l as [|n r IHr]; [reflexivity|]. rewrite occF_cons in H, Hi. apply Forall_app in H. destruct H as [Hn Hr].
  apply Forall_app in Hi. destruct Hi as [Hin Hir].
  cbn [map]. rewrite !occF_cons, IHr by assumption. f_equal.
  rewrite occS_eq in Hn, Hin. apply Forall_app in Hn. destruct Hn as [_ Hk]. apply Forall_app in Hin. destruct Hin as [Hin Hik].
  rewrite !occS_eq, pid_setKids, pkids_setKids, IH by assumption. f_equal. destruct (pid n =? id); [|reflexivity].
  pose proof (Forall_inv Hin) as Hq. unfold sgL, sig in Hq. cbn [snd] in Hq. apply nilb_true in Hq.
  unfold sig. destruct n as [i k s e ind rf ks]. cbn [setKids pkind ps pe pkids] in *. subst ks. rewrite removeId_nil. reflexivity.
Qed.

(* ---------------------------------------------------------------- appending, fresh identities *)
Lemma occS_idb b id : b <= id -> forall n, idb b n = true -> occS id n = [].
Proof.
  intros Hb. fix IH 1. intros [i k s e ind rf ks] H. cbn [idb] in H.
  apply andb_true_iff in H. destruct H as [H Hk]. apply andb_true_iff in H. destruct H as [_ H]. apply Z.ltb_lt in H.
  cbn [occS]. destruct (Z.eqb_spec i id) as [E|_]; [lia|]. cbn [app].
  induction ks as [|x l IHl]; [reflexivity|]. cbn [forallb flat_map] in *. apply andb_true_iff in Hk. destruct Hk as [Hx Hl].
  rewrite (IH x Hx), (IHl Hl). reflexivity.
Qed.
Lemma occF_idb b id l : forallb (idb b) l = true -> b <= id -> occF id l = [].
Proof.
  intros H Hb. induction l as [|n r IH]; [reflexivity|]. cbn [forallb] in H. apply andb_true_iff in H. destruct H as [Hn Hr].
  rewrite occF_cons, (occS_idb b id Hb n Hn), (IH Hr). reflexivity.
Qed.
Lemma occS_zid id : id <> 0 -> forall n, zid n = true -> occS id n = [].
Proof.
  intros Hb. fix IH 1. intros [i k s e ind rf ks] H. cbn [zid] in H.
  apply andb_true_iff in H. destruct H as [H Hk]. apply Z.eqb_eq in H.
  cbn [occS]. destruct (Z.eqb_spec i id) as [E|_]; [lia|]. cbn [app].
  induction ks as [|x l IHl]; [reflexivity|]. cbn [forallb flat_map] in *. apply andb_true_iff in Hk. destruct Hk as [Hx Hl].
  rewrite (IH x Hx), (IHl Hl). reflexivity.
Qed.
Lemma occF_zid id l : forallb zid l = true -> id <> 0 -> occF id l = [].
Proof.
  intros H Hb. induction l as [|n r IH]; [reflexivity|]. cbn [forallb] in H. apply andb_true_iff in H. destruct H as [Hn Hr].
  rewrite occF_cons, (occS_zid id Hb n Hn), (IH Hr). reflexivity.
Qed.

(* ---------------------------------------------------------------- identities stay below the counter *)
Lemma updNode_idb b id g : (forall n, idb b n = true -> idb b (g n) = true) ->
  forall fuel l, forallb (idb b) l = true -> forallb (idb b) (updNode fuel id g l) = true.
Proof.
  intros Hg. induction fuel as [|f IH]; intros l H; [exact H|]. cbn [updNode].
  rewrite forallb_forall in *. intros x Hx. apply in_map_iff in Hx. destruct Hx as (n & <- & Hn). specialize (H n Hn).
  destruct (pid n =? id); [apply Hg, H|]. apply idb_setKids; [exact H|]. apply IH. apply (idb_kids b n H).
Qed.
