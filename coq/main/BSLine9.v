From Coq Require Import List ZArith Lia Bool.
Import ListNotations.
Require Import Base Tree Rdr Link Collect Html Recog LP Rules Starts Driver L2Kind L2CC BSDef BSRdr BSTree BSOcp BSOrph BSClose
  BSLine1 BSLine2 BSLine3 BSLine4 BSLine5 BSLine6 BSLine7 BSLine8 BSErase.
Open Scope Z_scope.

Lemma blockStarts_oks : Forall startOKs blockStarts.
Proof.
  unfold blockStarts.
  apply Forall_cons; [apply sOK_startBlockQuote|]. apply Forall_cons; [apply sOK_startATX|].
  apply Forall_cons; [apply sOK_startFenced|]. apply Forall_cons; [apply sOK_startHTML|].
  apply Forall_cons; [apply sOK_startSetext|]. apply Forall_cons; [apply sOK_startThematic|].
  apply Forall_cons; [apply sOK_startListItem|]. apply Forall_cons; [apply sOK_startIndented|]. apply Forall_nil.
Qed.

Lemma tryStarts_ok : forall fs p, Forall startOKs fs -> OPx p -> LI p -> OPx (snd (tryStarts fs p)) /\ LI2 (snd (tryStarts fs p)).
Proof.
  induction fs as [|f r IH]; intros p Hfs H HL; [split; [exact H|left; exact HL]|].
  cbn [tryStarts]. cbv zeta. inversion Hfs as [|? ? Hf Hr]; subst.
  destruct (Hf (withState p stOpening)) as (A & B & C).
  { left. reflexivity. }
  { eapply OPx_cstep; [apply cstep_withState|exact H]. }
  { eapply LI_cstep; [apply cstep_withState|exact HL]. }
  destruct ((state (f (withState p stOpening)) =? stOpenMatched) || (state (f (withState p stOpening)) =? stLineConsumed)) eqn:Em.
  - cbn [snd]. tauto.
  - apply IH; [exact Hr|exact A|]. destruct C as [C|C]; [exact C|]. exfalso.
    apply orb_false_iff in Em. destruct Em as [E1 E2]. apply Z.eqb_neq in E1. apply Z.eqb_neq in E2. destruct C; contradiction.
Qed.

Lemma opening_loop_ok : forall fuel p, OPx p -> LI2 p -> OPx (snd (opening_loop fuel p)) /\ LI2 (snd (opening_loop fuel p)).
Proof.
  induction fuel as [|f IH]; intros p H HL; [split; assumption|]. cbn [opening_loop].
  destruct ((containerKind p =? ParagraphKind) || negb (acceptsLines (containerKind p))) eqn:Ec; [|split; assumption].
  assert (L : LI p).
  { destruct HL as [L|[L1 L2]]; [exact L|]. exfalso. apply orb_true_iff in Ec. destruct Ec as [Ec|Ec].
    - apply Z.eqb_eq in Ec. contradiction.
    - rewrite L1 in Ec. discriminate. }
  pose proof (tryStarts_ok blockStarts p blockStarts_oks H L) as H1. destruct (tryStarts blockStarts p) as [[|] p1]; cbn [snd] in H1.
  - destruct (_ =? stLineConsumed); [exact H1|apply IH; tauto].
  - exact H1.
Qed.

(* what addLineText needs *)
Definition Apre (p : lp) : Prop := BP p /\ C1 p /\ (acceptsLines (containerKind p) = false -> LI p).

Lemma tip_open : forall fuel b, bend b < 0 -> forall j x, (j <= tipDepth fuel b)%nat -> getAt j b = Some x -> bend x < 0.
Proof.
  induction fuel as [|f IH]; intros b Hb j x Hj Ex.
  - cbn [tipDepth] in Hj. replace j with O in Ex by lia. cbn in Ex. inversion Ex; subst x. exact Hb.
  - destruct j as [|j]; [cbn in Ex; inversion Ex; subst x; exact Hb|]. cbn [tipDepth] in Hj. rewrite getAt_S in Ex.
    destruct (lastBlock b) as [c|] eqn:El; [|discriminate]. destruct (isOpen c) eqn:Eo; [|lia].
    unfold isOpen in Eo. apply Z.ltb_lt in Eo. apply (IH c Eo j x); [lia|exact Ex].
Qed.

Lemma Apre_of p : OPx p -> LI2 p -> Apre p.
Proof. intros [A B] HL. split; [exact A|split; [exact B|]]. intros E. destruct HL as [L|[L _]]; [exact L|rewrite L in E; discriminate]. Qed.

Lemma deferredClose_ok p : OPx p -> LI2 p -> Apre (deferredClose p).
Proof.
  intros [HB H1] HL. pose proof HB as (A & B & C & D). unfold deferredClose. cbv zeta.
  set (tipD := tipDepth (bheight (root p)) (root p)).
  destruct (negb (isRestBlank p) && match getAt tipD (root p) with Some t => bkind t =? ParagraphKind | None => false end) eqn:Ec.
  - apply andb_true_iff in Ec. destruct Ec as [_ Ec]. destruct (getAt tipD (root p)) as [t|] eqn:Et; [|discriminate]. apply Z.eqb_eq in Ec.
    assert (Ro : bend (root p) < 0) by (apply (C O (root p)); [lia|reflexivity]).
    split; [split; [exact A|split; [exact B|split]]|split].
    + intros j x Hj Ex. change (cdepth (withCont p (Some tipD))) with tipD in Hj. apply (tip_open (bheight (root p)) (root p) Ro j x Hj Ex).
    + apply ccP_withCont; [exact D|eauto].
    + intros c Ecx _. exfalso. change (cdepth (withCont p (Some tipD))) with tipD in Ecx. change (root (withCont p (Some tipD))) with (root p) in Ecx.
      rewrite getAt_S_last, Et in Ecx. pose proof (para_no_kids t ltac:(eapply cc_getAt; [apply D|exact Et]) Ec) as Hk.
      unfold lastBlock in Ecx. rewrite Hk in Ecx. discriminate.
    + intros Ea. exfalso. assert (Ek : containerKind (withCont p (Some tipD)) = ParagraphKind).
      { unfold containerKind, contBlock. change (cdepth (withCont p (Some tipD))) with tipD. change (root (withCont p (Some tipD))) with (root p). rewrite Et. exact Ec. }
      rewrite Ek in Ea. discriminate.
  - assert (Hcl : forall x c, getAt (cdepth p) (root p) = Some x -> lastBlock x = Some c -> bend c < 0 -> sp (lineStart p) c).
    { intros x c Ex El Oc. apply H1; [|exact Oc]. rewrite getAt_S_last, Ex. exact El. }
    set (q := closeLastChildAt p (cdepth p) (lineStart p)).
    assert (HBq : BP q).
    { change (BPb (Mc p) q). apply (BPb_ext (Mc p) (withCont q (Some (cdepth p)))); try reflexivity.
      apply BPb_closeAt; [exact HB|unfold Mc; destruct A; lia|lia|lia|exact Hcl]. }
    split; [exact HBq|split].
    + apply (C1_ext (withCont q (Some (cdepth p)))); try reflexivity. apply C1_closeAt_ls; [exact D|exact Hcl].
    + intros Ea. unfold q in Ea. rewrite containerKind_closeHere in Ea. apply LI_closeHere; [exact HB|exact H1|].
      destruct HL as [L|[L _]]; [exact L|rewrite L in Ea; discriminate].
Qed.

Lemma openNewBlocks_ok p am : BP p -> cleanR p ->
  W (snd (openNewBlocks p am)) /\ (fst (openNewBlocks p am) = true -> Apre (snd (openNewBlocks p am))).
Proof.
  intros HB Hcl. pose proof HB as (A & B & C & D). unfold openNewBlocks. destruct (len (line p) =? 0) eqn:E0.
  - cbn [fst snd]. split; [|discriminate]. split; [apply A|]. cbn [lineStart line root withCont withRoot setLP].
    apply Z.eqb_eq in E0. rewrite E0. replace (lineStart p + 0) with (lineStart p) by lia.
    destruct (sp_closeBlock (source p) (lineStart p) (bheight (root p)) (root p) ltac:(apply D) Hcl (-1) ltac:(left; lia)) as [P _].
    destruct (closeBlock _ _ _ _) as [|b r]; [exact Hcl|apply P].
  - assert (H0 : OPx p) by (split; [exact HB|apply clean_C1; exact Hcl]).
    pose proof (opening_loop_ok (S (length (line p))) p H0 ltac:(left; apply clean_LI; exact Hcl)) as [H1 L1].
    destruct (opening_loop _ p) as [ht p1]. cbn [snd] in H1, L1.
    destruct am; cbn [fst snd].
    + split; [apply BP_W; apply H1|intros _; apply Apre_of; assumption].
    + pose proof (deferredClose_ok p1 H1 L1) as Hd. split; [apply BP_W; apply Hd|intros _; exact Hd].
Qed.

(* ---- addLineText ---- *)
Lemma sp_updAt_at2 M M' f : M <= M' -> forall d b, sp M b ->
  (forall x, getAt d b = Some x -> sp M x -> sp M' (f x) /\ bstart (f x) = bstart x /\ bend (f x) = bend x) ->
  sp M' (updAt d f b) /\ bstart (updAt d f b) = bstart b /\ bend (updAt d f b) = bend b.
Proof.
  intros Hle. induction d as [|d IH]; intros b Hb Hf; [apply Hf; [reflexivity|exact Hb]|]. cbn [updAt].
  destruct (lastBlock b) as [c|] eqn:El; [|split; [eapply sp_mono; eassumption|tauto]].
  destruct (IH c (sp_lastBlock M b c Hb El)) as (A & B & C).
  { intros x Hx. apply Hf. cbn [getAt]. rewrite El. exact Hx. }
  split; [|split; [apply bstart_set_lastBlocks|apply bend_set_lastBlocks]].
  eapply sp_set_lastBlocks; [eapply sp_mono; eassumption|exact El|split; [exact A|exact I]|].
  cbn [chain]. rewrite B, C. pose proof Hb as Hb'. rewrite sp_eq in Hb'. destruct Hb' as (_ & _ & _ & D & _).
  destruct (last_in_chain b c D El) as [_ P]. repeat split; [lia|exact P].
Qed.

Lemma sp_add_ik M M' x u : sp M x -> M <= istart u -> istart u <= iend u -> iend u <= M' -> sp M' (set_bik x (bik x ++ [u])).
Proof.
  intros H A B C. assert (Hle : M <= M') by lia. pose proof (sp_mono M M' Hle x H) as H'. rewrite sp_eq in H, H'.
  rewrite sp_eq, bstart_set_bik, bend_set_bik, bk_set_bik, bkind_set_bik. destruct H as (_ & _ & H3 & _). destruct H' as (P1 & P2 & _ & P4 & P5).
  split; [exact P1|]. split; [exact P2|]. split; [|tauto]. intros Ho. destruct (H3 Ho) as [Q1 Q2]. split; [exact Q1|].
  intros Hk. replace (bik (set_bik x (bik x ++ [u]))) with (bik x ++ [u]) by (destruct x; reflexivity). eapply ascI_snoc; eauto.
Qed.

(* adding an entry [s, e) with M <= s <= e <= M' to the container *)
Lemma BPb_add_entry M M' p u : BPb M p -> M <= istart u -> istart u <= iend u -> iend u <= M' ->
  BPb M' (updCont p (fun b => set_bik b (bik b ++ [u]))).
Proof.
  intros (A & B & C & D) H1 H2 H3. split; [exact A|]. split; [|split].
  - cbn [root updCont withRoot setLP]. apply (sp_updAt_at2 M M' _ ltac:(lia) (cdepth p) (root p) B). intros x _ Sx.
    split; [apply (sp_add_ik M M'); assumption|split; [apply bstart_set_bik|apply bend_set_bik]].
  - intros j y Hj Ey. cbn [root updCont withRoot setLP] in Ey. assert (Hj' : (j <= cdepth p)%nat) by exact Hj.
    destruct (getAt_updAt_low _ ltac:(intros x; apply bend_set_bik) (cdepth p) j (root p) y Hj' Ey) as (x & E0 & Eb & _).
    rewrite Eb. apply (C j x Hj' E0).
  - apply (ccP_updCont_ik p (fun b => bik b ++ [u])). exact D.
Qed.

Lemma consumeIndent_tab q : curP q -> li q < len (line q) -> at_ (line q) (li q) = 9 -> 0 < tabRem q ->
  li q + 1 <= li (consumeIndent q (tabRem q)).
Proof.
  intros (A & B) Hl H9 Ht. unfold consumeIndent. cbn [consumeIndent_loop].
  destruct (Z.leb_spec (tabRem q) 0); [lia|]. cbv zeta.
  set (p0 := if state q =? stOpening then withState q stOpenMatched else q).
  assert (E : li p0 = li q /\ line p0 = line q /\ tabRem p0 = tabRem q) by (unfold p0; destruct (_ =? _); repeat split).
  destruct E as (E1 & E2 & E3). rewrite E1, E2, E3, H9.
  destruct (Z.ltb_spec (li q) (len (line q))); [|lia]. cbn [andb Z.eqb Pos.eqb]. rewrite Z.ltb_irrefl.
  match goal with |- _ <= li (consumeIndent_loop ?f ?r ?n) => destruct (cstep_consumeIndent_loop f r n) as (_ & _ & Hc) end.
  cbn [li line withCursor setLP] in Hc. rewrite E2 in Hc. specialize (Hc ltac:(lia)). lia.
Qed.

Lemma W_go q : BP q ->
  W (let k := containerKind q in
     let inlineKind := if isCode k then TextKind else if k =? HTMLBlockKind then RawHTMLKind else UnparsedKind in
     let q' := updCont q (fun b => set_bik b (bik b ++ [mkI inlineKind (lineStart q + li q) (lineStart q + len (line q))])) in
     if isCode k && negb (hasByteSuffixEOL (line q')) then
       updCont q' (fun b => set_bik b (bik b ++ [mkI SoftLineBreakKind (lineStart q' + len (line q')) (lineStart q' + len (line q'))]))
     else q').
Proof.
  intros HB. cbv zeta. pose proof HB as ((A1 & A2) & _).
  set (H := lineStart q + len (line q)).
  set (q' := updCont q _).
  assert (Hq' : BPb H q').
  { apply (BPb_add_entry (Mc q) H); [exact HB| | |]; unfold mkI, Mc, H; cbn [istart iend]; lia. }
  destruct (_ && _); [|apply (BPb_W H); [exact Hq'|unfold H; cbn; lia]].
  apply (BPb_W H); [|unfold H; cbn; lia].
  apply (BPb_add_entry H H); [exact Hq'| | |]; unfold mkI, H; cbn [istart iend lineStart line updCont withRoot setLP q']; lia.
Qed.
