From Coq Require Import List ZArith Lia Bool.
Import ListNotations.
Require Import Base Tree Rdr Link Collect Html Recog LP Rules Starts Driver L2Kind2.
Open Scope Z_scope.

(* C04, panic sites 5, 6 and 8 (openBlock / EndBlock while descending, CollectInline after the line was consumed
   during descent): never reported *)
Definition A (p : lp) : Prop := panicked p <> 5 /\ panicked p <> 6 /\ panicked p <> 8.
Definition B (p : lp) : Prop := st3 p /\ A p.

Lemma A_panic p site : site <> 5 -> site <> 6 -> site <> 8 -> A p -> A (panic p site).
Proof. intros N5 N6 N8 (a & b & c). unfold A. cbn. destruct (panicked p =? 0); repeat split; assumption. Qed.
Lemma A_same p p' : panicked p' = panicked p -> A p -> A p'.
Proof. intros E H. unfold A. rewrite E. exact H. Qed.
Lemma A_advance p n : A p -> A (advance p n).
Proof.
  intros H. unfold advance. destruct (n <? 0); [apply A_panic; [discriminate|discriminate|discriminate|exact H]|].
  destruct (n =? 0); [exact H|]. cbv zeta.
  assert (H1 : A (if state p =? stOpening then withState p stOpenMatched else p)) by (destruct (_ =? _); exact H).
  destruct (_ <? _); [apply A_panic; [discriminate|discriminate|discriminate|exact H1]|exact H1].
Qed.
Lemma A_consumeLine p : A p -> A (consumeLine p).
Proof.
  intros H. unfold consumeLine. cbv zeta. pose proof (A_advance p (len (line p) - li p) H) as H1.
  destruct (_ || _); [exact H1|]. destruct (_ =? stDescending); exact H1.
Qed.
Lemma A_consumeIndent_loop : forall fuel p n, A p -> A (consumeIndent_loop fuel p n).
Proof.
  induction fuel as [|f IH]; intros p n H; [exact H|]. cbn [consumeIndent_loop].
  destruct (n <=? 0); [exact H|]. cbv zeta.
  assert (H1 : A (if state p =? stOpening then withState p stOpenMatched else p)) by (destruct (_ =? _); exact H).
  destruct (_ && (_ =? 32)); [apply IH; exact H1|].
  destruct (_ && (_ =? 9)); [|apply A_panic; [discriminate|discriminate|discriminate|exact H1]].
  destruct (n <? _); [exact H1|]. apply IH. exact H1.
Qed.
Lemma A_consumeIndent p n : A p -> A (consumeIndent p n). Proof. apply A_consumeIndent_loop. Qed.
Lemma A_openBlock_up : forall fuel p kind, A p -> A (openBlock_up fuel p kind).
Proof.
  induction fuel as [|f IH]; intros p kind H; [exact H|]. cbn [openBlock_up].
  destruct (canContain _ _); [exact H|]. destruct (cdepth p); [apply A_panic; [discriminate|discriminate|discriminate|exact H]|]. apply IH. exact H.
Qed.
Lemma st3_notdesc p : st3 p -> (state p =? stDescending) || (state p =? stDescendTerminated) = false.
Proof. intros H. destruct (st3_cases p H) as [E|[E|E]]; rewrite E; reflexivity. Qed.
Lemma A_openBlock p kind : st3 p -> A p -> A (openBlock p kind).
Proof.
  intros Hs H. unfold openBlock. rewrite (st3_notdesc p Hs). cbv zeta.
  apply (A_openBlock_up _ (if state p =? stOpening then withState p stOpenMatched else p) kind). destruct (_ =? _); exact H.
Qed.
Lemma A_endBlock p : st3 p -> A p -> A (endBlock p).
Proof.
  intros Hs H. unfold endBlock. rewrite (st3_notdesc p Hs). cbv zeta.
  assert (H1 : A (if state p =? stOpening then withState p stOpenMatched else p)) by (destruct (_ =? _); exact H).
  destruct (cdepth _); [apply A_panic; [discriminate|discriminate|discriminate|exact H1]|exact H1].
Qed.
Lemma A_collectInline p kind n : state p <> stDescendTerminated -> A p -> A (collectInline p kind n).
Proof.
  intros Hs H. unfold collectInline. replace (state p =? stDescendTerminated) with false by (symmetry; apply Z.eqb_neq; exact Hs). cbv zeta.
  assert (H1 : A (if state p =? stOpening then withState p stOpenMatched else p)) by (destruct (_ =? _); exact H).
  match goal with |- A (updCont ?q _) => change (A q) end. apply A_advance.
  destruct (0 <? _); [|exact H1]. match goal with |- A (updCont ?q _) => change (A q) end. apply A_advance. exact H1.
Qed.
Lemma st3_notterm p : st3 p -> state p <> stDescendTerminated.
Proof. intros H. destruct (st3_cases p H) as [E|[E|E]]; rewrite E; discriminate. Qed.

(* in the context of a block start *)
Lemma B_advance p n : B p -> B (advance p n). Proof. intros [S a]. split; [apply st3_advance, S|apply A_advance, a]. Qed.
Lemma B_consumeIndent p n : B p -> B (consumeIndent p n). Proof. intros [S a]. split; [apply st3_consumeIndent, S|apply A_consumeIndent, a]. Qed.
Lemma B_consumeLine p : B p -> B (consumeLine p). Proof. intros [S a]. split; [apply st3_consumeLine, S|apply A_consumeLine, a]. Qed.
Lemma B_openBlock p k : B p -> B (openBlock p k). Proof. intros [S a]. split; [apply st3_openBlock, S|apply A_openBlock; assumption]. Qed.
Lemma B_endBlock p : B p -> B (endBlock p). Proof. intros [S a]. split; [apply st3_endBlock, S|apply A_endBlock; assumption]. Qed.
Lemma B_collectInline p k n : B p -> B (collectInline p k n).
Proof. intros [S a]. split; [apply st3_collectInline, S|apply A_collectInline; [apply st3_notterm, S|exact a]]. Qed.
Lemma B_updCont p f : B p -> B (updCont p f). Proof. exact (fun H => H). Qed.

Ltac chainB Hh :=
  repeat match goal with
  | |- B (consumeLine _) => apply B_consumeLine
  | |- B (endBlock _) => apply B_endBlock
  | |- B (advance _ _) => apply B_advance
  | |- B (consumeIndent _ _) => apply B_consumeIndent
  | |- B (openBlock _ _) => apply B_openBlock
  | |- B (collectInline _ _ _) => apply B_collectInline
  | |- B (updCont _ _) => apply B_updCont
  | |- B (if ?c then _ else _) => destruct c
  end;
  try exact Hh.

Definition startOKB (f : lp -> lp) : Prop := forall p, B p -> B (f p).
Lemma blockStarts_okB : Forall startOKB blockStarts.
Proof.
  unfold blockStarts.
  apply Forall_cons. { intros p H. unfold startBlockQuote. cbv zeta. chainB H. }
  apply Forall_cons. { intros p H. unfold startATX. cbv zeta. destruct (_ <=? _); [exact H|].
                       destruct (parseATXHeading _) as [[level cs] ce]. chainB H. }
  apply Forall_cons. { intros p H. unfold startFenced. cbv zeta. destruct (_ <=? _); [exact H|].
                       destruct (parseCodeFence _) as [[[fc fnn] is_] ie]. chainB H. }
  apply Forall_cons. { intros p H. unfold startHTML. cbv zeta. chainB H. }
  apply Forall_cons. { intros p H. unfold startSetext. cbv zeta. chainB H. }
  apply Forall_cons. { intros p H. unfold startThematic. cbv zeta. chainB H. }
  apply Forall_cons.
  { intros p H. unfold startListItem. cbv zeta. destruct (_ <=? _); [exact H|].
    destruct (parseListMarker _) as [[delim n] mend]. destruct (_ || _); [exact H|]. destruct (_ && _); [exact H|].
    match goal with |- context [endBlock ?X] => assert (H1 : B (endBlock X)) by chainB H end.
    match goal with |- context [endBlock ?X] => set (q := endBlock X) in * end.
    destruct (isRestBlank q); [chainB H1|].
    destruct (indent q <? 1); [chainB H1|]. destruct (4 <? indent q); chainB H1. }
  apply Forall_cons. { intros p H. unfold startIndented. chainB H. }
  apply Forall_nil.
Qed.
Lemma A_tryStarts : forall fs p, Forall startOKB fs -> A p -> A (snd (tryStarts fs p)).
Proof.
  induction fs as [|f r IH]; intros p Hfs H; [exact H|]. cbn [tryStarts]. cbv zeta. inversion Hfs as [|? ? Hf Hr]; subst.
  assert (H1 : B (f (withState p stOpening))) by (apply Hf; split; [left; left; reflexivity|exact H]).
  destruct (_ || _); [apply H1|]. apply IH; [assumption|apply H1].
Qed.
Lemma A_opening_loop : forall fuel p, A p -> A (snd (opening_loop fuel p)).
Proof.
  induction fuel as [|f IH]; intros p H; [exact H|]. cbn [opening_loop].
  destruct (_ || _); [|exact H].
  pose proof (A_tryStarts blockStarts p blockStarts_okB H) as H1. destruct (tryStarts blockStarts p) as [[|] p1]; cbn [snd] in H1.
  - destruct (_ =? stLineConsumed); [exact H1|apply IH; exact H1].
  - exact H1.
Qed.
Lemma A_openNewBlocks p am : A p -> A (snd (openNewBlocks p am)).
Proof.
  intros H. unfold openNewBlocks. destruct (_ =? 0); [exact H|].
  pose proof (A_opening_loop (S (length (line p))) p H) as H1. destruct (opening_loop _ p) as [ht p1]. cbn [snd] in H1.
  destruct am; cbn [snd]; [exact H1|]. unfold deferredClose. cbv zeta. destruct (_ && _); exact H1.
Qed.

Lemma A_matchRule p : state p <> stDescendTerminated -> A p -> A (snd (matchRule p)).
Proof.
  intros Hs H. unfold matchRule. cbv zeta.
  destruct (_ || _); [exact H|].
  destruct (_ =? ListItemKind).
  { unfold matchListItem. destruct (isRestBlank p); [destruct (negb _); [exact H|apply A_consumeIndent, H]|].
    destruct (_ <=? _); [apply A_consumeIndent, H|exact H]. }
  destruct (_ =? BlockQuoteKind).
  { unfold matchBlockQuote. cbv zeta. destruct (_ <=? _); [exact H|]. destruct (negb _); [exact H|]. cbn [snd].
    unfold eatQuoteMarker. cbv zeta. destruct (0 <? _); repeat first [apply A_consumeIndent|apply A_advance]; exact H. }
  destruct (_ =? FencedCodeBlockKind).
  { unfold matchFenced. cbv zeta. destruct (if _ <? _ then _ else false); cbn [snd]; [apply A_consumeLine|apply A_consumeIndent]; exact H. }
  destruct (_ =? IndentedCodeBlockKind).
  { unfold matchIndented. cbv zeta. destruct (_ <? _); [destruct (negb _)|]; cbn [snd]; try apply A_consumeIndent; exact H. }
  destruct (_ =? HTMLBlockKind).
  { unfold matchHTML. destruct (htmlEnd _ _); [|exact H]. destruct (isRestBlank _); [exact H|]. cbn [snd]. apply A_consumeLine.
    apply A_collectInline; assumption. }
  exact H.
Qed.
Lemma A_descend_loop : forall fuel p d, A p -> A (snd (descend_loop fuel p d)).
Proof.
  induction fuel as [|f IH]; intros p d H; [exact H|]. cbn [descend_loop]. cbv zeta.
  destruct (getAt (S d) (root p)) as [c|]; [|exact H].
  destruct (negb (isOpen c)); [exact H|]. destruct (negb (hasMatch _)); [exact H|].
  pose proof (A_matchRule (withState (withCont p (Some (S d))) stDescending) ltac:(cbn; discriminate) H) as H2.
  destruct (matchRule _) as [ok p2]. cbn [snd] in H2.
  destruct (state p2 =? stDescendTerminated); [exact H2|]. destruct (negb ok); [exact H2|]. apply IH. exact H2.
Qed.

Lemma A_addLineText p : goodSt p -> A p -> A (addLineText p).
Proof.
  intros Hg H. unfold addLineText. cbv zeta.
  set (p1 := if isRestBlank p then _ else p).
  assert (H1 : A p1) by (unfold p1; destruct (isRestBlank p); exact H).
  assert (K1 : containerKind p1 = containerKind p).
  { unfold p1. destruct (isRestBlank p); [|reflexivity]. apply containerKind_updCont.
    intros b. destruct (lastBlock b); [destruct b; reflexivity|reflexivity]. }
  assert (S1 : state p1 = state p) by (unfold p1; destruct (isRestBlank p); reflexivity).
  set (p2 := withRoot p1 _). assert (H2 : A p2) by exact H1.
  assert (Hgo : forall q, A q ->
    A (let k := containerKind q in
       let inlineKind := if isCode k then TextKind else if k =? HTMLBlockKind then RawHTMLKind else UnparsedKind in
       let q' := updCont q (fun b => set_bik b (bik b ++ [mkI inlineKind (lineStart q + li q) (lineStart q + len (line q))])) in
       if isCode k && negb (hasByteSuffixEOL (line q')) then
         updCont q' (fun b => set_bik b (bik b ++ [mkI SoftLineBreakKind (lineStart q' + len (line q')) (lineStart q' + len (line q'))]))
       else q')).
  { intros q Hq. cbv zeta. match goal with |- A (if ?c then _ else _) => destruct c end; exact Hq. }
  change (bkind (contBlock p1)) with (containerKind p1). rewrite K1.
  destruct (acceptsLines (containerKind p)) eqn:Ea.
  - apply Hgo. match goal with |- A (if ?c then _ else _) => destruct c end; [|exact H2]. apply A_consumeIndent. exact H2.
  - match goal with |- A (if ?c then _ else _) => destruct c end; [|exact H2]. apply Hgo. apply A_consumeIndent.
    apply A_openBlock; [|exact H2]. left. unfold st_open. change (state p2) with (state p1). rewrite S1. exact (Hg Ea).
Qed.

Theorem processLine_no568 st children ls src :
  let pn := snd (processLine st children ls src) in pn <> 5 /\ pn <> 6 /\ pn <> 8.
Proof.
  unfold processLine. cbv zeta.
  assert (H0 : A (resetLP st children ls src)) by (unfold A; cbn; repeat split; discriminate).
  pose proof (A_descend_loop (bheight (root (resetLP st children ls src))) _ O H0) as H1.
  fold (descendOpenBlocks (resetLP st children ls src)) in H1.
  destruct (descendOpenBlocks _) as [am p1]. cbn [snd] in H1.
  assert (H2 : A (snd (if negb (state p1 =? stDescendTerminated) then openNewBlocks p1 am else (false, p1))) /\
               (fst (if negb (state p1 =? stDescendTerminated) then openNewBlocks p1 am else (false, p1)) = true ->
                goodSt (snd (if negb (state p1 =? stDescendTerminated) then openNewBlocks p1 am else (false, p1))))).
  { destruct (negb _); [split; [apply A_openNewBlocks; exact H1|apply openNewBlocks_good]|split; [exact H1|cbn; discriminate]]. }
  destruct (if negb (state p1 =? stDescendTerminated) then openNewBlocks p1 am else (false, p1)) as [ht p2]. cbn [fst snd] in H2.
  destruct H2 as [H2 G2].
  assert (H3 : A (if ht then addLineText p2 else p2)) by (destruct ht; [apply A_addLineText; [exact (G2 eq_refl)|exact H2]|exact H2]).
  cbn [snd]. exact H3.
Qed.
Print Assumptions processLine_no568.
