From Coq Require Import List ZArith Lia Bool.
Import ListNotations.
Require Import Base Tables Utf8 Tree Rdr Link Collect Html Recog Inl3a Inl3b EolCRDefs EolCRBytes EolCRRdr.
Open Scope Z_scope.

(* C14 (ii), CR clause, inline layer, part A: the state relation, the node-store operations of Inl3a.v and
   the scanners of Inl3b.v (emphasisFlags, parseHardLineBreakSpace, parseAutolink, code-span scanners)
   compute the same on a source and on its LF -> CR image. *)

(* two parser states over related sources: everything but the source is EQUAL *)
Definition stR (st st' : ist) : Prop :=
  crRel (isrc st) (isrc st') /\ rk st' = rk st /\ unp st' = unp st /\ upos st' = upos st /\ stk st' = stk st /\
  ign st' = ign st /\ nid st' = nid st /\ rootEnd st' = rootEnd st /\ matcher st' = matcher st.

Ltac stsplit H := let Hs := fresh "Hs" in
  match type of H with stR ?s ?s' =>
    destruct s as [rk0 src0 unp0 upos0 stk0 ign0 nid0 re0 m0]; destruct s' as [rk1 src1 unp1 upos1 stk1 ign1 nid1 re1 m1];
    unfold stR in H; cbn [rk isrc unp upos stk ign nid rootEnd matcher] in H;
    destruct H as (Hs & -> & -> & -> & -> & -> & -> & -> & ->) end.
Lemma stR_mk a src src' b c d e f g h : crRel src src' ->
  stR {| rk := a; isrc := src; unp := b; upos := c; stk := d; ign := e; nid := f; rootEnd := g; matcher := h |}
      {| rk := a; isrc := src'; unp := b; upos := c; stk := d; ign := e; nid := f; rootEnd := g; matcher := h |}.
Proof. intros H. repeat split. exact H. Qed.

Lemma stR_src st st' : stR st st' -> crRel (isrc st) (isrc st'). Proof. intros H. apply H. Qed.
Lemma stR_rk st st' : stR st st' -> rk st' = rk st. Proof. intros H. apply H. Qed.
Lemma stR_unp st st' : stR st st' -> unp st' = unp st. Proof. intros H. apply H. Qed.
Lemma stR_upos st st' : stR st st' -> upos st' = upos st. Proof. intros H. apply H. Qed.
Lemma stR_stk st st' : stR st st' -> stk st' = stk st. Proof. intros H. apply H. Qed.
Lemma stR_ign st st' : stR st st' -> ign st' = ign st. Proof. intros H. apply H. Qed.
Lemma stR_nid st st' : stR st st' -> nid st' = nid st. Proof. intros H. apply H. Qed.
Lemma stR_rootEnd st st' : stR st st' -> rootEnd st' = rootEnd st. Proof. intros H. apply H. Qed.
Lemma stR_matcher st st' : stR st st' -> matcher st' = matcher st. Proof. intros H. apply H. Qed.
Lemma stR_lensrc st st' : stR st st' -> length (isrc st') = length (isrc st).
Proof. intros H. apply crRel_length, H. Qed.
(* rewrite every field of the primed state *)
Ltac steq H :=
  rewrite ?(stR_rk _ _ H), ?(stR_unp _ _ H), ?(stR_upos _ _ H), ?(stR_stk _ _ H), ?(stR_ign _ _ H), ?(stR_nid _ _ H),
          ?(stR_rootEnd _ _ H), ?(stR_matcher _ _ H), ?(stR_lensrc _ _ H).

(* ---- Inl3a.v ---- *)
Lemma stR_setRk st st' v : stR st st' -> stR (setRk st v) (setRk st' v).
Proof. intros H. stsplit H. apply stR_mk, Hs. Qed.
Lemma stR_setUpos st st' v : stR st st' -> stR (setUpos st v) (setUpos st' v).
Proof. intros H. stsplit H. apply stR_mk, Hs. Qed.
Lemma stR_setStk st st' v : stR st st' -> stR (setStk st v) (setStk st' v).
Proof. intros H. stsplit H. apply stR_mk, Hs. Qed.
Lemma stR_setIgn st st' v : stR st st' -> stR (setIgn st v) (setIgn st' v).
Proof. intros H. stsplit H. apply stR_mk, Hs. Qed.
Lemma stR_bumpId st st' : stR st st' -> stR (bumpId st) (bumpId st').
Proof. intros H. stsplit H. apply stR_mk, Hs. Qed.

Lemma cr_spanEnd st st' : stR st st' -> spanEnd st' = spanEnd st.
Proof. intros H. unfold spanEnd. steq H. rewrite (crRel_len _ _ (stR_src _ _ H)). reflexivity. Qed.
Lemma cr_isLastSpan st st' : stR st st' -> isLastSpan st' = isLastSpan st.
Proof. intros H. unfold isLastSpan. steq H. reflexivity. Qed.
Lemma cr_unpFrom st st' : stR st st' -> unpFrom st' = unpFrom st.
Proof. intros H. unfold unpFrom. steq H. reflexivity. Qed.
Lemma stR_advanceTo st st' pos : stR st st' -> stR (advanceTo st pos) (advanceTo st' pos).
Proof.
  intros H. unfold advanceTo. cbv zeta. rewrite (cr_unpFrom _ _ H). steq H.
  destruct (0 <=? _); apply stR_setUpos, H.
Qed.
Lemma cr_addNode st st' kind s e kids : stR st st' ->
  snd (addNode st' kind s e kids) = snd (addNode st kind s e kids) /\
  stR (fst (addNode st kind s e kids)) (fst (addNode st' kind s e kids)).
Proof.
  intros H. unfold addNode. destruct (spanLen s e =? 0); [split; [reflexivity|exact H]|]. cbv zeta. cbn [fst snd].
  steq H. split; [reflexivity|]. apply stR_bumpId, stR_setRk, H.
Qed.
Lemma stR_addText st st' s e : stR st st' -> stR (addText st s e) (addText st' s e).
Proof. intros H. unfold addText. apply cr_addNode, H. Qed.
Lemma cr_nodeOf st st' id : stR st st' -> nodeOf st' id = nodeOf st id.
Proof. intros H. unfold nodeOf. steq H. reflexivity. Qed.
Lemma cr_wrap st st' kind sid eid : stR st st' ->
  snd (wrap st' kind sid eid) = snd (wrap st kind sid eid) /\ stR (fst (wrap st kind sid eid)) (fst (wrap st' kind sid eid)).
Proof.
  intros H. unfold wrap. cbv zeta. cbn [fst snd]. steq H. split; [reflexivity|].
  replace (match eid with Some i => Some (ps (nodeOf st' i)) | None => None end)
    with (match eid with Some i => Some (ps (nodeOf st i)) | None => None end)
    by (destruct eid; [rewrite (cr_nodeOf _ _ _ H)|]; reflexivity).
  apply stR_bumpId, stR_setRk, H.
Qed.
Lemma stR_removeNode st st' id : stR st st' -> stR (removeNode st id) (removeNode st' id).
Proof. intros H. unfold removeNode. steq H. apply stR_setRk, H. Qed.
Lemma stR_updN st st' id g : stR st st' -> stR (updN st id g) (updN st' id g).
Proof. intros H. unfold updN. steq H. apply stR_setRk, H. Qed.
Lemma cr_matchRef st st' label : stR st st' -> matchRef st' label = matchRef st label.
Proof. intros H. unfold matchRef. steq H. reflexivity. Qed.

(* destruct a pair-valued state function in both runs *)
Ltac stepA L H1 :=
  let Ho := fresh "Ho" in
  pose proof L as [Ho H1];
  match type of Ho with snd ?y = snd ?x =>
    let a := fresh "st" in let a' := fresh "st'" in let o := fresh "o" in let o' := fresh "o'" in
    destruct x as [a o]; destruct y as [a' o']; cbn [fst snd] in Ho, H1; subst o' end.

(* ---- Utf8.v: decoding around a line ending ---- *)
Lemma bR_range c c' lo hi : bR c c' -> 14 <= lo ->
  ((lo <=? c') && (c' <=? hi)) = ((lo <=? c) && (c <=? hi)) /\ ((lo <=? c) && (c <=? hi) = true -> c' = c).
Proof.
  intros H L. destruct (bR_cases _ _ H) as [[-> ->]|(-> & A & B)]; [|split; reflexivity].
  replace (lo <=? 13) with false by (symmetry; apply Z.leb_gt; lia).
  replace (lo <=? 10) with false by (symmetry; apply Z.leb_gt; lia). split; [reflexivity|discriminate].
Qed.
Lemma bR_lt128 c c' : bR c c' -> (c' <? 128) = (c <? 128).
Proof. intros H. bRcases H. Qed.
Lemma bR_ge128 c c' : bR c c' -> (c <? 128) = false -> c' = c.
Proof. intros H E. apply (bR_same_if _ _ H). intros ->. discriminate E. Qed.
Lemma cr_isCont c c' : bR c c' -> isCont c' = isCont c /\ (isCont c = true -> c' = c).
Proof. intros H. unfold isCont. apply bR_range; [exact H|lia]. Qed.
Lemma cr_runeStart c c' : bR c c' -> runeStart c' = runeStart c.
Proof. intros H. unfold runeStart. rewrite (proj1 (bR_range c c' 128 191 H ltac:(lia))). reflexivity. Qed.

(* runes: a decoded line ending is LF on the left and CR on the right; every other rune is the same *)
Definition rnR (r r' : Z) : Prop := (r = 10 /\ r' = 13) \/ r' = r.
Definition runeR (x y : Z * Z) : Prop := rnR (fst x) (fst y) /\ snd y = snd x.
Lemma bR_rnR c c' : bR c c' -> rnR c c'.
Proof. intros H. destruct (bR_cases _ _ H) as [[-> ->]|(-> & _)]; [left; split; reflexivity|right; reflexivity]. Qed.
Lemma runeR_refl x : runeR x x. Proof. split; [right|]; reflexivity. Qed.

Lemma cr_decodeRune a b : crRel a b -> runeR (decodeRune a) (decodeRune b).
Proof.
  intros H. destruct H as [|b0 b0' a b H0 H]; [apply runeR_refl|]. unfold decodeRune.
  rewrite (bR_lt128 _ _ H0). destruct (b0 <? 128) eqn:E0; [split; [apply bR_rnR, H0|reflexivity]|].
  rewrite (bR_ge128 _ _ H0 E0). clear H0 b0'.
  destruct ((194 <=? b0) && (b0 <=? 223)).
  { destruct H as [|b1 b1' a b H1 H]; [apply runeR_refl|].
    destruct (cr_isCont _ _ H1) as [C1 D1]. rewrite C1. destruct (isCont b1); [|apply runeR_refl].
    rewrite (D1 eq_refl). apply runeR_refl. }
  destruct ((224 <=? b0) && (b0 <=? 239)).
  { destruct H as [|b1 b1' a b H1 H]; [apply runeR_refl|].
    destruct H as [|b2 b2' a b H2 H]; [apply runeR_refl|]. cbv zeta.
    set (lo := if b0 =? 224 then 160 else 128). set (hi := if b0 =? 237 then 159 else 191).
    assert (L : 14 <= lo) by (unfold lo; destruct (b0 =? 224); lia).
    destruct (bR_range b1 b1' lo hi H1 L) as [C1 D1]. rewrite C1.
    destruct (cr_isCont _ _ H2) as [C2 D2]. rewrite C2.
    destruct ((lo <=? b1) && (b1 <=? hi)); [|apply runeR_refl]. rewrite (D1 eq_refl).
    destruct (isCont b2); [|apply runeR_refl]. rewrite (D2 eq_refl). apply runeR_refl. }
  destruct ((240 <=? b0) && (b0 <=? 244)); [|apply runeR_refl].
  destruct H as [|b1 b1' a b H1 H]; [apply runeR_refl|].
  destruct H as [|b2 b2' a b H2 H]; [apply runeR_refl|].
  destruct H as [|b3 b3' a b H3 H]; [apply runeR_refl|]. cbv zeta.
  set (lo := if b0 =? 240 then 144 else 128). set (hi := if b0 =? 244 then 143 else 191).
  assert (L : 14 <= lo) by (unfold lo; destruct (b0 =? 240); lia).
  destruct (bR_range b1 b1' lo hi H1 L) as [C1 D1]. rewrite C1.
  destruct (cr_isCont _ _ H2) as [C2 D2]. rewrite C2.
  destruct (cr_isCont _ _ H3) as [C3 D3]. rewrite C3.
  destruct ((lo <=? b1) && (b1 <=? hi)); [|apply runeR_refl]. rewrite (D1 eq_refl).
  destruct (isCont b2); [|apply runeR_refl]. rewrite (D2 eq_refl).
  destruct (isCont b3); [|apply runeR_refl]. rewrite (D3 eq_refl). apply runeR_refl.
Qed.

Lemma cr_dlr_back a b : crRel a b -> forall f start lim, dlr_back f b start lim = dlr_back f a start lim.
Proof.
  intros H. induction f as [|f IH]; intros start lim; [reflexivity|]. cbn [dlr_back].
  rewrite (cr_runeStart _ _ (crRel_at a b start H)), IH. reflexivity.
Qed.
Lemma cr_decodeLastRune a b : crRel a b -> runeR (decodeLastRune a) (decodeLastRune b).
Proof.
  intros H. unfold decodeLastRune. cbv zeta. rewrite (crRel_len _ _ H).
  destruct (len a =? 0); [apply runeR_refl|].
  pose proof (crRel_at a b (len a - 1) H) as Hc. rewrite (bR_lt128 _ _ Hc).
  destruct (at_ a (len a - 1) <? 128); [split; [apply bR_rnR, Hc|reflexivity]|].
  rewrite (cr_dlr_back _ _ H).
  match goal with |- context [sub a ?s ?e] => pose proof (cr_decodeRune _ _ (crRel_sub a b s e H)) as [R1 R2]; set (st0 := s) in * end.
  destruct (decodeRune (sub a st0 (len a))) as [rn size]. destruct (decodeRune (sub b st0 (len a))) as [rn' size'].
  cbn [fst snd] in R1, R2. subst size'. destruct (negb _); [apply runeR_refl|]. split; [exact R1|reflexivity].
Qed.
Lemma cr_isUnicodeWhitespace r r' : rnR r r' -> isUnicodeWhitespace r' = isUnicodeWhitespace r.
Proof. intros [[-> ->]| ->]; reflexivity. Qed.
Lemma cr_isUnicodePunctuation r r' : rnR r r' -> isUnicodePunctuation r' = isUnicodePunctuation r.
Proof. intros [[-> ->]| ->]; reflexivity. Qed.

(* ---- Inl3b.v ---- *)
Lemma cr_emphasisFlags src src' s e : crRel src src' -> emphasisFlags src' s e = emphasisFlags src s e.
Proof.
  intros H. unfold emphasisFlags. cbv zeta. rewrite (crRel_len _ _ H).
  assert (P : rnR (if 0 <? s then fst (decodeLastRune (upto src s)) else 32) (if 0 <? s then fst (decodeLastRune (upto src' s)) else 32)).
  { destruct (0 <? s); [apply cr_decodeLastRune, crRel_upto, H|right; reflexivity]. }
  assert (N : rnR (if e <? len src then fst (decodeRune (from_ src e)) else 32) (if e <? len src then fst (decodeRune (from_ src' e)) else 32)).
  { destruct (e <? len src); [apply cr_decodeRune, crRel_from, H|right; reflexivity]. }
  rewrite (cr_isUnicodeWhitespace _ _ P), (cr_isUnicodePunctuation _ _ P), (cr_isUnicodeWhitespace _ _ N), (cr_isUnicodePunctuation _ _ N).
  rewrite (bR_eqb _ _ 42 (crRel_at src src' s H)) by discriminate. reflexivity.
Qed.

Lemma cr_hlb_rest a b : crRel a b -> forall i, hlb_rest b i = hlb_rest a i.
Proof.
  intros H. induction H as [|x y a b Hxy H IH]; intros i; [reflexivity|]. cbn [hlb_rest].
  replace ((y =? 32) || (y =? 10) || (y =? 13)) with ((x =? 32) || (x =? 10) || (x =? 13)) by (bRcases Hxy).
  rewrite IH. reflexivity.
Qed.
Lemma phlb_not32 c r : c <> 32 -> parseHardLineBreakSpace (c :: r) = (0, false).
Proof. intros Hc. destruct c as [|q|q]; try reflexivity. do 6 (destruct q as [q|q|]; try reflexivity). congruence. Qed.
Lemma phlb_32 c r : parseHardLineBreakSpace (32 :: c :: r) = if c =? 32 then hlb_rest r 2 else (1, false).
Proof.
  destruct (Z.eqb_spec c 32) as [->|N]; [reflexivity|].
  destruct c as [|q|q]; try reflexivity. do 6 (destruct q as [q|q|]; try reflexivity). congruence.
Qed.
Lemma cr_parseHardLineBreakSpace a b : crRel a b -> parseHardLineBreakSpace b = parseHardLineBreakSpace a.
Proof.
  intros H. destruct H as [|x y a b Hxy H]; [reflexivity|].
  destruct (Z.eq_dec x 32) as [->|N].
  - assert (y = 32) by (apply (bR_same_if _ _ Hxy); discriminate). subst y.
    destruct H as [|x2 y2 a b Hxy2 H]; [reflexivity|]. rewrite !phlb_32.
    rewrite (bR_eqb _ _ 32 Hxy2) by discriminate. rewrite (cr_hlb_rest _ _ H). reflexivity.
  - rewrite (phlb_not32 x a N). apply phlb_not32.
    destruct (bR_cases _ _ Hxy) as [[_ ->]|(-> & _)]; [discriminate|exact N].
Qed.

Lemma cr_isEmailLocal c c' : bR c c' -> isEmailLocal c' = isEmailLocal c. Proof. intros H. bRcases H. Qed.
Lemma cr_isLabelChar c c' : bR c c' -> isLabelChar c' = isLabelChar c. Proof. intros H. bRcases H. Qed.
Lemma cr_isSchemeChar c c' : bR c c' -> isSchemeChar c' = isSchemeChar c. Proof. intros H. bRcases H. Qed.
Lemma cr_dl_run a b : crRel a b -> forall f e, dl_run f b e = dl_run f a e.
Proof.
  intros H. induction f as [|f IH]; intros e; [reflexivity|]. cbn [dl_run].
  rewrite (crRel_len _ _ H), (cr_isLabelChar _ _ (crRel_at a b e H)), IH. reflexivity.
Qed.
Lemma cr_parseDomainLabel a b : crRel a b -> parseDomainLabel b = parseDomainLabel a.
Proof.
  intros H. unfold parseDomainLabel. cbv zeta. rewrite (crRel_len _ _ H), (cr_dl_run _ _ H).
  rewrite (cr_isASCIILetter _ _ (crRel_at a b 0 H)), (cr_isASCIIDigit _ _ (crRel_at a b 0 H)).
  set (e := dl_run 64 a 1). rewrite (bR_eqb _ _ 45 (crRel_at a b (e - 1) H)) by discriminate.
  rewrite (cr_isLabelChar _ _ (crRel_at a b e H)). reflexivity.
Qed.
Lemma cr_em_labels a b : crRel a b -> forall f e, em_labels f b e = em_labels f a e.
Proof.
  intros H. induction f as [|f IH]; intros e; [reflexivity|]. cbn [em_labels]. cbv zeta.
  rewrite (crRel_len _ _ H). rewrite (bR_eqb _ _ 46 (crRel_at a b e H)) by discriminate.
  rewrite (cr_parseDomainLabel _ _ (crRel_from a b (e + 1) H)), IH. reflexivity.
Qed.
Lemma cr_parseEmail a b : crRel a b -> parseEmail b = parseEmail a.
Proof.
  intros H. unfold parseEmail. cbv zeta. rewrite (cr_countWhile isEmailLocal a b cr_isEmailLocal H).
  set (e := countWhile isEmailLocal a). rewrite (crRel_len _ _ H), (crRel_length _ _ H).
  rewrite (bR_eqb _ _ 64 (crRel_at a b e H)) by discriminate.
  rewrite (cr_parseDomainLabel _ _ (crRel_from a b (e + 1) H)), (cr_em_labels _ _ H). reflexivity.
Qed.
Lemma cr_al_uri a b : crRel a b -> forall e, al_uri b e = al_uri a e.
Proof.
  intros H. induction H as [|x y a b Hxy H IH]; intros e; [reflexivity|]. cbn [al_uri].
  rewrite (bR_eqb _ _ 62 Hxy) by discriminate. rewrite (bR_eqb _ _ 32 Hxy) by discriminate.
  rewrite (bR_eqb _ _ 60 Hxy) by discriminate. rewrite (cr_isASCIIControl _ _ Hxy), IH. reflexivity.
Qed.
Lemma cr_parseAutolink a b : crRel a b -> parseAutolink b = parseAutolink a.
Proof.
  intros H. unfold parseAutolink. cbv zeta. rewrite (crRel_len _ _ H).
  rewrite (bR_eqb _ _ 60 (crRel_at a b 0 H)) by discriminate.
  rewrite (cr_parseEmail _ _ (crRel_from a b 1 H)). set (ee := parseEmail (from_ a 1)).
  rewrite (bR_eqb _ _ 62 (crRel_at a b (1 + ee) H)) by discriminate.
  rewrite (cr_isASCIILetter _ _ (crRel_at a b 1 H)).
  rewrite (cr_countWhile isSchemeChar _ _ cr_isSchemeChar (crRel_from a b 2 H)).
  set (e := 2 + countWhile isSchemeChar (from_ a 2)).
  rewrite (bR_eqb _ _ 58 (crRel_at a b e H)) by discriminate.
  rewrite (cr_al_uri _ _ (crRel_from a b (e + 1) H)). reflexivity.
Qed.

(* code-span scanners *)
Definition csOpenR (x y : option (reader * Z * Z) * Z) : Prop :=
  match x, y with
  | (Some (r1, n, c), d), (Some (r1', n', c'), d') => n' = n /\ c' = c /\ d' = d /\ rdR r1 r1'
  | (None, d), (None, d') => d' = d
  | _, _ => False
  end.
Lemma cr_cs_open : forall f r r' n c, rdR r r' -> csOpenR (cs_open f r n c) (cs_open f r' n c).
Proof.
  induction f as [|f IH]; intros r r' n c H; [exact eq_refl|]. cbn [cs_open]. unfold cur.
  stepc H as c0 c0' r1 r1' Hc H1. cbn [fst snd]. bt Hc. destruct (c0 =? 96).
  - stepn H1 as ok r2 r2' H2. posEq H2. destruct (negb ok); [exact eq_refl|apply IH, H2].
  - cbn [csOpenR]. repeat split; try reflexivity; apply H.
Qed.
Lemma cr_cs_run : forall f r r' k, rdR r r' ->
  rdR (fst (fst (cs_run f r k))) (fst (fst (cs_run f r' k))) /\ snd (fst (cs_run f r' k)) = snd (fst (cs_run f r k)) /\
  snd (cs_run f r' k) = snd (cs_run f r k).
Proof.
  induction f as [|f IH]; intros r r' k H; [cbn [cs_run fst snd]; split; [exact H|split; reflexivity]|]. cbn [cs_run].
  stepn H as ok r1 r1' H1. destruct (negb ok); [cbn [fst snd]; split; [exact H1|split; reflexivity]|]. unfold cur.
  stepc H1 as c c' r2 r2' Hc H2. cbn [fst snd]. bt Hc. destruct (c =? 96); [apply IH, H2|cbn [fst snd]; split; [exact H2|split; reflexivity]].
Qed.
Lemma cr_cs_close : forall f r r' blen, rdR r r' -> cs_close f r' blen = cs_close f r blen.
Proof.
  induction f as [|f IH]; intros r r' blen H; [reflexivity|]. cbn [cs_close]. unfold cur. posEq H.
  stepc H as c c' r1 r1' Hc H1. cbn [fst snd]. bt Hc. destruct (negb (c =? 96)).
  - stepn H1 as ok r2 r2' H2. destruct (negb ok); [reflexivity|apply IH, H2].
  - cbv zeta. pose proof (cr_cs_run (S f) r1 r1' 1 H1) as (A & B & C).
    destruct (cs_run (S f) r1 1) as [[r2 k] al]. destruct (cs_run (S f) r1' 1) as [[r2' k'] al']. cbn [fst snd] in A, B, C. subst k' al'.
    prevEq A. destruct (k =? blen); [reflexivity|]. stepn A as ok r3 r3' H3. destruct (negb ok); [reflexivity|apply IH, H3].
Qed.
Lemma cr_parseCodeSpan f st st' start : stR st st' -> parseCodeSpan f st' start = parseCodeSpan f st start.
Proof.
  intros H. unfold parseCodeSpan. cbv zeta. rewrite (cr_unpFrom _ _ H).
  pose proof (cr_cs_open f _ _ 0 start (cr_newReader _ _ (unpFrom st) start (stR_src _ _ H))) as Ho.
  destruct (cs_open f (newReader (isrc st) (unpFrom st) start) 0 start) as [[[[r1 n] c]|] d];
  destruct (cs_open f (newReader (isrc st') (unpFrom st) start) 0 start) as [[[[r1' n'] c']|] d']; cbn [csOpenR] in Ho; try contradiction.
  - destruct Ho as (-> & -> & -> & Hr). rewrite (cr_cs_close f _ _ n Hr). reflexivity.
  - subst d'. reflexivity.
Qed.

Print Assumptions cr_emphasisFlags. Print Assumptions cr_parseAutolink. Print Assumptions cr_parseCodeSpan.
