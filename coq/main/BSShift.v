From Coq Require Import List ZArith Lia Bool.
Import ListNotations.
Require Import Base Tree Rdr Link LP Rules L2Kind L2CC BSDef BSRdr BSTree.
Open Scope Z_scope.

(* offsetTree (shiftB) by -n on blocks that start at or after n *)
Lemma bstart_shiftB m b : bstart (shiftB m b) = bstart b + m. Proof. destruct b; reflexivity. Qed.
Lemma bend_shiftB m b : bend (shiftB m b) = if 0 <=? bend b then bend b + m else bend b. Proof. destruct b; reflexivity. Qed.

Lemma ascI_shift n : forall ik lo hi, 0 <= lo -> ascI lo hi ik -> ascI (lo - n) (hi - n) (map (shiftI (- n)) ik).
Proof.
  induction ik as [|u r IH]; intros lo hi Hlo H; cbn [map ascI] in *; [lia|].
  destruct H as (A & B & C). destruct u as [k s e ind rf ks]. cbn [shiftI istart iend] in *.
  destruct (Z.leb_spec 0 e); [|lia]. split; [lia|split; [lia|]]. replace (e + - n) with (e - n) by lia. apply IH; [lia|exact C].
Qed.

Lemma chain_starts lo e l c : chain lo e l -> In c l -> lo <= bstart c.
Proof.
  revert lo. induction l as [|x r IH]; intros lo H Hin; [destruct Hin|]. destruct H as (A & _ & C).
  destruct Hin as [->|Hin]; [exact A|]. specialize (IH _ C Hin). lia.
Qed.

Definition she (n e : Z) : Z := if 0 <=? e then e + - n else e.
Lemma chain_shift n e : forall l lo, 0 <= n <= lo -> (e < 0 \/ n <= e) -> chain lo e l -> chain (lo - n) (she n e) (map (shiftB (- n)) l).
Proof.
  induction l as [|c r IH]; intros lo Hn He H; [exact I|]. cbn [map chain]. destruct H as (A & B & C).
  rewrite bstart_shiftB, bend_shiftB. split; [lia|]. split.
  - unfold she. destruct (Z.leb_spec 0 e); destruct (Z.leb_spec 0 (bend c)); lia.
  - replace (Z.max (bstart c + - n) (if 0 <=? bend c then bend c + - n else bend c)) with (Z.max (bstart c) (bend c) - n)
      by (destruct (Z.leb_spec 0 (bend c)); lia).
    apply IH; [lia|exact He|exact C].
Qed.

Lemma sp_shift n : 0 <= n -> forall M b, sp M b -> n <= bstart b -> sp (M - n) (shiftB (- n) b).
Proof.
  intros Hn M. fix IH 1. intros [K s e bk ik a nn c l lb] H Hs. cbn [bstart] in Hs. cbn [shiftB sp] in *.
  destruct H as (A & B & C & D & E).
  assert (Ee : (if 0 <=? e then e + - n else e) = she n e) by reflexivity. rewrite Ee.
  split; [lia|]. split; [unfold she; destruct (Z.leb_spec 0 e); lia|]. split; [|split].
  - unfold she. destruct (Z.leb_spec 0 e); [intros; lia|]. intros He. destruct (C He) as [C1 C2]. split; [exact C1|].
    intros HK. replace (s + - n) with (s - n) by lia. apply ascI_shift; [lia|apply C2, HK].
  - replace (s + - n) with (s - n) by lia. apply chain_shift; [lia|lia|exact D].
  - assert (Hst : forall x, In x bk -> n <= bstart x) by (intros x Hx; pose proof (chain_starts _ _ _ x D Hx); lia).
    clear D. induction bk as [|x r IHr]; [exact I|]. destruct E as [E1 E2]. cbn [map allP]. split.
    + apply IH; [exact E1|apply Hst; left; reflexivity].
    + apply IHr; [exact E2|]. intros y Hy. apply Hst. right. exact Hy.
Qed.
