From Coq Require Import List ZArith Lia Bool String Ascii.
Import ListNotations.
Require Import Base Tree LP Driver Inl3e Props BShDef BShTest C13Full.
Open Scope Z_scope.
Open Scope string_scope.

(* documents with NUL bytes: at line starts, inside marker lines, in info strings, before / after tabs, at cut positions *)
Definition n1 := bs (nul ++ "# h" ++ nl ++ nul ++ nul ++ "> q" ++ nl ++ "- " ++ nul ++ "a" ++ nl ++ "1." ++ tab ++ nul ++ "b" ++ nl).
Definition n2 := bs ("```i" ++ nul ++ "nfo &amp; " ++ nul ++ nl ++ nul ++ "code" ++ nl ++ "```" ++ nl ++ "~~~ " ++ nul ++ nl ++ "x").
Definition n3 := bs ("# " ++ nul ++ " #" ++ nl ++ "## " ++ nul ++ nl ++ "para" ++ nul ++ nl ++ "===" ++ nl ++ "p2" ++ nul ++ nl ++ " --- " ++ nl).
Definition n4 := bs (">" ++ tab ++ nul ++ "q" ++ nl ++ ">" ++ nul ++ tab ++ "r" ++ nl ++ tab ++ nul ++ "code" ++ nl ++ nul ++ tab ++ "x" ++ nl).
Definition n5 := bs ("[a" ++ nul ++ "]: /u" ++ nul ++ " 't" ++ nul ++ "'" ++ nl ++ "[b]: /v" ++ nl ++ nul ++ nl ++ "- [c]: /w" ++ nul).
Definition n6 := bs ("a" ++ nl ++ nul ++ nl ++ nul ++ nul ++ nl ++ "***" ++ nl ++ nul ++ "***" ++ nl ++ "<div>" ++ nul ++ nl ++ nul ++ nl ++ nl ++ "z").
Definition n7 := bs ("- a" ++ nul ++ cr ++ nl ++ "  " ++ nul ++ "b" ++ cr ++ "- " ++ nul ++ cr ++ nl ++ "    " ++ nul ++ "c" ++ nl ++ "10) " ++ nul).
Definition n8 := bs (nul ++ nul ++ nul ++ nl ++ "> - # " ++ nul ++ nl ++ ">   ```" ++ nul ++ nl ++ ">   " ++ nul ++ nl ++ "> " ++ nul ++ nl).
Definition nuls := [n1;n2;n3;n4;n5;n6;n7;n8].
Definition chkBX (input : bytes) : bool * bool * bool * Z :=
  let '(rs, code) := parseFull input in
  (forallb (fun r => bshapes (rb_src r) (rb_blk r)) rs, forallb (fun r => shapesBX (rb_src r) (rb_blk r)) rs, forallb chk_C13_root rs, code).
Eval vm_compute in map chkBX nuls.
Eval vm_compute in map chkBX BShTest.all.
