(* ChkComp1.v -- T30: the per-node predicate "closed leaf" carried through the inline parser (after ShapesComp.v).
   Protected kinds: CharacterReference, SoftLineBreak, RawHTML.  Such a node satisfies the local condition of
   C17local.iClosed (with ignoreRaw = false), and its identity is 0 (a child made from the source) or an allocated
   identity that is not on the delimiter stack, so that no update by identity touches it. *)
From Coq Require Import List ZArith Lia Bool.
Import ListNotations.
Require Import Base Tables Utf8 Tree Rdr Link Collect Html Recog Inl3a Inl3b Inl3c Inl3d Inl3e Driver Render Safe MainTok.
Require Import Leaf3b Leaf3e Leaf3n ShapesBase ShapesR C17bytes C17chk C17tags C17local ChkA.
Open Scope Z_scope.

Definition prot (k : Z) : bool := (k =? CharacterReferenceKind) || (k =? SoftLineBreakKind) || (k =? RawHTMLKind).
Definition memZ (x : Z) (l : list Z) : bool := existsb (Z.eqb x) l.

Section Pred.
  Variable src : bytes.
  Definition nodeOK (k s e : Z) : bool :=
    (if k =? CharacterReferenceKind then closedVerb (sub src s e) else true) &&
    (if k =? SoftLineBreakKind then closedVerb (sub src s e) else true) &&
    (if k =? RawHTMLKind then closedRaw (sub src s e) else true).
  Lemma nodeOK_unprot k s e : prot k = false -> nodeOK k s e = true.
  Proof.
    unfold prot, nodeOK. intros H. apply orb_false_iff in H. destruct H as [H H3]. apply orb_false_iff in H. destruct H as [H1 H2].
    rewrite H1, H2, H3. reflexivity.
  Qed.

  Fixpoint gok (ids : list Z) (b : Z) (n : pn) : bool :=
    match n with PN id k s e _ _ ks =>
      (if prot k then nodeOK k s e && (0 <=? id) && (id <? b) && negb (memZ id ids) else true) &&
      forallb (gok ids b) ks
    end.
  Definition gokF ids b (l : list pn) : bool := forallb (gok ids b) l.

  Lemma gok_mono ids ids' b b' : (forall x, memZ x ids' = true -> memZ x ids = true) -> b <= b' ->
    forall n, gok ids b n = true -> gok ids' b' n = true.
  Proof.
    intros Hids Hb. fix IH 1. intros [id k s e ind r ks] H. cbn [gok] in *.
    apply andb_true_iff in H. destruct H as [H Hk]. apply andb_true_iff. split.
    - destruct (prot k); [|reflexivity].
      apply andb_true_iff in H. destruct H as [H H4]. apply andb_true_iff in H. destruct H as [H H3].
      apply andb_true_iff in H. destruct H as [H1 H2]. rewrite H1, H2. cbn [andb].
      apply Z.ltb_lt in H3. replace (id <? b') with true by (symmetry; apply Z.ltb_lt; lia). cbn [andb].
      apply negb_true_iff in H4. apply negb_true_iff. destruct (memZ id ids') eqn:E; [|reflexivity].
      rewrite (Hids _ E) in H4. discriminate.
    - induction ks as [|x l IHl]; [reflexivity|]. cbn [forallb] in *. apply andb_true_iff in Hk. destruct Hk as [Hx Hl].
      rewrite (IH x Hx). apply IHl. exact Hl.
  Qed.
  Lemma gokF_mono ids ids' b b' l : (forall x, memZ x ids' = true -> memZ x ids = true) -> b <= b' ->
    gokF ids b l = true -> gokF ids' b' l = true.
  Proof.
    unfold gokF. intros Hi Hb H. rewrite forallb_forall in *. intros x Hx. eapply gok_mono; [exact Hi|exact Hb|]. apply H, Hx.
  Qed.
  Lemma gokF_app ids b l1 l2 : gokF ids b (l1 ++ l2) = gokF ids b l1 && gokF ids b l2.
  Proof. apply forallb_app. Qed.

  (* children made from the source: identity 0 everywhere *)
  Fixpoint kgood (n : pn) : bool :=
    match n with PN id k s e _ _ ks => (if prot k then nodeOK k s e && (id =? 0) else true) && forallb kgood ks end.
  Lemma kgood_gok ids b : memZ 0 ids = false -> 1 <= b -> forall n, kgood n = true -> gok ids b n = true.
  Proof.
    intros H0 Hb. fix IH 1. intros [id k s e ind r ks] H. cbn [gok kgood] in *.
    apply andb_true_iff in H. destruct H as [H Hk]. apply andb_true_iff. split.
    - destruct (prot k); [|reflexivity]. apply andb_true_iff in H. destruct H as [H1 H2]. apply Z.eqb_eq in H2. subst id.
      rewrite H1, H0. cbn [andb negb]. replace (0 <? b) with true by (symmetry; apply Z.ltb_lt; lia). reflexivity.
    - induction ks as [|x l IHl]; [reflexivity|]. cbn [forallb] in *. apply andb_true_iff in Hk. destruct Hk as [Hx Hl].
      rewrite (IH x Hx). apply IHl. exact Hl.
  Qed.
  Lemma kgoodF_gokF ids b l : memZ 0 ids = false -> 1 <= b -> forallb kgood l = true -> gokF ids b l = true.
  Proof. unfold gokF. intros H0 Hb H. rewrite forallb_forall in *. intros x Hx. apply kgood_gok; [assumption|assumption|apply H, Hx]. Qed.

  Lemma iClosed_eq i : iClosed false src i = nodeOK (ikind i) (istart i) (iend i) && forallb (iClosed false src) (ikids i).
  Proof. destruct i as [k s e ind r ks]. reflexivity. Qed.
  Lemma iClosed_ofInline : forall i, iClosed false src i = true -> kgood (ofInline i) = true.
  Proof.
    fix IH 1. intros [k s e ind r ks] H. rewrite iClosed_eq in H. cbn [ikind istart iend ikids] in H. cbn [ofInline kgood].
    apply andb_true_iff in H. destruct H as [H Hk]. rewrite H, Z.eqb_refl. cbn [andb]. apply andb_true_iff. split; [destruct (prot k); reflexivity|].
    induction ks as [|x l IHl]; [reflexivity|]. cbn [forallb map] in *. apply andb_true_iff in Hk. destruct Hk as [Hx Hl].
    rewrite (IH x Hx). apply IHl. exact Hl.
  Qed.

  (* the final form *)
  Lemma gok_iClosed ids b : forall n, gok ids b n = true -> iClosed false src (toInline n) = true.
  Proof.
    fix IH 1. intros [id k s e ind r ks] H. cbn [gok toInline] in *. rewrite iClosed_eq. cbn [ikind istart iend ikids].
    apply andb_true_iff in H. destruct H as [H Hk]. apply andb_true_iff. split.
    - destruct (prot k) eqn:Ep; [|apply nodeOK_unprot, Ep].
      apply andb_true_iff in H. destruct H as [H _]. apply andb_true_iff in H. destruct H as [H _].
      apply andb_true_iff in H. destruct H as [H _]. exact H.
    - induction ks as [|x l IHl]; [reflexivity|]. cbn [forallb map] in *. apply andb_true_iff in Hk. destruct Hk as [Hx Hl].
      rewrite (IH x Hx). apply IHl. exact Hl.
  Qed.

  (* ---- forest operations ---- *)
  Lemma gokF_filter ids b p l : gokF ids b l = true -> gokF ids b (filter p l) = true.
  Proof. unfold gokF. intros H. rewrite forallb_forall in *. intros x Hx. apply filter_In in Hx. apply H. tauto. Qed.

  Lemma removeId_gok ids b id : forall fuel l, gokF ids b l = true -> gokF ids b (removeId fuel id l) = true.
  Proof.
    induction fuel as [|f IH]; intros l H; [assumption|]. cbn [removeId].
    destruct (hasId id l); [apply gokF_filter; assumption|].
    unfold gokF in *. rewrite forallb_forall in *. intros x Hx. apply in_map_iff in Hx. destruct Hx as (n & <- & Hn).
    specialize (H n Hn). destruct n as [i k s e ind r ks]. cbn [setKids gok pkids] in *.
    apply andb_true_iff in H. destruct H as [H Hk]. rewrite H. cbn [andb]. apply IH. exact Hk.
  Qed.

  Lemma updNode_gok ids b id g :
    (memZ id ids = true \/ id < 0 \/ b <= id) ->
    (forall n, prot (pkind n) = false -> gok ids b n = true -> gok ids b (g n) = true) ->
    forall fuel l, gokF ids b l = true -> gokF ids b (updNode fuel id g l) = true.
  Proof.
    intros Hid Hg. induction fuel as [|f IH]; intros l H; [assumption|]. cbn [updNode].
    unfold gokF in *. rewrite forallb_forall in *. intros x Hx. apply in_map_iff in Hx. destruct Hx as (n & <- & Hn).
    specialize (H n Hn). destruct (Z.eqb_spec (pid n) id) as [Ep|Ep].
    - apply Hg; [|exact H]. destruct n as [i k s e ind r ks]. cbn [pkind pid gok] in *.
      destruct (prot k); [|reflexivity]. exfalso.
      apply andb_true_iff in H. destruct H as [H _].
      apply andb_true_iff in H. destruct H as [H H4]. apply andb_true_iff in H. destruct H as [H H3].
      apply andb_true_iff in H. destruct H as [H1 H2]. apply Z.leb_le in H2. apply Z.ltb_lt in H3. apply negb_true_iff in H4.
      subst i. destruct Hid as [Hm|[Hm|Hm]]; [congruence|lia|lia].
    - destruct n as [i k s e ind r ks]. cbn [setKids gok pkids] in *.
      apply andb_true_iff in H. destruct H as [H Hk]. rewrite H. cbn [andb]. apply IH. exact Hk.
  Qed.

  Lemma wrapLevel_gok ids b newId kind startId endId endStart parentEnd l :
    prot kind = false ->
    gokF ids b l = true -> gokF ids b (wrapLevel newId kind startId endId endStart parentEnd l) = true.
  Proof.
    intros Hk H. unfold wrapLevel.
    pose proof (splitAtId_app startId l) as E1. destruct (splitAtId startId l) as [pre post].
    pose proof (splitBeforeId_app endId post) as E2. destruct (splitBeforeId endId post) as [mid rest].
    subst l post. rewrite !gokF_app in H. apply andb_true_iff in H. destruct H as [Hpre H].
    apply andb_true_iff in H. destruct H as [Hmid Hrest].
    rewrite !gokF_app, Hpre, Hrest. cbn [andb]. unfold gokF at 1. cbn [forallb gok].
    rewrite Hk. cbn [andb]. rewrite ?andb_true_r. exact Hmid.
  Qed.
  Lemma wrapIn_gok ids b newId kind startId endId endStart : prot kind = false ->
    forall fuel parentEnd l, gokF ids b l = true -> gokF ids b (wrapIn fuel newId kind startId endId endStart parentEnd l) = true.
  Proof.
    intros Hk. induction fuel as [|f IH]; intros parentEnd l H; [assumption|]. cbn [wrapIn].
    destruct (hasId startId l); [apply wrapLevel_gok; assumption|].
    unfold gokF in *. rewrite forallb_forall in *. intros x Hx. apply in_map_iff in Hx. destruct Hx as (n & <- & Hn).
    specialize (H n Hn). destruct n as [i k s e ind r ks]. cbn [setKids gok pkids pe] in *.
    apply andb_true_iff in H. destruct H as [H Hks]. rewrite H. cbn [andb]. apply IH. exact Hks.
  Qed.

  Lemma good_setSpan ids b s e n : prot (pkind n) = false -> gok ids b n = true -> gok ids b (setSpan n (s n) (e n)) = true.
  Proof. destruct n as [i k s0 e0 ind r ks]. cbn [pkind setSpan gok]. intros ->. tauto. Qed.
  Lemma good_setRef ids b rf n : prot (pkind n) = false -> gok ids b n = true -> gok ids b (setRef n rf) = true.
  Proof. destruct n as [i k s0 e0 ind r ks]. cbn [pkind setRef gok]. intros ->. tauto. Qed.
  Lemma good_appendKid ids b k n : gok ids b k = true -> prot (pkind n) = false -> gok ids b n = true ->
    gok ids b (setKids n (pkids n ++ [k])) = true.
  Proof.
    destruct n as [i kd s0 e0 ind r ks]. cbn [pkind setKids pkids gok]. intros Hk -> H. cbn [andb] in *.
    rewrite forallb_app, H. cbn. rewrite Hk. reflexivity.
  Qed.
End Pred.

(* ================================================================ the state invariant *)
Section St.
  Variable src : bytes.
  Variable U : list inline.
  Hypothesis HU : Forall (fun u => iClosed false src u = true) U.

  Definition sids (st : ist) : list Z := map d_node (stk st).
  Definition Inv (b : Z) (st : ist) : Prop :=
    isrc st = src /\ unp st = U /\ 1 <= b <= nid st /\ gokF src (sids st) b (rk st) = true /\
    Forall (fun d => d_node d < nid st /\ d_node d <> 0) (stk st).
  Definition InvS (st : ist) : Prop := Inv (nid st) st.
  Ltac isplit := split; [|split; [|split; [|split]]].

  Lemma memZ_map_In {A} (f : A -> Z) x l : memZ x (map f l) = true -> exists d, In d l /\ f d = x.
  Proof.
    unfold memZ. intros H. apply existsb_exists in H. destruct H as (y & Hy & E). apply Z.eqb_eq in E. subst y.
    apply in_map_iff in Hy. destruct Hy as (d & Ed & Hd). exists d. split; [exact Hd|exact Ed].
  Qed.
  Lemma In_memZ_map {A} (f : A -> Z) d l : In d l -> memZ (f d) (map f l) = true.
  Proof. intros H. unfold memZ. apply existsb_exists. exists (f d). split; [apply in_map; exact H|apply Z.eqb_refl]. Qed.

  Lemma Inv_no0 b st : Inv b st -> memZ 0 (sids st) = false.
  Proof.
    intros (_ & _ & _ & _ & Hs). destruct (memZ 0 (sids st)) eqn:E; [|reflexivity]. apply memZ_map_In in E.
    destruct E as (d & Hd & E0). rewrite Forall_forall in Hs. destruct (Hs d Hd) as [_ N]. contradiction.
  Qed.

  Lemma Inv_weaken b b' st : Inv b st -> b <= b' <= nid st -> Inv b' st.
  Proof.
    intros (E1 & E2 & Hb & Hg & Hs) Hb'. isplit; try assumption; try lia.
    eapply gokF_mono; [intros x Hx; exact Hx| |exact Hg]. lia.
  Qed.
  Lemma Inv_S b st : Inv b st -> InvS st.
  Proof. intros H. apply (Inv_weaken b); [exact H|]. destruct H as (_ & _ & Hb & _). lia. Qed.

  Lemma I_addNode_plain b st kind s e kids : Inv b st -> prot kind = false -> forallb (kgood src) kids = true ->
    Inv b (fst (addNode st kind s e kids)).
  Proof.
    intros H Hk Hkids. pose proof (Inv_no0 b st H) as H0. destruct H as (E1 & E2 & Hb & Hg & Hs).
    unfold addNode. destruct (spanLen s e =? 0); [cbn [fst]; isplit; try assumption; lia|].
    cbn [fst]. unfold Inv, sids, bumpId, setRk. cbn [isrc unp nid rk stk]. isplit; try assumption; try lia.
    - rewrite gokF_app. unfold sids in Hg. rewrite Hg. cbn [andb]. unfold gokF at 1. cbn [forallb gok]. rewrite Hk. cbn [andb].
      rewrite andb_true_r. apply kgoodF_gokF; [exact H0|lia|exact Hkids].
    - eapply Forall_impl; [|exact Hs]. cbn. intros d Hd. lia.
  Qed.
  Lemma I_addText b st s e : Inv b st -> Inv b (addText st s e).
  Proof. intros H. unfold addText. apply I_addNode_plain; [exact H|reflexivity|reflexivity]. Qed.

  (* a protected node gets a fresh identity *)
  Lemma I_addNode_prot st kind s e kids : InvS st -> nodeOK src kind s e = true -> forallb (kgood src) kids = true ->
    InvS (fst (addNode st kind s e kids)).
  Proof.
    intros H Hc Hkids. pose proof (Inv_no0 _ st H) as H0. destruct H as (E1 & E2 & Hb & Hg & Hs).
    unfold addNode. destruct (spanLen s e =? 0); [cbn [fst]; repeat split; try assumption; lia|].
    cbn [fst]. unfold InvS, Inv, sids, bumpId, setRk. cbn [isrc unp nid rk stk]. isplit; try assumption; try lia.
    - rewrite gokF_app. apply andb_true_iff. split.
      + eapply gokF_mono; [intros x Hx; exact Hx| |exact Hg]. lia.
      + unfold gokF. cbn [forallb gok]. rewrite andb_true_r. apply andb_true_iff. split; [|apply kgoodF_gokF; [exact H0|lia|exact Hkids]].
        destruct (prot kind); [|reflexivity]. rewrite Hc. cbn [andb].
        replace (0 <=? nid st) with true by (symmetry; apply Z.leb_le; lia).
        replace (nid st <? nid st + 1) with true by (symmetry; apply Z.ltb_lt; lia). cbn [andb].
        apply negb_true_iff. destruct (memZ (nid st) (map d_node (stk st))) eqn:Em; [|reflexivity].
        apply memZ_map_In in Em. destruct Em as (d & Hd & Ed). rewrite Forall_forall in Hs. specialize (Hs d Hd). lia.
    - eapply Forall_impl; [|exact Hs]. cbn. intros d Hd. lia.
  Qed.

  Lemma I_setStk b st v : Inv b st -> (forall d, In d v -> exists d', In d' (stk st) /\ d_node d' = d_node d) ->
    Inv b (setStk st v).
  Proof.
    intros (E1 & E2 & Hb & Hg & Hs) Hv. unfold Inv, sids, setStk. cbn [isrc unp nid rk stk]. isplit; try assumption.
    - eapply gokF_mono; [|apply Z.le_refl|exact Hg]. intros x Hx. apply memZ_map_In in Hx. destruct Hx as (d & Hd & <-).
      destruct (Hv d Hd) as (d' & Hd' & <-). apply In_memZ_map. exact Hd'.
    - apply Forall_forall. intros d Hd. destruct (Hv d Hd) as (d' & Hd' & <-). rewrite Forall_forall in Hs. apply Hs, Hd'.
  Qed.
  Lemma I_setStk_incl b st v : Inv b st -> incl v (stk st) -> Inv b (setStk st v).
  Proof. intros H Hi. apply I_setStk; [exact H|]. intros d Hd. exists d. split; [apply Hi, Hd|reflexivity]. Qed.
  Lemma upto_incl {A} (l : list A) n : incl (upto l n) l.
  Proof. intros x Hx. unfold upto in Hx. rewrite <- (firstn_skipn (Z.to_nat n) l). apply in_or_app. left. exact Hx. Qed.
  Lemma from_incl {A} (l : list A) n : incl (from_ l n) l.
  Proof. intros x Hx. unfold from_ in Hx. rewrite <- (firstn_skipn (Z.to_nat n) l). apply in_or_app. right. exact Hx. Qed.
  Lemma delStack_incl {A} (l : list A) i j : incl (delStack l i j) l.
  Proof. intros x Hx. unfold delStack in Hx. apply in_app_or in Hx. destruct Hx as [Hx|Hx]; [eapply upto_incl|eapply from_incl]; exact Hx. Qed.

  Lemma gok_push ids b id : (id < 0 \/ b <= id) -> forall n, gok src ids b n = true -> gok src (ids ++ [id]) b n = true.
  Proof.
    intros Hid. fix IH 1. intros [i k s e ind r ks] H. cbn [gok] in *.
    apply andb_true_iff in H. destruct H as [H Hk]. apply andb_true_iff. split.
    - destruct (prot k); [|reflexivity].
      apply andb_true_iff in H. destruct H as [H H4]. apply andb_true_iff in H. destruct H as [H H3].
      apply andb_true_iff in H. destruct H as [H1 H2]. rewrite H1, H2, H3. cbn [andb].
      apply Z.leb_le in H2. apply Z.ltb_lt in H3. unfold memZ in *. rewrite existsb_app. cbn [existsb].
      apply negb_true_iff in H4. rewrite H4. cbn [orb]. rewrite orb_false_r.
      apply negb_true_iff. apply Z.eqb_neq. lia.
    - induction ks as [|x l IHl]; [reflexivity|]. cbn [forallb] in *. apply andb_true_iff in Hk. destruct Hk as [Hx Hl].
      rewrite (IH x Hx). apply IHl. exact Hl.
  Qed.
  Lemma I_push b st d : Inv b st -> (d_node d < 0 \/ b <= d_node d) -> d_node d < nid st -> Inv b (setStk st (stk st ++ [d])).
  Proof.
    intros (E1 & E2 & Hb & Hg & Hs) Hd Hn. unfold Inv, sids, setStk. cbn [isrc unp nid rk stk]. isplit; try assumption.
    - rewrite map_app. cbn [map]. unfold gokF in *. rewrite forallb_forall in *. intros x Hx. apply gok_push; [exact Hd|apply Hg, Hx].
    - apply Forall_app. split; [exact Hs|constructor; [split; [exact Hn|lia]|constructor]].
  Qed.

  Lemma I_updN b st id g : Inv b st -> (memZ id (sids st) = true \/ id < 0 \/ b <= id) ->
    (forall n, prot (pkind n) = false -> gok src (sids st) b n = true -> gok src (sids st) b (g n) = true) ->
    Inv b (updN st id g).
  Proof.
    intros (E1 & E2 & Hb & Hg & Hs) Hid Hgg. unfold Inv, sids, updN, setRk. cbn [isrc unp nid rk stk]. isplit; try assumption.
    apply updNode_gok; assumption.
  Qed.
  Lemma I_wrap b st kind a e : Inv b st -> prot kind = false ->
    Inv b (fst (wrap st kind a e)) /\ snd (wrap st kind a e) = nid st /\ nid (fst (wrap st kind a e)) = nid st + 1 /\
    stk (fst (wrap st kind a e)) = stk st.
  Proof.
    intros (E1 & E2 & Hb & Hg & Hs) Hk. unfold wrap. cbn [fst snd]. split; [|split; [reflexivity|split; reflexivity]].
    unfold Inv, sids, bumpId, setRk. cbn [isrc unp nid rk stk]. isplit; try assumption; try lia.
    - apply wrapIn_gok; assumption.
    - eapply Forall_impl; [|exact Hs]. cbn. intros d Hd. lia.
  Qed.
  Lemma I_remove b st id : Inv b st -> Inv b (removeNode st id).
  Proof.
    intros (E1 & E2 & Hb & Hg & Hs). unfold Inv, sids, removeNode, setRk. cbn [isrc unp nid rk stk]. isplit; try assumption.
    apply removeId_gok. exact Hg.
  Qed.
  Lemma I_setUpos b st v : Inv b st -> Inv b (setUpos st v). Proof. intros H; exact H. Qed.
  Lemma I_setIgn b st v : Inv b st -> Inv b (setIgn st v). Proof. intros H; exact H. Qed.
  Lemma I_advanceTo b st p : Inv b st -> Inv b (advanceTo st p).
  Proof. intros H. unfold advanceTo. destruct (0 <=? _); apply I_setUpos; exact H. Qed.

  Lemma nthD_mem l i : memZ (d_node (nthD l i)) (map d_node l) = true \/ d_node (nthD l i) < 0.
  Proof.
    unfold nthD. destruct (nth_in_or_default (Z.to_nat i) l {| d_typ := 0; d_flags := 0; d_n := 0; d_node := -1 |}) as [H|H].
    - left. apply In_memZ_map. exact H.
    - right. rewrite H. cbn. lia.
  Qed.
End St.
