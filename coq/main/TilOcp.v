From Coq Require Import List ZArith Lia Bool.
Import ListNotations.
Require Import Base Tree Rdr Link Collect Html Recog LP Rules Starts L2Kind L2CC Rec17 Rec18 BSRdr BSOrph BSClose BSLine1 BSLine2 BSLine3 BSLine4 BSLine5 BSLine7
  TilBase TilDefs TilLP2 TilLP6 TilRdr TilRdr2.
Open Scope Z_scope.

(* ================= closing a root paragraph: link reference definitions are split off ================= *)

Section Scan2.
  Variables (s : bytes) (m : Z) (K : list inline).
  Hypothesis Hm0 : 0 <= m.
  Hypothesis Hmg : good s m.
  Notation RI := (RI s m K).

  Lemma Qc r : RI r -> RI (snd (current r)). Proof. intros H. rewrite (current_snd s m K r H). exact H. Qed.
  Lemma Qn r : RI r -> RI (snd (next r)). Proof. intros H. apply (next_RI s m K r H). Qed.

  Ltac step :=
    repeat match goal with
    | |- context [current ?r] => let H := fresh "Hc" in let c := fresh "c" in let r' := fresh "r" in
        match goal with Hr : RI r |- _ => pose proof (Qc r Hr) as H; destruct (current r) as [c r']; cbn [snd] in H end
    | |- context [next ?r] => let H := fresh "Hn" in let ok := fresh "ok" in let r' := fresh "r" in
        match goal with Hr : RI r |- _ => pose proof (Qn r Hr) as H; destruct (next r) as [ok r']; cbn [snd] in H end
    end.

  Lemma RI_ll_skip : forall fuel r chars r' c', RI r -> ll_skip fuel r chars = Some (r', c') -> RI r'.
  Proof.
    induction fuel as [|f IH]; intros r chars r' c' H E; [discriminate|]. cbn [ll_skip] in E. revert E. step.
    destruct (negb ok); [discriminate|]. step.
    destruct (_ || _ || _); [discriminate|]. destruct (negb _); [intros E; inversion E; subst; assumption|].
    intros E. eapply IH; [|exact E]. assumption.
  Qed.
  Lemma RI_ll_body : forall fuel r chars ie r' ie', RI r -> ll_body fuel r chars ie = Some (r', ie') -> RI r'.
  Proof.
    induction fuel as [|f IH]; intros r chars ie r' ie' H E; [discriminate|]. cbn [ll_body] in E. revert E. step.
    destruct (negb _); [intros E; inversion E; subst; assumption|].
    destruct (c =? 92).
    - step. destruct (negb ok); [discriminate|]. step. destruct (negb ok0); [discriminate|]. intros E. eapply IH; [|exact E]. assumption.
    - step. destruct (negb ok); [discriminate|]. intros E. eapply IH; [|exact E]. assumption.
  Qed.
  Lemma RI_parseLinkLabel fuel r : RI r -> RI (snd (parseLinkLabel fuel r)).
  Proof.
    intros H. unfold parseLinkLabel. step. destruct (negb (c =? 91)); [assumption|].
    destruct (ll_skip fuel r0 0) as [[r2 chars]|] eqn:E1; [|assumption].
    pose proof (RI_ll_skip _ _ _ _ _ Hc E1) as H1.
    destruct (ll_body fuel r2 chars (-1)) as [[r3 ie]|] eqn:E2; [|assumption].
    pose proof (RI_ll_body _ _ _ _ _ _ H1 E2) as H2. step.
    destruct (negb (c0 =? 93)); [assumption|]. step. assumption.
  Qed.
  Lemma RI_ld_angle : forall fuel r start, RI r -> RI (snd (ld_angle fuel r start)).
  Proof.
    induction fuel as [|f IH]; intros r start H; [exact H|]. cbn [ld_angle]. step.
    destruct (negb ok); [assumption|]. step. destruct (_ || _); [assumption|].
    destruct (c =? 92).
    - step. destruct (negb ok0); [assumption|]. step. destruct (_ || _); [assumption|apply IH; assumption].
    - destruct (c =? 62); [step; assumption|apply IH; assumption].
  Qed.
  Lemma RI_ld_bare : forall fuel r paren, RI r -> RI (ld_bare fuel r paren).
  Proof.
    induction fuel as [|f IH]; intros r paren H; [exact H|]. cbn [ld_bare]. step.
    destruct (_ || _); [assumption|].
    destruct (c =? 92).
    - step. destruct (negb ok); [assumption|]. step. destruct (_ || _); [assumption|]. step. destruct ok0; [apply IH|]; assumption.
    - destruct (c =? 40); [step; destruct ok; [apply IH|]; assumption|].
      destruct (c =? 41); [destruct (_ <? 0); [assumption|]; step; destruct ok; [apply IH|]; assumption|].
      step. destruct ok; [apply IH|]; assumption.
  Qed.
  Lemma RI_parseLinkDestination fuel r : RI r -> RI (snd (parseLinkDestination fuel r)).
  Proof.
    intros H. unfold parseLinkDestination. step. destruct (c =? 60); [apply RI_ld_angle; assumption|].
    destruct (_ && _ && _); [cbn [snd]; apply RI_ld_bare; assumption|assumption].
  Qed.
  Lemma RI_lt_loop : forall fuel r start term, RI r -> RI (snd (lt_loop fuel r start term)).
  Proof.
    induction fuel as [|f IH]; intros r start term H; [exact H|]. cbn [lt_loop]. step.
    destruct (negb ok); [assumption|]. step.
    destruct (c =? 92); [step; destruct (negb ok0); [assumption|apply IH; assumption]|].
    destruct (c =? term); [step; assumption|apply IH; assumption].
  Qed.
  Lemma RI_parseLinkTitle fuel r : RI r -> RI (snd (parseLinkTitle fuel r)).
  Proof. intros H. unfold parseLinkTitle. step. destruct (negb _); [assumption|apply RI_lt_loop; assumption]. Qed.

  (* the index of the entry that holds the reader position *)
  Lemma nodeIdx_pre pos : forall pre l k, preOK pos pre -> nodeIdx (pre ++ l) pos k = nodeIdx l pos (k + len pre).
  Proof.
    induction pre as [|u pre IH]; intros l k H; [cbn [app]; f_equal; unfold len; cbn; lia|].
    cbn [app nodeIdx]. destruct (H u (or_introl eq_refl)) as (A & B & C).
    destruct (Z.ltb_spec pos (istart u)); [lia|].
    replace (spanHas u pos) with false by (symmetry; unfold spanHas; destruct (Z.ltb_spec pos (iend u)); [lia|rewrite !andb_false_r; reflexivity]).
    rewrite IH by (intros v Hv; apply H; right; exact Hv). f_equal. rewrite len_cons. lia.
  Qed.
  Lemma fc_spans r : RI r ->
    (r_spans r = [] -> nodeIndexForPosition K (r_pos r) < 0) /\
    (r_spans r <> [] -> 0 <= nodeIndexForPosition K (r_pos r) /\ from_ K (nodeIndexForPosition K (r_pos r)) = r_spans r).
  Proof.
    intros (_ & (pre & EK & Hpre) & _ & H & _). unfold nodeIndexForPosition. rewrite EK, (nodeIdx_pre _ pre _ 0 Hpre). unfold HD in H.
    destruct (r_spans r) as [|n t]; split.
    - intros _. cbn. lia.
    - intros N. contradiction.
    - intros E. discriminate E.
    - intros _. rewrite (nodeIdx_hd n t _ _ H). pose proof (len_nonneg pre). split; [lia|].
      replace (0 + len pre) with (len pre) by lia. unfold from_, len. rewrite Nat2Z.id, skipn_app, skipn_all, Nat.sub_diag. reflexivity.
  Qed.
End Scan2.

Lemma RI_restart s m K r : RI s m K r -> r_spans r <> [] -> RI s m (r_spans r) r.
Proof.
  intros (A & _ & C & D & E) Hn. split; [exact A|]. split; [exists []; split; [reflexivity|intros u []]|]. split; [exact C|]. split; assumption.
Qed.

Section Ocp.
  Variables (s : bytes) (m e : Z).
  Hypothesis Hm0 : 0 <= m.
  Hypothesis Hmg : good s m.
  Hypothesis Hme : m <= e.
  Hypothesis Heg : good s e.

  Definition okL (l : list block) : Prop := forall x, In x l -> good s (bend x) /\ isOpen x = false.
  Lemma okL_app a b : okL a -> okL b -> okL (a ++ b).
  Proof. intros A B x Hx. apply in_app_or in Hx. destruct Hx; [apply A|apply B]; assumption. Qed.
  Lemma okL_one x : good s (bend x) -> 0 <= bend x -> okL [x].
  Proof. intros A B y [<-|[]]. split; [exact A|unfold isOpen; apply Z.ltb_ge; exact B]. Qed.
  Lemma okL_ref a d k : 0 <= d -> good s d -> okL [refDefBlock a d k].
  Proof. intros A B. apply okL_one; assumption. Qed.

  Definition lastBlank (l : list block) : Prop := forall x, lastL l = Some x -> blankR s (bend x) e.

  Lemma ocp_ok : forall fuel rfuel orig r result, rfuel <> O -> bend orig = e -> RI s m (bik orig) r -> okL result ->
    okL (ocp_loop fuel rfuel s orig None r result) /\ (blankR s m e -> lastBlank (ocp_loop fuel rfuel s orig None r result)).
  Proof.
    assert (He0 : 0 <= e) by lia.
    induction fuel as [|f IH]; intros rfuel orig r result Hrf He HR Hres.
    { cbn [ocp_loop]. split; [apply okL_app; [exact Hres|apply okL_one; rewrite He; assumption]|].
      intros _ x Hx. rewrite lastL_snoc in Hx. inversion Hx; subst x. rewrite He. apply blankR_empty. lia. }
    assert (Hkeep : okL (result ++ [orig]) /\ (blankR s m e -> lastBlank (result ++ [orig]))).
    { split; [apply okL_app; [exact Hres|apply okL_one; rewrite He; assumption]|].
      intros _ x Hx. rewrite lastL_snoc in Hx. inversion Hx; subst x. rewrite He. apply blankR_empty. lia. }
    cbn [ocp_loop]. cbv zeta. set (K := bik orig) in *.
    pose proof (RI_parseLinkLabel s m K rfuel r HR) as H1.
    destruct (parseLinkLabel rfuel r) as [[lspan linner] r1]. cbn [snd] in H1.
    destruct (negb (spanValid lspan)); [exact Hkeep|].
    pose proof (Qc s m K r1 H1) as H2. destruct (current r1) as [c r2]. cbn [snd] in H2. destruct (negb (c =? 58)); [exact Hkeep|].
    pose proof (Qn s m K r2 H2) as H3. destruct (next r2) as [ok3 r3]. cbn [snd] in H3.
    destruct (sls_ok s m K rfuel r3 H3) as (H4 & _). destruct (skipLinkSpace rfuel r3) as [ok r4]. cbn [fst snd] in H4.
    destruct (negb ok); [exact Hkeep|].
    pose proof (RI_parseLinkDestination s m K rfuel r4 H4) as H5.
    destruct (parseLinkDestination rfuel r4) as [[dspan dtext] r5]. cbn [snd] in H5.
    destruct (negb (spanValid dspan)); [exact Hkeep|].
    destruct (readEOL_ok s m K Hm0 Hmg rfuel r5 H5 Hrf) as (H6 & _ & Dneg & Dpos).
    destruct (readEOL rfuel r5) as [destEOL r6]. cbn [fst snd] in H6, Dneg, Dpos.
    pose proof (current_snd s m K r6 H6) as E7. destruct (current r6) as [c6 r7] eqn:Ec6. cbn [snd] in E7. subst r7.
    destruct (_ && _ && _); [exact Hkeep|].
    set (labelInline := Inl LinkLabelKind _ _ 0 _ _). set (destInline := Inl LinkDestinationKind _ _ 0 [] _).
    destruct (sls_ok s m K rfuel r6 H6) as (H8 & B8 & _ & X8). pose proof (sls_true s m K rfuel r6) as T8.
    destruct (skipLinkSpace rfuel r6) as [ok2 r8]. cbn [fst snd] in H8, B8, X8, T8.
    (* the end of the destination line, when it is used *)
    assert (Hexh : forall r', RI s m K r' -> r_spans r' = [] -> r_pos r' = m) by (intros r' (_ & _ & _ & _ & X) E; apply X, E).
    destruct ok2; cbn [negb].
    2:{ (* the paragraph ends after the destination *)
      assert (D0 : 0 <= destEOL).
      { destruct (Z.lt_ge_cases destEOL 0) as [L|G]; [exfalso|exact G]. destruct (Dneg L) as (cc & Ec & Nb & N0).
        inversion Ec; subst cc. specialize (T8 c6 H6 Ec6 N0 Nb). discriminate T8. }
      destruct (Dpos D0) as (G1 & G2 & G3).
      split; [apply okL_app; [exact Hres|apply okL_ref; assumption]|].
      intros Hb x Hx. rewrite lastL_snoc in Hx. inversion Hx; subst x. cbn [bend refDefBlock].
      eapply blankR_app; [exact G3|]. eapply blankR_app; [exact B8|]. rewrite (Hexh r8 H8 (X8 eq_refl)). exact Hb. }
    pose proof (RI_parseLinkTitle s m K rfuel r8 H8) as H9.
    destruct (parseLinkTitle rfuel r8) as [[tspan ttext] r9]. cbn [snd] in H9.
    destruct (fc_spans s m K r6 H6) as [F6a F6b].
    (* the continuation after the destination line *)
    assert (Cont6 : 0 <= destEOL -> forall tail,
       (okL tail) ->
       let res := result ++ [refDefBlock (fst lspan) destEOL [labelInline; destInline]] in
       (nodeIndexForPosition K (r_pos r6) <? 0 = true -> okL res /\ (blankR s m e -> lastBlank res)) /\
       (nodeIndexForPosition K (r_pos r6) <? 0 = false ->
          RI s m (bik (set_bik (set_bstart orig (r_pos r6)) (from_ K (nodeIndexForPosition K (r_pos r6))))) r6 /\ okL res)).
    { intros D0 tail _ res. destruct (Dpos D0) as (G1 & G2 & G3).
      assert (Hr : okL res) by (apply okL_app; [exact Hres|apply okL_ref; assumption]).
      split.
      - intros Efc. apply Z.ltb_lt in Efc. split; [exact Hr|]. intros Hb x Hx. unfold res in Hx. rewrite lastL_snoc in Hx. inversion Hx; subst x. cbn [bend refDefBlock].
        assert (Esp : r_spans r6 = []) by (destruct (r_spans r6) as [|n t] eqn:Es; [reflexivity|destruct F6b as [X _]; [discriminate|lia]]).
        eapply blankR_app; [exact G3|]. rewrite (Hexh r6 H6 Esp). exact Hb.
      - intros Efc. apply Z.ltb_ge in Efc. split; [|exact Hr].
        assert (Esp : r_spans r6 <> []) by (intros E; specialize (F6a E); lia).
        destruct (F6b Esp) as [_ Ecut]. replace (bik (set_bik (set_bstart orig (r_pos r6)) (from_ K (nodeIndexForPosition K (r_pos r6))))) with (r_spans r6)
          by (rewrite Ecut; destruct orig; reflexivity).
        apply (RI_restart s m K r6 H6 Esp). }
    destruct (negb (spanValid tspan)).
    { destruct (Z.ltb_spec destEOL 0) as [L|G]; [exact Hkeep|].
      destruct (Cont6 G [] ltac:(intros x [])) as [C1 C2].
      destruct (nodeIndexForPosition K (r_pos r6) <? 0) eqn:Efc; [apply C1; reflexivity|].
      destruct (C2 eq_refl) as [R6 O6]. apply IH; [exact Hrf|destruct orig; exact He|exact R6|exact O6]. }
    destruct (readEOL_ok s m K Hm0 Hmg rfuel r9 H9 Hrf) as (H10 & _ & _ & Tpos).
    destruct (readEOL rfuel r9) as [titleEOL r10]. cbn [fst snd] in H10, Tpos.
    destruct (Z.ltb_spec titleEOL 0) as [LT|GT].
    { destruct (Z.ltb_spec destEOL 0) as [L|G]; [exact Hkeep|].
      destruct (Cont6 G [] ltac:(intros x [])) as [C1 C2].
      destruct (nodeIndexForPosition K (r_pos r6) <? 0) eqn:Efc; [apply C1; reflexivity|].
      destruct (C2 eq_refl) as [_ O6]. rewrite app_assoc. split.
      - apply okL_app; [exact O6|]. apply okL_one; [|]; (replace (bend (set_bik (set_bstart orig (r_pos r6)) _)) with e by (destruct orig; symmetry; exact He)); assumption.
      - intros _ x Hx. rewrite lastL_snoc in Hx. inversion Hx; subst x.
        replace (bend (set_bik (set_bstart orig (r_pos r6)) _)) with e by (destruct orig; symmetry; exact He). apply blankR_empty. lia. }
    set (titleInline := Inl LinkTitleKind _ _ 0 [] _).
    destruct (Tpos GT) as (G1 & G2 & G3).
    assert (Hr : okL (result ++ [refDefBlock (fst lspan) titleEOL [labelInline; destInline; titleInline]]))
      by (apply okL_app; [exact Hres|apply okL_ref; assumption]).
    destruct (fc_spans s m K r10 H10) as [F10a F10b].
    destruct (Z.ltb_spec (nodeIndexForPosition K (r_pos r10)) 0) as [Lfc|Gfc].
    - split; [exact Hr|]. intros Hb x Hx. rewrite lastL_snoc in Hx. inversion Hx; subst x. cbn [bend refDefBlock].
      assert (Esp : r_spans r10 = []) by (destruct (r_spans r10) as [|n t] eqn:Es; [reflexivity|destruct F10b as [X _]; [discriminate|lia]]).
      eapply blankR_app; [exact G3|]. rewrite (Hexh r10 H10 Esp). exact Hb.
    - assert (Esp : r_spans r10 <> []) by (intros E; specialize (F10a E); lia).
      destruct (F10b Esp) as [_ Ecut].
      apply IH; [exact Hrf|destruct orig; exact He| |exact Hr].
      replace (bik (set_bik (set_bstart orig (r_pos r10)) (from_ K (nodeIndexForPosition K (r_pos r10))))) with (r_spans r10)
        by (rewrite Ecut; destruct orig; reflexivity).
      apply (RI_restart s m K r10 H10 Esp).
  Qed.

  Lemma newReader_RI ik first rest : ik = first :: rest -> PIk s m ik -> RI s m ik (newReader s ik (istart first)).
  Proof.
    intros E HP. subst ik. unfold newReader. split; [reflexivity|]. cbn [r_spans r_pos r_prev r_src].
    split; [exists []; split; [reflexivity|intros u []]|]. split; [exact HP|]. split; [|intros X; discriminate X].
    unfold HD. cbn [r_spans r_pos]. destruct HP as ((_ & A & B & _) & _). apply spanHas_iff. lia.
  Qed.

  Lemma onClose_ok orig : bkind orig = ParagraphKind -> bend orig = e -> PIk s m (bik orig) ->
    okL (onCloseParagraph s orig) /\ (blankR s m e -> lastBlank (onCloseParagraph s orig)).
  Proof.
    intros Hk He HP. assert (He0 : 0 <= e) by lia. unfold onCloseParagraph. destruct (bik orig) as [|first rest] eqn:Eb.
    - split; [apply okL_one; rewrite He; assumption|]. intros _ x Hx. cbn in Hx. inversion Hx; subst x. rewrite He. apply blankR_empty. lia.
    - cbv zeta. rewrite Hk. change (ParagraphKind =? SetextHeadingKind) with false. cbv iota.
      apply ocp_ok; [lia|exact He| |intros x []]. rewrite Eb. apply (newReader_RI _ first rest eq_refl HP).
  Qed.
End Ocp.

Theorem OcpPara_holds : OcpPara.
Proof.
  intros f s c e m Ho Hk HP Hme Hb Hg He. cbn [closeBlock]. rewrite Ho. cbn [negb]. cbv zeta. rewrite bkind_set_bend, Hk.
  change (ParagraphKind =? ListKind) with false. change (ParagraphKind =? IndentedCodeBlockKind) with false.
  change ((ParagraphKind =? ParagraphKind) || (ParagraphKind =? SetextHeadingKind)) with true. cbv iota.
  set (b1 := set_bend c e).
  assert (F : bkind b1 = ParagraphKind /\ bend b1 = e /\ bik b1 = bik c) by (unfold b1; destruct c; repeat split; exact Hk).
  destruct F as (F1 & F2 & F3).
  destruct (bik c) as [|u r] eqn:Eb.
  - (* no entries *)
    unfold onCloseParagraph. rewrite F3. split; [|split; [|split; [|discriminate]]].
    + intros x [<-|[]]. rewrite F2. exact Hg.
    + intros x [<-|[]]. unfold isOpen. rewrite F2. apply Z.ltb_ge. lia.
    + intros x Hx. cbn in Hx. inversion Hx; subst x. rewrite F2. apply blankR_empty. lia.
  - assert (Hmg : good s m /\ 0 <= m).
    { destruct HP as (P1 & P2 & P3). rewrite <- P3. split; [apply (lastE_good s r (iend u) P2); apply P1|].
      pose proof (lastE_ge s r (iend u) P2). destruct P1 as (_ & A & B & _). lia. }
    destruct Hmg as [Hmg Hm0].
    destruct (onClose_ok s m e Hm0 Hmg Hme Hg b1 F1 F2 ltac:(rewrite F3; exact HP)) as [A B].
    split; [intros x Hx; apply A, Hx|]. split; [intros x Hx; apply A, Hx|]. split; [apply B, Hb|].
    unfold onCloseParagraph. rewrite F3. apply ocp_nonnil.
Qed.

Theorem OcpSetext_holds : OcpSetext.
Proof.
  intros f s x level e m Ho Hk HP Hme Hg He HPC.
  set (gx := set_bn (set_bkind x SetextHeadingKind) level).
  assert (F : bik gx = bik x /\ bend gx = bend x /\ bkind gx = SetextHeadingKind) by (destruct x; repeat split).
  destruct F as (F2 & F4 & F5).
  set (b1 := set_bend gx e).
  assert (G : bik b1 = bik x /\ bend b1 = e /\ bkind b1 = SetextHeadingKind).
  { unfold b1. rewrite bik_set_bend, bend_set_bend, bkind_set_bend. tauto. }
  destruct G as (G2 & G4 & G5).
  assert (EL : closeBlock (S f) s gx e = onCloseParagraph s b1).
  { cbn [closeBlock]. assert (Hog : isOpen gx = true) by (unfold isOpen in *; rewrite F4; exact Ho). rewrite Hog. cbn [negb]. cbv zeta. fold b1.
    rewrite G5. reflexivity. }
  rewrite EL. unfold onCloseParagraph in *. destruct (bik x) as [|first rest] eqn:Eb.
  - rewrite G2. split; [|apply (lastBend_snoc e [] b1); exact G4].
    intros y [<-|[]]. rewrite G4. split; [exact Hg|unfold isOpen; rewrite G4; apply Z.ltb_ge; lia].
  - cbv zeta in *. rewrite Hk in HPC. change (ParagraphKind =? SetextHeadingKind) with false in HPC. cbv iota in HPC.
    assert (Eik : bik x = bik b1) by (rewrite Eb, G2; reflexivity).
    rewrite G5. change (SetextHeadingKind =? SetextHeadingKind) with true. cbv iota. rewrite G2.
    rewrite (ocp_orphan_irrel _ _ s x b1 _ _ [] [] Eik HPC).
    pose proof (ocp_last_bend _ _ s x b1 _ [] [] Eik HPC) as HLb. rewrite G4 in HLb.
    split; [|exact HLb].
    assert (Hmg : good s m /\ 0 <= m).
    { destruct HP as (P1 & P2 & P3). rewrite <- P3. split; [apply (lastE_good s rest (iend first) P2); apply P1|].
      pose proof (lastE_ge s rest (iend first) P2). destruct P1 as (_ & A & B & _). lia. }
    destruct Hmg as [Hmg Hm0].
    assert (HR : RI s m (bik b1) (newReader s (first :: rest) (istart first))).
    { rewrite G2. apply (newReader_RI s m _ first rest eq_refl HP). }
    destruct (ocp_ok s m e Hm0 Hmg Hme Hg (S (length (first :: rest))) (2 * length s + 10) b1 _ [] ltac:(lia) G4 HR ltac:(intros y [])) as [A _].
    intros y Hy. exact (A y Hy).
Qed.
