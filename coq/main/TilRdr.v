From Coq Require Import List ZArith Lia Bool.
Import ListNotations.
Require Import Base Tree Rdr Link Rec17 Rec18 BSRdr TilBase TilDefs.
Open Scope Z_scope.

(* ================= the multi-line reader over the entries of a root paragraph ================= *)

Section Rdr.
  Variables (s : bytes) (m : Z).

  Definition HD (r : reader) : Prop := match r_spans r with [] => True | n :: _ => spanHas n (r_pos r) = true end.
  Definition preOK (pos : Z) (pre : list inline) : Prop := forall u, In u pre -> 0 <= istart u /\ istart u < iend u /\ iend u <= pos.
  (* K: the entries of the paragraph; the reader's list is a suffix of it, its head holds the position *)
  Definition RI (K : list inline) (r : reader) : Prop :=
    r_src r = s /\ (exists pre, K = pre ++ r_spans r /\ preOK (r_pos r) pre) /\ PIk s m (r_spans r) /\ HD r /\
    (r_spans r = [] -> r_pos r = m /\ r_prev r + 1 = m).

  Lemma spanHas_iff n pos : spanHas n pos = true <-> 0 <= istart n /\ 0 <= iend n /\ istart n <= iend n /\ istart n <= pos /\ pos < iend n.
  Proof. unfold spanHas. rewrite !andb_true_iff, !Z.leb_le, Z.ltb_lt. tauto. Qed.

  Lemma curNode_HD r : HD r -> curNode r = (hd_error (r_spans r), r).
  Proof.
    intros H. unfold curNode. cbv zeta. destruct r as [src sp pos vp pv]. cbn [r_spans r_pos r_src r_vpos r_prev] in *. unfold HD in H. cbn [r_spans r_pos] in H.
    destruct sp as [|n t].
    - reflexivity.
    - unfold nodeIndexForPosition. rewrite (nodeIdx_hd n t pos 0 H). reflexivity.
  Qed.

  (* ---- current ---- *)
  Lemma current_snd K r : RI K r -> snd (current r) = r.
  Proof.
    intros (_ & _ & _ & H & _). unfold current. destruct (_ <=? _); [reflexivity|]. rewrite (curNode_HD r H).
    destruct (_ =? IndentKind); [reflexivity|]. destruct (_ =? 0); reflexivity.
  Qed.
  (* the character read, by cases *)
  Lemma current_cases K r : RI K r ->
    (len s <= r_pos r /\ fst (current r) = 0) \/
    (r_pos r < len s /\
     ((exists n t, r_spans r = n :: t /\ ikind n = IndentKind /\ fst (current r) = 32 /\ at_ s (r_pos r) = 9) \/
      ((forall n t, r_spans r = n :: t -> ikind n <> IndentKind) /\
       ((at_ s (r_pos r) = 0 /\ (fst (current r) = 239 \/ fst (current r) = 191 \/ fst (current r) = 189)) \/
        (at_ s (r_pos r) <> 0 /\ fst (current r) = at_ s (r_pos r)))))).
  Proof.
    intros (Es & _ & HP & H & _). unfold current. rewrite Es. destruct (Z.leb_spec (len s) (r_pos r)) as [L|L]; [left; split; [exact L|reflexivity]|].
    right. split; [exact L|]. rewrite (curNode_HD r H).
    destruct (r_spans r) as [|n t] eqn:Esp; cbn [hd_error okind].
    - right. split; [intros n t E; discriminate E|]. change (0 =? IndentKind) with false. cbv iota.
      destruct (Z.eqb_spec (at_ s (r_pos r)) 0) as [E0|N0]; cbn [fst].
      + left. split; [exact E0|]. unfold nullRepl. destruct (_ =? 0); [left; reflexivity|]. destruct (_ =? 1); [right; left|right; right]; reflexivity.
      + right. split; [exact N0|reflexivity].
    - destruct (Z.eqb_spec (ikind n) IndentKind) as [Ek|Nk].
      + left. exists n, t. split; [reflexivity|]. split; [exact Ek|]. split; [reflexivity|].
        destruct HP as ((_ & _ & _ & _ & _ & Hi) & _). destruct (Hi Ek) as [I1 I2]. unfold HD in H. rewrite Esp in H. apply spanHas_iff in H.
        replace (r_pos r) with (istart n) by lia. exact I2.
      + right. split; [intros n0 t0 E; inversion E; subst; exact Nk|].
        destruct (Z.eqb_spec (at_ s (r_pos r)) 0) as [E0|N0]; cbn [fst].
        * left. split; [exact E0|]. unfold nullRepl. destruct (_ =? 0); [left; reflexivity|]. destruct (_ =? 1); [right; left|right; right]; reflexivity.
        * right. split; [exact N0|reflexivity].
  Qed.

  Lemma current_blank K r : RI K r -> blk (fst (current r)) = true -> r_pos r < len s /\ blk (at_ s (r_pos r)) = true.
  Proof.
    intros H Hb. destruct (current_cases K r H) as [[_ E]|[L [(n & t & _ & _ & _ & E9)|[_ [[_ [E|[E|E]]]|[_ E]]]]]];
      try (rewrite E in Hb; discriminate Hb).
    - split; [exact L|rewrite E9; reflexivity].
    - split; [exact L|rewrite <- E; exact Hb].
  Qed.
  Lemma current_sptab K r : RI K r -> isSpTab (fst (current r)) = true -> r_pos r < len s /\ isSpTab (at_ s (r_pos r)) = true.
  Proof.
    intros H Hb. destruct (current_cases K r H) as [[_ E]|[L [(n & t & _ & _ & _ & E9)|[_ [[_ [E|[E|E]]]|[_ E]]]]]];
      try (rewrite E in Hb; discriminate Hb).
    - split; [exact L|rewrite E9; reflexivity].
    - split; [exact L|rewrite <- E; exact Hb].
  Qed.
  Lemma current_zero K r : RI K r -> fst (current r) = 0 -> len s <= r_pos r.
  Proof.
    intros H Hb. destruct (current_cases K r H) as [[L _]|[L [(n & t & _ & _ & E & _)|[_ [[_ [E|[E|E]]]|[N E]]]]]]; try lia; congruence.
  Qed.
  Lemma current_eol K r c : RI K r -> fst (current r) = c -> c = 13 \/ c = 10 ->
    r_pos r < len s /\ at_ s (r_pos r) = c /\ (forall n t, r_spans r = n :: t -> ikind n <> IndentKind).
  Proof.
    intros H Hb Hc. destruct (current_cases K r H) as [[_ E]|[L [(n & t & _ & _ & E & _)|[Hn [[_ [E|[E|E]]]|[_ E]]]]]]; try lia.
    split; [exact L|]. split; [congruence|exact Hn].
  Qed.
  Lemma current_not10 K r : RI K r -> fst (current r) <> 10 -> at_ s (r_pos r) <> 10.
  Proof.
    intros H Hb. destruct (current_cases K r H) as [[L _]|[L [(n & t & _ & _ & _ & E)|[_ [[E _]|[_ E]]]]]]; try lia.
    rewrite at_nonneg_oob by exact L. discriminate.
  Qed.

  (* ---- next ---- *)
  Definition Step (r r' : reader) : Prop :=
    r_pos r' = r_pos r \/ r_pos r' = r_pos r + 1 \/
    (r_pos r + 1 <= r_pos r' /\ blankR s (r_pos r + 1) (r_pos r') /\ good s (r_pos r') /\ good s (r_pos r + 1)).
  Lemma good_m K r : RI K r -> r_spans r <> [] -> good s m.
  Proof.
    intros (_ & _ & HP & _) Hn. destruct (r_spans r) as [|n t]; [contradiction|]. destruct HP as (P1 & P2 & P3). rewrite <- P3.
    apply (lastE_good s t (iend n) P2). apply P1.
  Qed.

  Lemma next_RI K r : RI K r ->
    RI K (snd (next r)) /\ Step r (snd (next r)) /\ r_pos r <= r_pos (snd (next r)) /\
    (r_spans r <> [] -> r_prev (snd (next r)) = r_pos r) /\
    (r_spans r = [] -> next r = (false, r)) /\
    (fst (next r) = false -> r_spans (snd (next r)) = []) /\
    (r_pos (snd (next r)) = r_pos r -> exists n t, r_spans r = n :: t /\ ikind n = IndentKind \/ r_spans r = []) /\
    (fst (next r) = true -> r_spans (snd (next r)) <> []).
  Proof.
    intros HR. pose proof HR as (Es & (pre & EK & Hpre) & HP & H & Hex). unfold next, Step. rewrite (curNode_HD r H).
    destruct (r_spans r) as [|n t] eqn:Esp; cbn [hd_error].
    { (* exhausted *)
      cbn [fst snd]. split; [exact HR|]. split; [left; reflexivity|]. split; [lia|]. split; [intros N; contradiction|].
      split; [intros _; reflexivity|]. split; [intros _; exact Esp|]. split; [|discriminate]. intros _. exists (mkI 0 0 0), []. right. reflexivity. }
    unfold HD in H. rewrite Esp in H. pose proof H as Hh. apply spanHas_iff in Hh. destruct Hh as (h1 & h2 & h3 & h4 & h5).
    pose proof HP as (Pn & Pt & Pe). pose proof Pn as (Kn & n1 & n2 & n3 & n4 & n5).
    destruct ((ikind n =? IndentKind) && (r_vpos r <? iindent n)) eqn:C1.
    { (* a virtual space *)
      cbn [fst snd r_pos r_spans r_prev]. apply andb_true_iff in C1. destruct C1 as [C1 _]. apply Z.eqb_eq in C1.
      split; [|split; [left; reflexivity|split; [lia|split; [reflexivity|split; [intros E; discriminate E|split; [discriminate|split; [|discriminate]]]]]]].
      - split; [exact Es|]. cbn [r_src r_spans r_pos r_prev]. split; [exists pre; split; assumption|].
        split; [exact HP|]. split; [unfold HD; cbn [r_spans r_pos]; exact H|intros E; discriminate E].
      - intros _. exists n, t. left. split; [reflexivity|exact C1]. }
    destruct (negb (ikind n =? IndentKind) && (r_pos r + 1 <? iend n)) eqn:C2.
    { (* inside the entry *)
      cbn [fst snd r_pos r_spans r_prev]. apply andb_true_iff in C2. destruct C2 as [_ C2]. apply Z.ltb_lt in C2.
      split; [|split; [right; left; reflexivity|split; [lia|split; [reflexivity|split; [intros E; discriminate E|split; [discriminate|split; [intros E; lia|discriminate]]]]]]].
      split; [exact Es|]. cbn [r_src r_spans r_pos r_prev]. split.
      - exists pre. split; [exact EK|]. intros u Hu. destruct (Hpre u Hu) as (a & b & c). repeat split; lia.
      - split; [exact HP|]. split; [unfold HD; cbn [r_spans r_pos]; apply spanHas_iff; lia|intros E; discriminate E]. }
    (* the end of the entry *)
    assert (Hend : iend n = r_pos r + 1).
    { destruct (Z.eqb_spec (ikind n) IndentKind) as [Ek|Nk].
      - destruct (n5 Ek) as [I1 _]. lia.
      - cbn [negb andb] in C2. apply Z.ltb_ge in C2. lia. }
    cbn [tl].
    destruct t as [|i t'].
    - (* no further entry *)
      cbn [nextSpan fst snd r_pos r_spans r_prev].
      cbn [pch lastE] in Pt, Pe.
      split; [|split; [right; left; reflexivity|split; [lia|split; [reflexivity|split; [intros E; discriminate E|split; [reflexivity|split; [intros E; lia|discriminate]]]]]]].
      split; [exact Es|]. cbn [r_src r_spans r_pos r_prev]. split.
      + exists (pre ++ [n]). split; [rewrite EK, <- app_assoc; reflexivity|]. intros u Hu. apply in_app_or in Hu.
        destruct Hu as [Hu|[<-|[]]]; [destruct (Hpre u Hu) as (a & b & c); repeat split; lia|repeat split; lia].
      + split; [exact I|]. split; [exact I|]. intros _. split; lia.
    - (* the next entry *)
      cbn [pch lastE] in Pt, Pe. destruct Pt as (Q1 & Q2 & Q3 & Q4 & Q5). pose proof Q4 as (Ki & i1 & i2 & i3 & i4 & i5).
      assert (Er : (ikind i =? UnparsedKind) || (ikind i =? TextKind) || (ikind i =? IndentKind) = true).
      { destruct Ki as [-> | ->]; reflexivity. }
      cbn [nextSpan]. rewrite Er. cbn [fst snd r_pos r_spans r_prev].
      split; [|split; [right; right; rewrite <- Hend; split; [lia|split; [exact Q2|split; [exact Q3|exact n4]]]|
               split; [lia|split; [reflexivity|split; [intros E; discriminate E|split; [discriminate|split; [intros E; lia|discriminate]]]]]]].
      split; [exact Es|]. cbn [r_src r_spans r_pos r_prev]. split.
      + exists (pre ++ [n]). split; [rewrite EK, <- app_assoc; reflexivity|]. intros u Hu. apply in_app_or in Hu.
        destruct Hu as [Hu|[<-|[]]]; [destruct (Hpre u Hu) as (a & b & c); repeat split; lia|repeat split; lia].
      + split; [split; [exact Q4|split; [exact Q5|exact Pe]]|]. split; [unfold HD; cbn [r_spans r_pos]; apply spanHas_iff; lia|intros E; discriminate E].
  Qed.
End Rdr.
