From Coq Require Import List ZArith Lia Bool.
Import ListNotations.
Require Import Base Tree Driver Inl3e Render EolCRDefs EolCR EolCRRenderDefs EolCRRenderRE EolCRRenderDoc EolCRRenderTree.
Require EolCRFull.
Open Scope Z_scope.

(* ====================================================================================================
   Property C14, first clause (CR line endings), on the rendered HTML, for every input and every cfg:
   for an input without CR, replacing every LF by CR changes the rendered HTML only in line-ending bytes
   it copies through:  RE a b = Forall2 (fun x y => y = x \/ (x = 10 /\ y = 13)) a b
   ("b is a, except that some LF of a are CR in b").  The LF bytes the renderer writes itself ("<br />\n",
   the blank line between blocks) are the same in both outputs; the bytes copied from the source (text, code,
   HTML blocks, raw inline HTML, soft breaks in the default mode softBreak c = 0, titles) carry the CR.
   Ingredients: EolCRFull.parseFull_cr (the trees after the inline pass are equal, only rb_src is mapped by cr),
   EolCRRenderTree.destOK (no line ending inside a link destination / autolink text: normalizeURI would encode
   LF as %0A and CR as %0D), PropsFull/C05Full.C05_full (the second entry of a definition block is its destination),
   EolCR.sim_allBlocks (the sources are crRel-related).
   ==================================================================================================== *)
Theorem renderDoc_cr : forall c s, ~ In 13 s -> RE (renderDoc c s) (renderDoc c (cr s)).
Proof. apply renderDoc_cr_of; [exact EolCRFull.parseFull_cr|exact destOK]. Qed.
Print Assumptions renderDoc_cr.

(* the statement unfolded, so that it can be read without EolCRRenderDefs *)
Theorem renderDoc_cr_unfolded : forall c s, ~ In 13 s ->
  Forall2 (fun x y => y = x \/ (x = 10 /\ y = 13)) (renderDoc c s) (renderDoc c (map (fun b => if b =? 10 then 13 else b) s)).
Proof. exact renderDoc_cr. Qed.
Print Assumptions renderDoc_cr_unfolded.

(* what the property test compares: after normalising line endings the outputs are equal -- for every cfg, in
   particular for the safe-mode configurations (ignoreRaw c = true, or filterOn c = true with any filterP) *)
Theorem renderDoc_cr_norm : forall c s, ~ In 13 s -> normEol (renderDoc c (cr s)) = normEol (renderDoc c s).
Proof. apply renderDoc_cr_norm_of. exact renderDoc_cr. Qed.
Print Assumptions renderDoc_cr_norm.
Corollary renderDoc_cr_safe : forall sb p s, ~ In 13 s ->
  let c := {| softBreak := sb; ignoreRaw := true; filterOn := true; filterP := p |} in
  normEol (renderDoc c (cr s)) = normEol (renderDoc c s).
Proof. intros sb p s Hs. apply renderDoc_cr_norm, Hs. Qed.
Print Assumptions renderDoc_cr_safe.

(* pointwise reading of RE: same length; at every position equal bytes, or LF (input side) against CR *)
Theorem renderDoc_cr_pointwise : forall c s, ~ In 13 s ->
  length (renderDoc c (cr s)) = length (renderDoc c s) /\
  forall n, nth n (renderDoc c (cr s)) 0 = nth n (renderDoc c s) 0 \/ (nth n (renderDoc c s) 0 = 10 /\ nth n (renderDoc c (cr s)) 0 = 13).
Proof.
  intros c s Hs. pose proof (renderDoc_cr c s Hs) as H. split; [apply RE_length, H|].
  intros n. destruct (RE_nth _ _ H n) as [E|E]; [left; exact E|right; exact E].
Qed.
Print Assumptions renderDoc_cr_pointwise.

(* explicit function form: the output for cr s is the output for s with LF replaced by CR at a set of positions
   (those where the two outputs differ); in the modes that copy no source line ending into the output nothing changes *)
Fixpoint crAt (mask : list bool) (l : bytes) : bytes :=
  match mask, l with m :: ms, x :: r => (if m && (x =? 10) then 13 else x) :: crAt ms r | _, _ => l end.
Lemma RE_crAt a b : RE a b -> b = crAt (map (fun xy => negb (fst xy =? snd xy)) (combine a b)) a.
Proof.
  induction 1 as [|x y a b Hxy H IH]; [reflexivity|]. cbn [combine map crAt fst snd]. rewrite <- IH. f_equal.
  destruct Hxy as [->|[-> ->]]; [rewrite Z.eqb_refl; reflexivity|reflexivity].
Qed.
Theorem renderDoc_cr_function : forall c s, ~ In 13 s ->
  exists mask, length mask = length (renderDoc c s) /\ renderDoc c (cr s) = crAt mask (renderDoc c s).
Proof.
  intros c s Hs. pose proof (renderDoc_cr c s Hs) as H.
  exists (map (fun xy => negb (fst xy =? snd xy)) (combine (renderDoc c s) (renderDoc c (cr s)))). split; [|apply RE_crAt, H].
  rewrite map_length, combine_length, (RE_length _ _ H). apply Nat.min_id.
Qed.
Print Assumptions renderDoc_cr_function.
