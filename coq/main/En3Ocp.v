From Coq Require Import List ZArith Lia Bool.
Import ListNotations.
Require Import Base Tables Utf8 Tree Rdr Link Collect Html Recog Inl3a Inl3b Inl3c Inl3d Inl3e LP Leaf3e.
Require Import ShapesBase EntBase EntOcpDefs.
Open Scope Z_scope.

(* ================================================================================================
   T46 (3), part: the link reference definition blocks that onCloseParagraph extracts from a paragraph whose entries have no
   children have label / destination / title entries whose children are leaves (collectTextNodes only produces fresh
   childless nodes and Indent entries of the paragraph).
   ================================================================================================ *)
Definition noKids (l : list inline) : Prop := forall x, In x l -> ikids x = [].
Lemma noKids_app a b : noKids a -> noKids b -> noKids (a ++ b).
Proof. intros Ha Hb x Hx. apply in_app_or in Hx. destruct Hx; [apply Ha|apply Hb]; assumption. Qed.
Lemma noKids_one k s e : noKids [mkI k s e].
Proof. intros x [<-|[]]. reflexivity. Qed.
Lemma noKids_sub a b : sublist a b -> noKids b -> noKids a.
Proof. intros H Hb x Hx. apply Hb, H, Hx. Qed.

Lemma collect_noKids tk esc : forall fuel r e ps acc,
  noKids (r_spans r) -> noKids acc -> noKids (fst (collect_loop fuel r e tk esc ps acc)).
Proof.
  induction fuel as [|f IH]; intros r e ps acc Hs Hacc; [exact Hacc|].
  cbn [collect_loop]. destruct (e <=? r_pos r); [exact Hacc|].
  pose proof (curNode_spans r) as Hc. pose proof (curNode_in r) as Hin.
  destruct (curNode r) as [cn r0]. cbn [fst snd] in Hc, Hin.
  assert (Hs0 : noKids (r_spans r0)) by (eapply noKids_sub; eassumption).
  assert (Hfl : forall (c : bool) a b, noKids (if c then acc ++ [mkI tk a b] else acc)).
  { intros c a b. destruct c; [apply noKids_app; [exact Hacc|apply noKids_one]|exact Hacc]. }
  (* the common tail *)
  assert (Htail : forall r' ps' acc', noKids (r_spans r') -> noKids acc' ->
            noKids (fst (if e <=? r_pos r' then (acc', ps') else
                         let '(ok, r1) := next r' in
                         if negb ok then (acc', ps') else
                         if jumped r1 then collect_loop f r1 e tk esc (r_pos r1) (if ps' <=? r_prev r1 then acc' ++ [mkI tk ps' (r_prev r1 + 1)] else acc')
                         else collect_loop f r1 e tk esc ps' acc'))).
  { intros r' ps' acc' Hr' Ha'. destruct (e <=? r_pos r'); [exact Ha'|].
    pose proof (next_spans r') as Hn. destruct (next r') as [ok r1]. cbn [snd] in Hn.
    destruct (negb ok); [exact Ha'|].
    assert (H1 : noKids (r_spans r1)) by (eapply noKids_sub; eassumption).
    destruct (jumped r1); [apply IH; [exact H1|]|apply IH; assumption].
    destruct (ps' <=? r_prev r1); [apply noKids_app; [exact Ha'|apply noKids_one]|exact Ha']. }
  destruct (okind cn =? IndentKind) eqn:Ek.
  - destruct cn as [node|]; [|cbn in Ek; discriminate].
    apply IH.
    + eapply noKids_sub; [apply skipSameNode_spans|exact Hs0].
    + apply noKids_app; [apply Hfl|]. intros x [<-|[]]. apply Hs, Hin. reflexivity.
  - destruct (esc && (okind cn =? UnparsedKind)); [|apply Htail; assumption].
    pose proof (current_spans r0) as Hcu. destruct (current r0) as [c r1]. cbn [snd] in Hcu.
    assert (H1 : noKids (r_spans r1)) by (eapply noKids_sub; eassumption).
    destruct (c =? 92).
    + pose proof (next_spans r1) as Hn. destruct (next r1) as [ok r2]. cbn [snd] in Hn.
      assert (H2 : noKids (r_spans r2)) by (eapply noKids_sub; eassumption).
      destruct (ok && (r_pos r2 <? e) && isASCIIPunctuation (cur r2)); apply Htail; try assumption. apply Hfl.
    + destruct (c =? 38); [|apply Htail; assumption].
      pose proof (remaining_spans r1) as Hrm. destruct (remainingNodeBytes r1) as [rem r2]. cbn [snd] in Hrm.
      assert (H2 : noKids (r_spans r2)) by (eapply noKids_sub; eassumption).
      destruct (0 <=? parseCharacterEscape rem); [|apply Htail; assumption].
      pose proof (nextN_spans (Z.to_nat (parseCharacterEscape rem - 1)) r2) as Hnn.
      pose proof (next_spans (nextN (Z.to_nat (parseCharacterEscape rem - 1)) r2)) as Hn.
      destruct (next (nextN (Z.to_nat (parseCharacterEscape rem - 1)) r2)) as [ok r4]. cbn [snd] in Hn.
      assert (Hacc2 : noKids ((if ps <? r_pos r2 then acc ++ [mkI tk ps (r_pos r2)] else acc) ++ [mkI CharacterReferenceKind (r_pos r2) (r_pos r2 + parseCharacterEscape rem)])).
      { apply noKids_app; [apply Hfl|apply noKids_one]. }
      destruct (negb ok); [exact Hacc2|]. apply IH; [|exact Hacc2].
      eapply noKids_sub; [exact Hn|]. eapply noKids_sub; eassumption.
Qed.

Lemma collectTextNodes_noKids fuel r e tk esc : noKids (r_spans r) -> noKids (collectTextNodes fuel r e tk esc).
Proof.
  intros Hs. unfold collectTextNodes.
  pose proof (collect_noKids tk esc fuel r e (r_pos r) [] Hs ltac:(intros x [])) as H.
  destruct (collect_loop fuel r e tk esc (r_pos r) []) as [acc ps]. cbn [fst] in H.
  destruct (ps <? e); [apply noKids_app; [exact H|apply noKids_one]|exact H].
Qed.

(* ---- the definition blocks of ocp_loop ---- *)
Definition kidsLeafI (u : inline) : Prop := forall k, In k (ikids u) -> ikids k = [].
Definition defsOK (l : list block) : Prop :=
  forall y, In y l -> bkind y = LinkReferenceDefinitionKind -> forall u, In u (bik y) -> kidsLeafI u.
Lemma defsOK_app a b : defsOK a -> defsOK b -> defsOK (a ++ b).
Proof. intros Ha Hb y Hy. apply in_app_or in Hy. destruct Hy; [apply Ha|apply Hb]; assumption. Qed.
Lemma defsOK_other y : bkind y <> LinkReferenceDefinitionKind -> defsOK [y].
Proof. intros N x [<-|[]] E. contradiction. Qed.
Lemma defsOK_nil : defsOK []. Proof. intros y []. Qed.
Lemma defsOK_refDef s e kids : (forall u, In u kids -> kidsLeafI u) -> defsOK [refDefBlock s e kids].
Proof. intros H y [<-|[]] _ u Hu. apply H, Hu. Qed.

Lemma from_sub {A} (l : list A) n : sublist (from_ l n) l.
Proof. unfold from_. apply sublist_skipn. Qed.

Lemma ocp_loop_defs : forall fuel rfuel src orig orphan r result,
  noKids (bik orig) -> bkind orig <> LinkReferenceDefinitionKind ->
  (forall o, orphan = Some o -> bkind o <> LinkReferenceDefinitionKind) -> defsOK result ->
  defsOK (ocp_loop fuel rfuel src orig orphan r result).
Proof.
  induction fuel as [|f IH]; intros rfuel src orig orphan r result Hik Hk Ho Hres.
  { cbn [ocp_loop]. apply defsOK_app; [exact Hres|apply defsOK_other, Hk]. }
  assert (Hexit : defsOK (result ++ [orig])) by (apply defsOK_app; [exact Hres|apply defsOK_other, Hk]).
  assert (Horph : forall res, defsOK res -> defsOK (match orphan with Some o => res ++ [o] | None => res end)).
  { intros res Hr. destruct orphan as [o|]; [|exact Hr]. apply defsOK_app; [exact Hr|apply defsOK_other, (Ho o eq_refl)]. }
  assert (Hctn : forall pos e esc, noKids (collectTextNodes rfuel (newReader src (bik orig) pos) e TextKind esc)).
  { intros pos e esc. apply collectTextNodes_noKids. cbn [newReader r_spans]. exact Hik. }
  cbn [ocp_loop]. cbv zeta.
  destruct (parseLinkLabel rfuel r) as [[lspan linner] r1].
  destruct (negb (spanValid lspan)); [exact Hexit|].
  destruct (current r1) as [c r2]. destruct (negb (c =? 58)); [exact Hexit|].
  destruct (next r2) as [ok3 r3]. destruct (skipLinkSpace rfuel r3) as [ok r4]. destruct (negb ok); [exact Hexit|].
  destruct (parseLinkDestination rfuel r4) as [[dspan dtext] r5]. destruct (negb (spanValid dspan)); [exact Hexit|].
  destruct (readEOL rfuel r5) as [destEOL r6]. destruct (current r6) as [c6 r7].
  destruct ((destEOL <? 0) && (r_pos r6 =? r_pos r5) && negb (c6 =? 0)); [exact Hexit|].
  set (labelInline := Inl LinkLabelKind (fst linner) (snd linner) 0 (transformLinkReferenceSpan rfuel src (bik orig) (fst linner) (snd linner))
                          (collectTextNodes rfuel (newReader src (bik orig) (fst linner)) (snd linner) TextKind false)).
  set (destInline := Inl LinkDestinationKind (fst dspan) (snd dspan) 0 [] (collectTextNodes rfuel (newReader src (bik orig) (fst dtext)) (snd dtext) TextKind true)).
  assert (HL : kidsLeafI labelInline) by (intros k Hk'; exact (Hctn _ _ _ k Hk')).
  assert (HD : kidsLeafI destInline) by (intros k Hk'; exact (Hctn _ _ _ k Hk')).
  assert (H2 : defsOK (result ++ [refDefBlock (fst lspan) destEOL [labelInline; destInline]])).
  { apply defsOK_app; [exact Hres|apply defsOK_refDef]. intros u [<-|[<-|[]]]; assumption. }
  assert (Hcut : forall pos (k : block -> list block),
            (forall o', noKids (bik o') -> bkind o' <> LinkReferenceDefinitionKind -> defsOK (k o')) ->
            defsOK (if nodeIndexForPosition (bik orig) pos <? 0
                    then match orphan with Some o => (result ++ [refDefBlock (fst lspan) destEOL [labelInline; destInline]]) ++ [o]
                                        | None => result ++ [refDefBlock (fst lspan) destEOL [labelInline; destInline]] end
                    else k (set_bik (set_bstart orig pos) (from_ (bik orig) (nodeIndexForPosition (bik orig) pos))))).
  { intros pos k Hk'. destruct (nodeIndexForPosition (bik orig) pos <? 0); [apply Horph, H2|]. apply Hk'.
    - destruct orig; cbn [set_bik set_bstart bik]. eapply noKids_sub; [apply from_sub|exact Hik].
    - destruct orig; exact Hk. }
  destruct (skipLinkSpace rfuel r7) as [ok2 r8]. destruct (negb ok2); [apply Horph, H2|].
  destruct (parseLinkTitle rfuel r8) as [[tspan ttext] r9].
  destruct (negb (spanValid tspan)).
  { destruct (destEOL <? 0); [exact Hexit|].
    apply (Hcut (r_pos r6) (fun orig' => ocp_loop f rfuel src orig' orphan r6 (result ++ [refDefBlock (fst lspan) destEOL [labelInline; destInline]]))).
    intros o' Ho1 Ho2. apply IH; assumption. }
  destruct (readEOL rfuel r9) as [titleEOL r10].
  destruct (titleEOL <? 0).
  { destruct (destEOL <? 0); [exact Hexit|].
    apply (Hcut (r_pos r6) (fun orig' => result ++ [refDefBlock (fst lspan) destEOL [labelInline; destInline]] ++ [orig'])). intros o' Ho1 Ho2.
    apply defsOK_app; [exact Hres|]. apply defsOK_app; [apply defsOK_refDef; intros u [<-|[<-|[]]]; assumption|apply defsOK_other, Ho2]. }
  set (titleInline := Inl LinkTitleKind (fst tspan) (snd tspan) 0 [] (collectTextNodes rfuel (newReader src (bik orig) (fst ttext)) (snd ttext) TextKind true)).
  assert (HT : kidsLeafI titleInline) by (intros k Hk'; exact (Hctn _ _ _ k Hk')).
  assert (H3 : defsOK (result ++ [refDefBlock (fst lspan) titleEOL [labelInline; destInline; titleInline]])).
  { apply defsOK_app; [exact Hres|apply defsOK_refDef]. intros u [<-|[<-|[<-|[]]]]; assumption. }
  destruct (nodeIndexForPosition (bik orig) (r_pos r10) <? 0); [apply Horph, H3|].
  apply IH; [|destruct orig; exact Hk|exact Ho|exact H3].
  destruct orig; cbn [set_bik set_bstart bik]. eapply noKids_sub; [apply from_sub|exact Hik].
Qed.

Theorem ocpRun_defs src orig : noKids (bik orig) -> bkind orig <> LinkReferenceDefinitionKind -> defsOK (ocpRun src orig).
Proof.
  intros Hik Hk. unfold ocpRun. destruct (bik orig) as [|first rest] eqn:E; [apply defsOK_other, Hk|].
  rewrite <- E. apply ocp_loop_defs; [rewrite E; exact Hik|exact Hk|intros o X; discriminate|apply defsOK_nil].
Qed.
Print Assumptions ocpRun_defs.
