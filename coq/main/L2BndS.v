From Coq Require Import List ZArith Lia Bool.
Import ListNotations.
Require Import Base Tree Rdr Link Collect Html Recog LP Rules Starts Driver Leaf3e RdrBound L2Kind L2Bnd Rec16 Rec17 Rec18.
Open Scope Z_scope.

(* ---- one line ---- *)
Theorem bnd_processLine H ns st children ls src : 0 <= H -> 0 <= ls -> ls + len (from_ src ls) = H -> len src <= H ->
  (ns = true -> hasByteSuffixEOL (from_ src ls) = true) ->
  bndL H ns children = true -> bndL H ns (fst (fst (processLine st children ls src))) = true.
Proof.
  intros H0 Hls Hhi Hsrc Hns Hc. unfold processLine. cbv zeta.
  assert (Hp0 : bndP H ns (resetLP st children ls src)).
  { unfold bndP, resetLP. cbn [root lineStart li line source].
    assert (Hlen : 0 <= len (from_ src ls)) by (unfold len; lia).
    refine (conj _ (conj Hls (conj (conj (Z.le_refl 0) Hlen) (conj Hhi (conj Hsrc Hns))))).
    cbn [bnd forallb]. change (-1 <? 0) with true. change (documentKind =? LinkReferenceDefinitionKind) with false. cbn [orb andb]. exact Hc. }
  pose proof (bndP_descend_loop H H0 ns (bheight (root (resetLP st children ls src))) _ O Hp0) as H1.
  fold (descendOpenBlocks (resetLP st children ls src)) in H1.
  destruct (descendOpenBlocks _) as [am p1]. cbn [snd] in H1.
  assert (H2 : bndP H ns (snd (if negb (state p1 =? stDescendTerminated) then openNewBlocks p1 am else (false, p1)))).
  { destruct (negb _); [apply bndP_openNewBlocks; assumption|assumption]. }
  destruct (if negb (state p1 =? stDescendTerminated) then openNewBlocks p1 am else (false, p1)) as [ht p2]. cbn [snd] in H2.
  cbn [fst].
  assert (H3 : bndP H ns (if ht then addLineText p2 else p2)) by (destruct ht; [apply bndP_addLineText|]; assumption).
  destruct H3 as (A & _). apply bnd_parts in A. tauto.
Qed.

(* ---- monotonicity and mode weakening ---- *)
Lemma entOK_mono H H' u : H <= H' -> entOK H true u = true -> entOK H' true u = true.
Proof.
  intros Hle. unfold entOK. destruct (ikind u =? SoftLineBreakKind); [cbn; rewrite !andb_false_r; discriminate|].
  rewrite !andb_true_r. rewrite !andb_true_iff, !Z.leb_le. lia.
Qed.
Lemma entOK_weaken H u : entOK H true u = true -> entOK H false u = true.
Proof. unfold entOK. destruct (ikind u =? SoftLineBreakKind); [cbn; rewrite !andb_false_r; discriminate|tauto]. Qed.
Lemma bnd_mono H H' : H <= H' -> forall b, bnd H true b = true -> bnd H' true b = true.
Proof.
  intros Hle. fix IH 1. intros [K s e bk ik a n c l lb] Hb. cbn [bnd] in *.
  apply andb_true_iff in Hb. destruct Hb as [Hb Hk]. apply andb_true_iff in Hb. destruct Hb as [He Hi].
  apply andb_true_iff. split; [apply andb_true_iff; split|].
  - apply orb_true_iff in He. apply orb_true_iff. destruct He as [He|He]; [left; exact He|right; apply Z.leb_le in He; apply Z.leb_le; lia].
  - destruct (K =? LinkReferenceDefinitionKind); [reflexivity|]. cbn [orb] in *. rewrite forallb_forall in *. intros u Hu. eapply entOK_mono; [exact Hle|apply Hi, Hu].
  - induction bk as [|x r IHr]; [reflexivity|]. cbn [forallb] in *. apply andb_true_iff in Hk. destruct Hk as [Hx Hr]. rewrite (IH x Hx). apply IHr, Hr.
Qed.
Lemma bnd_weaken H : forall b, bnd H true b = true -> bnd H false b = true.
Proof.
  fix IH 1. intros [K s e bk ik a n c l lb] Hb. cbn [bnd] in *.
  apply andb_true_iff in Hb. destruct Hb as [Hb Hk]. apply andb_true_iff in Hb. destruct Hb as [He Hi].
  rewrite He. cbn [andb]. apply andb_true_iff. split.
  - destruct (K =? LinkReferenceDefinitionKind); [reflexivity|]. cbn [orb] in *. rewrite forallb_forall in *. intros u Hu. apply entOK_weaken, Hi, Hu.
  - induction bk as [|x r IHr]; [reflexivity|]. cbn [forallb] in *. apply andb_true_iff in Hk. destruct Hk as [Hx Hr]. rewrite (IH x Hx). apply IHr, Hr.
Qed.
Lemma bndL_mono H H' l : H <= H' -> bndL H true l = true -> bndL H' true l = true.
Proof. intros Hle Hl. unfold bndL in *. rewrite forallb_forall in *. intros x Hx. eapply bnd_mono; [exact Hle|apply Hl, Hx]. Qed.
Lemma bndL_weaken H l : bndL H true l = true -> bndL H false l = true.
Proof. intros Hl. unfold bndL in *. rewrite forallb_forall in *. intros x Hx. apply bnd_weaken, Hl, Hx. Qed.

(* ---- offsetTree ---- *)
Lemma entOK_shift H ns n u : 0 <= n <= H -> entOK H ns u = true -> entOK (H - n) ns (shiftI (- n) u) = true.
Proof.
  intros Hn. destruct u as [k s e ind r ks]. unfold entOK. cbn [shiftI istart iend ikind].
  rewrite !andb_true_iff, !Z.leb_le. intros ((Hs & He) & Hsoft).
  destruct (Z.leb_spec 0 e) as [P|P].
  - repeat split; try lia. destruct (k =? SoftLineBreakKind); [|reflexivity].
    apply andb_true_iff in Hsoft. destruct Hsoft as [Hsoft Hm]. apply andb_true_iff in Hsoft. destruct Hsoft as [E1 E2].
    apply Z.eqb_eq in E1. apply Z.leb_le in E2. rewrite Hm, andb_true_r. apply andb_true_iff. split; [apply Z.eqb_eq; lia|apply Z.leb_le; lia].
  - repeat split; try lia. destruct (k =? SoftLineBreakKind); [|reflexivity].
    apply andb_true_iff in Hsoft. destruct Hsoft as [Hsoft Hm]. apply andb_true_iff in Hsoft. destruct Hsoft as [E1 E2]. apply Z.leb_le in E2. lia.
Qed.
Lemma bnd_shift H ns n : 0 <= n <= H -> forall b, bnd H ns b = true -> bnd (H - n) ns (shiftB (- n) b) = true.
Proof.
  intros Hn. fix IH 1. intros [K s e bk ik a nn c l lb] Hb. cbn [bnd shiftB] in *.
  apply andb_true_iff in Hb. destruct Hb as [Hb Hk]. apply andb_true_iff in Hb. destruct Hb as [He Hi].
  apply andb_true_iff. split; [apply andb_true_iff; split|].
  - destruct (Z.leb_spec 0 e) as [P|P].
    + apply orb_true_iff in He. destruct He as [He|He]; [apply Z.ltb_lt in He; lia|]. apply Z.leb_le in He.
      apply orb_true_iff. right. apply Z.leb_le. lia.
    + apply orb_true_iff. left. apply Z.ltb_lt. lia.
  - destruct (K =? LinkReferenceDefinitionKind); [reflexivity|]. cbn [orb] in *.
    rewrite forallb_forall in *. intros u Hu. apply in_map_iff in Hu. destruct Hu as (v & <- & Hv). apply entOK_shift; [exact Hn|apply Hi, Hv].
  - induction bk as [|x r IHr]; [reflexivity|]. cbn [map forallb] in *. apply andb_true_iff in Hk. destruct Hk as [Hx Hr]. rewrite (IH x Hx). apply IHr, Hr.
Qed.
Lemma bndL_shift H ns n l : 0 <= n <= H -> bndL H ns l = true -> bndL (H - n) ns (map (shiftB (- n)) l) = true.
Proof.
  intros Hn Hl. unfold bndL in *. rewrite forallb_forall in *. intros x Hx. apply in_map_iff in Hx. destruct Hx as (y & <- & Hy).
  apply bnd_shift; [exact Hn|apply Hl, Hy].
Qed.

(* ---- lines of the buffer ---- *)
Definition isEOLb (c : Z) : bool := (c =? 10) || (c =? 13).
Lemma findEol_spec : forall l i, 0 <= findEol l i -> 0 <= i ->
  i <= findEol l i < i + len l /\ isEOLb (at_ l (findEol l i - i)) = true.
Proof.
  induction l as [|b r IH]; intros i He Hi; [cbn in He; lia|]. cbn [findEol] in *. rewrite len_cons.
  destruct ((b =? 10) || (b =? 13)) eqn:Eb.
  - replace (i - i) with 0 by lia. rewrite at_cons0. pose proof (len_nonneg r). split; [lia|exact Eb].
  - destruct (IH (i + 1) He ltac:(lia)) as [A B]. split; [lia|].
    replace (findEol r (i + 1) - i) with ((findEol r (i + 1) - (i + 1)) + 1) by lia. rewrite at_consS by lia. exact B.
Qed.
Lemma len_upto (l : bytes) n : 0 <= n <= len l -> len (upto l n) = n.
Proof. intros Hn. apply (split_at l n Hn). Qed.

Lemma lineEnd_spec buf i : 0 <= i <= len buf ->
  i <= lineEnd buf i <= len buf /\
  (lineEnd buf i < len buf -> i < lineEnd buf i /\ isEOLb (at_ buf (lineEnd buf i - 1)) = true).
Proof.
  intros Hi. unfold lineEnd. cbv zeta.
  destruct (Z.ltb_spec (findEol (from_ buf i) i) 0) as [L|L]; [split; [lia|intros; lia]|].
  destruct (findEol_spec (from_ buf i) i L ltac:(lia)) as [A B]. rewrite len_from in A by lia.
  rewrite at_from in B by lia. replace (i + (findEol (from_ buf i) i - i)) with (findEol (from_ buf i) i) in B by lia.
  set (e := findEol (from_ buf i) i) in *.
  destruct (at_ buf e =? 10) eqn:E10.
  - split; [lia|]. intros _. split; [lia|]. replace (e + 1 - 1) with e by lia. exact B.
  - destruct (Z.ltb_spec (e + 1) (len buf)) as [L2|L2]; [|split; [lia|intros; lia]].
    destruct (at_ buf (e + 1) =? 10) eqn:E2.
    + split; [lia|]. intros _. split; [lia|]. replace (e + 2 - 1) with (e + 1) by lia. unfold isEOLb. rewrite E2. reflexivity.
    + split; [lia|]. intros _. split; [lia|]. replace (e + 1 - 1) with e by lia. exact B.
Qed.

Lemma hasEOL_last : forall l, 1 <= len l -> isEOLb (at_ l (len l - 1)) = true -> hasByteSuffixEOL l = true.
Proof.
  induction l as [|c r IH]; intros Hl He; [unfold len in Hl; cbn in Hl; lia|].
  destruct r as [|d r].
  - unfold len in He. cbn in He. cbn. exact He.
  - change (hasByteSuffixEOL (c :: d :: r)) with (hasByteSuffixEOL (d :: r)). apply IH.
    + rewrite len_cons. pose proof (len_nonneg r). lia.
    + rewrite len_cons in He. replace (len (d :: r) + 1 - 1) with ((len (d :: r) - 1) + 1) in He by lia.
      rewrite at_consS in He; [exact He|]. rewrite len_cons. pose proof (len_nonneg r). lia.
Qed.

Lemma line_of buf i r : 0 <= i -> i <= r <= len buf ->
  len (from_ (upto buf r) i) = r - i /\ (forall j, 0 <= j < r - i -> at_ (from_ (upto buf r) i) j = at_ buf (i + j)).
Proof.
  intros Hi Hr. pose proof (len_upto buf r ltac:(lia)) as Lu. split.
  - rewrite len_from by lia. lia.
  - intros j Hj. rewrite at_from by lia. apply at_upto; lia.
Qed.
Lemma line_hasEOL buf i : 0 <= i <= len buf -> lineEnd buf i < len buf ->
  hasByteSuffixEOL (from_ (upto buf (lineEnd buf i)) i) = true.
Proof.
  intros Hi Hlt. destruct (lineEnd_spec buf i Hi) as [A B]. destruct (B Hlt) as [C D].
  destruct (line_of buf i (lineEnd buf i) ltac:(lia) ltac:(lia)) as [Ll La].
  apply hasEOL_last; [lia|]. rewrite Ll. rewrite La by lia.
  replace (i + (lineEnd buf i - i - 1)) with (lineEnd buf i - 1) by lia. exact D.
Qed.

(* ---- the stream layer ---- *)
Definition SI (s : bpst) (ch : list block) (ns : bool) : Prop :=
  0 <= bi s <= len (buf s) /\ bndL (bi s) ns ch = true /\ (ns = false -> bi s = len (buf s)).
Definition okR (r : rootB) : Prop := exists H ns, 0 <= H /\ bnd H ns (rb_blk r) = true.
Definition okNB (x : nb) : Prop :=
  match x with NBBlock r s' => okR r /\ exists ns, SI s' (pending s') ns | _ => True end.

Lemma bnd_end H ns b : bnd H ns b = true -> bend b < 0 \/ bend b <= H.
Proof.
  intros Hb. apply bnd_parts in Hb. destruct Hb as [Hb _]. unfold loc in Hb. apply andb_true_iff in Hb. destruct Hb as [Hb _].
  apply orb_true_iff in Hb. destruct Hb as [Hb|Hb]; [left; apply Z.ltb_lt, Hb|right; apply Z.leb_le, Hb].
Qed.

Lemma SI_makeRoot s children ns r s' : SI s children ns -> makeRoot children s = Some (r, s') ->
  okR r /\ SI s' (pending s') ns.
Proof.
  intros (Hb & Hc & Hn) Hm. unfold makeRoot in Hm. destruct children as [|b rest]; [discriminate|].
  destruct (isOpen b) eqn:Eo; [discriminate|]. inversion Hm; subst. clear Hm.
  unfold isOpen in Eo. apply Z.ltb_ge in Eo.
  unfold bndL in Hc. cbn [forallb] in Hc. apply andb_true_iff in Hc. destruct Hc as [Hb1 Hr].
  destruct (bnd_end _ _ _ Hb1) as [E|E]; [lia|].
  split.
  - exists (bi s), ns. cbn [rb_blk]. split; [lia|exact Hb1].
  - unfold SI. cbn [buf bi pending]. rewrite len_from by lia. repeat split; try lia.
    + apply bndL_shift; [lia|exact Hr].
    + intros En. rewrite (Hn En). reflexivity.
Qed.

Lemma SI_lineLoop : forall fuel st children ls s ns, 0 <= ls <= len (buf s) -> bi s = lineEnd (buf s) ls ->
  bndL ls ns children = true -> (ns = false -> ls = len (buf s)) -> okNB (lineLoop fuel st children ls s).
Proof.
  induction fuel as [|f IH]; intros st children ls s ns Hls Hbi Hc Hn; [exact I|]. cbn [lineLoop].
  destruct (lineEnd_spec (buf s) ls Hls) as [A B]. rewrite <- Hbi in A, B.
  set (ln := from_ (upto (buf s) (bi s)) ls).
  destruct (line_of (buf s) ls (bi s) ltac:(lia) ltac:(lia)) as [Ll _]. fold ln in Ll.
  set (ns' := if ns then hasByteSuffixEOL ln else false).
  assert (Hc' : bndL (bi s) ns' children = true).
  { unfold ns'. destruct ns.
    - pose proof (bndL_mono ls (bi s) children ltac:(lia) Hc) as Hm. destruct (hasByteSuffixEOL ln); [exact Hm|apply bndL_weaken, Hm].
    - rewrite (Hn eq_refl) in *. replace (bi s) with (len (buf s)) by lia. exact Hc. }
  assert (Hn' : ns' = false -> bi s = len (buf s)).
  { unfold ns'. destruct ns; [|intros _; rewrite (Hn eq_refl) in *; lia].
    intros Ee. destruct (Z.lt_ge_cases (bi s) (len (buf s))) as [Lt|Ge]; [|lia].
    exfalso. rewrite Hbi in Lt. pose proof (line_hasEOL (buf s) ls Hls Lt) as Hh. rewrite <- Hbi in Hh. fold ln in Hh. congruence. }
  pose proof (bnd_processLine (bi s) ns' st children ls (upto (buf s) (bi s)) ltac:(lia) ltac:(lia) ltac:(fold ln; lia)
                ltac:(rewrite len_upto by lia; lia) ltac:(unfold ns'; fold ln; destruct ns; [tauto|discriminate]) Hc') as H1.
  destruct (processLine st children ls (upto (buf s) (bi s))) as [[children' st'] pn]. cbn [fst] in H1.
  destruct (negb (pn =? 0)); [exact I|].
  assert (HS : SI s children' ns') by (repeat split; try lia; assumption).
  destruct (makeRoot children' s) as [[r s']|] eqn:Em.
  - cbn [okNB]. destruct (SI_makeRoot _ _ _ _ _ HS Em) as [Hr Hs']. split; [exact Hr|eauto].
  - apply (IH st' children' (bi s) _ ns'); cbn [buf bi]; try assumption; try lia; reflexivity.
Qed.

Lemma SI_skipLoop : forall fuel s, bi s = 0 -> okNB (skipLoop fuel s).
Proof.
  induction fuel as [|f IH]; intros s Hb; [exact I|]. cbn [skipLoop]. cbv zeta.
  destruct (negb _); [exact I|]. destruct (isBlankLine _); [apply IH; reflexivity|].
  apply (SI_lineLoop f 0 [] 0 _ true); cbn [buf bi]; [pose proof (len_nonneg (buf s)); lia|rewrite Hb; reflexivity|reflexivity|discriminate].
Qed.

Lemma SI_nextBlock fuel s ns : SI s (pending s) ns -> okNB (nextBlock fuel s).
Proof.
  intros HS. unfold nextBlock. destruct (makeRoot (pending s) s) as [[r s']|] eqn:Em.
  - cbn [okNB]. destruct (SI_makeRoot _ _ _ _ _ HS Em) as [Hr Hs']. split; [exact Hr|eauto].
  - destruct HS as (Hb & Hc & Hn). destruct (pending s) as [|b0 rest] eqn:Ep; [apply SI_skipLoop; reflexivity|].
    apply (SI_lineLoop fuel 0 (b0 :: rest) (bi s) _ ns); cbn [buf bi]; try assumption; try lia; reflexivity.
Qed.

Lemma SI_allBlocks : forall fuel s acc ns, SI s (pending s) ns -> Forall okR acc -> Forall okR (fst (allBlocks fuel s acc)).
Proof.
  induction fuel as [|f IH]; intros s acc ns HS Ha; [exact Ha|]. cbn [allBlocks].
  pose proof (SI_nextBlock (3 + length (buf s)) s ns HS) as Hn.
  destruct (nextBlock _ s) as [r s'| | |]; try exact Ha.
  destruct Hn as [Hr (ns' & Hs')]. apply (IH s' _ ns'); [exact Hs'|]. apply Forall_app. split; [exact Ha|]. constructor; [exact Hr|constructor].
Qed.

(* every root block the block layer returns satisfies the bounds for some line end H *)
Theorem parseBlocks_bounds input : Forall okR (fst (parseBlocks input)).
Proof.
  unfold parseBlocks. apply (SI_allBlocks _ _ _ true); [|constructor].
  unfold SI. cbn [buf bi pending]. pose proof (len_nonneg (pad input)). repeat split; try lia.
Qed.
Print Assumptions parseBlocks_bounds.
