(* QS2Flag.v -- T58b: the lastLineBlank flag of the last top-level child after one call of processLine.

   processLine_gap_flag_line (QS2FlagE)  a line of the document (from_ src ls <> []): no hypothesis beyond 0 <= ls, ccF ks and
                                         st = stDescendTerminated -> HM ks.
   processLine_gap_flag_eof  (QS2FlagG)  the end of input (from_ src ls = []): needs, besides la / GoodL, that the last child is open
                                         (lastOpen) and the run invariant TopPara (the last entry of a top-level open paragraph is the
                                         text of the previous line).  Without such an invariant the claim is false at the end of input:
                                         see gap_flag_eof_needs_invariant below.
   processLine_gap_flag                  both cases in one statement.
   TopPara is an invariant of the plain run:
     TopPara_nil (QS2FlagG), TopPara_processLine (QS2FlagL), TopPara_next_line / TopPara_makeRoot (QS2FlagM), TopPara_step (here);
     lastOpen_makeRoot_None (here) gives lastOpen for the recursive call of lineLoop. *)
From Coq Require Import List ZArith Lia Bool.
Import ListNotations.
Require Import Base Tree LP Driver L2CC TDefs TDesc LADef LA11 QS2FlagA QS2FlagE QS2FlagG QS2FlagL QS2FlagM.
Open Scope Z_scope.

Theorem processLine_gap_flag st ks ls src :
  0 <= ls <= len src -> ccF ks = true -> (st = stDescendTerminated -> HM ks) ->
  (from_ src ls = [] -> lastOpen ks /\ GoodL 0 ks /\ la src ls (docRoot ks) /\ TopPara src ls ks) ->
  forall pre b, fst (fst (processLine st ks ls src)) = pre ++ [b] -> isOpen b = false -> bend b < ls + len (from_ src ls) ->
  blastOf b = true.
Proof.
  intros Hls Hcc Hst Heof pre b Ek Ho Hb.
  destruct (from_ src ls) as [|x l] eqn:El.
  - destruct (Heof eq_refl) as (A & B & C & D).
    apply (processLine_gap_flag_eof st ks ls src El Hls Hst A B C D pre b Ek Ho). rewrite El. exact Hb.
  - apply (processLine_gap_flag_line st ks ls src ltac:(lia) Hcc Hst ltac:(rewrite El; discriminate) pre b Ek Ho). rewrite El. exact Hb.
Qed.
Print Assumptions processLine_gap_flag.

(* ---- threading the two extra hypotheses through lineLoop ---- *)
(* the recursive call of lineLoop happens when makeRoot returns None *)
Lemma lastOpen_makeRoot_None ks s : GoodL 0 ks -> makeRoot ks s = None -> lastOpen ks.
Proof.
  intros HG Hm pre c E. unfold makeRoot in Hm. destruct ks as [|b rest]; [destruct pre; discriminate|].
  destruct (isOpen b) eqn:Eo; [|discriminate]. cbn [GoodL] in HG. rewrite Eo in HG. destruct HG as [-> _].
  destruct pre as [|x pre]; [inversion E; subst; exact Eo|]. inversion E as [[E1 E2]]. destruct pre; discriminate.
Qed.
Lemma lastOpen_nil : lastOpen []. Proof. intros pre c E. destruct pre; discriminate. Qed.
Lemma lastOpen_one c : isOpen c = true -> lastOpen [c].
Proof. intros Ho pre c' E. destruct pre as [|x pre]; [inversion E; subst; exact Ho|]. inversion E as [[E1 E2]]. destruct pre; discriminate. Qed.

(* after the end-of-input line every block is closed: TopPara holds trivially (for TopPara_makeRoot) *)
Lemma TopPara_lastClosed src M ks : (forall pre c, ks = pre ++ [c] -> isOpen c = false) -> TopPara src M ks.
Proof. intros H pre0 c E Ho. rewrite (H pre0 c E) in Ho. discriminate. Qed.

(* one iteration of lineLoop on a line of the document: the invariant for the next iteration (source extended by the next line) *)
Theorem TopPara_step st ks ls (b : bytes) bi bi' :
  0 <= ls -> ccF ks = true -> GoodL 0 ks -> (st = stDescendTerminated -> HM ks) ->
  from_ (upto b bi) ls <> [] -> ls + len (from_ (upto b bi) ls) = bi -> bi <= bi' ->
  TopPara (upto b bi') bi (fst (fst (processLine st ks ls (upto b bi)))).
Proof.
  intros Hls Hcc HG Hst Hne Hll Hbi. apply (TopPara_next_line b bi bi' _ Hbi). rewrite <- Hll at 2.
  apply TopPara_processLine; try assumption. eapply GoodL_noOpenSetext; exact HG.
Qed.
Print Assumptions TopPara_step.
