From Coq Require Import List ZArith Lia Bool String Ascii.
Import ListNotations.
Require Import Base Tables Utf8 Tree Recog Inl3b Driver Inl3e Render Safe MainTok C17bytes C17chk.
Open Scope Z_scope.
Fixpoint bs (s : string) : bytes := match s with EmptyString => [] | String a r => Z.of_nat (nat_of_ascii a) :: bs r end.
Definition c0 : cfg := {| softBreak := 0; ignoreRaw := false; filterOn := true; filterP := fun n => Utf8.bytes_eqb n (bs "script") |}.
Definition nl := [10].
Definition tests : list bytes := [
  bs "<scr"; bs "> <scr"; bs "- <scr"; bs "<a" ++ nl ++ bs "href='x'>"; bs "> <a" ++ nl ++ bs "> href='x'>";
  bs "- <!-- x -->" ++ nl ++ bs "  abc"; bs "- <!-- x -->" ++ [13] ++ bs "  abc";
  bs "<div>" ++ [0] ++ nl ++ bs "abc" ++ [0]; [0;0;60;97;0;10;98;0]; bs "<a" ++ [0] ++ nl ++ [0] ++ bs "b>";
  bs "x <a title=""x<b" ++ nl ++ bs "y""> z"; bs "- x <a title=""x<b" ++ nl ++ [9] ++ bs "y""> z";
  bs "<pre>" ++ nl ++ nl ++ bs "  " ; bs "- <pre>" ++ nl ++ bs "  " ++ nl ++ bs "  ";  bs "- <pre>" ++ nl ++ nl ++ bs "  ";
  bs "![a &lt; b <b" ++ nl ++ bs "c> d](x)"; bs "&lt;" ++ nl ++ bs "a"; bs "a&#60;" ++ nl ++ bs "b";
  bs "<div" ++ [13] ++ bs "a"; bs "<div" ++ [13;10] ++ bs "a" ++ [13]; bs "<?php" ++ nl ++ bs "a?>b" ++ nl ++ bs "c";
  bs "- <?php ?>" ++ nl ++ bs "c"; bs "1. <x" ++ nl ++ bs "   y" ++ nl ++ nl ++ bs "   z";
  bs "<!-- a" ++ nl ++ [9] ++ bs "b -->c"; bs "- <div>" ++ nl ++ [9] ++ bs "<b";
  bs "`a" ++ nl ++ bs "b` <i" ++ nl ++ bs " j>"
].
Eval vm_compute in map (chkDoc c0) tests.
Eval vm_compute in map (fun t => snd (parseFull t)) tests.
