From Coq Require Import List ZArith Lia Bool.
Import ListNotations.
Require Import Base Tables Utf8 Tree Rdr Link Collect LP ShapesBase ShapesR IFBase IFLink IFCollect EolCRLFDefs EolCRLFSimBytes EolCRLFSimStream
  EolGenCrlfRdrDefs EolGenCrlfRdrStep EolGenCrlfRdrNext EolGenCrlfRdrLink EolGenCrlfRdrLink2 EolGenCrlfRdrLink3
  EolGenCrlfRdrColl EolGenCrlfRdrColl2 EolGenCrlfRdrTlr EolGenCrlfRdrOcp.
Open Scope Z_scope.

Lemma bik_set_bik b l : bik (set_bik b l) = l. Proof. destruct b; reflexivity. Qed.
Lemma bik_set_bstart b p : bik (set_bstart b p) = bik b. Proof. destruct b; reflexivity. Qed.
Lemma sufx_from {A} (l : list A) k : sufx l (from_ l k).
Proof. exists (firstn (Z.to_nat k) l). unfold from_. symmetry. apply firstn_skipn. Qed.

Section OcpSim2.
  Variable R : bytes.
  Variable Eb : Z.
  Hypothesis R13 : ~ In 13 R.
  Notation P := (phiP R).
  Notation R' := (crlf R).
  Notation F := (phiI R).
  Notation B := (phiB R).
  Notation RR := (RR R Eb).
  Notation SPI := (SPI R Eb).
  Notation mapS := (mapS R).

  Lemma SPI_from ik k : SPI ik -> SPI (from_ ik k).
  Proof. intros H. destruct (sufx_from ik k) as (p & E). rewrite E in H. apply (SPI_app_r R Eb) in H. exact H. Qed.
  Lemma endOf_from ik k : (ik = [] \/ endOf ik = Eb) -> (from_ ik k = [] \/ endOf (from_ ik k) = Eb).
  Proof.
    intros H. destruct (from_ ik k) eqn:E; [left; reflexivity|right]. rewrite <- E.
    destruct H as [->|H]; [unfold from_ in E; rewrite skipn_nil in E; discriminate E|].
    rewrite (endOf_sufx ik (from_ ik k) (sufx_from ik k)); [exact H|rewrite E; discriminate].
  Qed.

  Lemma ocpCut_sim orig orphan res1 pos k k' :
    (forall fc, k' (set_bik (set_bstart (B orig) (P pos)) (map F (from_ (bik orig) fc))) = map B (k (set_bik (set_bstart orig pos) (from_ (bik orig) fc)))) ->
    ocpCut (B orig) (option_map B orphan) (map B res1) (P pos) k' = map B (ocpCut orig orphan res1 pos k).
  Proof.
    intros Hk. unfold ocpCut. cbv zeta. rewrite bik_phiB, nifp_F. destruct (_ <? 0); [apply withOrph_map|]. rewrite from_map. apply Hk.
  Qed.

  Lemma ocp_loop_sim : forall fuel rf rf' orig orphan r r' result,
    RR r r' -> SPI (bik orig) -> (bik orig = [] \/ endOf (bik orig) = Eb) -> -1 <= Eb ->
    len R + ibudget (bik orig) < Z.of_nat rf -> len R' + ibudget (bik orig) < Z.of_nat rf' ->
    nu R r < Z.of_nat rf -> nu R' r' < Z.of_nat rf' -> nu R r < 999 -> nu R' r' < 999 ->
    ocp_loop fuel rf' R' (B orig) (option_map B orphan) r' (map B result) = map B (ocp_loop fuel rf R orig orphan r result).
  Proof.
    induction fuel as [|fuel IH]; intros rf rf' orig orphan r r' result H G HE HEb Hf Hf' Hn Hn' Hb Hb'.
    { cbn [ocp_loop]. rewrite map_app. reflexivity. }
    rewrite !ocp_loop_S.
    assert (Base : map B result ++ [B orig] = map B (result ++ [orig])) by (rewrite map_app; reflexivity).
    destruct (RR_PL R Eb _ _ H) as [Q Q'].
    (* the label *)
    pose proof (parseLinkLabel_sim R Eb R13 rf rf' r r' H Hn Hn' Hb Hb') as (L1 & L2 & H1).
    pose proof (parseLinkLabel_bound R Eb rf r (RR_SPI R Eb _ _ H) HEb) as Lb.
    destruct (parseLinkLabel_prog R rf r Q) as (_ & _ & M1 & _). destruct (parseLinkLabel_prog R' rf' r' Q') as (_ & _ & M1' & _).
    destruct (parseLinkLabel rf r) as [[lspan linner] r1]. destruct (parseLinkLabel rf' r') as [[lspan' linner'] r1'].
    cbn [fst snd] in L1, L2, H1, Lb, M1, M1'. subst lspan' linner'.
    rewrite spanValid_mapS. destruct (negb (spanValid lspan)); [exact Base|].
    (* the colon *)
    destruct (current r1) as [c r2] eqn:Ec. destruct (current r1') as [c' r2'] eqn:Ec'.
    destruct (currentE_RR R Eb R13 _ _ _ _ _ _ H1 Ec Ec') as (-> & H2 & Hc2 & N2 & N2' & _).
    rewrite m13_eqb by discriminate. destruct (Z.eqb_spec c 58) as [->|N58]; cbn [negb]; [|exact Base].
    destruct (next r2) as [ok3 r3] eqn:En. destruct (next r2') as [ok3' r3'] eqn:En'.
    destruct (nextE_RR R Eb _ _ _ _ _ _ H2 ltac:(rewrite Hc2; discriminate) En En') as (_ & H3 & _ & [U3 _] & [U3' _]).
    (* white space *)
    destruct (RR_PL R Eb _ _ H3) as [Q3 Q3'].
    destruct (skipLinkSpace_sim R Eb R13 rf rf' r3 r3' H3 ltac:(lia) ltac:(lia)) as [Eo H4].
    destruct (skipLinkSpace_prog R rf r3 Q3) as (_ & _ & M4 & _). destruct (skipLinkSpace_prog R' rf' r3' Q3') as (_ & _ & M4' & _).
    destruct (skipLinkSpace rf r3) as [ok r4]. destruct (skipLinkSpace rf' r3') as [ok' r4']. cbn [fst snd] in Eo, H4, M4, M4'. subst ok'.
    destruct (negb ok); [exact Base|].
    (* the destination *)
    destruct (RR_PL R Eb _ _ H4) as [Q4 Q4'].
    pose proof (parseLinkDestination_sim R Eb R13 rf rf' r4 r4' H4 ltac:(lia) ltac:(lia)) as (D1 & D2 & H5).
    destruct (parseLinkDestination_prog R rf r4 Q4) as (_ & _ & M5 & _). destruct (parseLinkDestination_prog R' rf' r4' Q4') as (_ & _ & M5' & _).
    destruct (parseLinkDestination rf r4) as [[dspan dtext] r5]. destruct (parseLinkDestination rf' r4') as [[dspan' dtext'] r5'].
    cbn [fst snd] in D1, D2, H5, M5, M5'. subst dspan' dtext'.
    rewrite spanValid_mapS. destruct (negb (spanValid dspan)); [exact Base|].
    (* the end of the destination line *)
    destruct (RR_PL R Eb _ _ H5) as [Q5 Q5'].
    destruct (readEOL_sim R Eb R13 rf rf' r5 r5' H5 ltac:(lia) ltac:(lia)) as [Ee H6].
    destruct (readEOL_prog R rf r5 Q5) as (_ & _ & M6 & _). destruct (readEOL_prog R' rf' r5' Q5') as (_ & _ & M6' & _).
    destruct (readEOL rf r5) as [destEOL r6]. destruct (readEOL rf' r5') as [destEOL' r6']. cbn [fst snd] in Ee, H6, M6, M6'. subst destEOL'.
    destruct (current r6) as [c6 r7] eqn:Ec6. destruct (current r6') as [c6' r7'] eqn:Ec6'.
    destruct (currentE_RR R Eb R13 _ _ _ _ _ _ H6 Ec6 Ec6') as (-> & H7 & _ & N7 & N7' & _).
    rewrite phiP_sign, (RR_pos R Eb _ _ H6), (RR_pos R Eb _ _ H5), P_eqb, m13_eqb by discriminate.
    destruct ((destEOL <? 0) && (r_pos r6 =? r_pos r5) && negb (c6 =? 0)); [exact Base|].
    cbv zeta. rewrite bik_phiB.
    assert (HBl : bik orig = [] \/ snd linner <= endOf (bik orig)) by (destruct HE as [HE|HE]; [left; exact HE|right; rewrite HE; exact Lb]).
    rewrite (label_sim R Eb R13 rf rf' (bik orig) linner G Hf Hf' HBl).
    rewrite !(part_sim R Eb R13 _ rf rf' (bik orig) _ _ G Hf Hf').
    set (lab := ocpLabel rf R (bik orig) linner). set (dst := ocpPart LinkDestinationKind rf R (bik orig) dspan dtext).
    change (fst (mapS lspan)) with (P (fst lspan)).
    assert (Res1 : map B result ++ [refDefBlock (P (fst lspan)) (P destEOL) [F lab; F dst]] = map B (result ++ [refDefBlock (fst lspan) destEOL [lab; dst]]))
      by (rewrite map_app; reflexivity).
    rewrite !Res1. set (res1 := result ++ [refDefBlock (fst lspan) destEOL [lab; dst]]).
    (* white space before the title *)
    destruct (RR_PL R Eb _ _ H7) as [Q7 Q7'].
    destruct (skipLinkSpace_sim R Eb R13 rf rf' r7 r7' H7 ltac:(lia) ltac:(lia)) as [Eo2 H8].
    destruct (skipLinkSpace_prog R rf r7 Q7) as (_ & _ & M8 & _). destruct (skipLinkSpace_prog R' rf' r7' Q7') as (_ & _ & M8' & _).
    destruct (skipLinkSpace rf r7) as [ok2 r8]. destruct (skipLinkSpace rf' r7') as [ok2' r8']. cbn [fst snd] in Eo2, H8, M8, M8'. subst ok2'.
    destruct (negb ok2); [apply withOrph_map|].
    (* the title *)
    destruct (RR_PL R Eb _ _ H8) as [Q8 Q8'].
    pose proof (parseLinkTitle_sim R Eb R13 rf rf' r8 r8' H8 ltac:(lia) ltac:(lia)) as (T1 & T2 & H9).
    destruct (parseLinkTitle_prog R rf r8 Q8) as (_ & _ & M9 & _). destruct (parseLinkTitle_prog R' rf' r8' Q8') as (_ & _ & M9' & _).
    destruct (parseLinkTitle rf r8) as [[tspan ttext] r9]. destruct (parseLinkTitle rf' r8') as [[tspan' ttext'] r9'].
    cbn [fst snd] in T1, T2, H9, M9, M9'. subst tspan' ttext'.
    rewrite spanValid_mapS.
    (* the recursive calls *)
    assert (Rec : forall x x' rs pos fc, RR x x' -> nu R x <= nu R r -> nu R' x' <= nu R' r' ->
       ocp_loop fuel rf' R' (set_bik (set_bstart (B orig) (P pos)) (map F (from_ (bik orig) fc))) (option_map B orphan) x' (map B rs) =
       map B (ocp_loop fuel rf R (set_bik (set_bstart orig pos) (from_ (bik orig) fc)) orphan x rs)).
    { intros x x' rs pos fc Hx Lx Lx'. rewrite <- phiB_set_bstart, <- phiB_set_bik.
      pose proof (ibudget_skipn (Z.to_nat fc) (bik orig)) as Hbud. fold (from_ (bik orig) fc) in Hbud.
      apply IH; try assumption; rewrite ?bik_set_bik; [apply SPI_from, G|apply endOf_from, HE|lia|lia|lia|lia|lia|lia]. }
    destruct (negb (spanValid tspan)).
    - destruct (destEOL <? 0); [exact Base|]. apply ocpCut_sim. intros fc. apply Rec; [exact H6|lia|lia].
    - destruct (RR_PL R Eb _ _ H9) as [Q9 Q9'].
      destruct (readEOL_sim R Eb R13 rf rf' r9 r9' H9 ltac:(lia) ltac:(lia)) as [Et H10].
      destruct (readEOL_prog R rf r9 Q9) as (_ & _ & M10 & _). destruct (readEOL_prog R' rf' r9' Q9') as (_ & _ & M10' & _).
      destruct (readEOL rf r9) as [titleEOL r10]. destruct (readEOL rf' r9') as [titleEOL' r10']. cbn [fst snd] in Et, H10, M10, M10'. subst titleEOL'.
      rewrite phiP_sign. destruct (titleEOL <? 0).
      + destruct (destEOL <? 0); [exact Base|]. apply ocpCut_sim. intros fc.
        rewrite <- phiB_set_bstart, <- phiB_set_bik, !map_app. reflexivity.
      + rewrite (RR_pos R Eb _ _ H10), (nifp_F R), (part_sim R Eb R13 LinkTitleKind rf rf' (bik orig) tspan ttext G Hf Hf').
        set (ttl := ocpPart LinkTitleKind rf R (bik orig) tspan ttext).
        assert (Res2 : map B result ++ [refDefBlock (P (fst lspan)) (P titleEOL) [F lab; F dst; F ttl]] =
                       map B (result ++ [refDefBlock (fst lspan) titleEOL [lab; dst; ttl]])) by (rewrite map_app; reflexivity).
        rewrite !Res2. destruct (_ <? 0); [apply withOrph_map|]. rewrite from_map. apply Rec; [exact H10|lia|lia].
  Qed.
End OcpSim2.
