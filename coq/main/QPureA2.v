From Coq Require Import List ZArith Lia Bool.
Import ListNotations.
Require Import Base Tree Rdr Link Collect Html Recog LP Rules Starts Driver Rec16 Rec17 Rec18 Cursor CursorX RecBounds NoPanic12 L2Kind2 QPure1 QPure2 QPureA1.
Open Scope Z_scope.

(* T64-pure, second goal, part 2: block starts, addLineText, processLine.  `G` is NoPanic12.G (cursor invariant),
   `J` / `JU` are the invariants of QPureA1.v. *)

(* ---- inside startATX: the container is the fresh ATX heading block X ---- *)
Definition cblk (d : nat) (p : lp) (X : block) : Prop := forall b, getAt (S d) (root p) = Some b -> b = X.

Lemma JU_updCont_blk d p g X : JU d p -> cblk d p X -> atT (g X) = true -> JU d (updCont p g) /\ cblk d (updCont p g) (g X).
Proof.
  intros (E & H & Hs) Hb Hg.
  assert (Ec : cdepth (updCont p g) = S d) by exact E.
  assert (Er : root (updCont p g) = updAt (S d) g (root p)) by (unfold updCont; cbn [root withRoot setLP]; rewrite E; reflexivity).
  unfold JU, cblk. rewrite Ec, Er.
  split; [split; [reflexivity|split]|].
  - apply atT_updAt_at; [exact H|]. intros x Hx _. rewrite (Hb x Hx). exact Hg.
  - apply spineNA_updAt_lt; [lia|exact Hs].
  - intros b Hg2. rewrite getAt_updAt_same in Hg2. destruct (getAt (S d) (root p)) as [x|] eqn:Ex; [|discriminate].
    cbn in Hg2. injection Hg2 as <-. rewrite (Hb x Ex). reflexivity.
Qed.
Lemma cblk_same d p p' X : same_tree p p' -> cblk d p X -> cblk d p' X.
Proof. intros [E _]. unfold cblk. rewrite E. tauto. Qed.

(* collectInline at a position without indentation adds exactly one entry *)
Lemma JU_collectInline_flat d p kind n X : indent p <= 0 -> JU d p -> cblk d p X ->
  (forall u, atT (set_bik X (bik X ++ [u])) = true) -> JU d (collectInline p kind n).
Proof.
  intros Hz HU Hb HX. unfold collectInline. destruct (_ =? stDescendTerminated); [exact HU|]. cbv zeta.
  set (p0 := if state p =? stOpening then withState p stOpenMatched else p).
  assert (I0 : indent p0 = indent p) by apply indent_opened.
  replace (0 <? indent p0) with false by (symmetry; apply Z.ltb_ge; lia).
  assert (HU1 : JU d (advance p0 n)) by (eapply JU_same; [eapply same_trans; [apply same_opened|apply same_advance]|exact HU]).
  assert (Hb1 : cblk d (advance p0 n) X) by (eapply cblk_same; [eapply same_trans; [apply same_opened|apply same_advance]|exact Hb]).
  apply (JU_updCont_blk d _ _ X HU1 Hb1). apply HX.
Qed.

(* ---- block starts ---- *)
Ltac jkeep := first [intros ?b; rewrite ?atT_set_bn, ?atT_set_bchar, ?atT_set_bindent; reflexivity | intros ?b; destruct b; reflexivity].
Ltac jchain H :=
  repeat match goal with
  | |- J (consumeLine _) => apply J_consumeLine
  | |- J (endBlock _) => apply J_endBlock
  | |- J (advance _ _) => apply J_advance
  | |- J (consumeIndent _ _) => apply J_consumeIndent
  | |- J (collectInline _ _ _) => apply J_collectInline
  | |- J (openBlock _ _) => apply J_openBlock; [discriminate|]
  | |- J (updCont _ _) => apply J_updCont_keep; [|intros ?; rewrite ?atT_set_bn, ?atT_set_bchar, ?atT_set_bindent; reflexivity|intros x; destruct x; reflexivity]
  end;
  try exact H.

Lemma J_startBlockQuote p : J p -> J (startBlockQuote p).
Proof. intros H. unfold startBlockQuote. cbv zeta. destruct (_ <=? _); [assumption|]. destruct (negb _); [assumption|].
       destruct (0 <? _); jchain H. Qed.

Lemma J_startATX p : st_open p -> G p -> J p -> J (startATX p).
Proof.
  intros Hs HG H. unfold startATX. cbv zeta. destruct (_ <=? _); [assumption|].
  destruct (parseATXHeading (bytesAfterIndent p)) as [[level cs] ce] eqn:Ea. destruct (Z.ltb_spec level 1) as [|Lv]; [assumption|].
  destruct (atx_start _ _ _ _ Ea Lv) as (Bc & Bn).
  destruct (start_prelude p ATXHeadingKind HG) as (H2 & R2 & L2).
  set (p1 := consumeIndent p (indent p)) in *. set (p2 := openBlock p1 ATXHeadingKind) in *.
  set (p2' := updCont p2 (fun b => set_bn b level)). assert (H2' : G p2') by exact H2.
  assert (R2' : rest p2' = bytesAfterIndent p) by exact R2. assert (L2' : len (rest p2') = len (line p2') - li p2') by exact L2.
  assert (Hcs : li p2' + cs <= len (line p2')) by (rewrite R2' in L2'; lia).
  destruct (G_advance p2' cs H2' ltac:(lia) Hcs) as (H3 & La & Lna).
  pose proof (rest_advance p2' cs H2' ltac:(lia) Hcs) as R3. rewrite R2' in R3.
  assert (Hz : indent (advance p2' cs) <= 0).
  { apply indent_nonws; [apply H3|]. rewrite R3. apply indentLength_from_nonws; [lia|exact Bn]. }
  (* the tree *)
  assert (S1 : st_open p1) by (apply st_open_consumeIndent, Hs).
  assert (Hst1 : (state p1 =? stDescending) || (state p1 =? stDescendTerminated) = false) by (destruct S1 as [E | E]; rewrite E; reflexivity).
  destruct (openBlock_core p1 ATXHeadingKind (J_consumeIndent _ _ H) Hst1) as (d & pos & HU & Hb). fold p2 in HU, Hb.
  set (X := newBlock ATXHeadingKind pos) in *.
  destruct (JU_updCont_blk d p2 (fun b => set_bn b level) X HU Hb ltac:(reflexivity)) as [HU' Hb']. fold p2' in HU', Hb'.
  assert (HU3 : JU d (advance p2' cs)) by (eapply JU_same; [apply same_advance|exact HU']).
  assert (Hb3 : cblk d (advance p2' cs) (set_bn X level)) by (eapply cblk_same; [apply same_advance|exact Hb']).
  assert (HU4 : JU d (collectInline (advance p2' cs) UnparsedKind (ce - cs))).
  { apply (JU_collectInline_flat d _ _ _ (set_bn X level) Hz HU3 Hb3). intros u. reflexivity. }
  apply (JU_endBlock d).
  - apply st3_consumeLine, st3_collectInline, st3_advance. apply st3_updCont. left. apply st_open_openBlock, S1.
  - eapply JU_same; [apply same_consumeLine|exact HU4].
Qed.
Lemma J_startFenced p : J p -> J (startFenced p).
Proof.
  intros H. unfold startFenced. cbv zeta. destruct (_ <=? _); [assumption|].
  destruct (parseCodeFence _) as [[[fc fnn] is_] ie]. destruct (fnn =? 0); [assumption|].
  apply J_consumeLine. destruct (spanValid _); jchain H.
Qed.
Lemma J_startHTML p : J p -> J (startHTML p).
Proof.
  intros H. unfold startHTML. cbv zeta. destruct (_ <=? _); [assumption|]. destruct (negb _); [assumption|].
  destruct (_ <? 0); [assumption|]. destruct (negb _ && _); [assumption|]. destruct (htmlEnd _ _); jchain H.
Qed.
Lemma J_startSetext p : J p -> J (startSetext p).
Proof.
  intros H. unfold startSetext. cbv zeta. destruct (negb (containerKind p =? ParagraphKind)) eqn:Ek; [assumption|].
  do 3 (match goal with |- J (if ?c then _ else _) => destruct c end; [assumption|]).
  apply J_endBlock, J_consumeLine. apply J_updCont; [assumption|].
  intros b Nb Hb. split; [rewrite atT_set_bn; apply atT_set_bkind; [discriminate|exact Hb]|destruct b; discriminate].
Qed.
Lemma J_startThematic p : J p -> J (startThematic p).
Proof. intros H. unfold startThematic. cbv zeta. destruct (_ <=? _); [assumption|]. destruct (_ <? 0); [assumption|]. jchain H. Qed.
Lemma J_startListItem p : J p -> J (startListItem p).
Proof.
  intros H. unfold startListItem. cbv zeta. destruct (_ <=? _); [assumption|].
  destruct (parseListMarker _) as [[delim n] mend]. destruct (_ || _); [assumption|]. destruct (_ && _); [assumption|].
  match goal with |- context [endBlock ?X] => assert (H1 : J (endBlock X)) end.
  { destruct (negb _ || negb _); jchain H. }
  match goal with |- context [endBlock ?X] => set (q := endBlock X) in * end.
  destruct (isRestBlank q); [jchain H1|].
  destruct (indent q <? 1); [jchain H1|]. destruct (4 <? indent q); jchain H1.
Qed.
Lemma J_startIndented p : J p -> J (startIndented p).
Proof. intros H. unfold startIndented. destruct (_ || _ || _); [assumption|]. jchain H. Qed.

Definition startOKj (f : lp -> lp) : Prop := forall p, st_open p -> G p -> J p -> J (f p).
Lemma blockStarts_okj : Forall startOKj blockStarts.
Proof.
  unfold blockStarts.
  apply Forall_cons; [intros p Hs HG H; apply J_startBlockQuote; assumption|].
  apply Forall_cons; [intros p Hs HG H; apply J_startATX; assumption|].
  apply Forall_cons; [intros p Hs HG H; apply J_startFenced; assumption|].
  apply Forall_cons; [intros p Hs HG H; apply J_startHTML; assumption|].
  apply Forall_cons; [intros p Hs HG H; apply J_startSetext; assumption|].
  apply Forall_cons; [intros p Hs HG H; apply J_startThematic; assumption|].
  apply Forall_cons; [intros p Hs HG H; apply J_startListItem; assumption|].
  apply Forall_cons; [intros p Hs HG H; apply J_startIndented; assumption|].
  apply Forall_nil.
Qed.
Lemma J_tryStarts : forall fs p, Forall startOKj fs -> Forall startOKG fs -> G p -> J p -> J (snd (tryStarts fs p)).
Proof.
  induction fs as [|f r IH]; intros p Hfs Hgs HG H; [assumption|]. cbn [tryStarts]. cbv zeta.
  inversion Hfs as [|? ? Hf Hr]; subst. inversion Hgs as [|? ? Hg Hgr]; subst.
  assert (H1 : J (f (withState p stOpening))) by (apply Hf; [left; reflexivity|apply G_withState, HG|exact H]).
  assert (G1 : G (f (withState p stOpening))) by (apply Hg, G_withState, HG).
  destruct (_ || _); [assumption|]. apply IH; assumption.
Qed.
Lemma J_opening_loop : forall fuel p, G p -> J p -> J (snd (opening_loop fuel p)).
Proof.
  induction fuel as [|f IH]; intros p HG H; [assumption|]. cbn [opening_loop].
  destruct (_ || _); [|assumption].
  pose proof (J_tryStarts blockStarts p blockStarts_okj blockStarts_okG HG H) as H1.
  pose proof (G_tryStarts blockStarts p blockStarts_okG HG) as G1.
  destruct (tryStarts blockStarts p) as [[|] p1]; cbn [snd] in H1, G1.
  - destruct (_ =? stLineConsumed); [assumption|apply IH; assumption].
  - assumption.
Qed.
Lemma J_deferredClose p : J p -> J (deferredClose p).
Proof.
  intros H. unfold deferredClose. cbv zeta.
  destruct (getAt (tipDepth (bheight (root p)) (root p)) (root p)) as [t|] eqn:Et.
  - destruct (negb (isRestBlank p) && (bkind t =? ParagraphKind)) eqn:Ec.
    + apply andb_true_iff in Ec. destruct Ec as [_ Ec]. apply Z.eqb_eq in Ec.
      split; [apply H|]. cbn [cdepth container withCont setLP root].
      eapply spineNA_tip; [apply H|exact Et|rewrite Ec; discriminate].
    + apply J_closeHere, H.
  - rewrite andb_false_r. apply J_closeHere, H.
Qed.
Lemma J_openNewBlocks p am : G p -> J p ->
  atT (root (snd (openNewBlocks p am))) = true /\ (fst (openNewBlocks p am) = true -> J (snd (openNewBlocks p am))).
Proof.
  intros HG H. unfold openNewBlocks. destruct (_ =? 0).
  - cbn [snd fst]. split; [|discriminate]. cbn [root withCont withRoot setLP].
    pose proof (atT_closeBlock (source p) (lineStart p) (bheight (root p)) (root p) (proj1 H)) as Hc.
    destruct (closeBlock _ _ _ _) as [|b r]; [apply H|]. cbn in Hc. apply andb_true_iff in Hc. tauto.
  - pose proof (J_opening_loop (S (length (line p))) p HG H) as H1. destruct (opening_loop _ p) as [ht p1]. cbn [snd] in H1.
    destruct am; cbn [snd fst]; [split; [apply H1|intros _; exact H1]|].
    pose proof (J_deferredClose p1 H1) as H2. split; [apply H2|intros _; exact H2].
Qed.

Lemma atT_setLastBlankUpTo v : forall d rt, atT rt = true -> atT (setLastBlankUpTo d v rt) = true.
Proof.
  induction d as [|d IH]; intros rt H; cbn [setLastBlankUpTo].
  - cbn [updAt]. rewrite atT_set_blast. assumption.
  - apply IH. apply atT_updAt; [intros b Hb; rewrite atT_set_blast; assumption|assumption].
Qed.

Lemma J_go q : J q ->
  J (let k := containerKind q in
        let inlineKind := if isCode k then TextKind else if k =? HTMLBlockKind then RawHTMLKind else UnparsedKind in
        let q' := updCont q (fun b => set_bik b (bik b ++ [mkI inlineKind (lineStart q + li q) (lineStart q + len (line q))])) in
        if isCode k && negb (hasByteSuffixEOL (line q')) then
          updCont q' (fun b => set_bik b (bik b ++ [mkI SoftLineBreakKind (lineStart q' + len (line q')) (lineStart q' + len (line q'))]))
        else q').
Proof.
  intros Hq. cbv zeta. match goal with |- J (if ?c then _ else _) => destruct c end; [apply J_add_ik|]; apply J_add_ik, Hq.
Qed.

Lemma J_addLineText p : J p -> J (addLineText p).
Proof.
  intros H. unfold addLineText. cbv zeta.
  set (p1 := if isRestBlank p then _ else p).
  assert (H1 : J p1).
  { unfold p1. destruct (isRestBlank p); [|assumption]. apply J_updCont; [assumption|].
    intros b Nb Hb. destruct (lastBlock b) as [c|] eqn:El; [|split; assumption].
    split; [|rewrite bkind_set_lastBlocks; exact Nb].
    apply (atT_set_lastBlocks b c); [assumption|exact El|]. unfold atL. cbn [forallb]. rewrite atT_set_blast, andb_true_r. eapply atT_lastBlock; eassumption. }
  set (p2 := withRoot p1 _).
  assert (H2 : J p2).
  { destruct H1 as [A B]. split; [unfold p2; cbn [root withRoot setLP]; apply atT_setLastBlankUpTo, A|].
    unfold p2. cbn [root container withRoot setLP cdepth]. fold (cdepth p1).
    eapply spineNA_kinds; [|exact B]. intros k _. apply kindAt_setLastBlankUpTo. }
  destruct (acceptsLines _).
  - apply J_go. match goal with |- J (if ?c then _ else _) => destruct c end; [|exact H2].
    apply J_consumeIndent, J_add_ik, H2.
  - match goal with |- J (if ?c then _ else _) => destruct c end; [|exact H2].
    apply J_go, J_consumeIndent, J_openBlock; [discriminate|exact H2].
Qed.

Theorem at_processLine st children ls src : atL children = true ->
  atL (fst (fst (processLine st children ls src))) = true.
Proof.
  intros H. unfold processLine. cbv zeta.
  set (p0 := resetLP st children ls src).
  assert (A0 : atT (root p0) = true) by (cbn [p0 resetLP root atT]; rewrite atl_other by discriminate; exact H).
  assert (S0 : spineNA O (root p0)).
  { intros k b Lk Hb. replace k with O in Hb by lia. cbn in Hb. injection Hb as <-. discriminate. }
  assert (G0 : G p0) by apply G_reset.
  pose proof (J_descend_loop (bheight (root p0)) _ O A0 S0) as H1.
  pose proof (G_descend_loop (bheight (root p0)) _ O G0) as G1.
  fold (descendOpenBlocks p0) in H1, G1.
  destruct (descendOpenBlocks p0) as [am p1]. cbn [snd] in H1, G1.
  set (r2 := if negb (state p1 =? stDescendTerminated) then openNewBlocks p1 am else (false, p1)).
  assert (H2 : atT (root (snd r2)) = true /\ (fst r2 = true -> J (snd r2))).
  { unfold r2. destruct (negb _); [apply J_openNewBlocks; assumption|]. split; [apply H1|cbn; discriminate]. }
  destruct r2 as [ht p2]. cbn [fst snd] in H2. destruct H2 as (H2 & J2).
  assert (H3 : atT (root (if ht then addLineText p2 else p2)) = true).
  { destruct ht; [apply J_addLineText, J2; reflexivity|exact H2]. }
  cbn [fst]. apply atT_parts in H3. tauto.
Qed.
Print Assumptions at_processLine.
