From Coq Require Import List ZArith Lia Bool.
Import ListNotations.
Require Import Base Tree Rdr Link Leaf3e RdrBound.
Open Scope Z_scope.

(* lower bounds / monotonicity for the multi-line reader over sorted spans *)
Fixpoint srt (l : list inline) : Prop :=
  match l with [] => True | a :: r => Forall (fun b => iend a <= istart b) r /\ srt r end.
Definition Jp (r : reader) : Prop :=
  r_prev r + 1 <= r_pos r \/
  (r_prev r = r_pos r /\ match r_spans r with n :: _ => spanHas n (r_pos r) = true | [] => False end).
Definition RLw (lo : Z) (r : reader) : Prop := lo <= r_pos r /\ Jp r /\ srt (r_spans r).
Definition RLs (lo : Z) (r : reader) : Prop := lo < r_pos r /\ lo <= r_prev r /\ Jp r /\ srt (r_spans r).

(* ---- sortedness ---- *)
Lemma srt_skipn : forall k l, srt l -> srt (skipn k l).
Proof.
  induction k as [|k IH]; intros l H; [exact H|]. destruct l as [|a l]; [exact H|].
  cbn [skipn]. apply IH. cbn [srt] in H. tauto.
Qed.
Lemma srt_from l k : srt l -> srt (from_ l k).
Proof. unfold from_. apply srt_skipn. Qed.
Lemma srt_app_one l u : srt l -> Forall (fun a => iend a <= istart u) l -> srt (l ++ [u]).
Proof.
  induction l as [|a l IH]; intros H F; cbn [app srt]; [split; constructor|].
  cbn [srt] in H. destruct H as [H1 H2]. inversion F as [|x y F1 F2]; subst. split.
  - apply Forall_app. split; [exact H1|]. constructor; [exact F1|constructor].
  - apply IH; assumption.
Qed.
Lemma nextSpan_srt : forall sp i sp', nextSpan sp = Some (i, sp') -> srt sp -> srt sp'.
Proof.
  induction sp as [|x l IH]; intros i sp' E H; cbn [nextSpan] in E; [discriminate|].
  match type of E with context [if ?c then _ else _] => destruct c end.
  - inversion E; subst. exact H.
  - eapply IH; [exact E|]. cbn [srt] in H. tauto.
Qed.

(* ---- curNode ---- *)
Lemma spanHas_bounds n pos : spanHas n pos = true -> istart n <= pos /\ pos < iend n.
Proof.
  unfold spanHas. rewrite !andb_true_iff. intros [[[[_ _] _] H1] H2].
  apply Z.leb_le in H1. apply Z.ltb_lt in H2. lia.
Qed.
Lemma nodeIdx_head n rest pos k : spanHas n pos = true -> nodeIdx (n :: rest) pos k = k.
Proof.
  intros H. cbn [nodeIdx]. destruct (spanHas_bounds _ _ H) as [H1 _].
  destruct (Z.ltb_spec pos (istart n)) as [L|L]; [lia|]. rewrite H. reflexivity.
Qed.

Definition setSp (r : reader) (sp : list inline) : reader :=
  {| r_src := r_src r; r_spans := sp; r_pos := r_pos r; r_vpos := r_vpos r; r_prev := r_prev r |}.

Lemma curNode_cases r :
  (curNode r = (None, setSp r []) /\ nodeIndexForPosition (r_spans r) (r_pos r) < 0) \/
  (exists n rest, curNode r = (Some n, setSp r (n :: rest)) /\ spanHas n (r_pos r) = true /\
     n :: rest = from_ (r_spans r) (nodeIndexForPosition (r_spans r) (r_pos r))).
Proof.
  unfold curNode. cbv zeta.
  destruct (Z.ltb_spec (nodeIndexForPosition (r_spans r) (r_pos r)) 0) as [L|L].
  - left. split; [reflexivity|exact L].
  - right. unfold nodeIndexForPosition in *.
    destruct (nodeIdx_has (r_spans r) (r_pos r) 0 ltac:(lia) L) as (n & E & Hh).
    replace (nodeIdx (r_spans r) (r_pos r) 0 - 0) with (nodeIdx (r_spans r) (r_pos r) 0) in E by lia.
    destruct (from_ (r_spans r) (nodeIdx (r_spans r) (r_pos r) 0)) as [|x rest] eqn:Ef; [discriminate|].
    cbn [hd_error] in E. inversion E; subst x. exists n, rest. split; [reflexivity|]. split; [exact Hh|reflexivity].
Qed.

Lemma curNode_setSp r : snd (curNode r) = setSp r (r_spans (snd (curNode r))).
Proof. destruct (curNode_cases r) as [[E _]|(n & rest & E & _)]; rewrite E; reflexivity. Qed.

Lemma curNode_idem r : curNode (snd (curNode r)) = curNode r.
Proof.
  destruct (curNode_cases r) as [[E _]|(n & rest & E & Hh & _)]; rewrite E; cbn [snd].
  - reflexivity.
  - unfold curNode. cbv zeta. cbn [setSp r_spans r_pos r_src r_vpos r_prev]. unfold nodeIndexForPosition.
    rewrite (nodeIdx_head n rest (r_pos r) 0 Hh). reflexivity.
Qed.

Lemma current_eq r n r' : curNode r = (n, r') -> (len (r_src r) <=? r_pos r) = false ->
  current r = (if okind n =? IndentKind then 32 else if at_ (r_src r) (r_pos r) =? 0 then nullRepl (r_vpos r) else at_ (r_src r) (r_pos r), r').
Proof.
  intros E El. unfold current. rewrite El, E.
  destruct (okind n =? IndentKind); [reflexivity|]. destruct (at_ (r_src r) (r_pos r) =? 0); reflexivity.
Qed.

Lemma current_idem r : current (snd (current r)) = current r.
Proof.
  destruct (len (r_src r) <=? r_pos r) eqn:El.
  - unfold current. rewrite El. cbn [snd]. rewrite El. reflexivity.
  - pose proof (curNode_idem r) as Hi. pose proof (curNode_setSp r) as Hs.
    destruct (curNode r) as [n r'] eqn:Ec. cbn [snd] in Hi, Hs.
    rewrite (current_eq r n r' Ec El). cbn [snd].
    assert (A1 : r_src r' = r_src r) by (rewrite Hs; reflexivity).
    assert (A2 : r_pos r' = r_pos r) by (rewrite Hs; reflexivity).
    assert (A3 : r_vpos r' = r_vpos r) by (rewrite Hs; reflexivity).
    rewrite (current_eq r' n r' Hi); [|rewrite A1, A2; exact El]. rewrite A1, A2, A3. reflexivity.
Qed.

(* ---- the invariants through curNode / current ---- *)
Lemma Jp_none r : Jp r -> nodeIndexForPosition (r_spans r) (r_pos r) < 0 -> r_prev r + 1 <= r_pos r.
Proof.
  intros HJ L. destruct HJ as [H|[_ H]]; [exact H|]. revert H L. unfold nodeIndexForPosition.
  destruct (r_spans r) as [|n rest]; intros H L; [destruct H|].
  rewrite (nodeIdx_head n rest _ 0 H) in L. lia.
Qed.
Lemma Jp_curNode r : Jp r -> Jp (snd (curNode r)).
Proof.
  intros HJ. destruct (curNode_cases r) as [[E L]|(n & rest & E & Hh & _)]; rewrite E; cbn [snd].
  - left. cbn [setSp r_prev r_pos]. apply Jp_none; assumption.
  - destruct HJ as [H|[H _]]; [left; exact H|right]. cbn [setSp r_prev r_pos r_spans]. split; [exact H|exact Hh].
Qed.
Lemma srt_curNode r : srt (r_spans r) -> srt (r_spans (snd (curNode r))).
Proof.
  intros H. destruct (curNode_cases r) as [[E L]|(n & rest & E & Hh & Ef)]; rewrite E; cbn [snd setSp r_spans].
  - exact I.
  - rewrite Ef. apply srt_from, H.
Qed.
Lemma curNode_pos r : r_pos (snd (curNode r)) = r_pos r.
Proof. rewrite curNode_setSp. reflexivity. Qed.
Lemma curNode_prev r : r_prev (snd (curNode r)) = r_prev r.
Proof. rewrite curNode_setSp. reflexivity. Qed.

Lemma current_snd r : snd (current r) = r \/ snd (current r) = snd (curNode r).
Proof.
  unfold current. destruct (len (r_src r) <=? r_pos r); [left; reflexivity|right].
  destruct (curNode r) as [n r']. cbn [snd]. destruct (okind n =? IndentKind); [reflexivity|].
  destruct (at_ (r_src r) (r_pos r) =? 0); reflexivity.
Qed.
Lemma current_pos r : r_pos (snd (current r)) = r_pos r.
Proof. destruct (current_snd r) as [E|E]; rewrite E; [reflexivity|apply curNode_pos]. Qed.
Lemma current_prev r : r_prev (snd (current r)) = r_prev r.
Proof. destruct (current_snd r) as [E|E]; rewrite E; [reflexivity|apply curNode_prev]. Qed.
Lemma Jp_current r : Jp r -> Jp (snd (current r)).
Proof. intros H. destruct (current_snd r) as [E|E]; rewrite E; [exact H|apply Jp_curNode, H]. Qed.
Lemma srt_current r : srt (r_spans r) -> srt (r_spans (snd (current r))).
Proof. intros H. destruct (current_snd r) as [E|E]; rewrite E; [exact H|apply srt_curNode, H]. Qed.

Lemma RLw_current lo r : RLw lo r -> RLw lo (snd (current r)).
Proof.
  intros (A & B & C). unfold RLw. rewrite current_pos.
  split; [exact A|]. split; [apply Jp_current, B|apply srt_current, C].
Qed.
Lemma RLs_current lo r : RLs lo r -> RLs lo (snd (current r)).
Proof.
  intros (A & A' & B & C). unfold RLs. rewrite current_pos, current_prev.
  split; [exact A|]. split; [exact A'|]. split; [apply Jp_current, B|apply srt_current, C].
Qed.

(* ---- next ---- *)
Lemma next_cases r ok r' : Jp r -> srt (r_spans r) -> next r = (ok, r') ->
  srt (r_spans r') /\ Jp r' /\
  ((ok = false /\ r_prev r' = r_prev r /\ r_pos r' = r_pos r /\ r_prev r + 1 <= r_pos r) \/
   (r_prev r' = r_pos r /\ r_pos r <= r_pos r' /\
    (okind (fst (curNode r)) <> IndentKind -> r_pos r + 1 <= r_pos r'))).
Proof.
  intros HJ HS. unfold next.
  destruct (curNode_cases r) as [[E L]|(n & rest & E & Hh & Ef)]; rewrite E; cbv beta iota zeta; cbn [fst okind].
  - intros Eq. inversion Eq; subst ok r'. unfold Jp. cbn [setSp r_spans r_pos r_prev srt].
    pose proof (Jp_none r HJ L) as Hlt. split; [exact I|]. split; [left; exact Hlt|]. left. repeat split. exact Hlt.
  - assert (HS' : srt (n :: rest)) by (rewrite Ef; apply srt_from, HS).
    destruct (spanHas_bounds _ _ Hh) as [Hb1 Hb2].
    cbn [setSp r_spans r_pos r_prev r_src r_vpos tl].
    destruct ((ikind n =? IndentKind) && (r_vpos r <? iindent n)) eqn:C1.
    { intros Eq. inversion Eq; subst ok r'. unfold Jp. cbn [r_spans r_pos r_prev].
      split; [exact HS'|]. split; [right; split; [reflexivity|exact Hh]|]. right. split; [reflexivity|]. split; [lia|].
      intros Hk. apply andb_true_iff in C1. destruct C1 as [C1 _]. apply Z.eqb_eq in C1. contradiction. }
    destruct (negb (ikind n =? IndentKind) && (r_pos r + 1 <? iend n)) eqn:C2.
    { intros Eq. inversion Eq; subst ok r'. unfold Jp. cbn [r_spans r_pos r_prev].
      split; [exact HS'|]. split; [left; lia|]. right. split; [reflexivity|]. split; [lia|]. intros _. lia. }
    destruct (nextSpan rest) as [[i sp]|] eqn:En.
    + intros Eq. inversion Eq; subst ok r'. unfold Jp. cbn [r_spans r_pos r_prev].
      cbn [srt] in HS'. destruct HS' as [HF HS'].
      pose proof (nextSpan_in _ _ _ En) as Hi. rewrite Forall_forall in HF. specialize (HF i Hi).
      split; [exact (nextSpan_srt _ _ _ En HS')|]. split; [left; lia|]. right. split; [reflexivity|]. split; [lia|]. intros _. lia.
    + intros Eq. inversion Eq; subst ok r'. unfold Jp. cbn [r_spans r_pos r_prev srt].
      split; [exact I|]. split; [left; lia|]. right. split; [reflexivity|]. split; [lia|]. intros _. lia.
Qed.

Lemma next_cases' r : Jp r -> srt (r_spans r) ->
  srt (r_spans (snd (next r))) /\ Jp (snd (next r)) /\
  ((fst (next r) = false /\ r_prev (snd (next r)) = r_prev r /\ r_pos (snd (next r)) = r_pos r /\ r_prev r + 1 <= r_pos r) \/
   (r_prev (snd (next r)) = r_pos r /\ r_pos r <= r_pos (snd (next r)) /\
    (okind (fst (curNode r)) <> IndentKind -> r_pos r + 1 <= r_pos (snd (next r))))).
Proof. intros HJ HS. destruct (next r) as [ok r'] eqn:E. cbn [fst snd]. exact (next_cases r ok r' HJ HS E). Qed.

Lemma RLw_next lo r : RLw lo r -> RLw lo (snd (next r)).
Proof.
  intros (A & B & C). destruct (next_cases' r B C) as (S1 & J1 & [(_ & _ & P1 & _)|(_ & P1 & _)]);
    (split; [lia|split; assumption]).
Qed.
Lemma RLs_next lo r : RLs lo r -> RLs lo (snd (next r)).
Proof.
  intros (A & A' & B & C). destruct (next_cases' r B C) as (S1 & J1 & [(_ & P0 & P1 & _)|(P0 & P1 & _)]);
    (split; [lia|split; [lia|split; assumption]]).
Qed.
Lemma RLw_next_ok lo r : RLw lo r -> fst (next r) = true -> lo <= r_prev (snd (next r)).
Proof.
  intros (A & B & C) Hok. destruct (next_cases' r B C) as (S1 & J1 & [(F & _)|(P0 & _)]); [congruence|lia].
Qed.

Lemma current_nonindent r c r2 : current r = (c, r2) -> c <> 32 -> c <> 0 ->
  r2 = snd (curNode r) /\ okind (fst (curNode r2)) <> IndentKind.
Proof.
  intros E N32 N0. pose proof (curNode_idem r) as Hi. unfold current in E.
  destruct (len (r_src r) <=? r_pos r); [inversion E; subst; contradiction|].
  destruct (curNode r) as [n r'] eqn:Ec. cbn [snd] in Hi.
  destruct (Z.eqb_spec (okind n) IndentKind) as [Ek|Ek]; [inversion E; subst; contradiction|].
  assert (Er : r2 = r') by (destruct (at_ (r_src r) (r_pos r) =? 0); inversion E; reflexivity).
  subst r2. split; [reflexivity|]. rewrite Hi. exact Ek.
Qed.

Lemma next_strict lo r c r2 : RLw lo r -> current r = (c, r2) -> c <> 32 -> c <> 0 ->
  r_prev (snd (next r2)) + 1 <= r_pos (snd (next r2)) /\ (fst (next r2) = true -> r_prev (snd (next r2)) = r_pos r).
Proof.
  intros H E N32 N0. destruct (current_nonindent r c r2 E N32 N0) as [Er Hk].
  pose proof (RLw_current lo r H) as H2. rewrite E in H2. cbn [snd] in H2. destruct H2 as (A & B & C).
  assert (Ep : r_pos r2 = r_pos r) by (rewrite Er; apply curNode_pos).
  destruct (next_cases' r2 B C) as (S1 & J1 & [(F & P0 & P1 & P2)|(P0 & P1 & P2)]).
  - split; [lia|]. intros Ht. congruence.
  - specialize (P2 Hk). split; [lia|]. intros _. lia.
Qed.

(* ---- the link-definition scanners, for any predicate kept by current and next ---- *)
Section Gen.
  Variable P : reader -> Prop.
  Hypothesis P_current : forall r, P r -> P (snd (current r)).
  Hypothesis P_next : forall r, P r -> P (snd (next r)).

  Ltac step :=
    repeat match goal with
    | |- context [current ?r] => let H := fresh "Hc" in let c := fresh "c" in let r' := fresh "r" in
        match goal with Hr : P r |- _ => pose proof (P_current r Hr) as H; destruct (current r) as [c r']; cbn [snd] in H end
    | |- context [next ?r] => let H := fresh "Hn" in let ok := fresh "ok" in let r' := fresh "r" in
        match goal with Hr : P r |- _ => pose proof (P_next r Hr) as H; destruct (next r) as [ok r']; cbn [snd] in H end
    end.

  Lemma G_skipLinkSpace_loop : forall fuel r, P r -> P (snd (skipLinkSpace_loop fuel r)).
  Proof.
    induction fuel as [|f IH]; intros r H; [exact H|]. cbn [skipLinkSpace_loop]. step.
    destruct (isSpaceTabOrLineEnding c); [|exact Hc]. step. destruct ok; [apply IH; assumption|assumption].
  Qed.
  Lemma G_skipLinkSpace fuel r : P r -> P (snd (skipLinkSpace fuel r)).
  Proof. intros H. unfold skipLinkSpace. step. destruct (c =? 0); [assumption|apply G_skipLinkSpace_loop; assumption]. Qed.
  Lemma G_skipSpacesAndTabs : forall fuel r, P r -> P (snd (skipSpacesAndTabs fuel r)).
  Proof.
    induction fuel as [|f IH]; intros r H; [exact H|]. cbn [skipSpacesAndTabs]. step.
    destruct (isSpTab c); [|exact Hc]. step. destruct ok; [apply IH; assumption|assumption].
  Qed.
  Lemma G_ll_skip : forall fuel r chars r' c', P r -> ll_skip fuel r chars = Some (r', c') -> P r'.
  Proof.
    induction fuel as [|f IH]; intros r chars r' c' H E; [discriminate|]. cbn [ll_skip] in E. revert E. step.
    destruct (negb ok); [discriminate|]. step.
    destruct (_ || _ || _); [discriminate|]. destruct (negb _); [intros E; inversion E; subst; assumption|].
    intros E. eapply IH; [|exact E]. assumption.
  Qed.
  Lemma G_ll_body : forall fuel r chars ie r' ie', P r -> ll_body fuel r chars ie = Some (r', ie') -> P r'.
  Proof.
    induction fuel as [|f IH]; intros r chars ie r' ie' H E; [discriminate|]. cbn [ll_body] in E. revert E. step.
    destruct (negb _); [intros E; inversion E; subst; assumption|].
    destruct (c =? 92).
    - step. destruct (negb ok); [discriminate|]. step. destruct (negb ok0); [discriminate|]. intros E. eapply IH; [|exact E]. assumption.
    - step. destruct (negb ok); [discriminate|]. intros E. eapply IH; [|exact E]. assumption.
  Qed.
  (* everything after a successful ll_skip *)
  Lemma G_ll_rest fuel r1 chars (sp1 : Z * Z) (st : Z) : P r1 ->
    P (snd (match ll_body fuel r1 chars (-1) with
            | None => (nullSpan, nullSpan, r1)
            | Some (r2, innerEnd) =>
              let '(c2, r3) := current r2 in
              if negb (c2 =? 93) then (nullSpan, nullSpan, r3) else
              let spanEnd := r_pos r3 + 1 in
              let '(_, r4) := next r3 in
              ((st, spanEnd), (r_pos r1, innerEnd), r4)
            end)).
  Proof.
    intros H1. destruct (ll_body fuel r1 chars (-1)) as [[r2 ie]|] eqn:E2; [|assumption].
    pose proof (G_ll_body _ _ _ _ _ _ H1 E2) as H2. step.
    destruct (negb (c =? 93)); [assumption|]. cbv zeta. step. assumption.
  Qed.
  Lemma G_parseLinkLabel fuel r : P r -> P (snd (parseLinkLabel fuel r)).
  Proof.
    intros H. unfold parseLinkLabel. step. destruct (negb (c =? 91)); [assumption|]. cbv zeta.
    destruct (ll_skip fuel r0 0) as [[r1 chars]|] eqn:E1; [|assumption].
    pose proof (G_ll_skip _ _ _ _ _ Hc E1) as H1.
    exact (G_ll_rest fuel r1 chars nullSpan (r_pos r0) H1).
  Qed.
  Lemma G_ld_angle : forall fuel r start, P r -> P (snd (ld_angle fuel r start)).
  Proof.
    induction fuel as [|f IH]; intros r start H; [exact H|]. cbn [ld_angle]. step.
    destruct (negb ok); [assumption|]. step. destruct (_ || _); [assumption|].
    destruct (c =? 92).
    - step. destruct (negb ok0); [assumption|]. step. destruct (_ || _); [assumption|apply IH; assumption].
    - destruct (c =? 62); [step; assumption|apply IH; assumption].
  Qed.
  Lemma G_ld_bare : forall fuel r paren, P r -> P (ld_bare fuel r paren).
  Proof.
    induction fuel as [|f IH]; intros r paren H; [exact H|]. cbn [ld_bare]. step.
    destruct (_ || _); [assumption|].
    destruct (c =? 92).
    - step. destruct (negb ok); [assumption|]. step. destruct (_ || _); [assumption|]. step. destruct ok0; [apply IH|]; assumption.
    - destruct (c =? 40); [step; destruct ok; [apply IH|]; assumption|].
      destruct (c =? 41); [destruct (_ <? 0); [assumption|]; step; destruct ok; [apply IH|]; assumption|].
      step. destruct ok; [apply IH|]; assumption.
  Qed.
  Lemma G_parseLinkDestination fuel r : P r -> P (snd (parseLinkDestination fuel r)).
  Proof.
    intros H. unfold parseLinkDestination. step. destruct (c =? 60); [apply G_ld_angle; assumption|].
    destruct (_ && _ && _); [cbn [snd]; apply G_ld_bare; assumption|assumption].
  Qed.
  Lemma G_lt_loop : forall fuel r start term, P r -> P (snd (lt_loop fuel r start term)).
  Proof.
    induction fuel as [|f IH]; intros r start term H; [exact H|]. cbn [lt_loop]. step.
    destruct (negb ok); [assumption|]. step.
    destruct (c =? 92); [step; destruct (negb ok0); [assumption|apply IH; assumption]|].
    destruct (c =? term); [step; assumption|apply IH; assumption].
  Qed.
  Lemma G_parseLinkTitle fuel r : P r -> P (snd (parseLinkTitle fuel r)).
  Proof. intros H. unfold parseLinkTitle. step. destruct (negb _); [assumption|apply G_lt_loop; assumption]. Qed.
End Gen.

(* ---- instances ---- *)
Lemma RLw_skipLinkSpace lo fuel r : RLw lo r -> RLw lo (snd (skipLinkSpace fuel r)).
Proof. apply G_skipLinkSpace; [apply RLw_current|apply RLw_next]. Qed.
Lemma RLs_skipLinkSpace lo fuel r : RLs lo r -> RLs lo (snd (skipLinkSpace fuel r)).
Proof. apply G_skipLinkSpace; [apply RLs_current|apply RLs_next]. Qed.
Lemma RLw_skipSpacesAndTabs lo fuel r : RLw lo r -> RLw lo (snd (skipSpacesAndTabs fuel r)).
Proof. apply G_skipSpacesAndTabs; [apply RLw_current|apply RLw_next]. Qed.
Lemma RLs_skipSpacesAndTabs lo fuel r : RLs lo r -> RLs lo (snd (skipSpacesAndTabs fuel r)).
Proof. apply G_skipSpacesAndTabs; [apply RLs_current|apply RLs_next]. Qed.
Lemma RLw_parseLinkDestination lo fuel r : RLw lo r -> RLw lo (snd (parseLinkDestination fuel r)).
Proof. apply G_parseLinkDestination; [apply RLw_current|apply RLw_next]. Qed.
Lemma RLs_parseLinkDestination lo fuel r : RLs lo r -> RLs lo (snd (parseLinkDestination fuel r)).
Proof. apply G_parseLinkDestination; [apply RLs_current|apply RLs_next]. Qed.
Lemma RLw_parseLinkTitle lo fuel r : RLw lo r -> RLw lo (snd (parseLinkTitle fuel r)).
Proof. apply G_parseLinkTitle; [apply RLw_current|apply RLw_next]. Qed.
Lemma RLs_parseLinkTitle lo fuel r : RLs lo r -> RLs lo (snd (parseLinkTitle fuel r)).
Proof. apply G_parseLinkTitle; [apply RLs_current|apply RLs_next]. Qed.
Lemma RLw_parseLinkLabel lo fuel r : RLw lo r -> RLw lo (snd (parseLinkLabel fuel r)).
Proof. apply G_parseLinkLabel; [apply RLw_current|apply RLw_next]. Qed.
Lemma RLs_parseLinkLabel lo fuel r : RLs lo r -> RLs lo (snd (parseLinkLabel fuel r)).
Proof. apply G_parseLinkLabel; [apply RLs_current|apply RLs_next]. Qed.

(* ---- small facts ---- *)
Lemma RLs_to_RLw lo d r : RLs lo r -> d <= r_pos r -> RLw d r.
Proof. intros (_ & _ & B & C) H. split; [exact H|split; assumption]. Qed.
Lemma RLw_newReader lo src spans pos : 0 <= pos -> lo <= pos -> srt spans -> RLw lo (newReader src spans pos).
Proof.
  intros H0 H1 HS. unfold RLw, Jp, newReader. cbn [r_pos r_prev r_spans].
  split; [exact H1|]. split; [left; lia|exact HS].
Qed.

(* ---- a valid label moves the reader strictly forward ---- *)
Lemma spanValid_null : spanValid nullSpan = false.
Proof. reflexivity. Qed.

Lemma ll_skip_first lo r r0 fuel r1 chars : RLw lo r -> current r = (91, r0) ->
  ll_skip fuel r0 0 = Some (r1, chars) -> RLs lo r1.
Proof.
  intros H Ec E. destruct fuel as [|f]; [discriminate|]. cbn [ll_skip] in E.
  destruct (next_strict lo r 91 r0 H Ec ltac:(lia) ltac:(lia)) as [S1 S2].
  pose proof (RLw_current lo r H) as H0. rewrite Ec in H0. cbn [snd] in H0.
  pose proof (RLw_next lo r0 H0) as Hn.
  destruct (next r0) as [ok r1'] eqn:En. cbn [fst snd] in *.
  destruct ok; cbn [negb] in E; [|discriminate]. specialize (S2 eq_refl).
  assert (Hs : RLs lo r1').
  { destruct H as (A & _). destruct Hn as (_ & B & C). split; [lia|]. split; [lia|]. split; assumption. }
  pose proof (RLs_current lo r1' Hs) as Hs2. destruct (current r1') as [c r2]. cbn [snd] in Hs2.
  match type of E with context [if ?c then _ else _] => destruct c end; [discriminate|].
  match type of E with context [if ?c then _ else _] => destruct c end.
  - inversion E; subst. exact Hs2.
  - eapply (G_ll_skip (RLs lo)); [apply RLs_current|apply RLs_next|exact Hs2|exact E].
Qed.

Lemma RL_parseLinkLabel_valid lo fuel r : RLw lo r ->
  spanValid (fst (fst (parseLinkLabel fuel r))) = true -> RLs lo (snd (parseLinkLabel fuel r)).
Proof.
  intros H. unfold parseLinkLabel. destruct (current r) as [c r0] eqn:Ec.
  destruct (Z.eqb_spec c 91) as [E91|N91]; cbn [negb].
  2: { cbn [fst snd]. rewrite spanValid_null. discriminate. }
  subst c. cbv zeta.
  destruct (ll_skip fuel r0 0) as [[r1 chars]|] eqn:E1.
  2: { cbn [fst snd]. rewrite spanValid_null. discriminate. }
  intros _. pose proof (ll_skip_first lo r r0 fuel r1 chars H Ec E1) as H1.
  exact (G_ll_rest (RLs lo) (RLs_current lo) (RLs_next lo) fuel r1 chars nullSpan (r_pos r0) H1).
Qed.

(* ---- readEOL ---- *)
Lemma skipSpacesAndTabs_true : forall fuel r r1, skipSpacesAndTabs fuel r = (true, r1) ->
  exists r0 c, current r0 = (c, r1) /\ c <> 0 /\ isSpTab c = false.
Proof.
  induction fuel as [|f IH]; intros r r1 E; cbn [skipSpacesAndTabs] in E; [discriminate|].
  destruct (current r) as [c r'] eqn:Ec. destruct (isSpTab c) eqn:Es.
  - destruct (next r') as [ok r2]. destruct ok; [exact (IH _ _ E)|discriminate].
  - inversion E as [[E0 E1]]. subst r'. exists r, c. split; [exact Ec|]. split; [|exact Es].
    destruct (Z.eqb_spec c 0) as [Z0|Z0]; [discriminate|exact Z0].
Qed.

Lemma RLs_readEOL_strong lo fuel r : RLs lo r ->
  RLs lo (snd (readEOL fuel r)) /\
  ((lo < fst (readEOL fuel r) /\ fst (readEOL fuel r) <= r_pos (snd (readEOL fuel r))) \/
   (fst (readEOL fuel r) = -1 /\
    exists r0 c, current r0 = (c, snd (readEOL fuel r)) /\ c <> 0 /\ isSpTab c = false /\ c <> 13 /\ c <> 10)).
Proof.
  intros H. unfold readEOL. pose proof (RLs_skipSpacesAndTabs lo fuel r H) as H1.
  destruct (skipSpacesAndTabs fuel r) as [ok r1] eqn:Esk. cbn [snd] in H1.
  destruct ok; cbn [negb].
  2: { cbn [fst snd]. split; [exact H1|]. left. destruct H1 as (A & _). lia. }
  pose proof (RLs_current lo r1 H1) as H2. destruct (current r1) as [c r2] eqn:Ec. cbn [snd] in H2.
  assert (HW1 : RLw lo r1) by (eapply RLs_to_RLw; [exact H1|destruct H1 as (A & _); lia]).
  assert (Hstep : forall (N32 : c <> 32) (N0 : c <> 0),
    RLs lo (snd (next r2)) /\ lo < r_prev (snd (next r2)) + 1 /\ r_prev (snd (next r2)) + 1 <= r_pos (snd (next r2))).
  { intros N32 N0. destruct (next_strict lo r1 c r2 HW1 Ec N32 N0) as [S1 _].
    pose proof (RLs_next lo r2 H2) as H3. split; [exact H3|]. destruct H3 as (_ & A' & _). lia. }
  destruct (Z.eqb_spec c 13) as [E13|N13].
  - destruct (Hstep ltac:(lia) ltac:(lia)) as (H3 & V1 & V2).
    destruct (next r2) as [ok2 r3]. cbn [snd] in *.
    destruct ok2; cbn [negb].
    2: { cbn [fst snd]. split; [exact H3|]. left. lia. }
    pose proof (RLs_current lo r3 H3) as H4. pose proof (current_pos r3) as Ep. pose proof (current_prev r3) as Epr.
    destruct (current r3) as [c2 r4] eqn:Ec2. cbn [snd] in *.
    destruct (Z.eqb_spec c2 10) as [E10|N10].
    + assert (HW3 : RLw lo r3) by (eapply RLs_to_RLw; [exact H3|lia]).
      destruct (next_strict lo r3 c2 r4 HW3 Ec2 ltac:(lia) ltac:(lia)) as [S2 _].
      pose proof (RLs_next lo r4 H4) as H5. destruct (next r4) as [ok5 r5]. cbn [fst snd] in *.
      split; [exact H5|]. left. destruct H5 as (_ & A' & _). lia.
    + cbn [fst snd]. split; [exact H4|]. left. lia.
  - destruct (Z.eqb_spec c 10) as [E10|N10].
    + destruct (Hstep ltac:(lia) ltac:(lia)) as (H3 & V1 & V2).
      destruct (next r2) as [ok2 r3]. cbn [fst snd] in *. split; [exact H3|]. left. lia.
    + cbn [fst snd]. split; [exact H2|]. right. split; [reflexivity|].
      destruct (skipSpacesAndTabs_true fuel r r1 Esk) as (r0 & c0 & E0 & N0 & Ns).
      pose proof (current_idem r0) as Hi. rewrite E0 in Hi. cbn [snd] in Hi. rewrite Ec in Hi.
      inversion Hi; subst c0 r2. exists r0, c. repeat split; assumption.
Qed.

Lemma RLs_readEOL lo fuel r : RLs lo r ->
  RLs lo (snd (readEOL fuel r)) /\
  (fst (readEOL fuel r) = -1 \/ (lo < fst (readEOL fuel r) /\ fst (readEOL fuel r) <= r_pos (snd (readEOL fuel r)))).
Proof.
  intros H. destruct (RLs_readEOL_strong lo fuel r H) as [H1 [H2|[H2 _]]]; (split; [exact H1|]); [right; exact H2|left; exact H2].
Qed.

Lemma readEOL_neg_ok2 lo fuel fuel2 r : 0 <= lo -> RLs lo r -> (0 < fuel2)%nat -> fst (readEOL fuel r) < 0 ->
  fst (skipLinkSpace fuel2 (snd (current (snd (readEOL fuel r))))) = true.
Proof.
  intros Hlo H Hf Hneg. destruct (RLs_readEOL_strong lo fuel r H) as [_ [H2|[_ (r0 & c & E0 & N0 & Ns & N13 & N10)]]]; [lia|].
  pose proof (current_idem r0) as Hi. rewrite E0 in Hi. cbn [snd] in Hi.
  rewrite Hi. cbn [snd]. destruct fuel2 as [|f2]; [lia|].
  unfold skipLinkSpace. rewrite Hi. destruct (Z.eqb_spec c 0) as [Z0|Z0]; [contradiction|].
  cbn [skipLinkSpace_loop]. rewrite Hi.
  assert (Ew : isSpaceTabOrLineEnding c = false).
  { unfold isSpaceTabOrLineEnding. unfold isSpTab in Ns. rewrite Ns. cbn [orb].
    destruct (Z.eqb_spec c 10) as [Z1|Z1]; [contradiction|]. destruct (Z.eqb_spec c 13) as [Z2|Z2]; [contradiction|]. reflexivity. }
  rewrite Ew. reflexivity.
Qed.

Print Assumptions RLs_readEOL.
Print Assumptions readEOL_neg_ok2.
Print Assumptions RL_parseLinkLabel_valid.
Print Assumptions current_idem.
