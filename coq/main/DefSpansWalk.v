From Coq Require Import List ZArith Lia Bool.
Import ListNotations.
Require Import Base Tables Utf8 Tree Rdr Link Collect Html Recog LP Rules Starts Driver.
Require Import Leaf3e RdrBound BSRdr BSOrph ShEnv ShLine1 SpanHypDef ExRdr ExOcp ExInv2 DefSpansOcp DefSpansClose.
Require L2Kind2 L2Bnd BSLine1.
Open Scope Z_scope.

(* ================================================================================================
   T56 (a), part 3 (DefSpansWalk): inv3 through the line machine (ExInv2 with inv3 / invD in the place of inv2 / invX).
   ================================================================================================ *)
Notation ckind := L2Kind2.ckind.
Notation st_open := L2Kind2.st_open.
Notation same_tree := L2Kind2.same_tree.

Section Walk.
  Variable mem : Z -> list inline -> bool.
  Variable src : bytes.
  Variable ls0 : Z.
  Hypothesis Hmem : forall s ik, mem s ik = true -> GoodP src ls0 s ik.
  Notation inv3 := (inv3 mem src).
  Notation inv3L := (inv3L mem src).
  Notation C0 := (ExInv2.C0 src).

  Ltac sc0 :=
    repeat match goal with
    | |- C0 (advance _ _) => apply C0_advance
    | |- C0 (consumeLine _) => apply C0_consumeLine
    | |- C0 (consumeIndent _ _) => apply C0_consumeIndent
    | |- C0 (updCont _ _) => apply C0_updCont
    | |- C0 (withCont _ _) => apply C0_withCont
    | |- C0 (withState _ _) => apply C0_withState
    | |- C0 (withRoot _ _) => apply C0_withRoot
    | |- C0 (closeLastChildAt _ _ _) => apply C0_closeLastChildAt
    | |- C0 (openBlock_up _ _ _) => apply C0_openBlock_up
    | |- C0 (openBlock _ _) => apply C0_openBlock
    | |- C0 (endBlock _) => apply C0_endBlock
    | |- C0 (collectInline _ _ _) => apply C0_collectInline
    | |- C0 (if state ?p =? stOpening then withState ?p stOpenMatched else ?p) => apply C0_opened
    end;
    try assumption.

  (* ---- the invariant on the parser state ---- *)
  Definition invP3 (p : lp) : Prop := inv3 (root p) = true.
  Lemma invP3_same p p' : same_tree p p' -> invP3 p -> invP3 p'.
  Proof. intros [E1 _]. unfold invP3. rewrite E1. tauto. Qed.
  Lemma invP3_advance p n : invP3 p -> invP3 (advance p n). Proof. apply invP3_same, L2Kind2.same_advance. Qed.
  Lemma invP3_consumeLine p : invP3 p -> invP3 (consumeLine p). Proof. apply invP3_same, L2Kind2.same_consumeLine. Qed.
  Lemma invP3_consumeIndent p n : invP3 p -> invP3 (consumeIndent p n). Proof. apply invP3_same, L2Kind2.same_consumeIndent. Qed.
  Lemma invP3_opened p : invP3 p -> invP3 (if state p =? stOpening then withState p stOpenMatched else p).
  Proof. apply invP3_same, L2Kind2.same_opened. Qed.
  Lemma invP3_withCont p c : invP3 p -> invP3 (withCont p c). Proof. exact (fun H => H). Qed.
  Lemma invP3_withState p s : invP3 p -> invP3 (withState p s). Proof. exact (fun H => H). Qed.
  Lemma invP3_updCont p f : invP3 p -> (forall b, inv3 b = true -> inv3 (f b) = true) -> invP3 (updCont p f).
  Proof. intros H Hf. unfold invP3, updCont. cbn. apply inv3_updAt; assumption. Qed.
  Lemma invP3_updCont_at p f : invP3 p ->
    (forall b, getAt (cdepth p) (root p) = Some b -> inv3 b = true -> inv3 (f b) = true) -> invP3 (updCont p f).
  Proof. intros H Hf. unfold invP3, updCont. cbn. apply inv3_updAt_at; assumption. Qed.

  Lemma invP3_closeLastChildAt p d e : source p = src -> 0 <= e -> invP3 p -> invP3 (closeLastChildAt p d e).
  Proof.
    intros Hs He H. unfold invP3, closeLastChildAt. cbn. apply inv3_updAt; [|assumption].
    intros b Hb. destruct (lastBlock b) as [c|] eqn:El; [|assumption].
    apply inv3_set_lastBlocks; [assumption|]. rewrite Hs. apply (D_closeBlock mem src ls0 Hmem); [exact He|]. eapply inv3_lastBlock; eassumption.
  Qed.
  Lemma invP3_openBlock_up : forall fuel p kind, C0 p -> invP3 p -> invP3 (openBlock_up fuel p kind).
  Proof.
    induction fuel as [|f IH]; intros p kind Hc H; [assumption|]. cbn [openBlock_up].
    destruct (canContain _ _); [assumption|]. destruct (cdepth p); [assumption|].
    destruct (C0_pos src p Hc) as (A & B & S).
    apply IH; [sc0|]. apply invP3_withCont, invP3_closeLastChildAt; assumption.
  Qed.
  Lemma invP3_openBlock p kind : kind <> LinkReferenceDefinitionKind -> C0 p -> invP3 p -> invP3 (openBlock p kind).
  Proof.
    intros Hk Hc H. unfold openBlock. destruct (_ || _); [assumption|]. cbv zeta.
    apply invP3_withCont. apply invP3_updCont.
    - set (q := openBlock_up _ _ kind). assert (Hq : C0 q) by (unfold q; sc0).
      destruct (C0_pos src q Hq) as (A & B & S). apply invP3_closeLastChildAt; [exact S|exact A|].
      apply invP3_openBlock_up; [sc0|]. apply invP3_opened, H.
    - intros b Hb. apply inv3_set_bkids; [assumption|]. rewrite inv3L_app. apply inv3_parts in Hb. destruct Hb as (_ & _ & Hb). rewrite Hb.
      cbn [DefSpansOcp.inv3L forallb]. rewrite inv3_newBlock by exact Hk. reflexivity.
  Qed.
  Lemma invP3_endBlock p : C0 p -> invP3 p -> invP3 (endBlock p).
  Proof.
    intros Hc H. unfold endBlock. destruct (_ || _); [assumption|]. cbv zeta.
    set (q := if state p =? stOpening then withState p stOpenMatched else p). assert (Hq : C0 q) by (unfold q; sc0).
    destruct (cdepth q) eqn:Ed; [exact (invP3_opened p H)|].
    destruct (C0_pos src q Hq) as (A & B & S). apply invP3_withCont, invP3_closeLastChildAt; [exact S|exact B|]. apply invP3_opened, H.
  Qed.

  (* adding an entry to a container that is neither a paragraph nor a definition *)
  Lemma invP3_collectInline p kind n K : invP3 p -> ckind p K -> isPSb K = false -> K <> LinkReferenceDefinitionKind ->
    invP3 (collectInline p kind n).
  Proof.
    intros H Hc Hp Hr. unfold collectInline. destruct (_ =? stDescendTerminated); [assumption|]. cbv zeta.
    set (p0 := if state p =? stOpening then withState p stOpenMatched else p).
    assert (H0 : invP3 p0) by (apply invP3_opened, H).
    assert (C0' : ckind p0 K) by (eapply L2Kind2.ckind_same; [apply L2Kind2.same_opened|exact Hc]).
    assert (Hadd : forall q, invP3 q -> ckind q K -> forall g, invP3 (updCont q (fun b => set_bik b (g b)))).
    { intros q Hq Cq g. apply invP3_updCont_at; [exact Hq|]. intros b Hb Hi. pose proof (Cq b Hb) as Eb.
      apply inv3_set_bik_free; [rewrite Eb; exact Hp|rewrite Eb; exact Hr|exact Hi]. }
    set (p1 := if 0 <? indent p0 then _ else p0).
    assert (H1 : invP3 p1 /\ ckind p1 K).
    { unfold p1. destruct (0 <? indent p0); [|tauto]. split.
      - apply (Hadd (advance p0 _)); [apply invP3_advance, H0|]. eapply L2Kind2.ckind_same; [apply L2Kind2.same_advance|exact C0'].
      - apply L2Kind2.ckind_updCont; [intros b; apply L2Kind2.bkind_set_bik|]. eapply L2Kind2.ckind_same; [apply L2Kind2.same_advance|exact C0']. }
    destruct H1 as [H1 C1].
    apply (Hadd (advance p1 n)); [apply invP3_advance, H1|]. eapply L2Kind2.ckind_same; [apply L2Kind2.same_advance|exact C1].
  Qed.

  (* ---- match rules ---- *)
  Lemma invP3_matchRule p : invP3 p -> invP3 (snd (matchRule p)).
  Proof.
    intros H. unfold matchRule. cbv zeta.
    destruct (_ || _); [assumption|].
    destruct (_ =? ListItemKind).
    { unfold matchListItem. destruct (isRestBlank p); [destruct (negb _); [assumption|apply invP3_consumeIndent, H]|].
      destruct (_ <=? _); [apply invP3_consumeIndent, H|assumption]. }
    destruct (_ =? BlockQuoteKind).
    { unfold matchBlockQuote. cbv zeta. destruct (_ <=? _); [assumption|]. destruct (negb _); [assumption|]. cbn [snd].
      unfold eatQuoteMarker. cbv zeta. destruct (0 <? _); repeat first [apply invP3_consumeIndent|apply invP3_advance]; assumption. }
    destruct (_ =? FencedCodeBlockKind).
    { unfold matchFenced. cbv zeta. destruct (if _ <? _ then _ else false); cbn [snd]; [apply invP3_consumeLine|apply invP3_consumeIndent]; assumption. }
    destruct (_ =? IndentedCodeBlockKind).
    { unfold matchIndented. cbv zeta. destruct (_ <? _); [destruct (negb _)|]; cbn [snd]; try apply invP3_consumeIndent; assumption. }
    destruct (Z.eqb_spec (containerKind p) HTMLBlockKind) as [Eh|Eh].
    { unfold matchHTML. destruct (htmlEnd _ _); [|assumption]. destruct (isRestBlank _); [assumption|]. cbn [snd]. apply invP3_consumeLine.
      apply (invP3_collectInline _ _ _ HTMLBlockKind); [assumption|rewrite <- Eh; apply L2Kind2.ckind_self|reflexivity|discriminate]. }
    assumption.
  Qed.

  (* ---- composite steps: the bounds invariant of L2Bnd supplies the cursor facts ---- *)
  Variable H : Z.
  Hypothesis H0 : 0 <= H.
  Variable ns : bool.
  Definition SP (p : lp) : Prop := L2Bnd.bndP H ns p /\ source p = src.
  Lemma SP_C0 p : SP p -> C0 p.
  Proof. intros ((_ & A & B & _) & S). split; [split; assumption|exact S]. Qed.
  Lemma src_of p q : envOf q = envOf p -> source q = source p. Proof. intros E. apply (env_parts _ _ E). Qed.

  Lemma invP3_descend_loop : forall fuel p d, SP p -> invP3 p -> invP3 (snd (descend_loop fuel p d)).
  Proof.
    induction fuel as [|f IH]; intros p d Hs Hi; [assumption|]. cbn [descend_loop]. cbv zeta.
    destruct (getAt (S d) (root p)) as [c|]; [|assumption].
    destruct (negb (isOpen c)); [assumption|]. destruct (negb (hasMatch _)); [assumption|].
    set (q := withState (withCont p (Some (S d))) stDescending).
    assert (Hq : SP q) by exact Hs.
    pose proof (invP3_matchRule q Hi) as H2.
    pose proof (L2Bnd.bndP_matchRule H ns q (proj1 Hq)) as B2.
    pose proof (src_of _ _ (env_matchRule q)) as S2.
    destruct (matchRule q) as [ok p2]. cbn [snd] in H2, B2, S2.
    assert (Hs2 : SP p2) by (split; [exact B2|rewrite S2; exact (proj2 Hq)]).
    destruct (state p2 =? stDescendTerminated).
    { cbn [snd]. destruct (C0_pos src p2 (SP_C0 p2 Hs2)) as (A & B & S). apply invP3_withCont, invP3_closeLastChildAt; assumption. }
    destruct (negb ok); [assumption|]. apply IH; assumption.
  Qed.

  (* ---- block starts ---- *)
  Ltac chain Hc Hi :=
    repeat match goal with
    | |- invP3 (consumeLine _) => apply invP3_consumeLine
    | |- invP3 (endBlock _) => apply invP3_endBlock; [sc0|]
    | |- invP3 (advance _ _) => apply invP3_advance
    | |- invP3 (consumeIndent _ _) => apply invP3_consumeIndent
    | |- invP3 (openBlock _ _) => apply invP3_openBlock; [discriminate|sc0|]
    | |- invP3 (updCont _ _) => apply invP3_updCont; [|intros ? ?; rewrite ?inv3_set_bn, ?inv3_set_bchar, ?inv3_set_bindent; assumption]
    end;
    try exact Hi.

  Lemma invP3_startBlockQuote p : C0 p -> invP3 p -> invP3 (startBlockQuote p).
  Proof. intros Hc Hi. unfold startBlockQuote. cbv zeta. destruct (_ <=? _); [assumption|]. destruct (negb _); [assumption|].
         destruct (0 <? _); chain Hc Hi. Qed.
  Lemma invP3_startATX p : C0 p -> st_open p -> invP3 p -> invP3 (startATX p).
  Proof.
    intros Hc Hs Hi. unfold startATX. cbv zeta. destruct (_ <=? _); [assumption|].
    destruct (parseATXHeading _) as [[level cs] ce]. destruct (level <? 1); [assumption|].
    apply invP3_endBlock; [sc0|]. apply invP3_consumeLine.
    apply (invP3_collectInline _ _ _ ATXHeadingKind); [chain Hc Hi| |reflexivity|discriminate].
    eapply L2Kind2.ckind_same; [apply L2Kind2.same_advance|]. apply L2Kind2.ckind_updCont; [intros b; destruct b; reflexivity|].
    apply L2Kind2.ckind_openBlock, L2Kind2.st_open_consumeIndent, Hs.
  Qed.
  Lemma invP3_startFenced p : C0 p -> st_open p -> invP3 p -> invP3 (startFenced p).
  Proof.
    intros Hc Hs Hi. unfold startFenced. cbv zeta. destruct (_ <=? _); [assumption|].
    destruct (parseCodeFence _) as [[[fc fnn] is_] ie]. destruct (fnn =? 0); [assumption|].
    apply invP3_consumeLine. destruct (spanValid _); [|chain Hc Hi].
    apply (invP3_collectInline _ _ _ FencedCodeBlockKind); [chain Hc Hi| |reflexivity|discriminate].
    eapply L2Kind2.ckind_same; [apply L2Kind2.same_advance|].
    apply L2Kind2.ckind_updCont; [intros b; destruct b; reflexivity|]. apply L2Kind2.ckind_updCont; [intros b; destruct b; reflexivity|].
    apply L2Kind2.ckind_openBlock, L2Kind2.st_open_consumeIndent, Hs.
  Qed.
  Lemma invP3_startHTML p : C0 p -> st_open p -> invP3 p -> invP3 (startHTML p).
  Proof.
    intros Hc Hs Hi. unfold startHTML. cbv zeta. destruct (_ <=? _); [assumption|]. destruct (negb _); [assumption|].
    destruct (_ <? 0); [assumption|]. destruct (negb _ && _); [assumption|]. destruct (htmlEnd _ _); [|chain Hc Hi].
    apply invP3_endBlock; [sc0|]. apply invP3_consumeLine.
    apply (invP3_collectInline _ _ _ HTMLBlockKind); [chain Hc Hi| |reflexivity|discriminate].
    apply L2Kind2.ckind_updCont; [intros b; destruct b; reflexivity|]. apply L2Kind2.ckind_openBlock, Hs.
  Qed.
  Lemma set_bkind_same x : set_bkind x (bkind x) = x. Proof. destruct x; reflexivity. Qed.
  Lemma invP3_startSetext p : C0 p -> invP3 p -> invP3 (startSetext p).
  Proof.
    intros Hc Hi. unfold startSetext. cbv zeta. destruct (negb (containerKind p =? ParagraphKind)) eqn:Ek; [assumption|].
    do 2 (match goal with |- invP3 (if ?c then _ else _) => destruct c end; [assumption|]).
    destruct (containerHasParagraphContent p) eqn:PC; cbn [negb]; [|assumption].
    apply invP3_endBlock; [sc0|]. apply invP3_consumeLine. apply invP3_updCont_at; [assumption|].
    intros b Hb Hib. rewrite inv3_set_bn. apply negb_false_iff, Z.eqb_eq in Ek.
    pose proof (L2Kind2.ckind_self p b Hb) as Eb. rewrite Ek in Eb.
    assert (HP : lpok src (bik b) = true).
    { unfold containerHasParagraphContent in PC. rewrite Ek in PC. change (negb (ParagraphKind =? ParagraphKind)) with false in PC. cbv iota zeta in PC.
      unfold contBlock in PC. rewrite Hb in PC. rewrite <- (lpok_of_para src b Eb). rewrite <- (proj2 Hc). exact PC. }
    apply inv3_parts in Hib. destruct Hib as (A & B & C). destruct b as [K s e bk ik a n c l lb]. cbn [bkind bik] in *. subst K.
    cbn [set_bkind]. apply inv3_mk; [| |exact C].
    - unfold locQ3 in *. cbn [bend bkind bik bstart] in *. change (isPSb SetextHeadingKind) with true. change (isPSb ParagraphKind) with true in A.
      destruct (e <? 0); [|reflexivity]. cbn [andb negb orb] in *. apply andb_true_iff in A. destruct A as [A _]. rewrite A, HP. reflexivity.
    - reflexivity.
  Qed.
  Lemma invP3_startThematic p : C0 p -> invP3 p -> invP3 (startThematic p).
  Proof. intros Hc Hi. unfold startThematic. cbv zeta. destruct (_ <=? _); [assumption|]. destruct (_ <? 0); [assumption|]. chain Hc Hi. Qed.
  Lemma invP3_startListItem p : C0 p -> invP3 p -> invP3 (startListItem p).
  Proof.
    intros Hc Hi. unfold startListItem. cbv zeta. destruct (_ <=? _); [assumption|].
    destruct (parseListMarker _) as [[delim n] mend]. destruct (_ || _); [assumption|]. destruct (_ && _); [assumption|].
    match goal with |- context [endBlock ?X] => assert (H1 : invP3 (endBlock X) /\ C0 (endBlock X)) end.
    { destruct (negb _ || negb _); (split; [chain Hc Hi|sc0]). }
    destruct H1 as [H1 Hc1].
    match goal with |- context [endBlock ?X] => set (q := endBlock X) in * end.
    destruct (isRestBlank q); [chain Hc1 H1|].
    destruct (indent q <? 1); [chain Hc1 H1|]. destruct (4 <? indent q); chain Hc1 H1.
  Qed.
  Lemma invP3_startIndented p : C0 p -> invP3 p -> invP3 (startIndented p).
  Proof. intros Hc Hi. unfold startIndented. destruct (_ || _ || _); [assumption|]. chain Hc Hi. Qed.

  Definition startOK2 (f : lp -> lp) : Prop := forall p, C0 p -> st_open p -> invP3 p -> invP3 (f p).
  Lemma blockStarts_ok2 : Forall startOK2 blockStarts.
  Proof.
    unfold blockStarts. repeat constructor; intros p Hc Hs Hi;
      [apply invP3_startBlockQuote|apply invP3_startATX|apply invP3_startFenced|apply invP3_startHTML
      |apply invP3_startSetext|apply invP3_startThematic|apply invP3_startListItem|apply invP3_startIndented]; assumption.
  Qed.
  Lemma invP3_tryStarts : forall fs p, Forall startOK2 fs -> Forall (L2Bnd.startOKb H ns) fs -> (forall f, In f fs -> forall q, envOf (f q) = envOf q) ->
    SP p -> invP3 p -> invP3 (snd (tryStarts fs p)).
  Proof.
    induction fs as [|f r IH]; intros p Hfs Hbs He Hs Hi; [assumption|]. cbn [tryStarts]. cbv zeta.
    inversion Hfs as [|? ? Hf Hr]; subst. inversion Hbs as [|? ? Hbf Hbr]; subst.
    assert (Hs0 : SP (withState p stOpening)) by exact Hs.
    assert (H1 : invP3 (f (withState p stOpening))) by (apply Hf; [apply SP_C0, Hs0|left; reflexivity|exact Hi]).
    destruct (_ || _); [assumption|]. apply IH; [assumption|assumption|intros g Hg; apply He; right; exact Hg| |assumption].
    split; [apply Hbf, Hs0|]. rewrite (src_of _ _ (He f (or_introl eq_refl) _)). exact (proj2 Hs).
  Qed.
  Lemma SP_tryStarts p : SP p -> SP (snd (tryStarts blockStarts p)).
  Proof.
    intros [A B]. split; [apply (L2Bnd.bndP_tryStarts H ns); [apply L2Bnd.blockStarts_okb; exact H0|exact A]|].
    rewrite (src_of _ _ (env_tryStarts blockStarts p env_blockStarts)). exact B.
  Qed.
  Lemma invP3_opening_loop : forall fuel p, SP p -> invP3 p -> invP3 (snd (opening_loop fuel p)).
  Proof.
    induction fuel as [|f IH]; intros p Hs Hi; [assumption|]. cbn [opening_loop].
    destruct (_ || _); [|assumption].
    pose proof (invP3_tryStarts blockStarts p blockStarts_ok2 (L2Bnd.blockStarts_okb H H0 ns) env_blockStarts Hs Hi) as H1.
    pose proof (SP_tryStarts p Hs) as Hs1.
    destruct (tryStarts blockStarts p) as [[|] p1]; cbn [snd] in H1, Hs1.
    - destruct (_ =? stLineConsumed); [assumption|apply IH; assumption].
    - assumption.
  Qed.
  Lemma SP_opening_loop fuel p : SP p -> SP (snd (opening_loop fuel p)).
  Proof.
    intros [A B]. split; [apply (L2Bnd.bndP_opening_loop H H0 ns), A|]. rewrite (src_of _ _ (env_opening_loop fuel p)). exact B.
  Qed.
  Lemma invP3_deferredClose p : C0 p -> invP3 p -> invP3 (deferredClose p).
  Proof.
    intros Hc Hi. unfold deferredClose. cbv zeta. destruct (_ && _); [assumption|].
    destruct (C0_pos src p Hc) as (A & B & S). apply invP3_closeLastChildAt; assumption.
  Qed.
  Lemma invP3_openNewBlocks p am : SP p -> invP3 p -> invP3 (snd (openNewBlocks p am)).
  Proof.
    intros Hs Hi. unfold openNewBlocks. destruct (_ =? 0).
    - cbn [snd]. unfold invP3. cbn. destruct (C0_pos src p (SP_C0 p Hs)) as (A & B & S). rewrite S.
      pose proof (D_closeBlock mem src ls0 Hmem (lineStart p) A (bheight (root p)) (root p) Hi) as Hc.
      destruct (closeBlock _ _ _ _) as [|b r]; [assumption|]. cbn in Hc. apply andb_true_iff in Hc. tauto.
    - pose proof (invP3_opening_loop (S (length (line p))) p Hs Hi) as H1.
      pose proof (SP_opening_loop (S (length (line p))) p Hs) as Hs1.
      destruct (opening_loop _ p) as [ht p1]. cbn [snd] in H1, Hs1.
      destruct am; cbn [snd]; [assumption|apply invP3_deferredClose; [apply SP_C0, Hs1|exact H1]].
  Qed.
End Walk.

(* ================================================================ the half that is carried from line to line *)
Fixpoint invD (b : block) : bool :=
  match b with Blk K s e bk ik a n c l lb => locD (Blk K s e bk ik a n c l lb) && forallb invD bk end.
Definition invDL (l : list block) : bool := forallb invD l.
Lemma invD_eq b : invD b = locD b && invDL (bkids b). Proof. destruct b; reflexivity. Qed.
Lemma invD_parts b : invD b = true -> locD b = true /\ invDL (bkids b) = true. Proof. rewrite invD_eq. apply andb_true_iff. Qed.
Lemma invD_of_inv3 mem src : forall b, inv3 mem src b = true -> invD b = true.
Proof.
  fix IH 1. intros [K s e bk ik a n c l lb] H. cbn [inv3] in H. apply andb_true_iff in H. destruct H as [H Hk].
  apply andb_true_iff in H. destruct H as [_ Hx]. cbn [invD]. rewrite Hx. cbn [andb]. clear Hx.
  induction bk as [|x r IHr]; [reflexivity|]. cbn [forallb] in *. apply andb_true_iff in Hk. destruct Hk as [A B]. rewrite (IH x A), (IHr B). reflexivity.
Qed.
Lemma invDL_of_inv3L mem src l : inv3L mem src l = true -> invDL l = true.
Proof. unfold inv3L, invDL. rewrite !forallb_forall. intros H x Hx. apply (invD_of_inv3 mem src), H, Hx. Qed.

Lemma invD_set_bkids b ks : invD b = true -> invDL ks = true -> invD (set_bkids b ks) = true.
Proof. intros H Hk. apply invD_parts in H. destruct H as [A _]. destruct b. rewrite invD_eq. cbn [set_bkids bkids]. rewrite Hk, andb_true_r. exact A. Qed.
Lemma invD_set_bik b ik' : bkind b <> LinkReferenceDefinitionKind -> invD b = true -> invD (set_bik b ik') = true.
Proof.
  intros Hr H. apply invD_parts in H. destruct H as [_ C]. destruct b as [K s e bk ik a n c l lb]. cbn [bkind] in Hr.
  rewrite invD_eq. cbn [set_bik bkids]. cbn [bkids] in C. rewrite C, andb_true_r. unfold locD. cbn [bkind]. apply Z.eqb_neq in Hr. rewrite Hr. reflexivity.
Qed.
Lemma invDL_app a b : invDL (a ++ b) = invDL a && invDL b. Proof. apply forallb_app. Qed.
Lemma invD_lastBlock b c : invD b = true -> lastBlock b = Some c -> invD c = true.
Proof.
  intros H Hl. apply invD_parts in H. destruct H as [_ H]. unfold invDL in H. rewrite forallb_forall in H. apply H. eapply lastBlock_In. exact Hl.
Qed.
Lemma invD_set_lastBlocks b repl : invD b = true -> invDL repl = true -> invD (set_lastBlocks b repl) = true.
Proof.
  intros H Hr. unfold set_lastBlocks. apply invD_set_bkids; [assumption|].
  rewrite invDL_app, Hr, andb_true_r. apply invD_parts in H. destruct H as [_ H]. revert H. apply forallb_sub. intros x. apply removelast_In.
Qed.
Lemma invD_updAt_at f : forall d b, invD b = true ->
  (forall x, getAt d b = Some x -> invD x = true -> invD (f x) = true) -> invD (updAt d f b) = true.
Proof.
  induction d as [|d IH]; intros b H Hf; [apply Hf; [reflexivity|assumption]|]. cbn [updAt].
  destruct (lastBlock b) as [c|] eqn:El; [|assumption].
  apply invD_set_lastBlocks; [assumption|]. unfold invDL. cbn [forallb]. rewrite andb_true_r.
  apply IH; [eapply invD_lastBlock; eassumption|]. intros x Hx. apply Hf. cbn [getAt]. rewrite El. exact Hx.
Qed.

Definition invDP (p : lp) : Prop := invD (root p) = true.
Lemma invDP_same p p' : same_tree p p' -> invDP p -> invDP p'.
Proof. intros [E1 _]. unfold invDP. rewrite E1. tauto. Qed.
Lemma invDP_updCont_at p f : invDP p ->
  (forall b, getAt (cdepth p) (root p) = Some b -> invD b = true -> invD (f b) = true) -> invDP (updCont p f).
Proof. intros H Hf. unfold invDP, updCont. cbn. apply invD_updAt_at; assumption. Qed.
(* appending entries to a container that is not a definition *)
Lemma invDP_addik q g : invDP q -> containerKind q <> LinkReferenceDefinitionKind -> invDP (updCont q (fun b => set_bik b (g b))).
Proof.
  intros Hq Nk. apply invDP_updCont_at; [exact Hq|]. intros b Hb Hi. apply invD_set_bik; [|exact Hi].
  rewrite (L2Kind2.ckind_self q b Hb). exact Nk.
Qed.
Lemma containerKind_addik q g : containerKind (updCont q (fun b => set_bik b (g b))) = containerKind q.
Proof. apply L2Kind2.containerKind_updCont. intros b. apply L2Kind2.bkind_set_bik. Qed.

Lemma invDP_go q : invDP q -> containerKind q <> LinkReferenceDefinitionKind ->
  invDP (let k := containerKind q in
        let inlineKind := if isCode k then TextKind else if k =? HTMLBlockKind then RawHTMLKind else UnparsedKind in
        let q' := updCont q (fun b => set_bik b (bik b ++ [mkI inlineKind (lineStart q + li q) (lineStart q + len (line q))])) in
        if isCode k && negb (hasByteSuffixEOL (line q')) then
          updCont q' (fun b => set_bik b (bik b ++ [mkI SoftLineBreakKind (lineStart q' + len (line q')) (lineStart q' + len (line q'))]))
        else q').
Proof.
  intros Hq Nk. cbv zeta.
  set (q' := updCont q _).
  assert (Hq' : invDP q') by (apply (invDP_addik q (fun b => bik b ++ [_])); assumption).
  assert (Kq' : containerKind q' = containerKind q) by (apply (containerKind_addik q (fun b => bik b ++ [_]))).
  destruct (isCode (containerKind q) && negb _); [|exact Hq'].
  apply (invDP_addik q' (fun b => bik b ++ [_])); [exact Hq'|rewrite Kq'; exact Nk].
Qed.

Section Line.
  Variable mem : Z -> list inline -> bool.
  Variable src : bytes.
  Variable ls0 : Z.
  Hypothesis Hmem : forall s ik, mem s ik = true -> GoodP src ls0 s ik.
  Variable H : Z.
  Hypothesis H0 : 0 <= H.
  Variable ns : bool.

  Lemma inv3_setLastBlankUpTo v : forall d rt, inv3 mem src rt = true -> inv3 mem src (setLastBlankUpTo d v rt) = true.
  Proof.
    induction d as [|d IH]; intros rt Hr; cbn [setLastBlankUpTo].
    - cbn [updAt]. rewrite inv3_set_blast. assumption.
    - apply IH. apply inv3_updAt; [intros b Hb; rewrite inv3_set_blast; assumption|assumption].
  Qed.

  Lemma D_addLineText p : C0 src p -> invP3 mem src p -> (acceptsLines (containerKind p) = false -> st_open p) -> invDP (addLineText p).
  Proof.
    intros Hc Hi Hst. unfold addLineText. cbv zeta.
    set (p1 := if isRestBlank p then _ else p).
    assert (H1 : invP3 mem src p1).
    { unfold p1. destruct (isRestBlank p); [|assumption]. apply invP3_updCont; [assumption|].
      intros b Hb. destruct (lastBlock b) as [c|] eqn:El; [|assumption].
      apply inv3_set_lastBlocks; [assumption|]. cbn. rewrite inv3_set_blast, andb_true_r. eapply inv3_lastBlock; eassumption. }
    assert (C1 : C0 src p1) by (unfold p1; destruct (isRestBlank p); [apply C0_updCont|]; exact Hc).
    assert (K1 : containerKind p1 = containerKind p).
    { unfold p1. destruct (isRestBlank p); [|reflexivity]. apply L2Kind2.containerKind_updCont.
      intros b. destruct (lastBlock b); [destruct b; reflexivity|reflexivity]. }
    assert (S1 : state p1 = state p) by (unfold p1; destruct (isRestBlank p); reflexivity).
    set (p2 := withRoot p1 _).
    assert (H2 : invP3 mem src p2) by (unfold p2, invP3; cbn; apply inv3_setLastBlankUpTo; exact H1).
    assert (C2 : C0 src p2) by (unfold p2; apply C0_withRoot; exact C1).
    assert (K2 : containerKind p2 = containerKind p).
    { rewrite <- K1. unfold containerKind, contBlock, p2, cdepth. cbn [root container withRoot setLP]. fold (cdepth p1).
      match goal with |- bkind (match getAt ?k (setLastBlankUpTo ?d ?v ?r) with _ => _ end) = _ =>
        pose proof (L2Kind2.kindAt_setLastBlankUpTo v d k r) as E end.
      destruct (getAt (cdepth p1) (setLastBlankUpTo _ _ _)); destruct (getAt (cdepth p1) (root p1)); cbn in E; try congruence; reflexivity. }
    assert (S2 : state p2 = state p) by exact S1.
    change (bkind (contBlock p1)) with (containerKind p1). rewrite K1.
    assert (X2 : invDP p2) by (apply (invD_of_inv3 mem src), H2).
    destruct (acceptsLines (containerKind p)) eqn:Ea.
    - assert (N2 : containerKind p2 <> LinkReferenceDefinitionKind) by (rewrite K2; apply L2Kind2.acceptsLines_notref, Ea).
      apply invDP_go.
      + match goal with |- invDP (if ?c then _ else _) => destruct c end; [|exact X2].
        eapply invDP_same; [apply L2Kind2.same_consumeIndent|]. apply (invDP_addik p2 (fun b => bik b ++ [_])); assumption.
      + match goal with |- containerKind (if ?c then _ else _) <> _ => destruct c end; [|exact N2].
        rewrite (L2Kind2.containerKind_same _ _ (L2Kind2.same_consumeIndent _ _)), (containerKind_addik p2 (fun b => bik b ++ [_])). exact N2.
    - match goal with |- invDP (if ?c then _ else _) => destruct c end; [|exact X2].
      assert (So : st_open p2) by (unfold L2Kind2.st_open; rewrite S2; exact (Hst eq_refl)).
      apply invDP_go.
      + eapply invDP_same; [apply L2Kind2.same_consumeIndent|]. apply (invD_of_inv3 mem src). apply (invP3_openBlock mem src ls0 Hmem); [discriminate|exact C2|exact H2].
      + apply (L2Kind2.ckind_notref _ ParagraphKind); [|discriminate].
        eapply L2Kind2.ckind_same; [apply L2Kind2.same_consumeIndent|]. apply L2Kind2.ckind_openBlock, So.
  Qed.

  Theorem D_processLine st children ls : 0 <= ls -> ls + len (from_ src ls) = H -> len src <= H ->
    (ns = true -> hasByteSuffixEOL (from_ src ls) = true) -> L2Bnd.bndL H ns children = true ->
    inv3L mem src children = true -> invDL (fst (fst (processLine st children ls src))) = true.
  Proof.
    intros Hls Hhi Hsrc Hns Hb Hi. unfold processLine. cbv zeta.
    set (p0 := resetLP st children ls src).
    assert (Hs0 : SP src H ns p0).
    { split; [|reflexivity]. unfold L2Bnd.bndP, p0, resetLP. cbn [root lineStart li line source].
      assert (Hlen : 0 <= len (from_ src ls)) by (unfold len; lia).
      refine (conj _ (conj Hls (conj (conj (Z.le_refl 0) Hlen) (conj Hhi (conj Hsrc Hns))))).
      cbn [L2Bnd.bnd forallb]. change (-1 <? 0) with true. change (documentKind =? LinkReferenceDefinitionKind) with false. cbn [orb andb]. exact Hb. }
    assert (Hi0 : invP3 mem src p0) by (unfold invP3, p0; cbn; exact Hi).
    pose proof (invP3_descend_loop mem src ls0 Hmem H ns (bheight (root p0)) p0 O Hs0 Hi0) as H1.
    assert (Hs1 : SP src H ns (snd (descend_loop (bheight (root p0)) p0 O))).
    { split; [apply (L2Bnd.bndP_descend_loop H H0 ns), Hs0|]. rewrite (src_of _ _ (env_descend_loop _ p0 O)). reflexivity. }
    fold (descendOpenBlocks p0) in H1, Hs1.
    destruct (descendOpenBlocks p0) as [am p1]. cbn [snd] in H1, Hs1.
    set (R2 := if negb (state p1 =? stDescendTerminated) then openNewBlocks p1 am else (false, p1)).
    assert (H2 : invP3 mem src (snd R2) /\ SP src H ns (snd R2) /\ (fst R2 = true -> L2Kind2.goodSt (snd R2))).
    { unfold R2. destruct (negb _).
      - split; [apply (invP3_openNewBlocks mem src ls0 Hmem H H0 ns); assumption|]. split; [|apply L2Kind2.openNewBlocks_good].
        split; [apply (L2Bnd.bndP_openNewBlocks H H0 ns), Hs1|]. rewrite (src_of _ _ (env_openNewBlocks p1 am)). exact (proj2 Hs1).
      - split; [assumption|split; [assumption|cbn; discriminate]]. }
    destruct R2 as [ht p2]. cbn [fst snd] in H2. destruct H2 as (H2 & Hs2 & G2). cbn [fst].
    assert (H3 : invDP (if ht then addLineText p2 else p2)).
    { destruct ht; [apply D_addLineText; [apply (SP_C0 src H ns), Hs2|exact H2|exact (G2 eq_refl)]|apply (invD_of_inv3 mem src), H2]. }
    unfold invDP in H3. apply invD_parts in H3. destruct H3 as [_ H3].
    destruct (if ht then addLineText p2 else p2); exact H3.
  Qed.
End Line.

Print Assumptions D_processLine.
